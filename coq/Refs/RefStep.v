(** Refs/RefStep.v — C05_inv for whole requests and whole histories.

    1. The DecRef cascade never runs out of fuel: every continuing step of the
       cascade turns a live fidRef into a dead one (the owed reference makes its
       count >= 1, and it continues only at count 1 -> 0), so #live fidRefs + 1
       steps suffice, whatever the shape of the parent links (no acyclicity is
       needed for termination; it is needed only for the absence of leaks).
    2. Every handler of Refs/Model.v preserves [RefInv] and leaves the ledger of
       transient references as it found it; hence [RefInv] and [s_held = []]
       hold after every history from the initial state, for every backend. *)
From Coq Require Import List Arith Bool ZArith Lia.
From P9V Require Import Refs.Model Refs.RefProofs.
Import ListNotations.

Section Step.
Variable B : Type.
Variable bstep : B -> bcall -> B * bans.
Notation st := (sstate B).
Notation gref := (get_ref B).
Notation RefInvD := (RefInvD B).
Notation RefInv := (RefInv B).
Notation C := (C B).

(** ---- steps that do not touch fid table, holders, fidRefs ---- *)
Notation same_core := (same_core B).

Lemma sc_fold {A} (f : A -> st -> st) (l : list A) :
  (forall a s, same_core s (f a s)) -> forall s, same_core s (fold_left (fun st a => f a st) l s).
Proof.
  intros H. induction l as [|a l IH]; intros s; cbn; [apply same_core_refl|].
  eapply same_core_trans; [apply H | apply IH].
Qed.

Lemma sc_take_handle s : same_core s (take_handle B s). Proof. repeat split; auto. Qed.

Lemma sc_path_node_for n nm s : same_core s (snd (path_node_for B n nm s)).
Proof. unfold path_node_for. destruct (alookup _ _ _); repeat split; auto. Qed.

Lemma sc_add_child n r nm s : same_core s (add_child B n r nm s).
Proof. unfold add_child. destruct (alookup _ _ _); repeat split; auto. Qed.

Lemma sc_add_path_node_for n nm c s : same_core s (add_path_node_for B n nm c s).
Proof. unfold add_path_node_for. destruct (alookup _ _ _); repeat split; auto. Qed.

Lemma sc_notify_delete fuel : forall n s, same_core s (notify_delete B fuel n s).
Proof.
  induction fuel as [|f IH]; intros n s; cbn [notify_delete]; [repeat split; auto|].
  eapply same_core_trans; [apply (sc_set_node B n (pn_with_deleted (get_node B s n)) s)|].
  apply (sc_fold (fun c st => notify_delete B f (snd c) st)). intros a s0. apply IH.
Qed.

Lemma sc_rwn_none n nm m : forall held s, same_core s (snd (rwn_loop B n nm None m held s)).
Proof.
  induction m as [|r m IH]; intros held s; cbn [rwn_loop]; [apply same_core_refl|]. cbv zeta.
  eapply same_core_trans; [|apply IH]. repeat split; auto.
Qed.

Lemma held_rwn_none' n nm m : forall held s, fst (rwn_loop B n nm None m held s) = held.
Proof. induction m as [|r m IH]; intros held s; cbn; auto. Qed.

Lemma sc_mark_child_deleted n nm s : same_core s (mark_child_deleted B bstep n nm s).
Proof.
  unfold mark_child_deleted, remove_with_name.
  set (lp := match alookup Nat.eqb nm (pn_refs (get_node B s n)) with
             | Some m => rwn_loop B n nm None m [] s | None => ([], s) end).
  assert (H1 : fst lp = [] /\ same_core s (snd lp)).
  { unfold lp. destruct (alookup Nat.eqb nm (pn_refs (get_node B s n))); [|split; [reflexivity | apply same_core_refl]].
    split; [apply held_rwn_none' | apply sc_rwn_none]. }
  destruct lp as [held s1]. cbn [fst snd] in H1. destruct H1 as (-> & SC1). cbn [release_all].
  set (s2 := set_node B n _ s1).
  assert (SC2 : same_core s s2) by (eapply same_core_trans; [exact SC1 | repeat split; auto]).
  destruct (alookup Nat.eqb nm (pn_nodes (get_node B s1 n))); auto.
  eapply same_core_trans; [exact SC2 | apply sc_notify_delete].
Qed.

Lemma sc_walk_one from_h from_node nm getattr s : same_core s (snd (walk_one B bstep from_h from_node nm getattr s)).
Proof.
  unfold walk_one, bcall_, path_node_for, take_handle.
  destruct getattr, nm as [x|]; cbn;
  repeat (match goal with
          | |- context [bstep ?b ?c] => let a := fresh "a" in destruct (bstep b c) as [? a]; destruct a; cbn
          | |- context [if ?b then _ else _] => destruct b; cbn
          | |- context [alookup ?e ?k ?l] => destruct (alookup e k l); cbn
          end); repeat split; auto.
Qed.

Lemma sc_guarded_call r g c s : same_core s (snd (guarded_call B bstep r g c s)).
Proof.
  unfold guarded_call. destruct g; [apply same_core_refl|].
  pose proof (sc_bcall B bstep c s) as H. destruct (bcall_ B bstep c s) as [a s1]. destruct a; exact H.
Qed.

(** ---- the ledger of transient references ---- *)
Definition hc (s : st) (q : nat) : nat := cnt (s_held B s) q.
Definition pmono (s s' : st) : Prop := s_panic B s = true -> s_panic B s' = true.

(** [led add rem s s']: the step added the transient references [add] and dropped [rem]; if a
    run-time panic was flagged, references may additionally have leaked (never fewer than expected) *)
Definition led (add rem : list nat) (s s' : st) : Prop :=
  pmono s s' /\
  (forall q, hc s q + cnt add q <= hc s' q + cnt rem q) /\
  (s_panic B s' = false -> forall q, hc s q + cnt add q = hc s' q + cnt rem q).

Lemma led_refl s : led [] [] s s.
Proof. split; [intro; auto|]. split; intros; lia. Qed.

Lemma led_trans a1 r1 a2 r2 s s1 s2 : led a1 r1 s s1 -> led a2 r2 s1 s2 -> led (a1 ++ a2) (r1 ++ r2) s s2.
Proof.
  intros (P1 & L1 & E1) (P2 & L2 & E2). split; [intro; auto|]. split.
  - intros q. rewrite !cnt_app. specialize (L1 q). specialize (L2 q). lia.
  - intros Hp q. assert (H1 : s_panic B s1 = false). { destruct (s_panic B s1) eqn:X; auto. rewrite (P2 X) in Hp. discriminate. }
    rewrite !cnt_app. specialize (E1 H1 q). specialize (E2 Hp q). lia.
Qed.

Lemma led_equiv a r a' r' s s' :
  (forall q, cnt a q + cnt r' q = cnt a' q + cnt r q) -> led a r s s' -> led a' r' s s'.
Proof.
  intros H (P & L & E). split; [exact P|]. split.
  - intros q. specialize (H q). specialize (L q). lia.
  - intros Hp q. specialize (H q). specialize (E Hp q). lia.
Qed.

Lemma led_sc s s' : same_core s s' -> led [] [] s s'.
Proof.
  intros (_ & Hh & _ & P). split; [exact P|]. unfold hc. rewrite Hh. split; intros; lia.
Qed.

Lemma led_ge add rem s s' q : led add rem s s' -> hc s q + cnt add q <= hc s' q + cnt rem q.
Proof. intros (_ & L & _). apply L. Qed.

Lemma C_hc s q : hc s q <= C s q.
Proof. unfold hc. rewrite C_eq. lia. Qed.

Definition heldall (l : list nat) (s : st) : Prop := forall x, In x l -> 0 < hc s x.

Lemma heldall_led l s s' : led [] [] s s' -> heldall l s -> heldall l s'.
Proof. intros L H x Hx. specialize (H x Hx). pose proof (led_ge [] [] s s' x L). cbn in *. rewrite !cnt_nil in *. lia. Qed.

(** ---- primitives, with their effect on the ledger ---- *)
Lemma sc_ok s s' d : same_core s s' -> RefInvD s d -> RefInvD s' d /\ led [] [] s s'.
Proof. intros SC Inv. split; [eapply same_core_inv; eauto | apply led_sc; auto]. Qed.

Lemma hold_ok s d r : RefInvD s d -> 0 < C s r -> RefInvD (hold B r s) d /\ led [r] [] s (hold B r s).
Proof.
  intros Inv H. split; [apply hold_inv; auto|]. split; [intro; auto|].
  unfold hc, hold; cbn. split; intros; rewrite !cnt_cons, !cnt_nil; lia.
Qed.

Lemma release_ok s d r : RefInvD s d -> 0 < hc s r -> RefInvD (release B bstep r s) d /\ led [] [r] s (release B bstep r s).
Proof.
  intros Inv H. assert (Hin : In r (s_held B s)) by (apply cnt_in; exact H).
  split; [apply release_inv; auto|]. unfold release.
  set (s0 := with_held B (remove_one r (s_held B s)) s).
  assert (D0 : RefInvD s0 (r :: d)).
  { destruct Inv as (N & I2 & I3).
    assert (CH : forall q, C s0 q + ind r q = C s q).
    { intros q. rewrite !C_eq; cbn. pose proof (cnt_remove_one r (s_held B s) q Hin). lia. }
    split; [exact N|]. split.
    - intros q Hq. cbn in Hq. change (gref s0 q) with (gref s q). rewrite I2 by auto. rewrite cnt_cons. specialize (CH q). lia.
    - intros q Hq. cbn. apply I3. rewrite cnt_cons in Hq. specialize (CH q). lia. }
  destruct (decref_ok B bstep r s0 d D0) as (_ & _ & (_ & Hh & _ & _ & P & _)).
  split; [exact P|]. unfold hc. rewrite Hh. cbn [s_held with_held s0].
  pose proof (cnt_remove_one r (s_held B s)) as R.
  split; intros; rewrite ?cnt_cons, ?cnt_nil; specialize (R q Hin); lia.
Qed.

Lemma decref_keeps r s d : RefInvD s (r :: d) -> keeps B s (snd (decref_ B bstep r s)).
Proof. intros D. apply (decref_ok B bstep r s d D). Qed.

Lemma insert_ok s d c fid r :
  RefInvD s d -> 0 < C s r -> RefInvD (insert_fid B bstep c fid r s) d /\ led [] [] s (insert_fid B bstep c fid r s).
Proof.
  intros Inv H. split; [apply insert_fid_inv; auto|].
  (* held is untouched, panic only grows: via the shape of insert_fid *)
  destruct (inv_live B s d r Inv H) as (L & Lv).
  unfold insert_fid. set (s1 := with_fids B _ (incref B r s)).
  destruct (alookup peqb (c, fid) (s_fids B s)) as [o|] eqn:E.
  - assert (D1 : RefInvD s1 (o :: d)).
    { (* as in insert_fid_inv *)
      destruct Inv as (N & I2 & I3). pose proof (incref_C B s r L Lv) as EC.
      assert (G : forall q, fr_refs (gref s1 q) = (fr_refs (gref s q) + Z.of_nat (ind r q))%Z).
      { intros q. change (gref s1 q) with (gref (incref B r s) q). unfold incref.
        destruct (Nat.eq_dec r q) as [<-|Nq].
        - rewrite gref_set_same, ind_same by auto. cbn. lia.
        - rewrite gref_set_other, ind_diff by auto. lia. }
      assert (L1 : length (s_refs B s1) = length (s_refs B s)) by (cbn; apply upd_length).
      assert (CH : forall q, C s1 q + ind o q = C s q + ind r q).
      { intros q. specialize (EC q). rewrite !C_eq in *. cbn in *.
        pose proof (cnt_aset_some peqb peqb_spec (c, fid) r o (s_fids B s) q N E). lia. }
      split; [cbn; apply (aset_nodup peqb peqb_spec); auto|]. split.
      + intros q Hq. rewrite L1 in Hq. rewrite G, I2 by auto. rewrite cnt_cons. specialize (CH q). lia.
      + intros q Hq. rewrite L1. rewrite cnt_cons in Hq. specialize (CH q).
        destruct (Nat.eq_dec r q) as [<-|Nq]; auto. rewrite (ind_diff r q) in CH by auto. apply I3. lia. }
    destruct (decref_keeps o s1 d D1) as (_ & Hh & _ & _ & P & _).
    split; [exact P|]. unfold hc. rewrite Hh. cbn. split; intros; lia.
  - split; [intro; auto|]. unfold hc; cbn. split; intros; lia.
Qed.

Lemma delete_ok s d c fid :
  RefInvD s d -> RefInvD (snd (delete_fid B bstep c fid s)) d /\ led [] [] s (snd (delete_fid B bstep c fid s)).
Proof.
  intros Inv. split; [apply delete_fid_inv; auto|].
  unfold delete_fid. destruct (alookup peqb (c, fid) (s_fids B s)) as [r|] eqn:E; [|apply led_refl].
  set (s0 := with_fids B (adel peqb (c, fid) (s_fids B s)) s).
  assert (D0 : RefInvD s0 (r :: d)).
  { destruct Inv as (N & I2 & I3).
    assert (CH : forall q, C s0 q + ind r q = C s q).
    { intros q. rewrite !C_eq. cbn. pose proof (cnt_adel peqb peqb_spec (c, fid) r (s_fids B s) q N E). lia. }
    split; [cbn; apply (adel_nodup peqb peqb_spec); auto|]. split.
    - intros q Hq. cbn in Hq. change (gref s0 q) with (gref s q). rewrite I2 by auto. rewrite cnt_cons. specialize (CH q). lia.
    - intros q Hq. cbn. apply I3. rewrite cnt_cons in Hq. specialize (CH q). lia. }
  destruct (decref_keeps r s0 d D0) as (_ & Hh & _ & _ & P & _).
  split; [exact P|]. unfold hc. rewrite Hh. cbn. split; intros; lia.
Qed.

Lemma new_ref_inc_ok s d x :
  RefInvD s d ->
  (forall p, fr_parent x = Some p -> 0 < C s p /\ fr_xattrOf x = None) ->
  (forall o, fr_xattrOf x = Some o -> 0 < C s o) ->
  let r := new_ref_inc B x s in
  fst r = length (s_refs B s) /\ RefInvD (snd r) d /\ led [fst r] [] s (snd r).
Proof.
  intros Inv HP HX. cbv zeta. split; [|split; [apply new_ref_inc_inv; auto|]].
  - unfold new_ref_inc, new_ref. cbn. destruct (fr_parent x); [reflexivity|]. destruct (fr_xattrOf x); reflexivity.
  - assert (E : s_held B (snd (new_ref_inc B x s)) = length (s_refs B s) :: s_held B s /\ fst (new_ref_inc B x s) = length (s_refs B s)
               /\ s_panic B (snd (new_ref_inc B x s)) = s_panic B s).
    { unfold new_ref_inc, new_ref. cbn. destruct (fr_parent x); [repeat split|]. destruct (fr_xattrOf x); repeat split. }
    destruct E as (Hh & -> & P). split; [intro; congruence|]. unfold hc. rewrite Hh.
    split; intros; rewrite !cnt_cons, !cnt_nil; lia.
Qed.

Lemma new_ref_handover_ok s d wr x :
  RefInvD s d -> 0 < hc s wr -> fr_parent x = Some wr -> fr_xattrOf x = None ->
  let r := new_ref_handover B wr x s in
  fst r = length (s_refs B s) /\ RefInvD (snd r) d /\ led [fst r] [wr] s (snd r).
Proof.
  intros Inv H EP EX. cbv zeta. assert (Hin : In wr (s_held B s)) by (apply cnt_in; exact H).
  split; [reflexivity|]. split; [apply new_ref_handover_inv; auto|].
  split; [intro; auto|]. unfold hc, new_ref_handover, new_ref; cbn.
  pose proof (cnt_remove_one wr (s_held B s)) as R.
  split; intros; rewrite !cnt_cons, !cnt_nil; specialize (R q Hin); lia.
Qed.

(** ---- composition ---- *)
Lemma led_weaken_panic a extra r s s' : led (a ++ extra) r s s' -> s_panic B s' = true -> led a r s s'.
Proof.
  intros (P & L & E) Hp. split; [exact P|]. split.
  - intros q. specialize (L q). rewrite cnt_app in L. lia.
  - intros X. congruence.
Qed.

Lemma led_hc_pos add rem s s' q : led add rem s s' -> 0 < hc s q + cnt add q -> cnt rem q = 0 -> 0 < hc s' q.
Proof. intros L H R. pose proof (led_ge add rem s s' q L). lia. Qed.

Definition ok (pre : list nat) (f : st -> st) : Prop :=
  forall s d, RefInvD s d -> heldall pre s -> RefInvD (f s) d /\ led [] [] s (f s).

Lemma ok_sc pre f : (forall s, same_core s (f s)) -> ok pre f.
Proof. intros H s d Inv _. apply sc_ok; auto. Qed.

Ltac led_arith := intros; rewrite ?cnt_app, ?cnt_cons, ?cnt_nil; lia.

Lemma with_fid_ok pre c fid body :
  (forall r, ok (r :: pre) (fun s => snd (body r s))) -> ok pre (fun s => snd (with_fid B bstep c fid body s)).
Proof.
  intros HB s d Inv HP. unfold with_fid, lookup_fid.
  destruct (alookup peqb (c, fid) (s_fids B s)) as [r|] eqn:E; [|cbn; split; [auto | apply led_refl]].
  destruct (hold_ok s d r Inv (C_fid B s r (alookup_in peqb peqb_spec _ _ _ E))) as (I1 & L1).
  assert (HP1 : heldall (r :: pre) (hold B r s)).
  { intros x [<-|Hx].
    - eapply led_hc_pos; [exact L1 | rewrite cnt_cons, ind_same; lia | reflexivity].
    - eapply led_hc_pos; [exact L1 | specialize (HP x Hx); lia | reflexivity]. }
  destruct (HB r (hold B r s) d I1 HP1) as (I2 & L2).
  destruct (body r (hold B r s)) as [rep s2]. cbn [snd] in *.
  assert (Hr : 0 < hc s2 r). { eapply led_hc_pos; [exact L2 | specialize (HP1 r (or_introl eq_refl)); lia | reflexivity]. }
  destruct (release_ok s2 d r I2 Hr) as (I3 & L3). split; [exact I3|].
  eapply led_equiv; [|exact (led_trans _ _ _ _ _ _ _ (led_trans _ _ _ _ _ _ _ L1 L2) L3)]. led_arith.
Qed.

(** doWalk over one or more names *)
Lemma walk_steps_ok names : forall wr s d,
  RefInvD s d -> 0 < hc s wr ->
  let r := walk_steps B bstep wr names s in
  RefInvD (snd r) d /\ match fst r with DOk nr => led [nr] [wr] s (snd r) | DFail _ => led [] [wr] s (snd r) end.
Proof.
  induction names as [|nm rest IH]; intros wr s d Inv Hw; cbv zeta.
  - cbn. split; auto. eapply led_equiv; [|apply led_refl]. led_arith.
  - cbn [walk_steps]. cbv zeta.
    destruct (negb (is_dir (fr_mode (gref s wr)))); [cbn [fst snd]; apply release_ok; auto|].
    destruct (is_deleted B s wr); [cbn [fst snd]; apply release_ok; auto|].
    pose proof (sc_walk_one (fr_file (gref s wr)) (fr_node (gref s wr)) (Some nm) true s) as SC1.
    destruct (walk_one B bstep (fr_file (gref s wr)) (fr_node (gref s wr)) (Some nm) true s) as [w s1]. cbn [snd] in SC1.
    destruct (sc_ok s s1 d SC1 Inv) as (I1 & L1).
    assert (Hw1 : 0 < hc s1 wr) by (eapply led_hc_pos; [exact L1 | lia | reflexivity]).
    destruct w as [e|h m ino].
    + cbn [fst snd]. destruct (release_ok s1 d wr I1 Hw1) as (I2 & L2). split; auto.
      eapply led_equiv; [|exact (led_trans _ _ _ _ _ _ _ L1 L2)]. led_arith.
    + pose proof (sc_path_node_for (fr_node (gref s wr)) nm s1) as SC2.
      destruct (path_node_for B (fr_node (gref s wr)) nm s1) as [cn s2]. cbn [snd] in SC2.
      destruct (sc_ok s1 s2 d SC2 I1) as (I2 & L2).
      assert (Hw2 : 0 < hc s2 wr) by (eapply led_hc_pos; [exact L2 | lia | reflexivity]).
      set (x := mkref h 0 false 0 m cn (Some wr) None XNone).
      destruct (new_ref_handover_ok s2 d wr x I2 Hw2 eq_refl eq_refl) as (E4 & I4 & L4).
      assert (Hn : 0 < hc (snd (new_ref_handover B wr x s2)) (fst (new_ref_handover B wr x s2))).
      { unfold hc, new_ref_handover, new_ref; cbn. rewrite cnt_cons, ind_same. lia. }
      destruct (new_ref_handover B wr x s2) as [nr s4]. cbn [fst snd] in *.
      pose proof (sc_add_child (fr_node (gref s wr)) nr nm s4) as SC5.
      set (s5 := add_child B (fr_node (gref s wr)) nr nm s4) in *.
      destruct (sc_ok s4 s5 d SC5 I4) as (I5 & L5).
      assert (L05 : led [nr] [wr] s s5).
      { eapply led_equiv; [|exact (led_trans _ _ _ _ _ _ _ (led_trans _ _ _ _ _ _ _ (led_trans _ _ _ _ _ _ _ L1 L2) L4) L5)]. led_arith. }
      destruct (s_panic B s5) eqn:P5.
      * cbn [fst snd]. split; auto. apply (led_weaken_panic [] [nr] [wr]); auto.
      * assert (Hn5 : 0 < hc s5 nr) by (eapply led_hc_pos; [exact L5 | lia | reflexivity]).
        specialize (IH nr s5 d I5 Hn5). cbv zeta in IH.
        destruct (walk_steps B bstep nr rest s5) as [res s6]. cbn [fst snd] in *. destruct IH as (I6 & L6).
        split; auto. destruct res.
        -- eapply led_equiv; [|exact (led_trans _ _ _ _ _ _ _ L05 L6)]. led_arith.
        -- eapply led_equiv; [|exact (led_trans _ _ _ _ _ _ _ L05 L6)]. led_arith.
Qed.

Lemma gref_sc s s' q : same_core s s' -> gref s' q = gref s q.
Proof. intros (_ & _ & R & _). unfold get_ref. rewrite R. reflexivity. Qed.

Lemma do_walk_ok ref names g s d :
  RefInvD s d -> 0 < hc s ref ->
  let r := do_walk B bstep ref names g s in
  RefInvD (snd r) d /\ match fst r with DOk nr => led [nr] [] s (snd r) | DFail _ => led [] [] s (snd r) end.
Proof.
  intros Inv Hr. cbv zeta. unfold do_walk. destruct names as [|nm rest].
  - set (x0 := gref s ref).
    destruct (fr_xattrOf x0); [cbn; split; [auto | apply led_refl]|].
    pose proof (sc_walk_one (fr_file x0) (fr_node x0) None g s) as SC1.
    destruct (walk_one B bstep (fr_file x0) (fr_node x0) None g s) as [w s1]. cbn [snd] in SC1.
    destruct (sc_ok s s1 d SC1 Inv) as (I1 & L1).
    destruct w as [e|h m ino]; [cbn; auto|].
    set (x := mkref h 0 false 0 (fr_mode x0) (fr_node x0) (fr_parent x0) None XNone).
    assert (Hr1 : 0 < hc s1 ref) by (eapply led_hc_pos; [exact L1 | lia | reflexivity]).
    assert (HP : forall p, fr_parent x = Some p -> 0 < C s1 p /\ fr_xattrOf x = None).
    { intros p Hp. split; [|reflexivity]. cbn in Hp.
      destruct (inv_live B s1 d ref I1 ltac:(pose proof (C_hc s1 ref); lia)) as (Lr & Lv).
      apply (C_parent B s1 ref p Lr Lv). rewrite (gref_sc s s1 ref SC1). exact Hp. }
    destruct (new_ref_inc_ok s1 d x I1 HP ltac:(intros o Ho; discriminate)) as (E2 & I2 & L2).
    destruct (new_ref_inc B x s1) as [nr s2]. cbn [fst snd] in *.
    assert (L02 : led [nr] [] s s2). { eapply led_equiv; [|exact (led_trans _ _ _ _ _ _ _ L1 L2)]. led_arith. }
    destruct (fr_parent x0) as [p|]; [|cbn; auto].
    destruct (is_deleted B s2 nr); [cbn; auto|].
    destruct (name_for B (fr_node (gref s2 p)) ref s2) as [nm|].
    + pose proof (sc_add_child (fr_node (gref s2 p)) nr nm s2) as SC3.
      set (s3 := add_child B (fr_node (gref s2 p)) nr nm s2) in *.
      destruct (sc_ok s2 s3 d SC3 I2) as (I3 & L3).
      assert (L03 : led [nr] [] s s3). { eapply led_equiv; [|exact (led_trans _ _ _ _ _ _ _ L02 L3)]. led_arith. }
      destruct (s_panic B s3) eqn:P3; cbn [fst snd]; split; auto.
      apply (led_weaken_panic [] [nr] []); auto.
    + cbn [fst snd]. destruct (sc_ok s2 (set_panic B s2) d (sc_set_panic B s2) I2) as (I3 & L3). split; auto.
      apply (led_weaken_panic [] [nr] []); [|reflexivity].
      eapply led_equiv; [|exact (led_trans _ _ _ _ _ _ _ L02 L3)]. led_arith.
  - destruct (hold_ok s d ref Inv ltac:(pose proof (C_hc s ref); lia)) as (I1 & L1).
    assert (H1 : 0 < hc (hold B ref s) ref) by (eapply led_hc_pos; [exact L1 | rewrite cnt_cons, ind_same; lia | reflexivity]).
    pose proof (walk_steps_ok (nm :: rest) ref (hold B ref s) d I1 H1) as W. cbv zeta in W.
    destruct (walk_steps B bstep ref (nm :: rest) (hold B ref s)) as [res s2]. cbn [fst snd] in *. destruct W as (I2 & L2).
    split; auto. destruct res.
    + eapply led_equiv; [|exact (led_trans _ _ _ _ _ _ _ L1 L2)]. led_arith.
    + eapply led_equiv; [|exact (led_trans _ _ _ _ _ _ _ L1 L2)]. led_arith.
Qed.

(** ---- the handlers ---- *)
Ltac sc_leaf :=
  first [ apply same_core_refl | apply sc_guarded_call | apply sc_bcall | apply sc_set_panic
        | match goal with
          | |- same_core ?s (snd (let '(_, _) := guarded_call B bstep ?a ?g ?c ?s in _)) =>
              let H := fresh in pose proof (sc_guarded_call a g c s) as H;
              destruct (guarded_call B bstep a g c s); exact H
          end ].

Lemma set_fields_ok s d r x' :
  RefInvD s d -> fr_refs x' = fr_refs (gref s r) -> fr_parent x' = fr_parent (gref s r) -> fr_xattrOf x' = fr_xattrOf (gref s r) ->
  RefInvD (set_ref B r x' s) d /\ led [] [] s (set_ref B r x' s).
Proof.
  intros Inv E1 E2 E3. split; [apply set_fields_inv; auto|].
  split; [intro; auto|]. unfold hc; cbn. split; intros; lia.
Qed.

Lemma ok_walk_op c fid newfid names g : ok [] (fun s => snd (do_walk_op B bstep c fid newfid names g s)).
Proof.
  unfold do_walk_op. apply with_fid_ok. intros r s d Inv HP.
  destruct (fr_opened (gref s r) && (fid =? newfid)); [cbn; split; [auto | apply led_refl]|].
  assert (Hr : 0 < hc s r) by (apply HP; left; reflexivity).
  pose proof (do_walk_ok r names g s d Inv Hr) as W. cbv zeta in W.
  destruct (do_walk B bstep r names g s) as [res s1]. cbn [fst snd] in W. destruct W as (I1 & L1).
  destruct res as [e|nr]; [cbn; auto|]. cbn [snd].
  assert (Hn : 0 < hc s1 nr) by (eapply led_hc_pos; [exact L1 | rewrite cnt_cons, ind_same; lia | reflexivity]).
  destruct (insert_ok s1 d c newfid nr I1 ltac:(pose proof (C_hc s1 nr); lia)) as (I2 & L2).
  assert (Hn2 : 0 < hc (insert_fid B bstep c newfid nr s1) nr) by (eapply led_hc_pos; [exact L2 | lia | reflexivity]).
  destruct (release_ok _ d nr I2 Hn2) as (I3 & L3). split; auto.
  eapply led_equiv; [|exact (led_trans _ _ _ _ _ _ _ (led_trans _ _ _ _ _ _ _ L1 L2) L3)]. led_arith.
Qed.

Lemma ok_attach c fid names : ok [] (fun s => snd (do_attach B bstep c fid names s)).
Proof.
  intros s d Inv _. unfold do_attach.
  pose proof (sc_bcall B bstep (BAttach (s_nexth B s)) s) as SC1.
  destruct (bcall_ B bstep (BAttach (s_nexth B s)) s) as [a s1]. cbn [snd] in SC1.
  destruct (sc_ok s s1 d SC1 Inv) as (I1 & L1).
  assert (Main : forall (s1' := take_handle B s1),
     let '(root, s2) := new_ref B (mkref (s_nexth B s) 0 false 0 MNone 0 None None XNone) s1' in
     let '(a2, s3) := bcall_ B bstep (BGetAttr (s_nexth B s)) s2 in
     RefInvD (snd (match a2 with
      | AErr e => (rerr e, release B bstep root s3)
      | AOk m ino | ABadQ m ino =>
          let s4 := set_ref B root (fr_with_mode (gref s3 root) m) s3 in
          match names with
          | [] => (rok ino, release B bstep root (insert_fid B bstep c fid root s4))
          | _ =>
              let '(d0, s5) := do_walk B bstep root names false s4 in
              match d0 with
              | DFail e => (rerr e, release B bstep root s5)
              | DOk nr => (rok ino, release B bstep root (release B bstep nr (insert_fid B bstep c fid nr s5)))
              end
          end
      end)) d /\
     led [] [] s (snd (match a2 with
      | AErr e => (rerr e, release B bstep root s3)
      | AOk m ino | ABadQ m ino =>
          let s4 := set_ref B root (fr_with_mode (gref s3 root) m) s3 in
          match names with
          | [] => (rok ino, release B bstep root (insert_fid B bstep c fid root s4))
          | _ =>
              let '(d0, s5) := do_walk B bstep root names false s4 in
              match d0 with
              | DFail e => (rerr e, release B bstep root s5)
              | DOk nr => (rok ino, release B bstep root (release B bstep nr (insert_fid B bstep c fid nr s5)))
              end
          end
      end))).
  { intros s1'. pose proof (sc_take_handle s1) as SCt. fold s1' in SCt.
    destruct (sc_ok s1 s1' d SCt I1) as (It & Lt).
    set (x := mkref (s_nexth B s) 0 false 0 MNone 0 None None XNone).
    change (new_ref B x s1') with (new_ref_inc B x s1').
    destruct (new_ref_inc_ok s1' d x It ltac:(intros p Hp; discriminate) ltac:(intros o Ho; discriminate)) as (E2 & I2 & L2).
    destruct (new_ref_inc B x s1') as [root s2]. cbn [fst snd] in *.
    pose proof (sc_bcall B bstep (BGetAttr (s_nexth B s)) s2) as SC3.
    destruct (bcall_ B bstep (BGetAttr (s_nexth B s)) s2) as [a2 s3]. cbn [snd] in SC3.
    destruct (sc_ok s2 s3 d SC3 I2) as (I3 & L3).
    assert (L03 : led [root] [] s s3).
    { eapply led_equiv; [|exact (led_trans _ _ _ _ _ _ _ (led_trans _ _ _ _ _ _ _ (led_trans _ _ _ _ _ _ _ L1 Lt) L2) L3)]. led_arith. }
    assert (H3 : 0 < hc s3 root) by (eapply led_hc_pos; [exact L03 | rewrite cnt_cons, ind_same; lia | reflexivity]).
    assert (Ok : forall m ino,
      let s4 := set_ref B root (fr_with_mode (gref s3 root) m) s3 in
      RefInvD (snd (match names with
          | [] => (rok ino, release B bstep root (insert_fid B bstep c fid root s4))
          | _ =>
              let '(d0, s5) := do_walk B bstep root names false s4 in
              match d0 with
              | DFail e => (rerr e, release B bstep root s5)
              | DOk nr => (rok ino, release B bstep root (release B bstep nr (insert_fid B bstep c fid nr s5)))
              end
          end)) d /\
      led [] [] s (snd (match names with
          | [] => (rok ino, release B bstep root (insert_fid B bstep c fid root s4))
          | _ =>
              let '(d0, s5) := do_walk B bstep root names false s4 in
              match d0 with
              | DFail e => (rerr e, release B bstep root s5)
              | DOk nr => (rok ino, release B bstep root (release B bstep nr (insert_fid B bstep c fid nr s5)))
              end
          end))).
    { intros m ino s4.
      destruct (set_fields_ok s3 d root (fr_with_mode (gref s3 root) m) I3 eq_refl eq_refl eq_refl) as (I4 & L4). fold s4 in I4, L4.
      assert (L04 : led [root] [] s s4) by (eapply led_equiv; [|exact (led_trans _ _ _ _ _ _ _ L03 L4)]; led_arith).
      assert (H4 : 0 < hc s4 root) by (eapply led_hc_pos; [exact L4 | lia | reflexivity]).
      assert (Tail : forall s5, RefInvD s5 d -> led [root] [] s s5 ->
                RefInvD (release B bstep root s5) d /\ led [] [] s (release B bstep root s5)).
      { intros s5 I5 L5.
        assert (H5 : 0 < hc s5 root) by (eapply led_hc_pos; [exact L5 | rewrite cnt_cons, ind_same; lia | reflexivity]).
        destruct (release_ok s5 d root I5 H5) as (I6 & L6). split; auto.
        eapply led_equiv; [|exact (led_trans _ _ _ _ _ _ _ L5 L6)]. led_arith. }
      destruct names as [|nm rest].
      - cbn [snd]. destruct (insert_ok s4 d c fid root I4 ltac:(pose proof (C_hc s4 root); lia)) as (I5 & L5).
        apply Tail; auto. eapply led_equiv; [|exact (led_trans _ _ _ _ _ _ _ L04 L5)]. led_arith.
      - pose proof (do_walk_ok root (nm :: rest) false s4 d I4 H4) as W. cbv zeta in W.
        destruct (do_walk B bstep root (nm :: rest) false s4) as [res s5]. cbn [fst snd] in W. destruct W as (I5 & L5).
        destruct res as [e|nr]; cbn [snd].
        + apply Tail; auto. eapply led_equiv; [|exact (led_trans _ _ _ _ _ _ _ L04 L5)]. led_arith.
        + assert (Hn : 0 < hc s5 nr) by (eapply led_hc_pos; [exact L5 | rewrite cnt_cons, ind_same; lia | reflexivity]).
          destruct (insert_ok s5 d c fid nr I5 ltac:(pose proof (C_hc s5 nr); lia)) as (I6 & L6).
          assert (Hn6 : 0 < hc (insert_fid B bstep c fid nr s5) nr) by (eapply led_hc_pos; [exact L6 | lia | reflexivity]).
          destruct (release_ok _ d nr I6 Hn6) as (I7 & L7).
          apply Tail; auto.
          eapply led_equiv; [|exact (led_trans _ _ _ _ _ _ _ (led_trans _ _ _ _ _ _ _ (led_trans _ _ _ _ _ _ _ L04 L5) L6) L7)]. led_arith. }
    destruct a2 as [m ino|e|m ino]; [apply Ok | | apply Ok].
    cbn [snd]. destruct (release_ok s3 d root I3 H3) as (I4 & L4). split; auto.
    eapply led_equiv; [|exact (led_trans _ _ _ _ _ _ _ L03 L4)]. led_arith. }
  cbv zeta in Main.
  destruct a as [m ino|e|m ino]; [| cbn; auto |];
  destruct (new_ref B _ (take_handle B s1)) as [root s2]; destruct (bcall_ B bstep (BGetAttr (s_nexth B s)) s2) as [a2 s3]; exact Main.
Qed.

Lemma ok_bracket_sc c fid body :
  (forall r s, same_core s (snd (body r s))) -> ok [] (fun s => snd (with_fid B bstep c fid body s)).
Proof. intros H. apply with_fid_ok. intros r. apply ok_sc. intros s. apply H. Qed.

Lemma ok_getattr c fid : ok [] (fun s => snd (do_getattr B bstep c fid s)).
Proof. apply ok_bracket_sc. intros r s. sc_leaf. Qed.
Lemma ok_use k c fid : ok [] (fun s => snd (do_use B bstep k c fid s)).
Proof. apply ok_bracket_sc. intros r s. sc_leaf. Qed.
Lemma ok_setattr c fid : ok [] (fun s => snd (do_setattr B bstep c fid s)).
Proof. apply ok_bracket_sc. intros r s. sc_leaf. Qed.
Lemma ok_mk k c fid nm : ok [] (fun s => snd (do_mk B bstep k c fid nm s)).
Proof. apply ok_bracket_sc. intros r s. sc_leaf. Qed.
Lemma ok_readlink c fid : ok [] (fun s => snd (do_readlink B bstep c fid s)).
Proof. apply ok_bracket_sc. intros r s. sc_leaf. Qed.
Lemma ok_readdir c fid : ok [] (fun s => snd (do_readdir B bstep c fid s)).
Proof. apply ok_bracket_sc. intros r s. cbv zeta. sc_leaf. Qed.
Lemma ok_io k c fid : ok [] (fun s => snd (do_io B bstep k c fid s)).
Proof.
  apply ok_bracket_sc. intros r s. cbv zeta.
  destruct (k =? uFsync); [sc_leaf|]. destruct (k =? uRead); destruct (fr_xop (gref s r)); sc_leaf.
Qed.

Lemma ok_link c dfid tfid nm : ok [] (fun s => snd (do_link B bstep c dfid tfid nm s)).
Proof.
  unfold do_link. apply with_fid_ok. intros r. apply with_fid_ok. intros t. apply ok_sc. intros s. sc_leaf.
Qed.

Lemma ok_unlinkat c fid nm : ok [] (fun s => snd (do_unlinkat B bstep c fid nm s)).
Proof.
  apply ok_bracket_sc. intros r s. destruct (dir_guard B s r); [sc_leaf|]. cbv zeta.
  pose proof (sc_path_node_for (fr_node (gref s r)) nm s) as SC1.
  destruct (path_node_for B (fr_node (gref s r)) nm s) as [cn s1]. cbn [snd] in SC1.
  pose proof (sc_bcall B bstep (BUnlinkAt (fr_file (gref s r)) nm) s1) as SC2.
  destruct (bcall_ B bstep (BUnlinkAt (fr_file (gref s r)) nm) s1) as [a s2]. cbn [snd] in SC2.
  assert (SC02 : same_core s s2) by (eapply same_core_trans; eauto).
  destruct a; cbn [snd]; auto; (eapply same_core_trans; [exact SC02 | apply sc_mark_child_deleted]).
Qed.

Lemma ok_open c fid flags : ok [] (fun s => snd (do_open B bstep c fid flags s)).
Proof.
  unfold do_open. apply with_fid_ok. intros r s d Inv _. cbv zeta.
  destruct (is_deleted B s r); [cbn; split; [auto | apply led_refl]|].
  destruct (_ || _); [cbn; split; [auto | apply led_refl]|]. destruct (_ && _); [cbn; split; [auto | apply led_refl]|].
  pose proof (sc_bcall B bstep (BOpen (fr_file (gref s r)) flags) s) as SC.
  destruct (bcall_ B bstep (BOpen (fr_file (gref s r)) flags) s) as [a s1]. cbn [snd] in SC.
  destruct (sc_ok s s1 d SC Inv) as (I1 & L1).
  destruct a; cbn [snd]; auto;
    destruct (set_fields_ok s1 d r (fr_with_open (gref s1 r) flags) I1 eq_refl eq_refl eq_refl) as (I2 & L2);
    (split; [exact I2|]); (eapply led_equiv; [|exact (led_trans _ _ _ _ _ _ _ L1 L2)]); led_arith.
Qed.

Lemma ok_xattrcreate c fid : ok [] (fun s => snd (do_xattrcreate B bstep c fid s)).
Proof.
  unfold do_xattrcreate. apply with_fid_ok. intros r s d Inv _.
  destruct (is_deleted B s r); cbn [snd]; [split; [auto | apply led_refl]|].
  apply set_fields_ok; auto.
Qed.

Lemma ok_clunk c fid : ok [] (fun s => snd (do_clunk B bstep c fid s)).
Proof.
  intros s d Inv HP. unfold do_clunk.
  set (body := fun r s => match fr_xop (gref s r) with
                          | XCreate => guarded_call B bstep r None (BUse uSetXattr (fr_file (gref s r))) s
                          | _ => (rok 0, s) end).
  assert (W : ok [] (fun s => snd (with_fid B bstep c fid body s))).
  { apply ok_bracket_sc. intros r s0. unfold body. destruct (fr_xop (gref s0 r)); sc_leaf. }
  destruct (W s d Inv HP) as (I1 & L1).
  destruct (with_fid B bstep c fid body s) as [cerr s1]. cbn [snd] in *.
  destruct (delete_ok s1 d c fid I1) as (I2 & L2).
  destruct (delete_fid B bstep c fid s1) as [e s2]. cbn [snd] in *.
  assert (R : RefInvD s2 d /\ led [] [] s s2).
  { split; auto. eapply led_equiv; [|exact (led_trans _ _ _ _ _ _ _ L1 L2)]. led_arith. }
  destruct e; [exact R|]. destruct (fst cerr =? 0); exact R.
Qed.

Lemma ok_remove c fid : ok [] (fun s => snd (do_remove B bstep c fid s)).
Proof.
  unfold do_remove. apply with_fid_ok. intros r s d Inv _. cbv zeta.
  set (first := match fr_parent (gref s r) with
                | None => (Some EINVAL, s)
                | Some p =>
                    if is_deleted B s r then (Some EINVAL, s)
                    else match name_for B (fr_node (gref s p)) r s with
                         | None => (Some EFAULT, set_panic B s)
                         | Some nm =>
                             let '(a, s1) := bcall_ B bstep (BUnlinkAt (fr_file (gref s p)) nm) s in
                             match a with
                             | AErr e => (Some e, s1)
                             | _ => (None, mark_child_deleted B bstep (fr_node (gref s1 p)) nm s1)
                             end
                         end
                end).
  assert (SC : same_core s (snd first)).
  { unfold first. destruct (fr_parent (gref s r)) as [p|]; [|sc_leaf].
    destruct (is_deleted B s r); [sc_leaf|]. destruct (name_for _ _ _ _) as [nm|]; [|sc_leaf].
    pose proof (sc_bcall B bstep (BUnlinkAt (fr_file (gref s p)) nm) s) as SC1.
    destruct (bcall_ B bstep (BUnlinkAt (fr_file (gref s p)) nm) s) as [a s1]. cbn [snd] in SC1.
    destruct a; cbn [snd]; auto; (eapply same_core_trans; [exact SC1 | apply sc_mark_child_deleted]). }
  destruct first as [err s1]. cbn [snd] in SC.
  destruct (sc_ok s s1 d SC Inv) as (I1 & L1).
  destruct (s_panic B s1 && negb (s_panic B s)); [cbn; auto|].
  destruct (delete_ok s1 d c fid I1) as (I2 & L2).
  destruct (delete_fid B bstep c fid s1) as [fe s2]. cbn [snd] in *.
  assert (R : RefInvD s2 d /\ led [] [] s s2).
  { split; auto. eapply led_equiv; [|exact (led_trans _ _ _ _ _ _ _ L1 L2)]. led_arith. }
  destruct fe; [exact R|]. destruct err; exact R.
Qed.

Lemma ok_create c fid nm flags : ok [] (fun s => snd (do_create B bstep c fid nm flags s)).
Proof.
  unfold do_create. apply with_fid_ok. intros r s d Inv HP.
  assert (Hr : 0 < hc s r) by (apply HP; left; reflexivity).
  destruct (dir_guard B s r); [cbn; split; [auto | apply led_refl]|]. cbv zeta.
  pose proof (sc_bcall B bstep (BCreate (fr_file (gref s r)) nm (s_nexth B s)) s) as SC1.
  destruct (bcall_ B bstep (BCreate (fr_file (gref s r)) nm (s_nexth B s)) s) as [a s1]. cbn [snd] in SC1.
  destruct (sc_ok s s1 d SC1 Inv) as (I1 & L1).
  assert (Main : forall ino,
    RefInvD (snd (let '(cn, s2) := path_node_for B (fr_node (gref s r)) nm (take_handle B s1) in
         let '(nr, s3) := new_ref_inc B (mkref (s_nexth B s) 0 true flags MReg cn (Some r) None XNone) s2 in
         let s4 := add_child B (fr_node (gref s r)) nr nm s3 in
         if s_panic B s4 then (rerr EFAULT, s4)
         else (rok ino, release B bstep nr (insert_fid B bstep c fid nr s4)))) d /\
    led [] [] s (snd (let '(cn, s2) := path_node_for B (fr_node (gref s r)) nm (take_handle B s1) in
         let '(nr, s3) := new_ref_inc B (mkref (s_nexth B s) 0 true flags MReg cn (Some r) None XNone) s2 in
         let s4 := add_child B (fr_node (gref s r)) nr nm s3 in
         if s_panic B s4 then (rerr EFAULT, s4)
         else (rok ino, release B bstep nr (insert_fid B bstep c fid nr s4))))).
  { intros ino.
    pose proof (sc_take_handle s1) as SCt. destruct (sc_ok s1 _ d SCt I1) as (It & Lt).
    pose proof (sc_path_node_for (fr_node (gref s r)) nm (take_handle B s1)) as SC2.
    destruct (path_node_for B (fr_node (gref s r)) nm (take_handle B s1)) as [cn s2]. cbn [snd] in SC2.
    destruct (sc_ok _ s2 d SC2 It) as (I2 & L2).
    assert (L02 : led [] [] s s2).
    { eapply led_equiv; [|exact (led_trans _ _ _ _ _ _ _ (led_trans _ _ _ _ _ _ _ L1 Lt) L2)]. led_arith. }
    assert (Hr2 : 0 < hc s2 r) by (eapply led_hc_pos; [exact L02 | lia | reflexivity]).
    set (x := mkref (s_nexth B s) 0 true flags MReg cn (Some r) None XNone).
    assert (HPx : forall p, fr_parent x = Some p -> 0 < C s2 p /\ fr_xattrOf x = None).
    { intros p [= <-]. split; [pose proof (C_hc s2 r); lia | reflexivity]. }
    destruct (new_ref_inc_ok s2 d x I2 HPx ltac:(intros o Ho; discriminate)) as (E3 & I3 & L3).
    destruct (new_ref_inc B x s2) as [nr s3]. cbn [fst snd] in *.
    pose proof (sc_add_child (fr_node (gref s r)) nr nm s3) as SC4.
    set (s4 := add_child B (fr_node (gref s r)) nr nm s3) in *.
    destruct (sc_ok s3 s4 d SC4 I3) as (I4 & L4).
    assert (L04 : led [nr] [] s s4).
    { eapply led_equiv; [|exact (led_trans _ _ _ _ _ _ _ (led_trans _ _ _ _ _ _ _ L02 L3) L4)]. led_arith. }
    destruct (s_panic B s4) eqn:P4; cbn [snd].
    - split; auto. apply (led_weaken_panic [] [nr] []); auto.
    - assert (Hn : 0 < hc s4 nr) by (eapply led_hc_pos; [exact L04 | rewrite cnt_cons, ind_same; lia | reflexivity]).
      destruct (insert_ok s4 d c fid nr I4 ltac:(pose proof (C_hc s4 nr); lia)) as (I5 & L5).
      assert (Hn5 : 0 < hc (insert_fid B bstep c fid nr s4) nr) by (eapply led_hc_pos; [exact L5 | lia | reflexivity]).
      destruct (release_ok _ d nr I5 Hn5) as (I6 & L6). split; auto.
      eapply led_equiv; [|exact (led_trans _ _ _ _ _ _ _ (led_trans _ _ _ _ _ _ _ L04 L5) L6)]. led_arith. }
  destruct a as [m ino|e|m ino]; [apply Main | cbn; auto | apply Main].
Qed.

Lemma ok_xattrwalk c fid newfid : ok [] (fun s => snd (do_xattrwalk B bstep c fid newfid s)).
Proof.
  unfold do_xattrwalk. apply with_fid_ok. intros r s d Inv HP.
  assert (Hr : 0 < hc s r) by (apply HP; left; reflexivity).
  destruct (is_deleted B s r); [cbn; split; [auto | apply led_refl]|]. cbv zeta.
  pose proof (sc_bcall B bstep (BUse uGetXattr (fr_file (gref s r))) s) as SC1.
  destruct (bcall_ B bstep (BUse uGetXattr (fr_file (gref s r))) s) as [a s1]. cbn [snd] in SC1.
  destruct (sc_ok s s1 d SC1 Inv) as (I1 & L1).
  assert (Main :
    let '(nr, s2) := new_ref_inc B (mkref (fr_file (gref s r)) 0 false 0 MNone (fr_node (gref s r)) None (Some r) XWalk) s1 in
    RefInvD (release B bstep nr (insert_fid B bstep c newfid nr s2)) d /\
    led [] [] s (release B bstep nr (insert_fid B bstep c newfid nr s2))).
  { assert (Hr1 : 0 < hc s1 r) by (eapply led_hc_pos; [exact L1 | lia | reflexivity]).
    set (x := mkref (fr_file (gref s r)) 0 false 0 MNone (fr_node (gref s r)) None (Some r) XWalk).
    assert (HX : forall o, fr_xattrOf x = Some o -> 0 < C s1 o).
    { intros o [= <-]. pose proof (C_hc s1 r); lia. }
    destruct (new_ref_inc_ok s1 d x I1 ltac:(intros p Hp; discriminate) HX) as (E2 & I2 & L2).
    destruct (new_ref_inc B x s1) as [nr s2]. cbn [fst snd] in *.
    assert (L02 : led [nr] [] s s2) by (eapply led_equiv; [|exact (led_trans _ _ _ _ _ _ _ L1 L2)]; led_arith).
    assert (Hn : 0 < hc s2 nr) by (eapply led_hc_pos; [exact L02 | rewrite cnt_cons, ind_same; lia | reflexivity]).
    destruct (insert_ok s2 d c newfid nr I2 ltac:(pose proof (C_hc s2 nr); lia)) as (I3 & L3).
    assert (Hn3 : 0 < hc (insert_fid B bstep c newfid nr s2) nr) by (eapply led_hc_pos; [exact L3 | lia | reflexivity]).
    destruct (release_ok _ d nr I3 Hn3) as (I4 & L4). split; auto.
    eapply led_equiv; [|exact (led_trans _ _ _ _ _ _ _ (led_trans _ _ _ _ _ _ _ L02 L3) L4)]. led_arith. }
  destruct (new_ref_inc B _ s1) as [nr s2].
  destruct a; cbn [snd]; auto.
Qed.

Lemma stop_loop_ok l c : forall s d, RefInvD s d -> RefInvD (stop_loop B bstep l c s) d /\ led [] [] s (stop_loop B bstep l c s).
Proof.
  induction l as [|[[c' f] r] l IH]; intros s d Inv; cbn [stop_loop]; [split; [auto | apply led_refl]|].
  destruct (c' =? c); auto.
  destruct (delete_ok s d c' f Inv) as (I1 & L1). destruct (IH _ d I1) as (I2 & L2). split; auto.
  eapply led_equiv; [|exact (led_trans _ _ _ _ _ _ _ L1 L2)]. led_arith.
Qed.

Lemma ok_stop c : ok [] (fun s => snd (do_stop B bstep c s)).
Proof. intros s d Inv _. unfold do_stop. cbn [snd]. apply stop_loop_ok; auto. Qed.

(** ---- rename ---- *)
Lemma led_keeps s s' : keeps B s s' -> led [] [] s s'.
Proof. intros (_ & Hh & _ & _ & P & _). split; [exact P|]. unfold hc. rewrite Hh. split; intros; lia. Qed.

Lemma rename_cb_ok tgt newnm r s d :
  RefInvD s d -> 0 < C s r -> 0 < C s tgt ->
  RefInvD (rename_cb B bstep tgt newnm r s) d /\ led [] [] s (rename_cb B bstep tgt newnm r s).
Proof.
  intros Inv Hr Ht. unfold rename_cb.
  destruct (fr_parent (gref s r)) as [p|] eqn:EP; [|apply sc_ok; auto; apply sc_set_panic].
  pose proof (reparent_inv B s d r p tgt Inv Hr EP Ht) as I1.
  set (s1 := incref B tgt (set_ref B r (fr_with_parent (gref s r) (Some tgt)) s)) in *.
  assert (L1 : led [] [] s s1). { split; [intro; auto|]. unfold hc; cbn. split; intros; lia. }
  pose proof (sc_add_child (fr_node (gref s1 tgt)) r newnm s1) as SC2.
  set (s2 := add_child B (fr_node (gref s1 tgt)) r newnm s1) in *.
  destruct (sc_ok s1 s2 (p :: d) SC2 I1) as (I2 & L2).
  pose proof (sc_bcall B bstep (BRenamed (fr_file (gref s2 r)) (fr_file (gref s2 tgt)) newnm) s2) as SC3.
  set (s3 := snd (bcall_ B bstep (BRenamed (fr_file (gref s2 r)) (fr_file (gref s2 tgt)) newnm) s2)) in *.
  destruct (sc_ok s2 s3 (p :: d) SC3 I2) as (I3 & L3).
  destruct (decref_ok B bstep p s3 d I3) as (I4 & _ & K4). split; auto.
  eapply led_equiv; [|exact (led_trans _ _ _ _ _ _ _ (led_trans _ _ _ _ _ _ _ (led_trans _ _ _ _ _ _ _ L1 L2) L3) (led_keeps _ _ K4))]. led_arith.
Qed.

Lemma rwn_loop_ok n nm tgt newnm m : forall held s d,
  RefInvD s d -> 0 < hc s tgt ->
  let r := rwn_loop B n nm (Some (rename_cb B bstep tgt newnm)) m held s in
  RefInvD (snd r) d /\ exists new, fst r = held ++ new /\ led new [] s (snd r).
Proof.
  induction m as [|r m IH]; intros held s d Inv Ht; cbv zeta; cbn [rwn_loop].
  - cbn. split; auto. exists []. rewrite app_nil_r. split; [reflexivity | apply led_refl].
  - cbv zeta.
    set (s1 := set_node B n _ s).
    assert (SC1 : same_core s s1) by (repeat split; auto).
    destruct (sc_ok s s1 d SC1 Inv) as (I1 & L1).
    assert (Ht1 : 0 < hc s1 tgt) by (eapply led_hc_pos; [exact L1 | lia | reflexivity]).
    unfold try_incref.
    destruct (Z.leb_spec (fr_refs (gref s1 r)) 0) as [Le|Gt].
    + specialize (IH held s1 d I1 Ht1). cbv zeta in IH. destruct IH as (I2 & new & E2 & L2).
      cbn [fst snd]. split; [exact I2|]. exists new. split; [exact E2|].
      eapply led_equiv; [|exact (led_trans _ _ _ _ _ _ _ L1 L2)]. led_arith.
    + assert (Lr : r < length (s_refs B s1)).
      { destruct (Nat.lt_ge_cases r (length (s_refs B s1))); auto. unfold get_ref in Gt. rewrite nth_overflow in Gt by auto. cbn in Gt. lia. }
      change (with_held B (r :: s_held B (incref B r s1)) (incref B r s1)) with (hold B r s1).
      pose proof (hold_inv_live B s1 d r I1 Lr Gt) as I2.
      assert (L2 : led [r] [] s1 (hold B r s1)).
      { split; [intro; auto|]. unfold hc, hold; cbn. split; intros; rewrite !cnt_cons, !cnt_nil; lia. }
      assert (Hr2 : 0 < hc (hold B r s1) r) by (eapply led_hc_pos; [exact L2 | rewrite cnt_cons, ind_same; lia | reflexivity]).
      assert (Ht2 : 0 < hc (hold B r s1) tgt) by (eapply led_hc_pos; [exact L2 | lia | reflexivity]).
      destruct (rename_cb_ok tgt newnm r (hold B r s1) d I2 ltac:(pose proof (C_hc (hold B r s1) r); lia) ltac:(pose proof (C_hc (hold B r s1) tgt); lia)) as (I3 & L3).
      set (s3 := rename_cb B bstep tgt newnm r (hold B r s1)) in *.
      assert (Ht3 : 0 < hc s3 tgt) by (eapply led_hc_pos; [exact L3 | lia | reflexivity]).
      specialize (IH (held ++ [r]) s3 d I3 Ht3). cbv zeta in IH. destruct IH as (I4 & new & E4 & L4).
      split; auto. exists (r :: new). split; [rewrite E4, <- app_assoc; reflexivity|].
      eapply led_equiv; [|exact (led_trans _ _ _ _ _ _ _ (led_trans _ _ _ _ _ _ _ (led_trans _ _ _ _ _ _ _ L1 L2) L3) L4)]. led_arith.
Qed.

Lemma release_all_ok l : forall s d,
  RefInvD s d -> (forall q, cnt l q <= hc s q) ->
  RefInvD (release_all B bstep l s) d /\ led [] l s (release_all B bstep l s).
Proof.
  induction l as [|r l IH]; intros s d Inv H; cbn [release_all]; [split; [auto | apply led_refl]|].
  assert (Hr : 0 < hc s r). { specialize (H r). rewrite cnt_cons, ind_same in H. lia. }
  destruct (release_ok s d r Inv Hr) as (I1 & L1).
  assert (H1 : forall q, cnt l q <= hc (release B bstep r s) q).
  { intros q. specialize (H q). rewrite cnt_cons in H. pose proof (led_ge _ _ _ _ q L1) as G.
    rewrite cnt_cons, !cnt_nil in G. lia. }
  destruct (IH _ d I1 H1) as (I2 & L2). split; auto.
  eapply led_equiv; [|exact (led_trans _ _ _ _ _ _ _ L1 L2)]. led_arith.
Qed.

(** notifyNameChange: the fidRefs it notifies are held meanwhile and returned *)
Definition nspec (f : list nat * st -> list nat * st) : Prop :=
  forall held s d, RefInvD s d ->
    RefInvD (snd (f (held, s))) d /\ exists new, fst (f (held, s)) = held ++ new /\ led new [] s (snd (f (held, s))).

Lemma nspec_fold {A} (f : A -> list nat * st -> list nat * st) (l : list A) :
  (forall a, nspec (f a)) -> nspec (fun hs => fold_left (fun st a => f a st) l hs).
Proof.
  intros H. induction l as [|a l IH]; intros held s d Inv; cbn [fold_left].
  - split; auto. exists []. rewrite app_nil_r. split; [reflexivity | apply led_refl].
  - destruct (H a held s d Inv) as (I1 & n1 & E1 & L1). destruct (f a (held, s)) as [h1 s1]. cbn [fst snd] in *. subst h1.
    destruct (IH (held ++ n1) s1 d I1) as (I2 & n2 & E2 & L2). split; auto.
    exists (n1 ++ n2). split; [rewrite E2, app_assoc; reflexivity|].
    eapply led_equiv; [|exact (led_trans _ _ _ _ _ _ _ L1 L2)]. led_arith.
Qed.

Lemma renamed_call_ok r nm : nspec (renamed_call B bstep r nm).
Proof.
  intros held s d Inv. unfold renamed_call, try_incref.
  destruct (Z.leb_spec (fr_refs (gref s r)) 0) as [Le|Gt].
  - cbn [fst snd]. split; auto. exists []. rewrite app_nil_r. split; [reflexivity | apply led_refl].
  - assert (Lr : r < length (s_refs B s)).
    { destruct (Nat.lt_ge_cases r (length (s_refs B s))); auto. unfold get_ref in Gt. rewrite nth_overflow in Gt by auto. cbn in Gt. lia. }
    change (with_held B (r :: s_held B (incref B r s)) (incref B r s)) with (hold B r s).
    pose proof (hold_inv_live B s d r Inv Lr Gt) as I2.
    assert (L2 : led [r] [] s (hold B r s)).
    { split; [intro; auto|]. unfold hc, hold; cbn. split; intros; rewrite !cnt_cons, !cnt_nil; lia. }
    cbn [fst snd].
    assert (SC : same_core (hold B r s) (match fr_parent (gref (hold B r s) r) with
                 | Some p => snd (bcall_ B bstep (BRenamed (fr_file (gref (hold B r s) r)) (fr_file (gref (hold B r s) p)) nm) (hold B r s))
                 | None => set_panic B (hold B r s) end)).
    { destruct (fr_parent (gref (hold B r s) r)); [apply sc_bcall | apply sc_set_panic]. }
    destruct (sc_ok _ _ d SC I2) as (I3 & L3). split; auto. exists [r]. split; [reflexivity|].
    eapply led_equiv; [|exact (led_trans _ _ _ _ _ _ _ L2 L3)]. led_arith.
Qed.

Lemma notify_name_change_ok fuel : forall n, nspec (notify_name_change B bstep fuel n).
Proof.
  induction fuel as [|f IH]; intros n held s d Inv; cbn [notify_name_change fst snd].
  - destruct (sc_ok s (set_oof B s) d (sc_set_oof B s) Inv) as (I1 & L1). split; auto.
    exists []. rewrite app_nil_r. split; [reflexivity | exact L1].
  - cbv zeta.
    pose proof (nspec_fold (fun e hs => fold_left (fun st' r => renamed_call B bstep r (fst e) st') (snd e) hs) (pn_refs (get_node B s n))
                  (fun e => nspec_fold (fun r hs => renamed_call B bstep r (fst e) hs) (snd e) (fun r => renamed_call_ok r (fst e)))) as F1.
    destruct (F1 held s d Inv) as (I1 & n1 & E1 & L1).
    destruct (fold_left _ (pn_refs (get_node B s n)) (held, s)) as [h1 s1]. cbn [fst snd] in *. subst h1.
    pose proof (nspec_fold (fun c hs => notify_name_change B bstep f (snd c) hs) (pn_nodes (get_node B s n)) (fun c => IH (snd c))) as F2.
    destruct (F2 (held ++ n1) s1 d I1) as (I2 & n2 & E2 & L2). split; auto.
    exists (n1 ++ n2). split; [rewrite E2, app_assoc; reflexivity|].
    eapply led_equiv; [|exact (led_trans _ _ _ _ _ _ _ L1 L2)]. led_arith.
Qed.

Lemma remove_with_name_ok n nm tgt newnm s d :
  RefInvD s d -> 0 < hc s tgt ->
  let r := remove_with_name B bstep n nm (Some (rename_cb B bstep tgt newnm)) s in
  RefInvD (snd r) d /\ led [] [] s (snd r).
Proof.
  intros Inv Ht. cbv zeta. unfold remove_with_name.
  set (lp := match alookup Nat.eqb nm (pn_refs (get_node B s n)) with
             | Some m => rwn_loop B n nm (Some (rename_cb B bstep tgt newnm)) m [] s | None => ([], s) end).
  assert (H1 : RefInvD (snd lp) d /\ exists new, fst lp = new /\ led new [] s (snd lp)).
  { unfold lp. destruct (alookup Nat.eqb nm (pn_refs (get_node B s n))) as [m|].
    - pose proof (rwn_loop_ok n nm tgt newnm m [] s d Inv Ht) as W. cbv zeta in W. destruct W as (I & new & E & L).
      split; auto. exists new. split; auto.
    - cbn. split; auto. exists []. split; [reflexivity | apply led_refl]. }
  destruct lp as [held s1]. cbn [fst snd] in H1. destruct H1 as (I1 & new & -> & L1).
  set (s2 := set_node B n _ s1).
  assert (SC2 : same_core s1 s2) by (repeat split; auto).
  destruct (sc_ok s1 s2 d SC2 I1) as (I2 & L2).
  assert (L02 : led new [] s s2) by (eapply led_equiv; [|exact (led_trans _ _ _ _ _ _ _ L1 L2)]; led_arith).
  assert (H2 : forall q, cnt new q <= hc s2 q).
  { intros q. pose proof (led_ge _ _ _ _ q L02) as G. rewrite cnt_nil in G. lia. }
  cbn [snd]. destruct (release_all_ok new s2 d I2 H2) as (I3 & L3). split; auto.
  eapply led_equiv; [|exact (led_trans _ _ _ _ _ _ _ L02 L3)]. led_arith.
Qed.

Lemma rename_child_to_ok fnode oldnm tgt newnm s d :
  RefInvD s d -> 0 < hc s tgt ->
  RefInvD (rename_child_to B bstep fnode oldnm tgt newnm s) d /\ led [] [] s (rename_child_to B bstep fnode oldnm tgt newnm s).
Proof.
  intros Inv Ht. unfold rename_child_to. cbv zeta.
  pose proof (sc_mark_child_deleted (fr_node (gref s tgt)) newnm s) as SC1.
  set (s1 := mark_child_deleted B bstep (fr_node (gref s tgt)) newnm s) in *.
  destruct (sc_ok s s1 d SC1 Inv) as (I1 & L1).
  assert (Ht1 : 0 < hc s1 tgt) by (eapply led_hc_pos; [exact L1 | lia | reflexivity]).
  pose proof (remove_with_name_ok fnode oldnm tgt newnm s1 d I1 Ht1) as W. cbv zeta in W.
  destruct (remove_with_name B bstep fnode oldnm (Some (rename_cb B bstep tgt newnm)) s1) as [orig s2]. cbn [snd] in W.
  destruct W as (I2 & L2).
  assert (L02 : led [] [] s s2) by (eapply led_equiv; [|exact (led_trans _ _ _ _ _ _ _ L1 L2)]; led_arith).
  destruct orig as [cn|]; [|auto].
  pose proof (sc_add_path_node_for (fr_node (gref s tgt)) newnm cn s2) as SC3.
  set (s3 := add_path_node_for B (fr_node (gref s tgt)) newnm cn s2) in *.
  destruct (sc_ok s2 s3 d SC3 I2) as (I3 & L3).
  assert (L03 : led [] [] s s3) by (eapply led_equiv; [|exact (led_trans _ _ _ _ _ _ _ L02 L3)]; led_arith).
  destruct (s_panic B s3); [auto|].
  destruct (notify_name_change_ok (node_fuel B s3) cn [] s3 d I3) as (I4 & new & E4 & L4).
  destruct (notify_name_change B bstep (node_fuel B s3) cn ([], s3)) as [held s4]. cbn [fst snd app] in *. subst held.
  assert (L04 : led new [] s s4) by (eapply led_equiv; [|exact (led_trans _ _ _ _ _ _ _ L03 L4)]; led_arith).
  assert (H4 : forall q, cnt new q <= hc s4 q).
  { intros q. pose proof (led_ge _ _ _ _ q L04) as G. rewrite cnt_nil in G. lia. }
  destruct (release_all_ok new s4 d I4 H4) as (I5 & L5). split; auto.
  eapply led_equiv; [|exact (led_trans _ _ _ _ _ _ _ L04 L5)]. led_arith.
Qed.

Lemma ok_rename c fid dfid nm : ok [] (fun s => snd (do_rename B bstep c fid dfid nm s)).
Proof.
  unfold do_rename. apply with_fid_ok. intros r. apply with_fid_ok. intros t s d Inv HP. cbv zeta.
  assert (Ht : 0 < hc s t) by (apply HP; left; reflexivity).
  destruct (fr_parent (gref s r)) as [p|]; [|cbn; split; [auto | apply led_refl]].
  destruct (_ || _); [cbn; split; [auto | apply led_refl]|].
  destruct (is_deleted B s p); [cbn [snd]; apply sc_ok; auto; apply sc_set_panic|].
  destruct (name_for B (fr_node (gref s p)) r s) as [old|]; [|cbn [snd]; apply sc_ok; auto; apply sc_set_panic].
  destruct (_ && _); [cbn; split; [auto | apply led_refl]|].
  pose proof (sc_bcall B bstep (BRenameAt (fr_file (gref s p)) old (fr_file (gref s t)) nm) s) as SC1.
  destruct (bcall_ B bstep (BRenameAt (fr_file (gref s p)) old (fr_file (gref s t)) nm) s) as [a s1]. cbn [snd] in SC1.
  destruct (sc_ok s s1 d SC1 Inv) as (I1 & L1).
  assert (Ht1 : 0 < hc s1 t) by (eapply led_hc_pos; [exact L1 | lia | reflexivity]).
  destruct (rename_child_to_ok (fr_node (gref s p)) old t nm s1 d I1 Ht1) as (I2 & L2).
  assert (R : RefInvD (rename_child_to B bstep (fr_node (gref s p)) old t nm s1) d /\
              led [] [] s (rename_child_to B bstep (fr_node (gref s p)) old t nm s1)).
  { split; auto. eapply led_equiv; [|exact (led_trans _ _ _ _ _ _ _ L1 L2)]. led_arith. }
  destruct a; cbn [snd]; auto.
Qed.

Lemma ok_renameat c fid oldnm fid2 newnm : ok [] (fun s => snd (do_renameat B bstep c fid oldnm fid2 newnm s)).
Proof.
  unfold do_renameat. apply with_fid_ok. intros r. apply with_fid_ok. intros t s d Inv HP. cbv zeta.
  assert (Ht : 0 < hc s t) by (apply HP; left; reflexivity).
  destruct (_ || _); [cbn; split; [auto | apply led_refl]|].
  destruct (fr_opened (gref s r)); [cbn; split; [auto | apply led_refl]|].
  destruct (_ && _); [cbn; split; [auto | apply led_refl]|].
  pose proof (sc_bcall B bstep (BRenameAt (fr_file (gref s r)) oldnm (fr_file (gref s t)) newnm) s) as SC1.
  destruct (bcall_ B bstep (BRenameAt (fr_file (gref s r)) oldnm (fr_file (gref s t)) newnm) s) as [a s1]. cbn [snd] in SC1.
  destruct (sc_ok s s1 d SC1 Inv) as (I1 & L1).
  assert (Ht1 : 0 < hc s1 t) by (eapply led_hc_pos; [exact L1 | lia | reflexivity]).
  destruct (rename_child_to_ok (fr_node (gref s r)) oldnm t newnm s1 d I1 Ht1) as (I2 & L2).
  assert (R : RefInvD (rename_child_to B bstep (fr_node (gref s r)) oldnm t newnm s1) d /\
              led [] [] s (rename_child_to B bstep (fr_node (gref s r)) oldnm t newnm s1)).
  { split; auto. eapply led_equiv; [|exact (led_trans _ _ _ _ _ _ _ L1 L2)]. led_arith. }
  destruct a; cbn [snd]; auto.
Qed.

(** ---- every request, every history ---- *)
Theorem step_ok o : ok [] (fun s => snd (step B bstep o s)).
Proof.
  destruct o; cbn [step].
  - apply ok_attach. - apply ok_walk_op. - apply ok_clunk. - apply ok_remove. - apply ok_open.
  - apply ok_create. - apply ok_mk. - apply ok_link. - apply ok_getattr. - apply ok_use. - apply ok_io.
  - apply ok_setattr. - apply ok_readdir. - apply ok_readlink. - apply ok_unlinkat. - apply ok_rename.
  - apply ok_renameat. - apply ok_xattrwalk. - apply ok_xattrcreate. - apply ok_stop.
Qed.

Theorem run_ok ops : forall s, RefInv s -> RefInv (snd (run B bstep ops s)) /\ led [] [] s (snd (run B bstep ops s)).
Proof.
  induction ops as [|o ops IH]; intros s Inv; cbn [run]; [split; [auto | apply led_refl]|].
  destruct (step_ok o s [] Inv ltac:(intros x [])) as (I1 & L1).
  destruct (step B bstep o s) as [rep s1]. cbn [snd] in *.
  destruct (IH s1 I1) as (I2 & L2). destruct (run B bstep ops s1) as [reps s2]. cbn [snd] in *.
  split; auto. eapply led_equiv; [|exact (led_trans _ _ _ _ _ _ _ L1 L2)]. led_arith.
Qed.

Lemma cnt_zero_nil l : (forall q, cnt l q = 0) -> l = [].
Proof. destruct l as [|x l]; auto. intros H. specialize (H x). rewrite cnt_cons, ind_same in H. lia. Qed.

(** C05_inv: after every history from the initial state, for every backend: the reference-count
    invariant holds, the DecRef cascades never ran out of fuel, and (no run-time panic having been
    flagged) no transient reference is left *)
Theorem history_inv ops b :
  let s := snd (run B bstep ops (init_state B b)) in
  RefInv s /\ (s_panic B s = false -> s_held B s = []).
Proof.
  cbv zeta. destruct (run_ok ops (init_state B b) (init_inv B b)) as (I & (_ & _ & E)).
  split; auto. intros Hp. apply cnt_zero_nil. intros q. specialize (E Hp q). unfold hc in E. cbn in E.
  rewrite !cnt_nil in E. lia.
Qed.
End Step.
