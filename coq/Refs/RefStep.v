(** Refs/RefStep.v — C05_inv for whole requests and whole histories.

    1. The DecRef cascade never runs out of fuel: every continuing step of the
       cascade turns a live fidRef into a dead one (the owed reference makes its
       count >= 1, and it continues only at count 1 -> 0), so #live fidRefs + 1
       steps suffice, whatever the shape of the parent links (no acyclicity is
       needed for termination; it is needed only for the absence of leaks).
    2. Every handler of Refs/Model.v preserves [RefInv] and leaves the ledger of
       transient references as it found it; hence [RefInv] and [s_held = []]
       hold after every history from the initial state, for every backend. *)
From Coq Require Import List Arith Bool ZArith Lia.
From P9V Require Import Refs.Model Refs.RefProofs.
Import ListNotations.

Section Step.
Variable B : Type.
Variable bstep : B -> bcall -> B * bans.
Notation st := (sstate B).
Notation gref := (get_ref B).
Notation RefInvD := (RefInvD B).
Notation RefInv := (RefInv B).
Notation C := (C B).

(** ---- number of live fidRefs ---- *)
Definition b2n (b : bool) : nat := if b then 1 else 0.
Definition lc (l : list fidref) : nat := length (filter live l).
Definition live_count (s : st) : nat := lc (s_refs B s).
Arguments lc : simpl never.
Arguments b2n : simpl never.

Lemma lc_upd l i x : i < length l -> lc (upd l i x) + b2n (live (nth i l dead_ref)) = lc l + b2n (live x).
Proof.
  revert i; induction l as [|y l IH]; intros [|i] H; cbn in *; try lia.
  - unfold lc, b2n; cbn. destruct (live x), (live y); cbn; lia.
  - specialize (IH i ltac:(lia)). unfold lc, b2n in *; cbn. destruct (live y); cbn; lia.
Qed.

Lemma lc_le l : lc l <= length l.
Proof. unfold lc. induction l as [|y l IH]; cbn; [lia|]. destruct (live y); cbn; lia. Qed.

(** what DecRef leaves alone *)
Definition keeps (s s' : st) : Prop :=
  s_fids B s' = s_fids B s /\ s_held B s' = s_held B s /\ s_nexth B s' = s_nexth B s /\
  length (s_refs B s') = length (s_refs B s) /\
  forall q, fr_with_refs (gref s' q) 0 = fr_with_refs (gref s q) 0.

Lemma keeps_refl s : keeps s s. Proof. repeat split. Qed.
Lemma keeps_trans a b c : keeps a b -> keeps b c -> keeps a c.
Proof. intros (?&?&?&?&HA) (?&?&?&?&HB). repeat split; try congruence. Qed.

Lemma keeps_same_core s s' : same_core B s s' -> s_nexth B s' = s_nexth B s -> keeps s s'.
Proof. intros (F & H & R) N. unfold keeps, get_ref. rewrite F, H, R. repeat split; auto. Qed.

Lemma keeps_set_refs s r z : keeps s (set_ref B r (fr_with_refs (gref s r) z) s).
Proof.
  repeat split; try reflexivity; [apply len_set_ref|]. intros q.
  destruct (Nat.eq_dec r q) as [<-|N].
  - destruct (Nat.lt_ge_cases r (length (s_refs B s))) as [L|L].
    + rewrite gref_set_same by auto. reflexivity.
    + unfold set_ref. rewrite upd_oob by auto. destruct s; reflexivity.
  - rewrite gref_set_other by auto. reflexivity.
Qed.

Lemma keeps_field {A} (f : fidref -> A) s s' q :
  (forall x z, f (fr_with_refs x z) = f x) -> keeps s s' -> f (gref s' q) = f (gref s q).
Proof. intros Hf (_&_&_&_&H). rewrite <- (Hf (gref s' q) 0%Z), <- (Hf (gref s q) 0%Z), H. reflexivity. Qed.

Lemma nexth_bcall c s : s_nexth B (snd (bcall_ B bstep c s)) = s_nexth B s.
Proof. unfold bcall_. destruct (bstep (s_be B s) c). reflexivity. Qed.

Lemma nexth_remove_child n r s : s_nexth B (remove_child B n r s) = s_nexth B s.
Proof. unfold remove_child. destruct (alookup _ _ _); auto. destruct (alookup _ _ _); auto. Qed.

(** the first step of a cascade that reaches zero *)
Lemma decref_inv2 fuel : forall r s d,
  RefInvD s (r :: d) -> live_count s < fuel ->
  let s' := snd (decref B bstep fuel r s) in
  RefInvD s' d /\ live_count s' <= live_count s /\ s_oof B s' = s_oof B s /\ keeps s s'.
Proof.
  induction fuel as [|f IH]; intros r s d Inv Hf; [lia|].
  destruct Inv as (N & I2 & I3).
  assert (Hr : r < length (s_refs B s)). { apply I3. rewrite cnt_cons, ind_same. lia. }
  pose proof (I2 r Hr) as Er. rewrite cnt_cons, ind_same in Er.
  cbv zeta. cbn [decref].
  set (x := gref s r) in *.
  set (s1 := set_ref B r (fr_with_refs x (fr_refs x - 1)) s) in *.
  assert (Lx : live x = true). { unfold live. apply Z.ltb_lt. lia. }
  assert (Cs1 : forall q, C s1 q + cnt (out_refs x) q = C s q + cnt (out_refs (fr_with_refs x (fr_refs x - 1))) q).
  { intros q. apply C_set_ref; auto. }
  assert (G1 : gref s1 r = fr_with_refs x (fr_refs x - 1)) by (apply gref_set_same; auto).
  assert (G2 : forall q, r <> q -> gref s1 q = gref s q) by (intros; apply gref_set_other; auto).
  assert (L1 : length (s_refs B s1) = length (s_refs B s)) by apply len_set_ref.
  assert (K1 : keeps s s1) by apply keeps_set_refs.
  assert (O1 : s_oof B s1 = s_oof B s) by reflexivity.
  assert (LC1 : live_count s1 + 1 = live_count s + b2n (0 <? fr_refs x - 1)%Z).
  { unfold live_count. change (s_refs B s1) with (upd (s_refs B s) r (fr_with_refs x (fr_refs x - 1))).
    pose proof (lc_upd (s_refs B s) r (fr_with_refs x (fr_refs x - 1)) Hr) as E.
    fold (gref s r) in E. fold x in E. rewrite Lx, live_refs in E. unfold b2n at 1 in E. lia. }
  destruct (Z.eqb_spec (fr_refs x - 1) 0) as [Z0|NZ].
  - replace (0 <? fr_refs x - 1)%Z with false in LC1 by (symmetry; apply Z.ltb_ge; lia). unfold b2n in LC1.
    assert (Cs1' : forall q, C s1 q + (io (fr_parent x) q + io (fr_xattrOf x) q) = C s q).
    { intros q. specialize (Cs1 q). rewrite out_refs_with_refs, cnt_out_refs, Lx in Cs1.
      replace (0 <? fr_refs x - 1)%Z with false in Cs1 by (symmetry; apply Z.ltb_ge; lia). lia. }
    assert (D1 : RefInvD s1 (olist (fr_xattrOf x) ++ olist (fr_parent x) ++ d)).
    { split; [exact N|]. split.
      - intros q Hq. rewrite L1 in Hq. rewrite !cnt_app, !cnt_olist. specialize (Cs1' q).
        destruct (Nat.eq_dec r q) as [<-|Nq].
        + rewrite G1. cbn. lia.
        + rewrite G2 by auto. rewrite (I2 q Hq), cnt_cons, ind_diff by auto. lia.
      - intros q Hq. rewrite L1. apply I3. rewrite !cnt_app, !cnt_olist in Hq. specialize (Cs1' q).
        rewrite cnt_cons. lia. }
    assert (Hf1 : live_count s1 < f) by lia.
    clearbody s1. clear Cs1 Cs1' G1 G2 I2 I3 Er.
    assert (D2 : forall s2,
               s2 = snd (match fr_xattrOf x with
                         | Some o => decref B bstep f o s1
                         | None => let '(a, s2) := bcall_ B bstep (BClose (fr_file x)) s1 in
                                   (match a with AErr e => Some e | _ => None end, s2)
                         end) ->
               RefInvD s2 (olist (fr_parent x) ++ d) /\ live_count s2 <= live_count s1 /\ s_oof B s2 = s_oof B s1 /\ keeps s1 s2).
    { intros s2 ->. destruct (fr_xattrOf x) as [o|]; cbn [olist app] in D1.
      - apply IH; auto.
      - pose proof (sc_bcall B bstep (BClose (fr_file x)) s1) as SC.
        pose proof (oof_bcall B bstep (BClose (fr_file x)) s1) as OB.
        pose proof (nexth_bcall (BClose (fr_file x)) s1) as NB.
        destruct (bcall_ B bstep (BClose (fr_file x)) s1) as [a s2]. cbn [snd] in *.
        split; [eapply same_core_inv; eauto|]. split; [|split; [exact OB | apply keeps_same_core; auto]].
        destruct SC as (_ & _ & R). unfold live_count. rewrite R. lia. }
    destruct (match fr_xattrOf x with Some o => _ | None => _ end) as [e1 s2] eqn:E2.
    destruct (D2 s2 eq_refl) as (D3 & LC2 & O2 & K2).
    destruct (fr_parent x) as [p|]; cbn [olist app] in D3.
    + set (s3 := remove_child B (fr_node (gref s2 p)) r s2).
      pose proof (sc_remove_child B (fr_node (gref s2 p)) r s2) as SC3. fold s3 in SC3.
      assert (D4 : RefInvD s3 (p :: d)) by (eapply same_core_inv; eauto).
      assert (LC3 : live_count s3 = live_count s2). { destruct SC3 as (_ & _ & R). unfold live_count. rewrite R. reflexivity. }
      destruct (IH p s3 d D4 ltac:(lia)) as (D5 & LC5 & O5 & K5).
      destruct (decref B bstep f p s3) as [e2 s4]. cbn [snd] in *.
      split; [exact D5|]. split; [lia|]. split.
      * rewrite O5. unfold s3. rewrite oof_remove_child. congruence.
      * eapply keeps_trans; [exact K1|]. eapply keeps_trans; [exact K2|].
        eapply keeps_trans; [|exact K5]. apply keeps_same_core; auto. apply nexth_remove_child.
    + cbn [snd]. split; [exact D3|]. split; [lia|]. split; [congruence|].
      eapply keeps_trans; eauto.
  - cbn [snd].
    replace (0 <? fr_refs x - 1)%Z with true in LC1 by (symmetry; apply Z.ltb_lt; lia). unfold b2n in LC1.
    assert (Cs1' : forall q, C s1 q = C s q).
    { intros q. specialize (Cs1 q). rewrite out_refs_with_refs, cnt_out_refs, Lx in Cs1.
      replace (0 <? fr_refs x - 1)%Z with true in Cs1 by (symmetry; apply Z.ltb_lt; lia). lia. }
    split; [|split; [lia | split; [reflexivity | exact K1]]].
    split; [exact N|]. split.
    + intros q Hq. rewrite L1 in Hq. rewrite Cs1'.
      destruct (Nat.eq_dec r q) as [<-|Nq].
      * rewrite G1. cbn. lia.
      * rewrite G2 by auto. rewrite (I2 q Hq), cnt_cons, ind_diff by auto. lia.
    + intros q Hq. rewrite L1. apply I3. rewrite Cs1' in Hq. rewrite cnt_cons. lia.
Qed.

Lemma fuel_enough s : live_count s < fuel_of B s.
Proof. unfold live_count, fuel_of. pose proof (lc_le (s_refs B s)). lia. Qed.

(** DecRef as the handlers call it *)
Lemma decref_ok r s d :
  RefInvD s (r :: d) ->
  let s' := snd (decref_ B bstep r s) in
  RefInvD s' d /\ s_oof B s' = s_oof B s /\ keeps s s'.
Proof.
  intros Inv. destruct (decref_inv2 (fuel_of B s) r s d Inv (fuel_enough s)) as (A & _ & O & K). auto.
Qed.
End Step.
