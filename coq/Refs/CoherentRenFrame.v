(** Refs/CoherentRenFrame.v — C08_coherent, frames for the rename pass: what
    never changes while renameChildTo runs ([rframe]), and what the DecRef
    cascades (old parents, held references) additionally leave alone
    ([cframe]: parents, File paths; registrations only lose dead fidRefs).  (pathB) *)
From Coq Require Import List Arith Bool ZArith Lia.
From P9V Require Import Refs.Model Refs.PathFS Refs.RefProofs Refs.RefStep Refs.FenceProofs Refs.NotifiedDeep
  Refs.CoherentTree Refs.CoherentDefs Refs.CoherentFs Refs.CoherentFrame Refs.CoherentRenFs.
Import ListNotations.

(** (fidRef, name) registered in childRefs of node n *)
Definition inreg (s : st) (n q nm : nat) : Prop := In (q, nm) (regs_of (gnode s n)).

Record rframe (s s' : st) : Prop := mkRF {
  RF_nlen : nlen s' = nlen s;
  RF_nodes : forall n, pn_nodes (gnode s' n) = pn_nodes (gnode s n) /\ pn_deleted (gnode s' n) = pn_deleted (gnode s n);
  RF_rlen : rlen s' = rlen s;
  RF_refs : forall q, fr_file (gref s' q) = fr_file (gref s q) /\ fr_node (gref s' q) = fr_node (gref s q) /\
                      fr_xattrOf (gref s' q) = fr_xattrOf (gref s q) /\ xmode (gref s' q) = xmode (gref s q) /\
                      (fr_parent (gref s' q) = None <-> fr_parent (gref s q) = None);
  RF_nexth : s_nexth pfs s' = s_nexth pfs s;
  RF_fs : p_entries (s_be pfs s') = p_entries (s_be pfs s) /\ p_dirs (s_be pfs s') = p_dirs (s_be pfs s) /\
          p_nextino (s_be pfs s') = p_nextino (s_be pfs s);
  RF_live : forall q, live s' q -> live s q;
  RF_keys : rkeys s -> rkeys s' }.

Lemma rf_refl s : rframe s s.
Proof. constructor; auto. intros q. repeat split; auto. Qed.

Lemma rf_trans a b c : rframe a b -> rframe b c -> rframe a c.
Proof.
  intros X Y. constructor.
  - rewrite (RF_nlen _ _ Y). apply X.
  - intros n. destruct (RF_nodes _ _ X n) as (A1 & A2). destruct (RF_nodes _ _ Y n) as (B1 & B2). split; congruence.
  - rewrite (RF_rlen _ _ Y). apply X.
  - intros q. destruct (RF_refs _ _ X q) as (A1 & A2 & A3 & A4 & A5). destruct (RF_refs _ _ Y q) as (B1 & B2 & B3 & B4 & B5).
    repeat split; try congruence; tauto.
  - rewrite (RF_nexth _ _ Y). apply X.
  - destruct (RF_fs _ _ X) as (A1 & A2 & A3). destruct (RF_fs _ _ Y) as (B1 & B2 & B3). repeat split; congruence.
  - intros q H. apply X. apply Y. exact H.
  - intros K. apply (RF_keys _ _ Y). apply (RF_keys _ _ X). exact K.
Qed.

(** the Renamed calls made so far, oldest first *)
Definition is_renamed (c : bcall) : bool := match c with BRenamed _ _ _ => true | _ => false end.
Definition rcalls (s : st) : list bcall := filter is_renamed (calls pfs s).

Record cframe (s s' : st) : Prop := mkCF {
  CF_rf : rframe s s';
  CF_par : forall q, fr_parent (gref s' q) = fr_parent (gref s q);
  CF_path : forall h, hpath (s_be pfs s') h = hpath (s_be pfs s) h;
  CF_sub : forall n q nm, inreg s' n q nm -> inreg s n q nm;
  CF_keep : rkeys s -> forall n q nm, inreg s n q nm -> live s' q -> inreg s' n q nm;
  CF_rlog : rcalls s' = rcalls s;
  CF_nsub : forall n q, alookup Nat.eqb q (pn_names (gnode s' n)) <> None -> alookup Nat.eqb q (pn_names (gnode s n)) <> None }.

Lemma cf_refl s : cframe s s.
Proof. constructor; auto. apply rf_refl. Qed.

Lemma cf_trans a b c : cframe a b -> cframe b c -> cframe a c.
Proof.
  intros X Y. constructor.
  - eapply rf_trans; [apply X | apply Y].
  - intros q. rewrite (CF_par _ _ Y). apply X.
  - intros h. rewrite (CF_path _ _ Y). apply X.
  - intros n q nm H. apply (CF_sub _ _ X). apply (CF_sub _ _ Y). exact H.
  - intros K n q nm H L. apply (CF_keep _ _ Y); auto.
    + apply (RF_keys _ _ (CF_rf _ _ X)). exact K.
    + apply (CF_keep _ _ X); auto. apply (RF_live _ _ (CF_rf _ _ Y)). exact L.
  - rewrite (CF_rlog _ _ Y). apply X.
  - intros n q H. apply (CF_nsub _ _ X). apply (CF_nsub _ _ Y). exact H.
Qed.

(** states that differ in counts, holders, flags, log only *)
Lemma cf_meta (s s' : st) :
  s_nodes pfs s' = s_nodes pfs s -> rlen s' = rlen s ->
  (forall q, fr_with_refs (gref s' q) 0 = fr_with_refs (gref s q) 0) -> (forall q, live s' q -> live s q) ->
  s_nexth pfs s' = s_nexth pfs s -> fs_same (s_be pfs s) (s_be pfs s') -> rcalls s' = rcalls s -> cframe s s'.
Proof.
  intros N L Q Lv H (F1 & F2 & F3 & F4) RL.
  assert (GN : forall n, gnode s' n = gnode s n) by (intros; unfold get_node; rewrite N; reflexivity).
  assert (FD : forall {A} (f : fidref -> A), (forall x z, f (fr_with_refs x z) = f x) -> forall q, f (gref s' q) = f (gref s q)).
  { intros A f Hf q. rewrite <- (Hf (gref s' q) 0%Z), <- (Hf (gref s q) 0%Z), Q. reflexivity. }
  constructor.
  - constructor; auto.
    + unfold nlen. rewrite N. reflexivity.
    + intros n. rewrite GN. auto.
    + intros q. rewrite (FD _ fr_file), (FD _ fr_node), (FD _ fr_xattrOf), (FD _ xmode), (FD _ fr_parent) by reflexivity. repeat split; auto.
    + intros K n. rewrite GN. apply K.
  - intros q. apply (FD _ fr_parent). reflexivity.
  - intros h. unfold hpath, file_of. rewrite F4. reflexivity.
  - intros n q nm. unfold inreg. rewrite GN. auto.
  - intros _ n q nm. unfold inreg. rewrite GN. auto.
  - exact RL.
  - intros n q. rewrite GN. auto.
Qed.

Lemma fs_same_refl fs : fs_same fs fs. Proof. repeat split. Qed.

Lemma cf_drop r z (s : st) : (z <= fr_refs (gref s r))%Z -> cframe s (set_ref pfs r (fr_with_refs (gref s r) z) s).
Proof.
  intros Hz. apply cf_meta; try reflexivity; [| | | apply fs_same_refl].
  - unfold rlen, set_ref. cbn. apply upd_length.
  - intros q. rewrite gref_set_ref. destruct ((q =? r) && (r <? rlen s)) eqn:X; auto.
    apply andb_prop in X. destruct X as (X & _). apply Nat.eqb_eq in X. subst. reflexivity.
  - intros q. unfold live. rewrite gref_set_ref. destruct ((q =? r) && (r <? rlen s)) eqn:X; auto.
    apply andb_prop in X. destruct X as (X & _). apply Nat.eqb_eq in X. subst. cbn. lia.
Qed.

Lemma cf_incref r (s : st) : live s r -> cframe s (incref pfs r s).
Proof.
  intros Lv. unfold incref. apply cf_meta; try reflexivity; [| | | apply fs_same_refl].
  - unfold rlen, set_ref. cbn. apply upd_length.
  - intros q. rewrite gref_set_ref. destruct ((q =? r) && (r <? rlen s)) eqn:X; auto.
    apply andb_prop in X. destruct X as (X & _). apply Nat.eqb_eq in X. subst. reflexivity.
  - intros q. unfold live at 1. rewrite gref_set_ref. destruct ((q =? r) && (r <? rlen s)) eqn:X; auto.
    apply andb_prop in X. destruct X as (X & _). apply Nat.eqb_eq in X. subst. auto.
Qed.

Lemma cf_with_held f (s : st) : cframe s (with_held pfs f s).
Proof. apply cf_meta; try reflexivity; auto. apply fs_same_refl. Qed.
Lemma cf_set_panic (s : st) : cframe s (set_panic pfs s).
Proof. apply cf_meta; try reflexivity; auto. apply fs_same_refl. Qed.
Lemma cf_set_oof (s : st) : cframe s (set_oof pfs s).
Proof. apply cf_meta; try reflexivity; auto. apply fs_same_refl. Qed.

Lemma pfs_step_close fs h : fs_same fs (fst (pfs_step fs (BClose h))).
Proof.
  unfold pfs_step. destruct (alookup Nat.eqb (p_calls fs) (p_inject fs)) as [e|]; [destruct (e =? injBadQ)|]; cbn; repeat split.
Qed.

Lemma cf_bclose h (s : st) : cframe s (snd (bcall_ pfs pfs_step (BClose h) s)).
Proof.
  destruct (bcall_be (BClose h) s) as (E1 & _ & E3 & E4 & E5 & _).
  apply cf_meta; auto.
  - unfold rlen. rewrite E3. reflexivity.
  - intros q. unfold get_ref. rewrite E3. reflexivity.
  - intros q. unfold live, get_ref. rewrite E3. auto.
  - rewrite E1. apply pfs_step_close.
  - unfold rcalls, calls, bcall_. destruct (pfs_step (s_be pfs s) (BClose h)). cbn [snd s_log rev]. rewrite filter_app. cbn. apply app_nil_r.
Qed.

(** ---- registrations under removeChild ---- *)
Lemma in_remove_nat q r m : In q (remove_nat r m) <-> In q m /\ q <> r.
Proof.
  induction m as [|y m IH]; cbn; [tauto|]. destruct (Nat.eqb_spec r y) as [->|N]; cbn; rewrite IH; intuition congruence.
Qed.

Section ALIn.
  Context {V : Type}.
  Lemma In_adel_iff k k' (v' : V) l : In (k', v') (adel Nat.eqb k l) <-> In (k', v') l /\ k' <> k.
  Proof.
    induction l as [|[k0 v0] l IH]; cbn; [tauto|]. destruct (Nat.eqb_spec k k0) as [->|N]; cbn; rewrite IH.
    - intuition congruence.
    - intuition congruence.
  Qed.

  Lemma In_aset_inv k (v : V) k' v' l : In (k', v') (aset Nat.eqb k v l) -> (k' = k /\ v' = v) \/ (k' <> k /\ In (k', v') l).
  Proof.
    induction l as [|[k0 v0] l IH]; cbn; [intros [[= -> ->]|[]]; auto|].
    destruct (Nat.eqb_spec k k0) as [->|N]; cbn.
    - intros [[= -> ->]|H]; auto. apply In_adel_iff in H. tauto.
    - intros [[= -> ->]|H]; [right; split; auto; congruence|]. apply IH in H. tauto.
  Qed.

  Lemma In_aset_other k (v : V) k' v' l : k' <> k -> In (k', v') l -> In (k', v') (aset Nat.eqb k v l).
  Proof.
    intros N. induction l as [|[k0 v0] l IH]; cbn; [tauto|].
    destruct (Nat.eqb_spec k k0) as [->|N0]; cbn.
    - intros [[= -> ->]|H]; [congruence|]. right. apply In_adel_iff. auto.
    - intros [H|H]; auto.
  Qed.

  Lemma In_aset_same k (v : V) l : In (k, v) (aset Nat.eqb k v l).
  Proof. induction l as [|[k0 v0] l IH]; cbn; auto. destruct (Nat.eqb_spec k k0); cbn; auto. Qed.
End ALIn.

Lemma inreg_iff (s : st) n q nm : inreg s n q nm <-> exists m, In (nm, m) (pn_refs (gnode s n)) /\ In q m.
Proof. apply in_regs_of. Qed.

Lemma cf_set_node_regs n x (s : st) :
  pn_nodes x = pn_nodes (gnode s n) -> pn_deleted x = pn_deleted (gnode s n) ->
  (pkeys (gnode s n) -> pkeys x) ->
  (forall q nm, In (q, nm) (regs_of x) -> In (q, nm) (regs_of (gnode s n))) ->
  (forall q, alookup Nat.eqb q (pn_names x) <> None -> alookup Nat.eqb q (pn_names (gnode s n)) <> None) ->
  forall s', s' = set_node pfs n x s ->
  (pkeys (gnode s n) -> forall q nm, In (q, nm) (regs_of (gnode s n)) -> live s' q -> In (q, nm) (regs_of x)) ->
  cframe s s'.
Proof.
  intros E D Kx Sub NSub s' -> Keep.
  assert (GN : forall m, gnode (set_node pfs n x s) m = if (m =? n) && (n <? nlen s) then x else gnode s m) by (intros; apply gnode_set_node).
  constructor; auto.
  - constructor; auto.
    + unfold nlen, set_node. cbn. apply upd_length.
    + intros m. rewrite GN. destruct ((m =? n) && (n <? nlen s)) eqn:X; auto.
      apply andb_prop in X. destruct X as (X & _). apply Nat.eqb_eq in X. subst. auto.
    + intros q. repeat split; auto.
    + intros K m. rewrite GN. destruct ((m =? n) && (n <? nlen s)) eqn:X; [|apply K].
      apply andb_prop in X. destruct X as (X & _). apply Nat.eqb_eq in X. subst. apply Kx. apply K.
  - intros m q nm. unfold inreg. rewrite GN. destruct ((m =? n) && (n <? nlen s)) eqn:X; [|tauto].
    apply andb_prop in X. destruct X as (X & _). apply Nat.eqb_eq in X. subst. apply Sub.
  - intros K m q nm. unfold inreg. rewrite GN. destruct ((m =? n) && (n <? nlen s)) eqn:X; [|tauto].
    apply andb_prop in X. destruct X as (X & _). apply Nat.eqb_eq in X. subst. apply Keep. apply K.
  - intros m q. rewrite GN. destruct ((m =? n) && (n <? nlen s)) eqn:X; [|tauto].
    apply andb_prop in X. destruct X as (X & _). apply Nat.eqb_eq in X. subst. apply NSub.
Qed.

Lemma cf_remove_child n r (s : st) : ~ live s r -> cframe s (remove_child pfs n r s).
Proof.
  intros Dead. unfold remove_child. fold (gnode s n).
  destruct (alookup Nat.eqb r (pn_names (gnode s n))) as [nm|]; [|apply cf_refl].
  destruct (alookup Nat.eqb nm (pn_refs (gnode s n))) as [m|] eqn:Em; [|apply cf_set_panic].
  pose proof (alookup_In Nat.eqb Nat.eqb_spec _ _ _ Em) as Im.
  refine (cf_set_node_regs n _ s _ _ _ _ _ _ eq_refl _); [reflexivity | reflexivity | | | |].
  - intros K. apply pkeys_with_refs; auto. destruct K as (K & _).
    destruct (remove_nat r m); [apply (gadel_nodup Nat.eqb Nat.eqb_spec) | apply (gaset_nodup Nat.eqb Nat.eqb_spec)]; exact K.
  - intros q nm'. rewrite !in_regs_of. cbn [pn_refs pn_with_refs]. intros (mm & H1 & H2).
    destruct (remove_nat r m) as [|y m'] eqn:Er.
    + apply In_adel_iff in H1. exists mm. tauto.
    + apply In_aset_inv in H1. destruct H1 as [(-> & ->)|(_ & H1)]; [|eauto].
      exists m. split; auto. rewrite <- Er in H2. apply in_remove_nat in H2. tauto.
  - intros q. cbn [pn_names pn_with_refs]. rewrite (alookup_adel Nat.eqb Nat.eqb_spec). destruct (q =? r); [congruence | auto].
  - intros K q nm'. rewrite !in_regs_of. cbn [pn_refs pn_with_refs]. intros (mm & H1 & H2) Lq.
    assert (Nq : q <> r). { intros ->. apply Dead. exact Lq. }
    destruct (Nat.eq_dec nm' nm) as [->|Nn].
    + pose proof (In_alookup Nat.eqb Nat.eqb_spec _ _ _ (proj1 K) H1) as Em'. rewrite Em in Em'. injection Em' as <-.
      assert (Hq : In q (remove_nat r m)) by (apply in_remove_nat; auto).
      destruct (remove_nat r m) as [|y m'] eqn:Er; [destruct Hq|].
      exists (y :: m'). split; auto. apply In_aset_same.
    + exists mm. split; auto. destruct (remove_nat r m); [apply In_adel_iff; auto | apply In_aset_other; auto].
Qed.

Lemma cf_decref fuel : forall r (s : st), cframe s (snd (decref pfs pfs_step fuel r s)).
Proof.
  induction fuel as [|f IH]; intros r s; cbn [decref]; [apply cf_set_oof|].
  set (x := gref s r). set (s1 := set_ref pfs r (fr_with_refs x (fr_refs x - 1)) s).
  assert (S1 : cframe s s1) by (apply cf_drop; fold x; lia).
  destruct (Z.eqb_spec (fr_refs x - 1) 0) as [Z0|NZ]; [|exact S1].
  assert (D1 : ~ live s1 r).
  { unfold live, s1. rewrite gref_set_ref. destruct ((r =? r) && (r <? rlen s)) eqn:X; [cbn; lia|].
    rewrite Nat.eqb_refl in X. cbn in X. apply Nat.ltb_ge in X. unfold get_ref. rewrite nth_overflow by exact X. cbn. lia. }
  assert (S2 : cframe s1 (snd (match fr_xattrOf x with
                             | Some o => decref pfs pfs_step f o s1
                             | None => let '(a, s2) := bcall_ pfs pfs_step (BClose (fr_file x)) s1 in
                                       (match a with AErr e => Some e | _ => None end, s2)
                             end))).
  { destruct (fr_xattrOf x); [apply IH|].
    pose proof (cf_bclose (fr_file x) s1) as Q. destruct (bcall_ pfs pfs_step _ s1). exact Q. }
  destruct (match fr_xattrOf x with Some o => _ | None => _ end) as [e1 s2]. cbn [snd] in S2.
  destruct (fr_parent x) as [p|]; [|cbn [snd]; eapply cf_trans; eauto].
  assert (D2 : ~ live s2 r). { intros L. apply D1. apply (RF_live _ _ (CF_rf _ _ S2)). exact L. }
  pose proof (IH p (remove_child pfs (fr_node (gref s2 p)) r s2)) as S4.
  destruct (decref pfs pfs_step f p _) as [e2 s4]. cbn [snd] in *.
  eapply cf_trans; [exact S1|]. eapply cf_trans; [exact S2|]. eapply cf_trans; [apply cf_remove_child; exact D2 | exact S4].
Qed.

Lemma cf_release r (s : st) : cframe s (release pfs pfs_step r s).
Proof. unfold release. eapply cf_trans; [apply cf_with_held | apply cf_decref]. Qed.

Lemma cf_release_all l : forall s : st, cframe s (release_all pfs pfs_step l s).
Proof. induction l as [|r l IH]; intros s; cbn; [apply cf_refl|]. eapply cf_trans; [apply cf_release | apply IH]. Qed.

(** ---- DecRef touches only the chain of parents / xattr origins ---- *)
Inductive up (s : st) : nat -> nat -> Prop :=
| up_refl r : up s r r
| up_par r p q : fr_parent (gref s r) = Some p -> up s p q -> up s r q
| up_xat r o q : fr_xattrOf (gref s r) = Some o -> up s o q -> up s r q.

Lemma up_links (s s' : st) : (forall z, fr_parent (gref s' z) = fr_parent (gref s z) /\ fr_xattrOf (gref s' z) = fr_xattrOf (gref s z)) ->
  forall a b, up s' a b -> up s a b.
Proof.
  intros H a b U. induction U as [r | r p q E U IH | r o q E U IH].
  - apply up_refl.
  - destruct (H r) as (E1 & _). rewrite E1 in E. eapply up_par; eauto.
  - destruct (H r) as (_ & E2). rewrite E2 in E. eapply up_xat; eauto.
Qed.

Lemma cf_links (s s' : st) : cframe s s' -> forall z, fr_parent (gref s' z) = fr_parent (gref s z) /\ fr_xattrOf (gref s' z) = fr_xattrOf (gref s z).
Proof. intros C z. split; [apply (CF_par _ _ C) | apply (RF_refs _ _ (CF_rf _ _ C) z)]. Qed.

Lemma decref_cnt fuel : forall r (s : st) q, ~ up s r q -> fr_refs (gref (snd (decref pfs pfs_step fuel r s)) q) = fr_refs (gref s q).
Proof.
  induction fuel as [|f IH]; intros r s q NU; cbn [decref]; [reflexivity|].
  set (x := gref s r). set (s1 := set_ref pfs r (fr_with_refs x (fr_refs x - 1)) s).
  assert (Nq : q <> r) by (intros ->; apply NU; apply up_refl).
  assert (C1 : cframe s s1) by (apply cf_drop; fold x; lia).
  assert (R1 : fr_refs (gref s1 q) = fr_refs (gref s q)).
  { unfold s1. rewrite gref_set_ref. destruct (Nat.eqb_spec q r); [congruence | reflexivity]. }
  destruct (fr_refs x - 1 =? 0)%Z; [|exact R1].
  assert (S2 : cframe s1 (snd (match fr_xattrOf x with
                             | Some o => decref pfs pfs_step f o s1
                             | None => let '(a, s2) := bcall_ pfs pfs_step (BClose (fr_file x)) s1 in
                                       (match a with AErr e => Some e | _ => None end, s2)
                             end)) /\
               fr_refs (gref (snd (match fr_xattrOf x with
                             | Some o => decref pfs pfs_step f o s1
                             | None => let '(a, s2) := bcall_ pfs pfs_step (BClose (fr_file x)) s1 in
                                       (match a with AErr e => Some e | _ => None end, s2)
                             end)) q) = fr_refs (gref s q)).
  { destruct (fr_xattrOf x) as [o|] eqn:EX.
    - split; [apply cf_decref|]. rewrite IH; [exact R1|]. intros U. apply NU. eapply up_xat; [exact EX|]. eapply up_links; [apply (cf_links _ _ C1) | exact U].
    - pose proof (cf_bclose (fr_file x) s1) as Q. destruct (bcall_be (BClose (fr_file x)) s1) as (_ & _ & E3 & _).
      destruct (bcall_ pfs pfs_step _ s1) as [a s2]. cbn [snd] in *. split; [exact Q|]. unfold get_ref. rewrite E3. exact R1. }
  destruct (match fr_xattrOf x with Some o => _ | None => _ end) as [e1 s2]. cbn [snd] in S2. destruct S2 as (C2 & R2).
  destruct (fr_parent x) as [p|] eqn:EP; [|exact R2].
  set (s3 := remove_child pfs (fr_node (gref s2 p)) r s2).
  assert (R3 : fr_refs (gref s3 q) = fr_refs (gref s q)).
  { unfold s3, remove_child. destruct (alookup _ _ _); [|exact R2]. destruct (alookup _ _ _); exact R2. }
  assert (L3 : forall z, fr_parent (gref s3 z) = fr_parent (gref s z) /\ fr_xattrOf (gref s3 z) = fr_xattrOf (gref s z)).
  { intros z. assert (E : gref s3 z = gref s2 z) by (unfold s3, remove_child; destruct (alookup _ _ _); [|reflexivity]; destruct (alookup _ _ _); reflexivity).
    rewrite E. destruct (cf_links _ _ C2 z) as (A1 & A2). destruct (cf_links _ _ C1 z) as (B1 & B2). split; congruence. }
  specialize (IH p s3 q). destruct (decref pfs pfs_step f p s3) as [e2 s4]. cbn [snd] in *. rewrite IH; [exact R3|].
  intros U. apply NU. eapply up_par; [exact EP|]. eapply up_links; [exact L3 | exact U].
Qed.
