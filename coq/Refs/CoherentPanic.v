(** Refs/CoherentPanic.v — the run-time panics of the path-tree code (nameFor, addChild,
    addPathNodeFor, removeChild, nil parent, trename's assertion: [set_panic] in Refs/Model.v) are
    unreachable in PathFS histories.  This file: the node-level invariant [NPI] (childRefNames points into
    childRefs; registered fidRefs exist), the frame [pf] "keeps NPI and the panic flag", all primitives,
    and every request except Trename / Trenameat (Refs/CoherentPanicRen.v).  (pathB) *)
From Coq Require Import List Arith Bool ZArith Lia.
From P9V Require Import Refs.Model Refs.PathFS Refs.RefProofs Refs.RefStep Refs.FenceProofs Refs.TreeInv
  Refs.CoherentTree Refs.CoherentDefs Refs.CoherentFs Refs.CoherentFrame Refs.CoherentStep Refs.CoherentTreeHyp Refs.CoherentUnlink.
Import ListNotations.

Lemma in_rm q r m : In q (remove_nat r m) <-> In q m /\ q <> r.
Proof.
  induction m as [|y m IH]; cbn; [tauto|]. destruct (Nat.eqb_spec r y) as [->|N]; cbn; rewrite IH; intuition congruence.
Qed.

Definition na2 (pn : pnode) : Prop :=
  forall r nm, alookup Nat.eqb r (pn_names pn) = Some nm -> exists m, alookup Nat.eqb nm (pn_refs pn) = Some m /\ In r m.

Definition NPI (s : st) : Prop :=
  (forall n, na2 (gnode s n)) /\ (forall n q nm, alookup Nat.eqb q (pn_names (gnode s n)) = Some nm -> q < rlen s).

(** from serverB's tree invariant at a request boundary *)
Lemma npi_of_tree (s : st) : tree_ok pfs s -> NPI s.
Proof.
  intros T. split.
  - intros n r nm H. destruct (Nat.lt_ge_cases n (nlen s)) as [L|L].
    + apply (T_agree pfs s T n r nm L). exact H.
    + unfold get_node in H. rewrite nth_overflow in H by exact L. discriminate.
  - intros n q nm H. destruct (Nat.lt_ge_cases n (nlen s)) as [L|L].
    + apply (T_reg pfs s T n q nm L H).
    + unfold get_node in H. rewrite nth_overflow in H by exact L. discriminate.
Qed.

Record pf (s s' : st) : Prop := mkPf {
  P_inv : NPI s -> NPI s';
  P_np : NPI s -> s_panic pfs s' = s_panic pfs s }.

Lemma pf_refl s : pf s s. Proof. split; auto. Qed.
Lemma pf_trans a b c : pf a b -> pf b c -> pf a c.
Proof. intros X Y. split; intros H; [apply Y, X, H | rewrite (P_np _ _ Y (P_inv _ _ X H)); apply X; exact H]. Qed.

Lemma pf_same_nodes (s s' : st) : s_nodes pfs s' = s_nodes pfs s -> rlen s <= rlen s' -> s_panic pfs s' = s_panic pfs s -> pf s s'.
Proof.
  intros N L P. assert (GN : forall n, gnode s' n = gnode s n) by (intros; unfold get_node; rewrite N; reflexivity).
  split; auto. intros (A & B). split; intros n; rewrite GN; auto. intros q nm H. specialize (B n q nm H). lia.
Qed.

Lemma pf_bcall c (s : st) : pf s (snd (bcall_ pfs pfs_step c s)).
Proof. destruct (bcall_be c s) as (_ & _ & R & N & _ & _ & _ & P). apply pf_same_nodes; auto. unfold rlen. rewrite R. lia. Qed.

Lemma pf_set_ref r x (s : st) : pf s (set_ref pfs r x s).
Proof. apply pf_same_nodes; try reflexivity. unfold rlen, set_ref. cbn. rewrite upd_length. lia. Qed.

Lemma pf_incref r (s : st) : pf s (incref pfs r s). Proof. apply pf_set_ref. Qed.
Lemma pf_with_held f (s : st) : pf s (with_held pfs f s). Proof. apply pf_same_nodes; reflexivity || auto. Qed.
Lemma pf_with_fids f (s : st) : pf s (with_fids pfs f s). Proof. apply pf_same_nodes; reflexivity || auto. Qed.
Lemma pf_take_handle (s : st) : pf s (take_handle pfs s). Proof. apply pf_same_nodes; reflexivity || auto. Qed.
Lemma pf_set_oof (s : st) : pf s (set_oof pfs s). Proof. apply pf_same_nodes; reflexivity || auto. Qed.
Lemma pf_hold r (s : st) : pf s (hold pfs r s).
Proof. unfold hold. eapply pf_trans; [apply pf_incref | apply pf_with_held]. Qed.

Lemma pf_new_ref x (s : st) : pf s (snd (new_ref pfs x s)).
Proof. apply pf_same_nodes; try reflexivity. unfold rlen, new_ref. cbn. rewrite app_length. lia. Qed.

Lemma pf_new_ref_inc x (s : st) : pf s (snd (new_ref_inc pfs x s)).
Proof.
  unfold new_ref_inc. pose proof (pf_new_ref x s) as H. destruct (new_ref pfs x s) as [nr s1]. cbn [snd] in *.
  destruct (fr_parent x); [eapply pf_trans; [exact H | apply pf_incref]|].
  destruct (fr_xattrOf x); [eapply pf_trans; [exact H | apply pf_incref] | exact H].
Qed.

Lemma pf_new_ref_handover wr x (s : st) : pf s (snd (new_ref_handover pfs wr x s)).
Proof. unfold new_ref_handover. eapply pf_trans; [apply pf_with_held | apply pf_new_ref]. Qed.

(** a node is replaced *)
Lemma pf_set_node n x (s : st) :
  (na2 (gnode s n) -> na2 x) ->
  (forall q nm, alookup Nat.eqb q (pn_names x) = Some nm -> alookup Nat.eqb q (pn_names (gnode s n)) <> None \/ q < rlen s) ->
  pf s (set_node pfs n x s).
Proof.
  intros HA HB. split; [|reflexivity]. intros (A & B). split.
  - intros m. rewrite gnode_set_node. destruct ((m =? n) && (n <? nlen s)) eqn:X; auto.
  - intros m q nm. rewrite gnode_set_node. change (rlen (set_node pfs n x s)) with (rlen s).
    destruct ((m =? n) && (n <? nlen s)) eqn:X; [|apply B]. intros H. destruct (HB q nm H) as [H1|H1]; auto.
    destruct (alookup Nat.eqb q (pn_names (gnode s n))) as [nm'|] eqn:E; [|congruence]. eapply B; eauto.
Qed.

Lemma pf_set_node_same n x (s : st) : pn_refs x = pn_refs (gnode s n) -> pn_names x = pn_names (gnode s n) -> pf s (set_node pfs n x s).
Proof.
  intros E1 E2. apply pf_set_node.
  - unfold na2. rewrite E1, E2. auto.
  - intros q nm H. left. rewrite E2 in H. congruence.
Qed.

Lemma pf_remove_child n r (s : st) : pf s (remove_child pfs n r s).
Proof.
  unfold remove_child. fold (gnode s n). destruct (alookup Nat.eqb r (pn_names (gnode s n))) as [nm|] eqn:En; [|apply pf_refl].
  destruct (alookup Nat.eqb nm (pn_refs (gnode s n))) as [m|] eqn:Em.
  - apply pf_set_node.
    + intros A r' nm'. cbn [pn_names pn_refs pn_with_refs]. rewrite (alookup_adel Nat.eqb Nat.eqb_spec).
      destruct (Nat.eqb_spec r' r) as [->|Nr]; [discriminate|]. intros H. destruct (A r' nm' H) as (m' & E' & I').
      destruct (Nat.eq_dec nm' nm) as [->|Nn].
      * rewrite Em in E'. injection E' as <-. assert (Hq : In r' (remove_nat r m)) by (apply in_rm; auto).
        destruct (remove_nat r m) as [|y m'] eqn:Er; [destruct Hq|]. exists (y :: m'). split; auto.
        rewrite (alookup_aset Nat.eqb Nat.eqb_spec), Nat.eqb_refl. reflexivity.
      * exists m'. split; auto. destruct (remove_nat r m).
        -- rewrite (alookup_adel Nat.eqb Nat.eqb_spec). destruct (Nat.eqb_spec nm' nm); [congruence | exact E'].
        -- rewrite (alookup_aset Nat.eqb Nat.eqb_spec). destruct (Nat.eqb_spec nm' nm); [congruence | exact E'].
    + intros q nm'. cbn [pn_names pn_with_refs]. rewrite (alookup_adel Nat.eqb Nat.eqb_spec). destruct (q =? r); [discriminate|].
      intros H. left. congruence.
  - (* the panic branch: excluded by na2 *)
    split; [intros H; split; apply H|]. intros (A & _). exfalso. destruct (A n r nm En) as (m & E & _). congruence.
Qed.

Lemma pf_add_child n r nm (s : st) : r < rlen s -> alookup Nat.eqb r (pn_names (gnode s n)) = None -> pf s (add_child pfs n r nm s).
Proof.
  intros Lr En. unfold add_child. fold (gnode s n). rewrite En. apply pf_set_node.
  - intros A r' nm'. cbn [pn_names pn_refs pn_with_refs]. rewrite (alookup_aset Nat.eqb Nat.eqb_spec).
    destruct (Nat.eqb_spec r' r) as [->|Nr].
    + intros [= <-]. rewrite (alookup_aset Nat.eqb Nat.eqb_spec), Nat.eqb_refl. eexists. split; [reflexivity|]. apply in_or_app. right. left. reflexivity.
    + intros H. destruct (A r' nm' H) as (m' & E' & I'). rewrite (alookup_aset Nat.eqb Nat.eqb_spec).
      destruct (Nat.eqb_spec nm' nm) as [->|Nn]; [|eauto]. rewrite E'. eexists. split; [reflexivity|]. apply in_or_app. left. exact I'.
  - intros q nm'. cbn [pn_names pn_with_refs]. rewrite (alookup_aset Nat.eqb Nat.eqb_spec). destruct (Nat.eqb_spec q r) as [->|]; [right; exact Lr|].
    intros H. left. congruence.
Qed.

(** one iteration of removeWithName's loop on the registrations *)
Lemma pf_rwn_step n nm r (s : st) :
  pf s (set_node pfs n (pn_with_refs (gnode s n)
          (aset Nat.eqb nm (remove_nat r (match alookup Nat.eqb nm (pn_refs (gnode s n)) with Some l => l | None => [] end)) (pn_refs (gnode s n)))
          (adel Nat.eqb r (pn_names (gnode s n)))) s).
Proof.
  apply pf_set_node.
  - intros A r' nm'. cbn [pn_names pn_refs pn_with_refs]. rewrite (alookup_adel Nat.eqb Nat.eqb_spec).
    destruct (Nat.eqb_spec r' r) as [->|Nr]; [discriminate|]. intros H. destruct (A r' nm' H) as (m' & E' & I').
    rewrite (alookup_aset Nat.eqb Nat.eqb_spec). destruct (Nat.eqb_spec nm' nm) as [->|Nn]; [|eauto].
    rewrite E'. eexists. split; [reflexivity|]. apply in_rm. auto.
  - intros q nm'. cbn [pn_names pn_with_refs]. rewrite (alookup_adel Nat.eqb Nat.eqb_spec). destruct (q =? r); [discriminate|].
    intros H. left. congruence.
Qed.

Lemma pf_decref fuel : forall r (s : st), pf s (snd (decref pfs pfs_step fuel r s)).
Proof.
  induction fuel as [|f IH]; intros r s; cbn [decref]; [apply pf_set_oof|].
  set (x := gref s r). set (s1 := set_ref pfs r (fr_with_refs x (fr_refs x - 1)) s).
  assert (S1 : pf s s1) by apply pf_set_ref.
  destruct (fr_refs x - 1 =? 0)%Z; [|exact S1].
  assert (S2 : pf s1 (snd (match fr_xattrOf x with
                             | Some o => decref pfs pfs_step f o s1
                             | None => let '(a, s2) := bcall_ pfs pfs_step (BClose (fr_file x)) s1 in
                                       (match a with AErr e => Some e | _ => None end, s2)
                             end))).
  { destruct (fr_xattrOf x); [apply IH|].
    pose proof (pf_bcall (BClose (fr_file x)) s1) as Q. destruct (bcall_ pfs pfs_step _ s1). exact Q. }
  destruct (match fr_xattrOf x with Some o => _ | None => _ end) as [e1 s2]. cbn [snd] in S2.
  destruct (fr_parent x) as [p|]; [|cbn [snd]; eapply pf_trans; eauto].
  pose proof (IH p (remove_child pfs (fr_node (gref s2 p)) r s2)) as S4.
  destruct (decref pfs pfs_step f p _) as [e2 s4]. cbn [snd] in *.
  eapply pf_trans; [exact S1|]. eapply pf_trans; [exact S2|]. eapply pf_trans; [apply pf_remove_child | exact S4].
Qed.

Lemma pf_release r (s : st) : pf s (release pfs pfs_step r s).
Proof. unfold release. eapply pf_trans; [apply pf_with_held | apply pf_decref]. Qed.

Lemma pf_release_all l : forall s : st, pf s (release_all pfs pfs_step l s).
Proof. induction l as [|r l IH]; intros s; cbn; [apply pf_refl|]. eapply pf_trans; [apply pf_release | apply IH]. Qed.

Lemma pf_delete_fid c fid (s : st) : pf s (snd (delete_fid pfs pfs_step c fid s)).
Proof.
  unfold delete_fid. destruct (alookup _ _ _); [|apply pf_refl]. eapply pf_trans; [apply pf_with_fids | apply pf_decref].
Qed.

Lemma pf_insert_fid c fid r (s : st) : pf s (insert_fid pfs pfs_step c fid r s).
Proof.
  unfold insert_fid.
  assert (S1 : pf s (with_fids pfs (aset peqb (c, fid) r (s_fids pfs s)) (incref pfs r s))) by (eapply pf_trans; [apply pf_incref | apply pf_with_fids]).
  destruct (alookup _ _ _); [|exact S1]. eapply pf_trans; [exact S1 | apply pf_decref].
Qed.

Lemma pf_stop_loop l c : forall s : st, pf s (stop_loop pfs pfs_step l c s).
Proof.
  induction l as [|[[c' fid] r] l IH]; intros s; cbn [stop_loop]; [apply pf_refl|].
  destruct (c' =? c); [|apply IH]. eapply pf_trans; [apply pf_delete_fid | apply IH].
Qed.

Lemma pf_guarded_call r gd c (s : st) : pf s (snd (guarded_call pfs pfs_step r gd c s)).
Proof.
  unfold guarded_call. destruct gd; [apply pf_refl|].
  pose proof (pf_bcall c s) as H. destruct (bcall_ pfs pfs_step c s) as [a s1]. destruct a; exact H.
Qed.

(** pathNodeFor: an existing node, or a fresh empty one and the same registrations *)
Lemma names_app_empty (s : st) : forall m, gnode (with_nodes pfs (s_nodes pfs s ++ [empty_node]) s) m = gnode s m.
Proof. apply gnode_app_empty. Qed.

Lemma pf_path_node_for n nm (s : st) : pf s (snd (path_node_for pfs n nm s)) /\
  (forall m, pn_names (gnode (snd (path_node_for pfs n nm s)) m) = pn_names (gnode s m)).
Proof.
  unfold path_node_for. fold (gnode s n). destruct (alookup Nat.eqb nm (pn_nodes (gnode s n))) as [c|]; cbn [snd]; [split; [apply pf_refl | reflexivity]|].
  set (s0 := with_nodes pfs (s_nodes pfs s ++ [empty_node]) s).
  assert (G0 : forall m, gnode s0 m = gnode s m) by apply gnode_app_empty.
  assert (P0 : pf s s0).
  { split; [|reflexivity]. intros (A & B). split; [intros m; rewrite G0; apply A | intros m q x; rewrite G0; apply B]. }
  set (X := pn_with_nodes (gnode s n) (aset Nat.eqb nm (length (s_nodes pfs s)) (pn_nodes (gnode s n)))).
  split.
  - eapply pf_trans; [exact P0|]. apply pf_set_node_same; rewrite G0; reflexivity.
  - intros m. rewrite gnode_set_node. rewrite G0. destruct ((m =? n) && (n <? nlen s0)) eqn:E; [|reflexivity].
    apply andb_prop in E. destruct E as (E & _). apply Nat.eqb_eq in E. subst. reflexivity.
Qed.

Lemma pf_walk_one fh fn nm ga (s : st) : pf s (snd (walk_one pfs pfs_step fh fn nm ga s)) /\
  (forall m, pn_names (gnode (snd (walk_one pfs pfs_step fh fn nm ga s)) m) = pn_names (gnode s m)).
Proof.
  assert (B : forall c (s0 : st), pf s0 (snd (bcall_ pfs pfs_step c s0)) /\ (forall m, pn_names (gnode (snd (bcall_ pfs pfs_step c s0)) m) = pn_names (gnode s0 m))).
  { intros c s0. split; [apply pf_bcall|]. intros m. destruct (bcall_be c s0) as (_ & _ & _ & N & _). unfold get_node. rewrite N. reflexivity. }
  assert (Tr : forall a b c : st, (pf a b /\ (forall m, pn_names (gnode b m) = pn_names (gnode a m))) ->
                (pf b c /\ (forall m, pn_names (gnode c m) = pn_names (gnode b m))) -> pf a c /\ (forall m, pn_names (gnode c m) = pn_names (gnode a m))).
  { intros a b c (P1 & N1) (P2 & N2). split; [eapply pf_trans; eauto | intros m; rewrite N2; apply N1]. }
  assert (Rf : forall a : st, pf a a /\ (forall m, pn_names (gnode a m) = pn_names (gnode a m))) by (intros; split; [apply pf_refl | reflexivity]).
  assert (Th : forall a : st, pf a (take_handle pfs a) /\ (forall m, pn_names (gnode (take_handle pfs a) m) = pn_names (gnode a m))) by (intros; split; [apply pf_take_handle | reflexivity]).
  assert (Fin : forall nh m0 i bad (a : st), pf a (snd (w_finish nm nh m0 i bad a)) /\ (forall m, pn_names (gnode (snd (w_finish nm nh m0 i bad a)) m) = pn_names (gnode a m))).
  { intros nh m0 i bad a. unfold w_finish. destruct nm; [|apply Rf]. destruct bad; [|apply Rf].
    pose proof (B (BClose nh) a) as Q. destruct (bcall_ pfs pfs_step (BClose nh) a). exact Q. }
  assert (Pl : forall nh (a : st), pf a (snd (w_plain fh fn nm ga nh a)) /\ (forall m, pn_names (gnode (snd (w_plain fh fn nm ga nh a)) m) = pn_names (gnode a m))).
  { intros nh a. unfold w_plain. pose proof (B (BWalk fh nm nh) a) as Q1. destruct (bcall_ pfs pfs_step (BWalk fh nm nh) a) as [r1 a1]. cbn [snd] in Q1.
    assert (Main : forall m0 i bad, pf a (snd (if ga then
        let s3 := match nm with Some x => snd (path_node_for pfs fn x (take_handle pfs a1)) | None => take_handle pfs a1 end in
        let '(a2, s4) := bcall_ pfs pfs_step (BGetAttr nh) s3 in
        match a2 with
        | AErr e => let '(_, s5) := bcall_ pfs pfs_step (BClose nh) s4 in (WFail e, s5)
        | AOk m2 i2 | ABadQ m2 i2 => w_finish nm nh m2 i2 bad s4
        end else w_finish nm nh m0 i bad (take_handle pfs a1))) /\ (forall m, pn_names (gnode (snd (if ga then
        let s3 := match nm with Some x => snd (path_node_for pfs fn x (take_handle pfs a1)) | None => take_handle pfs a1 end in
        let '(a2, s4) := bcall_ pfs pfs_step (BGetAttr nh) s3 in
        match a2 with
        | AErr e => let '(_, s5) := bcall_ pfs pfs_step (BClose nh) s4 in (WFail e, s5)
        | AOk m2 i2 | ABadQ m2 i2 => w_finish nm nh m2 i2 bad s4
        end else w_finish nm nh m0 i bad (take_handle pfs a1))) m) = pn_names (gnode a m))).
    { intros m0 i bad. destruct ga; [|eapply Tr; [exact Q1|]; eapply Tr; [apply Th | apply Fin]]. cbv zeta.
      assert (Q3 : pf a (match nm with Some x => snd (path_node_for pfs fn x (take_handle pfs a1)) | None => take_handle pfs a1 end) /\
                   (forall m, pn_names (gnode (match nm with Some x => snd (path_node_for pfs fn x (take_handle pfs a1)) | None => take_handle pfs a1 end) m) = pn_names (gnode a m))).
      { eapply Tr; [exact Q1|]. destruct nm as [x|]; [|apply Th]. eapply Tr; [apply Th | apply pf_path_node_for]. }
      set (s3 := match nm with Some x => _ | None => _ end) in *.
      pose proof (B (BGetAttr nh) s3) as Q4. destruct (bcall_ pfs pfs_step (BGetAttr nh) s3) as [a2 s4]. cbn [snd] in Q4.
      assert (Q04 := Tr _ _ _ Q3 Q4).
      destruct a2; try (eapply Tr; [exact Q04 | apply Fin]).
      pose proof (B (BClose nh) s4) as Q5. destruct (bcall_ pfs pfs_step (BClose nh) s4) as [a5 s5]. cbn [snd] in *. eapply Tr; eauto. }
    destruct r1; [apply Main | exact Q1 | apply Main]. }
  rewrite walk_one_eq. destruct ga; [|apply Pl].
  pose proof (B (BWalkGetAttr fh nm (s_nexth pfs s)) s) as Q1. destruct (bcall_ pfs pfs_step (BWalkGetAttr fh nm (s_nexth pfs s)) s) as [r1 a1]. cbn [snd] in Q1.
  destruct r1.
  - eapply Tr; [exact Q1|]. eapply Tr; [apply Th | apply Fin].
  - destruct (e =? ENOSYS); [eapply Tr; [exact Q1 | apply Pl] | exact Q1].
  - eapply Tr; [exact Q1|]. eapply Tr; [apply Th | apply Fin].
Qed.

(** registering a fidRef that has just been created *)
Lemma pf_fresh_child n nm (s2 s4 : st) :
  s_nodes pfs s4 = s_nodes pfs s2 -> rlen s4 = S (rlen s2) -> s_panic pfs s4 = s_panic pfs s2 ->
  pf s2 (add_child pfs n (rlen s2) nm s4).
Proof.
  intros N L P. assert (P24 : pf s2 s4) by (apply pf_same_nodes; auto; lia).
  assert (GN : forall m, gnode s4 m = gnode s2 m) by (intros; unfold get_node; rewrite N; reflexivity).
  assert (K : NPI s2 -> pf s4 (add_child pfs n (rlen s2) nm s4)).
  { intros (_ & B). apply pf_add_child; [lia|]. rewrite GN.
    destruct (alookup Nat.eqb (rlen s2) (pn_names (gnode s2 n))) as [x|] eqn:E; auto. specialize (B n _ _ E). lia. }
  split; intros H; [apply (P_inv _ _ (K H)), (P_inv _ _ P24 H) | rewrite (P_np _ _ (K H) (P_inv _ _ P24 H)); apply (P_np _ _ P24 H)].
Qed.

Lemma new_ref_shape x (s : st) : let r := new_ref pfs x s in
  fst r = rlen s /\ s_nodes pfs (snd r) = s_nodes pfs s /\ rlen (snd r) = S (rlen s) /\ s_panic pfs (snd r) = s_panic pfs s.
Proof. cbn. unfold rlen. cbn. rewrite app_length. cbn. repeat split; auto. lia. Qed.

Lemma new_ref_inc_shape x (s : st) : let r := new_ref_inc pfs x s in
  fst r = rlen s /\ s_nodes pfs (snd r) = s_nodes pfs s /\ rlen (snd r) = S (rlen s) /\ s_panic pfs (snd r) = s_panic pfs s.
Proof.
  cbv zeta. unfold new_ref_inc. destruct (new_ref_shape x s) as (A & B & C & D). destruct (new_ref pfs x s) as [nr s1]. cbn [fst snd] in *.
  assert (I : forall t, s_nodes pfs (incref pfs t s1) = s_nodes pfs s1 /\ rlen (incref pfs t s1) = rlen s1 /\ s_panic pfs (incref pfs t s1) = s_panic pfs s1).
  { intros t. unfold incref, rlen, set_ref. cbn. rewrite upd_length. auto. }
  destruct (fr_parent x) as [p|]; [destruct (I p) as (I1 & I2 & I3); rewrite I1, I2, I3; auto|].
  destruct (fr_xattrOf x) as [o|]; [destruct (I o) as (I1 & I2 & I3); rewrite I1, I2, I3; auto | auto].
Qed.

Lemma pf_walk_steps names : forall wr (s : st), pf s (snd (walk_steps pfs pfs_step wr names s)).
Proof.
  induction names as [|nm rest IH]; intros wr s; [apply pf_refl|]. cbn [walk_steps]. cbv zeta.
  destruct (negb (is_dir (fr_mode (gref s wr)))); [cbn [snd]; apply pf_release|].
  destruct (is_deleted pfs s wr); [cbn [snd]; apply pf_release|].
  destruct (pf_walk_one (fr_file (gref s wr)) (fr_node (gref s wr)) (Some nm) true s) as (P1 & _).
  destruct (walk_one pfs pfs_step (fr_file (gref s wr)) (fr_node (gref s wr)) (Some nm) true s) as [w s1]. cbn [snd] in P1.
  destruct w as [e|h m ino]; [cbn [snd]; eapply pf_trans; [exact P1 | apply pf_release]|].
  destruct (pf_path_node_for (fr_node (gref s wr)) nm s1) as (P2 & _).
  destruct (path_node_for pfs (fr_node (gref s wr)) nm s1) as [cn s2]. cbn [snd] in P2.
  set (x := mkref h 0 false 0 m cn (Some wr) None XNone).
  unfold new_ref_handover. set (s2' := with_held pfs (remove_one wr (s_held pfs s2)) s2).
  destruct (new_ref_shape x s2') as (A & B & C & D). destruct (new_ref pfs x s2') as [nr s4]. cbn [fst snd] in *. subst nr.
  pose proof (pf_fresh_child (fr_node (gref s wr)) nm s2' s4 B C D) as P5.
  set (s5 := add_child pfs (fr_node (gref s wr)) (rlen s2') nm s4) in *.
  assert (P05 : pf s s5).
  { eapply pf_trans; [exact P1|]. eapply pf_trans; [exact P2|]. eapply pf_trans; [apply pf_with_held | exact P5]. }
  destruct (s_panic pfs s5); [exact P05|]. eapply pf_trans; [exact P05 | apply IH].
Qed.

Lemma pf_with_fid c fid body : (forall r s, pf s (snd (body r s))) -> forall s : st, pf s (snd (with_fid pfs pfs_step c fid body s)).
Proof.
  intros H s. unfold with_fid, lookup_fid. destruct (alookup peqb (c, fid) (s_fids pfs s)) as [r|]; [|apply pf_refl].
  specialize (H r (hold pfs r s)). destruct (body r (hold pfs r s)) as [rep s2]. cbn [snd] in *.
  eapply pf_trans; [apply pf_hold|]. eapply pf_trans; [exact H | apply pf_release].
Qed.

Lemma pf_bind c fid nr (s : st) : pf s (release pfs pfs_step nr (insert_fid pfs pfs_step c fid nr s)).
Proof. eapply pf_trans; [apply pf_insert_fid | apply pf_release]. Qed.

(** markChildDeleted *)
Lemma pf_notify_delete fuel : forall n (s : st), pf s (notify_delete pfs fuel n s).
Proof.
  induction fuel as [|f IH]; intros n s; cbn [notify_delete]; [apply pf_set_oof|].
  assert (P1 : pf s (set_node pfs n (pn_with_deleted (get_node pfs s n)) s)) by (apply pf_set_node_same; reflexivity).
  revert P1. generalize (set_node pfs n (pn_with_deleted (get_node pfs s n)) s). generalize (pn_nodes (get_node pfs s n)).
  intros l. induction l as [|a l IHl]; intros s0 P0; cbn [fold_left]; auto. apply IHl. eapply pf_trans; [exact P0 | apply IH].
Qed.

Lemma pf_rwn_none n nm m : forall held (s : st), pf s (snd (rwn_loop pfs n nm None m held s)).
Proof.
  induction m as [|r m IH]; intros held s; cbn [rwn_loop]; [apply pf_refl|]. cbv zeta.
  eapply pf_trans; [apply (pf_rwn_step n nm r s) | apply IH].
Qed.

Lemma pf_mcd n nm (s : st) : pf s (mark_child_deleted pfs pfs_step n nm s).
Proof.
  unfold mark_child_deleted, remove_with_name.
  set (lp := match alookup Nat.eqb nm (pn_refs (get_node pfs s n)) with
             | Some m => rwn_loop pfs n nm None m [] s | None => ([], s) end).
  assert (H1 : fst lp = [] /\ pf s (snd lp)).
  { unfold lp. destruct (alookup Nat.eqb nm (pn_refs (get_node pfs s n))); [|split; [reflexivity | apply pf_refl]].
    split; [apply held_rwn_none | apply pf_rwn_none]. }
  destruct lp as [held s1]. cbn [fst snd] in H1. destruct H1 as (-> & P1). cbn [release_all].
  assert (P2 : pf s (set_node pfs n (pn_with_nodes (get_node pfs s1 n) (adel Nat.eqb nm (pn_nodes (get_node pfs s1 n)))) s1))
    by (eapply pf_trans; [exact P1 | apply pf_set_node_same; reflexivity]).
  destruct (alookup Nat.eqb nm (pn_nodes (get_node pfs s1 n))); [eapply pf_trans; [exact P2 | apply pf_notify_delete] | exact P2].
Qed.

(** ---- the requests that cannot reach a panic site whatever the state ---- *)
Lemma pf_let_gc {A} r gd c (s : st) (f : reply -> A) : pf s (snd (let '(rep, s1) := guarded_call pfs pfs_step r gd c s in (f rep, s1))).
Proof. rewrite snd_let_pair. apply pf_guarded_call. Qed.

Lemma pf_getattr c fid s : pf s (snd (do_getattr pfs pfs_step c fid s)).
Proof. apply pf_with_fid. intros. apply pf_guarded_call. Qed.
Lemma pf_use k c fid s : pf s (snd (do_use pfs pfs_step k c fid s)).
Proof. apply pf_with_fid. intros. apply pf_let_gc. Qed.
Lemma pf_setattr c fid s : pf s (snd (do_setattr pfs pfs_step c fid s)).
Proof. apply pf_with_fid. intros. apply pf_let_gc. Qed.
Lemma pf_mk k c fid nm s : pf s (snd (do_mk pfs pfs_step k c fid nm s)).
Proof. apply pf_with_fid. intros. apply pf_let_gc. Qed.
Lemma pf_readdir c fid s : pf s (snd (do_readdir pfs pfs_step c fid s)).
Proof. apply pf_with_fid. intros. cbv zeta. apply pf_let_gc. Qed.
Lemma pf_readlink c fid s : pf s (snd (do_readlink pfs pfs_step c fid s)).
Proof. apply pf_with_fid. intros. apply pf_refl. Qed.
Lemma pf_io k c fid s : pf s (snd (do_io pfs pfs_step k c fid s)).
Proof.
  apply pf_with_fid. intros r s0. cbv zeta. destruct (k =? uFsync); [apply pf_let_gc|].
  destruct (k =? uRead); destruct (fr_xop (gref s0 r)); try apply pf_refl; try apply pf_let_gc; apply pf_guarded_call.
Qed.
Lemma pf_link c dfid tfid nm s : pf s (snd (do_link pfs pfs_step c dfid tfid nm s)).
Proof. unfold do_link. apply pf_with_fid. intros r s0. apply pf_with_fid. intros. apply pf_let_gc. Qed.
Lemma pf_open c fid fl s : pf s (snd (do_open pfs pfs_step c fid fl s)).
Proof.
  apply pf_with_fid. intros r s0. cbv zeta. destruct (is_deleted pfs s0 r); [apply pf_refl|].
  destruct (_ || _); [apply pf_refl|]. destruct (_ && _); [apply pf_refl|].
  pose proof (pf_bcall (BOpen (fr_file (gref s0 r)) fl) s0) as H. destruct (bcall_ pfs pfs_step _ s0) as [a s1]. cbn [snd] in H.
  destruct a; cbn [snd]; auto; (eapply pf_trans; [exact H | apply pf_set_ref]).
Qed.
Lemma pf_xattrcreate c fid s : pf s (snd (do_xattrcreate pfs pfs_step c fid s)).
Proof. apply pf_with_fid. intros r s0. destruct (is_deleted pfs s0 r); cbn [snd]; [apply pf_refl | apply pf_set_ref]. Qed.
Lemma pf_clunk c fid s : pf s (snd (do_clunk pfs pfs_step c fid s)).
Proof.
  unfold do_clunk.
  set (body := fun r s => match fr_xop (gref s r) with
                          | XCreate => guarded_call pfs pfs_step r None (BUse uSetXattr (fr_file (gref s r))) s
                          | _ => (rok 0, s) end).
  assert (W : pf s (snd (with_fid pfs pfs_step c fid body s))).
  { apply pf_with_fid. intros r s0. unfold body. destruct (fr_xop (gref s0 r)); try apply pf_refl. apply pf_guarded_call. }
  destruct (with_fid pfs pfs_step c fid body s) as [cerr s1]. cbn [snd] in W.
  pose proof (pf_delete_fid c fid s1) as D. destruct (delete_fid pfs pfs_step c fid s1) as [e s2]. cbn [snd] in D.
  assert (R : pf s s2) by (eapply pf_trans; eauto). destruct e; [exact R|]. destruct (fst cerr =? 0); exact R.
Qed.
Lemma pf_stop c s : pf s (snd (do_stop pfs pfs_step c s)).
Proof. apply pf_stop_loop. Qed.
Lemma pf_xattrwalk c fid nf s : pf s (snd (do_xattrwalk pfs pfs_step c fid nf s)).
Proof.
  apply pf_with_fid. intros r s0. destruct (is_deleted pfs s0 r); [apply pf_refl|]. cbv zeta.
  pose proof (pf_bcall (BUse uGetXattr (fr_file (gref s0 r))) s0) as H. destruct (bcall_ pfs pfs_step _ s0) as [a s1]. cbn [snd] in H.
  assert (M : let '(nr, s2) := new_ref_inc pfs (mkref (fr_file (gref s0 r)) 0 false 0 MNone (fr_node (gref s0 r)) None (Some r) XWalk) s1 in
              pf s0 (release pfs pfs_step nr (insert_fid pfs pfs_step c nf nr s2))).
  { pose proof (pf_new_ref_inc (mkref (fr_file (gref s0 r)) 0 false 0 MNone (fr_node (gref s0 r)) None (Some r) XWalk) s1) as N.
    destruct (new_ref_inc pfs _ s1) as [nr s2]. cbn [snd] in N. eapply pf_trans; [exact H|]. eapply pf_trans; [exact N | apply pf_bind]. }
  destruct (new_ref_inc pfs _ s1) as [nr s2]. destruct a; cbn [snd]; auto.
Qed.

Lemma pf_do_walk_names ref nm rest ga (s : st) : pf s (snd (do_walk pfs pfs_step ref (nm :: rest) ga s)).
Proof. unfold do_walk. eapply pf_trans; [apply pf_hold | apply pf_walk_steps]. Qed.

Lemma pf_create c fid nm fl s : pf s (snd (do_create pfs pfs_step c fid nm fl s)).
Proof.
  apply pf_with_fid. intros r s0. destruct (dir_guard pfs s0 r); [apply pf_refl|]. cbv zeta.
  pose proof (pf_bcall (BCreate (fr_file (gref s0 r)) nm (s_nexth pfs s0)) s0) as H. destruct (bcall_ pfs pfs_step _ s0) as [a s1]. cbn [snd] in H.
  assert (M : forall ino, pf s0 (snd (let '(cn, s2) := path_node_for pfs (fr_node (gref s0 r)) nm (take_handle pfs s1) in
         let '(nr, s3) := new_ref_inc pfs (mkref (s_nexth pfs s0) 0 true fl MReg cn (Some r) None XNone) s2 in
         let s4 := add_child pfs (fr_node (gref s0 r)) nr nm s3 in
         if s_panic pfs s4 then (rerr EFAULT, s4)
         else (rok ino, release pfs pfs_step nr (insert_fid pfs pfs_step c fid nr s4))))).
  { intros ino. destruct (pf_path_node_for (fr_node (gref s0 r)) nm (take_handle pfs s1)) as (P2 & _).
    destruct (path_node_for pfs (fr_node (gref s0 r)) nm (take_handle pfs s1)) as [cn s2]. cbn [snd] in P2.
    destruct (new_ref_inc_shape (mkref (s_nexth pfs s0) 0 true fl MReg cn (Some r) None XNone) s2) as (A & B & C & D).
    destruct (new_ref_inc pfs _ s2) as [nr s3]. cbn [fst snd] in *. subst nr.
    pose proof (pf_fresh_child (fr_node (gref s0 r)) nm s2 s3 B C D) as P4.
    set (s4 := add_child pfs (fr_node (gref s0 r)) (rlen s2) nm s3) in *.
    assert (P04 : pf s0 s4). { eapply pf_trans; [exact H|]. eapply pf_trans; [apply pf_take_handle|]. eapply pf_trans; [exact P2 | exact P4]. }
    destruct (s_panic pfs s4); cbn [snd]; [exact P04 | eapply pf_trans; [exact P04 | apply pf_bind]]. }
  destruct a; [apply M | exact H | apply M].
Qed.

Lemma pf_attach c fid names s : pf s (snd (do_attach pfs pfs_step c fid names s)).
Proof.
  unfold do_attach. pose proof (pf_bcall (BAttach (s_nexth pfs s)) s) as H. destruct (bcall_ pfs pfs_step _ s) as [a s1]. cbn [snd] in H.
  assert (M : pf s (snd (let '(root, s2) := new_ref pfs (mkref (s_nexth pfs s) 0 false 0 MNone 0 None None XNone) (take_handle pfs s1) in
     let '(a2, s3) := bcall_ pfs pfs_step (BGetAttr (s_nexth pfs s)) s2 in
     match a2 with
      | AErr e => (rerr e, release pfs pfs_step root s3)
      | AOk m ino | ABadQ m ino =>
          let s4 := set_ref pfs root (fr_with_mode (gref s3 root) m) s3 in
          match names with
          | [] => (rok ino, release pfs pfs_step root (insert_fid pfs pfs_step c fid root s4))
          | _ =>
              let '(d0, s5) := do_walk pfs pfs_step root names false s4 in
              match d0 with
              | DFail e => (rerr e, release pfs pfs_step root s5)
              | DOk nr => (rok ino, release pfs pfs_step root (release pfs pfs_step nr (insert_fid pfs pfs_step c fid nr s5)))
              end
          end
      end))).
  { pose proof (pf_new_ref (mkref (s_nexth pfs s) 0 false 0 MNone 0 None None XNone) (take_handle pfs s1)) as N.
    destruct (new_ref pfs _ (take_handle pfs s1)) as [root s2]. cbn [snd] in N.
    pose proof (pf_bcall (BGetAttr (s_nexth pfs s)) s2) as H3. destruct (bcall_ pfs pfs_step _ s2) as [a2 s3]. cbn [snd] in H3.
    assert (P03 : pf s s3). { eapply pf_trans; [exact H|]. eapply pf_trans; [apply pf_take_handle|]. eapply pf_trans; eauto. }
    assert (Okk : forall m ino, pf s (snd (let s4 := set_ref pfs root (fr_with_mode (gref s3 root) m) s3 in
          match names with
          | [] => (rok ino, release pfs pfs_step root (insert_fid pfs pfs_step c fid root s4))
          | _ =>
              let '(d0, s5) := do_walk pfs pfs_step root names false s4 in
              match d0 with
              | DFail e => (rerr e, release pfs pfs_step root s5)
              | DOk nr => (rok ino, release pfs pfs_step root (release pfs pfs_step nr (insert_fid pfs pfs_step c fid nr s5)))
              end
          end))).
    { intros m ino. cbv zeta. set (s4 := set_ref pfs root (fr_with_mode (gref s3 root) m) s3).
      assert (P04 : pf s s4) by (eapply pf_trans; [exact P03 | apply pf_set_ref]).
      destruct names as [|nm rest]; [cbn [snd]; eapply pf_trans; [exact P04 | apply pf_bind]|].
      pose proof (pf_do_walk_names root nm rest false s4) as W. destruct (do_walk pfs pfs_step root (nm :: rest) false s4) as [d0 s5]. cbn [snd] in W.
      destruct d0; cbn [snd]; (eapply pf_trans; [exact P04|]); (eapply pf_trans; [exact W|]); [apply pf_release|].
      eapply pf_trans; [apply pf_bind | apply pf_release]. }
    destruct a2; [apply Okk | cbn [snd]; eapply pf_trans; [exact P03 | apply pf_release] | apply Okk]. }
  destruct a; [exact M | exact H | exact M].
Qed.

Lemma pf_unlinkat c fid nm s : pf s (snd (do_unlinkat pfs pfs_step c fid nm s)).
Proof.
  apply pf_with_fid. intros r s0. destruct (dir_guard pfs s0 r); [apply pf_refl|]. cbv zeta.
  destruct (pf_path_node_for (fr_node (gref s0 r)) nm s0) as (P1 & _). destruct (path_node_for pfs (fr_node (gref s0 r)) nm s0) as [cn s1]. cbn [snd] in P1.
  pose proof (pf_bcall (BUnlinkAt (fr_file (gref s0 r)) nm) s1) as H. destruct (bcall_ pfs pfs_step _ s1) as [a s2]. cbn [snd] in H.
  assert (P02 : pf s0 s2) by (eapply pf_trans; eauto).
  destruct a; cbn [snd]; auto; (eapply pf_trans; [exact P02 | apply pf_mcd]).
Qed.

(** ---- requests with a panic site that the tree invariant excludes ---- *)
Definition np (pre : list nat) (f : st -> st) : Prop :=
  forall s d g, RInvD s d -> heldall pre s -> TH s -> Good s g -> NPI s -> s_panic pfs s = false ->
                NPI (f s) /\ s_panic pfs (f s) = false.

Lemma np_of_pf pre f : (forall s, pf s (f s)) -> np pre f.
Proof. intros H s d g _ _ _ _ N P. split; [apply (P_inv _ _ (H s) N) | rewrite (P_np _ _ (H s) N); exact P]. Qed.

Lemma with_fid_np pre c fid body :
  (forall r, np (r :: pre) (fun s => snd (body r s))) -> np pre (fun s => snd (with_fid pfs pfs_step c fid body s)).
Proof.
  intros GB s d g Inv HP T G N P. unfold with_fid, lookup_fid.
  destruct (alookup peqb (c, fid) (s_fids pfs s)) as [r|] eqn:E; [|cbn; auto].
  pose proof (C_fid pfs s r (alookup_in peqb peqb_spec _ _ _ E)) as Cr.
  destruct (hold_ok pfs s d r Inv Cr) as (I1 & L1).
  destruct (inv_live pfs s d r Inv Cr) as (_ & Lv).
  assert (HP1 : heldall (r :: pre) (hold pfs r s)).
  { intros x [<-|Hx].
    - eapply led_hc_pos; [exact L1 | rewrite cnt_cons, ind_same; lia | reflexivity].
    - eapply led_hc_pos; [exact L1 | specialize (HP x Hx); lia | reflexivity]. }
  assert (G1 : Good (hold pfs r s) g) by (eapply shrink_good; [apply sh_hold; exact Lv | exact G]).
  assert (T1 : TH (hold pfs r s)) by (eapply TH_tsame; [apply tsame_hold; exact Lv | exact T]).
  destruct (GB r (hold pfs r s) d g I1 HP1 T1 G1 (P_inv _ _ (pf_hold r s) N)) as (N2 & P2); [rewrite (P_np _ _ (pf_hold r s) N); exact P|].
  cbv beta in N2, P2. destruct (body r (hold pfs r s)) as [rep s2]. cbn [snd] in *.
  split; [apply (P_inv _ _ (pf_release r s2) N2) | rewrite (P_np _ _ (pf_release r s2) N2); exact P2].
Qed.

Lemma new_ref_inc_old x (s : st) q : q < rlen s -> fr_node (gref (snd (new_ref_inc pfs x s)) q) = fr_node (gref s q).
Proof.
  intros Hq. unfold new_ref_inc. destruct (new_ref_facts pfs x s) as (_ & _ & _ & Go & _). cbv zeta in Go.
  destruct (new_ref pfs x s) as [nr s1]. cbn [fst snd] in *.
  assert (I : forall t, fr_node (gref (incref pfs t s1) q) = fr_node (gref s1 q)).
  { intros t. unfold incref. rewrite gref_set_ref. destruct ((q =? t) && (t <? rlen s1)) eqn:X; auto.
    apply andb_prop in X. destruct X as (X & _). apply Nat.eqb_eq in X. subst. reflexivity. }
  destruct (fr_parent x); [rewrite I; rewrite Go; auto|]. destruct (fr_xattrOf x); [rewrite I|]; rewrite Go; auto.
Qed.

Lemma new_ref_inc_new x (s : st) : fr_node (gref (snd (new_ref_inc pfs x s)) (rlen s)) = fr_node x.
Proof.
  unfold new_ref_inc. destruct (new_ref_facts pfs x s) as (_ & _ & Gn & _). cbv zeta in Gn. fold (rlen s) in Gn.
  destruct (new_ref pfs x s) as [nr s1]. cbn [fst snd] in *.
  assert (I : forall t, fr_node (gref (incref pfs t s1) (rlen s)) = fr_node (gref s1 (rlen s))).
  { intros t. unfold incref. rewrite gref_set_ref. destruct ((rlen s =? t) && (t <? rlen s1)) eqn:X; auto.
    apply andb_prop in X. destruct X as (X & _). apply Nat.eqb_eq in X. subst. reflexivity. }
  destruct (fr_parent x); [rewrite I, Gn; reflexivity|]. destruct (fr_xattrOf x); [rewrite I|]; rewrite Gn; reflexivity.
Qed.

Lemma np_clone ref ga (s : st) d g :
  RInvD s d -> 0 < hc s ref -> TH s -> Good s g -> NPI s -> s_panic pfs s = false ->
  NPI (snd (do_walk pfs pfs_step ref [] ga s)) /\ s_panic pfs (snd (do_walk pfs pfs_step ref [] ga s)) = false.
Proof.
  intros Inv Hr T G N P. unfold do_walk. set (x0 := gref s ref).
  destruct (held_live s d ref Inv Hr) as (Lr & Lvr).
  destruct (fr_xattrOf x0) eqn:EX; [auto|].
  destruct (pf_walk_one (fr_file x0) (fr_node x0) None ga s) as (P1 & NM1).
  pose proof (sc_walk_one pfs pfs_step (fr_file x0) (fr_node x0) None ga s) as SC1.
  pose proof (walk_one_wpost (fr_file x0) (fr_node x0) None ga s (G_file _ _ G ref Lr) (G_nbound _ _ G ref Lr) (G_nt _ _ G)) as WP. cbv zeta in WP.
  destruct (walk_one pfs pfs_step (fr_file x0) (fr_node x0) None ga s) as [w s1]. cbn [fst snd] in *.
  destruct WP as ((_ & SH1) & _ & _).
  assert (Fin : forall s' : st, pf s s' -> NPI s' /\ s_panic pfs s' = false).
  { intros s' X. split; [apply (P_inv _ _ X N) | rewrite (P_np _ _ X N); exact P]. }
  destruct w as [e|h m ino]; [apply Fin; exact P1|].
  set (x := mkref h 0 false 0 (fr_mode x0) (fr_node x0) (fr_parent x0) None XNone).
  destruct (new_ref_inc_shape x s1) as (A & B & C & D).
  pose proof (new_ref_inc_new x s1) as NN. pose proof (fun q => new_ref_inc_old x s1 q) as NO.
  assert (RL1 : rlen s1 = rlen s) by (apply rlen_sc; exact SC1).
  destruct (new_ref_inc pfs x s1) as [nr s2]. cbn [fst snd] in *. subst nr.
  assert (P12 : pf s1 s2) by (apply pf_same_nodes; auto; lia).
  assert (GN2 : forall m, gnode s2 m = gnode s1 m) by (intros; unfold get_node; rewrite B; reflexivity).
  destruct (fr_parent x0) as [p|] eqn:Ep; [|apply Fin; eapply pf_trans; eauto].
  destruct (is_deleted pfs s2 (rlen s1)) eqn:Dn; [apply Fin; eapply pf_trans; eauto|].
  destruct (G_parent _ _ G ref p Lr Ep) as (_ & _ & Lp).
  assert (Nf : nonf s ref).
  { unfold nonf, is_deleted. unfold is_deleted in Dn. rewrite NN in Dn. cbn [fr_node x] in Dn. change (get_node pfs s2) with (gnode s2) in Dn.
    rewrite GN2, (S_del _ _ SH1) in Dn. exact Dn. }
  destruct (T_live pfs s T ref p Lr Lvr Ep Nf) as (nm & Rg).
  assert (NF : name_for pfs (fr_node (gref s2 p)) ref s2 = Some nm).
  { unfold name_for. fold (gnode s2 (fr_node (gref s2 p))). rewrite NO by (rewrite RL1; exact Lp).
    rewrite (gref_sc' s s1 p SC1). rewrite GN2, NM1. exact Rg. }
  rewrite NF.
  pose proof (pf_fresh_child (fr_node (gref s2 p)) nm s1 s2 B C D) as P3.
  set (s3 := add_child pfs (fr_node (gref s2 p)) (rlen s1) nm s2) in *.
  assert (P03 : pf s s3) by (eapply pf_trans; eauto).
  destruct (s_panic pfs s3); apply Fin; exact P03.
Qed.

Lemma np_walk_op c fid newfid names ga : np [] (fun s => snd (do_walk_op pfs pfs_step c fid newfid names ga s)).
Proof.
  unfold do_walk_op. apply with_fid_np. intros r s d g Inv HP T G N P.
  destruct (_ && _); [auto|].
  assert (Hr : 0 < hc s r) by (apply HP; left; reflexivity).
  assert (W : NPI (snd (do_walk pfs pfs_step r names ga s)) /\ s_panic pfs (snd (do_walk pfs pfs_step r names ga s)) = false).
  { destruct names as [|nm rest]; [eapply np_clone; eauto|].
    pose proof (pf_do_walk_names r nm rest ga s) as X. split; [apply (P_inv _ _ X N) | rewrite (P_np _ _ X N); exact P]. }
  destruct (do_walk pfs pfs_step r names ga s) as [res s1]. cbn [snd] in *. destruct W as (N1 & P1).
  destruct res as [e|nr]; [auto|]. cbn [snd].
  split; [apply (P_inv _ _ (pf_bind c newfid nr s1) N1) | rewrite (P_np _ _ (pf_bind c newfid nr s1) N1); exact P1].
Qed.

Lemma np_remove c fid : np [] (fun s => snd (do_remove pfs pfs_step c fid s)).
Proof.
  unfold do_remove. apply with_fid_np. intros r s d g Inv HP T G N P. cbv zeta.
  assert (Hr : 0 < hc s r) by (apply HP; left; reflexivity).
  destruct (held_live s d r Inv Hr) as (Lr & Lvr).
  set (first := match fr_parent (gref s r) with
                | None => (Some EINVAL, s)
                | Some p =>
                    if is_deleted pfs s r then (Some EINVAL, s)
                    else match name_for pfs (fr_node (gref s p)) r s with
                         | None => (Some EFAULT, set_panic pfs s)
                         | Some nm =>
                             let '(a, s1) := bcall_ pfs pfs_step (BUnlinkAt (fr_file (gref s p)) nm) s in
                             match a with
                             | AErr e => (Some e, s1)
                             | _ => (None, mark_child_deleted pfs pfs_step (fr_node (gref s1 p)) nm s1)
                             end
                         end
                end).
  assert (F1 : pf s (snd first)).
  { unfold first. destruct (fr_parent (gref s r)) as [p|] eqn:Ep; [|apply pf_refl].
    destruct (is_deleted pfs s r) eqn:Nf; [apply pf_refl|].
    destruct (T_live pfs s T r p Lr Lvr Ep Nf) as (nm & Rg). unfold name_for. fold (gnode s (fr_node (gref s p))).
    unfold registered in Rg. rewrite Rg.
    pose proof (pf_bcall (BUnlinkAt (fr_file (gref s p)) nm) s) as H. destruct (bcall_ pfs pfs_step _ s) as [a s1]. cbn [snd] in H.
    destruct a; cbn [snd]; auto; (eapply pf_trans; [exact H | apply pf_mcd]). }
  destruct first as [err s1]. cbn [snd] in F1.
  pose proof (P_np _ _ F1 N) as P1. rewrite P in P1. rewrite P1, P. cbn [andb].
  pose proof (pf_delete_fid c fid s1) as D. destruct (delete_fid pfs pfs_step c fid s1) as [fe s2]. cbn [snd] in D.
  assert (R : NPI s2 /\ s_panic pfs s2 = false).
  { split; [apply (P_inv _ _ D), (P_inv _ _ F1 N) | rewrite (P_np _ _ D (P_inv _ _ F1 N)); exact P1]. }
  destruct fe; [exact R|]. destruct err; exact R.
Qed.
