(** Refs/TreeInv.v — the path-tree invariant of Refs/Model.v (C08_tree_inv): STATEMENT.
    Stable interface for the coherence / notification developments (Refs/Coherent*.v,
    Refs/Notified*.v import THIS file only).  The proof that it holds after every history,
    for every backend, is Refs/TreeProofs.v ([tree_inv_history : tree_inv_holds]).

    Vocabulary: node ids index [s_nodes] (node 0 = server.pathTree), ref ids index [s_refs];
    names are name ids.  For a node n:
      pn_nodes n : name -> child node        (childNodes)
      pn_refs  n : name -> list of ref ids   (childRefs)
      pn_names n : ref id -> name            (childRefNames)
      pn_deleted n                            (deleted)                                        *)
From Coq Require Import List Arith Bool ZArith Lia.
From P9V Require Import Refs.Model Refs.RefProofs.
Import ListNotations.

Section Tree.
Variable B : Type.
Notation st := (sstate B).
Notation gref := (get_ref B).
Notation gnode := (get_node B).

Definition nlen (s : st) : nat := length (s_nodes B s).
Definition rlen (s : st) : nat := length (s_refs B s).

(** ref r is registered in node n under name nm (childRefNames view) *)
Definition registered (s : st) (n r nm : nat) : Prop :=
  alookup Nat.eqb r (pn_names (gnode s n)) = Some nm.

(** ... (childRefs view) *)
Definition in_refs (s : st) (n nm r : nat) : Prop :=
  exists m, alookup Nat.eqb nm (pn_refs (gnode s n)) = Some m /\ In r m.

(** c is the child node of n under name nm (childNodes) *)
Definition child_node (s : st) (n nm c : nat) : Prop :=
  alookup Nat.eqb nm (pn_nodes (gnode s n)) = Some c.

Definition node_deleted (s : st) (n : nat) : bool := pn_deleted (gnode s n).
Definition ref_live (s : st) (r : nat) : Prop := (0 < fr_refs (gref s r))%Z.

Record tree_ok (s : st) : Prop := mkT {
  (** childRefs and childRefNames agree; the sets have no duplicates *)
  T_agree : forall n r nm, n < nlen s -> (registered s n r nm <-> in_refs s n nm r);
  T_nodup : forall n nm m, n < nlen s -> alookup Nat.eqb nm (pn_refs (gnode s n)) = Some m -> NoDup m;
  (** a registered ref is live, has a parent whose node is the registering node, and its own
      node is that node's childNodes[name] *)
  T_reg : forall n r nm, n < nlen s -> registered s n r nm ->
          r < rlen s /\ ref_live s r /\
          exists p, fr_parent (gref s r) = Some p /\ p < rlen s /\ fr_node (gref s p) = n /\
                    child_node s n nm (fr_node (gref s r));
  (** a live, non-deleted ref with a parent is registered in its parent's node (under exactly one
      name: [registered] is a function of r; in exactly one node: T_reg) *)
  T_live : forall r p, r < rlen s -> ref_live s r -> fr_parent (gref s r) = Some p ->
           node_deleted s (fr_node (gref s r)) = false ->
           exists nm, registered s (fr_node (gref s p)) r nm;
  (** ids are in range; an xattr fidRef has no parent *)
  T_child_bound : forall n nm c, n < nlen s -> child_node s n nm c -> c < nlen s;
  T_node_bound : forall r, r < rlen s -> fr_node (gref s r) < nlen s;
  T_parent_bound : forall r p, r < rlen s -> fr_parent (gref s r) = Some p -> p < rlen s;
  T_xattr : forall r o, r < rlen s -> fr_xattrOf (gref s r) = Some o -> fr_parent (gref s r) = None;
  (** a node is the child of at most one (node, name); the root is nobody's child *)
  T_inj : forall n nm n' nm' c, n < nlen s -> n' < nlen s -> child_node s n nm c -> child_node s n' nm' c ->
          n = n' /\ nm = nm';
  T_root : forall n nm, n < nlen s -> ~ child_node s n nm 0;
  T_nonempty : 0 < nlen s }.

(** [tree_inv]: holds after every history, for every backend, unconditionally (Refs/TreeProofs.v) *)
Definition tree_inv (s : st) : Prop := tree_ok s.

(** The part that needs an acyclic node graph (assumption B2: the backend never lets a directory be
    moved into its own subtree - otherwise childNodes becomes cyclic, notifyDelete may mark the target
    directory of the rename itself, and trename's assertion "parent deleted, child not" can fire):
    deleted is downward closed, and no run-time panic of the path-tree code has been flagged. *)
Record tree_closed (s : st) : Prop := mkTC {
  T_deleted : forall n nm c, n < nlen s -> node_deleted s n = true -> child_node s n nm c -> node_deleted s c = true;
  T_nopanic : s_panic B s = false }.

(** c is k childNodes-edges below n *)
Fixpoint tpath (s : st) (n c k : nat) : Prop :=
  match k with
  | 0 => n = c
  | S k' => exists nm c1, child_node s n nm c1 /\ tpath s c1 c k'
  end.
Definition acyclic (s : st) : Prop := forall n k, n < nlen s -> 0 < k -> ~ tpath s n n k.

(** consequences used downstream *)
Definition name_of (s : st) (r : nat) : option nat :=
  match fr_parent (gref s r) with
  | Some p => name_for B (fr_node (gref s p)) r s
  | None => None
  end.
End Tree.

(** the history theorems, as propositions (proved in Refs/TreeProofs.v / Refs/TreeStep.v) *)
Definition tree_inv_holds : Prop :=
  forall (B : Type) (bstep : B -> bcall -> B * bans) (ops : list op) (b : B),
    tree_inv B (snd (run B bstep ops (init_state B b))).

(** under B2, in the form "the node graph is acyclic after every prefix of the history", and unless a
    fuelled recursion over the node tree ran out of fuel *)
Definition tree_closed_holds : Prop :=
  forall (B : Type) (bstep : B -> bcall -> B * bans) (ops : list op) (b : B),
    (forall pre post, ops = pre ++ post -> acyclic B (snd (run B bstep pre (init_state B b)))) ->
    let s := snd (run B bstep ops (init_state B b)) in
    s_oof B s = false -> tree_closed B s.
