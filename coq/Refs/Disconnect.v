(** Refs/Disconnect.v — C05_disconnect: connState.stop empties the connection's fid table; once
    every connection that holds a fid has been stopped the table is empty, and (Refs/LifeStep.v:
    all_closed_exactly_once) every File ever returned by the backend has been closed exactly once. *)
From Coq Require Import List Arith Bool ZArith Lia.
From P9V Require Import Refs.Model Refs.RefProofs Refs.RefStep Refs.LifeProofs Refs.LifeStep Refs.ErrPaths.
Import ListNotations.

Section Disc.
Variable B : Type.
Variable bstep : B -> bcall -> B * bans.
Notation st := (sstate B).

Definition fkeys (s : st) : list (nat * nat) := map fst (s_fids B s).

Lemma fids_decref_ r (s : st) : s_fids B (snd (decref_ B bstep r s)) = s_fids B s.
Proof. unfold decref_. apply (keeps_decref B bstep (fuel_of B s) r s). Qed.

Lemma fids_delete_fid c fid (s : st) :
  s_fids B (snd (delete_fid B bstep c fid s)) = adel peqb (c, fid) (s_fids B s).
Proof.
  unfold delete_fid. destruct (alookup peqb (c, fid) (s_fids B s)) as [r|] eqn:E.
  - rewrite fids_decref_. reflexivity.
  - cbn. symmetry. apply (adel_notin_id peqb peqb_spec). apply (alookup_none_notin peqb peqb_spec). exact E.
Qed.

(** stop only removes entries, and removes every entry of the connection *)
Lemma stop_loop_keys l c : forall (s : st),
  (forall k, In k (fkeys (stop_loop B bstep l c s)) -> In k (fkeys s)) /\
  (forall e, In e l -> fst (fst e) = c -> ~ In (fst e) (fkeys (stop_loop B bstep l c s))).
Proof.
  induction l as [|[[c' f] r] l IH]; intros s; cbn [stop_loop]; [split; [auto | intros e []]|].
  destruct (Nat.eqb_spec c' c) as [->|N].
  - destruct (IH (snd (delete_fid B bstep c f s))) as (Sub & Gone).
    assert (Sub1 : forall k, In k (fkeys (snd (delete_fid B bstep c f s))) -> In k (fkeys s) /\ k <> (c, f)).
    { intros k Hk. unfold fkeys in *. rewrite fids_delete_fid in Hk. split; [eapply (adel_keys_incl peqb peqb_spec); eauto|].
      intros ->. revert Hk. apply (adel_notin peqb peqb_spec). }
    split.
    + intros k Hk. apply Sub in Hk. apply Sub1 in Hk. apply Hk.
    + intros e [<-|He] Hc; [|apply Gone; auto]. cbn [fst]. intros Hk. apply Sub in Hk. apply Sub1 in Hk. destruct Hk as (_ & X). apply X. reflexivity.
  - destruct (IH s) as (Sub & Gone). split; [exact Sub|].
    intros e [<-|He] Hc; [cbn in Hc; congruence | apply Gone; auto].
Qed.

Theorem stop_clears c (s : st) :
  let s' := snd (do_stop B bstep c s) in
  (forall k, In k (fkeys s') -> In k (fkeys s) /\ fst k <> c).
Proof.
  cbv zeta. unfold do_stop. cbn [snd]. destruct (stop_loop_keys (s_fids B s) c s) as (Sub & Gone).
  intros k Hk. split; [apply Sub; exact Hk|]. intros Hc.
  assert (Hin : In k (fkeys s)) by (apply Sub; exact Hk). unfold fkeys in Hin. apply in_map_iff in Hin. destruct Hin as (e & <- & He).
  apply (Gone e He Hc). exact Hk.
Qed.

(** stopping every connection of [cs], in order *)
Lemma stops_clear cs : forall (s : st),
  let s' := snd (run B bstep (map OStop cs) s) in
  forall k, In k (fkeys s') -> In k (fkeys s) /\ ~ In (fst k) cs.
Proof.
  induction cs as [|c cs IH]; intros s; cbv zeta; cbn [map run]; [intros k Hk; split; [exact Hk | intros []]|].
  cbn [step]. destruct (do_stop B bstep c s) as [rep s1] eqn:E1.
  pose proof (stop_clears c s) as SC. cbv zeta in SC. rewrite E1 in SC. cbn [snd] in SC.
  specialize (IH s1). cbv zeta in IH. destruct (run B bstep (map OStop cs) s1) as [reps s2]. cbn [snd] in *.
  intros k Hk. destruct (IH k Hk) as (H1 & H2). destruct (SC k H1) as (H3 & H4). split; [exact H3|]. intros [->|X]; auto.
Qed.

(** C05_disconnect, first half: after the stop of every connection that holds a fid, no fid is bound *)
Theorem all_stopped_empty (s : st) cs :
  (forall k, In k (fkeys s) -> In (fst k) cs) ->
  s_fids B (snd (run B bstep (map OStop cs) s)) = [].
Proof.
  intros Cover. pose proof (stops_clear cs s) as SC. cbv zeta in SC.
  destruct (s_fids B (snd (run B bstep (map OStop cs) s))) as [|[k v] l] eqn:E; auto. exfalso.
  destruct (SC k) as (H1 & H2); [unfold fkeys; rewrite E; left; reflexivity|]. apply H2. apply Cover. exact H1.
Qed.

(** ---- second half: nothing leaks ---- *)
Notation gref := (get_ref B).

(** [ranked s]: the parent / xattr-origin links of the live fidRefs are well founded (some rank strictly
    decreases along them).  Weaker than [ordered]; it is what fails when a backend lets a directory be
    moved below itself (then two live fidRefs can be each other's ancestors and their Files leak). *)
Definition ranked (s : st) : Prop :=
  exists rk : nat -> nat, forall r, r < len B s -> live (gref s r) = true ->
    (forall p, fr_parent (gref s r) = Some p -> rk p < rk r) /\
    (forall o, fr_xattrOf (gref s r) = Some o -> rk o < rk r).

Lemma ordered_ranked s : KInv B s None -> ordered B s -> ranked s.
Proof.
  intros K Ord. exists (fun r => r). intros r Hr L. split.
  - intros p EP. apply (Ord r p Hr L EP).
  - intros o EX. apply (proj1 (Kx B s None K r o Hr EX)).
Qed.

Lemma rk_bound (rk : nat -> nat) n i : i < n -> rk i <= list_max (map rk (seq 0 n)).
Proof.
  intros Hi. assert (F : Forall (fun x => x <= list_max (map rk (seq 0 n))) (map rk (seq 0 n))) by (apply list_max_le; lia).
  rewrite Forall_forall in F. apply F. apply in_map. apply in_seq. lia.
Qed.

Lemma all_dead_ranked s :
  RefInv B s -> KInv B s None -> s_fids B s = [] -> s_held B s = [] -> ranked s ->
  forall q, q < len B s -> live (gref s q) = false.
Proof.
  intros (N & I2 & I3) K EF EH (rk & Rk).
  set (M := S (list_max (map rk (seq 0 (len B s))))).
  assert (Bd : forall i, i < len B s -> rk i < M) by (intros i Hi; unfold M; pose proof (rk_bound rk _ i Hi); lia).
  assert (Main : forall k q, M - rk q <= k -> q < len B s -> live (gref s q) = false).
  { induction k as [|k IH]; intros q Hk Hq; [specialize (Bd q Hq); lia|].
    destruct (live (gref s q)) eqn:Lq; auto. exfalso.
    pose proof (I2 q Hq) as E. rewrite cnt_nil, Nat.add_0_r in E.
    assert (Hc : 0 < C B s q). { unfold live in Lq. apply Z.ltb_lt in Lq. lia. }
    apply cnt_in in Hc. unfold all_refs in Hc. rewrite EF, EH in Hc. cbn in Hc.
    destruct (in_flat_map_nth out_refs (s_refs B s) dead_ref q Hc) as (i & Hi & Hin).
    fold (gref s i) in Hin. unfold out_refs in Hin. destruct (live (gref s i)) eqn:Li; [|contradiction].
    destruct (Rk i Hi Li) as (RP & RX).
    assert (Lt : rk q < rk i).
    { apply in_app_or in Hin. destruct Hin as [Hin|Hin].
      - destruct (fr_parent (gref s i)) as [p|] eqn:EP; cbn in Hin; [|contradiction].
        destruct Hin as [<-|[]]. apply RP. reflexivity.
      - destruct (fr_xattrOf (gref s i)) as [o|] eqn:EX; cbn in Hin; [|contradiction].
        destruct Hin as [<-|[]]. apply RX. reflexivity. }
    rewrite (IH i ltac:(specialize (Bd i Hi); lia) Hi) in Li. discriminate. }
  intros q Hq. apply (Main M q); auto. lia.
Qed.

Theorem all_closed_ranked s :
  RefInv B s -> KInv B s None -> s_fids B s = [] -> s_held B s = [] -> ranked s ->
  forall h, h < s_nexth B s -> close_count h (s_log B s) = 1.
Proof.
  intros I K EF EH Rk h Hh.
  assert (Hc : closed B s h).
  { apply closed_iff_no_live_owner; auto. split; auto. intros r Hr _ _. apply (all_dead_ranked s I K EF EH Rk r Hr). }
  pose proof (closed_once B s None h K) as Le.
  rewrite close_count_closes in *. unfold closed in Hc. apply (count_occ_In Nat.eq_dec) in Hc. lia.
Qed.

Lemma run_app ops1 : forall ops2 (s : st),
  snd (run B bstep (ops1 ++ ops2) s) = snd (run B bstep ops2 (snd (run B bstep ops1 s))).
Proof.
  induction ops1 as [|o ops1 IH]; intros ops2 s; cbn [app run]; [reflexivity|].
  destruct (step B bstep o s) as [r s1]. specialize (IH ops2 s1).
  destruct (run B bstep (ops1 ++ ops2) s1) as [rs s2]. destruct (run B bstep ops1 s1) as [rs' s2']. cbn [snd] in *. exact IH.
Qed.

(** C05_disconnect: any history, then the disconnect of every connection that still holds a fid *)
Theorem disconnect_closes_all ops (b : B) cs :
  let s0 := snd (run B bstep ops (init_state B b)) in
  let s := snd (run B bstep (map OStop cs) s0) in
  (forall k, In k (fkeys s0) -> In (fst k) cs) ->
  s_fids B s = [] /\
  (s_panic B s = false -> ranked s -> forall h, h < s_nexth B s -> close_count h (s_log B s) = 1).
Proof.
  cbv zeta. intros Cover. split; [apply all_stopped_empty; exact Cover|].
  rewrite <- run_app. destruct (history_life B bstep (ops ++ map OStop cs) b) as (I & K & _ & H).
  intros EP Rk. apply all_closed_ranked; auto.
  rewrite run_app. apply all_stopped_empty. exact Cover.
Qed.
End Disc.
