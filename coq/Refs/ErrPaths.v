(** Refs/ErrPaths.v — C05_error_paths: a Twalk / Twalkgetattr / Tattach that fails - at whatever
    component, for whatever reason, under every backend - leaves no File behind: every handle the
    backend returned during the request has been closed exactly once when the error is answered.

    Argument: a failing walk/attach does not touch the fid table and leaves no transient holder;
    the fidRefs it created have their parent among older fidRefs and own their Files; hence, by the
    reference-count invariant, none of them can still be live (nothing can reference the youngest live
    one), and a dead owner's File is closed (KInv). *)
From Coq Require Import List Arith Bool ZArith Lia.
From P9V Require Import Refs.Model Refs.RefProofs Refs.RefStep Refs.LifeProofs Refs.LifeStep.
Import ListNotations.

Section Err.
Variable B : Type.
Variable bstep : B -> bcall -> B * bans.
Notation st := (sstate B).
Notation gref := (get_ref B).
Notation len := (len B).

(** what a failing walk may have done to the references *)
Definition shape (s s' : st) : Prop :=
  s_fids B s' = s_fids B s /\ len s <= len s' /\
  (forall q, q < len s -> fr_parent (gref s' q) = fr_parent (gref s q) /\ fr_xattrOf (gref s' q) = fr_xattrOf (gref s q) /\
                          fr_file (gref s' q) = fr_file (gref s q)) /\
  (forall q p, len s <= q -> q < len s' -> fr_parent (gref s' q) = Some p -> p < q) /\
  (forall q, len s <= q -> q < len s' -> fr_xattrOf (gref s' q) = None).

Lemma shape_refl s : shape s s.
Proof. repeat split; auto; intros; lia. Qed.

Lemma shape_trans a b c : shape a b -> shape b c -> shape a c.
Proof.
  intros (F1 & L1 & O1 & P1 & X1) (F2 & L2 & O2 & P2 & X2). split; [congruence|]. split; [lia|]. split; [|split].
  - intros q Hq. destruct (O1 q Hq) as (A1 & A2 & A3). destruct (O2 q ltac:(lia)) as (B1 & B2 & B3). repeat split; congruence.
  - intros q p Hq Hq' Hp. destruct (Nat.lt_ge_cases q (len b)) as [Lt|Ge].
    + destruct (O2 q Lt) as (B1 & _). rewrite B1 in Hp. apply (P1 q p Hq Lt Hp).
    + apply (P2 q p Ge Hq' Hp).
  - intros q Hq Hq'. destruct (Nat.lt_ge_cases q (len b)) as [Lt|Ge].
    + destruct (O2 q Lt) as (_ & B2 & _). rewrite B2. apply (X1 q Hq Lt).
    + apply (X2 q Ge Hq').
Qed.

Lemma shape_sc s s' : same_core B s s' -> shape s s'.
Proof.
  intros (F & _ & R & _). unfold shape, LifeProofs.len, get_ref. rewrite F, R. repeat split; auto; intros; lia.
Qed.

Lemma shape_keeps s s' : keeps B s s' -> shape s s'.
Proof.
  intros K. pose proof K as (F & _ & _ & L & _ & _). unfold shape, LifeProofs.len. rewrite F, L.
  split; auto. split; auto. split; [|split; intros; lia].
  intros q _. repeat split; apply (keeps_field B); auto.
Qed.

(** DecRef changes counts, nodes, log and backend only - whatever the state *)
Lemma keeps_decref fuel : forall r s, keeps B s (snd (decref B bstep fuel r s)).
Proof.
  induction fuel as [|f IH]; intros r s; cbn [decref].
  - repeat split; auto.
  - destruct (Z.eqb_spec (fr_refs (gref s r) - 1) 0); [|apply keeps_set_refs].
    set (s1 := set_ref B r _ s). assert (K1 : keeps B s s1) by apply keeps_set_refs.
    assert (K2 : keeps B s1 (snd (match fr_xattrOf (gref s r) with
                             | Some o => decref B bstep f o s1
                             | None => let '(a, s2) := bcall_ B bstep (BClose (fr_file (gref s r))) s1 in
                                       (match a with AErr e => Some e | _ => None end, s2)
                             end))).
    { destruct (fr_xattrOf (gref s r)) as [o|]; [apply IH|].
      pose proof (sc_bcall B bstep (BClose (fr_file (gref s r))) s1) as SC.
      pose proof (nexth_bcall B bstep (BClose (fr_file (gref s r))) s1) as NB.
      destruct (bcall_ B bstep (BClose (fr_file (gref s r))) s1) as [a s2]. cbn [snd] in *. apply keeps_same_core; auto. }
    destruct (match fr_xattrOf (gref s r) with Some o => _ | None => _ end) as [e1 s2]. cbn [snd] in K2.
    destruct (fr_parent (gref s r)) as [p|]; cbn [snd]; [|eapply keeps_trans; eauto].
    pose proof (IH p (remove_child B (fr_node (gref s2 p)) r s2)) as K4.
    destruct (decref B bstep f p (remove_child B (fr_node (gref s2 p)) r s2)) as [e2 s4]. cbn [snd] in *.
    eapply keeps_trans; [exact K1|]. eapply keeps_trans; [exact K2|]. eapply keeps_trans; [|exact K4].
    apply keeps_same_core; [apply sc_remove_child | apply nexth_remove_child].
Qed.

Lemma shape_with_held h s : shape s (with_held B h s).
Proof. unfold shape, LifeProofs.len. cbn. repeat split; auto; intros; lia. Qed.

Lemma shape_incref r s : shape s (incref B r s).
Proof. apply shape_keeps. apply keeps_set_refs. Qed.

Lemma shape_hold r s : shape s (hold B r s).
Proof. unfold hold. eapply shape_trans; [apply shape_incref | apply shape_with_held]. Qed.

Lemma shape_release r s : shape s (release B bstep r s).
Proof.
  unfold release, decref_. eapply shape_trans; [apply shape_with_held | apply shape_keeps, keeps_decref].
Qed.

Lemma shape_new_ref x s :
  (forall p, fr_parent x = Some p -> p < len s) -> fr_xattrOf x = None -> shape s (snd (new_ref B x s)).
Proof.
  intros HP HX. destruct (new_ref_facts B x s) as (_ & L1 & Gn & Go & Ff & _).
  unfold shape, LifeProofs.len in *. rewrite Ff, L1. split; auto. split; [lia|]. split; [|split].
  - intros q Hq. rewrite Go by auto. auto.
  - intros q p Hq Hq' Hp. assert (q = length (s_refs B s)) by lia. subst q. rewrite Gn in Hp. cbn in Hp. apply HP; auto.
  - intros q Hq Hq'. assert (q = length (s_refs B s)) by lia. subst q. rewrite Gn. cbn. exact HX.
Qed.

Lemma len_shape s s' : shape s s' -> len s <= len s'.
Proof. intros (_ & L & _). exact L. Qed.

(** doWalk over names: whatever the outcome *)
Lemma walk_steps_shape names : forall wr s, wr < len s -> shape s (snd (walk_steps B bstep wr names s)).
Proof.
  induction names as [|nm rest IH]; intros wr s Hw; cbn [walk_steps]; [apply shape_refl|]. cbv zeta.
  destruct (negb (is_dir (fr_mode (gref s wr)))); [apply shape_release|].
  destruct (is_deleted B s wr); [apply shape_release|].
  pose proof (sc_walk_one B bstep (fr_file (gref s wr)) (fr_node (gref s wr)) (Some nm) true s) as SC1.
  destruct (walk_one B bstep (fr_file (gref s wr)) (fr_node (gref s wr)) (Some nm) true s) as [w s1]. cbn [snd] in SC1.
  pose proof (shape_sc _ _ SC1) as S1.
  destruct w as [e|h m ino]; cbn [snd]; [eapply shape_trans; [exact S1 | apply shape_release]|].
  pose proof (sc_path_node_for B (fr_node (gref s wr)) nm s1) as SC2.
  destruct (path_node_for B (fr_node (gref s wr)) nm s1) as [cn s2]. cbn [snd] in SC2.
  pose proof (shape_trans _ _ _ S1 (shape_sc _ _ SC2)) as S2.
  assert (Hw2 : wr < len s2) by (pose proof (len_shape _ _ S2); lia).
  unfold new_ref_handover.
  set (x := mkref h 0 false 0 m cn (Some wr) None XNone). set (s3 := with_held B (remove_one wr (s_held B s2)) s2).
  assert (S4 : shape s2 (snd (new_ref B x s3))).
  { eapply shape_trans; [apply shape_with_held|]. apply shape_new_ref; [|reflexivity]. intros p [= <-]. exact Hw2. }
  destruct (new_ref_facts B x s3) as (E4 & L4 & _).
  destruct (new_ref B x s3) as [nr s4]. cbn [fst snd] in *.
  pose proof (shape_sc _ _ (sc_add_child B (fr_node (gref s wr)) nr nm s4)) as S5.
  set (s5 := add_child B (fr_node (gref s wr)) nr nm s4) in *.
  pose proof (shape_trans _ _ _ S2 (shape_trans _ _ _ S4 S5)) as S05.
  destruct (s_panic B s5); cbn [snd]; [exact S05|].
  eapply shape_trans; [exact S05|]. apply IH.
  pose proof (len_shape _ _ S5) as L5. unfold LifeProofs.len in *. rewrite E4. change (length (s_refs B s3)) with (length (s_refs B s2)) in *. lia.
Qed.

Lemma do_walk_shape ref names g s :
  ref < len s -> (forall p, fr_parent (gref s ref) = Some p -> p < len s) ->
  shape s (snd (do_walk B bstep ref names g s)).
Proof.
  intros Hr HP. unfold do_walk. destruct names as [|nm rest].
  - destruct (fr_xattrOf (gref s ref)); [apply shape_refl|].
    pose proof (sc_walk_one B bstep (fr_file (gref s ref)) (fr_node (gref s ref)) None g s) as SC1.
    destruct (walk_one B bstep (fr_file (gref s ref)) (fr_node (gref s ref)) None g s) as [w s1]. cbn [snd] in SC1.
    pose proof (shape_sc _ _ SC1) as S1. destruct w as [e|h m ino]; [exact S1|].
    set (x := mkref h 0 false 0 (fr_mode (gref s ref)) (fr_node (gref s ref)) (fr_parent (gref s ref)) None XNone).
    assert (S2 : shape s1 (snd (new_ref_inc B x s1))).
    { unfold new_ref_inc.
      assert (Sn : shape s1 (snd (new_ref B x s1))).
      { apply shape_new_ref; [|reflexivity]. intros p Hp. cbn in Hp. pose proof (len_shape _ _ S1). specialize (HP p Hp). lia. }
      destruct (new_ref B x s1) as [nr s2]. cbn [snd] in *.
      destruct (fr_parent x); [eapply shape_trans; [exact Sn | apply shape_incref]|].
      destruct (fr_xattrOf x); [eapply shape_trans; [exact Sn | apply shape_incref] | exact Sn]. }
    destruct (new_ref_inc B x s1) as [nr s2]. cbn [snd] in *.
    pose proof (shape_trans _ _ _ S1 S2) as S02.
    destruct (fr_parent (gref s ref)) as [p|]; [|exact S02].
    destruct (is_deleted B s2 nr); [exact S02|].
    destruct (name_for B (fr_node (gref s2 p)) ref s2) as [nm|].
    + pose proof (shape_sc _ _ (sc_add_child B (fr_node (gref s2 p)) nr nm s2)) as S3.
      destruct (s_panic B (add_child B (fr_node (gref s2 p)) nr nm s2)); cbn [snd]; eapply shape_trans; eauto.
    + cbn [snd]. eapply shape_trans; [exact S02 | apply shape_sc, sc_set_panic].
  - eapply shape_trans; [apply shape_hold|]. apply walk_steps_shape.
    pose proof (len_shape _ _ (shape_hold ref s)). lia.
Qed.

(** the fidRefs a fid-table entry points at, and their parents, exist *)
Lemma fid_bounds s r c fid :
  RefInv B s -> KInv B s None -> alookup peqb (c, fid) (s_fids B s) = Some r ->
  r < len s /\ forall p, fr_parent (gref s r) = Some p -> p < len s.
Proof.
  intros I K E. destruct (inv_live B s [] r I (C_fid B s r (alookup_in peqb peqb_spec _ _ _ E))) as (L & _).
  split; [exact L|]. intros p Hp. apply (K8 B s None K r p L Hp).
Qed.

(** a failing Twalk / Twalkgetattr *)
Lemma walk_op_fail_shape c fid newfid names g s :
  RefInv B s -> KInv B s None ->
  fst (fst (do_walk_op B bstep c fid newfid names g s)) <> 0 ->
  shape s (snd (do_walk_op B bstep c fid newfid names g s)).
Proof.
  intros I K. unfold do_walk_op, with_fid, lookup_fid.
  destruct (alookup peqb (c, fid) (s_fids B s)) as [r|] eqn:E; [|intros _; apply shape_refl].
  destruct (fid_bounds s r c fid I K E) as (Lr & LP).
  pose proof (shape_hold r s) as S1.
  assert (Lr1 : r < len (hold B r s)) by (pose proof (len_shape _ _ S1); lia).
  assert (LP1 : forall p, fr_parent (gref (hold B r s) r) = Some p -> p < len (hold B r s)).
  { intros p Hp. destruct S1 as (_ & L & O & _). destruct (O r Lr) as (EP & _). rewrite EP in Hp. specialize (LP p Hp). lia. }
  destruct (fr_opened (gref (hold B r s) r) && (fid =? newfid)).
  - intros _. cbn [snd]. eapply shape_trans; [exact S1 | apply shape_release].
  - pose proof (do_walk_shape r names g (hold B r s) Lr1 LP1) as S2.
    destruct (do_walk B bstep r names g (hold B r s)) as [res s2]. cbn [snd] in S2.
    destruct res as [e|nr]; cbn [fst snd]; [|intros H; exfalso; apply H; reflexivity].
    intros _. eapply shape_trans; [exact S1|]. eapply shape_trans; [exact S2 | apply shape_release].
Qed.

(** nothing can keep a fidRef created by the failing request alive *)
Lemma new_dead s s' :
  RefInv B s -> KInv B s None -> RefInv B s' -> shape s s' ->
  (forall x, In x (s_held B s') -> x < len s) ->
  forall q, len s <= q -> q < len s' -> live (gref s' q) = false.
Proof.
  intros I K (N' & I2' & I3') (F & L & O & P & X) Hh.
  assert (Fb : forall v, In v (map snd (s_fids B s')) -> v < len s).
  { intros v Hv. rewrite F in Hv. destruct (inv_live B s [] v I (C_fid B s v Hv)) as (Lv & _). exact Lv. }
  assert (Main : forall k q, len s' - q <= k -> len s <= q -> q < len s' -> live (gref s' q) = false).
  { induction k as [|k IH]; intros q Hk Hq Hq'; [lia|].
    destruct (live (gref s' q)) eqn:Lq; auto. exfalso.
    pose proof (I2' q Hq') as E. rewrite cnt_nil, Nat.add_0_r in E.
    assert (Hc : 0 < C B s' q). { unfold live in Lq. apply Z.ltb_lt in Lq. lia. }
    apply cnt_in in Hc. unfold all_refs in Hc. apply in_app_or in Hc. destruct Hc as [Hc|Hc]; [specialize (Fb q Hc); lia|].
    apply in_app_or in Hc. destruct Hc as [Hc|Hc]; [specialize (Hh q Hc); lia|].
    destruct (in_flat_map_nth out_refs (s_refs B s') dead_ref q Hc) as (i & Hi & Hin).
    fold (gref s' i) in Hin. unfold out_refs in Hin. destruct (live (gref s' i)) eqn:Li; [|contradiction].
    destruct (Nat.lt_ge_cases i (len s)) as [Old|New].
    - (* an older fidRef cannot point at a younger one *)
      destruct (O i Old) as (EP & EX & _). apply in_app_or in Hin. destruct Hin as [Hin|Hin].
      + destruct (fr_parent (gref s' i)) as [p|] eqn:E1; cbn in Hin; [|contradiction]. destruct Hin as [<-|[]].
        symmetry in EP. pose proof (K8 B s None K i p Old EP). lia.
      + destruct (fr_xattrOf (gref s' i)) as [o|] eqn:E1; cbn in Hin; [|contradiction]. destruct Hin as [<-|[]].
        symmetry in EX. destruct (Kx B s None K i o Old EX). lia.
    - assert (Lt : q < i).
      { apply in_app_or in Hin. destruct Hin as [Hin|Hin].
        - destruct (fr_parent (gref s' i)) as [p|] eqn:E1; cbn in Hin; [|contradiction]. destruct Hin as [<-|[]].
          apply (P i p New Hi E1).
        - rewrite (X i New Hi) in Hin. cbn in Hin. contradiction. }
      rewrite (IH i ltac:(unfold LifeProofs.len in *; lia) New Hi) in Li. discriminate. }
  intros q Hq Hq'. apply (Main (len s') q); auto. lia.
Qed.

(** C05_error_paths for Twalk / Twalkgetattr: whatever the failing component and the reason, every
    handle the backend returned during the failing request is closed exactly once when it is answered *)
Theorem walk_error_closes_all c fid newfid names g s :
  RefInv B s -> KInv B s None -> wf_log (s_log B s) -> s_held B s = [] ->
  let r := do_walk_op B bstep c fid newfid names g s in
  fst (fst r) <> 0 -> s_panic B (snd r) = false ->
  forall h, s_nexth B s <= h -> h < s_nexth B (snd r) -> close_count h (s_log B (snd r)) = 1.
Proof.
  intros I K W EH. cbv zeta. intros Herr Hp h Hlo Hhi.
  pose proof (walk_op_fail_shape c fid newfid names g s I K Herr) as Sh.
  destruct (LifeStep.ok_walk_op B bstep c fid newfid names g s [] (conj I (conj K W)) ltac:(intros x [])) as ((I' & K' & W') & (_ & _ & Eq)).
  set (s' := snd (do_walk_op B bstep c fid newfid names g s)) in *.
  assert (EH' : s_held B s' = []).
  { apply cnt_zero_nil. intros q. specialize (Eq Hp q). unfold RefStep.hc in Eq. rewrite EH in Eq. cbn in Eq. rewrite !cnt_nil in Eq. lia. }
  assert (Dead : forall q, len s <= q -> q < len s' -> live (gref s' q) = false).
  { apply (new_dead s s' I K I' Sh). intros x Hx. rewrite EH' in Hx. contradiction. }
  assert (Hc : closed B s' h).
  { destruct (K6 B s' None K' h Hhi ltac:(discriminate)) as [(r & Hr & Or & Ef)|Hc]; auto.
    destruct (Nat.lt_ge_cases r (len s)) as [Old|New].
    - destruct Sh as (_ & _ & O & _). destruct (O r Old) as (_ & _ & EF). rewrite EF in Ef.
      destruct (K1 B s None K r Old) as (Lt & _). lia.
    - rewrite <- Ef. apply (K7 B s' None K' r Hr Or). apply Dead; auto. }
  pose proof (closed_once B s' None h K') as Le.
  rewrite close_count_closes in *. unfold LifeProofs.closed in Hc. apply (count_occ_In Nat.eq_dec) in Hc. lia.
Qed.
(** ---- Tattach ---- *)
Lemma shape_set_mode r m s : shape s (set_ref B r (fr_with_mode (gref s r) m) s).
Proof.
  unfold shape, LifeProofs.len. rewrite len_set_ref. split; [reflexivity|]. split; [lia|]. split; [|split; intros; lia].
  intros q Hq. destruct (Nat.eq_dec r q) as [<-|N].
  - rewrite gref_set_same by auto. cbn. auto.
  - rewrite gref_set_other by auto. auto.
Qed.

(** a failing Tattach: Attach fails / GetAttr of the root fails / the walk fails at any component *)
Lemma attach_fail_shape c fid names s :
  fst (fst (do_attach B bstep c fid names s)) <> 0 ->
  shape s (snd (do_attach B bstep c fid names s)).
Proof.
  unfold do_attach.
  pose proof (shape_sc _ _ (sc_bcall B bstep (BAttach (s_nexth B s)) s)) as S1.
  destruct (bcall_ B bstep (BAttach (s_nexth B s)) s) as [a s1]. cbn [snd] in S1.
  set (x := mkref (s_nexth B s) 0 false 0 MNone 0 None None XNone).
  assert (Main : let '(root, s2) := new_ref B x (take_handle B s1) in
     let '(a2, s3) := bcall_ B bstep (BGetAttr (s_nexth B s)) s2 in
     forall rs, rs = (match a2 with
      | AErr e => (rerr e, release B bstep root s3)
      | AOk m ino | ABadQ m ino =>
          let s4 := set_ref B root (fr_with_mode (gref s3 root) m) s3 in
          match names with
          | [] => (rok ino, release B bstep root (insert_fid B bstep c fid root s4))
          | _ =>
              let '(d0, s5) := do_walk B bstep root names false s4 in
              match d0 with
              | DFail e => (rerr e, release B bstep root s5)
              | DOk nr => (rok ino, release B bstep root (release B bstep nr (insert_fid B bstep c fid nr s5)))
              end
          end
      end) -> fst (fst rs) <> 0 -> shape s (snd rs)).
  { pose proof (shape_sc _ _ (sc_take_handle B s1)) as St.
    assert (Sn : shape (take_handle B s1) (snd (new_ref B x (take_handle B s1)))) by (apply shape_new_ref; [intros p Hp; discriminate | reflexivity]).
    destruct (new_ref_facts B x (take_handle B s1)) as (E2 & L2 & Gn & _).
    destruct (new_ref B x (take_handle B s1)) as [root s2]. cbn [fst snd] in *.
    pose proof (shape_sc _ _ (sc_bcall B bstep (BGetAttr (s_nexth B s)) s2)) as S3.
    destruct (bcall_ B bstep (BGetAttr (s_nexth B s)) s2) as [a2 s3]. cbn [snd] in S3.
    pose proof (shape_trans _ _ _ S1 (shape_trans _ _ _ St (shape_trans _ _ _ Sn S3))) as S03.
    assert (Hr2 : root < len s2) by (unfold LifeProofs.len; rewrite L2, E2; lia).
    assert (Walk : forall m, let s4 := set_ref B root (fr_with_mode (gref s3 root) m) s3 in
        forall rs ino, rs = (match names with
          | [] => (rok ino, release B bstep root (insert_fid B bstep c fid root s4))
          | _ =>
              let '(d0, s5) := do_walk B bstep root names false s4 in
              match d0 with
              | DFail e => (rerr e, release B bstep root s5)
              | DOk nr => (rok ino, release B bstep root (release B bstep nr (insert_fid B bstep c fid nr s5)))
              end
          end) -> fst (fst rs) <> 0 -> shape s (snd rs)).
    { intros m s4 rs ino -> Hne.
      pose proof (shape_set_mode root m s3) as S4. fold s4 in S4.
      pose proof (shape_trans _ _ _ S3 S4) as S24.
      assert (Hr4 : root < len s4) by (pose proof (len_shape _ _ S24); lia).
      assert (P4 : forall p, fr_parent (gref s4 root) = Some p -> p < len s4).
      { intros p Hp. destruct S24 as (_ & _ & O & _). destruct (O root Hr2) as (EP & _). rewrite EP, E2, Gn in Hp. discriminate. }
      destruct names as [|nm rest]; [exfalso; apply Hne; reflexivity|].
      pose proof (do_walk_shape root (nm :: rest) false s4 Hr4 P4) as S5.
      destruct (do_walk B bstep root (nm :: rest) false s4) as [d0 s5]. cbn [snd] in S5.
      destruct d0 as [e|nr]; [|exfalso; apply Hne; reflexivity]. cbn [snd].
      eapply shape_trans; [exact S03|]. eapply shape_trans; [exact S4|]. eapply shape_trans; [exact S5 | apply shape_release]. }
    intros rs -> Hne. destruct a2 as [m ino|e|m ino].
    - eapply Walk; [reflexivity | exact Hne].
    - cbn [snd]. eapply shape_trans; [exact S03 | apply shape_release].
    - eapply Walk; [reflexivity | exact Hne]. }
  intros Hne.
  destruct (new_ref B x (take_handle B s1)) as [root s2]. destruct (bcall_ B bstep (BGetAttr (s_nexth B s)) s2) as [a2 s3].
  destruct a as [m ino|e|m ino]; [apply (Main _ eq_refl Hne) | exact S1 | apply (Main _ eq_refl Hne)].
Qed.

(** C05_error_paths for Tattach: Attach error, GetAttr error on the new root, walk failure at any
    component: every handle the backend returned during the failing request - the root File included -
    is closed exactly once when the error is answered.  (The model's GetAttr answers always carry a
    Mode, so the Go branch "!valid.Mode" has no counterpart; it takes the same exit as a GetAttr error.) *)
Theorem attach_error_closes_all c fid names s :
  RefInv B s -> KInv B s None -> wf_log (s_log B s) -> s_held B s = [] ->
  let r := do_attach B bstep c fid names s in
  fst (fst r) <> 0 -> s_panic B (snd r) = false ->
  forall h, s_nexth B s <= h -> h < s_nexth B (snd r) -> close_count h (s_log B (snd r)) = 1.
Proof.
  intros I K W EH. cbv zeta. intros Herr Hp h Hlo Hhi.
  pose proof (attach_fail_shape c fid names s Herr) as Sh.
  destruct (LifeStep.ok_attach B bstep c fid names s [] (conj I (conj K W)) ltac:(intros x [])) as ((I' & K' & W') & (_ & _ & Eq)).
  set (s' := snd (do_attach B bstep c fid names s)) in *.
  assert (EH' : s_held B s' = []).
  { apply cnt_zero_nil. intros q. specialize (Eq Hp q). unfold RefStep.hc in Eq. rewrite EH in Eq. cbn in Eq. rewrite !cnt_nil in Eq. lia. }
  assert (Dead : forall q, len s <= q -> q < len s' -> live (gref s' q) = false).
  { apply (new_dead s s' I K I' Sh). intros x Hx. rewrite EH' in Hx. contradiction. }
  assert (Hc : closed B s' h).
  { destruct (K6 B s' None K' h Hhi ltac:(discriminate)) as [(r & Hr & Or & Ef)|Hc]; auto.
    destruct (Nat.lt_ge_cases r (len s)) as [Old|New].
    - destruct Sh as (_ & _ & O & _). destruct (O r Old) as (_ & _ & EF). rewrite EF in Ef.
      destruct (K1 B s None K r Old) as (Lt & _). lia.
    - rewrite <- Ef. apply (K7 B s' None K' r Hr Or). apply Dead; auto. }
  pose proof (closed_once B s' None h K') as Le.
  rewrite close_count_closes in *. unfold LifeProofs.closed in Hc. apply (count_occ_In Nat.eq_dec) in Hc. lia.
Qed.
End Err.
