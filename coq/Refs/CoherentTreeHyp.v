(** Refs/CoherentTreeHyp.v — C08_coherent: handlers that use serverB's tree invariant
    ([tree_ok], Refs/TreeInv.v, a theorem for every history: TreeStep.tree_inv_history) at the start of
    the request, and that the request ends without a run-time panic flag ([gokT]).  (pathB) *)
From Coq Require Import List Arith Bool ZArith Lia.
From P9V Require Import Refs.Model Refs.PathFS Refs.RefProofs Refs.RefStep Refs.FenceProofs Refs.TreeInv
  Refs.CoherentTree Refs.CoherentDefs Refs.CoherentFs Refs.CoherentFrame Refs.CoherentStep.
Import ListNotations.

Definition TH (s : st) : Prop := tree_ok pfs s.

(** states with the same path tree, the same links and the same live fidRefs *)
Definition tsame (s s' : st) : Prop :=
  s_nodes pfs s' = s_nodes pfs s /\ TreeInv.rlen pfs s' = TreeInv.rlen pfs s /\ s_panic pfs s' = s_panic pfs s /\
  forall q, fr_node (gref s' q) = fr_node (gref s q) /\ fr_parent (gref s' q) = fr_parent (gref s q) /\
            fr_xattrOf (gref s' q) = fr_xattrOf (gref s q) /\ (ref_live pfs s' q <-> ref_live pfs s q).

Lemma TH_tsame s s' : tsame s s' -> TH s -> TH s'.
Proof.
  intros (EN & ER & EP & EQ) T.
  assert (GN : forall n, gnode s' n = gnode s n) by (intros; unfold get_node; rewrite EN; reflexivity).
  assert (NL : TreeInv.nlen pfs s' = TreeInv.nlen pfs s) by (unfold TreeInv.nlen; rewrite EN; reflexivity).
  assert (RG : forall n r nm, registered pfs s' n r nm <-> registered pfs s n r nm) by (intros; unfold registered; rewrite GN; tauto).
  assert (IR : forall n nm r, in_refs pfs s' n nm r <-> in_refs pfs s n nm r) by (intros; unfold in_refs; rewrite GN; tauto).
  assert (CN : forall n nm c, child_node pfs s' n nm c <-> child_node pfs s n nm c) by (intros; unfold child_node; rewrite GN; tauto).
  assert (ND : forall n, node_deleted pfs s' n = node_deleted pfs s n) by (intros; unfold node_deleted; rewrite GN; reflexivity).
  destruct T. constructor.
  - intros n r nm Hn. rewrite NL in Hn. rewrite RG, IR. auto.
  - intros n nm m Hn. rewrite NL in Hn. rewrite GN. eauto.
  - intros n r nm Hn H. rewrite NL in Hn. apply RG in H. destruct (T_reg n r nm Hn H) as (A1 & A2 & p & A3 & A4 & A5 & A6).
      rewrite ER. split; auto. split; [apply EQ; auto|]. exists p. destruct (EQ r) as (E1 & E2 & _). destruct (EQ p) as (E1' & _).
      rewrite E2, E1', E1. repeat split; auto. apply CN. auto.
  - intros r p Hr Lv Ep Dn. rewrite ER in Hr. destruct (EQ r) as (E1 & E2 & _ & E4). destruct (EQ p) as (E1' & _).
      rewrite E2 in Ep. rewrite E1, ND in Dn. destruct (T_live r p Hr (proj1 E4 Lv) Ep Dn) as (nm & H). exists nm. rewrite E1'. apply RG. auto.
  - intros n nm c Hn H. rewrite NL in *. apply CN in H. eauto.
  - intros r Hr. rewrite ER in Hr. rewrite NL. destruct (EQ r) as (-> & _). auto.
  - intros r p Hr H. rewrite ER in *. destruct (EQ r) as (_ & E2 & _). rewrite E2 in H. eauto.
  - intros r o Hr H. rewrite ER in *. destruct (EQ r) as (_ & E2 & E3 & _). rewrite E3 in H. rewrite E2. eauto.
  - intros n nm n' nm' c Hn Hn' H H'. rewrite NL in *. apply CN in H. apply CN in H'. eauto.
  - intros n nm Hn H. rewrite NL in *. apply CN in H. eapply T_root; eauto.
  - rewrite NL. auto.
Qed.

Lemma tsame_hold r (s : st) : live s r -> tsame s (hold pfs r s).
Proof.
  intros Lv. split; [reflexivity|]. split; [unfold TreeInv.rlen, hold, incref, set_ref; cbn; apply upd_length|]. split; [reflexivity|].
  intros q. unfold ref_live. change (gref (hold pfs r s) q) with (gref (incref pfs r s) q). unfold incref. rewrite gref_set_ref.
  destruct ((q =? r) && (r <? rlen s)) eqn:X; [|repeat split; auto].
  apply andb_prop in X. destruct X as (X & _). apply Nat.eqb_eq in X. subst q. cbn [fr_node fr_parent fr_xattrOf fr_refs fr_with_refs]. unfold live in Lv. repeat split; auto; intros; lia.
Qed.

(** the panic flag is sticky *)
Lemma panic_bcall c (s : st) : s_panic pfs (snd (bcall_ pfs pfs_step c s)) = s_panic pfs s.
Proof. unfold bcall_. destruct (pfs_step (s_be pfs s) c). reflexivity. Qed.

Lemma panic_remove_child n r (s : st) : s_panic pfs s = true -> s_panic pfs (remove_child pfs n r s) = true.
Proof. unfold remove_child. destruct (alookup _ _ _); auto. destruct (alookup _ _ _); auto. Qed.

Lemma panic_decref fuel : forall r (s : st), s_panic pfs s = true -> s_panic pfs (snd (decref pfs pfs_step fuel r s)) = true.
Proof.
  induction fuel as [|f IH]; intros r s H; cbn [decref]; auto.
  destruct (Z.eqb_spec (fr_refs (gref s r) - 1) 0); cbn [snd]; auto.
  set (s1 := set_ref pfs r _ s).
  assert (H1 : s_panic pfs s1 = true) by exact H.
  assert (H2 : s_panic pfs (snd (match fr_xattrOf (gref s r) with
                             | Some o => decref pfs pfs_step f o s1
                             | None => let '(a, s2) := bcall_ pfs pfs_step (BClose (fr_file (gref s r))) s1 in
                                       (match a with AErr e => Some e | _ => None end, s2)
                             end)) = true).
  { destruct (fr_xattrOf (gref s r)) as [o|]; [apply IH; auto|].
    pose proof (panic_bcall (BClose (fr_file (gref s r))) s1) as E.
    destruct (bcall_ pfs pfs_step _ s1) as [a s2]; cbn in *. congruence. }
  destruct (match fr_xattrOf (gref s r) with Some o => _ | None => _ end) as [e1 s2]; cbn in H2.
  destruct (fr_parent (gref s r)) as [p|]; cbn; auto.
  pose proof (IH p (remove_child pfs (fr_node (gref s2 p)) r s2) (panic_remove_child _ _ _ H2)) as E.
  destruct (decref pfs pfs_step f p _) as [e2 s4]; cbn in *. auto.
Qed.

Lemma panic_release r (s : st) : s_panic pfs (release pfs pfs_step r s) = false -> s_panic pfs s = false.
Proof.
  intros H. destruct (s_panic pfs s) eqn:E; auto. unfold release, decref_ in H.
  rewrite (panic_decref _ r (with_held pfs (remove_one r (s_held pfs s)) s) E) in H. discriminate.
Qed.

(** handlers that need the tree invariant at their start, and that the request ends without a
    run-time panic of the path-tree code (serverB's T_nopanic at the next request boundary) *)
Definition gokT (pre : list nat) (f : st -> st) : Prop :=
  forall s d g, RInvD s d -> heldall pre s -> TH s -> Good s g -> s_panic pfs (f s) = false -> Good (f s) g.

Lemma gok_gokT pre f : gok pre f -> gokT pre f.
Proof. intros H s d g I HP _ G _. eapply H; eauto. Qed.

Lemma with_fid_gokT pre c fid body :
  (forall r, gokT (r :: pre) (fun s => snd (body r s))) ->
  gokT pre (fun s => snd (with_fid pfs pfs_step c fid body s)).
Proof.
  intros GB s d g Inv HP T G. unfold with_fid, lookup_fid.
  destruct (alookup peqb (c, fid) (s_fids pfs s)) as [r|] eqn:E; [|cbn; auto]. intros HPn.
  pose proof (C_fid pfs s r (alookup_in peqb peqb_spec _ _ _ E)) as Cr.
  destruct (hold_ok pfs s d r Inv Cr) as (I1 & L1).
  destruct (inv_live pfs s d r Inv Cr) as (_ & Lv).
  assert (HP1 : heldall (r :: pre) (hold pfs r s)).
  { intros x [<-|Hx].
    - eapply led_hc_pos; [exact L1 | rewrite cnt_cons, ind_same; lia | reflexivity].
    - eapply led_hc_pos; [exact L1 | specialize (HP x Hx); lia | reflexivity]. }
  assert (G1 : Good (hold pfs r s) g) by (eapply shrink_good; [apply sh_hold; exact Lv | exact G]).
  assert (T1 : TH (hold pfs r s)) by (eapply TH_tsame; [apply tsame_hold; exact Lv | exact T]).
  specialize (GB r (hold pfs r s) d g I1 HP1 T1 G1).
  cbv beta in GB. destruct (body r (hold pfs r s)) as [rep s2] eqn:EB. cbn [snd] in *.
  eapply shrink_good; [apply sh_release | apply GB]. apply (panic_release r s2). exact HPn.
Qed.

(** P3: the node of a live non-fenced fidRef is the child of its parent's node *)
Lemma p3_of_tree (s : st) q p : TH s -> q < rlen s -> live s q -> nonf s q -> fr_parent (gref s q) = Some p ->
  exists nm, nch s (fr_node (gref s p)) nm = Some (fr_node (gref s q)).
Proof.
  intros T Lq Lv Nf Ep. destruct (T_live pfs s T q p Lq Lv Ep Nf) as (nm & Rg).
  assert (Hp : p < TreeInv.rlen pfs s) by (eapply (T_parent_bound pfs s T); eauto).
  pose proof (T_node_bound pfs s T p Hp) as Hn.
  destruct (T_reg pfs s T _ q nm Hn Rg) as (_ & _ & p' & Ep' & _ & En & Cn). exists nm. exact Cn.
Qed.
