(** Refs/CoherentRenFs.v — C08_coherent, PathFS side of RenameAt: a successful
    call is the MOVE surgery of Refs/CoherentTree.v on the entries (the entry
    replaced at the target, if any, simply disappears), Files and inode
    allocation untouched; the refusal "directory into itself or a descendant"
    (assumption B2) gives the hypothesis of the MOVE lemmas in terms of paths.  (pathB) *)
From Coq Require Import List Arith Bool ZArith Lia.
From P9V Require Import Refs.Model Refs.PathFS Refs.RefProofs Refs.CoherentTree Refs.CoherentDefs Refs.CoherentFs.
Import ListNotations.

(** ---- parent_in finds THE parent ---- *)
Lemma parent_in_some l c d a : In ((d, a), c) l -> exists d' a', parent_in l c = Some d' /\ In ((d', a'), c) l.
Proof.
  induction l as [|[[d0 a0] c0] l IH]; cbn; [tauto|]. intros [H|H].
  - injection H as -> -> ->. rewrite Nat.eqb_refl. eauto.
  - destruct (Nat.eqb_spec c0 c) as [->|N]; [eauto|]. destruct (IH H) as (d' & a' & P & I). eauto.
Qed.

Lemma parent_in_entry fs e a c : FsInv fs -> entry fs e a = Some c -> parent_in (p_entries fs) c = Some e.
Proof.
  intros F H. pose proof (alookup_In peqb peqb_spec _ _ _ H) as I.
  destruct (parent_in_some _ _ _ _ I) as (d' & a' & P & I').
  pose proof (In_alookup peqb peqb_spec _ _ _ (F_keys _ F) I') as H'.
  destruct (F_up _ F _ _ _ _ _ H H') as (-> & _). exact P.
Qed.

Lemma anc_of_walk fs x : FsInv fs -> forall sg f d, walk (entry fs) x sg = Some d -> length sg <= f -> anc_or_eq f fs x d = true.
Proof.
  intros F sg. induction sg as [|a sg IH] using rev_ind; intros f d W L.
  - cbn in W. injection W as <-. destruct f; cbn; rewrite Nat.eqb_refl; reflexivity.
  - rewrite walk_snoc in W. destruct (walk (entry fs) x sg) as [e|] eqn:We; [|discriminate].
    rewrite app_length in L. cbn in L. destruct f as [|f]; [lia|]. cbn [anc_or_eq].
    destruct (x =? d); auto. rewrite (parent_in_entry fs e a d F W). apply IH; auto. lia.
Qed.

(** a resolving path is no longer than the number of entries *)
Lemma resolve_length fs p i : FsInv fs -> resolve fs p = Some i -> length p <= length (p_entries fs).
Proof.
  intros F R. rewrite resolve_walk in R.
  pose proof (trace_nodup (entry fs) root_ino p i (F_up _ F) (F_noroot _ F) R) as ND. inversion ND; subst.
  rewrite <- (trace_length _ _ _ _ R), <- (map_length snd (p_entries fs)). apply NoDup_incl_length; auto.
  intros c Hc. destruct (trace_in _ _ _ _ Hc) as (a & b & m & x & _ & _ & E).
  apply (alookup_In peqb peqb_spec) in E. apply (in_map snd) in E. exact E.
Qed.

(** B2 as PathFS checks it, read on paths *)
Lemma b2_paths fs p1 p2 old d1 d2 x :
  FsInv fs -> resolve fs p1 = Some d1 -> resolve fs p2 = Some d2 -> entry fs d1 old = Some x -> isdir fs d2 = true ->
  isdir fs x && anc_or_eq (S (length (p_entries fs))) fs x d2 = false -> ~ prefix (p1 ++ [old]) p2.
Proof.
  intros F R1 R2 Ex D2 Chk (sg & E). subst p2.
  pose proof (resolve_length _ _ _ F R2) as LB. rewrite !app_length in LB. cbn in LB.
  rewrite resolve_walk in R1, R2. rewrite <- app_assoc in R2. rewrite walk_app, R1 in R2. cbn [app walk] in R2. rewrite Ex in R2.
  assert (A : anc_or_eq (S (length (p_entries fs))) fs x d2 = true) by (eapply anc_of_walk; eauto; lia).
  assert (Dx : isdir fs x = true).
  { destruct sg as [|a sg]; [cbn in R2; injection R2 as ->; exact D2|].
    cbn [walk] in R2. destruct (entry fs x a) eqn:Ea; [|discriminate]. eapply (F_dir _ F); eauto. }
  rewrite A, Dx in Chk. discriminate.
Qed.

(** ---- a successful RenameAt ---- *)
Record moved (fs fs' : pfs) (p1 p2 : list nat) (old new M_d1 M_d2 M_x : nat) : Prop := mkMoved {
  M_r1 : resolve fs p1 = Some M_d1;
  M_r2 : resolve fs p2 = Some M_d2;
  M_ex : entry fs M_d1 old = Some M_x;
  M_b2 : ~ prefix (p1 ++ [old]) p2;
  M_ne : (M_d1, old) <> (M_d2, new);
  M_nv : ~ prefix (p2 ++ [new]) p1;
  M_e1 : entry fs' M_d2 new = Some M_x;
  M_e2 : entry fs' M_d1 old = None;
  M_e3 : forall a y, (a, y) <> (M_d2, new) -> (a, y) <> (M_d1, old) -> entry fs' a y = entry fs a y;
  M_keys : NoDup (map fst (p_entries fs'));
  M_dirs : p_dirs fs' = p_dirs fs; M_ino : p_nextino fs' = p_nextino fs; M_files : p_files fs' = p_files fs;
  M_dir2 : isdir fs M_d2 = true }.

Lemma pfs_do_renameat fs h old h2 new : FsInv fs ->
  let r := pfs_do fs (BRenameAt h old h2 new) in
  ((exists e, snd r = AErr e) /\ fst r = fs) \/
  (fst r = fs /\ resolve fs (hpath fs h) = resolve fs (hpath fs h2) /\ old = new /\ resolve fs (hpath fs h) <> None) \/
  (snd r = AOk MNone 0 /\ exists d1 d2 x, moved fs (fst r) (hpath fs h) (hpath fs h2) old new d1 d2 x).
Proof.
  intros F. cbn [pfs_do]. fold (hpath fs h) (hpath fs h2).
  destruct (resolve fs (hpath fs h)) as [d1|] eqn:R1; [|left; cbn; eauto].
  destruct (resolve fs (hpath fs h2)) as [d2|] eqn:R2; [|left; cbn; eauto].
  destruct (entry fs d1 old) as [x|] eqn:Ex; [|left; cbn; eauto].
  destruct (isdir fs d2) eqn:D2; cbn [negb]; [|left; cbn; eauto].
  destruct (isdir fs x && anc_or_eq (S (length (p_entries fs))) fs x d2) eqn:Chk; [left; cbn; eauto|].
  destruct ((d1 =? d2) && (old =? new)) eqn:Same.
  { right; left. apply andb_prop in Same. destruct Same as (S1 & S2). apply Nat.eqb_eq in S1. apply Nat.eqb_eq in S2. subst.
    repeat split; auto. discriminate. }
  assert (NE : (d1, old) <> (d2, new)).
  { intros [= -> ->]. rewrite !Nat.eqb_refl in Same. discriminate. }
  pose proof (b2_paths fs _ _ old d1 d2 x F R1 R2 Ex D2 Chk) as B2.
  assert (Build : forall E', (forall a y, alookup peqb (a, y) E' = if peqb (a, y) (d2, new) then Some x else if peqb (a, y) (d1, old) then None else entry fs a y) ->
            NoDup (map fst E') -> ~ prefix (hpath fs h2 ++ [new]) (hpath fs h) -> moved fs (with_entries E' fs) (hpath fs h) (hpath fs h2) old new d1 d2 x).
  { intros E' HE ND NV. constructor; auto.
    - unfold entry. cbn. rewrite HE, peqb_true. reflexivity.
    - unfold entry. cbn. rewrite HE, peqb_false by auto. rewrite peqb_true. reflexivity.
    - intros a y N1 N2. unfold entry at 1. cbn. rewrite HE, !peqb_false by auto. reflexivity. }
  destruct (entry fs d2 new) as [v|] eqn:Ev.
  - destruct (anc_or_eq _ fs v d1) eqn:Anc; [left; cbn; eauto|]. right; right. cbn [fst snd]. split; [reflexivity|]. exists d1, d2, x. apply Build.
    3:{ intros (sg & E). pose proof (resolve_length _ _ _ F R1) as LB. rewrite E, !app_length in LB. cbn in LB.
        rewrite resolve_walk in R1, R2. rewrite E, <- app_assoc, walk_app, R2 in R1. cbn [app walk] in R1. rewrite Ev in R1.
        rewrite (anc_of_walk fs v F sg _ d1 R1) in Anc; [discriminate | lia]. }
    + intros a y. rewrite (alookup_aset peqb peqb_spec). destruct (peqb (a, y) (d2, new)) eqn:P2; auto.
      rewrite (alookup_adel peqb peqb_spec). destruct (peqb (a, y) (d1, old)); auto.
      rewrite (alookup_adel peqb peqb_spec), P2. reflexivity.
    + apply (aset_nodup peqb peqb_spec). apply (adel_nodup peqb peqb_spec). apply (adel_nodup peqb peqb_spec). apply F.
  - right; right. cbn [fst snd]. split; [reflexivity|]. exists d1, d2, x. apply Build.
    + intros a y. rewrite (alookup_aset peqb peqb_spec). destruct (peqb (a, y) (d2, new)) eqn:P2; auto.
      rewrite (alookup_adel peqb peqb_spec). reflexivity.
    + apply (aset_nodup peqb peqb_spec). apply (adel_nodup peqb peqb_spec). apply F.
    + intros (sg & E). rewrite resolve_walk in R1, R2. rewrite E, <- app_assoc, walk_app, R2 in R1. cbn [app walk] in R1. rewrite Ev in R1. discriminate.
Qed.

Lemma moved_bump fs fs' p1 p2 old new d1 d2 x : moved (bump fs) fs' p1 p2 old new d1 d2 x -> moved fs fs' p1 p2 old new d1 d2 x.
Proof.
  intros [R1 R2 Ex B2 NE NV E1 E2 E3 K D I Fl D2]. constructor; auto.
  - rewrite <- R1. symmetry. apply entries_resolve. reflexivity.
  - rewrite <- R2. symmetry. apply entries_resolve. reflexivity.
Qed.

(** what the server sees of a RenameAt: refused or the same entry (nothing changed), or moved *)
Definition fs_same (fs fs' : pfs) : Prop :=
  p_entries fs' = p_entries fs /\ p_dirs fs' = p_dirs fs /\ p_nextino fs' = p_nextino fs /\ p_files fs' = p_files fs.

Lemma pfs_step_renameat fs h old h2 new : FsInv fs ->
  let r := pfs_step fs (BRenameAt h old h2 new) in
  ((exists e, snd r = AErr e) /\ fs_same fs (fst r)) \/
  (fs_same fs (fst r) /\ resolve fs (hpath fs h) = resolve fs (hpath fs h2) /\ old = new /\ resolve fs (hpath fs h) <> None) \/
  (snd r = AOk MNone 0 /\ exists d1 d2 x, moved fs (fst r) (hpath fs h) (hpath fs h2) old new d1 d2 x).
Proof.
  intros F. cbv zeta.
  assert (FB : FsInv (bump fs)) by (destruct (fext_bump 0 fs) as (X & _); apply (X F)).
  assert (SB : fs_same fs (bump fs)) by (repeat split; reflexivity).
  assert (K : let r := pfs_do (bump fs) (BRenameAt h old h2 new) in
    ((exists e, snd r = AErr e) /\ fs_same fs (fst r)) \/
    (fs_same fs (fst r) /\ resolve fs (hpath fs h) = resolve fs (hpath fs h2) /\ old = new /\ resolve fs (hpath fs h) <> None) \/
    (snd r = AOk MNone 0 /\ exists d1 d2 x, moved fs (fst r) (hpath fs h) (hpath fs h2) old new d1 d2 x)).
  { cbv zeta. destruct (pfs_do_renameat (bump fs) h old h2 new FB) as [(Ea & Ef) | [(Ef & A1 & A2 & A3) | (Ea & d1 & d2 & x & M)]].
    - left. rewrite Ef. auto.
    - right; left. rewrite Ef. split; auto. change (hpath (bump fs) h) with (hpath fs h) in *. change (hpath (bump fs) h2) with (hpath fs h2) in *.
      rewrite !(entries_resolve fs (bump fs) _ eq_refl) in *. auto.
    - right; right. split; [exact Ea|]. exists d1, d2, x. apply moved_bump. exact M. }
  unfold pfs_step. destruct (alookup Nat.eqb (p_calls fs) (p_inject fs)) as [e|]; [|exact K].
  destruct (e =? injBadQ); [exact K|]. left. cbn. split; eauto.
Qed.

(** consequences of a move for resolution *)
Section Moved.
Variables (fs fs' : pfs) (p1 p2 : list nat) (old new d1 d2 x : nat).
Hypothesis F : FsInv fs.
Hypothesis M : moved fs fs' p1 p2 old new d1 d2 x.

Lemma moved_inv : FsInv fs'.
Proof.
  destruct M as [R1 R2 Ex B2 NE NV E1 E2 E3 K D I Fl D2]. rewrite resolve_walk in R1, R2.
  constructor.
  - eapply (move_uparent (entry fs) (entry fs')); eauto. apply F.
  - eapply (move_noroot (entry fs) (entry fs') root_ino (F_noroot _ F)); eauto.
  - exact K.
  - intros a y c H. unfold isdir. rewrite D. fold (isdir fs a).
    destruct (pair_dec (a, y) (d2, new)) as [[= -> ->]|N2]; [exact D2|].
    destruct (pair_dec (a, y) (d1, old)) as [[= -> ->]|N1]; [congruence|].
    rewrite E3 in H by auto. eapply (F_dir _ F); eauto.
  - intros a y c H. rewrite I.
    destruct (pair_dec (a, y) (d2, new)) as [[= -> ->]|N2].
    + rewrite E1 in H. injection H as <-. split; [|eapply (F_bound _ F); eauto].
      rewrite <- resolve_walk in R2. eapply resolve_bound; eauto.
    + destruct (pair_dec (a, y) (d1, old)) as [[= -> ->]|N1]; [congruence|].
      rewrite E3 in H by auto. eapply (F_bound _ F); eauto.
  - rewrite I. apply F.
Qed.

Lemma moved_resolve_other p : ~ prefix (p1 ++ [old]) p -> ~ prefix (p2 ++ [new]) p -> resolve fs' p = resolve fs p.
Proof.
  destruct M as [R1 R2 Ex B2 NE NV E1 E2 E3 K D I Fl D2]. rewrite resolve_walk in R1, R2. rewrite !resolve_walk.
  eapply (move_walk_other (entry fs) (entry fs') root_ino (F_up _ F) (F_noroot _ F)); eauto.
Qed.

Lemma moved_resolve_moved sg : resolve fs' (p2 ++ [new] ++ sg) = resolve fs (p1 ++ [old] ++ sg).
Proof.
  destruct M as [R1 R2 Ex B2 NE NV E1 E2 E3 K D I Fl D2]. rewrite resolve_walk in R1, R2. rewrite !resolve_walk.
  eapply (move_walk_moved (entry fs) (entry fs') root_ino (F_up _ F) (F_noroot _ F)); eauto.
Qed.
End Moved.
