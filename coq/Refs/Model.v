(** Refs/Model.v — sequential model of the p9 server restricted to references
    and paths (C05, C08): fid tables, fidRef reference counts with the DecRef
    cascade, the path tree (childNodes / childRefs / childRefNames / deleted),
    and the handlers that touch them, written against an arbitrary backend
    [bstep] (Section variable; the theorems quantify over every backend).

    Conventions (DESIGN 3): names, fids, connection ids, handles, ref ids and
    node ids are small [nat]s (names are name *ids*: the server only compares
    names for equality; checkSafeName is C09's concern and every name the
    harness sends is safe).  Handles are numbered in creation order; the
    prospective handle is passed to the backend in the creating call and is
    consumed only when the call succeeds.  Go map iteration order is
    unspecified: the model iterates association lists in list order and the
    comparison sorts the Renamed/Close runs (Refs/Cases.v).

    Deliberate re-orderings of unobservable atomic steps (no backend call in
    between, same final state whenever no count reaches zero in between, which
    the LookupFID reference of the handler guarantees):
      - a fresh fidRef is created with refs = 1 and listed in [s_held] (the
        reference doWalk returns / the one InsertFID is about to take) instead
        of refs = 0 followed by IncRef; the IncRef of its parent / xattr origin
        is done at once ([new_ref_inc]), before addChild;
      - stop() takes each fid out of the table as it drops its reference.
    Run-time panics (nameFor, addChildLocked, addPathNodeFor, removeChild,
    trename's assertion, nil parent) set [s_panic]; the handler answers EFAULT.
    The DecRef cascade and the node recursions take explicit fuel; running out
    sets [s_oof]. *)
From Coq Require Import List Arith Bool ZArith Lia.
Import ListNotations.

(** ---- association lists ---- *)
Section AList.
  Context {K V : Type} (eqb : K -> K -> bool).
  Fixpoint alookup (k : K) (l : list (K * V)) : option V :=
    match l with
    | [] => None
    | (k', v) :: r => if eqb k k' then Some v else alookup k r
    end.
  Fixpoint adel (k : K) (l : list (K * V)) : list (K * V) :=
    match l with
    | [] => []
    | (k', v) :: r => if eqb k k' then adel k r else (k', v) :: adel k r
    end.
  (** replace in place, or append: keeps insertion order *)
  Fixpoint aset (k : K) (v : V) (l : list (K * V)) : list (K * V) :=
    match l with
    | [] => [(k, v)]
    | (k', v') :: r => if eqb k k' then (k, v) :: adel k r else (k', v') :: aset k v r
    end.
End AList.

Definition peqb (a b : nat * nat) : bool := (fst a =? fst b) && (snd a =? snd b).

Fixpoint remove_nat (x : nat) (l : list nat) : list nat :=
  match l with
  | [] => []
  | y :: r => if x =? y then remove_nat x r else y :: remove_nat x r
  end.

(** remove ONE occurrence *)
Fixpoint remove_one (x : nat) (l : list nat) : list nat :=
  match l with
  | [] => []
  | y :: r => if x =? y then r else y :: remove_one x r
  end.

Fixpoint upd {A} (l : list A) (i : nat) (x : A) : list A :=
  match l, i with
  | [], _ => []
  | _ :: r, 0 => x :: r
  | y :: r, S j => y :: upd r j x
  end.

(** ---- errno numbers used by the handlers ---- *)
Definition EPERM := 1. Definition ENOENT := 2. Definition EIO := 5. Definition EBADF := 9.
Definition EFAULT := 14. Definition EBUSY := 16. Definition EEXIST := 17. Definition ENOTDIR := 20.
Definition EISDIR := 21. Definition EINVAL := 22. Definition ENOSYS := 38. Definition ENOTEMPTY := 39.

Inductive fmode := MNone | MDir | MReg.
Inductive xop := XNone | XWalk | XCreate.
Definition is_dir (m : fmode) : bool := match m with MDir => true | _ => false end.
Definition can_open (m : fmode) : bool := match m with MNone => false | _ => true end.

(** kinds of single-handle backend calls without a name *)
Definition uRead := 0. Definition uWrite := 1. Definition uFsync := 2. Definition uReaddir := 3.
Definition uSetAttr := 4. Definition uStatFS := 5. Definition uLock := 6. Definition uGetXattr := 7.
Definition uSetXattr := 8.

Inductive bcall :=
| BAttach (nh : nat)
| BWalk (h : nat) (nm : option nat) (nh : nat)
| BWalkGetAttr (h : nat) (nm : option nat) (nh : nat)
| BGetAttr (h : nat)
| BOpen (h : nat) (flags : nat)
| BCreate (h : nat) (nm : nat) (nh : nat)
| BMk (k : nat) (h : nat) (nm : nat)          (* 0 Mkdir, 1 Mknod, 2 Symlink *)
| BLink (h : nat) (th : nat) (nm : nat)
| BUnlinkAt (h : nat) (nm : nat)
| BRenameAt (h : nat) (old : nat) (h2 : nat) (new : nat)
| BRenamed (h : nat) (ph : nat) (nm : nat)
| BClose (h : nat)
| BUse (k : nat) (h : nat).

(** what the backend answered: success (with the mode / inode id where the call
    reports them), an errno, or - for Walk/WalkGetAttr - a File together with a
    QID list of the wrong length *)
Inductive bans := AOk (m : fmode) (ino : nat) | AErr (e : nat) | ABadQ (m : fmode) (ino : nat).

Record fidref := mkref {
  fr_file : nat; fr_refs : Z; fr_opened : bool; fr_oflags : nat; fr_mode : fmode;
  fr_node : nat; fr_parent : option nat; fr_xattrOf : option nat; fr_xop : xop }.

Record pnode := mknode {
  pn_deleted : bool;
  pn_nodes : list (nat * nat);            (* childNodes    : name -> node *)
  pn_refs  : list (nat * list nat);       (* childRefs     : name -> set of refs *)
  pn_names : list (nat * nat) }.          (* childRefNames : ref -> name *)

Definition dead_ref := mkref 0 0 false 0 MNone 0 None None XNone.
Definition empty_node := mknode false [] [] [].

Section Server.
Variable B : Type.
Variable bstep : B -> bcall -> B * bans.

Record sstate := mkst {
  s_fids : list ((nat * nat) * nat);      (* (connection, fid) -> ref *)
  s_refs : list fidref;
  s_nodes : list pnode;                   (* node 0 = server.pathTree *)
  s_nexth : nat;
  s_held : list nat;                      (* ghost: transient references of the running request *)
  s_log : list bcall;                     (* ghost: backend calls, newest first *)
  s_be : B;
  s_panic : bool;
  s_oof : bool }.

Definition init_state (b : B) : sstate := mkst [] [] [empty_node] 0 [] [] b false false.

Definition get_ref (s : sstate) (r : nat) : fidref := nth r (s_refs s) dead_ref.
Definition get_node (s : sstate) (n : nat) : pnode := nth n (s_nodes s) empty_node.

Definition with_fids f (s : sstate) := mkst f (s_refs s) (s_nodes s) (s_nexth s) (s_held s) (s_log s) (s_be s) (s_panic s) (s_oof s).
Definition with_refs f (s : sstate) := mkst (s_fids s) f (s_nodes s) (s_nexth s) (s_held s) (s_log s) (s_be s) (s_panic s) (s_oof s).
Definition with_nodes f (s : sstate) := mkst (s_fids s) (s_refs s) f (s_nexth s) (s_held s) (s_log s) (s_be s) (s_panic s) (s_oof s).
Definition with_nexth f (s : sstate) := mkst (s_fids s) (s_refs s) (s_nodes s) f (s_held s) (s_log s) (s_be s) (s_panic s) (s_oof s).
Definition with_held f (s : sstate) := mkst (s_fids s) (s_refs s) (s_nodes s) (s_nexth s) f (s_log s) (s_be s) (s_panic s) (s_oof s).
Definition set_panic (s : sstate) := mkst (s_fids s) (s_refs s) (s_nodes s) (s_nexth s) (s_held s) (s_log s) (s_be s) true (s_oof s).
Definition set_oof (s : sstate) := mkst (s_fids s) (s_refs s) (s_nodes s) (s_nexth s) (s_held s) (s_log s) (s_be s) (s_panic s) true.

Definition set_ref (r : nat) (x : fidref) (s : sstate) := with_refs (upd (s_refs s) r x) s.
Definition set_node (n : nat) (x : pnode) (s : sstate) := with_nodes (upd (s_nodes s) n x) s.

Definition fr_with_refs (x : fidref) (z : Z) :=
  mkref (fr_file x) z (fr_opened x) (fr_oflags x) (fr_mode x) (fr_node x) (fr_parent x) (fr_xattrOf x) (fr_xop x).
Definition fr_with_parent (x : fidref) (p : option nat) :=
  mkref (fr_file x) (fr_refs x) (fr_opened x) (fr_oflags x) (fr_mode x) (fr_node x) p (fr_xattrOf x) (fr_xop x).
Definition fr_with_mode (x : fidref) (m : fmode) :=
  mkref (fr_file x) (fr_refs x) (fr_opened x) (fr_oflags x) m (fr_node x) (fr_parent x) (fr_xattrOf x) (fr_xop x).
Definition fr_with_open (x : fidref) (fl : nat) :=
  mkref (fr_file x) (fr_refs x) true fl (fr_mode x) (fr_node x) (fr_parent x) (fr_xattrOf x) (fr_xop x).
Definition fr_with_xop (x : fidref) (o : xop) :=
  mkref (fr_file x) (fr_refs x) (fr_opened x) (fr_oflags x) (fr_mode x) (fr_node x) (fr_parent x) (fr_xattrOf x) o.

Definition pn_with_deleted (x : pnode) := mknode true (pn_nodes x) (pn_refs x) (pn_names x).
Definition pn_with_nodes (x : pnode) f := mknode (pn_deleted x) f (pn_refs x) (pn_names x).
Definition pn_with_refs (x : pnode) f g := mknode (pn_deleted x) (pn_nodes x) f g.

(** one backend call: answer, new backend state, call logged *)
Definition bcall_ (c : bcall) (s : sstate) : bans * sstate :=
  let '(b', a) := bstep (s_be s) c in
  (a, mkst (s_fids s) (s_refs s) (s_nodes s) (s_nexth s) (s_held s) (c :: s_log s) b' (s_panic s) (s_oof s)).

Definition is_deleted (s : sstate) (r : nat) : bool := pn_deleted (get_node s (fr_node (get_ref s r))).

(** ---- reference counts ---- *)
Definition incref (r : nat) (s : sstate) : sstate :=
  let x := get_ref s r in set_ref r (fr_with_refs x (fr_refs x + 1)) s.

Definition hold (r : nat) (s : sstate) : sstate := with_held (r :: s_held s) (incref r s).

(** pathNode.removeChild *)
Definition remove_child (n r : nat) (s : sstate) : sstate :=
  let pn := get_node s n in
  match alookup Nat.eqb r (pn_names pn) with
  | Some nm =>
      match alookup Nat.eqb nm (pn_refs pn) with
      | None => set_panic s
      | Some m =>
          let m' := remove_nat r m in
          let refs' := match m' with [] => adel Nat.eqb nm (pn_refs pn) | _ => aset Nat.eqb nm m' (pn_refs pn) end in
          set_node n (pn_with_refs pn refs' (adel Nat.eqb r (pn_names pn))) s
      end
  | None => s
  end.

Definition first_err (a b : option nat) : option nat := match a with Some _ => a | None => b end.

(** fidRef.DecRef with the cascade to xattrOf / parent *)
Fixpoint decref (fuel : nat) (r : nat) (s : sstate) : option nat * sstate :=
  match fuel with
  | 0 => (None, set_oof s)
  | S f =>
      let x := get_ref s r in
      let s1 := set_ref r (fr_with_refs x (fr_refs x - 1)) s in
      if (fr_refs x - 1 =? 0)%Z then
        let '(e1, s2) :=
          match fr_xattrOf x with
          | Some o => decref f o s1
          | None => let '(a, s2) := bcall_ (BClose (fr_file x)) s1 in
                    (match a with AErr e => Some e | _ => None end, s2)
          end in
        match fr_parent x with
        | Some p =>
            let s3 := remove_child (fr_node (get_ref s2 p)) r s2 in
            let '(e2, s4) := decref f p s3 in
            (first_err e1 e2, s4)
        | None => (e1, s2)
        end
      else (None, s1)
  end.

Definition fuel_of (s : sstate) : nat := S (S (length (s_refs s))).
Definition decref_ (r : nat) (s : sstate) : option nat * sstate := decref (fuel_of s) r s.

(** the deferred DecRef of a reference taken by LookupFID / returned by doWalk *)
Definition release (r : nat) (s : sstate) : sstate :=
  snd (decref_ r (with_held (remove_one r (s_held s)) s)).

Definition lookup_fid (c fid : nat) (s : sstate) : option nat * sstate :=
  match alookup peqb (c, fid) (s_fids s) with
  | Some r => (Some r, hold r s)
  | None => (None, s)
  end.

Definition insert_fid (c fid r : nat) (s : sstate) : sstate :=
  let old := alookup peqb (c, fid) (s_fids s) in
  let s1 := with_fids (aset peqb (c, fid) r (s_fids s)) (incref r s) in
  match old with Some o => snd (decref_ o s1) | None => s1 end.

Definition delete_fid (c fid : nat) (s : sstate) : option nat * sstate :=
  match alookup peqb (c, fid) (s_fids s) with
  | None => (Some EBADF, s)
  | Some r => decref_ r (with_fids (adel peqb (c, fid) (s_fids s)) s)
  end.

(** a new fidRef, born with the reference its creator holds (see header) *)
Definition new_ref (x : fidref) (s : sstate) : nat * sstate :=
  let r := length (s_refs s) in
  (r, with_held (r :: s_held s) (with_refs (s_refs s ++ [fr_with_refs x 1]) s)).

(** a new fidRef that takes a reference on its parent / on the fidRef whose File it borrows
    (ref.parent.IncRef() in the clone and in Tlcreate, ref.IncRef() in Txattrwalk) *)
Definition new_ref_inc (x : fidref) (s : sstate) : nat * sstate :=
  let '(nr, s1) := new_ref x s in
  (nr, match fr_parent x with
       | Some p => incref p s1
       | None => match fr_xattrOf x with Some o => incref o s1 | None => s1 end
       end).

(** the walk reference held on [wr] becomes the parent reference of the new fidRef (doWalk: no IncRef) *)
Definition new_ref_handover (wr : nat) (x : fidref) (s : sstate) : nat * sstate :=
  new_ref x (with_held (remove_one wr (s_held s)) s).

(** ---- path tree ---- *)
Definition path_node_for (n nm : nat) (s : sstate) : nat * sstate :=
  let pn := get_node s n in
  match alookup Nat.eqb nm (pn_nodes pn) with
  | Some c => (c, s)
  | None =>
      let c := length (s_nodes s) in
      (c, set_node n (pn_with_nodes pn (aset Nat.eqb nm c (pn_nodes pn))) (with_nodes (s_nodes s ++ [empty_node]) s))
  end.

Definition name_for (n r : nat) (s : sstate) : option nat := alookup Nat.eqb r (pn_names (get_node s n)).

(** addChild / addChildLocked *)
Definition add_child (n r nm : nat) (s : sstate) : sstate :=
  let pn := get_node s n in
  match alookup Nat.eqb r (pn_names pn) with
  | Some _ => set_panic s
  | None =>
      let m := match alookup Nat.eqb nm (pn_refs pn) with Some m => m | None => [] end in
      set_node n (pn_with_refs pn (aset Nat.eqb nm (m ++ [r]) (pn_refs pn)) (aset Nat.eqb r nm (pn_names pn))) s
  end.

Definition add_path_node_for (n nm c : nat) (s : sstate) : sstate :=
  let pn := get_node s n in
  match alookup Nat.eqb nm (pn_nodes pn) with
  | Some _ => set_panic s
  | None => set_node n (pn_with_nodes pn (aset Nat.eqb nm c (pn_nodes pn))) s
  end.

(** removeWithName: the loop over childRefs[name]; [fn] is renameChildTo's
    callback or absent.  Refs that were TryIncRef'd are returned (dropped by the
    caller after the "unlock"). *)
Definition try_incref (r : nat) (s : sstate) : bool * sstate :=
  if (fr_refs (get_ref s r) <=? 0)%Z then (false, s) else (true, incref r s).

Fixpoint rwn_loop (n nm : nat) (fn : option (nat -> sstate -> sstate)) (m : list nat) (held : list nat) (s : sstate)
  : list nat * sstate :=
  match m with
  | [] => (held, s)
  | r :: rest =>
      let pn := get_node s n in
      let cur := match alookup Nat.eqb nm (pn_refs pn) with Some l => l | None => [] end in
      let s1 := set_node n (pn_with_refs pn (aset Nat.eqb nm (remove_nat r cur) (pn_refs pn)) (adel Nat.eqb r (pn_names pn))) s in
      match fn with
      | None => rwn_loop n nm fn rest held s1
      | Some f =>
          let '(ok, s2) := try_incref r s1 in
          if ok then rwn_loop n nm fn rest (held ++ [r]) (f r (with_held (r :: s_held s2) s2))
          else rwn_loop n nm fn rest held s2
      end
  end.

Fixpoint release_all (l : list nat) (s : sstate) : sstate :=
  match l with
  | [] => s
  | r :: rest => release_all rest (release r s)
  end.

Definition remove_with_name (n nm : nat) (fn : option (nat -> sstate -> sstate)) (s : sstate) : option nat * sstate :=
  let pn := get_node s n in
  let '(held, s1) :=
    match alookup Nat.eqb nm (pn_refs pn) with
    | Some m => rwn_loop n nm fn m [] s
    | None => ([], s)
    end in
  let pn1 := get_node s1 n in
  let orig := alookup Nat.eqb nm (pn_nodes pn1) in
  let s2 := set_node n (pn_with_nodes pn1 (adel Nat.eqb nm (pn_nodes pn1))) s1 in
  (orig, release_all held s2).

Fixpoint notify_delete (fuel n : nat) (s : sstate) : sstate :=
  match fuel with
  | 0 => set_oof s
  | S f =>
      let s1 := set_node n (pn_with_deleted (get_node s n)) s in
      fold_left (fun st c => notify_delete f (snd c) st) (pn_nodes (get_node s n)) s1
  end.

Definition node_fuel (s : sstate) : nat := S (length (s_nodes s)).

Definition mark_child_deleted (n nm : nat) (s : sstate) : sstate :=
  let '(orig, s1) := remove_with_name n nm None s in
  match orig with
  | Some c => notify_delete (node_fuel s1) c s1
  | None => s1
  end.

(** notifyNameChange's callback: a fidRef that is being destroyed (count 0) is skipped; the others are
    held while Renamed runs and collected in [held] (dropped by renameChildTo afterwards) *)
Definition renamed_call (r nm : nat) (hs : list nat * sstate) : list nat * sstate :=
  let '(held, s) := hs in
  let '(ok, s1) := try_incref r s in
  if ok then
    let s2 := with_held (r :: s_held s1) s1 in
    (held ++ [r],
     match fr_parent (get_ref s2 r) with
     | Some p => snd (bcall_ (BRenamed (fr_file (get_ref s2 r)) (fr_file (get_ref s2 p)) nm) s2)
     | None => set_panic s2
     end)
  else (held, s1).

Fixpoint notify_name_change (fuel n : nat) (hs : list nat * sstate) : list nat * sstate :=
  match fuel with
  | 0 => (fst hs, set_oof (snd hs))
  | S f =>
      let pn := get_node (snd hs) n in
      let hs1 := fold_left (fun st e => fold_left (fun st' r => renamed_call r (fst e) st') (snd e) st) (pn_refs pn) hs in
      fold_left (fun st c => notify_name_change f (snd c) st) (pn_nodes pn) hs1
  end.

(** the callback of renameChildTo: re-parent, re-register and notify first, drop the reference on the
    original parent last *)
Definition rename_cb (tgt newnm : nat) (r : nat) (s : sstate) : sstate :=
  match fr_parent (get_ref s r) with
  | None => set_panic s
  | Some p =>
      let s1 := incref tgt (set_ref r (fr_with_parent (get_ref s r) (Some tgt)) s) in
      let s2 := add_child (fr_node (get_ref s1 tgt)) r newnm s1 in
      let s3 := snd (bcall_ (BRenamed (fr_file (get_ref s2 r)) (fr_file (get_ref s2 tgt)) newnm) s2) in
      snd (decref_ p s3)
  end.

Definition rename_child_to (fnode oldnm tgt newnm : nat) (s : sstate) : sstate :=
  let tn := fr_node (get_ref s tgt) in
  let s1 := mark_child_deleted tn newnm s in
  let '(orig, s2) := remove_with_name fnode oldnm (Some (rename_cb tgt newnm)) s1 in
  match orig with
  | Some c =>
      let s3 := add_path_node_for tn newnm c s2 in
      if s_panic s3 then s3
      else let '(held, s4) := notify_name_change (node_fuel s3) c ([], s3) in release_all held s4
  | None => s2
  end.

(** ---- walking ---- *)
Inductive wres := WFail (e : nat) | WOk (h : nat) (m : fmode) (ino : nat).

Definition take_handle (s : sstate) : sstate := with_nexth (S (s_nexth s)) s.

(** walkOne for zero ([nm = None]) or one name *)
Definition walk_one (from_h from_node : nat) (nm : option nat) (getattr : bool) (s : sstate) : wres * sstate :=
  let nh := s_nexth s in
  let finish (m : fmode) (ino : nat) (bad : bool) (s : sstate) : wres * sstate :=
    match nm with
    | Some _ => if bad then let '(_, s') := bcall_ (BClose nh) s in (WFail EINVAL, s') else (WOk nh m ino, s)
    | None => (WOk nh m ino, s)
    end in
  let plain (s : sstate) : wres * sstate :=
    let '(a, s1) := bcall_ (BWalk from_h nm nh) s in
    match a with
    | AErr e => (WFail e, s1)
    | AOk m ino | ABadQ m ino =>
        let bad := match a with ABadQ _ _ => true | _ => false end in
        let s2 := take_handle s1 in
        if getattr then
          let s3 := match nm with Some x => snd (path_node_for from_node x s2) | None => s2 end in
          let '(a2, s4) := bcall_ (BGetAttr nh) s3 in
          match a2 with
          | AErr e => let '(_, s5) := bcall_ (BClose nh) s4 in (WFail e, s5)
          | AOk m2 i2 | ABadQ m2 i2 => finish m2 i2 bad s4
          end
        else finish m ino bad s2
    end in
  if getattr then
    let '(a, s1) := bcall_ (BWalkGetAttr from_h nm nh) s in
    match a with
    | AErr e => if e =? ENOSYS then plain s1 else (WFail e, s1)
    | AOk m ino => finish m ino false (take_handle s1)
    | ABadQ m ino => finish m ino true (take_handle s1)
    end
  else plain s.

Inductive dres := DFail (e : nat) | DOk (r : nat).

(** doWalk, names non-empty: [wr] is walkRef (a held reference) *)
Fixpoint walk_steps (wr : nat) (names : list nat) (s : sstate) : dres * sstate :=
  match names with
  | [] => (DOk wr, s)
  | nm :: rest =>
      let x := get_ref s wr in
      if negb (is_dir (fr_mode x)) then (DFail EINVAL, release wr s)
      else if is_deleted s wr then (DFail ENOENT, release wr s)
      else
        let '(w, s1) := walk_one (fr_file x) (fr_node x) (Some nm) true s in
        match w with
        | WFail e => (DFail e, release wr s1)
        | WOk h m _ =>
            let '(cn, s2) := path_node_for (fr_node x) nm s1 in
            let '(nr, s4) := new_ref_handover wr (mkref h 0 false 0 m cn (Some wr) None XNone) s2 in
            let s5 := add_child (fr_node x) nr nm s4 in
            if s_panic s5 then (DFail EFAULT, s5) else walk_steps nr rest s5
        end
  end.

Definition do_walk (ref : nat) (names : list nat) (getattr : bool) (s : sstate) : dres * sstate :=
  match names with
  | [] =>
      let x := get_ref s ref in
      match fr_xattrOf x with
      | Some _ => (DFail EINVAL, s)        (* an xattr fid is not part of the path tree: no clone *)
      | None =>
      let '(w, s1) := walk_one (fr_file x) (fr_node x) None getattr s in
      match w with
      | WFail e => (DFail e, s1)
      | WOk h _ _ =>
          let '(nr, s2) := new_ref_inc (mkref h 0 false 0 (fr_mode x) (fr_node x) (fr_parent x) None XNone) s1 in
          match fr_parent x with
          | None => (DOk nr, s2)
          | Some p =>
              let pnode := fr_node (get_ref s2 p) in
              if is_deleted s2 nr then (DOk nr, s2)
              else match name_for pnode ref s2 with
                   | None => (DFail EFAULT, set_panic s2)
                   | Some nm =>
                       let s3 := add_child pnode nr nm s2 in
                       if s_panic s3 then (DFail EFAULT, s3) else (DOk nr, s3)
                   end
          end
      end
      end
  | _ => walk_steps ref names (hold ref s)
  end.

(** ---- requests ---- *)
Inductive op :=
| OAttach (c fid : nat) (names : list nat)
| OWalk (c fid newfid : nat) (names : list nat) (getattr : bool)
| OClunk (c fid : nat)
| ORemove (c fid : nat)
| OOpen (c fid flags : nat)
| OCreate (c fid nm flags : nat)
| OMk (k c fid nm : nat)
| OLink (c dirfid tfid nm : nat)
| OGetAttr (c fid : nat)
| OUse (k c fid : nat)                       (* uStatFS, uLock: unguarded *)
| OIO (k c fid : nat)                        (* uRead, uWrite, uFsync *)
| OSetAttr (c fid : nat)
| OReaddir (c fid : nat)
| OReadlink (c fid : nat)
| OUnlinkAt (c fid nm : nat)
| ORename (c fid dirfid nm : nat)
| ORenameAt (c fid oldnm fid2 newnm : nat)
| OXattrWalk (c fid newfid : nat)
| OXattrCreate (c fid : nat)
| OStop (c : nat).

(** reply: errno (0 = success) and one value (QID path / number of QIDs / data) *)
Definition reply := (nat * nat)%type.
Definition rerr (e : nat) : reply := (e, 0).
Definition rok (v : nat) : reply := (0, v).

(** [LookupFID; body; deferred DecRef] *)
Definition with_fid (c fid : nat) (body : nat -> sstate -> reply * sstate) (s : sstate) : reply * sstate :=
  match lookup_fid c fid s with
  | (None, s1) => (rerr EBADF, s1)
  | (Some r, s1) => let '(rep, s2) := body r s1 in (rep, release r s2)
  end.

Definition guarded_call (r : nat) (guard : option nat) (c : bcall) (s : sstate) : reply * sstate :=
  match guard with
  | Some e => (rerr e, s)
  | None => let '(a, s1) := bcall_ c s in
            match a with AErr e => (rerr e, s1) | AOk _ ino | ABadQ _ ino => (rok ino, s1) end
  end.

Definition dir_guard (s : sstate) (r : nat) : option nat :=
  let x := get_ref s r in
  if is_deleted s r || negb (is_dir (fr_mode x)) then Some EINVAL
  else if fr_opened x then Some EINVAL else None.

Definition finish_panic (rep : reply) (s0 s : sstate) : reply :=
  if s_panic s && negb (s_panic s0) then rerr EFAULT else rep.

Definition do_attach (c fid : nat) (names : list nat) (s : sstate) : reply * sstate :=
  let nh := s_nexth s in
  let '(a, s1) := bcall_ (BAttach nh) s in
  match a with
  | AErr e => (rerr e, s1)
  | _ =>
      let '(root, s2) := new_ref (mkref nh 0 false 0 MNone 0 None None XNone) (take_handle s1) in
      let '(a2, s3) := bcall_ (BGetAttr nh) s2 in
      match a2 with
      | AErr e => (rerr e, release root s3)
      | AOk m ino | ABadQ m ino =>
          let s4 := set_ref root (fr_with_mode (get_ref s3 root) m) s3 in
          match names with
          | [] => (rok ino, release root (insert_fid c fid root s4))
          | _ =>
              let '(d, s5) := do_walk root names false s4 in
              match d with
              | DFail e => (rerr e, release root s5)
              | DOk nr => (rok ino, release root (release nr (insert_fid c fid nr s5)))
              end
          end
      end
  end.

Definition do_walk_op (c fid newfid : nat) (names : list nat) (getattr : bool) : sstate -> reply * sstate :=
  with_fid c fid (fun r s =>
    if fr_opened (get_ref s r) && (fid =? newfid) then (rerr EBUSY, s)
    else
      let '(d, s1) := do_walk r names getattr s in
      match d with
      | DFail e => (rerr e, s1)
      | DOk nr => (rok (length names), release nr (insert_fid c newfid nr s1))
      end).

Definition do_clunk (c fid : nat) (s : sstate) : reply * sstate :=
  let '(cerr, s1) :=
    with_fid c fid (fun r s =>
      match fr_xop (get_ref s r) with
      | XCreate => guarded_call r None (BUse uSetXattr (fr_file (get_ref s r))) s
      | _ => (rok 0, s)
      end) s in
  let '(e, s2) := delete_fid c fid s1 in
  match e with
  | Some e => (rerr e, s2)
  | None => if fst cerr =? 0 then (rok 0, s2) else (rerr (fst cerr), s2)
  end.

Definition do_remove (c fid : nat) : sstate -> reply * sstate :=
  with_fid c fid (fun r s =>
    let x := get_ref s r in
    let '(err, s1) :=
      match fr_parent x with
      | None => (Some EINVAL, s)
      | Some p =>
          if is_deleted s r then (Some EINVAL, s)
          else match name_for (fr_node (get_ref s p)) r s with
               | None => (Some EFAULT, set_panic s)
               | Some nm =>
                   let '(a, s1) := bcall_ (BUnlinkAt (fr_file (get_ref s p)) nm) s in
                   match a with
                   | AErr e => (Some e, s1)
                   | _ => (None, mark_child_deleted (fr_node (get_ref s1 p)) nm s1)
                   end
               end
      end in
    if s_panic s1 && negb (s_panic s) then (rerr EFAULT, s1)     (* the panic skips DeleteFID *)
    else
      let '(fe, s2) := delete_fid c fid s1 in
      match fe, err with
      | Some e, _ => (rerr e, s2)
      | None, Some e => (rerr e, s2)
      | None, None => (rok 0, s2)
      end).

Definition do_open (c fid flags : nat) : sstate -> reply * sstate :=
  with_fid c fid (fun r s =>
    let x := get_ref s r in
    if is_deleted s r then (rerr EINVAL, s)
    else if fr_opened x || negb (can_open (fr_mode x)) then (rerr EINVAL, s)
    else if is_dir (fr_mode x) && negb (flags =? 0) then (rerr EISDIR, s)
    else
      let '(a, s1) := bcall_ (BOpen (fr_file x) flags) s in
      match a with
      | AErr e => (rerr e, s1)
      | AOk _ ino | ABadQ _ ino => (rok ino, set_ref r (fr_with_open (get_ref s1 r) flags) s1)
      end).

Definition do_create (c fid nm flags : nat) : sstate -> reply * sstate :=
  with_fid c fid (fun r s =>
    match dir_guard s r with
    | Some e => (rerr e, s)
    | None =>
        let x := get_ref s r in
        let nh := s_nexth s in
        let '(a, s1) := bcall_ (BCreate (fr_file x) nm nh) s in
        match a with
        | AErr e => (rerr e, s1)
        | AOk _ ino | ABadQ _ ino =>
            let '(cn, s2) := path_node_for (fr_node x) nm (take_handle s1) in
            let '(nr, s3) := new_ref_inc (mkref nh 0 true flags MReg cn (Some r) None XNone) s2 in
            let s4 := add_child (fr_node x) nr nm s3 in
            if s_panic s4 then (rerr EFAULT, s4)
            else (rok ino, release nr (insert_fid c fid nr s4))
        end
    end).

Definition do_mk (k c fid nm : nat) : sstate -> reply * sstate :=
  with_fid c fid (fun r s =>
    let '(rep, s1) := guarded_call r (dir_guard s r) (BMk k (fr_file (get_ref s r)) nm) s in
    ((fst rep, 0), s1)).

Definition do_link (c dirfid tfid nm : nat) : sstate -> reply * sstate :=
  with_fid c dirfid (fun r =>
    with_fid c tfid (fun t s =>
      let '(rep, s1) := guarded_call r (dir_guard s r) (BLink (fr_file (get_ref s r)) (fr_file (get_ref s t)) nm) s in
      ((fst rep, 0), s1))).

Definition do_getattr (c fid : nat) : sstate -> reply * sstate :=
  with_fid c fid (fun r s => guarded_call r None (BGetAttr (fr_file (get_ref s r))) s).

Definition do_use (k c fid : nat) : sstate -> reply * sstate :=
  with_fid c fid (fun r s =>
    let '(rep, s1) := guarded_call r None (BUse k (fr_file (get_ref s r))) s in ((fst rep, 0), s1)).

Definition do_io (k c fid : nat) : sstate -> reply * sstate :=
  with_fid c fid (fun r s =>
    let x := get_ref s r in
    let opened_guard (bad : nat) := if negb (fr_opened x) then Some EINVAL
                                    else if fr_oflags x =? bad then Some EPERM else None in
    if k =? uFsync then
      let '(rep, s1) := guarded_call r (if fr_opened x then None else Some EINVAL) (BUse uFsync (fr_file x)) s in ((fst rep, 0), s1)
    else if k =? uRead then
      match fr_xop x with
      | XNone => guarded_call r (opened_guard 1) (BUse uRead (fr_file x)) s
      | XWalk => (rok 0, s)
      | XCreate => (rerr EINVAL, s)
      end
    else
      match fr_xop x with
      | XNone => let '(rep, s1) := guarded_call r (opened_guard 0) (BUse uWrite (fr_file x)) s in ((fst rep, 0), s1)
      | _ => (rerr EINVAL, s)
      end).

Definition do_setattr (c fid : nat) : sstate -> reply * sstate :=
  with_fid c fid (fun r s =>
    let '(rep, s1) := guarded_call r (if is_deleted s r then Some EINVAL else None) (BUse uSetAttr (fr_file (get_ref s r))) s in
    ((fst rep, 0), s1)).

Definition do_readdir (c fid : nat) : sstate -> reply * sstate :=
  with_fid c fid (fun r s =>
    let x := get_ref s r in
    let g := if is_deleted s r || negb (is_dir (fr_mode x)) then Some EINVAL
             else if negb (fr_opened x) then Some EINVAL else None in
    let '(rep, s1) := guarded_call r g (BUse uReaddir (fr_file x)) s in ((fst rep, 0), s1)).

(** no fidRef of this model has symlink mode *)
Definition do_readlink (c fid : nat) : sstate -> reply * sstate :=
  with_fid c fid (fun r s => (rerr EINVAL, s)).

Definition do_unlinkat (c fid nm : nat) : sstate -> reply * sstate :=
  with_fid c fid (fun r s =>
    match dir_guard s r with
    | Some e => (rerr e, s)
    | None =>
        let x := get_ref s r in
        let '(_, s1) := path_node_for (fr_node x) nm s in
        let '(a, s2) := bcall_ (BUnlinkAt (fr_file x) nm) s1 in
        match a with
        | AErr e => (rerr e, s2)
        | _ => (rok 0, mark_child_deleted (fr_node x) nm s2)
        end
    end).

Definition do_rename (c fid dirfid nm : nat) : sstate -> reply * sstate :=
  with_fid c fid (fun r =>
    with_fid c dirfid (fun t s =>
      let x := get_ref s r in
      match fr_parent x with
      | None => (rerr EINVAL, s)
      | Some p =>
          if is_deleted s r || is_deleted s t || negb (is_dir (fr_mode (get_ref s t))) then (rerr EINVAL, s)
          else if is_deleted s p then (rerr EFAULT, set_panic s)
          else
            let pn := fr_node (get_ref s p) in
            match name_for pn r s with
            | None => (rerr EFAULT, set_panic s)
            | Some old =>
                if (pn =? fr_node (get_ref s t)) && (old =? nm) then (rok 0, s)
                else
                  let '(a, s1) := bcall_ (BRenameAt (fr_file (get_ref s p)) old (fr_file (get_ref s t)) nm) s in
                  match a with
                  | AErr e => (rerr e, s1)
                  | _ => let s2 := rename_child_to pn old t nm s1 in (finish_panic (rok 0) s1 s2, s2)
                  end
            end
      end)).

Definition do_renameat (c fid oldnm fid2 newnm : nat) : sstate -> reply * sstate :=
  with_fid c fid (fun r =>
    with_fid c fid2 (fun t s =>
      let x := get_ref s r in
      let y := get_ref s t in
      if is_deleted s r || negb (is_dir (fr_mode x)) || is_deleted s t || negb (is_dir (fr_mode y)) then (rerr EINVAL, s)
      else if fr_opened x then (rerr EINVAL, s)
      else if (fr_node x =? fr_node y) && (oldnm =? newnm) then (rok 0, s)
      else
        let '(a, s1) := bcall_ (BRenameAt (fr_file x) oldnm (fr_file y) newnm) s in
        match a with
        | AErr e => (rerr e, s1)
        | _ => let s2 := rename_child_to (fr_node x) oldnm t newnm s1 in (finish_panic (rok 0) s1 s2, s2)
        end)).

Definition do_xattrwalk (c fid newfid : nat) : sstate -> reply * sstate :=
  with_fid c fid (fun r s =>
    if is_deleted s r then (rerr EINVAL, s)
    else
      let x := get_ref s r in
      let '(a, s1) := bcall_ (BUse uGetXattr (fr_file x)) s in
      match a with
      | AErr e => (rerr e, s1)
      | _ =>
          let '(nr, s2) := new_ref_inc (mkref (fr_file x) 0 false 0 MNone (fr_node x) None (Some r) XWalk) s1 in
          (rok 0, release nr (insert_fid c newfid nr s2))
      end).

Definition do_xattrcreate (c fid : nat) : sstate -> reply * sstate :=
  with_fid c fid (fun r s =>
    if is_deleted s r then (rerr EINVAL, s)
    else (rok 0, set_ref r (fr_with_xop (get_ref s r) XCreate) s)).

(** connState.stop: drop the table reference of every fid of the connection
    (the entry is taken out of the table as its reference is dropped; Go leaves the dead
    connection's map alone, which nothing reads any more) *)
Fixpoint stop_loop (l : list ((nat * nat) * nat)) (c : nat) (s : sstate) : sstate :=
  match l with
  | [] => s
  | ((c', fid), _) :: rest => if c' =? c then stop_loop rest c (snd (delete_fid c' fid s)) else stop_loop rest c s
  end.

Definition do_stop (c : nat) (s : sstate) : reply * sstate := (rok 0, stop_loop (s_fids s) c s).

Definition step (o : op) (s : sstate) : reply * sstate :=
  match o with
  | OAttach c fid names => do_attach c fid names s
  | OWalk c fid newfid names g => do_walk_op c fid newfid names g s
  | OClunk c fid => do_clunk c fid s
  | ORemove c fid => do_remove c fid s
  | OOpen c fid fl => do_open c fid fl s
  | OCreate c fid nm fl => do_create c fid nm fl s
  | OMk k c fid nm => do_mk k c fid nm s
  | OLink c d t nm => do_link c d t nm s
  | OGetAttr c fid => do_getattr c fid s
  | OUse k c fid => do_use k c fid s
  | OIO k c fid => do_io k c fid s
  | OSetAttr c fid => do_setattr c fid s
  | OReaddir c fid => do_readdir c fid s
  | OReadlink c fid => do_readlink c fid s
  | OUnlinkAt c fid nm => do_unlinkat c fid nm s
  | ORename c fid d nm => do_rename c fid d nm s
  | ORenameAt c fid o1 fid2 n2 => do_renameat c fid o1 fid2 n2 s
  | OXattrWalk c fid nf => do_xattrwalk c fid nf s
  | OXattrCreate c fid => do_xattrcreate c fid s
  | OStop c => do_stop c s
  end.

Fixpoint run (ops : list op) (s : sstate) : list reply * sstate :=
  match ops with
  | [] => ([], s)
  | o :: rest => let '(r, s1) := step o s in let '(rs, s2) := run rest s1 in (r :: rs, s2)
  end.

End Server.
