(** Refs/TreeProofs.v — C08_tree_inv: primitives.  [tree_okM s mv] is [tree_ok] generalised to the
    states inside renameChildTo: with [mv = Some (tn, tnm, c, fn, fnm)] the refs already re-registered
    in node tn under name tnm have node c although childNodes tn tnm is still empty (addPathNodeFor
    comes last), and the only childNodes entry that may still point at c is (fn, fnm). *)
From Coq Require Import List Arith Bool ZArith Lia.
From P9V Require Import Refs.Model Refs.RefProofs Refs.RefStep Refs.FenceProofs Refs.TreeInv.
Import ListNotations.

(** ---- association lists keyed by nat ---- *)
Section NatAL.
  Context {V : Type}.
  Implicit Types (l : list (nat * V)).
  Lemma al_aset_eq k v l : alookup Nat.eqb k (aset Nat.eqb k v l) = Some v.
  Proof. induction l as [|[k' v'] l IH]; cbn; [rewrite Nat.eqb_refl; auto|]. destruct (Nat.eqb_spec k k'); cbn; [rewrite Nat.eqb_refl; auto|]. destruct (Nat.eqb_spec k k'); [congruence | auto]. Qed.
  Lemma al_adel_neq k k' l : k' <> k -> alookup Nat.eqb k' (adel Nat.eqb k l) = alookup Nat.eqb k' l.
  Proof.
    intros N. induction l as [|[k0 v0] l IH]; cbn; auto. destruct (Nat.eqb_spec k k0); cbn.
    - subst. destruct (Nat.eqb_spec k' k0); [congruence | auto].
    - destruct (Nat.eqb_spec k' k0); auto.
  Qed.
  Lemma al_adel_eq k l : alookup Nat.eqb k (adel Nat.eqb k l) = None.
  Proof. induction l as [|[k0 v0] l IH]; cbn; auto. destruct (Nat.eqb_spec k k0); cbn; auto. destruct (Nat.eqb_spec k k0); [congruence | auto]. Qed.
  Lemma al_aset_neq k k' v l : k' <> k -> alookup Nat.eqb k' (aset Nat.eqb k v l) = alookup Nat.eqb k' l.
  Proof.
    intros N. induction l as [|[k0 v0] l IH]; cbn.
    - destruct (Nat.eqb_spec k' k); [congruence | auto].
    - destruct (Nat.eqb_spec k k0); cbn.
      + subst. destruct (Nat.eqb_spec k' k0); [congruence|]. apply al_adel_neq; auto.
      + destruct (Nat.eqb_spec k' k0); auto.
  Qed.
End NatAL.

Lemma in_remove_nat x r l : In x (remove_nat r l) <-> In x l /\ x <> r.
Proof.
  induction l as [|y l IH]; cbn; [tauto|]. destruct (Nat.eqb_spec r y); cbn; rewrite IH; intuition congruence.
Qed.
Lemma nodup_remove_nat r l : NoDup l -> NoDup (remove_nat r l).
Proof.
  induction 1 as [|y l Hy _ IH]; cbn; [constructor|]. destruct (Nat.eqb_spec r y); auto. constructor; auto.
  rewrite in_remove_nat. tauto.
Qed.

Lemma nodup_snoc (m : list nat) r : NoDup m -> ~ In r m -> NoDup (m ++ [r]).
Proof.
  induction 1 as [|y m Hy _ IH]; cbn; intros H; [constructor; [intros []|constructor]|].
  constructor; [|apply IH; tauto]. intros X. apply in_app_or in X. destruct X as [X|[X|[]]]; [auto | subst; tauto].
Qed.

Section TP.
Variable B : Type.
Variable bstep : B -> bcall -> B * bans.
Notation st := (sstate B).
Notation gref := (get_ref B).
Notation gnode := (get_node B).
Notation nlen := (nlen B).
Notation rlen := (rlen B).
Notation registered := (registered B).
Notation in_refs := (in_refs B).
Notation child_node := (child_node B).
Notation node_deleted := (node_deleted B).
Notation ref_live := (ref_live B).

(** ---- nodes ---- *)
Lemma gnode_set_same n x (s : st) : n < nlen s -> gnode (set_node B n x s) n = x.
Proof. intros H. unfold get_node, set_node; cbn. apply nth_upd_same; auto. Qed.
Lemma gnode_set_other n m x (s : st) : n <> m -> gnode (set_node B n x s) m = gnode s m.
Proof. intros H. unfold get_node, set_node; cbn. apply nth_upd_other; auto. Qed.
Lemma nlen_set_node n x (s : st) : nlen (set_node B n x s) = nlen s.
Proof. unfold TreeInv.nlen, set_node; cbn. apply upd_length. Qed.

(** ---- the generalised invariant ---- *)
Definition mvt := option (nat * nat * nat * nat * nat).

Definition in_slot (mv : mvt) (n nm : nat) : bool :=
  match mv with Some (tn, tnm, _, _, _) => (n =? tn) && (nm =? tnm) | None => false end.
Definition moved (mv : mvt) (x : nat) : Prop :=
  match mv with Some (_, _, c, _, _) => x = c | None => False end.

Definition node_ok (s : st) (mv : mvt) (n nm x : nat) : Prop :=
  if in_slot mv n nm then moved mv x else child_node s n nm x.

Record tree_okM (s : st) (mv : mvt) (E D : list nat) : Prop := mkTM {
  M_agree : forall n r nm, n < nlen s -> (registered s n r nm <-> in_refs s n nm r);
  M_nodup : forall n nm m, n < nlen s -> alookup Nat.eqb nm (pn_refs (gnode s n)) = Some m -> NoDup m;
  M_reg : forall n r nm, n < nlen s -> registered s n r nm ->
          r < rlen s /\ (In r D \/ ref_live s r) /\
          exists p, fr_parent (gref s r) = Some p /\ p < rlen s /\ fr_node (gref s p) = n /\
                    node_ok s mv n nm (fr_node (gref s r));
  M_live : forall r p, r < rlen s -> ~ In r E -> ref_live s r -> fr_parent (gref s r) = Some p ->
           node_deleted s (fr_node (gref s r)) = false ->
           exists nm, registered s (fr_node (gref s p)) r nm;
  M_child_bound : forall n nm c, n < nlen s -> child_node s n nm c -> c < nlen s;
  M_node_bound : forall r, r < rlen s -> fr_node (gref s r) < nlen s;
  M_parent_bound : forall r p, r < rlen s -> fr_parent (gref s r) = Some p -> p < rlen s;
  M_xattr : forall r o, r < rlen s -> fr_xattrOf (gref s r) = Some o -> fr_parent (gref s r) = None;
  M_inj : forall n nm n' nm' c, n < nlen s -> n' < nlen s -> child_node s n nm c -> child_node s n' nm' c ->
          n = n' /\ nm = nm';
  M_root : forall n nm, n < nlen s -> ~ child_node s n nm 0;
  M_nonempty : 0 < nlen s;
  M_slot : forall tn tnm c fn fnm, mv = Some (tn, tnm, c, fn, fnm) ->
           tn < nlen s /\ c < nlen s /\ c <> 0 /\ alookup Nat.eqb tnm (pn_nodes (gnode s tn)) = None /\
           (forall n nm, n < nlen s -> child_node s n nm c -> n = fn /\ nm = fnm) }.

Lemma tree_ok_M (s : st) : tree_ok B s <-> tree_okM s None [] [].
Proof.
  split.
  - intros [a b c d e f g h i j k]. constructor; auto; [|discriminate].
    intros n r nm Hn H. destruct (c n r nm Hn H) as (H1 & H2 & H3). auto.
  - intros [a b c d e f g h i j k l]. constructor; auto.
    intros n r nm Hn H. destruct (c n r nm Hn H) as (H1 & [[]|H2] & H3). auto.
Qed.

(** ---- frames: nodes untouched; parent / node / xattrOf / liveness of every fidRef unchanged ---- *)
Definition same_tree (s s' : st) : Prop :=
  s_nodes B s' = s_nodes B s /\ rlen s' = rlen s /\
  forall q, fr_parent (gref s' q) = fr_parent (gref s q) /\ fr_node (gref s' q) = fr_node (gref s q) /\
            fr_xattrOf (gref s' q) = fr_xattrOf (gref s q) /\ (ref_live s' q <-> ref_live s q).

Lemma same_tree_refl s : same_tree s s.
Proof. repeat split; auto. Qed.
Lemma same_tree_trans a b c : same_tree a b -> same_tree b c -> same_tree a c.
Proof.
  intros (N1 & L1 & Q1) (N2 & L2 & Q2). split; [congruence|]. split; [congruence|]. intros q.
  destruct (Q1 q) as (A1 & A2 & A3 & A4). destruct (Q2 q) as (B1 & B2 & B3 & B4). repeat split; try congruence; tauto.
Qed.

Lemma M_frame s s' mv E D : same_tree s s' -> tree_okM s mv E D -> tree_okM s' mv E D.
Proof.
  intros (N & L & Q) [a b c d e f g h i j k l].
  assert (GN : forall n, gnode s' n = gnode s n) by (intros; unfold get_node; rewrite N; reflexivity).
  assert (NL : nlen s' = nlen s) by (unfold TreeInv.nlen; rewrite N; reflexivity).
  assert (P : forall q, fr_parent (gref s' q) = fr_parent (gref s q)) by (intros q; apply Q).
  assert (ND : forall q, fr_node (gref s' q) = fr_node (gref s q)) by (intros q; apply Q).
  assert (X : forall q, fr_xattrOf (gref s' q) = fr_xattrOf (gref s q)) by (intros q; apply Q).
  assert (LV : forall q, ref_live s' q <-> ref_live s q) by (intros q; apply Q).
  constructor; unfold registered, in_refs, child_node, node_deleted, node_ok, TreeInv.registered, TreeInv.in_refs,
    TreeInv.child_node, TreeInv.node_deleted in *; rewrite ?NL, ?L.
  - intros n r nm Hn. rewrite !GN. apply a; auto.
  - intros n nm m Hn. rewrite GN. apply b; auto.
  - intros n r nm Hn H. rewrite GN in H. destruct (c n r nm Hn H) as (H1 & H2 & p & H3 & H4 & H5 & H6).
    split; auto. split; [destruct H2; [left; auto | right; apply LV; auto]|]. exists p. rewrite P, !ND, ?GN. repeat split; auto.
    all: try (destruct (in_slot mv n nm); auto; rewrite GN; auto).
  - intros r p Hr HE Lr Hp Hd. rewrite P in Hp. rewrite ND, GN in Hd. apply LV in Lr.
    destruct (d r p Hr HE Lr Hp Hd) as (nm & H). exists nm. rewrite ND, GN. exact H.
  - intros n nm c0 Hn H. rewrite GN in H. eapply e; eauto.
  - intros r Hr. rewrite ND. auto.
  - intros r p Hr Hp. rewrite P in Hp. eapply g; eauto.
  - intros r o Hr Ho. rewrite X in Ho. rewrite P. eapply h; eauto.
  - intros n nm n' nm' c0 Hn Hn' H1 H2. rewrite GN in H1, H2. eapply i; eauto.
  - intros n nm Hn H. rewrite GN in H. eapply j; eauto.
  - exact k.
  - intros tn tnm c0 fn fnm Emv. destruct (l tn tnm c0 fn fnm Emv) as (H1 & H2 & H3 & H4 & H5).
    rewrite GN. split; [exact H1|]. split; [exact H2|]. split; [exact H3|]. split; [exact H4|].
    intros n0 nm0 Hn0 Hc0. rewrite GN in Hc0. apply H5; auto.
Qed.

Lemma M_weaken s mv E E' D D' : incl E E' -> incl D D' -> tree_okM s mv E D -> tree_okM s mv E' D'.
Proof.
  intros I I' [a b c d e f g h i j k l]. constructor; auto.
  intros n r nm Hn H. destruct (c n r nm Hn H) as (H1 & H2 & H3). split; auto. split; auto. destruct H2; auto.
Qed.

(** a registered fidRef is registered in the node of its parent only, and is not in the range of new ids *)
Lemma reg_unique s mv E D n r nm p : tree_okM s mv E D -> n < nlen s -> registered s n r nm ->
  fr_parent (gref s r) = Some p -> fr_node (gref s p) = n.
Proof. intros K Hn H Hp. destruct (M_reg s mv E D K n r nm Hn H) as (_ & _ & p' & Hp' & _ & Hn' & _). congruence. Qed.

(** ---- deletion marks ---- *)
Lemma M_set_deleted s mv E D n : tree_okM s mv E D -> tree_okM (set_node B n (pn_with_deleted (gnode s n)) s) mv E D.
Proof.
  intros K. destruct (Nat.lt_ge_cases n (nlen s)) as [Hn|Hn].
  2:{ unfold set_node. unfold TreeInv.nlen in Hn. rewrite upd_oob by exact Hn. destruct s; exact K. }
  set (s' := set_node B n (pn_with_deleted (gnode s n)) s).
  assert (NL : nlen s' = nlen s) by apply nlen_set_node.
  assert (G : forall m, pn_nodes (gnode s' m) = pn_nodes (gnode s m) /\ pn_refs (gnode s' m) = pn_refs (gnode s m) /\
                       pn_names (gnode s' m) = pn_names (gnode s m) /\ (pn_deleted (gnode s' m) = false -> pn_deleted (gnode s m) = false)).
  { intros m. destruct (Nat.eq_dec n m) as [<-|N].
    - unfold s'. rewrite gnode_set_same by exact Hn. cbn. repeat split; auto. discriminate.
    - unfold s'. rewrite gnode_set_other by exact N. auto. }
  assert (GR : forall q, gref s' q = gref s q) by reflexivity.
  assert (RL : rlen s' = rlen s) by reflexivity.
  destruct K as [a b c d e f g h i j k l].
  constructor; unfold node_ok in *; unfold TreeInv.registered, TreeInv.in_refs, TreeInv.child_node, TreeInv.node_deleted, TreeInv.ref_live in *;
    rewrite ?NL, ?RL.
  - intros m r nm Hm. destruct (G m) as (_ & -> & -> & _). apply a; auto.
  - intros m nm l0 Hm. destruct (G m) as (_ & -> & _). apply b; auto.
  - intros m r nm Hm H. destruct (G m) as (EN & _ & EM & _). rewrite EM in H.
    destruct (c m r nm Hm H) as (H1 & H2 & p & H3 & H4 & H5 & H6). split; [exact H1|]. split; [exact H2|]. exists p.
    split; [exact H3|]. split; [exact H4|]. split; [exact H5|].
    destruct (in_slot mv m nm); [exact H6|]. rewrite EN. exact H6.
  - intros r p Hr HE Lr Hp Hd. destruct (G (fr_node (gref s r))) as (_ & _ & _ & Dd). rewrite GR in *. specialize (Dd Hd).
    destruct (d r p Hr HE Lr Hp Dd) as (nm & H). exists nm. destruct (G (fr_node (gref s p))) as (_ & _ & -> & _). exact H.
  - intros m nm c0 Hm H. destruct (G m) as (EN & _). rewrite EN in H. eapply e; eauto.
  - exact f.
  - exact g.
  - exact h.
  - intros m nm m' nm' c0 Hm Hm' H1 H2. destruct (G m) as (EN & _). destruct (G m') as (EN' & _). rewrite EN in H1. rewrite EN' in H2. eapply i; eauto.
  - intros m nm Hm H. destruct (G m) as (EN & _). rewrite EN in H. eapply j; eauto.
  - exact k.
  - intros tn tnm c0 fn fnm Emv. destruct (l tn tnm c0 fn fnm Emv) as (H1 & H2 & H3 & H4 & H5).
    destruct (G tn) as (EN & _). rewrite EN. split; [exact H1|]. split; [exact H2|]. split; [exact H3|]. split; [exact H4|].
    intros m nm Hm Hc. destruct (G m) as (EM & _). rewrite EM in Hc. apply H5; auto.
Qed.

Lemma M_fold {A} (f : A -> st -> st) mv E D (l : list A) :
  (forall a s, tree_okM s mv E D -> tree_okM (f a s) mv E D) -> forall s, tree_okM s mv E D -> tree_okM (fold_left (fun st a => f a st) l s) mv E D.
Proof. intros H. induction l as [|a l IH]; intros s K; cbn; auto. Qed.

Lemma M_notify_delete fuel mv E D : forall n s, tree_okM s mv E D -> tree_okM (notify_delete B fuel n s) mv E D.
Proof.
  induction fuel as [|f IH]; intros n s K; cbn [notify_delete].
  - eapply M_frame; [|exact K]. repeat split; auto.
  - apply (M_fold (fun c st => notify_delete B f (snd c) st)); [intros a s0; apply IH|]. apply M_set_deleted. exact K.
Qed.

Ltac tm_unfold := unfold node_ok in *; unfold TreeInv.registered, TreeInv.in_refs, TreeInv.child_node, TreeInv.node_deleted, TreeInv.ref_live in *.

(** ---- changes of one fidRef ---- *)
Lemma M_drop_D s mv E D r :
  tree_okM s mv E (r :: D) -> (ref_live s r \/ forall n nm, n < nlen s -> ~ registered s n r nm) -> tree_okM s mv E D.
Proof.
  intros [a b c d e f g h i j k l] H. constructor; auto.
  intros n q nm Hn Hq. destruct (c n q nm Hn Hq) as (H1 & H2 & H3). split; auto. split; auto.
  destruct H2 as [[<-|H2]|H2]; auto. destruct H as [H|H]; auto. exfalso. apply (H n nm Hn Hq).
Qed.

Lemma M_drop_E s mv E D r :
  tree_okM s mv (r :: E) D ->
  (forall p, ref_live s r -> fr_parent (gref s r) = Some p -> node_deleted s (fr_node (gref s r)) = false ->
             exists nm, registered s (fr_node (gref s p)) r nm) ->
  tree_okM s mv E D.
Proof.
  intros [a b c d e f g h i j k l] H. constructor; auto.
  intros q p Hq HE Lq Hp Hd. destruct (Nat.eq_dec r q) as [<-|N]; [apply H; auto|]. apply d; auto. intros [X|X]; auto.
Qed.

(** the count of [r] changes; it is not revived *)
Lemma M_set_refs s mv E D r x' :
  tree_okM s mv E D ->
  fr_parent x' = fr_parent (gref s r) -> fr_node x' = fr_node (gref s r) -> fr_xattrOf x' = fr_xattrOf (gref s r) ->
  ((0 < fr_refs x')%Z -> (0 < fr_refs (gref s r))%Z) ->
  tree_okM (set_ref B r x' s) mv E (r :: D).
Proof.
  intros K EP EN EX EL. destruct (Nat.lt_ge_cases r (rlen s)) as [Hr|Hr].
  2:{ unfold set_ref. unfold TreeInv.rlen in Hr. rewrite upd_oob by exact Hr. destruct s.
      eapply M_weaken; [apply incl_refl | | exact K]. intros q Hq. right. exact Hq. }
  set (s' := set_ref B r x' s).
  assert (RL : rlen s' = rlen s) by (apply len_set_ref).
  assert (GN : forall m, gnode s' m = gnode s m) by reflexivity.
  assert (NL : nlen s' = nlen s) by reflexivity.
  assert (F : forall q, fr_parent (gref s' q) = fr_parent (gref s q) /\ fr_node (gref s' q) = fr_node (gref s q) /\
                       fr_xattrOf (gref s' q) = fr_xattrOf (gref s q) /\
                       ((0 < fr_refs (gref s' q))%Z -> (0 < fr_refs (gref s q))%Z) /\
                       (q <> r -> fr_refs (gref s' q) = fr_refs (gref s q))).
  { intros q. destruct (Nat.eq_dec r q) as [<-|N].
    - unfold s'. rewrite gref_set_same by exact Hr. repeat split; auto. congruence.
    - unfold s'. rewrite gref_set_other by exact N. repeat split; auto. }
  destruct K as [a b c d e f g h i j k l]. constructor; tm_unfold; rewrite ?NL, ?RL; try setoid_rewrite GN; auto.
  - intros n q nm Hn H. destruct (c n q nm Hn H) as (H1 & H2 & p & H3 & H4 & H5 & H6).
    destruct (F q) as (FP & FN & _ & _ & FR). destruct (F p) as (_ & FNp & _).
    split; [exact H1|]. split.
    + destruct (Nat.eq_dec q r) as [->|N]; [left; left; reflexivity|]. destruct H2 as [H2|H2]; [left; right; exact H2|].
      right. rewrite FR by exact N. exact H2.
    + exists p. rewrite FP, FN, FNp. auto.
  - intros q p Hq HE Lq Hp Hd. destruct (F q) as (FP & FN & _ & FL & _). destruct (F p) as (_ & FNp & _).
    rewrite FP in Hp. rewrite FN in Hd. rewrite FNp. apply d; auto.
  - intros q Hq. destruct (F q) as (_ & -> & _). auto.
  - intros q p Hq Hp. destruct (F q) as (FP & _). rewrite FP in Hp. eapply g; eauto.
  - intros q o Hq Ho. destruct (F q) as (FP & _ & FX & _). rewrite FX in Ho. rewrite FP. eapply h; eauto.
Qed.

(** ---- a fidRef leaves the registry of node n ---- *)
Lemma M_unreg_gen s mv E D n r x' :
  tree_okM s mv E D -> n < nlen s ->
  pn_deleted x' = pn_deleted (gnode s n) -> pn_nodes x' = pn_nodes (gnode s n) ->
  pn_names x' = adel Nat.eqb r (pn_names (gnode s n)) ->
  (forall nm' q, (exists m, alookup Nat.eqb nm' (pn_refs x') = Some m /\ In q m) <->
                 (q <> r /\ exists m, alookup Nat.eqb nm' (pn_refs (gnode s n)) = Some m /\ In q m)) ->
  (forall nm' m, alookup Nat.eqb nm' (pn_refs x') = Some m -> NoDup m) ->
  tree_okM (set_node B n x' s) mv (r :: E) D.
Proof.
  intros K Hn ED EN EM ER ND.
  set (s' := set_node B n x' s).
  assert (NL : nlen s' = nlen s) by apply nlen_set_node.
  assert (Gn : gnode s' n = x') by (apply gnode_set_same; exact Hn).
  assert (Go : forall m, m <> n -> gnode s' m = gnode s m) by (intros m Hm; apply gnode_set_other; auto).
  assert (GNd : forall m, pn_nodes (gnode s' m) = pn_nodes (gnode s m)).
  { intros m. destruct (Nat.eq_dec m n) as [->|N]; [rewrite Gn; exact EN | rewrite Go by exact N; reflexivity]. }
  assert (GD : forall m, pn_deleted (gnode s' m) = pn_deleted (gnode s m)).
  { intros m. destruct (Nat.eq_dec m n) as [->|N]; [rewrite Gn; exact ED | rewrite Go by exact N; reflexivity]. }
  assert (GReg : forall m q nm, alookup Nat.eqb q (pn_names (gnode s' m)) = Some nm <->
                               ((m = n -> q <> r) /\ alookup Nat.eqb q (pn_names (gnode s m)) = Some nm)).
  { intros m q nm. destruct (Nat.eq_dec m n) as [->|N].
    - rewrite Gn, EM. destruct (Nat.eq_dec q r) as [->|Nq].
      + rewrite al_adel_eq. split; [discriminate | intros (H & _); exfalso; apply H; auto].
      + rewrite al_adel_neq by exact Nq. tauto.
    - rewrite Go by exact N. tauto. }
  assert (GR : forall q, gref s' q = gref s q) by reflexivity.
  assert (RL : rlen s' = rlen s) by reflexivity.
  destruct K as [a b c d e f g h i j k l]. constructor; tm_unfold; rewrite ?NL, ?RL; try setoid_rewrite GNd; try setoid_rewrite GD; auto.
  - intros m q nm Hm. rewrite GReg. destruct (Nat.eq_dec m n) as [->|N].
    + rewrite Gn, ER. rewrite (a n q nm Hn). split; [intros (H1 & H2); split; auto | intros (H1 & H2); split; auto].
    + rewrite Go by exact N. rewrite (a m q nm Hm). split; [intros (_ & H); exact H | intros H; split; [intros; contradiction | exact H]].
  - intros m nm l0 Hm. destruct (Nat.eq_dec m n) as [->|N]; [rewrite Gn; apply ND | rewrite Go by exact N; apply b; auto].
  - intros m q nm Hm H. apply GReg in H. destruct H as (_ & H). apply c; auto.
  - intros q p Hq HE Lq Hp Hd. assert (Nq : q <> r) by (intros ->; apply HE; left; reflexivity).
    destruct (d q p Hq ltac:(intros X; apply HE; right; exact X) Lq Hp Hd) as (nm & H). exists nm. apply GReg. split; auto.
Qed.

(** removeChild *)
Lemma M_remove_child s mv E D n r :
  tree_okM s mv E D -> n < nlen s -> tree_okM (remove_child B n r s) mv (r :: E) D /\ s_panic B (remove_child B n r s) = s_panic B s.
Proof.
  intros K Hn. unfold remove_child.
  destruct (alookup Nat.eqb r (pn_names (gnode s n))) as [nm|] eqn:ER.
  2:{ split; [|reflexivity]. eapply M_weaken; [| apply incl_refl | exact K]. intros q Hq. right. exact Hq. }
  pose proof (proj1 (M_agree s mv E D K n r nm Hn) ER) as (m & Em & Hin). unfold TreeInv.in_refs in *. rewrite Em.
  split; [|reflexivity].
  pose proof (M_nodup s mv E D K n nm m Hn Em) as NDm.
  apply M_unreg_gen; auto.
  - intros nm' q. cbn [pn_refs pn_with_refs].
    destruct (Nat.eq_dec nm' nm) as [->|Nn].
    + destruct (remove_nat r m) as [|y m'] eqn:Erm.
      * rewrite al_adel_eq. split; [intros (? & X & _); discriminate|]. intros (Nq & m0 & E0 & Hq). rewrite Em in E0. injection E0 as <-.
        assert (In q (remove_nat r m)) by (apply in_remove_nat; auto). rewrite Erm in H. contradiction.
      * rewrite al_aset_eq. rewrite <- Erm. split.
        -- intros (m0 & [= <-] & Hq). apply in_remove_nat in Hq. split; [tauto|]. exists m. tauto.
        -- intros (Nq & m0 & E0 & Hq). rewrite Em in E0. injection E0 as <-. eexists; split; [reflexivity|]. apply in_remove_nat; auto.
    + assert (EQ : alookup Nat.eqb nm' (match remove_nat r m with [] => adel Nat.eqb nm (pn_refs (gnode s n)) | _ :: _ => aset Nat.eqb nm (remove_nat r m) (pn_refs (gnode s n)) end) = alookup Nat.eqb nm' (pn_refs (gnode s n))).
      { destruct (remove_nat r m); [apply al_adel_neq | apply al_aset_neq]; auto. }
      rewrite EQ. split.
      * intros (m0 & E0 & Hq). split; [|eauto]. intros ->.
        assert (R' : registered s n r nm') by (apply (M_agree s mv E D K n r nm' Hn); exists m0; auto).
        unfold TreeInv.registered in R'. congruence.
      * intros (_ & H). exact H.
  - intros nm' m0. cbn [pn_refs pn_with_refs]. destruct (Nat.eq_dec nm' nm) as [->|Nn].
    + destruct (remove_nat r m) as [|y m'] eqn:Erm; [rewrite al_adel_eq; discriminate|]. rewrite al_aset_eq. intros [= <-].
      rewrite <- Erm. apply nodup_remove_nat; auto.
    + assert (EQ : alookup Nat.eqb nm' (match remove_nat r m with [] => adel Nat.eqb nm (pn_refs (gnode s n)) | _ :: _ => aset Nat.eqb nm (remove_nat r m) (pn_refs (gnode s n)) end) = alookup Nat.eqb nm' (pn_refs (gnode s n))).
      { destruct (remove_nat r m); [apply al_adel_neq | apply al_aset_neq]; auto. }
      rewrite EQ. apply (M_nodup s mv E D K n nm' m0 Hn).
Qed.

Lemma remove_child_unreg s mv E D n r nm : tree_okM s mv E D -> n < nlen s -> ~ registered (remove_child B n r s) n r nm.
Proof.
  intros K Hn. unfold remove_child, TreeInv.registered.
  destruct (alookup Nat.eqb r (pn_names (gnode s n))) as [nm0|] eqn:ER.
  - pose proof (proj1 (M_agree s mv E D K n r nm0 Hn) ER) as (m & Em & _). rewrite Em.
    rewrite gnode_set_same by exact Hn. cbn. rewrite al_adel_eq. discriminate.
  - rewrite ER. discriminate.
Qed.

Lemma st_bcall c (s : st) : same_tree s (snd (bcall_ B bstep c s)).
Proof. unfold bcall_. destruct (bstep (s_be B s) c). repeat split; auto. Qed.

(** ---- the DecRef cascade ---- *)
Lemma decref_T fuel : forall r s mv E D,
  tree_okM s mv E D ->
  tree_okM (snd (decref B bstep fuel r s)) mv E D /\ s_panic B (snd (decref B bstep fuel r s)) = s_panic B s.
Proof.
  induction fuel as [|f IH]; intros r s mv E D K; cbn [decref].
  - split; [|reflexivity]. eapply M_frame; [|exact K]. repeat split; auto.
  - set (x := gref s r). set (s1 := set_ref B r (fr_with_refs x (fr_refs x - 1)) s).
    destruct (Z.eqb_spec (fr_refs x - 1) 0) as [Z0|NZ].
    2:{ cbn [snd]. split; [|reflexivity]. eapply M_frame; [|exact K].
        split; [reflexivity|]. split; [apply len_set_ref|]. intros q. unfold TreeInv.ref_live.
        destruct (Nat.eq_dec r q) as [<-|N].
        - destruct (Nat.lt_ge_cases r (length (s_refs B s))) as [L|L].
          + unfold s1. rewrite gref_set_same by exact L. fold x. cbn. repeat split; auto; lia.
          + unfold s1, set_ref. rewrite upd_oob by exact L. destruct s; cbn. repeat split; auto.
        - unfold s1. rewrite gref_set_other by exact N. repeat split; auto. }
    assert (Hr : r < rlen s).
    { destruct (Nat.lt_ge_cases r (rlen s)); auto. unfold x, get_ref in Z0. rewrite nth_overflow in Z0 by exact H. cbn in Z0. lia. }
    assert (K1 : tree_okM s1 mv E (r :: D)).
    { apply M_set_refs; auto. cbn. lia. }
    assert (Dead1 : ~ ref_live s1 r). { unfold TreeInv.ref_live, s1. rewrite gref_set_same by exact Hr. cbn. lia. }
    assert (Reg1 : forall n nm, registered s1 n r nm <-> registered s n r nm) by (intros; reflexivity).
    assert (F1 : fr_parent (gref s1 r) = fr_parent x /\ fr_xattrOf (gref s1 r) = fr_xattrOf x).
    { unfold s1. rewrite gref_set_same by exact Hr. split; reflexivity. }
    (* the Close / the DecRef of the xattr origin *)
    assert (K2 : forall s2,
              s2 = snd (match fr_xattrOf x with
                        | Some o => decref B bstep f o s1
                        | None => let '(a, s2) := bcall_ B bstep (BClose (fr_file x)) s1 in
                                  (match a with AErr e => Some e | _ => None end, s2)
                        end) ->
              (fr_xattrOf x <> None -> fr_parent x = None) /\
              (fr_parent x = None -> tree_okM s2 mv E D) /\
              (forall p, fr_parent x = Some p -> tree_okM s2 mv E (r :: D) /\ fr_parent (gref s2 r) = Some p /\ ~ ref_live s2 r /\ rlen s2 = rlen s) /\
              s_panic B s2 = s_panic B s).
    { intros s2 ->.
      assert (NoReg : fr_parent x = None -> forall n nm, n < nlen s1 -> ~ registered s1 n r nm).
      { intros EP n nm Hn H. destruct (M_reg s mv E D K n r nm Hn H) as (_ & _ & p & Hp & _). fold x in Hp. congruence. }
      destruct (fr_xattrOf x) as [o|] eqn:EX.
      - assert (EP : fr_parent x = None) by (apply (M_xattr s mv E D K r o Hr EX)).
        assert (K1' : tree_okM s1 mv E D) by (apply (M_drop_D s1 mv E D r K1); right; apply NoReg; exact EP).
        destruct (IH o s1 mv E D K1') as (K2 & P2).
        split; [intros _; exact EP|]. split; [intros _; exact K2|]. split; [intros p Hp; congruence | exact P2].
      - pose proof (st_bcall (BClose (fr_file x)) s1) as ST.
        assert (P2 : s_panic B (snd (bcall_ B bstep (BClose (fr_file x)) s1)) = s_panic B s).
        { unfold bcall_. destruct (bstep (s_be B s1) (BClose (fr_file x))). reflexivity. }
        destruct (bcall_ B bstep (BClose (fr_file x)) s1) as [a s2]. cbn [snd] in *.
        split; [intros X; congruence|]. split; [|split; [|exact P2]].
        + intros EP. eapply M_frame; [exact ST|]. apply (M_drop_D s1 mv E D r K1). right. apply NoReg. exact EP.
        + intros p Hp. split; [eapply M_frame; [exact ST | exact K1]|]. destruct ST as (_ & RL & Q). destruct (Q r) as (Q1 & _ & _ & Q4).
          split; [rewrite Q1; destruct F1 as (-> & _); exact Hp|]. split; [rewrite Q4; exact Dead1|]. rewrite RL. apply len_set_ref. }
    destruct (match fr_xattrOf x with Some o => _ | None => _ end) as [e1 s2].
    destruct (K2 s2 eq_refl) as (_ & KN & KS & P2).
    destruct (fr_parent x) as [p|] eqn:EP; cbn [snd]; [|split; [apply KN; reflexivity | exact P2]].
    destruct (KS p eq_refl) as (K3 & EP2 & Dead2 & RL2).
    assert (Hp : p < rlen s2). { rewrite RL2. apply (M_parent_bound s mv E D K r p Hr). exact EP. }
    assert (Hn : fr_node (gref s2 p) < nlen s2) by (apply (M_node_bound s2 mv E (r :: D) K3 p Hp)).
    destruct (M_remove_child s2 mv E (r :: D) (fr_node (gref s2 p)) r K3 Hn) as (K4 & P4).
    set (s3 := remove_child B (fr_node (gref s2 p)) r s2) in *.
    assert (F3 : forall q, gref s3 q = gref s2 q).
    { intros q. unfold s3, remove_child. destruct (alookup _ _ _); [|reflexivity]. destruct (alookup _ _ _); reflexivity. }
    assert (NL3 : nlen s3 = nlen s2).
    { unfold s3, remove_child. destruct (alookup _ _ _); [|reflexivity]. destruct (alookup _ _ _); [apply nlen_set_node | reflexivity]. }
    assert (K5 : tree_okM s3 mv E D).
    { apply (M_drop_E s3 mv E D r).
      - apply (M_drop_D s3 mv (r :: E) D r K4). right. intros n nm Hn3 H.
        assert (n = fr_node (gref s2 p)).
        { pose proof (reg_unique s3 mv (r :: E) (r :: D) n r nm p K4 Hn3 H) as U. rewrite !F3 in U. symmetry. apply U. exact EP2. }
        subst n. revert H. apply (remove_child_unreg s2 mv E (r :: D)); auto.
      - intros p0 L. exfalso. apply Dead2. unfold TreeInv.ref_live in *. rewrite F3 in L. exact L. }
    destruct (IH p s3 mv E D K5) as (K6 & P6). destruct (decref B bstep f p s3) as [e2 s4]. cbn [snd] in *.
    split; [exact K6|]. rewrite P6, P4. exact P2.
Qed.

(** DecRef only ever removes registrations, and touches nothing but registries in the path tree *)
Definition reg_mono (s s' : st) : Prop :=
  nlen s' = nlen s /\
  (forall n q nm, registered s' n q nm -> registered s n q nm) /\
  (forall n, pn_nodes (gnode s' n) = pn_nodes (gnode s n) /\ pn_deleted (gnode s' n) = pn_deleted (gnode s n)).

Lemma reg_mono_refl s : reg_mono s s. Proof. repeat split; auto. Qed.
Lemma reg_mono_trans a b c : reg_mono a b -> reg_mono b c -> reg_mono a c.
Proof.
  intros (L1 & R1 & N1) (L2 & R2 & N2). split; [congruence|]. split; [auto|].
  intros n. destruct (N1 n), (N2 n). split; congruence.
Qed.

Lemma reg_mono_nodes s s' : s_nodes B s' = s_nodes B s -> reg_mono s s'.
Proof. intros E. unfold reg_mono, TreeInv.registered, TreeInv.nlen, get_node. rewrite E. repeat split; auto. Qed.

Lemma reg_mono_remove_child n r s : reg_mono s (remove_child B n r s).
Proof.
  unfold remove_child. destruct (alookup Nat.eqb r (pn_names (gnode s n))) as [nm|] eqn:ER; [|apply reg_mono_refl].
  destruct (alookup Nat.eqb nm (pn_refs (gnode s n))); [|apply reg_mono_nodes; reflexivity].
  destruct (Nat.lt_ge_cases n (nlen s)) as [Hn|Hn].
  2:{ apply reg_mono_nodes. unfold set_node; cbn. unfold TreeInv.nlen in Hn. rewrite upd_oob by exact Hn. reflexivity. }
  split; [apply nlen_set_node|]. split.
  - intros m q nm0. unfold TreeInv.registered. destruct (Nat.eq_dec n m) as [<-|N].
    + rewrite gnode_set_same by exact Hn. cbn. destruct (Nat.eq_dec q r) as [->|Nq]; [rewrite al_adel_eq; discriminate | rewrite al_adel_neq by exact Nq; auto].
    + rewrite gnode_set_other by exact N. auto.
  - intros m. destruct (Nat.eq_dec n m) as [<-|N]; [rewrite gnode_set_same by exact Hn; cbn; auto | rewrite gnode_set_other by exact N; auto].
Qed.

Lemma reg_mono_decref fuel : forall r s, reg_mono s (snd (decref B bstep fuel r s)).
Proof.
  induction fuel as [|f IH]; intros r s; cbn [decref]; [apply reg_mono_nodes; reflexivity|].
  destruct (Z.eqb_spec (fr_refs (gref s r) - 1) 0); [|apply reg_mono_nodes; reflexivity].
  set (s1 := set_ref B r _ s).
  assert (R2 : reg_mono s (snd (match fr_xattrOf (gref s r) with
                             | Some o => decref B bstep f o s1
                             | None => let '(a, s2) := bcall_ B bstep (BClose (fr_file (gref s r))) s1 in
                                       (match a with AErr e => Some e | _ => None end, s2)
                             end))).
  { destruct (fr_xattrOf (gref s r)) as [o|].
    - eapply reg_mono_trans; [apply (reg_mono_nodes s s1); reflexivity | apply IH].
    - unfold bcall_. destruct (bstep (s_be B s1) (BClose (fr_file (gref s r)))) as [b' a]. cbn [snd]. apply reg_mono_nodes. reflexivity. }
  destruct (match fr_xattrOf (gref s r) with Some o => _ | None => _ end) as [e1 s2]. cbn [snd] in R2.
  destruct (fr_parent (gref s r)) as [p|]; cbn [snd]; [|exact R2].
  pose proof (IH p (remove_child B (fr_node (gref s2 p)) r s2)) as R4.
  destruct (decref B bstep f p (remove_child B (fr_node (gref s2 p)) r s2)) as [e2 s4]. cbn [snd] in *.
  eapply reg_mono_trans; [exact R2|]. eapply reg_mono_trans; [apply reg_mono_remove_child | exact R4].
Qed.

(** ---- a new fidRef (not yet registered) ---- *)
Lemma M_new_ref s mv E D x :
  tree_okM s mv E D -> fr_node x < nlen s -> (forall p, fr_parent x = Some p -> p < rlen s) ->
  (forall o, fr_xattrOf x = Some o -> fr_parent x = None) ->
  tree_okM (snd (new_ref B x s)) mv (rlen s :: E) D.
Proof.
  intros K Hn HP HX. destruct (new_ref_facts B x s) as (_ & L1 & Gn & Go & _).
  set (s' := snd (new_ref B x s)) in *. fold (rlen s) in L1, Gn, Go.
  assert (RL : rlen s' = S (rlen s)) by exact L1.
  assert (GN : forall m, gnode s' m = gnode s m) by reflexivity.
  assert (NL : nlen s' = nlen s) by reflexivity.
  destruct K as [a b c d e f g h i j k l]. constructor; tm_unfold; rewrite ?NL, ?RL; try setoid_rewrite GN; auto.
  - intros n q nm Hn0 H. destruct (c n q nm Hn0 H) as (H1 & H2 & p & H3 & H4 & H5 & H6).
    split; [lia|]. rewrite (Go q H1). split; [exact H2|]. exists p. rewrite (Go p H4). repeat split; auto.
  - intros q p Hq HE Lq Hp Hd. assert (Nq : q <> rlen s) by (intros ->; apply HE; left; reflexivity).
    assert (Hq' : q < rlen s) by lia. rewrite (Go q Hq') in *.
    assert (Hp' : p < rlen s) by (eapply g; eauto). rewrite (Go p Hp').
    apply d; auto. intros X; apply HE; right; exact X.
  - intros q Hq. destruct (Nat.eq_dec q (rlen s)) as [->|N]; [rewrite Gn; exact Hn | rewrite Go by lia; apply f; lia].
  - intros q p Hq Hp. destruct (Nat.eq_dec q (rlen s)) as [->|N].
    + rewrite Gn in Hp. cbn in Hp. specialize (HP p Hp). lia.
    + rewrite Go in Hp by lia. assert (p < rlen s) by (eapply g; [|exact Hp]; lia). lia.
  - intros q o Hq Ho. destruct (Nat.eq_dec q (rlen s)) as [->|N].
    + rewrite Gn in *. cbn in *. eapply HX; eauto.
    + rewrite Go in * by lia. eapply h; [|exact Ho]. lia.
Qed.

(** ---- addChild ---- *)
Lemma M_add_child s mv E E' D n r nm p :
  tree_okM s mv E D -> n < nlen s -> r < rlen s -> ref_live s r ->
  fr_parent (gref s r) = Some p -> p < rlen s -> fr_node (gref s p) = n -> node_ok s mv n nm (fr_node (gref s r)) ->
  alookup Nat.eqb r (pn_names (gnode s n)) = None ->
  (forall q, In q E -> q = r \/ In q E') ->
  tree_okM (add_child B n r nm s) mv E' D /\ s_panic B (add_child B n r nm s) = s_panic B s.
Proof.
  intros K Hn Hr Lr EP Hp ENp NOK NReg HE. unfold add_child. rewrite NReg. split; [|reflexivity].
  set (m := match alookup Nat.eqb nm (pn_refs (gnode s n)) with Some m => m | None => [] end).
  set (x' := pn_with_refs (gnode s n) (aset Nat.eqb nm (m ++ [r]) (pn_refs (gnode s n))) (aset Nat.eqb r nm (pn_names (gnode s n)))).
  set (s' := set_node B n x' s).
  assert (NL : nlen s' = nlen s) by apply nlen_set_node.
  assert (Gn : gnode s' n = x') by (apply gnode_set_same; exact Hn).
  assert (Go : forall k, k <> n -> gnode s' k = gnode s k) by (intros k Hk; apply gnode_set_other; auto).
  assert (GNd : forall k, pn_nodes (gnode s' k) = pn_nodes (gnode s k) /\ pn_deleted (gnode s' k) = pn_deleted (gnode s k)).
  { intros k. destruct (Nat.eq_dec k n) as [->|N]; [rewrite Gn; split; reflexivity | rewrite Go by exact N; split; reflexivity]. }
  assert (Rnot : forall nm' l0, alookup Nat.eqb nm' (pn_refs (gnode s n)) = Some l0 -> ~ In r l0).
  { intros nm' l0 El Hin. assert (R' : registered s n r nm') by (apply (M_agree s mv E D K n r nm' Hn); exists l0; auto).
    unfold TreeInv.registered in R'. congruence. }
  assert (Mm : alookup Nat.eqb nm (pn_refs (gnode s n)) = Some m \/ (alookup Nat.eqb nm (pn_refs (gnode s n)) = None /\ m = [])).
  { unfold m. destruct (alookup Nat.eqb nm (pn_refs (gnode s n))); auto. }
  assert (GReg : forall k q nm', alookup Nat.eqb q (pn_names (gnode s' k)) = Some nm' <->
                  ((k = n /\ q = r /\ nm' = nm) \/ ((k <> n \/ q <> r) /\ alookup Nat.eqb q (pn_names (gnode s k)) = Some nm'))).
  { intros k q nm'. destruct (Nat.eq_dec k n) as [->|N].
    - rewrite Gn. unfold x'. cbn [pn_names pn_with_refs]. destruct (Nat.eq_dec q r) as [->|Nq].
      + rewrite al_aset_eq. split; [intros [= <-]; left; auto | intros [(_ & _ & ->)|([X|X] & _)]; [reflexivity | contradiction | contradiction]].
      + rewrite al_aset_neq by exact Nq. split; [intros H; right; auto | intros [(_ & X & _)|(_ & H)]; [contradiction | exact H]].
    - rewrite Go by exact N. split; [intros H; right; auto | intros [(X & _)|(_ & H)]; [contradiction | exact H]]. }
  assert (GR : forall q, gref s' q = gref s q) by reflexivity.
  assert (RL : rlen s' = rlen s) by reflexivity.
  assert (K0 := K). destruct K as [a b c d e f g h i j k l]. constructor; tm_unfold; rewrite ?NL, ?RL; auto.
  - (* agree *)
    intros k0 q nm' Hk. rewrite GReg. destruct (Nat.eq_dec k0 n) as [->|N].
    + rewrite Gn. unfold x'. cbn [pn_refs pn_with_refs]. destruct (Nat.eq_dec nm' nm) as [->|Nn].
      * rewrite al_aset_eq. split.
        -- intros [(_ & -> & _)|([X|X] & H)]; [eexists; split; [reflexivity | apply in_or_app; right; left; reflexivity] | contradiction |].
           apply (a n q nm Hn) in H. destruct H as (l0 & El & Hin). destruct Mm as [Em|(Em & _)]; [|congruence].
           rewrite Em in El. injection El as <-. eexists; split; [reflexivity | apply in_or_app; left; exact Hin].
        -- intros (l0 & [= <-] & Hin). apply in_app_or in Hin. destruct Hin as [Hin|[<-|[]]]; [|left; auto].
           right. destruct Mm as [Em|(_ & Em)]; [|rewrite Em in Hin; contradiction].
           split; [right; intros ->; apply (Rnot nm m Em Hin)|]. apply (a n q nm Hn). exists m. auto.
      * rewrite al_aset_neq by exact Nn. split.
        -- intros [(_ & _ & X)|(_ & H)]; [contradiction | apply (a n q nm' Hn); exact H].
        -- intros H. right. split; [|apply (a n q nm' Hn); exact H]. right. intros ->. destruct H as (l0 & El & Hin). apply (Rnot nm' l0 El Hin).
    + rewrite Go by exact N. split.
      * intros [(X & _)|(_ & H)]; [contradiction | apply (a k0 q nm' Hk); exact H].
      * intros H. right. split; [left; exact N | apply (a k0 q nm' Hk); exact H].
  - (* nodup *)
    intros k0 nm' l0 Hk. destruct (Nat.eq_dec k0 n) as [->|N]; [|rewrite Go by exact N; apply b; auto].
    rewrite Gn. unfold x'. cbn [pn_refs pn_with_refs]. destruct (Nat.eq_dec nm' nm) as [->|Nn]; [|rewrite al_aset_neq by exact Nn; apply b; auto].
    rewrite al_aset_eq. intros [= <-]. destruct Mm as [Em|(_ & ->)]; [|cbn; constructor; [intros []|constructor]].
    apply nodup_snoc; [eapply b; eauto | apply (Rnot nm m Em)].
  - (* reg *)
    intros k0 q nm' Hk H. apply GReg in H. destruct H as [(-> & -> & ->)|(_ & H)].
    + split; [exact Hr|]. split; [right; exact Lr|]. exists p. split; [exact EP|]. split; [exact Hp|]. split; [exact ENp|].
      destruct (in_slot mv n nm); [exact NOK|]. destruct (GNd n) as (-> & _). exact NOK.
    + destruct (c k0 q nm' Hk H) as (H1 & H2 & p0 & H3 & H4 & H5 & H6). split; [exact H1|]. split; [exact H2|]. exists p0.
      split; [exact H3|]. split; [exact H4|]. split; [exact H5|]. destruct (in_slot mv k0 nm'); [exact H6|]. destruct (GNd k0) as (-> & _). exact H6.
  - (* live *)
    intros q p0 Hq HE' Lq Hp0 Hd. destruct (GNd (fr_node (gref s q))) as (_ & DD). rewrite GR in *. rewrite DD in Hd.
    destruct (Nat.eq_dec q r) as [->|Nq].
    + exists nm. apply GReg. left. rewrite EP in Hp0. injection Hp0 as <-. auto.
    + assert (HEq : ~ In q E) by (intros X; destruct (HE q X); auto).
      destruct (d q p0 Hq HEq Lq Hp0 Hd) as (nm' & H). exists nm'. apply GReg. right. auto.
  - intros k0 nm' c0 Hk H. destruct (GNd k0) as (EN & _). rewrite EN in H. eapply e; eauto.
  - intros k0 nm' k1 nm1 c0 Hk Hk1 H1 H2. destruct (GNd k0) as (EN & _). destruct (GNd k1) as (EN1 & _). rewrite EN in H1. rewrite EN1 in H2. eapply i; eauto.
  - intros k0 nm' Hk H. destruct (GNd k0) as (EN & _). rewrite EN in H. eapply j; eauto.
  - intros tn tnm c0 fn fnm Emv. destruct (l tn tnm c0 fn fnm Emv) as (H1 & H2 & H3 & H4 & H5).
    destruct (GNd tn) as (EN & _). rewrite EN. split; [exact H1|]. split; [exact H2|]. split; [exact H3|]. split; [exact H4|].
    intros k0 nm' Hk Hc. destruct (GNd k0) as (EM & _). rewrite EM in Hc. apply H5; auto.
Qed.

(** ---- pathNodeFor ---- *)
Lemma M_path_node_for s E D n nm :
  tree_okM s None E D -> n < nlen s ->
  let r := path_node_for B n nm s in
  tree_okM (snd r) None E D /\ child_node (snd r) n nm (fst r) /\ nlen s <= nlen (snd r) /\
  s_refs B (snd r) = s_refs B s /\ s_panic B (snd r) = s_panic B s /\
  (forall k, k < nlen s -> pn_names (gnode (snd r) k) = pn_names (gnode s k) /\ pn_deleted (gnode (snd r) k) = pn_deleted (gnode s k)).
Proof.
  intros K Hn. cbv zeta. unfold path_node_for.
  destruct (alookup Nat.eqb nm (pn_nodes (gnode s n))) as [c|] eqn:EC; cbn [fst snd].
  - split; [exact K|]. split; [exact EC|]. split; [lia|]. repeat split; auto.
  - set (c := length (s_nodes B s)).
    set (s0 := with_nodes B (s_nodes B s ++ [empty_node]) s).
    set (x' := pn_with_nodes (gnode s n) (aset Nat.eqb nm c (pn_nodes (gnode s n)))).
    set (s' := set_node B n x' s0).
    assert (NL0 : nlen s0 = S (nlen s)). { unfold TreeInv.nlen, s0; cbn. rewrite app_length. cbn. lia. }
    assert (NL : nlen s' = S (nlen s)) by (unfold s'; rewrite nlen_set_node; exact NL0).
    assert (G0 : forall k, k < nlen s -> gnode s0 k = gnode s k).
    { intros k Hk. unfold get_node, s0; cbn. apply app_nth1. exact Hk. }
    assert (G0c : gnode s0 c = empty_node).
    { unfold get_node, s0; cbn. rewrite app_nth2 by (unfold c; lia). unfold c. rewrite Nat.sub_diag. reflexivity. }
    assert (Gn : gnode s' n = x') by (apply gnode_set_same; rewrite NL0; lia).
    assert (Go : forall k, k <> n -> k < nlen s -> gnode s' k = gnode s k).
    { intros k Hk Hk'. unfold s'. rewrite gnode_set_other by auto. apply G0; auto. }
    assert (Gc : gnode s' c = empty_node).
    { unfold s'. rewrite gnode_set_other by (unfold c; fold (nlen s); lia). exact G0c. }
    assert (Cn : forall k nm' y, k < S (nlen s) -> (alookup Nat.eqb nm' (pn_nodes (gnode s' k)) = Some y <->
                 ((k = n /\ nm' = nm /\ y = c) \/ (k < nlen s /\ (k <> n \/ nm' <> nm) /\ alookup Nat.eqb nm' (pn_nodes (gnode s k)) = Some y)))).
    { intros k nm' y Hk. destruct (Nat.eq_dec k n) as [->|N].
      - rewrite Gn. unfold x'. cbn [pn_nodes pn_with_nodes]. destruct (Nat.eq_dec nm' nm) as [->|Nn].
        + rewrite al_aset_eq. split; [intros [= <-]; left; auto | intros [(_ & _ & ->)|(_ & [X|X] & _)]; [reflexivity | contradiction | contradiction]].
        + rewrite al_aset_neq by exact Nn. split; [intros H; right; auto | intros [(_ & X & _)|(_ & _ & H)]; [contradiction | exact H]].
      - destruct (Nat.eq_dec k c) as [->|Nc].
        + rewrite Gc. cbn. split; [discriminate|]. intros [(X & _)|(X & _)]; [contradiction | unfold c in X; fold (nlen s) in X; lia].
        + assert (k < nlen s) by (unfold c in Nc; fold (nlen s) in Nc; lia). rewrite Go by auto.
          split; [intros H0; right; auto | intros [(X & _)|(_ & _ & H0)]; [contradiction | exact H0]]. }
    assert (GRN : forall k, k < S (nlen s) -> (k < nlen s -> pn_refs (gnode s' k) = pn_refs (gnode s k) /\ pn_names (gnode s' k) = pn_names (gnode s k) /\
                                        pn_deleted (gnode s' k) = pn_deleted (gnode s k)) /\
                                       (k = c -> pn_refs (gnode s' k) = [] /\ pn_names (gnode s' k) = [])).
    { intros k Hk. split.
      - intros Hk'. destruct (Nat.eq_dec k n) as [->|N]; [rewrite Gn; unfold x'; cbn; auto | rewrite Go by auto; auto].
      - intros ->. rewrite Gc. cbn. auto. }
    assert (GR : forall q, gref s' q = gref s q) by reflexivity.
    assert (RL : rlen s' = rlen s) by reflexivity.
    assert (NoRefs : forall q, ~ registered s n q nm).
    { intros q H. destruct (M_reg s None E D K n q nm Hn H) as (_ & _ & p & _ & _ & _ & H6). unfold node_ok in H6. cbn in H6.
      unfold TreeInv.child_node in H6. congruence. }
    split; [|split; [apply Cn; [lia | left; auto] | split; [rewrite NL; lia | split; [reflexivity | split; [reflexivity|]]]]].
    2:{ intros k Hk. destruct (GRN k ltac:(lia)) as (G1 & _). destruct (G1 Hk) as (_ & A & Bd). auto. }
    assert (K0 := K). destruct K as [a b c0 d e f g h i j k l]. constructor; tm_unfold; rewrite ?NL, ?RL; auto.
    + intros k0 q nm' Hk. destruct (Nat.eq_dec k0 c) as [->|Nc].
      * destruct (GRN c Hk) as (_ & G2). destruct (G2 eq_refl) as (-> & ->). cbn. split; [discriminate | intros (? & X & _); discriminate].
      * assert (Hk' : k0 < nlen s) by (unfold c in Nc; fold (nlen s) in Nc; lia). destruct (GRN k0 Hk) as (G1 & _). destruct (G1 Hk') as (-> & -> & _). apply a; auto.
    + intros k0 nm' l0 Hk. destruct (Nat.eq_dec k0 c) as [->|Nc].
      * destruct (GRN c Hk) as (_ & G2). destruct (G2 eq_refl) as (-> & _). cbn. discriminate.
      * assert (Hk' : k0 < nlen s) by (unfold c in Nc; fold (nlen s) in Nc; lia). destruct (GRN k0 Hk) as (G1 & _). destruct (G1 Hk') as (-> & _). apply b; auto.
    + intros k0 q nm' Hk H. destruct (Nat.eq_dec k0 c) as [->|Nc].
      * destruct (GRN c Hk) as (_ & G2). destruct (G2 eq_refl) as (_ & E2). rewrite E2 in H. cbn in H. discriminate.
      * assert (Hk' : k0 < nlen s) by (unfold c in Nc; fold (nlen s) in Nc; lia). destruct (GRN k0 Hk) as (G1 & _). destruct (G1 Hk') as (_ & E2 & _).
        rewrite E2 in H. destruct (c0 k0 q nm' Hk' H) as (H1 & H2 & p & H3 & H4 & H5 & H6). split; [exact H1|]. split; [exact H2|]. exists p.
        split; [exact H3|]. split; [exact H4|]. split; [exact H5|]. cbn in *. apply Cn; [lia|]. right. split; [exact Hk'|]. split; [|exact H6].
        destruct (Nat.eq_dec k0 n) as [->|N]; [right; intros ->; apply (NoRefs q H) | left; exact N].
    + intros q p Hq HE0 Lq Hp Hd. assert (Hnq : fr_node (gref s q) < nlen s) by (apply f; auto).
      destruct (GRN (fr_node (gref s q)) ltac:(lia)) as (G1 & _). destruct (G1 Hnq) as (_ & _ & DD). rewrite GR in *. rewrite DD in Hd.
      destruct (d q p Hq HE0 Lq Hp Hd) as (nm' & H). exists nm'.
      assert (Hp' : p < rlen s) by (eapply g; eauto). assert (Hnp : fr_node (gref s p) < nlen s) by (apply f; auto).
      destruct (GRN (fr_node (gref s p)) ltac:(lia)) as (G1p & _). destruct (G1p Hnp) as (_ & -> & _). exact H.
    + intros k0 nm' y Hk H. apply Cn in H; [|exact Hk]. destruct H as [(_ & _ & ->)|(Hk' & _ & H)]; [unfold c; fold (nlen s); lia|]. assert (y < nlen s) by (eapply e; eauto). lia.
    + intros q Hq. rewrite GR. assert (fr_node (gref s q) < nlen s) by (apply f; auto). lia.
    + intros k0 nm0 k1 nm1 y Hk Hk1 H1 H2. apply Cn in H1; [|exact Hk]. apply Cn in H2; [|exact Hk1].
      destruct H1 as [(-> & -> & ->)|(Hk' & _ & H1)]; destruct H2 as [(-> & -> & E2)|(Hk1' & _ & H2)]; auto.
      * assert (c < nlen s) by (eapply e; [exact Hk1' | exact H2]). unfold c in H. fold (nlen s) in H. lia.
      * subst y. assert (c < nlen s) by (eapply e; [exact Hk' | exact H1]). unfold c in H. fold (nlen s) in H. lia.
      * eapply i; eauto.
    + intros k0 nm' Hk H. apply Cn in H; [|exact Hk]. destruct H as [(_ & _ & X)|(Hk' & _ & H)]; [unfold c in X; fold (nlen s) in X; lia | eapply j; eauto].
    + intros; discriminate.
Qed.

(** ---- one iteration of removeWithName's loop: r leaves the registry of n under nm ---- *)
Definition rwn_step (n nm r : nat) (s : st) : st :=
  let pn := gnode s n in
  let cur := match alookup Nat.eqb nm (pn_refs pn) with Some l => l | None => [] end in
  set_node B n (pn_with_refs pn (aset Nat.eqb nm (remove_nat r cur) (pn_refs pn)) (adel Nat.eqb r (pn_names pn))) s.

Lemma M_rwn_step s mv E D n nm r :
  tree_okM s mv E D -> n < nlen s ->
  (registered s n r nm \/ alookup Nat.eqb r (pn_names (gnode s n)) = None) ->
  tree_okM (rwn_step n nm r s) mv (r :: E) D.
Proof.
  intros K Hn HR. unfold rwn_step. cbv zeta.
  set (cur := match alookup Nat.eqb nm (pn_refs (gnode s n)) with Some l => l | None => [] end).
  assert (Other : forall nm' l0, nm' <> nm -> alookup Nat.eqb nm' (pn_refs (gnode s n)) = Some l0 -> ~ In r l0).
  { intros nm' l0 Nn El Hin. assert (R' : registered s n r nm') by (apply (M_agree s mv E D K n r nm' Hn); exists l0; auto).
    unfold TreeInv.registered in *. destruct HR as [HR|HR]; congruence. }
  apply M_unreg_gen; auto.
  - intros nm' q. cbn [pn_refs pn_with_refs]. destruct (Nat.eq_dec nm' nm) as [->|Nn].
    + rewrite al_aset_eq. unfold cur. split.
      * intros (m0 & [= <-] & Hq). apply in_remove_nat in Hq. destruct Hq as (Hq & Nq). split; auto.
        destruct (alookup Nat.eqb nm (pn_refs (gnode s n))) as [l0|]; [eauto | contradiction].
      * intros (Nq & m0 & E0 & Hq). rewrite E0. eexists; split; [reflexivity | apply in_remove_nat; auto].
    + rewrite al_aset_neq by exact Nn. split.
      * intros (m0 & E0 & Hq). split; [intros ->; apply (Other nm' m0 Nn E0 Hq) | eauto].
      * intros (_ & H). exact H.
  - intros nm' m0. cbn [pn_refs pn_with_refs]. destruct (Nat.eq_dec nm' nm) as [->|Nn].
    + rewrite al_aset_eq. intros [= <-]. apply nodup_remove_nat. unfold cur.
      destruct (alookup Nat.eqb nm (pn_refs (gnode s n))) as [l0|] eqn:El; [eapply (M_nodup s mv E D K); eauto | constructor].
    + rewrite al_aset_neq by exact Nn. apply (M_nodup s mv E D K n nm' m0 Hn).
Qed.

(** ---- renameChildTo's callback re-parents an unregistered fidRef ---- *)
Lemma M_reparent s mv E D r tgt :
  tree_okM s mv E D -> In r E -> (forall n nm, n < nlen s -> ~ registered s n r nm) ->
  tgt < rlen s -> fr_xattrOf (gref s r) = None ->
  tree_okM (set_ref B r (fr_with_parent (gref s r) (Some tgt)) s) mv E D.
Proof.
  intros K HE NR Ht EX. destruct (Nat.lt_ge_cases r (rlen s)) as [Hr|Hr].
  2:{ unfold set_ref. unfold TreeInv.rlen in Hr. rewrite upd_oob by exact Hr. destruct s; exact K. }
  set (s' := set_ref B r (fr_with_parent (gref s r) (Some tgt)) s).
  assert (RL : rlen s' = rlen s) by apply len_set_ref.
  assert (GN : forall m, gnode s' m = gnode s m) by reflexivity.
  assert (NL : nlen s' = nlen s) by reflexivity.
  assert (Gr : gref s' r = fr_with_parent (gref s r) (Some tgt)) by (apply gref_set_same; exact Hr).
  assert (Go : forall q, q <> r -> gref s' q = gref s q) by (intros q Hq; apply gref_set_other; auto).
  assert (FN : forall q, fr_node (gref s' q) = fr_node (gref s q) /\ fr_refs (gref s' q) = fr_refs (gref s q) /\ fr_xattrOf (gref s' q) = fr_xattrOf (gref s q)).
  { intros q. destruct (Nat.eq_dec q r) as [->|N]; [rewrite Gr; auto | rewrite Go by exact N; auto]. }
  destruct K as [a b c d e f g h i j k l]. constructor; tm_unfold; rewrite ?NL, ?RL; try setoid_rewrite GN; auto.
  - intros n q nm Hn H. assert (Nq : q <> r) by (intros ->; apply (NR n nm Hn H)).
    destruct (c n q nm Hn H) as (H1 & H2 & p & H3 & H4 & H5 & H6). destruct (FN q) as (FNq & FRq & _). destruct (FN p) as (FNp & _).
    split; [exact H1|]. split; [rewrite FRq; exact H2|]. exists p. rewrite (Go q Nq), FNp. rewrite Go in FNq by exact Nq. auto.
  - intros q p Hq HEq Lq Hp Hd. assert (Nq : q <> r) by (intros ->; contradiction).
    destruct (FN q) as (FNq & FRq & _). destruct (FN p) as (FNp & _). rewrite FRq in Lq. rewrite FNq in Hd. rewrite (Go q Nq) in Hp. rewrite FNp. apply d; auto.
  - intros q Hq. destruct (FN q) as (-> & _). auto.
  - intros q p Hq Hp. destruct (Nat.eq_dec q r) as [->|N]; [rewrite Gr in Hp; cbn in Hp; injection Hp as <-; exact Ht | rewrite Go in Hp by exact N; eapply g; eauto].
  - intros q o Hq Ho. destruct (FN q) as (_ & _ & FX). rewrite FX in Ho. destruct (Nat.eq_dec q r) as [->|N]; [congruence | rewrite Go by exact N; eapply h; eauto].
Qed.

(** ---- the in-flight slot of a rename ---- *)
Lemma M_open_slot s E D tn tnm c fn fnm :
  tree_okM s None E D -> tn < nlen s -> fn < nlen s ->
  alookup Nat.eqb tnm (pn_nodes (gnode s tn)) = None -> child_node s fn fnm c ->
  tree_okM s (Some (tn, tnm, c, fn, fnm)) E D.
Proof.
  intros K Ht Hf Free Hc. assert (K0 := K). destruct K as [a b c0 d e f g h i j k l]. constructor; auto.
  - intros n r nm Hn H. destruct (c0 n r nm Hn H) as (H1 & H2 & p & H3 & H4 & H5 & H6). split; [exact H1|]. split; [exact H2|]. exists p.
    split; [exact H3|]. split; [exact H4|]. split; [exact H5|]. unfold node_ok in *. cbn in *.
    destruct (Nat.eqb_spec n tn) as [->|N]; cbn; [|exact H6]. destruct (Nat.eqb_spec nm tnm) as [->|N2]; cbn; [|exact H6].
    unfold TreeInv.child_node in H6. congruence.
  - intros tn0 tnm0 c1 fn0 fnm0 [= <- <- <- <- <-]. split; [exact Ht|]. split; [eapply e; eauto|]. split.
    + intros ->. apply (j fn fnm Hf Hc).
    + split; [exact Free|]. intros n nm Hn H. apply (i n nm fn fnm c Hn Hf H Hc).
Qed.

(** the childNodes entry (fn, fnm) is removed; no fidRef is registered under it any more *)
Lemma M_detach s mv E D fn fnm :
  tree_okM s mv E D -> fn < nlen s -> (forall r, ~ registered s fn r fnm) -> in_slot mv fn fnm = false ->
  let s' := set_node B fn (pn_with_nodes (gnode s fn) (adel Nat.eqb fnm (pn_nodes (gnode s fn)))) s in
  tree_okM s' mv E D /\ (forall c, child_node s fn fnm c -> forall n nm, n < nlen s -> ~ child_node s' n nm c).
Proof.
  intros K Hf NoR NS. cbv zeta.
  set (x' := pn_with_nodes (gnode s fn) (adel Nat.eqb fnm (pn_nodes (gnode s fn)))). set (s' := set_node B fn x' s).
  assert (NL : nlen s' = nlen s) by apply nlen_set_node.
  assert (Gn : gnode s' fn = x') by (apply gnode_set_same; exact Hf).
  assert (Go : forall k, k <> fn -> gnode s' k = gnode s k) by (intros k Hk; apply gnode_set_other; auto).
  assert (GRN : forall k, pn_refs (gnode s' k) = pn_refs (gnode s k) /\ pn_names (gnode s' k) = pn_names (gnode s k) /\ pn_deleted (gnode s' k) = pn_deleted (gnode s k)).
  { intros k. destruct (Nat.eq_dec k fn) as [->|N]; [rewrite Gn; unfold x'; cbn; auto | rewrite Go by exact N; auto]. }
  assert (Cn : forall k nm y, alookup Nat.eqb nm (pn_nodes (gnode s' k)) = Some y <->
                ((k <> fn \/ nm <> fnm) /\ alookup Nat.eqb nm (pn_nodes (gnode s k)) = Some y)).
  { intros k nm y. destruct (Nat.eq_dec k fn) as [->|N].
    - rewrite Gn. unfold x'. cbn [pn_nodes pn_with_nodes]. destruct (Nat.eq_dec nm fnm) as [->|Nn].
      + rewrite al_adel_eq. split; [discriminate | intros ([X|X] & _); contradiction].
      + rewrite al_adel_neq by exact Nn. split; [intros H; split; auto | intros (_ & H); exact H].
    - rewrite Go by exact N. split; [intros H; split; auto | intros (_ & H); exact H]. }
  assert (GR : forall q, gref s' q = gref s q) by reflexivity.
  assert (RL : rlen s' = rlen s) by reflexivity.
  assert (K0 := K). split.
  2:{ intros c Hc n nm Hn H. apply Cn in H. destruct H as (NE & H).
      destruct (M_inj s mv E D K n nm fn fnm c Hn Hf H Hc) as (-> & ->). destruct NE; contradiction. }
  destruct K as [a b c0 d e f g h i j k l]. constructor; tm_unfold; rewrite ?NL, ?RL; auto.
  - intros k0 q nm Hk. destruct (GRN k0) as (-> & -> & _). apply a; auto.
  - intros k0 nm l0 Hk. destruct (GRN k0) as (-> & _). apply b; auto.
  - intros k0 q nm Hk H. destruct (GRN k0) as (_ & E2 & _). rewrite E2 in H.
    destruct (c0 k0 q nm Hk H) as (H1 & H2 & p & H3 & H4 & H5 & H6). split; [exact H1|]. split; [exact H2|]. exists p.
    split; [exact H3|]. split; [exact H4|]. split; [exact H5|]. destruct (in_slot mv k0 nm) eqn:IS; [exact H6|]. apply Cn. split; [|exact H6].
    destruct (Nat.eq_dec k0 fn) as [->|N]; [right; intros ->; apply (NoR q H) | left; exact N].
  - intros q p Hq HE0 Lq Hp Hd. destruct (GRN (fr_node (gref s q))) as (_ & _ & DD). rewrite GR in *. rewrite DD in Hd.
    destruct (d q p Hq HE0 Lq Hp Hd) as (nm & H). exists nm. destruct (GRN (fr_node (gref s p))) as (_ & -> & _). exact H.
  - intros k0 nm y Hk H. apply Cn in H. destruct H as (_ & H). eapply e; eauto.
  - intros k0 nm0 k1 nm1 y Hk Hk1 H1 H2. apply Cn in H1. apply Cn in H2. destruct H1 as (_ & H1). destruct H2 as (_ & H2). eapply i; eauto.
  - intros k0 nm Hk H. apply Cn in H. destruct H as (_ & H). eapply j; eauto.
  - intros tn tnm c1 fn0 fnm0 Emv. destruct (l tn tnm c1 fn0 fnm0 Emv) as (H1 & H2 & H3 & H4 & H5).
    split; [exact H1|]. split; [exact H2|]. split; [exact H3|]. split.
    + destruct (alookup Nat.eqb tnm (pn_nodes (gnode s' tn))) as [y|] eqn:Ey; auto. apply Cn in Ey. destruct Ey as (_ & Ey). congruence.
    + intros k0 nm Hk Hc. apply Cn in Hc. destruct Hc as (_ & Hc). apply H5; auto.
Qed.

(** addPathNodeFor closes the slot *)
Lemma M_attach s E D tn tnm c fn fnm :
  tree_okM s (Some (tn, tnm, c, fn, fnm)) E D -> (forall n nm, n < nlen s -> ~ child_node s n nm c) ->
  tree_okM (add_path_node_for B tn tnm c s) None E D /\ s_panic B (add_path_node_for B tn tnm c s) = s_panic B s.
Proof.
  intros K Det. destruct (M_slot s _ E D K tn tnm c fn fnm eq_refl) as (Ht & Hc & Nc0 & Free & _).
  unfold add_path_node_for. rewrite Free. split; [|reflexivity].
  set (x' := pn_with_nodes (gnode s tn) (aset Nat.eqb tnm c (pn_nodes (gnode s tn)))). set (s' := set_node B tn x' s).
  assert (NL : nlen s' = nlen s) by apply nlen_set_node.
  assert (Gn : gnode s' tn = x') by (apply gnode_set_same; exact Ht).
  assert (Go : forall k, k <> tn -> gnode s' k = gnode s k) by (intros k Hk; apply gnode_set_other; auto).
  assert (GRN : forall k, pn_refs (gnode s' k) = pn_refs (gnode s k) /\ pn_names (gnode s' k) = pn_names (gnode s k) /\ pn_deleted (gnode s' k) = pn_deleted (gnode s k)).
  { intros k. destruct (Nat.eq_dec k tn) as [->|N]; [rewrite Gn; unfold x'; cbn; auto | rewrite Go by exact N; auto]. }
  assert (Cn : forall k nm y, alookup Nat.eqb nm (pn_nodes (gnode s' k)) = Some y <->
                ((k = tn /\ nm = tnm /\ y = c) \/ ((k <> tn \/ nm <> tnm) /\ alookup Nat.eqb nm (pn_nodes (gnode s k)) = Some y))).
  { intros k nm y. destruct (Nat.eq_dec k tn) as [->|N].
    - rewrite Gn. unfold x'. cbn [pn_nodes pn_with_nodes]. destruct (Nat.eq_dec nm tnm) as [->|Nn].
      + rewrite al_aset_eq. split; [intros [= <-]; left; auto | intros [(_ & _ & ->)|([X|X] & _)]; [reflexivity | contradiction | contradiction]].
      + rewrite al_aset_neq by exact Nn. split; [intros H; right; auto | intros [(_ & X & _)|(_ & H)]; [contradiction | exact H]].
    - rewrite Go by exact N. split; [intros H; right; auto | intros [(X & _)|(_ & H)]; [contradiction | exact H]]. }
  assert (GR : forall q, gref s' q = gref s q) by reflexivity.
  assert (RL : rlen s' = rlen s) by reflexivity.
  destruct K as [a b c0 d e f g h i j k l]. constructor; tm_unfold; rewrite ?NL, ?RL; auto.
  - intros k0 q nm Hk. destruct (GRN k0) as (-> & -> & _). apply a; auto.
  - intros k0 nm l0 Hk. destruct (GRN k0) as (-> & _). apply b; auto.
  - intros k0 q nm Hk H. destruct (GRN k0) as (_ & E2 & _). rewrite E2 in H.
    destruct (c0 k0 q nm Hk H) as (H1 & H2 & p & H3 & H4 & H5 & H6). split; [exact H1|]. split; [exact H2|]. exists p.
    split; [exact H3|]. split; [exact H4|]. split; [exact H5|]. cbn in H6 |- *. apply Cn.
    destruct (Nat.eqb_spec k0 tn) as [->|N]; cbn in H6.
    + destruct (Nat.eqb_spec nm tnm) as [->|N2]; cbn in H6; [left; auto | right; split; [right; exact N2 | exact H6]].
    + right. split; [left; exact N | exact H6].
  - intros q p Hq HE0 Lq Hp Hd. destruct (GRN (fr_node (gref s q))) as (_ & _ & DD). rewrite GR in *. rewrite DD in Hd.
    destruct (d q p Hq HE0 Lq Hp Hd) as (nm & H). exists nm. destruct (GRN (fr_node (gref s p))) as (_ & -> & _). exact H.
  - intros k0 nm y Hk H. apply Cn in H. destruct H as [(_ & _ & ->)|(_ & H)]; [exact Hc | eapply e; eauto].
  - intros k0 nm0 k1 nm1 y Hk Hk1 H1 H2. apply Cn in H1. apply Cn in H2.
    destruct H1 as [(-> & -> & ->)|(_ & H1)]; destruct H2 as [(-> & -> & E2)|(_ & H2)]; auto.
    + exfalso. apply (Det k1 nm1 Hk1 H2).
    + subst y. exfalso. apply (Det k0 nm0 Hk H1).
    + eapply i; eauto.
  - intros k0 nm Hk H. apply Cn in H. destruct H as [(_ & _ & X)|(_ & H)]; [congruence | eapply j; eauto].
  - intros; discriminate.
Qed.

(** ---- markChildDeleted ---- *)
Lemma rwn_step_reg s n nm r k q nm' : n < nlen s ->
  (registered (rwn_step n nm r s) k q nm' <-> (~ (k = n /\ q = r) /\ registered s k q nm')).
Proof.
  intros Hn. unfold rwn_step, TreeInv.registered. cbv zeta. destruct (Nat.eq_dec k n) as [->|N].
  - rewrite gnode_set_same by exact Hn. cbn [pn_names pn_with_refs]. destruct (Nat.eq_dec q r) as [->|Nq].
    + rewrite al_adel_eq. split; [discriminate | intros (X & _); exfalso; apply X; auto].
    + rewrite al_adel_neq by exact Nq. split; [intros H; split; [intros (_ & X); contradiction | exact H] | intros (_ & H); exact H].
  - rewrite gnode_set_other by auto. split; [intros H; split; [intros (X & _); contradiction | exact H] | intros (_ & H); exact H].
Qed.

Lemma rwn_step_shape s n nm r :
  s_refs B (rwn_step n nm r s) = s_refs B s /\ nlen (rwn_step n nm r s) = nlen s /\
  (forall k, pn_nodes (gnode (rwn_step n nm r s) k) = pn_nodes (gnode s k) /\ pn_deleted (gnode (rwn_step n nm r s) k) = pn_deleted (gnode s k)).
Proof.
  unfold rwn_step. cbv zeta. split; [reflexivity|]. split; [apply nlen_set_node|]. intros k.
  destruct (Nat.lt_ge_cases n (nlen s)) as [Hn|Hn].
  - destruct (Nat.eq_dec k n) as [->|N]; [rewrite gnode_set_same by exact Hn; cbn; auto | rewrite gnode_set_other by auto; auto].
  - unfold set_node. unfold TreeInv.nlen in Hn. rewrite upd_oob by exact Hn. destruct s; cbn. auto.
Qed.

Lemma rwn_none_T n nm m : forall held s E,
  tree_okM s None E [] -> n < nlen s -> (forall r, In r m -> registered s n r nm) -> NoDup m ->
  let s' := snd (rwn_loop B n nm None m held s) in
  tree_okM s' None (m ++ E) [] /\ s_refs B s' = s_refs B s /\ nlen s' = nlen s /\
  (forall k, pn_nodes (gnode s' k) = pn_nodes (gnode s k) /\ pn_deleted (gnode s' k) = pn_deleted (gnode s k)) /\
  (forall k q nm', registered s' k q nm' <-> (~ (k = n /\ In q m) /\ registered s k q nm')).
Proof.
  induction m as [|r m IH]; intros held s E K Hn HR ND; cbv zeta; cbn [rwn_loop].
  - cbn. split; [exact K|]. split; [reflexivity|]. split; [reflexivity|]. split; [auto|]. intros k q nm'. tauto.
  - cbv zeta. change (set_node B n _ s) with (rwn_step n nm r s).
    inversion ND as [|? ? Hr NDm]; subst.
    pose proof (M_rwn_step s None E [] n nm r K Hn (or_introl (HR r (or_introl eq_refl)))) as K1.
    destruct (rwn_step_shape s n nm r) as (R1 & NL1 & G1).
    assert (HR1 : forall q, In q m -> registered (rwn_step n nm r s) n q nm).
    { intros q Hq. apply rwn_step_reg; [exact Hn|]. split; [intros (_ & ->); contradiction | apply HR; right; exact Hq]. }
    destruct (IH held (rwn_step n nm r s) (r :: E) K1 ltac:(rewrite NL1; exact Hn) HR1 NDm) as (K2 & R2 & NL2 & G2 & Reg2).
    split.
    { eapply M_weaken; [| apply incl_refl | exact K2]. intros q Hq. apply in_app_or in Hq. cbn.
      destruct Hq as [Hq|[<-|Hq]]; [right; apply in_or_app; left; exact Hq | left; reflexivity | right; apply in_or_app; right; exact Hq]. }
    split; [congruence|]. split; [congruence|]. split.
    + intros k. destruct (G1 k), (G2 k). split; congruence.
    + intros k q nm'. rewrite Reg2, rwn_step_reg by exact Hn. cbn [In]. split.
      * intros (A1 & A2 & A3). split; [intros (-> & [<-|Hq]); [apply A2; auto | apply A1; auto] | exact A3].
      * intros (A1 & A3). split; [intros (-> & Hq); apply A1; auto|]. split; [intros (-> & ->); apply A1; auto | exact A3].
Qed.

Lemma M_drop_all s mv D m : forall E,
  tree_okM s mv (m ++ E) D -> (forall r, In r m -> node_deleted s (fr_node (gref s r)) = true) -> tree_okM s mv E D.
Proof.
  induction m as [|r m IH]; intros E K H; [exact K|]. apply IH; [|intros q Hq; apply H; right; exact Hq].
  apply (M_drop_E s mv (m ++ E) D r K). intros p _ _ Hd. rewrite (H r (or_introl eq_refl)) in Hd. discriminate.
Qed.

Lemma nd_marks_root fuel n (s : st) : n < nlen s -> pn_deleted (gnode (notify_delete B (S fuel) n s) n) = true.
Proof.
  intros Hn. cbn [notify_delete].
  apply (dm_fold B (fun c st => notify_delete B fuel (snd c) st)); [intros a s0; apply dm_notify_delete|].
  unfold ndel. rewrite gnode_set_same by exact Hn. reflexivity.
Qed.

Lemma M_mark_child_deleted s n nm :
  tree_okM s None [] [] -> n < nlen s -> tree_okM (mark_child_deleted B bstep n nm s) None [] [].
Proof.
  intros K Hn. unfold mark_child_deleted, remove_with_name.
  set (m := match alookup Nat.eqb nm (pn_refs (gnode s n)) with Some m => m | None => [] end).
  assert (HRm : forall r, In r m <-> registered s n r nm).
  { intros r. rewrite (M_agree s None [] [] K n r nm Hn). unfold TreeInv.in_refs, m.
    destruct (alookup Nat.eqb nm (pn_refs (gnode s n))) as [l0|]; split.
    - intros H. exists l0. auto.
    - intros (l1 & [= <-] & H). exact H.
    - intros [].
    - intros (l1 & X & _). discriminate. }
  assert (NDm : NoDup m).
  { unfold m. destruct (alookup Nat.eqb nm (pn_refs (gnode s n))) as [l0|] eqn:El; [eapply (M_nodup s None [] [] K); eauto | constructor]. }
  assert (Loop : let s1 := snd (match alookup Nat.eqb nm (pn_refs (gnode s n)) with
                               | Some m0 => rwn_loop B n nm None m0 [] s | None => ([], s) end) in
                 fst (match alookup Nat.eqb nm (pn_refs (gnode s n)) with
                      | Some m0 => rwn_loop B n nm None m0 [] s | None => ([], s) end) = [] /\
                 tree_okM s1 None (m ++ []) [] /\ s_refs B s1 = s_refs B s /\ nlen s1 = nlen s /\
                 (forall k, pn_nodes (gnode s1 k) = pn_nodes (gnode s k) /\ pn_deleted (gnode s1 k) = pn_deleted (gnode s k)) /\
                 (forall k q nm', registered s1 k q nm' <-> (~ (k = n /\ In q m) /\ registered s k q nm'))).
  { cbv zeta. unfold m. destruct (alookup Nat.eqb nm (pn_refs (gnode s n))) as [l0|] eqn:El.
    - split; [apply held_rwn_none'|]. apply (rwn_none_T n nm l0 [] s [] K Hn); [|exact NDm].
      intros r Hr. apply HRm. exact Hr.
    - cbn. split; [reflexivity|]. split; [exact K|]. split; [reflexivity|]. split; [reflexivity|]. split; [auto|]. intros k q nm'. tauto. }
  cbv zeta in Loop.
  destruct (match alookup Nat.eqb nm (pn_refs (gnode s n)) with Some m0 => rwn_loop B n nm None m0 [] s | None => ([], s) end) as [held s1].
  cbn [fst snd] in Loop. destruct Loop as (-> & K1 & R1 & NL1 & G1 & Reg1). cbn [release_all].
  assert (NoR : forall r, ~ registered s1 n r nm).
  { intros r H. apply Reg1 in H. destruct H as (A & H). apply A. split; [reflexivity | apply HRm; exact H]. }
  destruct (M_detach s1 None (m ++ []) [] n nm K1 ltac:(rewrite NL1; exact Hn) NoR eq_refl) as (K2 & _).
  set (s2 := set_node B n (pn_with_nodes (gnode s1 n) (adel Nat.eqb nm (pn_nodes (gnode s1 n)))) s1) in *.
  assert (GR2 : forall q, gref s2 q = gref s q) by (intros q; unfold get_ref; change (s_refs B s2) with (s_refs B s1); rewrite R1; reflexivity).
  destruct (G1 n) as (EN & _). rewrite EN.
  destruct (alookup Nat.eqb nm (pn_nodes (gnode s n))) as [v|] eqn:Ev.
  - assert (Hv : v < nlen s) by (eapply (M_child_bound s None [] [] K); eauto).
    pose proof (M_notify_delete (node_fuel B s2) None (m ++ []) [] v s2 K2) as K3.
    apply (M_drop_all _ None [] m []); [exact K3|].
    intros r Hr. apply HRm in Hr.
    destruct (M_reg s None [] [] K n r nm Hn Hr) as (_ & _ & p & _ & _ & _ & NOK). unfold node_ok in NOK. cbn in NOK.
    unfold TreeInv.child_node in NOK. rewrite Ev in NOK. injection NOK as NOK.
    assert (GR3 : gref (notify_delete B (node_fuel B s2) v s2) r = gref s r).
    { destruct (sc_notify_delete B (node_fuel B s2) v s2) as (_ & _ & R & _). unfold get_ref. rewrite R. apply GR2. }
    unfold TreeInv.node_deleted. rewrite GR3, <- NOK. unfold node_fuel. apply nd_marks_root.
    unfold s2. rewrite nlen_set_node, NL1. exact Hv.
  - (* no node entry: nothing was registered under the name *)
    assert (m = []).
    { destruct m as [|r m']; auto. exfalso. assert (Hr : registered s n r nm) by (apply HRm; left; reflexivity).
      destruct (M_reg s None [] [] K n r nm Hn Hr) as (_ & _ & p & _ & _ & _ & NOK). unfold node_ok in NOK. cbn in NOK.
      unfold TreeInv.child_node in NOK. congruence. }
    rewrite H in K2. exact K2.
Qed.

(** ---- rename: the callback, and notifyNameChange ---- *)
Lemma add_child_reg s n r nm k q nm' : n < nlen s -> q <> r ->
  (registered (add_child B n r nm s) k q nm' <-> registered s k q nm').
Proof.
  intros Hn Nq. unfold add_child, TreeInv.registered. destruct (alookup Nat.eqb r (pn_names (gnode s n))); [tauto|].
  destruct (Nat.eq_dec k n) as [->|N]; [rewrite gnode_set_same by exact Hn; cbn; rewrite al_aset_neq by exact Nq; tauto | rewrite gnode_set_other by auto; tauto].
Qed.

Lemma st_incref_live (s : st) r : (0 < fr_refs (gref s r))%Z -> same_tree s (incref B r s).
Proof.
  intros L. unfold incref. split; [reflexivity|]. split; [apply len_set_ref|]. intros q. unfold TreeInv.ref_live.
  destruct (Nat.eq_dec r q) as [<-|N].
  - destruct (Nat.lt_ge_cases r (length (s_refs B s))) as [Lr|Lr].
    + rewrite gref_set_same by exact Lr. cbn. repeat split; auto; lia.
    + unfold set_ref. rewrite upd_oob by exact Lr. destruct s; cbn. repeat split; auto.
  - rewrite gref_set_other by exact N. repeat split; auto.
Qed.

(** renameChildTo's callback on a fidRef r that has just left the registry of the source directory *)
Lemma rename_cb_T s E tn tnm c fn fnm tgt r p :
  tree_okM s (Some (tn, tnm, c, fn, fnm)) (r :: E) [] ->
  r < rlen s -> (0 < fr_refs (gref s r))%Z -> tgt < rlen s -> (0 < fr_refs (gref s tgt))%Z ->
  fr_node (gref s tgt) = tn -> fr_node (gref s r) = c -> fr_parent (gref s r) = Some p -> fr_xattrOf (gref s r) = None ->
  (forall n nm, n < nlen s -> ~ registered s n r nm) -> ~ In r E ->
  tree_okM (rename_cb B bstep tgt tnm r s) (Some (tn, tnm, c, fn, fnm)) E [].
Proof.
  intros K Lr Lvr Lt Lvt ENt ENr EP EX NR NE. unfold rename_cb. rewrite EP.
  set (mv := Some (tn, tnm, c, fn, fnm)) in *.
  destruct (M_slot s mv (r :: E) [] K tn tnm c fn fnm eq_refl) as (Htn & _).
  set (sA := set_ref B r (fr_with_parent (gref s r) (Some tgt)) s).
  assert (KA : tree_okM sA mv (r :: E) []) by (apply M_reparent; auto; left; reflexivity).
  assert (GA : forall q, fr_node (gref sA q) = fr_node (gref s q) /\ fr_refs (gref sA q) = fr_refs (gref s q)).
  { intros q. unfold sA. destruct (Nat.eq_dec r q) as [<-|N]; [rewrite gref_set_same by exact Lr; auto | rewrite gref_set_other by exact N; auto]. }
  set (s1 := incref B tgt sA).
  assert (K1 : tree_okM s1 mv (r :: E) []).
  { eapply M_frame; [apply st_incref_live; destruct (GA tgt) as (_ & ->); exact Lvt | exact KA]. }
  assert (G1 : forall q, fr_node (gref s1 q) = fr_node (gref s q) /\ ((0 < fr_refs (gref s q))%Z -> (0 < fr_refs (gref s1 q))%Z) /\
                        (q = r -> fr_parent (gref s1 q) = Some tgt)).
  { intros q. destruct (st_incref_live sA tgt ltac:(destruct (GA tgt) as (_ & ->); exact Lvt)) as (_ & _ & Q). destruct (Q q) as (QP & QN & _ & QL).
    destruct (GA q) as (GN & GRf). unfold s1. split; [congruence|]. split.
    - intros L. apply QL. unfold TreeInv.ref_live. rewrite GRf. exact L.
    - intros ->. rewrite QP. unfold sA. rewrite gref_set_same by exact Lr. reflexivity. }
  assert (RL1 : rlen s1 = rlen s).
  { unfold s1, incref, TreeInv.rlen. rewrite len_set_ref. unfold sA. apply len_set_ref. }
  assert (GN1 : forall k, gnode s1 k = gnode s k) by reflexivity.
  destruct (G1 tgt) as (ENt1 & _). destruct (G1 r) as (ENr1 & Lr1 & EPr1).
  destruct (M_add_child s1 mv (r :: E) E [] tn r tnm tgt K1) as (K2 & _).
  - exact Htn.
  - rewrite RL1. exact Lr.
  - apply Lr1. exact Lvr.
  - apply EPr1. reflexivity.
  - rewrite RL1. exact Lt.
  - rewrite ENt1. exact ENt.
  - unfold node_ok, mv, in_slot, moved. rewrite !Nat.eqb_refl. cbn [andb]. rewrite ENr1. exact ENr.
  - rewrite GN1. destruct (alookup Nat.eqb r (pn_names (gnode s tn))) as [nm'|] eqn:X; auto. exfalso. apply (NR tn nm' Htn X).
  - intros q [<-|Hq]; auto.
  - rewrite ENt1, ENt.
    set (s2 := add_child B tn r tnm s1) in *.
    eapply M_frame in K2; [|apply (st_bcall (BRenamed (fr_file (gref s2 r)) (fr_file (gref s2 tgt)) tnm) s2)].
    unfold decref_. apply decref_T. exact K2.
Qed.

(** notifyNameChange only holds live fidRefs and calls the backend: a frame of the tree *)
Lemma renamed_call_T r nm mv E D held (s : st) :
  tree_okM s mv E D -> tree_okM (snd (renamed_call B bstep r nm (held, s))) mv E D.
Proof.
  intros K. unfold renamed_call, try_incref. destruct (Z.leb_spec (fr_refs (gref s r)) 0) as [Le|Gt]; [exact K|]. cbn [snd].
  set (s2 := with_held B (r :: s_held B (incref B r s)) (incref B r s)).
  assert (K2 : tree_okM s2 mv E D).
  { eapply M_frame; [|eapply M_frame; [apply st_incref_live; exact Gt | exact K]]. repeat split; auto. }
  destruct (fr_parent (gref s2 r)); [eapply M_frame; [apply st_bcall | exact K2]|].
  eapply M_frame; [|exact K2]. repeat split; auto.
Qed.

Lemma M_foldp {A} (f : A -> list nat * st -> list nat * st) mv E D (l : list A) :
  (forall a hs, tree_okM (snd hs) mv E D -> tree_okM (snd (f a hs)) mv E D) ->
  forall hs, tree_okM (snd hs) mv E D -> tree_okM (snd (fold_left (fun st a => f a st) l hs)) mv E D.
Proof. intros H. induction l as [|a l IH]; intros hs K; cbn; auto. Qed.

Lemma notify_name_change_T fuel mv E D : forall n hs,
  tree_okM (snd hs) mv E D -> tree_okM (snd (notify_name_change B bstep fuel n hs)) mv E D.
Proof.
  induction fuel as [|f IH]; intros n hs K; cbn [notify_name_change snd].
  - eapply M_frame; [|exact K]. repeat split; auto.
  - cbv zeta.
    apply (M_foldp (fun c st => notify_name_change B bstep f (snd c) st)); [intros a hs0; apply IH|].
    apply (M_foldp (fun e st => fold_left (fun st' r => renamed_call B bstep r (fst e) st') (snd e) st)); [|exact K].
    intros e hs0 K0. apply (M_foldp (fun r st' => renamed_call B bstep r (fst e) st')); [|exact K0].
    intros r [h0 s0] K1. apply renamed_call_T. exact K1.
Qed.
End TP.
