(** Refs/Ranked.v — the parent / xattr-origin links stay well founded across renames.
    [RK s]: some rank strictly decreases along [up] (parent link, or xattr origin for a fidRef without
    parent).  Preserved by every request that creates fidRefs pointing at older ones ([Ordered.grow]),
    and by renameChildTo provided the target's [up]-chain contains none of the moved fidRefs
    ([chain_clear]) - which is what assumption B2 buys (Refs/RankedFs.v for PathFS). *)
From Coq Require Import List Arith Bool ZArith Lia.
From P9V Require Import Refs.Model Refs.RefProofs Refs.RefStep Refs.LifeProofs Refs.LifeStep Refs.ErrPaths Refs.Disconnect Refs.Ordered Refs.FenceProofs Refs.TreeInv Refs.TreeProofs.
From P9V Require Refs.TreeStep.
Import ListNotations.

Section Rk.
Variable B : Type.
Variable bstep : B -> bcall -> B * bans.
Notation st := (sstate B).
Notation gref := (get_ref B).
Notation gnode := (get_node B).
Notation len := (len B).

Definition up (s : st) (r : nat) : option nat :=
  match fr_parent (gref s r) with Some p => Some p | None => fr_xattrOf (gref s r) end.
Fixpoint anc (s : st) (r k : nat) : option nat :=
  match k with 0 => Some r | S k' => match up s r with Some p => anc s p k' | None => None end end.
Definition RK (s : st) : Prop := exists rk : nat -> nat, forall r p, r < len s -> up s r = Some p -> rk p < rk r.
Definition upb (s : st) : Prop := forall r p, r < len s -> up s r = Some p -> p < len s.

Lemma upb_K s : KInv B s None -> upb s.
Proof.
  intros K r p Hr. unfold up. destruct (fr_parent (gref s r)) as [p'|] eqn:E.
  - intros [= <-]. apply (K8 B s None K r p' Hr E).
  - intros E'. pose proof (proj1 (Kx B s None K r p Hr E')). lia.
Qed.

Lemma RK_ranked s : (forall r o, r < len s -> fr_xattrOf (gref s r) = Some o -> fr_parent (gref s r) = None) -> RK s -> ranked B s.
Proof.
  intros TX (rk & H). exists rk. intros r Hr _. split.
  - intros p E. apply (H r p Hr). unfold up. rewrite E. reflexivity.
  - intros o E. apply (H r o Hr). unfold up. rewrite (TX r o Hr E). exact E.
Qed.

Lemma up_pveq s s' q : pveq B s s' -> up s' q = up s q.
Proof. intros (_ & P). unfold up. destruct (P q) as (-> & ->). reflexivity. Qed.

Lemma RK_pveq s s' : pveq B s s' -> RK s -> RK s'.
Proof. intros P (rk & H). exists rk. intros r p Hr. rewrite (up_pveq _ _ _ P). destruct P as (L & _). apply H. lia. Qed.

Lemma RK_grow s s' : upb s -> grow B s s' -> RK s -> RK s'.
Proof.
  intros Ub (L & O & P) (rk & H).
  set (M := S (list_max (map rk (seq 0 (len s))))).
  exists (fun q => if q <? len s then rk q else M + q). intros r p Hr Hu.
  destruct (Nat.ltb_spec r (len s)) as [Lt|Ge].
  - assert (Hu' : up s r = Some p) by (unfold up in *; destruct (O r Lt) as (E1 & E2); rewrite <- E1, <- E2; exact Hu).
    pose proof (Ub r p Lt Hu') as Hp. destruct (Nat.ltb_spec p (len s)); [|lia]. apply (H r p Lt Hu').
  - assert (Hp : p < r).
    { apply (P r p Ge Hr). unfold up in Hu. destruct (fr_parent (gref s' r)); [left; exact Hu | right; exact Hu]. }
    destruct (Nat.ltb_spec p (len s)) as [Lp|Gp]; [|lia].
    pose proof (rk_bound rk (len s) p Lp). unfold M. lia.
Qed.

(** ---- re-parenting ---- *)
Definition upframe (M : list nat) (tgt : nat) (s s' : st) : Prop :=
  len s' = len s /\ forall q, up s' q = up s q \/ (In q M /\ up s' q = Some tgt).

Lemma upframe_refl M tgt s : upframe M tgt s s. Proof. split; auto. Qed.
Lemma upframe_trans M tgt a b c : upframe M tgt a b -> upframe M tgt b c -> upframe M tgt a c.
Proof.
  intros (L1 & P1) (L2 & P2). split; [congruence|]. intros q.
  destruct (P2 q) as [E2|(I2 & E2)]; [|right; auto]. rewrite E2. apply P1.
Qed.
Lemma upframe_pveq M tgt s s' : pveq B s s' -> upframe M tgt s s'.
Proof. intros P. split; [apply P|]. intros q. left. apply up_pveq; auto. Qed.

Lemma upframe_reparent M tgt r s : In r M -> upframe M tgt s (set_ref B r (fr_with_parent (gref s r) (Some tgt)) s).
Proof.
  intros Hr. split; [apply len_set_ref|]. intros q. destruct (Nat.eq_dec r q) as [<-|N].
  - destruct (Nat.lt_ge_cases r (length (s_refs B s))) as [L|L].
    + right. split; auto. unfold up. rewrite gref_set_same by auto. reflexivity.
    + left. unfold set_ref. rewrite upd_oob by auto. destruct s; reflexivity.
  - left. unfold up. rewrite gref_set_other by auto. reflexivity.
Qed.

Definition mem (a : nat) (M : list nat) : bool := existsb (Nat.eqb a) M.
Lemma mem_In a M : mem a M = true <-> In a M.
Proof.
  unfold mem. rewrite existsb_exists. split.
  - intros (x & Hx & E). apply Nat.eqb_eq in E. subst. exact Hx.
  - intros H. exists a. split; auto. apply Nat.eqb_refl.
Qed.
(** some moved fidRef is among the first f+1 members of x's chain *)
Definition hasM (s : st) (M : list nat) (x f : nat) : bool :=
  existsb (fun k => match anc s x k with Some a => mem a M | None => false end) (seq 0 (S f)).
Lemma hasM_true s M x f : hasM s M x f = true <-> exists k a, k <= f /\ anc s x k = Some a /\ In a M.
Proof.
  unfold hasM. rewrite existsb_exists. split.
  - intros (k & Hk & E). apply in_seq in Hk. destruct (anc s x k) as [a|] eqn:Ea; [|discriminate].
    exists k, a. repeat split; auto; [lia | apply mem_In; auto].
  - intros (k & a & Hk & Ea & Ha). exists k. split; [apply in_seq; lia|]. rewrite Ea. apply mem_In; auto.
Qed.

Definition chain_clear (s : st) (M : list nat) (tgt : nat) : Prop := forall k a, anc s tgt k = Some a -> ~ In a M.

Lemma RK_upframe M tgt s s' : upframe M tgt s s' -> chain_clear s M tgt -> RK s -> RK s'.
Proof.
  intros (L & P) CC (rk & H). set (K := S (rk tgt)).
  exists (fun x => rk x + (if hasM s M x (rk x) then K else 0)). intros r p Hr Hu. rewrite L in Hr.
  destruct (P r) as [E|(Hm & E)].
  - rewrite E in Hu. pose proof (H r p Hr Hu) as Lt.
    destruct (hasM s M p (rk p)) eqn:Dp.
    + apply hasM_true in Dp. destruct Dp as (k & a & Hk & Ea & Ha).
      assert (Dr : hasM s M r (rk r) = true).
      { apply hasM_true. exists (S k), a. split; [lia|]. split; auto. cbn [anc]. rewrite Hu. exact Ea. }
      rewrite Dr. lia.
    + destruct (hasM s M r (rk r)); lia.
  - rewrite E in Hu. injection Hu as <-.
    assert (Dr : hasM s M r (rk r) = true) by (apply hasM_true; exists 0, r; split; [lia|]; split; auto).
    assert (Dt : hasM s M tgt (rk tgt) = false).
    { destruct (hasM s M tgt (rk tgt)) eqn:D; auto. apply hasM_true in D. destruct D as (k & a & _ & Ea & Ha). exfalso. apply (CC k a Ea Ha). }
    rewrite Dr, Dt. unfold K. lia.
Qed.

(** ---- renameChildTo re-parents only the fidRefs registered under the moved name ---- *)
Lemma pveq_fold {A} (f : A -> list nat * st -> list nat * st) (l : list A) :
  (forall a hs, pveq B (snd hs) (snd (f a hs))) -> forall hs, pveq B (snd hs) (snd (fold_left (fun st a => f a st) l hs)).
Proof.
  intros H. induction l as [|a l IH]; intros hs; cbn; [apply pveq_refl|].
  eapply pveq_trans; [apply H | apply IH].
Qed.

Lemma pveq_try_incref r s : pveq B s (snd (try_incref B r s)).
Proof. unfold try_incref. destruct (_ <=? _)%Z; [apply pveq_refl | apply pveq_incref]. Qed.

Lemma pveq_renamed_call r nm hs : pveq B (snd hs) (snd (renamed_call B bstep r nm hs)).
Proof.
  destruct hs as [held s]. unfold renamed_call. pose proof (pveq_try_incref r s) as H1.
  destruct (try_incref B r s) as [ok s1]. cbn [snd] in *. destruct ok; [|exact H1]. cbn [snd].
  eapply pveq_trans; [exact H1|]. eapply pveq_trans; [apply pveq_with_held|].
  destruct (fr_parent _); [apply pveq_sc, sc_bcall | apply pveq_sc, sc_set_panic].
Qed.

Lemma pveq_notify fuel : forall n hs, pveq B (snd hs) (snd (notify_name_change B bstep fuel n hs)).
Proof.
  induction fuel as [|f IH]; intros n hs; cbn [notify_name_change]; [cbn; apply pveq_sc, sc_set_oof|].
  eapply pveq_trans.
  - apply (pveq_fold (fun e st => fold_left (fun st' r => renamed_call B bstep r (fst e) st') (snd e) st)).
    intros e hs0. apply (pveq_fold (fun r st' => renamed_call B bstep r (fst e) st')). intros r hs1. apply pveq_renamed_call.
  - apply (pveq_fold (fun c st => notify_name_change B bstep f (snd c) st)). intros c hs0. apply IH.
Qed.

Lemma pveq_release_all l : forall s, pveq B s (release_all B bstep l s).
Proof. induction l as [|r l IH]; intros s; cbn; [apply pveq_refl|]. eapply pveq_trans; [apply pveq_release | apply IH]. Qed.

Lemma up_rename_cb M tgt nm r s : In r M -> upframe M tgt s (rename_cb B bstep tgt nm r s).
Proof.
  intros Hr. unfold rename_cb. destruct (fr_parent (gref s r)) as [p|]; [|apply upframe_pveq, pveq_sc, sc_set_panic].
  cbv zeta. eapply upframe_trans; [apply upframe_reparent; exact Hr|].
  apply upframe_pveq. eapply pveq_trans; [apply pveq_incref|]. eapply pveq_trans; [apply pveq_sc, sc_add_child|].
  eapply pveq_trans; [apply pveq_sc, sc_bcall | apply pveq_decref_].
Qed.

Lemma up_rwn_loop M tgt n nm newnm m : forall held s, incl m M ->
  upframe M tgt s (snd (rwn_loop B n nm (Some (rename_cb B bstep tgt newnm)) m held s)).
Proof.
  induction m as [|r m IH]; intros held s Hi; cbn [rwn_loop]; [apply upframe_refl|]. cbv zeta.
  match goal with |- context [try_incref B r ?s1] =>
    assert (H0 : pveq B s s1) by (apply pveq_sc, sc_set_node); pose proof (pveq_try_incref r s1) as H1; destruct (try_incref B r s1) as [ok s2] end.
  cbn [snd] in H1. pose proof (pveq_trans _ _ _ _ H0 H1) as H2.
  assert (Hm : incl m M) by (intros x Hx; apply Hi; right; exact Hx).
  destruct ok.
  - eapply upframe_trans; [|apply IH; exact Hm]. eapply upframe_trans; [apply upframe_pveq; exact H2|].
    eapply upframe_trans; [apply upframe_pveq, pveq_with_held|]. apply up_rename_cb. apply Hi. left. reflexivity.
  - eapply upframe_trans; [apply upframe_pveq; exact H2 | apply IH; exact Hm].
Qed.

Definition crefs (s : st) (n nm : nat) : list nat :=
  match alookup Nat.eqb nm (pn_refs (gnode s n)) with Some l => l | None => [] end.

Lemma up_remove_with_name tgt n nm newnm s :
  upframe (crefs s n nm) tgt s (snd (remove_with_name B bstep n nm (Some (rename_cb B bstep tgt newnm)) s)).
Proof.
  unfold remove_with_name, crefs.
  destruct (alookup Nat.eqb nm (pn_refs (gnode s n))) as [m|].
  - pose proof (up_rwn_loop m tgt n nm newnm m [] s (incl_refl m)) as H.
    destruct (rwn_loop B n nm (Some (rename_cb B bstep tgt newnm)) m [] s) as [held s1]. cbn [snd] in *.
    eapply upframe_trans; [exact H|]. apply upframe_pveq. eapply pveq_trans; [apply pveq_sc, sc_set_node | apply pveq_release_all].
  - cbn [snd]. apply upframe_pveq. eapply pveq_trans; [apply pveq_sc, sc_set_node | apply pveq_release_all].
Qed.
(** markChildDeleted (tn, tnm) leaves childRefs[n0][nm0] alone when (tn, tnm) <> (n0, nm0) *)
Definition crsame (n0 nm0 : nat) (s s' : st) : Prop :=
  alookup Nat.eqb nm0 (pn_refs (gnode s' n0)) = alookup Nat.eqb nm0 (pn_refs (gnode s n0)).

Lemma crs_set_node n0 nm0 n x s :
  (n = n0 -> alookup Nat.eqb nm0 (pn_refs x) = alookup Nat.eqb nm0 (pn_refs (gnode s n))) -> crsame n0 nm0 s (set_node B n x s).
Proof.
  intros H. unfold crsame. destruct (Nat.eq_dec n n0) as [->|N].
  - destruct (Nat.lt_ge_cases n0 (nlen B s)) as [L|L].
    + rewrite (gnode_set_same B n0 x s L). auto.
    + unfold set_node. unfold TreeInv.nlen in L. rewrite upd_oob by auto. destruct s; reflexivity.
  - rewrite (gnode_set_other B n n0 x s N). reflexivity.
Qed.
Lemma crs_trans n0 nm0 a b c : crsame n0 nm0 a b -> crsame n0 nm0 b c -> crsame n0 nm0 a c.
Proof. unfold crsame. congruence. Qed.

Lemma crs_rwn_none n0 nm0 tn tnm m : (tn, tnm) <> (n0, nm0) -> forall held s, crsame n0 nm0 s (snd (rwn_loop B tn tnm None m held s)).
Proof.
  intros NE. induction m as [|r m IH]; intros held s; cbn [rwn_loop]; [reflexivity|]. cbv zeta.
  eapply crs_trans; [|apply IH]. apply crs_set_node. intros ->. cbn [pn_refs pn_with_refs].
  apply al_aset_neq. intros ->. apply NE. reflexivity.
Qed.

Lemma crs_fold {A} n0 nm0 (f : A -> st -> st) (l : list A) :
  (forall a s, crsame n0 nm0 s (f a s)) -> forall s, crsame n0 nm0 s (fold_left (fun st a => f a st) l s).
Proof. intros H. induction l as [|a l IH]; intros s; cbn; [reflexivity|]. eapply crs_trans; [apply H | apply IH]. Qed.

Lemma crs_notify_delete n0 nm0 fuel : forall n s, crsame n0 nm0 s (notify_delete B fuel n s).
Proof.
  induction fuel as [|f IH]; intros n s; cbn [notify_delete]; [reflexivity|].
  eapply crs_trans; [apply (crs_set_node n0 nm0 n (pn_with_deleted (gnode s n)) s); intros _; reflexivity|].
  apply (crs_fold n0 nm0 (fun c st => notify_delete B f (snd c) st)). intros c s0. apply IH.
Qed.

Lemma crs_mark_child_deleted n0 nm0 tn tnm s : (tn, tnm) <> (n0, nm0) -> crsame n0 nm0 s (mark_child_deleted B bstep tn tnm s).
Proof.
  intros NE. unfold mark_child_deleted, remove_with_name.
  set (lp := match alookup Nat.eqb tnm (pn_refs (gnode s tn)) with Some m => rwn_loop B tn tnm None m [] s | None => ([], s) end).
  assert (H1 : crsame n0 nm0 s (snd lp) /\ fst lp = []).
  { unfold lp. destruct (alookup Nat.eqb tnm (pn_refs (gnode s tn))) as [m|]; [|split; reflexivity].
    split; [apply crs_rwn_none; auto | apply held_rwn_none]. }
  destruct lp as [held s1]. cbn [fst snd] in H1. destruct H1 as (H1 & ->). cbn [release_all].
  assert (H2 : crsame n0 nm0 s (set_node B tn (pn_with_nodes (gnode s1 tn) (adel Nat.eqb tnm (pn_nodes (gnode s1 tn)))) s1)).
  { eapply crs_trans; [exact H1|]. apply crs_set_node. intros _. reflexivity. }
  destruct (alookup Nat.eqb tnm (pn_nodes (gnode s1 tn))); [|exact H2].
  eapply crs_trans; [exact H2 | apply crs_notify_delete].
Qed.

Lemma up_rename_child_to fn old tgt newnm s :
  (fr_node (gref s tgt), newnm) <> (fn, old) ->
  upframe (crefs s fn old) tgt s (rename_child_to B bstep fn old tgt newnm s).
Proof.
  intros NE. unfold rename_child_to. cbv zeta.
  set (s1 := mark_child_deleted B bstep (fr_node (gref s tgt)) newnm s).
  assert (P1 : pveq B s s1) by (apply pveq_sc, sc_mark_child_deleted).
  assert (C1 : crefs s1 fn old = crefs s fn old) by (unfold crefs; pose proof (crs_mark_child_deleted fn old _ _ s NE) as X; unfold crsame in X; fold s1 in X; rewrite X; reflexivity).
  pose proof (up_remove_with_name tgt fn old newnm s1) as H. rewrite C1 in H.
  destruct (remove_with_name B bstep fn old (Some (rename_cb B bstep tgt newnm)) s1) as [orig s2]. cbn [snd] in H.
  pose proof (upframe_trans _ _ _ _ _ (upframe_pveq _ tgt _ _ P1) H) as H2.
  destruct orig as [c|]; [|exact H2].
  set (s3 := add_path_node_for B (fr_node (gref s tgt)) newnm c s2).
  assert (P3 : pveq B s2 s3) by (apply pveq_sc, sc_add_path_node_for).
  destruct (s_panic B s3); [eapply upframe_trans; [exact H2 | apply upframe_pveq; exact P3]|].
  pose proof (pveq_notify (node_fuel B s3) c ([], s3)) as P4. cbn [snd] in P4.
  destruct (notify_name_change B bstep (node_fuel B s3) c ([], s3)) as [held s4]. cbn [snd] in P4.
  eapply upframe_trans; [exact H2|]. apply upframe_pveq. eapply pveq_trans; [exact P3|]. eapply pveq_trans; [exact P4 | apply pveq_release_all].
Qed.
(** ---- the rename requests ---- *)
Definition ans_ok (a : bans) : Prop := forall e, a <> AErr e.

(** (moved-from node, old name, target fidRef, new name, File of the source directory) of the renameChildTo
    a rename request performs if the backend call succeeds; None if a guard refuses it first *)
Definition rparams (s : st) (o : op) : option (nat * nat * nat * nat * nat) :=
  match o with
  | ORename c fid dfid nm =>
      match alookup peqb (c, fid) (s_fids B s), alookup peqb (c, dfid) (s_fids B s) with
      | Some r, Some t =>
          match fr_parent (gref s r) with
          | Some p =>
              if is_deleted B s r || is_deleted B s t || negb (is_dir (fr_mode (gref s t))) then None
              else if is_deleted B s p then None
              else match name_for B (fr_node (gref s p)) r s with
                   | Some old => if (fr_node (gref s p) =? fr_node (gref s t)) && (old =? nm) then None
                                 else Some (fr_node (gref s p), old, t, nm, fr_file (gref s p))
                   | None => None
                   end
          | None => None
          end
      | _, _ => None
      end
  | ORenameAt c fid oldnm fid2 newnm =>
      match alookup peqb (c, fid) (s_fids B s), alookup peqb (c, fid2) (s_fids B s) with
      | Some r, Some t =>
          if is_deleted B s r || negb (is_dir (fr_mode (gref s r))) || is_deleted B s t || negb (is_dir (fr_mode (gref s t))) then None
          else if fr_opened (gref s r) then None
          else if (fr_node (gref s r) =? fr_node (gref s t)) && (oldnm =? newnm) then None
          else Some (fr_node (gref s r), oldnm, t, newnm, fr_file (gref s r))
      | _, _ => None
      end
  | _ => None
  end.

(** what B2 has to deliver, read on the server state before the request: if the backend lets the
    rename happen, none of the fidRefs registered under the moved name is the target or above it *)
Definition rsafe (s : st) (o : op) : Prop :=
  forall fn old t new h1, rparams s o = Some (fn, old, t, new, h1) ->
  ans_ok (snd (bstep (s_be B s) (BRenameAt h1 old (fr_file (gref s t)) new))) ->
  chain_clear s (crefs s fn old) t.

(** states that differ in counts / transient holders only *)
Definition vs (s s' : st) : Prop :=
  s_nodes B s' = s_nodes B s /\ s_be B s' = s_be B s /\ s_fids B s' = s_fids B s /\
  forall q, fr_with_refs (gref s' q) 0 = fr_with_refs (gref s q) 0.
Lemma vs_hold r s : vs s (hold B r s).
Proof.
  split; [reflexivity|]. split; [reflexivity|]. split; [reflexivity|]. intros q.
  pose proof (keeps_set_refs B s r (fr_refs (gref s r) + 1)) as (_&_&_&_&_&H). apply (H q).
Qed.
Lemma vs_trans a b c : vs a b -> vs b c -> vs a c.
Proof. intros (?&?&?&X1) (?&?&?&X2). split; [congruence|]. split; [congruence|]. split; [congruence|]. intros q. rewrite X2. apply X1. Qed.
Lemma vs_field {A} (f : fidref -> A) s s' q : (forall x z, f (fr_with_refs x z) = f x) -> vs s s' -> f (gref s' q) = f (gref s q).
Proof. intros Hf (_&_&_&H). rewrite <- (Hf (gref s' q) 0%Z), <- (Hf (gref s q) 0%Z), H. reflexivity. Qed.
Lemma vs_isdel s s' q : vs s s' -> is_deleted B s' q = is_deleted B s q.
Proof. intros V. unfold is_deleted, get_node. rewrite (vs_field fr_node s s' q) by auto. destruct V as (-> & _). reflexivity. Qed.
Lemma vs_namefor s s' n q : vs s s' -> name_for B n q s' = name_for B n q s.
Proof. intros (N & _). unfold name_for, get_node. rewrite N. reflexivity. Qed.
Lemma vs_up s s' q : vs s s' -> up s' q = up s q.
Proof. intros V. unfold up. rewrite (vs_field fr_parent s s' q), (vs_field fr_xattrOf s s' q); auto. Qed.
Lemma vs_anc s s' k : vs s s' -> forall r, anc s' r k = anc s r k.
Proof. intros V. induction k as [|k IH]; intros r; cbn [anc]; auto. rewrite (vs_up _ _ _ V). destruct (up s r); auto. Qed.
Lemma vs_crefs s s' n nm : vs s s' -> crefs s' n nm = crefs s n nm.
Proof. intros (N & _). unfold crefs, get_node. rewrite N. reflexivity. Qed.

Lemma vs_rparams s s' o : vs s s' -> rparams s' o = rparams s o.
Proof.
  intros V. pose proof V as (_ & _ & F & _). unfold rparams. destruct o; auto; rewrite F.
  - destruct (alookup peqb (c, fid) (s_fids B s)) as [r|]; auto. destruct (alookup peqb (c, dirfid) (s_fids B s)) as [t|]; auto.
    rewrite (vs_field fr_parent s s' r) by auto. destruct (fr_parent (gref s r)) as [p|]; auto.
    rewrite !(vs_isdel _ _ _ V), (vs_field fr_mode s s' t), !(vs_field fr_node s s'), (vs_namefor _ _ _ _ V), (vs_field fr_file s s' p) by auto.
    reflexivity.
  - destruct (alookup peqb (c, fid) (s_fids B s)) as [r|]; auto. destruct (alookup peqb (c, fid2) (s_fids B s)) as [t|]; auto.
    rewrite !(vs_isdel _ _ _ V), !(vs_field fr_mode s s'), !(vs_field fr_node s s'), (vs_field fr_opened s s' r), (vs_field fr_file s s' r) by auto.
    reflexivity.
Qed.

Lemma vs_rsafe s s' o : vs s s' -> rsafe s o -> rsafe s' o.
Proof.
  intros V H fn old t new h1 E A. rewrite (vs_rparams _ _ _ V) in E.
  pose proof V as (_ & Be & _). rewrite Be, (vs_field fr_file s s' t) in A by auto.
  specialize (H fn old t new h1 E A). intros k a Ea. rewrite (vs_anc _ _ _ V) in Ea. rewrite (vs_crefs _ _ _ _ V). apply (H k a Ea).
Qed.

Lemma RK_release r s : RK s -> RK (release B bstep r s).
Proof. apply RK_pveq, pveq_release. Qed.

Lemma RK_with_release {A} (X : A * st) r : RK (snd X) -> RK (snd (let '(rep, s') := X in (rep, release B bstep r s'))).
Proof. destruct X as [a s']. cbn [snd]. apply RK_release. Qed.

Lemma neq_of_same a b c d : (a =? b) && (c =? d) = false -> (b, d) <> (a, c).
Proof. intros H [= -> ->]. rewrite !Nat.eqb_refl in H. discriminate. Qed.

Lemma anc_refs_eq s s' k : s_refs B s' = s_refs B s -> forall r, anc s' r k = anc s r k.
Proof.
  intros E. induction k as [|k IH]; intros r; cbn [anc]; auto.
  assert (U : up s' r = up s r) by (unfold up, get_ref; rewrite E; reflexivity). rewrite U. destruct (up s r); auto.
Qed.

Lemma RK_renamed_state (s2 : st) fn old t new h1 :
  RK s2 -> (fr_node (gref s2 t), new) <> (fn, old) ->
  (ans_ok (snd (bstep (s_be B s2) (BRenameAt h1 old (fr_file (gref s2 t)) new))) -> chain_clear s2 (crefs s2 fn old) t) ->
  RK (snd (let '(a, s1) := bcall_ B bstep (BRenameAt h1 old (fr_file (gref s2 t)) new) s2 in
           match a with
           | AErr e => (rerr e, s1)
           | _ => let s3 := rename_child_to B bstep fn old t new s1 in (finish_panic B (rok 0) s1 s3, s3)
           end)).
Proof.
  intros R NE Safe. unfold bcall_. destruct (bstep (s_be B s2) (BRenameAt h1 old (fr_file (gref s2 t)) new)) as [b' a]. cbn [snd] in Safe.
  set (s1 := mkst B (s_fids B s2) (s_refs B s2) (s_nodes B s2) (s_nexth B s2) (s_held B s2) (BRenameAt h1 old (fr_file (gref s2 t)) new :: s_log B s2) b' (s_panic B s2) (s_oof B s2)).
  assert (R1 : RK s1) by exact R.
  assert (Go : ans_ok a -> RK (rename_child_to B bstep fn old t new s1)).
  { intros A. apply (RK_upframe (crefs s1 fn old) t s1); [apply up_rename_child_to; exact NE | | exact R1].
    intros k a0 Ea. rewrite (anc_refs_eq s2 s1 k eq_refl) in Ea. exact (Safe A k a0 Ea). }
  destruct a as [m ino|e|m ino]; cbn [snd]; [apply Go; intros e; discriminate | exact R1 | apply Go; intros e; discriminate].
Qed.

Lemma RK_rename c fid dfid nm s : RK s -> rsafe s (ORename c fid dfid nm) -> RK (snd (do_rename B bstep c fid dfid nm s)).
Proof.
  intros R Safe. unfold do_rename, with_fid, lookup_fid.
  destruct (alookup peqb (c, fid) (s_fids B s)) as [r|] eqn:E1; [|exact R].
  change (s_fids B (hold B r s)) with (s_fids B s).
  destruct (alookup peqb (c, dfid) (s_fids B s)) as [t|] eqn:E2; [|cbn [snd]; apply RK_release; apply (RK_pveq _ _ (pveq_hold B r s) R)].
  set (s2 := hold B t (hold B r s)).
  assert (V : vs s s2) by (eapply vs_trans; apply vs_hold).
  assert (R2 : RK s2) by (apply (RK_pveq (hold B r s)); [apply pveq_hold | apply (RK_pveq s); [apply pveq_hold | exact R]]).
  pose proof (vs_rsafe _ _ _ V Safe) as Safe2. unfold rsafe, rparams in Safe2.
  change (s_fids B s2) with (s_fids B s) in Safe2. rewrite E1, E2 in Safe2.
  apply RK_with_release. apply RK_with_release.
  cbv zeta. destruct (fr_parent (gref s2 r)) as [p|] eqn:EP; [|exact R2].
  destruct (is_deleted B s2 r || is_deleted B s2 t || negb (is_dir (fr_mode (gref s2 t)))) eqn:G1; [exact R2|].
  destruct (is_deleted B s2 p) eqn:G2; [exact R2|].
  destruct (name_for B (fr_node (gref s2 p)) r s2) as [old|] eqn:EN; [|exact R2].
  destruct ((fr_node (gref s2 p) =? fr_node (gref s2 t)) && (old =? nm)) eqn:G3; [exact R2|].
  apply RK_renamed_state; [exact R2 | apply neq_of_same; exact G3|]. intros A. apply (Safe2 _ _ _ _ _ eq_refl A).
Qed.

Lemma RK_renameat c fid oldnm fid2 newnm s : RK s -> rsafe s (ORenameAt c fid oldnm fid2 newnm) -> RK (snd (do_renameat B bstep c fid oldnm fid2 newnm s)).
Proof.
  intros R Safe. unfold do_renameat, with_fid, lookup_fid.
  destruct (alookup peqb (c, fid) (s_fids B s)) as [r|] eqn:E1; [|exact R].
  change (s_fids B (hold B r s)) with (s_fids B s).
  destruct (alookup peqb (c, fid2) (s_fids B s)) as [t|] eqn:E2; [|cbn [snd]; apply RK_release; apply (RK_pveq _ _ (pveq_hold B r s) R)].
  set (s2 := hold B t (hold B r s)).
  assert (V : vs s s2) by (eapply vs_trans; apply vs_hold).
  assert (R2 : RK s2) by (apply (RK_pveq (hold B r s)); [apply pveq_hold | apply (RK_pveq s); [apply pveq_hold | exact R]]).
  pose proof (vs_rsafe _ _ _ V Safe) as Safe2. unfold rsafe, rparams in Safe2.
  change (s_fids B s2) with (s_fids B s) in Safe2. rewrite E1, E2 in Safe2.
  apply RK_with_release. apply RK_with_release.
  cbv zeta.
  destruct (is_deleted B s2 r || negb (is_dir (fr_mode (gref s2 r))) || is_deleted B s2 t || negb (is_dir (fr_mode (gref s2 t)))) eqn:G1; [exact R2|].
  destruct (fr_opened (gref s2 r)) eqn:G2; [exact R2|].
  destruct ((fr_node (gref s2 r) =? fr_node (gref s2 t)) && (oldnm =? newnm)) eqn:G3; [exact R2|].
  apply RK_renamed_state; [exact R2 | apply neq_of_same; exact G3|]. intros A. apply (Safe2 _ _ _ _ _ eq_refl A).
Qed.

(** ---- histories ---- *)
Theorem step_RK o s : RefInv B s -> KInv B s None -> RK s -> rsafe s o -> RK (snd (step B bstep o s)).
Proof.
  intros I K R Safe.
  assert (NR : no_rename o -> RK (snd (step B bstep o s))).
  { intros N. apply (RK_grow s); [apply upb_K; exact K | | exact R].
    apply step_grow; [exact N | apply fid_bound_inv; exact I | intros r p Hr Hp; apply (K8 B s None K r p Hr Hp)]. }
  destruct o; try (apply NR; exact Logic.I); cbn [step]; [apply RK_rename | apply RK_renameat]; auto.
Qed.

(** [rsafe] before every request of the history *)
Definition rsafe_history (ops : list op) (s0 : st) : Prop :=
  forall pre o post, ops = pre ++ o :: post -> rsafe (snd (run B bstep pre s0)) o.

Theorem RK_history ops (b : B) : rsafe_history ops (init_state B b) -> RK (snd (run B bstep ops (init_state B b))).
Proof.
  induction ops as [|x l IH] using rev_ind; intros Safe.
  - exists (fun _ => 0). intros r p Hr. cbn in Hr. lia.
  - rewrite (run_app B bstep l [x]).
    assert (Safe' : rsafe_history l (init_state B b)).
    { intros pre o post E. apply (Safe pre o (post ++ [x])). rewrite E, <- app_assoc. reflexivity. }
    specialize (IH Safe'). destruct (history_life B bstep l b) as (I & K & _ & _).
    pose proof (step_RK x _ I K IH (Safe l x [] eq_refl)) as R.
    cbn [run]. destruct (step B bstep x (snd (run B bstep l (init_state B b)))) as [rep s1]. exact R.
Qed.

Lemma app_split {A} (l1 : list A) : forall l2 pre o post,
  l1 ++ l2 = pre ++ o :: post -> (exists post', l1 = pre ++ o :: post') \/ In o l2.
Proof.
  induction l1 as [|a l1 IH]; intros l2 pre o post E; cbn [app] in E.
  - right. rewrite E. apply in_elt.
  - destruct pre as [|a' pre]; cbn [app] in E.
    + injection E as -> E. left. exists l1. reflexivity.
    + injection E as -> E. destruct (IH l2 pre o post E) as [(post' & ->)|X]; [left; exists post'; reflexivity | right; exact X].
Qed.

(** C05_disconnect for every history and backend whose renames are [rsafe] *)
Theorem disconnect_rsafe ops (b : B) cs :
  rsafe_history ops (init_state B b) ->
  let s0 := snd (run B bstep ops (init_state B b)) in
  let s := snd (run B bstep (map OStop cs) s0) in
  (forall k, In k (fkeys B s0) -> In (fst k) cs) ->
  s_fids B s = [] /\
  (s_panic B s = false -> forall h, h < s_nexth B s -> close_count h (s_log B s) = 1).
Proof.
  intros Safe. cbv zeta. intros Cover.
  destruct (disconnect_closes_all B bstep ops b cs Cover) as (E & H). split; [exact E|]. intros Hp. apply H; auto.
  rewrite <- run_app in *.
  assert (Safe2 : rsafe_history (ops ++ map OStop cs) (init_state B b)).
  { intros pre o post Eq. destruct (app_split _ _ _ _ _ Eq) as [(post' & ->)|X]; [apply (Safe pre o post' eq_refl)|].
    apply in_map_iff in X. destruct X as (c & <- & _). intros fn old t new h1 Ep. discriminate. }
  destruct (history_life B bstep (ops ++ map OStop cs) b) as (I & K & _ & _).
  apply RK_ranked; [|apply RK_history; exact Safe2].
  intros r o Hr Ex.
  (* an xattr fidRef has no parent: tree invariant *)
  exact (T_xattr B _ (TreeStep.tree_inv_history B bstep (ops ++ map OStop cs) b) r o Hr Ex).
Qed.
End Rk.
