(** Refs/CoherentTree.v — name-labelled trees given by a partial child function
    [ch : id -> name -> option id] (used twice: the server's path nodes with
    childNodes, and PathFS's inodes with its entries): walking a path, the
    unique-parent condition, and how the three surgeries of the server
    (add a leaf, delete an entry, move an entry) change what paths reach.
    (pathB; C08_coherent / C08_notified.) *)
From Coq Require Import List Arith Bool Lia.
Import ListNotations.

(** ---- prefixes ---- *)
Definition prefix (a p : list nat) : Prop := exists s, p = a ++ s.

Lemma prefix_refl a : prefix a a. Proof. exists []. rewrite app_nil_r. reflexivity. Qed.
Lemma prefix_app a s : prefix a (a ++ s). Proof. exists s. reflexivity. Qed.
Lemma prefix_snoc_inv a p x : prefix a (p ++ [x]) -> prefix a p \/ a = p ++ [x].
Proof.
  intros (s & E). destruct s as [|y s'] using rev_ind.
  - right. rewrite app_nil_r in E. auto.
  - left. rewrite app_assoc in E. apply app_inj_tail in E. destruct E as (E & _). exists s'. exact E.
Qed.

Lemma prefix_trans a b c : prefix a b -> prefix b c -> prefix a c.
Proof. intros (s & ->) (t & ->). exists (s ++ t). rewrite app_assoc. reflexivity. Qed.

Lemma prefix_length a p : prefix a p -> length a <= length p.
Proof. intros (s & ->). rewrite app_length. lia. Qed.

Lemma not_prefix_snoc a p x : ~ prefix a (p ++ [x]) -> ~ prefix a p.
Proof. intros H (s & ->). apply H. exists (s ++ [x]). rewrite app_assoc. reflexivity. Qed.

Lemma app_self_nil {A} (a s : list A) : a = a ++ s -> s = [].
Proof. intros E. rewrite <- (app_nil_r a) in E at 1. apply app_inv_head in E. auto. Qed.

Section LTree.
Variable ch : nat -> nat -> option nat.

Fixpoint walk (cur : nat) (p : list nat) : option nat :=
  match p with
  | [] => Some cur
  | nm :: rest => match ch cur nm with Some c => walk c rest | None => None end
  end.

Lemma walk_app cur a b : walk cur (a ++ b) = match walk cur a with Some m => walk m b | None => None end.
Proof. revert cur; induction a as [|x a IH]; intros cur; cbn; auto. destruct (ch cur x); auto. Qed.

Lemma walk_snoc cur a x : walk cur (a ++ [x]) = match walk cur a with Some m => ch m x | None => None end.
Proof. rewrite walk_app. destruct (walk cur a); auto. cbn. destruct (ch n x); auto. Qed.

Lemma walk_prefix_some cur a b i : walk cur (a ++ b) = Some i -> exists m, walk cur a = Some m /\ walk m b = Some i.
Proof. rewrite walk_app. destruct (walk cur a) as [m|]; [eauto | discriminate]. Qed.

(** every node has at most one (parent, name); the root is nobody's child *)
Definition uparent : Prop := forall n nm n' nm' c, ch n nm = Some c -> ch n' nm' = Some c -> n = n' /\ nm = nm'.
Definition noroot (root : nat) : Prop := forall n nm, ch n nm <> Some root.

Lemma walk_inj root : uparent -> noroot root ->
  forall p p' i, walk root p = Some i -> walk root p' = Some i -> p = p'.
Proof.
  intros U R p. induction p as [|x p IH] using rev_ind; intros p' i H H'.
  - cbn in H. injection H as <-. destruct p' as [|y p'] using rev_ind; auto.
    rewrite walk_snoc in H'. destruct (walk root p'); [|discriminate]. exfalso. eapply R; eauto.
  - destruct p' as [|y p'] using rev_ind.
    + cbn in H'. injection H' as <-. rewrite walk_snoc in H. destruct (walk root p); [|discriminate]. exfalso. eapply R; eauto.
    + clear IHp'. rewrite walk_snoc in H, H'.
      destruct (walk root p) as [m|] eqn:E; [|discriminate]. destruct (walk root p') as [m'|] eqn:E'; [|discriminate].
      destruct (U _ _ _ _ _ H H') as (-> & ->). f_equal. eapply IH; eauto.
Qed.

(** the nodes met along a path (the start excluded) *)
Fixpoint trace (cur : nat) (p : list nat) : list nat :=
  match p with
  | [] => []
  | nm :: rest => match ch cur nm with Some c => c :: trace c rest | None => [] end
  end.

Lemma trace_length cur p i : walk cur p = Some i -> length (trace cur p) = length p.
Proof. revert cur; induction p as [|x p IH]; intros cur; cbn; auto. destruct (ch cur x); [|discriminate]. intros H. cbn. f_equal. auto. Qed.

Lemma trace_in cur p c : In c (trace cur p) -> exists a b m x, p = a ++ x :: b /\ walk cur a = Some m /\ ch m x = Some c.
Proof.
  revert cur; induction p as [|y p IH]; intros cur; cbn; [tauto|].
  destruct (ch cur y) as [c1|] eqn:E; [|cbn; tauto]. intros [<-|H].
  - exists [], p, cur, y. auto.
  - destruct (IH _ H) as (a & b & m & x & -> & W & C). exists (y :: a), b, m, x. cbn. rewrite E. auto.
Qed.

Lemma NoDup_snoc {A} (l : list A) c : NoDup l -> ~ In c l -> NoDup (l ++ [c]).
Proof.
  induction l as [|y l IH]; cbn; intros N H; [constructor; [tauto | constructor]|].
  inversion N; subst. constructor.
  - rewrite in_app_iff. cbn. intros [X|[X|[]]]; [tauto | subst; tauto].
  - apply IH; tauto.
Qed.

Lemma trace_snoc cur q j y c : walk cur q = Some j -> ch j y = Some c -> trace cur (q ++ [y]) = trace cur q ++ [c].
Proof.
  revert cur; induction q as [|z q IHq]; intros cur Hq Hc; cbn in *.
  - injection Hq as ->. rewrite Hc. reflexivity.
  - destruct (ch cur z); [|discriminate]. cbn. f_equal. eapply IHq; eauto.
Qed.

Lemma trace_nodup root p i : uparent -> noroot root -> walk root p = Some i -> NoDup (root :: trace root p).
Proof.
  intros U R. revert i. induction p as [|x p IH] using rev_ind; intros i H; [constructor; [tauto | constructor]|].
  rewrite walk_snoc in H. destruct (walk root p) as [m|] eqn:E; [|discriminate].
  rewrite (trace_snoc _ _ _ _ _ E H). specialize (IH _ eq_refl).
  change (root :: trace root p ++ [i]) with ((root :: trace root p) ++ [i]). apply NoDup_snoc; auto.
  intros [X|X]; [subst; eapply R; eauto|].
  destruct (trace_in _ _ _ X) as (a & b & m' & y & Ep & W & C).
  assert (W1 : walk root (a ++ [y]) = Some i) by (rewrite walk_snoc, W; exact C).
  assert (W2 : walk root (p ++ [x]) = Some i) by (rewrite walk_snoc, E; exact H).
  pose proof (walk_inj root U R _ _ _ W1 W2) as EQ. subst p.
  apply (f_equal (@length nat)) in EQ. rewrite !app_length in EQ. cbn in EQ. lia.
Qed.

Lemma trace_bound cur p N : (forall n nm c, ch n nm = Some c -> c < N) -> forall c, In c (trace cur p) -> c < N.
Proof.
  intros Hb. revert cur; induction p as [|x p IH]; intros cur c; cbn; [tauto|].
  destruct (ch cur x) eqn:E; cbn; [|tauto]. intros [<-|H]; eauto.
Qed.

Lemma nodup_bound_length (l : list nat) N : NoDup l -> (forall c, In c l -> c < N) -> length l <= N.
Proof.
  intros ND Hb. rewrite <- (seq_length N 0). apply NoDup_incl_length; auto.
  intros c Hc. apply in_seq. specialize (Hb c Hc). lia.
Qed.

(** a path that resolves is shorter than the number of ids *)
Lemma walk_length_bound root p i N : uparent -> noroot root -> root < N ->
  (forall n nm c, ch n nm = Some c -> c < N) -> walk root p = Some i -> length p < N.
Proof.
  intros U R Hr Hb W. pose proof (trace_nodup root p i U R W) as ND.
  assert (L : length (root :: trace root p) <= N).
  { apply nodup_bound_length; auto. intros c [<-|Hc]; auto. eapply trace_bound; eauto. }
  cbn in L. rewrite (trace_length _ _ _ W) in L. lia.
Qed.

End LTree.


Lemma optnat_dec (a b : option nat) : {a = b} + {a <> b}.
Proof. decide equality; apply Nat.eq_dec. Qed.

Lemma pair_dec (a b : nat * nat) : {a = b} + {a <> b}.
Proof. decide equality; apply Nat.eq_dec. Qed.

Section Surgery.
Variables ch ch' : nat -> nat -> option nat.
Variable root : nat.
Hypothesis U : uparent ch.
Hypothesis R : noroot ch root.

Lemma walk_ext : (forall n nm c, ch n nm = Some c -> ch' n nm = Some c) ->
  forall p cur i, walk ch cur p = Some i -> walk ch' cur p = Some i.
Proof.
  intros H p. induction p as [|x p IH]; intros cur i; cbn; auto.
  destruct (ch cur x) as [c|] eqn:E; [|discriminate]. rewrite (H _ _ _ E). auto.
Qed.

(** paths that stay clear of every changed entry reach what they reached *)
Lemma walk_agree (bad : list nat -> Prop) :
  (forall a x m, walk ch root a = Some m -> ch' m x <> ch m x -> bad (a ++ [x])) ->
  forall p, (forall q, prefix q p -> ~ bad q) -> walk ch' root p = walk ch root p.
Proof.
  intros Hbad p. induction p as [|x p IH] using rev_ind; intros Hp; [reflexivity|].
  rewrite !walk_snoc. rewrite IH.
  - destruct (walk ch root p) as [m|] eqn:E; auto.
    destruct (optnat_dec (ch' m x) (ch m x)) as [Q|Q]; auto. exfalso. apply (Hp (p ++ [x])); [apply prefix_refl | eapply Hbad; eauto].
  - intros q Hq. apply Hp. eapply prefix_trans; [exact Hq | apply prefix_app].
Qed.

(** --- delete the entry (d, nm), d at path pd --- *)
Section Del.
Variables (pd : list nat) (d nm : nat).
Hypothesis Wd : walk ch root pd = Some d.
Hypothesis Hdel : forall n x, (n, x) <> (d, nm) -> ch' n x = ch n x.
Hypothesis Hgone : ch' d nm = None.

Lemma del_walk p : ~ prefix (pd ++ [nm]) p -> walk ch' root p = walk ch root p.
Proof.
  intros Hp. apply (walk_agree (fun q => q = pd ++ [nm])).
  - intros a x m Wa Hne. destruct (pair_dec (m, x) (d, nm)) as [E|E]; [|rewrite Hdel in Hne by auto; congruence].
    injection E as -> ->. rewrite (walk_inj ch root U R _ _ _ Wa Wd). reflexivity.
  - intros q Hq ->. auto.
Qed.

Lemma del_uparent : uparent ch'.
Proof.
  intros n x n' x' c H H'.
  destruct (pair_dec (n, x) (d, nm)) as [E|E]; [injection E as -> ->; congruence|].
  destruct (pair_dec (n', x') (d, nm)) as [E'|E']; [injection E' as -> ->; congruence|].
  rewrite Hdel in H, H' by auto. eauto.
Qed.

Lemma del_noroot : noroot ch' root.
Proof.
  intros n x H. destruct (pair_dec (n, x) (d, nm)) as [E|E]; [injection E as -> ->; congruence|].
  rewrite Hdel in H by auto. eapply R; eauto.
Qed.
End Del.

(** --- add the entry (d, nm) -> i, i fresh --- *)
Section Add.
Variables (d nm i : nat).
Hypothesis Hnone : ch d nm = None.
Hypothesis Hfresh : forall n x, ch n x <> Some i.
Hypothesis Hiroot : i <> root.
Hypothesis Hadd : forall n x, (n, x) <> (d, nm) -> ch' n x = ch n x.
Hypothesis Hnew : ch' d nm = Some i.

Lemma add_ext : forall n x c, ch n x = Some c -> ch' n x = Some c.
Proof.
  intros n x c H. destruct (pair_dec (n, x) (d, nm)) as [E|E]; [injection E as -> ->; congruence|].
  rewrite Hadd by auto. exact H.
Qed.

Lemma add_uparent : uparent ch'.
Proof.
  intros n x n' x' c H H'.
  destruct (pair_dec (n, x) (d, nm)) as [E|E]; destruct (pair_dec (n', x') (d, nm)) as [E'|E'].
  - injection E as -> ->. injection E' as -> ->. auto.
  - injection E as -> ->. rewrite Hadd in H' by auto. rewrite Hnew in H. injection H as <-. exfalso. eapply Hfresh; eauto.
  - injection E' as -> ->. rewrite Hadd in H by auto. rewrite Hnew in H'. injection H' as <-. exfalso. eapply Hfresh; eauto.
  - rewrite Hadd in H, H' by auto. eauto.
Qed.

Lemma add_noroot : noroot ch' root.
Proof.
  intros n x H. destruct (pair_dec (n, x) (d, nm)) as [E|E].
  - injection E as -> ->. rewrite Hnew in H. congruence.
  - rewrite Hadd in H by auto. eapply R; eauto.
Qed.
End Add.

(** --- move the entry (d1, old) -> xi to (d2, new), replacing what was there --- *)
Section Move.
Variables (p1 p2 : list nat) (d1 d2 old new xi : nat).
Hypothesis W1 : walk ch root p1 = Some d1.
Hypothesis W2 : walk ch root p2 = Some d2.
Hypothesis Hx : ch d1 old = Some xi.
Hypothesis Hne : (d1, old) <> (d2, new).
Hypothesis B2 : ~ prefix (p1 ++ [old]) p2.       (* the target directory is not inside the moved entry *)
Hypothesis Hm1 : ch' d2 new = Some xi.
Hypothesis Hm2 : ch' d1 old = None.
Hypothesis Hm3 : forall n x, (n, x) <> (d2, new) -> (n, x) <> (d1, old) -> ch' n x = ch n x.

Lemma move_changed a x m : walk ch root a = Some m -> ch' m x <> ch m x -> a ++ [x] = p1 ++ [old] \/ a ++ [x] = p2 ++ [new].
Proof.
  intros Wa Hc.
  destruct (pair_dec (m, x) (d2, new)) as [E|E].
  - injection E as -> ->. right. rewrite (walk_inj ch root U R _ _ _ Wa W2). reflexivity.
  - destruct (pair_dec (m, x) (d1, old)) as [E1|E1]; [|rewrite Hm3 in Hc by auto; congruence].
    injection E1 as -> ->. left. rewrite (walk_inj ch root U R _ _ _ Wa W1). reflexivity.
Qed.

Lemma move_walk_other p : ~ prefix (p1 ++ [old]) p -> ~ prefix (p2 ++ [new]) p -> walk ch' root p = walk ch root p.
Proof.
  intros H1 H2. apply (walk_agree (fun q => q = p1 ++ [old] \/ q = p2 ++ [new])).
  - intros a x m Wa Hc. eapply move_changed; eauto.
  - intros q Hq [-> | ->]; auto.
Qed.

Lemma move_walk_moved s : walk ch' root (p2 ++ [new] ++ s) = walk ch root (p1 ++ [old] ++ s).
Proof.
  induction s as [|a s IH] using rev_ind.
  - rewrite !app_nil_r, !walk_snoc, W1, Hx.
    rewrite move_walk_other, W2; auto.
    intros (t & E). apply (f_equal (@length nat)) in E. rewrite !app_length in E. cbn in E. lia.
  - rewrite !app_assoc. rewrite !walk_snoc. rewrite <- !app_assoc. rewrite IH.
    destruct (walk ch root (p1 ++ [old] ++ s)) as [m|] eqn:E; auto.
    destruct (optnat_dec (ch' m a) (ch m a)) as [Q|Q]; auto. exfalso.
    destruct (pair_dec (m, a) (d2, new)) as [E2|E2].
    + injection E2 as -> ->. apply B2. rewrite (walk_inj ch root U R _ _ _ W2 E). exists s. rewrite <- app_assoc. reflexivity.
    + destruct (pair_dec (m, a) (d1, old)) as [E1|E1]; [|rewrite Hm3 in Q by auto; congruence].
      injection E1 as -> ->. pose proof (walk_inj ch root U R _ _ _ W1 E) as EQ.
      apply (f_equal (@length nat)) in EQ. rewrite !app_length in EQ. cbn in EQ. lia.
Qed.

Lemma move_uparent : uparent ch'.
Proof.
  assert (K : forall n x c, ch' n x = Some c -> (n, x) <> (d2, new) -> ch n x = Some c /\ (n, x) <> (d1, old)).
  { intros n x c H E. destruct (pair_dec (n, x) (d1, old)) as [E1|E1]; [injection E1 as -> ->; congruence|].
    rewrite Hm3 in H by auto. auto. }
  intros n x n' x' c H H'.
  destruct (pair_dec (n, x) (d2, new)) as [E|E]; destruct (pair_dec (n', x') (d2, new)) as [E'|E'].
  - injection E as -> ->. injection E' as -> ->. auto.
  - injection E as -> ->. rewrite Hm1 in H. injection H as <-. destruct (K _ _ _ H' E') as (H2 & N2).
    destruct (U _ _ _ _ _ H2 Hx) as (-> & ->). congruence.
  - injection E' as -> ->. rewrite Hm1 in H'. injection H' as <-. destruct (K _ _ _ H E) as (H2 & N2).
    destruct (U _ _ _ _ _ H2 Hx) as (-> & ->). congruence.
  - destruct (K _ _ _ H E), (K _ _ _ H' E'). eauto.
Qed.

Lemma move_noroot : noroot ch' root.
Proof.
  intros n x H. destruct (pair_dec (n, x) (d2, new)) as [E|E].
  - injection E as -> ->. rewrite Hm1 in H. injection H as ->. eapply R; eauto.
  - destruct (pair_dec (n, x) (d1, old)) as [E1|E1]; [injection E1 as -> ->; congruence|].
    rewrite Hm3 in H by auto. eapply R; eauto.
Qed.
End Move.
End Surgery.

Lemma walk_eq ch ch' : (forall n x, ch' n x = ch n x) -> forall p cur, walk ch' cur p = walk ch cur p.
Proof. intros H p. induction p as [|x p IH]; intros cur; cbn; auto. rewrite H. destruct (ch cur x); auto. Qed.
