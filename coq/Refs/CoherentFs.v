(** Refs/CoherentFs.v — C08_coherent: PathFS facts.  Pointwise reading of the
    association-list operations; which backend calls leave the tree of entries
    and the paths of the existing Files alone ([fext]); creation adds a fresh
    leaf.  (pathB) *)
From Coq Require Import List Arith Bool ZArith Lia.
From P9V Require Import Refs.Model Refs.PathFS Refs.RefProofs Refs.CoherentTree Refs.CoherentDefs.
Import ListNotations.

Section AL.
  Context {K V : Type} (eqb : K -> K -> bool) (eqb_spec : forall a b, reflect (a = b) (eqb a b)).

  Lemma alookup_adel k k' (l : list (K * V)) :
    alookup eqb k' (adel eqb k l) = if eqb k' k then None else alookup eqb k' l.
  Proof.
    induction l as [|[k0 v] l IH]; cbn; [destruct (eqb k' k); reflexivity|].
    destruct (eqb_spec k k0) as [->|N]; cbn.
    - rewrite IH. destruct (eqb_spec k' k0); auto.
    - rewrite IH. destruct (eqb_spec k' k0) as [->|N']; auto.
      destruct (eqb_spec k0 k); [congruence | reflexivity].
  Qed.

  Lemma alookup_aset k k' v (l : list (K * V)) :
    alookup eqb k' (aset eqb k v l) = if eqb k' k then Some v else alookup eqb k' l.
  Proof.
    induction l as [|[k0 v0] l IH]; cbn; [destruct (eqb k' k); reflexivity|].
    destruct (eqb_spec k k0) as [->|N]; cbn.
    - destruct (eqb_spec k' k0); auto. rewrite alookup_adel. destruct (eqb_spec k' k0); [congruence | reflexivity].
    - destruct (eqb_spec k' k0) as [->|N'].
      + destruct (eqb_spec k0 k); [congruence | reflexivity].
      + exact IH.
  Qed.

  Lemma gadel_keys_incl k k0 (l : list (K * V)) : In k0 (map fst (adel eqb k l)) -> In k0 (map fst l).
  Proof.
    induction l as [|[k' v] l IH]; cbn; auto.
    destruct (eqb_spec k k'); cbn; auto. intros [H|H]; auto.
  Qed.

  Lemma gadel_notin k (l : list (K * V)) : ~ In k (map fst (adel eqb k l)).
  Proof.
    induction l as [|[k' v] l IH]; cbn; auto.
    destruct (eqb_spec k k'); cbn; auto. intros [H|H]; auto.
  Qed.

  Lemma gadel_nodup k (l : list (K * V)) : NoDup (map fst l) -> NoDup (map fst (adel eqb k l)).
  Proof.
    induction l as [|[k' v] l IH]; cbn; auto. intros H. inversion H; subst.
    destruct (eqb_spec k k'); cbn; auto. constructor; auto. intros X. apply gadel_keys_incl in X. auto.
  Qed.

  Lemma gaset_keys k k0 v (l : list (K * V)) : In k0 (map fst (aset eqb k v l)) -> k0 = k \/ In k0 (map fst l).
  Proof.
    induction l as [|[k' v'] l IH]; cbn; [intros [H|[]]; auto|].
    destruct (eqb_spec k k'); cbn.
    - intros [H|H]; auto. apply gadel_keys_incl in H. auto.
    - intros [H|H]; auto. apply IH in H. tauto.
  Qed.

  Lemma gaset_nodup k v (l : list (K * V)) : NoDup (map fst l) -> NoDup (map fst (aset eqb k v l)).
  Proof.
    induction l as [|[k' v'] l IH]; cbn; intros H.
    - constructor; [intros [] | constructor].
    - inversion H; subst. destruct (eqb_spec k k'); cbn.
      + subst. constructor; [apply gadel_notin | apply gadel_nodup; auto].
      + constructor; auto. intros X. apply gaset_keys in X. destruct X; [congruence | contradiction].
  Qed.

  Lemma alookup_In k v (l : list (K * V)) : alookup eqb k l = Some v -> In (k, v) l.
  Proof.
    induction l as [|[k0 v0] l IH]; cbn; [discriminate|].
    destruct (eqb_spec k k0) as [->|N]; [intros [= ->]; auto | auto].
  Qed.

  Lemma In_alookup k v (l : list (K * V)) : NoDup (map fst l) -> In (k, v) l -> alookup eqb k l = Some v.
  Proof.
    induction l as [|[k0 v0] l IH]; cbn; [tauto|]. intros N. inversion N; subst.
    intros [[= -> ->]|H].
    - destruct (eqb_spec k k); [reflexivity | congruence].
    - destruct (eqb_spec k k0) as [->|_]; auto. exfalso. apply H1. apply (in_map fst) in H. exact H.
  Qed.
End AL.

Lemma entry_aset fs k v d x : entry (with_entries (aset peqb k v (p_entries fs)) fs) d x = if peqb (d, x) k then Some v else entry fs d x.
Proof. unfold entry. cbn. apply (alookup_aset peqb peqb_spec). Qed.

Lemma peqb_false a b : a <> b -> peqb a b = false.
Proof. destruct (peqb_spec a b); congruence. Qed.
Lemma peqb_true a : peqb a a = true.
Proof. destruct (peqb_spec a a); congruence. Qed.

(** ---- a resolved inode is allocated ---- *)
Lemma resolve_bound fs p i : FsInv fs -> resolve fs p = Some i -> i < p_nextino fs.
Proof.
  intros F. rewrite resolve_walk. destruct p as [|x p] using rev_ind.
  - cbn. intros [= <-]. apply F.
  - rewrite walk_snoc. destruct (walk (entry fs) root_ino p); [|discriminate]. intros H. eapply (F_bound _ F); eauto.
Qed.

(** ---- extension of the backend state: everything that resolved still does, old Files keep their paths ---- *)
Definition fext (N : nat) (fs fs' : pfs) : Prop :=
  (FsInv fs -> FsInv fs' /\ forall p i, resolve fs p = Some i -> resolve fs' p = Some i) /\
  (forall h, h < N -> hpath fs' h = hpath fs h).

Lemma fext_refl N fs : fext N fs fs. Proof. split; auto. Qed.
Lemma fext_trans N a b c : fext N a b -> fext N b c -> fext N a c.
Proof.
  intros (A1 & A2) (B1 & B2). split.
  - intros F. destruct (A1 F) as (F1 & W1). destruct (B1 F1) as (F2 & W2). auto.
  - intros h Hh. rewrite B2, A2; auto.
Qed.

Lemma fext_same N fs fs' :
  p_entries fs' = p_entries fs -> p_dirs fs' = p_dirs fs -> p_nextino fs' = p_nextino fs ->
  (forall h, h < N -> hpath fs' h = hpath fs h) -> fext N fs fs'.
Proof.
  intros E D I P. split; auto.
  assert (EN : forall d x, entry fs' d x = entry fs d x) by (intros; unfold entry; rewrite E; reflexivity).
  intros [U R K Dr Bd Rt]. split.
  - constructor.
    + intros n x n' x' c. rewrite !EN. apply U.
    + intros n x. rewrite EN. apply R.
    + rewrite E. exact K.
    + intros d x c. rewrite EN. unfold isdir. rewrite D. apply Dr.
    + intros d x c. rewrite EN, I. apply Bd.
    + rewrite I. exact Rt.
  - intros p i. rewrite !resolve_walk. rewrite (walk_eq _ _ EN). auto.
Qed.

Lemma hpath_bind fs h f h' : hpath (bind_file h f fs) h' = if h' =? h then pf_path f else hpath fs h'.
Proof.
  unfold hpath, file_of, bind_file. cbn. rewrite (alookup_aset Nat.eqb Nat.eqb_spec).
  destruct (h' =? h); reflexivity.
Qed.

Lemma fext_bump N fs : fext N fs (bump fs).
Proof. apply fext_same; auto. Qed.

Lemma fext_bind_fresh N fs h f : N <= h -> fext N fs (bind_file h f fs).
Proof.
  intros H. apply fext_same; auto. intros h' Hh. rewrite hpath_bind.
  destruct (Nat.eqb_spec h' h); [lia | reflexivity].
Qed.

Lemma fext_bind_same N fs h f : pf_path f = hpath fs h -> fext N fs (bind_file h f fs).
Proof.
  intros H. apply fext_same; auto. intros h' Hh. rewrite hpath_bind.
  destruct (Nat.eqb_spec h' h); [subst; auto | reflexivity].
Qed.

(** creation: a fresh leaf *)
Lemma new_obj_ext N fs pd d nm dir :
  resolve fs pd = Some d -> isdir fs d = true -> entry fs d nm = None ->
  fext N fs (snd (new_obj d nm dir fs)) /\
  (FsInv fs -> resolve (snd (new_obj d nm dir fs)) (pd ++ [nm]) = Some (p_nextino fs)).
Proof.
  intros Rd Dd En. unfold new_obj. cbn [snd].
  set (fs' := mkpfs _ _ _ _ _ _ _).
  assert (EN : forall a x, entry fs' a x = if peqb (a, x) (d, nm) then Some (p_nextino fs) else entry fs a x).
  { intros. unfold entry, fs'. cbn. apply (alookup_aset peqb peqb_spec). }
  assert (Ext : FsInv fs -> forall a x c, entry fs a x = Some c -> entry fs' a x = Some c).
  { intros F a x c H. rewrite EN. destruct (peqb_spec (a, x) (d, nm)) as [[= -> ->]|]; [congruence | auto]. }
  assert (DI : forall a, isdir fs a = true -> isdir fs' a = true).
  { intros a. unfold isdir, fs'. cbn. destruct dir; cbn; auto. intros ->. apply orb_true_r. }
  split; [split|].
  - intros F. pose proof (resolve_bound _ _ _ F Rd) as Bd.
    assert (Hadd : forall n x, (n, x) <> (d, nm) -> entry fs' n x = entry fs n x) by (intros; rewrite EN, peqb_false; auto).
    assert (Hnew : entry fs' d nm = Some (p_nextino fs)) by (rewrite EN, peqb_true; auto).
    assert (Hfresh : forall n x, entry fs n x <> Some (p_nextino fs)).
    { intros n x H. apply (F_bound _ F) in H. lia. }
    split.
    + constructor.
      * eapply add_uparent; eauto. apply F.
      * eapply (add_noroot (entry fs) (entry fs') root_ino (F_noroot _ F) d nm (p_nextino fs)); eauto.
        pose proof (F_root _ F). lia.
      * cbn. apply (aset_nodup peqb peqb_spec). apply F.
      * intros a x c. rewrite EN. destruct (peqb_spec (a, x) (d, nm)) as [[= -> ->]|]; intros H; apply DI; auto.
        eapply (F_dir _ F); eauto.
      * intros a x c. rewrite EN. cbn [p_nextino fs']. destruct (peqb_spec (a, x) (d, nm)) as [[= -> ->]|].
        -- intros [= <-]. lia.
        -- intros H. apply (F_bound _ F) in H. lia.
      * cbn. pose proof (F_root _ F). lia.
    + intros p i. rewrite !resolve_walk. apply walk_ext. auto.
  - intros h Hh. reflexivity.
  - intros F. rewrite resolve_walk, walk_snoc. rewrite resolve_walk in Rd.
    rewrite (walk_ext _ _ (Ext F) _ _ _ Rd). rewrite EN, peqb_true. reflexivity.
Qed.

(** ---- the calls that only extend ---- *)
Definition quiet (N : nat) (c : bcall) : Prop :=
  match c with
  | BAttach nh | BWalk _ _ nh | BWalkGetAttr _ _ nh | BCreate _ _ nh => N <= nh
  | BUnlinkAt _ _ | BRenameAt _ _ _ _ | BRenamed _ _ _ => False
  | _ => True
  end.

Lemma pfs_step_fst fs c :
  fst (pfs_step fs c) = bump fs \/ fst (pfs_step fs c) = fst (pfs_do (bump fs) c).
Proof.
  unfold pfs_step. destruct (alookup Nat.eqb (p_calls fs) (p_inject fs)) as [e|]; [|destruct c; auto].
  destruct c; auto; destruct (e =? injBadQ); auto;
    destruct (pfs_do (bump fs) _) as [fs1 [m i|e1|m i]]; auto.
Qed.

Lemma walk_to_quiet N fs h nm nh : N <= nh -> fext N fs (fst (walk_to fs h nm nh)).
Proof.
  intros H. unfold walk_to. destruct nm as [x|]; [|apply fext_bind_fresh; auto].
  destruct (resolve fs _); cbn; [apply fext_bind_fresh; auto | apply fext_refl].
Qed.

Lemma pfs_do_quiet N fs c : quiet N c -> fext N fs (fst (pfs_do fs c)).
Proof.
  destruct c; cbn [quiet pfs_do]; intros Q; try contradiction; try apply fext_refl.
  - apply fext_bind_fresh; auto.
  - apply walk_to_quiet; auto.
  - destruct (negb (p_wga fs)); [apply fext_refl|]. destruct nm; [apply walk_to_quiet; auto|].
    destruct (resolve fs _); cbn; [apply fext_bind_fresh; auto | apply fext_refl].
  - destruct (resolve fs _); apply fext_refl.
  - destruct (resolve fs _); cbn; [|apply fext_refl]. apply fext_bind_same. reflexivity.
  - destruct (resolve fs _) as [d|] eqn:Rd; [|apply fext_refl].
    destruct (isdir fs d) eqn:Dd; cbn [negb]; [|apply fext_refl].
    destruct (entry fs d nm) eqn:En; [apply fext_refl|].
    destruct (new_obj_ext N fs _ d nm false Rd Dd En) as (X & _).
    destruct (new_obj d nm false fs) as [i fs1]. cbn [fst snd] in *.
    eapply fext_trans; [exact X|]. apply fext_bind_fresh; auto.
  - destruct (2 <=? k); [apply fext_refl|].
    destruct (resolve fs _) as [d|] eqn:Rd; [|apply fext_refl].
    destruct (isdir fs d) eqn:Dd; cbn [negb]; [|apply fext_refl].
    destruct (entry fs d nm) eqn:En; [apply fext_refl|].
    destruct (new_obj_ext N fs _ d nm (k =? 0) Rd Dd En) as (X & _).
    destruct (new_obj d nm (k =? 0) fs) as [i fs1]. cbn [fst snd] in *. exact X.
  - destruct (k <=? uFsync); [destruct (pf_fd _) | destruct (resolve fs _)]; apply fext_refl.
Qed.

Lemma pfs_step_quiet N fs c : quiet N c -> fext N fs (fst (pfs_step fs c)).
Proof.
  intros Q. destruct (pfs_step_fst fs c) as [-> | ->]; [apply fext_bump|].
  eapply fext_trans; [apply fext_bump | apply pfs_do_quiet; auto].
Qed.

Lemma entries_resolve fs fs' p : p_entries fs' = p_entries fs -> resolve fs' p = resolve fs p.
Proof.
  intros E. rewrite !resolve_walk. apply walk_eq. intros. unfold entry. rewrite E. reflexivity.
Qed.
