(** Refs/LifeProofs.v — ownership of Files and the Close discipline (C05):
    every handle the backend returned is owned by exactly one fidRef (xattr
    fidRefs borrow their origin's); a handle is closed iff it has no live
    owner; it is closed at most once.  [pend]: a handle just returned by the
    backend and not yet given to a fidRef (inside walkOne / Tattach / Tlcreate). *)
From Coq Require Import List Arith Bool ZArith Lia.
From P9V Require Import Refs.Model Refs.RefProofs.
Import ListNotations.

Fixpoint closes (l : list bcall) : list nat :=
  match l with
  | [] => []
  | BClose h :: r => h :: closes r
  | _ :: r => closes r
  end.

Definition is_close (c : bcall) : bool := match c with BClose _ => true | _ => false end.

Lemma closes_cons_other c l : is_close c = false -> closes (c :: l) = closes l.
Proof. destruct c; cbn; intros; auto; discriminate. Qed.

(** the handles a backend call operates on: the File it is invoked on and its File arguments *)
Definition uses (c : bcall) : list nat :=
  match c with
  | BAttach _ => []
  | BRenamed h ph _ => [h; ph]
  | BWalk h _ _ | BWalkGetAttr h _ _ | BGetAttr h | BOpen h _ | BCreate h _ _ | BMk _ h _
  | BUnlinkAt h _ | BClose h | BUse _ h => [h]
  | BLink h t _ => [h; t]
  | BRenameAt h _ h2 _ => [h; h2]
  end.

(** newest-first log: no call uses a handle closed before it (so no File is used after Close, none closed twice) *)
Fixpoint wf_log (l : list bcall) : Prop :=
  match l with
  | [] => True
  | c :: r => wf_log r /\ forall h, In h (uses c) -> ~ In h (closes r)
  end.

Lemma closes_app_nonclose a l : Forall (fun c => is_close c = false) a -> closes (a ++ l) = closes l.
Proof. induction 1 as [|c a Hc _ IH]; cbn [app]; auto. rewrite closes_cons_other; auto. Qed.

Section Life.
Variable B : Type.
Variable bstep : B -> bcall -> B * bans.
Notation st := (sstate B).
Notation gref := (get_ref B).

Definition owner (x : fidref) : Prop := fr_xattrOf x = None.
Definition closed (s : st) (h : nat) : Prop := In h (closes (s_log B s)).
Definition len (s : st) : nat := length (s_refs B s).

Record KInv (s : st) (pend : option nat) : Prop := mkK {
  K1 : forall r, r < len s -> fr_file (gref s r) < s_nexth B s /\ Some (fr_file (gref s r)) <> pend;
  K2 : forall r r', r < len s -> r' < len s -> r <> r' -> owner (gref s r) -> owner (gref s r') ->
       fr_file (gref s r) <> fr_file (gref s r');
  Kx : forall x o, x < len s -> fr_xattrOf (gref s x) = Some o -> o < x /\ fr_file (gref s x) = fr_file (gref s o);
  K3 : forall h, closed s h -> h < s_nexth B s /\ Some h <> pend;
  K4 : forall r, r < len s -> owner (gref s r) -> live (gref s r) = true -> ~ closed s (fr_file (gref s r));
  K5 : NoDup (closes (s_log B s));
  K6 : forall h, h < s_nexth B s -> Some h <> pend ->
       (exists r, r < len s /\ owner (gref s r) /\ fr_file (gref s r) = h) \/ closed s h;
  K7 : forall r, r < len s -> owner (gref s r) -> live (gref s r) = false -> closed s (fr_file (gref s r));
  Kp : forall h, pend = Some h -> h < s_nexth B s;
  K8 : forall r p, r < len s -> fr_parent (gref s r) = Some p -> p < len s }.

(** states that agree on what [KInv] reads *)
Lemma K_ext s s' pend :
  KInv s pend ->
  s_nexth B s' = s_nexth B s -> closes (s_log B s') = closes (s_log B s) -> len s' = len s ->
  (forall q, q < len s -> fr_file (gref s' q) = fr_file (gref s q) /\ fr_xattrOf (gref s' q) = fr_xattrOf (gref s q) /\
                          (owner (gref s q) -> live (gref s' q) = live (gref s q)) /\
                          (forall p, fr_parent (gref s' q) = Some p -> p < len s)) ->
  KInv s' pend.
Proof.
  intros K EN EC EL EQ. destruct K as [k1 k2 kx k3 k4 k5 k6 k7 kp k8].
  assert (F : forall q, q < len s -> fr_file (gref s' q) = fr_file (gref s q)) by (intros q Hq; apply EQ; auto).
  assert (X : forall q, q < len s -> fr_xattrOf (gref s' q) = fr_xattrOf (gref s q)) by (intros q Hq; apply EQ; auto).
  assert (L : forall q, q < len s -> owner (gref s q) -> live (gref s' q) = live (gref s q)) by (intros q Hq; apply EQ; auto).
  unfold closed in *. constructor; unfold closed, owner in *; rewrite ?EN, ?EC, ?EL.
  - intros r Hr. rewrite F by auto. apply k1; auto.
  - intros r r' Hr Hr' N O O'. rewrite X in O, O' by auto. rewrite !F by auto. apply k2; auto.
  - intros x o Hx Ho. rewrite X in Ho by auto. destruct (kx x o Hx Ho) as (Lt & Ef). split; auto.
    rewrite !F by lia. auto.
  - intros h Hh. apply k3; auto.
  - intros r Hr O Lv. rewrite X in O by auto. rewrite L in Lv by auto. rewrite F by auto. apply k4; auto.
  - exact k5.
  - intros h Hh Hp. destruct (k6 h Hh Hp) as [(r & Hr & O & Ef)|Hc]; [left|right; auto].
    exists r. split; auto. split; [rewrite X by auto; auto | rewrite F by auto; auto].
  - intros r Hr O Lv. rewrite X in O by auto. rewrite L in Lv by auto. rewrite F by auto. apply k7; auto.
  - exact kp.
  - intros r p Hr Hp. apply (EQ r Hr). exact Hp.
Qed.

(** same fid table / holders / fidRefs, same next handle, same Close calls *)
Definition same_life (s s' : st) : Prop :=
  same_core B s s' /\ s_nexth B s' = s_nexth B s /\ closes (s_log B s') = closes (s_log B s).

Lemma same_life_refl s : same_life s s.
Proof. split; [apply same_core_refl|]. split; reflexivity. Qed.
Lemma same_life_trans a b c : same_life a b -> same_life b c -> same_life a c.
Proof. intros (S1 & N1 & C1) (S2 & N2 & C2). split; [eapply same_core_trans; eauto|]. split; congruence. Qed.

Lemma K_same_life s s' pend : same_life s s' -> KInv s pend -> KInv s' pend.
Proof.
  intros ((F & H & R & P) & N & Cl) K. apply (K_ext s s' pend K N Cl).
  - unfold len. rewrite R. reflexivity.
  - intros q Hq. unfold get_ref. rewrite R. repeat split; auto. intros p Hp. apply (K8 s pend K q p Hq). exact Hp.
Qed.

(** overwriting one fidRef *)
Lemma K_set_ref s pend r x' :
  KInv s pend -> fr_file x' = fr_file (gref s r) -> fr_xattrOf x' = fr_xattrOf (gref s r) ->
  (owner (gref s r) -> live x' = live (gref s r)) ->
  (forall p, fr_parent x' = Some p -> p < len s) ->
  KInv (set_ref B r x' s) pend.
Proof.
  intros K EF EX EL EP. apply (K_ext s _ pend K); try reflexivity.
  - unfold len. apply len_set_ref.
  - intros q Hq. destruct (Nat.eq_dec r q) as [<-|N].
    + rewrite gref_set_same by exact Hq. auto.
    + rewrite gref_set_other by auto. repeat split; auto. intros p Hp. apply (K8 s pend K q p Hq Hp).
Qed.

Lemma K_set_refs s pend r z :
  KInv s pend -> (owner (gref s r) -> live (fr_with_refs (gref s r) z) = live (gref s r)) ->
  KInv (set_ref B r (fr_with_refs (gref s r) z) s) pend.
Proof.
  intros K EL. destruct (Nat.lt_ge_cases r (len s)) as [Hr|Hr].
  - apply K_set_ref; auto. intros p Hp. apply (K8 s pend K r p Hr Hp).
  - unfold set_ref. rewrite upd_oob by exact Hr. destruct s; exact K.
Qed.

Lemma K_incref s pend r : KInv s pend -> live (gref s r) = true -> KInv (incref B r s) pend.
Proof.
  intros K L. unfold incref. apply K_set_refs; auto. intros _. rewrite live_refs, L.
  unfold live in L. apply Z.ltb_lt in L. apply Z.ltb_lt. lia.
Qed.

(** the last reference of an owner goes away and its File is closed *)
Lemma K_death_close s pend r :
  KInv s pend -> r < len s -> owner (gref s r) -> live (gref s r) = true ->
  KInv (snd (bcall_ B bstep (BClose (fr_file (gref s r))) (set_ref B r (fr_with_refs (gref s r) 0) s))) pend.
Proof.
  intros K Hr O L. destruct K as [k1 k2 kx k3 k4 k5 k6 k7 kp k8].
  set (x := gref s r) in *. set (s1 := set_ref B r (fr_with_refs x 0) s).
  assert (G1 : gref s1 r = fr_with_refs x 0) by (apply gref_set_same; exact Hr).
  assert (G2 : forall q, r <> q -> gref s1 q = gref s q) by (intros; apply gref_set_other; auto).
  assert (EL : len s1 = len s) by apply len_set_ref.
  unfold bcall_. destruct (bstep (s_be B s1) (BClose (fr_file x))) as [b' a]. cbn [snd].
  set (s2 := mkst B _ _ _ _ _ _ _ _ _).
  assert (Gs : forall q, gref s2 q = gref s1 q) by reflexivity.
  assert (Cl : forall h, closed s2 h <-> h = fr_file x \/ closed s h).
  { intros h. unfold closed, s2; cbn. split; intros [H|H]; auto. }
  assert (FX : forall q, fr_file (gref s2 q) = fr_file (gref s q) /\ fr_xattrOf (gref s2 q) = fr_xattrOf (gref s q)).
  { intros q. rewrite Gs. destruct (Nat.eq_dec r q) as [<-|N]; [rewrite G1; auto | rewrite G2 by auto; auto]. }
  assert (Ncl : ~ closed s (fr_file x)) by (apply k4; auto).
  constructor; change (len s2) with (len s1); rewrite ?EL; change (s_nexth B s2) with (s_nexth B s); unfold owner in *.
  - intros q Hq. destruct (FX q) as (-> & _). apply k1; auto.
  - intros q q' Hq Hq' N Oq Oq'. destruct (FX q) as (-> & Xq). destruct (FX q') as (-> & Xq').
    rewrite Xq in Oq. rewrite Xq' in Oq'. apply k2; auto.
  - intros q o Hq Ho. destruct (FX q) as (-> & Xq). rewrite Xq in Ho. destruct (kx q o Hq Ho) as (Lt & Ef).
    split; auto. destruct (FX o) as (-> & _). auto.
  - intros h Hh. apply Cl in Hh. destruct Hh as [->|Hh]; [apply k1; auto | apply k3; auto].
  - intros q Hq Oq Lq. destruct (FX q) as (Ef & Xq). rewrite Ef. rewrite Xq in Oq. intros Hc. apply Cl in Hc.
    destruct (Nat.eq_dec r q) as [<-|N].
    + rewrite Gs, G1 in Lq. cbn in Lq. discriminate.
    + rewrite Gs, G2 in Lq by auto. destruct Hc as [Hc|Hc]; [|revert Hc; apply k4; auto].
      apply (k2 q r Hq Hr ltac:(auto) Oq O). auto.
  - cbn. constructor; auto.
  - intros h Hh Hp. destruct (k6 h Hh Hp) as [(q & Hq & Oq & Ef)|Hc]; [left|right; apply Cl; auto].
    exists q. destruct (FX q) as (-> & ->). auto.
  - intros q Hq Oq Lq. destruct (FX q) as (Ef & Xq). rewrite Ef. rewrite Xq in Oq. apply Cl.
    destruct (Nat.eq_dec r q) as [<-|N]; [left; reflexivity|]. right. rewrite Gs, G2 in Lq by auto. apply k7; auto.
  - exact kp.
  - intros q p Hq Hp. rewrite Gs in Hp. destruct (Nat.eq_dec r q) as [<-|N].
    + rewrite G1 in Hp. cbn in Hp. apply (k8 r p Hr Hp).
    + rewrite G2 in Hp by auto. apply (k8 q p Hq Hp).
Qed.

(** the last reference of an xattr fidRef goes away (it owns nothing) *)
Lemma K_death_borrow s pend r o :
  KInv s pend -> fr_xattrOf (gref s r) = Some o -> KInv (set_ref B r (fr_with_refs (gref s r) 0) s) pend.
Proof.
  intros K X. apply K_set_refs; auto. unfold owner. rewrite X. discriminate.
Qed.

(** a new fidRef takes the pending handle *)
Lemma K_new_owner s h x :
  KInv s (Some h) -> fr_file x = h -> fr_xattrOf x = None -> (forall p, fr_parent x = Some p -> p < len s) ->
  KInv (snd (new_ref B x s)) None.
Proof.
  intros K EF EX EP. destruct K as [k1 k2 kx k3 k4 k5 k6 k7 kp k8].
  destruct (new_ref_facts B x s) as (_ & L1 & Gn & Go & _).
  set (s1 := snd (new_ref B x s)) in *. set (n := len s). fold (len s) in L1, Gn, Go. fold n in L1, Gn, Go.
  assert (EL : len s1 = S n) by exact L1.
  assert (NH : s_nexth B s1 = s_nexth B s) by reflexivity.
  assert (Cl : forall z, closed s1 z <-> closed s z) by (intros; reflexivity).
  assert (Hh : h < s_nexth B s) by (apply kp; reflexivity).
  assert (Cases : forall q, q < S n -> q < n \/ q = n) by (intros; lia).
  constructor; rewrite ?EL, ?NH; unfold owner in *.
  - intros q Hq. destruct (Cases q Hq) as [Lq| ->].
    + rewrite Go by auto. split; [apply k1; auto | discriminate].
    + rewrite Gn. cbn [fr_file fr_with_refs]. rewrite EF. split; [auto | discriminate].
  - intros q q' Hq Hq' N Oq Oq'. destruct (Cases q Hq) as [Lq| ->]; destruct (Cases q' Hq') as [Lq'| ->]; try lia.
    + rewrite !Go in * by auto. apply k2; auto.
    + rewrite (Go q) in * by auto. rewrite Gn. cbn [fr_file fr_with_refs]. rewrite EF. intros E. destruct (k1 q Lq) as (_ & Np). congruence.
    + rewrite (Go q') in * by auto. rewrite Gn. cbn [fr_file fr_with_refs]. rewrite EF. intros E. destruct (k1 q' Lq') as (_ & Np). congruence.
  - intros q o Hq Ho. destruct (Cases q Hq) as [Lq| ->].
    + rewrite Go in * by auto. destruct (kx q o Lq Ho) as (Lt & Ef). split; auto. rewrite Go by lia. auto.
    + rewrite Gn in Ho. cbn in Ho. congruence.
  - intros z Hz. apply Cl in Hz. split; [apply k3; auto | discriminate].
  - intros q Hq Oq Lq. rewrite Cl. destruct (Cases q Hq) as [Lt| ->].
    + rewrite Go in * by auto. apply k4; auto.
    + rewrite Gn. cbn [fr_file fr_with_refs]. rewrite EF. intros Hc. destruct (k3 h Hc) as (_ & Np). congruence.
  - exact k5.
  - intros z Hz _. destruct (Nat.eq_dec z h) as [->|Nz].
    + left. exists n. split; [lia|]. rewrite Gn. cbn. auto.
    + destruct (k6 z Hz ltac:(congruence)) as [(q & Hq & Oq & Ef)|Hc]; [left|right; apply Cl; auto].
      exists q. split; [lia|]. rewrite Go by auto. auto.
  - intros q Hq Oq Lq. rewrite Cl. destruct (Cases q Hq) as [Lt| ->].
    + rewrite Go in * by auto. apply k7; auto.
    + rewrite Gn in Lq. cbn in Lq. discriminate.
  - discriminate.
  - intros q p Hq Hp. destruct (Cases q Hq) as [Lt| ->].
    + rewrite Go in Hp by auto. pose proof (k8 q p Lt Hp). lia.
    + rewrite Gn in Hp. cbn in Hp. pose proof (EP p Hp). lia.
Qed.

(** a new xattr fidRef borrows the File of [o] *)
Lemma K_new_borrower s pend x o :
  KInv s pend -> fr_xattrOf x = Some o -> o < len s -> fr_file x = fr_file (gref s o) -> fr_parent x = None ->
  KInv (snd (new_ref B x s)) pend.
Proof.
  intros K EX Lo EF EP. destruct K as [k1 k2 kx k3 k4 k5 k6 k7 kp k8].
  destruct (new_ref_facts B x s) as (_ & L1 & Gn & Go & _).
  set (s1 := snd (new_ref B x s)) in *. set (n := len s). fold (len s) in L1, Gn, Go. fold n in L1, Gn, Go, Lo.
  assert (EL : len s1 = S n) by exact L1.
  assert (NH : s_nexth B s1 = s_nexth B s) by reflexivity.
  assert (Cl : forall z, closed s1 z <-> closed s z) by (intros; reflexivity).
  assert (Cases : forall q, q < S n -> q < n \/ q = n) by (intros; lia).
  assert (NO : ~ owner (gref s1 n)) by (rewrite Gn; unfold owner; cbn; rewrite EX; discriminate).
  constructor; rewrite ?EL, ?NH.
  - intros q Hq. destruct (Cases q Hq) as [Lq| ->].
    + rewrite Go by auto. apply k1; auto.
    + rewrite Gn. cbn [fr_file fr_with_refs]. rewrite EF. apply k1; auto.
  - intros q q' Hq Hq' N Oq Oq'. destruct (Cases q Hq) as [Lq| ->]; destruct (Cases q' Hq') as [Lq'| ->]; try tauto; try lia.
    rewrite !Go in * by auto. apply k2; auto.
  - intros q o' Hq Ho. destruct (Cases q Hq) as [Lq| ->].
    + rewrite Go in * by auto. destruct (kx q o' Lq Ho) as (Lt & Ef). split; auto. rewrite Go by lia. auto.
    + rewrite Gn in Ho. cbn in Ho. rewrite EX in Ho. injection Ho as <-. split; auto.
      rewrite Gn, Go by auto. cbn. auto.
  - intros z Hz. apply Cl in Hz. apply k3; auto.
  - intros q Hq Oq Lq. rewrite Cl. destruct (Cases q Hq) as [Lt| ->]; [|tauto].
    rewrite Go in * by auto. apply k4; auto.
  - exact k5.
  - intros z Hz Hp. destruct (k6 z Hz Hp) as [(q & Hq & Oq & Ef)|Hc]; [left|right; apply Cl; auto].
    exists q. split; [lia|]. rewrite Go by auto. auto.
  - intros q Hq Oq Lq. rewrite Cl. destruct (Cases q Hq) as [Lt| ->]; [|tauto].
    rewrite Go in * by auto. apply k7; auto.
  - exact kp.
  - intros q p Hq Hp. destruct (Cases q Hq) as [Lt| ->].
    + rewrite Go in Hp by auto. pose proof (k8 q p Lt Hp). lia.
    + rewrite Gn in Hp. cbn in Hp. congruence.
Qed.

(** the backend returned a File: the next handle number is taken *)
Lemma K_take_handle s : KInv s None -> KInv (take_handle B s) (Some (s_nexth B s)).
Proof.
  intros [k1 k2 kx k3 k4 k5 k6 k7 kp k8].
  constructor; change (len (take_handle B s)) with (len s); cbn [take_handle with_nexth s_nexth];
    try assumption.
  - intros r Hr. change (gref (take_handle B s) r) with (gref s r). destruct (k1 r Hr) as (Lt & _). split; [lia|].
    intros E. injection E as E. lia.
  - intros h Hh. change (closed s h) in Hh. destruct (k3 h Hh) as (Lt & _). split; [lia|]. intros E. injection E as E. lia.
  - intros h Hh Hp. assert (h < s_nexth B s) by (assert (h <> s_nexth B s) by congruence; lia).
    apply k6; auto. discriminate.
  - intros h [= <-]. lia.
Qed.

(** the pending File is closed on an error path *)
Lemma K_close_pending s h :
  KInv s (Some h) -> KInv (snd (bcall_ B bstep (BClose h) s)) None.
Proof.
  intros [k1 k2 kx k3 k4 k5 k6 k7 kp k8]. unfold bcall_. destruct (bstep (s_be B s) (BClose h)) as [b' a]. cbn [snd].
  set (s2 := mkst B _ _ _ _ _ _ _ _ _).
  assert (Cl : forall z, closed s2 z <-> z = h \/ closed s z).
  { intros z. unfold closed, s2; cbn. split; intros [H|H]; auto. }
  assert (Nc : ~ closed s h) by (intros Hc; destruct (k3 h Hc) as (_ & Np); congruence).
  constructor; change (len s2) with (len s); change (s_nexth B s2) with (s_nexth B s).
  - intros r Hr. change (gref s2 r) with (gref s r). split; [apply k1; auto | discriminate].
  - exact k2.
  - exact kx.
  - intros z Hz. apply Cl in Hz. split; [|discriminate]. destruct Hz as [->|Hz]; [apply kp; auto | apply k3; auto].
  - intros r Hr O L Hc. change (gref s2 r) with (gref s r) in *. apply Cl in Hc. destruct Hc as [Hc|Hc].
    + destruct (k1 r Hr) as (_ & Np). congruence.
    + revert Hc. apply k4; auto.
  - cbn. constructor; auto.
  - intros z Hz _. destruct (Nat.eq_dec z h) as [->|Nz]; [right; apply Cl; auto|].
    destruct (k6 z Hz ltac:(congruence)) as [H|H]; [left; exact H | right; apply Cl; auto].
  - intros r Hr O L. change (gref s2 r) with (gref s r) in *. apply Cl. right. apply k7; auto.
  - discriminate.
  - exact k8.
Qed.

(** ---- the DecRef cascade ---- *)
Lemma sl_remove_child n r s : same_life s (remove_child B n r s).
Proof.
  split; [apply sc_remove_child|]. unfold remove_child.
  destruct (alookup _ _ _); [|split; reflexivity]. destruct (alookup _ _ _); split; reflexivity.
Qed.

Lemma decref_K fuel : forall r s d pend,
  RefInvD B s (r :: d) -> KInv s pend -> live_count B s < fuel ->
  KInv (snd (decref B bstep fuel r s)) pend.
Proof.
  induction fuel as [|f IH]; intros r s d pend Inv K Hf; [lia|].
  cbn [decref]. set (x := gref s r) in *.
  assert (Er : (1 <= fr_refs x)%Z).
  { destruct Inv as (N & I2 & I3). assert (Hr : r < length (s_refs B s)) by (apply I3; rewrite cnt_cons, ind_same; lia).
    pose proof (I2 r Hr) as E. rewrite cnt_cons, ind_same in E. fold x in E. lia. }
  assert (Lx : live x = true) by (unfold live; apply Z.ltb_lt; lia).
  destruct (Z.eqb_spec (fr_refs x - 1) 0) as [Z0|NZ].
  - destruct (death_step B r s d Inv Z0) as (D1 & LC1 & Hr & _). cbv zeta in D1, LC1. fold x in D1, LC1.
    replace (fr_refs x - 1)%Z with 0%Z by lia.
    set (s1 := set_ref B r (fr_with_refs x 0) s) in *.
    assert (K2 : forall s2,
               s2 = snd (match fr_xattrOf x with
                         | Some o => decref B bstep f o s1
                         | None => let '(a, s2) := bcall_ B bstep (BClose (fr_file x)) s1 in
                                   (match a with AErr e => Some e | _ => None end, s2)
                         end) ->
               KInv s2 pend /\ RefInvD B s2 (olist (fr_parent x) ++ d) /\ live_count B s2 <= live_count B s1).
    { intros s2 ->. destruct (fr_xattrOf x) as [o|] eqn:EX; cbn [olist app] in D1.
      - assert (K1 : KInv s1 pend) by (apply (K_death_borrow s pend r o); auto).
        destruct (decref_inv2 B bstep f o s1 _ D1 ltac:(lia)) as (D2 & LC2 & _).
        split; [eapply IH; eauto; lia | split; auto].
      - pose proof (K_death_close s pend r K Hr EX Lx) as K1. fold x in K1. fold s1 in K1.
        pose proof (sc_bcall B bstep (BClose (fr_file x)) s1) as SC.
        destruct (bcall_ B bstep (BClose (fr_file x)) s1) as [a s2]. cbn [snd] in *.
        split; [exact K1|]. split; [eapply same_core_inv; eauto|].
        destruct SC as (_ & _ & R & _). unfold live_count. rewrite R. lia. }
    destruct (match fr_xattrOf x with Some o => _ | None => _ end) as [e1 s2].
    destruct (K2 s2 eq_refl) as (K3 & D3 & LC3).
    destruct (fr_parent x) as [p|]; cbn [olist app] in D3; [|exact K3].
    set (s3 := remove_child B (fr_node (gref s2 p)) r s2).
    pose proof (sl_remove_child (fr_node (gref s2 p)) r s2) as SL. fold s3 in SL.
    assert (D4 : RefInvD B s3 (p :: d)) by (eapply same_core_inv; [apply SL | exact D3]).
    assert (LC4 : live_count B s3 = live_count B s2).
    { destruct SL as ((_ & _ & R & _) & _). unfold live_count. rewrite R. reflexivity. }
    pose proof (IH p s3 d pend D4 (K_same_life _ _ _ SL K3) ltac:(lia)) as K5.
    destruct (decref B bstep f p s3) as [e2 s4]. exact K5.
  - cbn [snd]. apply K_set_refs; auto. intros _. rewrite live_refs. fold x. rewrite Lx. apply Z.ltb_lt. lia.
Qed.

Lemma decref_K_ r s d pend : RefInvD B s (r :: d) -> KInv s pend -> KInv (snd (decref_ B bstep r s)) pend.
Proof. intros D K. apply (decref_K _ r s d pend D K). apply fuel_enough. Qed.

(** ---- walkOne ---- *)
Lemma sl_bcall c s : is_close c = false -> same_life s (snd (bcall_ B bstep c s)).
Proof.
  intros H. split; [apply sc_bcall|]. unfold bcall_. destruct (bstep (s_be B s) c). cbn.
  split; [reflexivity | apply closes_cons_other; auto].
Qed.

Lemma sl_path_node_for n nm s : same_life s (snd (path_node_for B n nm s)).
Proof.
  unfold path_node_for. destruct (alookup _ _ _); (split; [repeat split; auto | split; reflexivity]).
Qed.

(** frame for RefInv, effect on the handles: success hands out the next handle (pending), every error path leaves none *)
Lemma walk_one_K from_h from_node nm getattr s :
  KInv s None ->
  let r := walk_one B bstep from_h from_node nm getattr s in
  match fst r with
  | WOk h _ _ => KInv (snd r) (Some h)
  | WFail _ => KInv (snd r) None
  end.
Proof.
  intros K. cbv zeta. unfold walk_one.
  (* the three building blocks *)
  assert (Fr : forall c s0 pend, is_close c = false -> KInv s0 pend -> KInv (snd (bcall_ B bstep c s0)) pend).
  { intros c s0 pend Hc K0. eapply K_same_life; [apply sl_bcall; auto | exact K0]. }
  assert (Pn : forall x s0 pend, KInv s0 pend -> KInv (snd (path_node_for B from_node x s0)) pend).
  { intros x s0 pend K0. eapply K_same_life; [apply sl_path_node_for | exact K0]. }
  set (nh := s_nexth B s).
  assert (Fin : forall m ino bad s0, KInv s0 (Some nh) ->
            let r := match nm with
                     | Some _ => if (bad : bool) then let '(_, s') := bcall_ B bstep (BClose nh) s0 in (WFail EINVAL, s') else (WOk nh m ino, s0)
                     | None => (WOk nh m ino, s0)
                     end in
            match fst r with WOk h _ _ => KInv (snd r) (Some h) | WFail _ => KInv (snd r) None end).
  { intros m ino bad s0 K0. cbv zeta. destruct nm; [|exact K0]. destruct bad; [|exact K0].
    pose proof (K_close_pending s0 nh K0) as K1. destruct (bcall_ B bstep (BClose nh) s0). exact K1. }
  assert (Plain : forall s0, KInv s0 None -> s_nexth B s0 = nh ->
            let r := (let '(a, s1) := bcall_ B bstep (BWalk from_h nm nh) s0 in
                      match a with
                      | AErr e => (WFail e, s1)
                      | AOk m ino | ABadQ m ino =>
                          let bad := match a with ABadQ _ _ => true | _ => false end in
                          let s2 := take_handle B s1 in
                          if getattr then
                            let s3 := match nm with Some x => snd (path_node_for B from_node x s2) | None => s2 end in
                            let '(a2, s4) := bcall_ B bstep (BGetAttr nh) s3 in
                            match a2 with
                            | AErr e => let '(_, s5) := bcall_ B bstep (BClose nh) s4 in (WFail e, s5)
                            | AOk m2 i2 | ABadQ m2 i2 =>
                                match nm with
                                | Some _ => if bad then let '(_, s') := bcall_ B bstep (BClose nh) s4 in (WFail EINVAL, s') else (WOk nh m2 i2, s4)
                                | None => (WOk nh m2 i2, s4)
                                end
                            end
                          else match nm with
                               | Some _ => if bad then let '(_, s') := bcall_ B bstep (BClose nh) s2 in (WFail EINVAL, s') else (WOk nh m ino, s2)
                               | None => (WOk nh m ino, s2)
                               end
                      end) in
            match fst r with WOk h _ _ => KInv (snd r) (Some h) | WFail _ => KInv (snd r) None end).
  { intros s0 K0 N0. cbv zeta.
    pose proof (Fr (BWalk from_h nm nh) s0 None eq_refl K0) as K1.
    pose proof (nexth_bcall B bstep (BWalk from_h nm nh) s0) as N1.
    destruct (bcall_ B bstep (BWalk from_h nm nh) s0) as [a s1]. cbn [snd] in *.
    assert (Ok : forall m ino bad,
      let s2 := take_handle B s1 in
      let r := (if getattr then
                  let s3 := match nm with Some x => snd (path_node_for B from_node x s2) | None => s2 end in
                  let '(a2, s4) := bcall_ B bstep (BGetAttr nh) s3 in
                  match a2 with
                  | AErr e => let '(_, s5) := bcall_ B bstep (BClose nh) s4 in (WFail e, s5)
                  | AOk m2 i2 | ABadQ m2 i2 =>
                      match nm with
                      | Some _ => if (bad : bool) then let '(_, s') := bcall_ B bstep (BClose nh) s4 in (WFail EINVAL, s') else (WOk nh m2 i2, s4)
                      | None => (WOk nh m2 i2, s4)
                      end
                  end
                else match nm with
                     | Some _ => if bad then let '(_, s') := bcall_ B bstep (BClose nh) s2 in (WFail EINVAL, s') else (WOk nh m ino, s2)
                     | None => (WOk nh m ino, s2)
                     end) in
      match fst r with WOk h _ _ => KInv (snd r) (Some h) | WFail _ => KInv (snd r) None end).
    { intros m ino bad. cbv zeta.
      pose proof (K_take_handle s1 K1) as K2. rewrite N1, N0 in K2.
      destruct getattr; [|apply (Fin m ino bad); exact K2].
      assert (K3 : KInv (match nm with Some x => snd (path_node_for B from_node x (take_handle B s1)) | None => take_handle B s1 end) (Some nh)).
      { destruct nm; [apply Pn|]; exact K2. }
      set (s3 := match nm with Some x => _ | None => _ end) in *.
      pose proof (Fr (BGetAttr nh) s3 (Some nh) eq_refl K3) as K4.
      destruct (bcall_ B bstep (BGetAttr nh) s3) as [a2 s4]. cbn [snd] in K4.
      destruct a2 as [m2 i2|e|m2 i2]; [apply (Fin m2 i2 bad); exact K4 | | apply (Fin m2 i2 bad); exact K4].
      pose proof (K_close_pending s4 nh K4) as K5. destruct (bcall_ B bstep (BClose nh) s4). exact K5. }
    destruct a as [m ino|e|m ino]; [apply (Ok m ino false) | exact K1 | apply (Ok m ino true)]. }
  destruct getattr; [|apply Plain; auto].
  pose proof (Fr (BWalkGetAttr from_h nm nh) s None eq_refl K) as K1.
  pose proof (nexth_bcall B bstep (BWalkGetAttr from_h nm nh) s) as N1.
  destruct (bcall_ B bstep (BWalkGetAttr from_h nm nh) s) as [a s1]. cbn [snd] in *.
  destruct a as [m ino|e|m ino].
  - apply (Fin m ino false). pose proof (K_take_handle s1 K1) as K2. rewrite N1 in K2. exact K2.
  - destruct (e =? ENOSYS); [apply Plain; auto | exact K1].
  - apply (Fin m ino true). pose proof (K_take_handle s1 K1) as K2. rewrite N1 in K2. exact K2.
Qed.

(** ---- the use discipline ---- *)
(** [same_use s s']: the step only added calls that are not Close and use handles not closed so far *)
Definition same_use (s s' : st) : Prop :=
  exists added, s_log B s' = added ++ s_log B s /\
                Forall (fun c => is_close c = false /\ forall h, In h (uses c) -> ~ closed s h) added.

Lemma same_use_refl s : same_use s s.
Proof. exists []. split; [reflexivity | constructor]. Qed.

Lemma same_use_closes s s' : same_use s s' -> closes (s_log B s') = closes (s_log B s).
Proof.
  intros (a & E & F). rewrite E. apply closes_app_nonclose. eapply Forall_impl; [|exact F]. intros c (H & _). exact H.
Qed.

Lemma same_use_trans a b c : same_use a b -> same_use b c -> same_use a c.
Proof.
  intros H1 H2. pose proof (same_use_closes a b H1) as EC. destruct H1 as (x & E1 & F1). destruct H2 as (y & E2 & F2).
  exists (y ++ x). split; [rewrite E2, E1, app_assoc; reflexivity|]. apply Forall_app. split; auto.
  eapply Forall_impl; [|exact F2]. intros c0 (Hc & Hu). split; auto. intros h Hh. unfold closed in *. rewrite <- EC. apply Hu; auto.
Qed.

Lemma wf_same_use s s' : same_use s s' -> wf_log (s_log B s) -> wf_log (s_log B s').
Proof.
  intros (a & E & F) W. rewrite E. clear E. induction F as [|c a (Hc & Hu) F IH]; cbn [app]; auto.
  split; auto. intros h Hh. rewrite closes_app_nonclose.
  - apply Hu; auto.
  - eapply Forall_impl; [|exact F]. intros c0 (H & _). exact H.
Qed.

Lemma su_log_same s s' : s_log B s' = s_log B s -> same_use s s'.
Proof. intros E. exists []. split; [exact E | constructor]. Qed.

Lemma su_bcall c s : is_close c = false -> (forall h, In h (uses c) -> ~ closed s h) -> same_use s (snd (bcall_ B bstep c s)).
Proof.
  intros Hc Hu. exists [c]. unfold bcall_. destruct (bstep (s_be B s) c). cbn. split; [reflexivity|]. constructor; auto.
Qed.

(** a Close of a handle not closed before keeps the log well-formed *)
Lemma wf_close h s : wf_log (s_log B s) -> ~ closed s h -> wf_log (s_log B (snd (bcall_ B bstep (BClose h) s))).
Proof.
  intros W N. unfold bcall_. destruct (bstep (s_be B s) (BClose h)). cbn. split; auto. intros h' [<-|[]]. exact N.
Qed.

(** the File of a live fidRef - owner or borrower - is not closed *)
Lemma live_not_closed s pend d : KInv s pend -> RefInvD B s d ->
  forall r, r < len s -> live (gref s r) = true -> ~ closed s (fr_file (gref s r)).
Proof.
  intros K I. assert (Main : forall k r, r <= k -> r < len s -> live (gref s r) = true -> ~ closed s (fr_file (gref s r))).
  { induction k as [|k IH]; intros r Hk Hr L.
    - destruct (fr_xattrOf (gref s r)) as [o|] eqn:EX; [destruct (Kx s pend K r o Hr EX); lia | apply (K4 s pend K r Hr EX L)].
    - destruct (fr_xattrOf (gref s r)) as [o|] eqn:EX; [|apply (K4 s pend K r Hr EX L)].
      destruct (Kx s pend K r o Hr EX) as (Lt & EF). rewrite EF. apply IH; [lia | unfold len in *; lia|].
      (* the origin is counted, hence live *)
      assert (Hc : 0 < C B s o).
      { rewrite C_eq. pose proof (flat_map_ge out_refs (s_refs B s) r dead_ref o Hr) as G. fold (gref s r) in G.
        rewrite cnt_out_refs, L, EX in G. cbn in G. rewrite ind_same in G. lia. }
      destruct (inv_live B s d o I Hc) as (_ & Lv). unfold live. apply Z.ltb_lt. exact Lv. }
  intros r Hr L. apply (Main r r); auto.
Qed.

Lemma log_remove_child n r s : s_log B (remove_child B n r s) = s_log B s.
Proof. unfold remove_child. destruct (alookup _ _ _); auto. destruct (alookup _ _ _); auto. Qed.

Lemma decref_U fuel : forall r s d pend,
  RefInvD B s (r :: d) -> KInv s pend -> live_count B s < fuel -> wf_log (s_log B s) ->
  wf_log (s_log B (snd (decref B bstep fuel r s))).
Proof.
  induction fuel as [|f IH]; intros r s d pend Inv K Hf W; [lia|].
  cbn [decref]. set (x := gref s r) in *.
  assert (Er : (1 <= fr_refs x)%Z).
  { destruct Inv as (N & I2 & I3). assert (Hr : r < length (s_refs B s)) by (apply I3; rewrite cnt_cons, ind_same; lia).
    pose proof (I2 r Hr) as E. rewrite cnt_cons, ind_same in E. fold x in E. lia. }
  assert (Lx : live x = true) by (unfold live; apply Z.ltb_lt; lia).
  destruct (Z.eqb_spec (fr_refs x - 1) 0) as [Z0|NZ]; [|exact W].
  destruct (death_step B r s d Inv Z0) as (D1 & LC1 & Hr & _). cbv zeta in D1, LC1. fold x in D1, LC1.
  replace (fr_refs x - 1)%Z with 0%Z by lia.
  set (s1 := set_ref B r (fr_with_refs x 0) s) in *.
  assert (W1 : wf_log (s_log B s1)) by exact W.
  assert (K2 : forall s2,
             s2 = snd (match fr_xattrOf x with
                       | Some o => decref B bstep f o s1
                       | None => let '(a, s2) := bcall_ B bstep (BClose (fr_file x)) s1 in
                                 (match a with AErr e => Some e | _ => None end, s2)
                       end) ->
             wf_log (s_log B s2) /\ KInv s2 pend /\ RefInvD B s2 (olist (fr_parent x) ++ d) /\ live_count B s2 <= live_count B s1).
  { intros s2 ->. destruct (fr_xattrOf x) as [o|] eqn:EX; cbn [olist app] in D1.
    - assert (K1 : KInv s1 pend) by (apply (K_death_borrow s pend r o); auto).
      destruct (decref_inv2 B bstep f o s1 _ D1 ltac:(lia)) as (D2 & LC2 & _).
      split; [eapply IH; eauto; lia|]. split; [eapply decref_K; eauto; lia | split; auto].
    - pose proof (K_death_close s pend r K Hr EX Lx) as K1. fold x in K1. fold s1 in K1.
      assert (Nc : ~ closed s1 (fr_file x)) by (apply (K4 s pend K r Hr EX Lx)).
      pose proof (wf_close (fr_file x) s1 W1 Nc) as W2.
      pose proof (sc_bcall B bstep (BClose (fr_file x)) s1) as SC.
      destruct (bcall_ B bstep (BClose (fr_file x)) s1) as [a s2]. cbn [snd] in *.
      split; [exact W2|]. split; [exact K1|]. split; [eapply same_core_inv; eauto|].
      destruct SC as (_ & _ & R & _). unfold live_count. rewrite R. lia. }
  destruct (match fr_xattrOf x with Some o => _ | None => _ end) as [e1 s2].
  destruct (K2 s2 eq_refl) as (W3 & K3 & D3 & LC3).
  destruct (fr_parent x) as [p|]; cbn [olist app] in D3; [|exact W3].
  set (s3 := remove_child B (fr_node (gref s2 p)) r s2).
  pose proof (sl_remove_child (fr_node (gref s2 p)) r s2) as SL. fold s3 in SL.
  assert (D4 : RefInvD B s3 (p :: d)) by (eapply same_core_inv; [apply SL | exact D3]).
  assert (LC4 : live_count B s3 = live_count B s2).
  { destruct SL as ((_ & _ & R & _) & _). unfold live_count. rewrite R. reflexivity. }
  assert (W4 : wf_log (s_log B s3)) by (unfold s3; rewrite log_remove_child; exact W3).
  pose proof (IH p s3 d pend D4 (K_same_life _ _ _ SL K3) ltac:(lia) W4) as W5.
  destruct (decref B bstep f p s3) as [e2 s4]. exact W5.
Qed.

Lemma decref_U_ r s d pend :
  RefInvD B s (r :: d) -> KInv s pend -> wf_log (s_log B s) -> wf_log (s_log B (snd (decref_ B bstep r s))).
Proof. intros D K W. apply (decref_U _ r s d pend D K); auto. apply fuel_enough. Qed.

Lemma walk_one_U from_h from_node nm getattr s :
  wf_log (s_log B s) -> ~ closed s from_h -> ~ closed s (s_nexth B s) ->
  wf_log (s_log B (snd (walk_one B bstep from_h from_node nm getattr s))).
Proof.
  intros W Nf Nn. unfold closed in *. unfold walk_one, bcall_, path_node_for, take_handle.
  destruct getattr, nm as [x|]; cbn;
  repeat (match goal with
          | |- context [bstep ?b ?c] => let a := fresh "a" in destruct (bstep b c) as [? a]; destruct a; cbn
          | |- context [if ?b then _ else _] => destruct b; cbn
          | |- context [alookup ?e ?k ?l] => destruct (alookup e k l); cbn
          end);
  repeat split; auto; intros h Hh; cbn in Hh; (destruct Hh as [<-|[]]); auto; cbn; intros [E|E]; auto; try (apply Nn; rewrite <- E at 1; auto).
Qed.
End Life.
