(** Refs/CoherentHist.v — C08_coherent: from the initial state, by induction over
    the list of requests.  (pathB) *)
From Coq Require Import List Arith Bool ZArith Lia.
From P9V Require Import Refs.Model Refs.PathFS Refs.RefProofs Refs.RefStep Refs.FenceProofs
  Refs.TreeInv Refs.CoherentTree Refs.CoherentDefs Refs.CoherentFs Refs.CoherentFrame Refs.CoherentStep Refs.CoherentTreeHyp Refs.CoherentUnlink
  Refs.CoherentRemove Refs.CoherentPanic Refs.CoherentRename.
Import ListNotations.

(** the ghost list is extended at the end of each request *)
Lemma good_extend (s : st) g d : RInvD s d -> Good s g -> Good s (extend g s).
Proof.
  intros RI G. pose proof (G_len _ _ G) as Lg. pose proof (extend_length g s Lg) as Le.
  assert (G' : Good s g) by exact G.
  destruct G as [Gfs Gnt Gnode Gobj Gx Gf Gfi Gp Gnb Gxm Grt Gk Gl].
  constructor; auto; [| |lia].
  - intros r Hr Lv T N. destruct (Gobj r Hr Lv T N) as (i & Ri & Gi). exists i. split; auto. intros _.
    destruct (Nat.lt_ge_cases r (length g)) as [L|L].
    + rewrite extend_old by auto. auto.
    + rewrite extend_new by auto. exact Ri.
  - intros r o Hr E. destruct (Gx r o Hr E) as (A1 & A2 & A3 & A4 & A5). repeat split; auto.
    intros Lv N _. destruct (Nat.lt_ge_cases r (length g)) as [L|L].
    + rewrite !extend_old by lia. auto.
    + rewrite extend_new by auto.
      assert (FP : fpath s r = fpath s o) by (unfold fpath; rewrite A2; reflexivity).
      unfold obj_now. rewrite FP.
      destruct (Nat.lt_ge_cases o (length g)) as [Lo|Lo]; [|rewrite extend_new by lia; reflexivity].
      rewrite extend_old by auto.
      assert (Co : 0 < C pfs s o) by (eapply C_xattr; eauto).
      destruct (inv_live pfs s d o RI Co) as (Lo' & Lvo).
      assert (Nfo : nonf s o). { unfold nonf, is_deleted in *. rewrite <- A3. exact N. }
      destruct (good_coherent' s g d RI G' o Lo' Lvo Nfo) as (i & Ri & Gi). rewrite Ri, Gi; auto.
Qed.

Lemma init_good wga inj : Good (init_state pfs (pfs_init wga inj)) [].
Proof.
  constructor; cbn; try (intros; lia).
  - constructor.
    + intros n x n' x' c H. discriminate.
    + intros n x H. discriminate.
    + constructor.
    + intros d x c H. discriminate.
    + intros d x c H. discriminate.
    + unfold root_ino. cbn. lia.
  - constructor.
    + intros n x n' x' c H. unfold nch, get_node in H. cbn in H. destruct n as [|[|n]]; discriminate.
    + intros n x H. unfold nch, get_node in H. cbn in H. destruct n as [|[|n]]; discriminate.
    + intros n x c H. unfold nch, get_node in H. cbn in H. destruct n as [|[|n]]; discriminate.
    + cbn. lia.
  - intros n. unfold get_node. cbn. destruct n as [|[|n]]; split; constructor.
Qed.

(** the requests covered so far *)
Definition covered (o : op) : Prop :=
  match o with
  | OUnlinkAt _ _ _ | ORemove _ _ | ORename _ _ _ _ | ORenameAt _ _ _ _ _ => False
  | _ => True
  end.

Lemma step_good o : covered o -> gok [] (fun s => snd (step pfs pfs_step o s)).
Proof.
  destruct o; cbn [covered step]; intros Cv; try contradiction.
  - apply gok_attach. - apply gok_walk_op. - apply gok_clunk. - apply gok_open. - apply gok_create.
  - apply gok_mk. - apply gok_link. - apply gok_getattr. - apply gok_use. - apply gok_io.
  - apply gok_setattr. - apply gok_readdir. - apply gok_readlink. - apply gok_xattrwalk. - apply gok_xattrcreate.
  - apply gok_stop.
Qed.

Definition HInv (s : st) (g : list (option nat)) : Prop := RefInv pfs s /\ Good s g /\ length g = rlen s.

Lemma hinv_step o s g : covered o -> HInv s g ->
  let s1 := snd (step pfs pfs_step o s) in HInv s1 (extend g s1).
Proof.
  intros Cv (RI & G & L). cbv zeta.
  destruct (step_ok pfs pfs_step o s [] RI ltac:(intros x [])) as (RI1 & _).
  pose proof (step_good o Cv s [] g RI ltac:(intros x []) G) as G1. cbv beta in G1.
  split; [exact RI1|]. split; [eapply good_extend; eauto|]. apply extend_length. apply (G_len _ _ G1).
Qed.

Lemma hinv_run ops : forall s g, Forall covered ops -> HInv s g -> HInv (fst (run_g ops s g)) (snd (run_g ops s g)).
Proof.
  induction ops as [|o ops IH]; intros s g F H; [exact H|].
  inversion F; subst. cbn [run_g]. apply IH; auto. apply hinv_step; auto.
Qed.

Theorem coherent_history_covered ops wga inj :
  Forall covered ops ->
  let r := run_g ops (init_state pfs (pfs_init wga inj)) [] in coherent (fst r) (snd r).
Proof.
  intros F. cbv zeta.
  assert (H0 : HInv (init_state pfs (pfs_init wga inj)) []).
  { split; [apply init_inv|]. split; [apply init_good | reflexivity]. }
  destruct (hinv_run ops _ _ F H0) as (RI & G & L). eapply good_coherent; eauto.
Qed.

(** ---- every request ---- *)
Lemma step_goodT o : gokT [] (fun s => snd (step pfs pfs_step o s)).
Proof.
  destruct o; try (apply gok_gokT; apply step_good; exact I); cbn [step].
  - apply gokT_remove. - apply gokT_unlinkat. - apply gokT_rename. - apply gokT_renameat.
Qed.

(** serverB's tree invariant (Refs/TreeInv.v: tree_ok - a theorem, TreeStep.tree_inv_history) after every prefix *)
Definition TreeHyp (ops : list op) (s0 : st) : Prop :=
  forall pre post, ops = pre ++ post -> tree_ok pfs (snd (run pfs pfs_step pre s0)).

Lemma hinv_stepT o s g : HInv s g -> TH s -> s_panic pfs (snd (step pfs pfs_step o s)) = false ->
  let s1 := snd (step pfs pfs_step o s) in HInv s1 (extend g s1).
Proof.
  intros (RI & G & L) TT HP. cbv zeta.
  destruct (step_ok pfs pfs_step o s [] RI ltac:(intros x [])) as (RI1 & _).
  pose proof (step_goodT o s [] g RI ltac:(intros x []) TT G HP) as G1. cbv beta in G1.
  split; [exact RI1|]. split; [eapply good_extend; eauto|]. apply extend_length. apply (G_len _ _ G1).
Qed.

Lemma run_cons o pre (s : st) : snd (run pfs pfs_step (o :: pre) s) = snd (run pfs pfs_step pre (snd (step pfs pfs_step o s))).
Proof. cbn [run]. destruct (step pfs pfs_step o s) as [r s1]. cbn [snd]. destruct (run pfs pfs_step pre s1). reflexivity. Qed.

(** the panic flag is sticky along a history (RefStep.run_ok: [led] contains the monotonicity of s_panic) *)
Lemma panic_run ops (s : st) : RefInv pfs s -> s_panic pfs (snd (run pfs pfs_step ops s)) = false -> s_panic pfs s = false.
Proof.
  intros RI H. destruct (run_ok pfs pfs_step ops s RI) as (_ & (PM & _)).
  destruct (s_panic pfs s) eqn:E; auto. rewrite (PM E) in H. discriminate.
Qed.

Lemma hinv_runT ops : forall s g, TreeHyp ops s -> s_panic pfs (snd (run pfs pfs_step ops s)) = false ->
  HInv s g -> HInv (fst (run_g ops s g)) (snd (run_g ops s g)).
Proof.
  induction ops as [|o ops IH]; intros s g TH0 HP H; [exact H|].
  cbn [run_g]. rewrite run_cons in HP.
  assert (H1 : HInv (snd (step pfs pfs_step o s)) (extend g (snd (step pfs pfs_step o s)))).
  { apply hinv_stepT; auto; [apply (TH0 [] (o :: ops)); reflexivity|].
    destruct H as (RI & _). destruct (step_ok pfs pfs_step o s [] RI ltac:(intros x [])) as (RI1 & _).
    apply (panic_run ops _ RI1 HP). }
  apply IH; auto.
  intros pre post E. rewrite <- run_cons. apply (TH0 (o :: pre) post). rewrite E. reflexivity.
Qed.

(** C08_coherent: every history (all twenty request kinds), PathFS, any failure injection *)
Theorem coherent_history ops wga inj :
  TreeHyp ops (init_state pfs (pfs_init wga inj)) ->
  s_panic pfs (snd (run pfs pfs_step ops (init_state pfs (pfs_init wga inj)))) = false ->
  let r := run_g ops (init_state pfs (pfs_init wga inj)) [] in coherent (fst r) (snd r).
Proof.
  intros TH0 HP. cbv zeta.
  assert (H0 : HInv (init_state pfs (pfs_init wga inj)) []).
  { split; [apply init_inv|]. split; [apply init_good | reflexivity]. }
  destruct (hinv_runT ops _ _ TH0 HP H0) as (RI & G & L). eapply good_coherent; eauto.
Qed.

(** ---- unconditionally: PathFS histories never set the panic flag ---- *)
Lemma hinv_runU ops : forall s g, TreeHyp ops s -> HInv s g -> s_panic pfs s = false ->
  HInv (fst (run_g ops s g)) (snd (run_g ops s g)) /\ s_panic pfs (fst (run_g ops s g)) = false.
Proof.
  induction ops as [|o ops IH]; intros s g TH0 H P; [split; auto|].
  cbn [run_g].
  assert (T0 : TH s) by (apply (TH0 [] (o :: ops)); reflexivity).
  destruct H as (RI & G & L).
  destruct (step_np o s [] g RI ltac:(intros x []) T0 G (npi_of_tree s T0) P) as (_ & P1). cbv beta in P1.
  assert (H1 : HInv (snd (step pfs pfs_step o s)) (extend g (snd (step pfs pfs_step o s)))).
  { apply hinv_stepT; auto. split; auto. }
  apply IH; auto.
  intros pre post E. rewrite <- run_cons. apply (TH0 (o :: pre) post). rewrite E. reflexivity.
Qed.

Theorem coherent_history_u ops wga inj :
  TreeHyp ops (init_state pfs (pfs_init wga inj)) ->
  let r := run_g ops (init_state pfs (pfs_init wga inj)) [] in
  coherent (fst r) (snd r) /\ s_panic pfs (fst r) = false /\ HInv (fst r) (snd r).
Proof.
  intros TH0. cbv zeta.
  assert (H0 : HInv (init_state pfs (pfs_init wga inj)) []).
  { split; [apply init_inv|]. split; [apply init_good | reflexivity]. }
  destruct (hinv_runU ops _ _ TH0 H0 eq_refl) as ((RI & G & L) & P).
  split; [eapply good_coherent; eauto|]. split; [exact P|]. split; [exact RI|]. split; [exact G | exact L].
Qed.
