(** Refs/NotifiedRename.v — C08_notified for a whole renameChildTo (PathFS backend): the Renamed calls are,
    in this order, (level 0) one Renamed(File of q, File of the target, new name) for EVERY fidRef q registered
    under the old name in the state before the request - all of them are live (tree_ok) and none dies before it
    is visited (CoherentRenFrame.decref_cnt: a DecRef cascade changes counts only along the parent / xattrOf
    chain; CoherentRename.r_chain: the chains of the old parents stay on the way to the source directory) -
    then (below) the calls of notifyNameChange on the moved node ([deep_calls] = NotifiedDeep.tell over
    NotifiedDeep.below: every registered live fidRef at or below the moved node, its parent's File, its name,
    a node's childRefs before its child nodes).  Nothing else is told.  (pathB) *)
From Coq Require Import List Arith Bool ZArith Lia.
From P9V Require Import Refs.Model Refs.PathFS Refs.RefProofs Refs.RefStep Refs.FenceProofs Refs.TreeInv Refs.NotifiedDeep
  Refs.CoherentTree Refs.CoherentDefs Refs.CoherentFs Refs.CoherentFrame Refs.CoherentStep Refs.CoherentTreeHyp
  Refs.CoherentRenFs Refs.CoherentRenFrame Refs.CoherentRenLoop Refs.CoherentRename Refs.CoherentHist.
Import ListNotations.

(** the fidRefs registered in node n under a name *)
Definition regd (s : st) (n nm : nat) : list nat :=
  match alookup Nat.eqb nm (pn_refs (gnode s n)) with Some m => m | None => [] end.

Theorem notified_rename (s : st) d g xr t old new :
  RInvD s d -> TH s -> Good s g -> 0 < hc s t ->
  xr < rlen s -> live s xr -> tref s xr -> nonf s xr -> tref s t -> nonf s t ->
  (fr_node (gref s xr), old) <> (fr_node (gref s t), new) ->
  let r := bcall_ pfs pfs_step (BRenameAt (fr_file (gref s xr)) old (fr_file (gref s t)) new) s in
  (forall e, fst r <> AErr e) ->
  let res := rename_child_to pfs pfs_step (fr_node (gref s xr)) old t new (snd r) in
  s_panic pfs res = false ->
  rcalls res = rcalls s
     ++ map (fun q => BRenamed (fr_file (gref s q)) (fr_file (gref s t)) new) (regd s (fr_node (gref s xr)) old)
     ++ deep_calls s xr t old new (snd r) /\
  (forall q, In q (regd s (fr_node (gref s xr)) old) ->
     q < rlen s /\ live s q /\ exists p, fr_parent (gref s q) = Some p /\ fr_node (gref s p) = fr_node (gref s xr)).
Proof.
  intros Inv TT G Hc Lx Lvx Tx Nfx Tt Nft NE. cbv zeta.
  destruct (bcall_be (BRenameAt (fr_file (gref s xr)) old (fr_file (gref s t)) new) s) as (E1 & E2 & E3 & E4 & E5 & E6 & E7 & E8).
  destruct (held_live s d t Inv Hc) as (Lt & Lvt).
  pose proof (pfs_step_renameat (s_be pfs s) (fr_file (gref s xr)) old (fr_file (gref s t)) new (G_fs _ _ G)) as PR. cbv zeta in PR.
  rewrite <- E1, <- E2 in PR.
  assert (RL : rcalls (snd (bcall_ pfs pfs_step (BRenameAt (fr_file (gref s xr)) old (fr_file (gref s t)) new) s)) = rcalls s).
  { unfold rcalls, calls, bcall_. destruct (pfs_step (s_be pfs s) _). cbn [snd s_log rev]. rewrite filter_app. cbn. apply app_nil_r. }
  destruct (bcall_ pfs pfs_step (BRenameAt (fr_file (gref s xr)) old (fr_file (gref s t)) new) s) as [a s1]. cbn [fst snd] in *.
  intros NA HP.
  destruct PR as [((e & Ea) & FS) | [(FS & R12 & Eon & RS) | (Ea & dd1 & dd2 & xx & M)]].
  - exfalso. eapply NA; eauto.
  - exfalso. apply NE. subst new. f_equal.
    fold (fpath s xr) (fpath s t) in R12, RS.
    destruct (resolve (s_be pfs s) (fpath s xr)) as [i|] eqn:R1; [|congruence]. symmetry in R12.
    rewrite resolve_walk in R1, R12.
    pose proof (walk_inj (entry (s_be pfs s)) root_ino (F_up _ (G_fs _ _ G)) (F_noroot _ (G_fs _ _ G)) _ _ _ R1 R12) as EP.
    pose proof (G_node _ _ G xr Lx Lvx Tx Nfx) as W1. pose proof (G_node _ _ G t Lt Lvt Tt Nft) as W2. rewrite EP in W1. congruence.
  - assert (EE : s_refs pfs s1 = s_refs pfs s /\ s_nodes pfs s1 = s_nodes pfs s /\ s_nexth pfs s1 = s_nexth pfs s /\
                 s_fids pfs s1 = s_fids pfs s /\ s_held pfs s1 = s_held pfs s /\ s_panic pfs s1 = s_panic pfs s) by (repeat split; auto).
    assert (HX : xr < rlen s /\ live s xr /\ tref s xr /\ nonf s xr) by auto.
    pose proof (r_result_log s d g xr t old new s1 dd1 dd2 xx Inv TT G Hc HX (conj Tt Nft) NE EE M HP) as RLg.
    assert (Eml : ml s xr t old new s1 = regd s (fr_node (gref s xr)) old).
    { unfold ml, regd. rewrite (r_ml_lookup s xr t old new s1 dd1 dd2 xx NE EE M). reflexivity. }
    destruct (r_sa s d g xr t new s1 Inv G Hc HX EE) as (GA & _).
    split.
    + rewrite RLg, RL, Eml. f_equal. f_equal. apply map_ext. intros q. unfold told0. rewrite !GA. reflexivity.
    + intros q Hq. rewrite <- Eml in Hq.
      destruct (r_ml s g xr t old new s1 dd1 dd2 xx TT G HX NE EE M q Hq) as (A1 & A2 & _ & _ & p & A3 & _ & A4). split; auto. split; auto. eauto.
Qed.

(** every history: the hypotheses of [notified_rename] on the state hold in every state reached by a PathFS
    history that ends without the panic flag, and are kept by LookupFID ([hold]) - so the theorem applies to the
    renameChildTo of every Trename / Trenameat of every such history *)
Definition reach_inv (s : st) : Prop := exists g, RefInv pfs s /\ TH s /\ Good s g.

Theorem reach_inv_history ops wga inj :
  (forall pre post, ops = pre ++ post -> tree_ok pfs (snd (run pfs pfs_step pre (init_state pfs (pfs_init wga inj))))) ->
  reach_inv (snd (run pfs pfs_step ops (init_state pfs (pfs_init wga inj)))) /\
  s_panic pfs (snd (run pfs pfs_step ops (init_state pfs (pfs_init wga inj)))) = false.
Proof.
  intros TH0. destruct (coherent_history_u ops wga inj TH0) as (_ & P & (RI & G & _)). rewrite run_g_run in RI, G, P.
  split; [|exact P].
  exists (snd (run_g ops (init_state pfs (pfs_init wga inj)) [])). split; [exact RI|]. split; [|exact G].
  apply (TH0 ops []). rewrite app_nil_r. reflexivity.
Qed.

Lemma reach_inv_hold r (s : st) d g : RInvD s d -> TH s -> Good s g -> live s r -> r < rlen s ->
  RInvD (hold pfs r s) d /\ TH (hold pfs r s) /\ Good (hold pfs r s) g.
Proof.
  intros I TT G Lv Lr. split; [apply hold_inv_live; auto|]. split.
  - eapply TH_tsame; [apply tsame_hold; exact Lv | exact TT].
  - eapply shrink_good; [apply sh_hold; exact Lv | exact G].
Qed.
