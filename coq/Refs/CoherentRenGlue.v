(** Refs/CoherentRenGlue.v — C08_coherent, rename: what markChildDeleted leaves of the
    registrations, and that notifyDelete marks nothing but the nodes below the victim.  (pathB) *)
From Coq Require Import List Arith Bool ZArith Lia.
From P9V Require Import Refs.Model Refs.PathFS Refs.RefProofs Refs.RefStep Refs.FenceProofs
  Refs.CoherentTree Refs.CoherentDefs Refs.CoherentFs Refs.CoherentFrame Refs.CoherentStep Refs.CoherentUnlink.
Import ListNotations.

(** ---- registrations under markChildDeleted ---- *)
Lemma refs_notify_delete fuel : forall n (s : st) k, pn_refs (gnode (notify_delete pfs fuel n s) k) = pn_refs (gnode s k).
Proof.
  induction fuel as [|f IH]; intros n s k; cbn [notify_delete]; [reflexivity|].
  assert (E1 : pn_refs (gnode (set_node pfs n (pn_with_deleted (get_node pfs s n)) s) k) = pn_refs (gnode s k)).
  { rewrite gnode_set_node. destruct ((k =? n) && (n <? nlen s)) eqn:X; auto.
    apply andb_prop in X. destruct X as (X & _). apply Nat.eqb_eq in X. subst. reflexivity. }
  revert E1. generalize (set_node pfs n (pn_with_deleted (get_node pfs s n)) s). generalize (pn_nodes (get_node pfs s n)).
  intros l. induction l as [|a l IHl]; intros s0 E0; cbn [fold_left]; auto. apply IHl. rewrite IH. exact E0.
Qed.

Lemma refs_rwn_none n nm m : forall held (s : st),
  let s1 := snd (rwn_loop pfs n nm None m held s) in
  (forall k, k <> n -> gnode s1 k = gnode s k) /\
  (forall x, x <> nm -> alookup Nat.eqb x (pn_refs (gnode s1 n)) = alookup Nat.eqb x (pn_refs (gnode s n))).
Proof.
  induction m as [|r m IH]; intros held s; cbn [rwn_loop]; [split; auto|]. cbv zeta.
  destruct (IH held (set_node pfs n (pn_with_refs (get_node pfs s n)
      (aset Nat.eqb nm (remove_nat r match alookup Nat.eqb nm (pn_refs (get_node pfs s n)) with Some l => l | None => [] end) (pn_refs (get_node pfs s n)))
      (adel Nat.eqb r (pn_names (get_node pfs s n)))) s)) as (A & B).
  split.
  - intros k Hk. rewrite A by auto. rewrite gnode_set_node. destruct (Nat.eqb_spec k n); [congruence | reflexivity].
  - intros x Hx. rewrite B by auto. rewrite gnode_set_node, Nat.eqb_refl. cbn [andb].
    destruct (n <? nlen s); [|reflexivity]. cbn [pn_refs pn_with_refs]. rewrite (alookup_aset Nat.eqb Nat.eqb_spec).
    destruct (Nat.eqb_spec x nm); [congruence | reflexivity].
Qed.

Lemma mcd_refs n nm (s : st) :
  let s' := mark_child_deleted pfs pfs_step n nm s in
  (forall k, k <> n -> pn_refs (gnode s' k) = pn_refs (gnode s k)) /\
  (forall x, x <> nm -> alookup Nat.eqb x (pn_refs (gnode s' n)) = alookup Nat.eqb x (pn_refs (gnode s n))).
Proof.
  cbv zeta. unfold mark_child_deleted, remove_with_name.
  set (lp := match alookup Nat.eqb nm (pn_refs (get_node pfs s n)) with
             | Some m => rwn_loop pfs n nm None m [] s | None => ([], s) end).
  assert (H1 : fst lp = [] /\ (forall k, k <> n -> gnode (snd lp) k = gnode s k) /\
               (forall x, x <> nm -> alookup Nat.eqb x (pn_refs (gnode (snd lp) n)) = alookup Nat.eqb x (pn_refs (gnode s n)))).
  { unfold lp. destruct (alookup Nat.eqb nm (pn_refs (get_node pfs s n))) as [m|]; [|cbn; auto].
    split; [apply held_rwn_none | apply refs_rwn_none]. }
  destruct lp as [held s1]. cbn [fst snd] in H1. destruct H1 as (-> & A & B). cbn [release_all].
  set (s2 := set_node pfs n (pn_with_nodes (get_node pfs s1 n) (adel Nat.eqb nm (pn_nodes (get_node pfs s1 n)))) s1).
  assert (R2 : forall k, pn_refs (gnode s2 k) = pn_refs (gnode s1 k)).
  { intros k. unfold s2. rewrite gnode_set_node. destruct ((k =? n) && (n <? nlen s1)) eqn:X; auto.
    apply andb_prop in X. destruct X as (X & _). apply Nat.eqb_eq in X. subst. reflexivity. }
  assert (Fin : forall s3, (forall k, pn_refs (gnode s3 k) = pn_refs (gnode s2 k)) ->
     (forall k, k <> n -> pn_refs (gnode s3 k) = pn_refs (gnode s k)) /\
     (forall x, x <> nm -> alookup Nat.eqb x (pn_refs (gnode s3 n)) = alookup Nat.eqb x (pn_refs (gnode s n)))).
  { intros s3 R3. split; [intros k Hk; rewrite R3, R2, A by auto; reflexivity | intros x Hx; rewrite R3, R2; apply B; auto]. }
  destruct (alookup Nat.eqb nm (pn_nodes (get_node pfs s1 n))); apply Fin; auto. intros k. apply refs_notify_delete.
Qed.

(** ---- notifyDelete marks only what it reaches ---- *)
Lemma nch_nodes_same (s s' : st) : nodes_same pfs s s' -> forall a x, nch s' a x = nch s a x.
Proof. intros (_ & N) a x. unfold nch. change (gnode ?t a) with (FenceProofs.gnode pfs t a). rewrite N. reflexivity. Qed.

Lemma nd_only fuel : forall n (s : st) m, rkeys s ->
  pn_deleted (gnode (notify_delete pfs fuel n s) m) = true ->
  pn_deleted (gnode s m) = true \/ exists sg, walk (nch s) n sg = Some m.
Proof.
  induction fuel as [|f IH]; intros n s m K H; cbn [notify_delete] in H; [left; exact H|].
  set (s1 := set_node pfs n (pn_with_deleted (get_node pfs s n)) s) in *.
  assert (NS1 : nodes_same pfs s s1) by (apply ns_set_node; reflexivity).
  assert (K1 : rkeys s1) by (apply rk_set_node; auto).
  assert (D1 : pn_deleted (gnode s1 m) = true -> pn_deleted (gnode s m) = true \/ m = n).
  { unfold s1. rewrite gnode_set_node. destruct ((m =? n) && (n <? nlen s)) eqn:X; auto.
    apply andb_prop in X. destruct X as (X & _). apply Nat.eqb_eq in X. auto. }
  assert (Fold : forall l st, nodes_same pfs s st -> rkeys st -> incl l (pn_nodes (gnode s n)) ->
            pn_deleted (gnode (fold_left (fun st c => notify_delete pfs f (snd c) st) l st) m) = true ->
            pn_deleted (gnode st m) = true \/ exists sg, walk (nch s) n sg = Some m).
  { induction l as [|[x c] l IHl]; intros st NS Kst Hl Hm; cbn [fold_left] in Hm; [left; exact Hm|].
    assert (NS' : nodes_same pfs s (notify_delete pfs f c st)) by (eapply nodes_same_trans; [exact NS | apply ns_notify_delete]).
    destruct (IHl _ NS' (rk_notify_delete f c st Kst) (fun e He => Hl e (or_intror He)) Hm) as [Hd|Hw]; [|right; exact Hw].
    cbn [snd] in Hd. destruct (IH c st m Kst Hd) as [Hd'|(sg & W)]; [left; exact Hd'|]. right.
    exists (x :: sg). cbn [walk].
    assert (E : nch s n x = Some c). { unfold nch. apply (In_alookup Nat.eqb Nat.eqb_spec); [apply (proj2 (K n)) | apply Hl; left; reflexivity]. }
    rewrite E. rewrite <- W. apply walk_eq. intros a y. symmetry. apply nch_nodes_same. exact NS. }
  destruct (Fold (pn_nodes (get_node pfs s n)) s1 NS1 K1 (incl_refl _) H) as [Hd|Hw]; [|right; exact Hw].
  destruct (D1 Hd) as [Hd'| ->]; [left; exact Hd' | right; exists []; reflexivity].
Qed.

Lemma mcd_only n nm (s : st) m : n < nlen s -> rkeys s ->
  pn_deleted (gnode (mark_child_deleted pfs pfs_step n nm s) m) = true ->
  pn_deleted (gnode s m) = true \/ exists v sg, nch s n nm = Some v /\ walk (nch s) v sg = Some m.
Proof.
  intros Hn K. unfold mark_child_deleted, remove_with_name.
  set (lp := match alookup Nat.eqb nm (pn_refs (get_node pfs s n)) with
             | Some m => rwn_loop pfs n nm None m [] s | None => ([], s) end).
  assert (H1 : fst lp = [] /\ nodes_same pfs s (snd lp) /\ rkeys (snd lp) /\ (forall k, pn_deleted (gnode (snd lp) k) = pn_deleted (gnode s k))).
  { unfold lp. destruct (alookup Nat.eqb nm (pn_refs (get_node pfs s n))) as [l|];
      [|cbn [fst snd]; split; [reflexivity|]; split; [apply nodes_same_refl|]; split; [exact K | reflexivity]].
    split; [apply held_rwn_none|]. split; [apply ns_rwn_none|]. split; [apply rk_rwn_none; auto | apply del_rwn_none]. }
  destruct lp as [held s1]. cbn [fst snd] in H1. destruct H1 as (-> & NS1 & K1 & D1). cbn [release_all].
  set (s2 := set_node pfs n (pn_with_nodes (get_node pfs s1 n) (adel Nat.eqb nm (pn_nodes (get_node pfs s1 n)))) s1).
  assert (K2 : rkeys s2).
  { apply rk_set_node; auto. intros Kn. apply pkeys_with_nodes; auto. apply (gadel_nodup Nat.eqb Nat.eqb_spec). apply Kn. }
  assert (D2 : forall k, pn_deleted (gnode s2 k) = pn_deleted (gnode s k)).
  { intros k. unfold s2. rewrite gnode_set_node. destruct ((k =? n) && (n <? nlen s1)) eqn:X; [|apply D1].
    apply andb_prop in X. destruct X as (X & _). apply Nat.eqb_eq in X. subst. cbn. apply D1. }
  assert (Sub : forall a x c, nch s2 a x = Some c -> nch s a x = Some c).
  { intros a x c. unfold nch, s2. rewrite gnode_set_node. destruct ((a =? n) && (n <? nlen s1)) eqn:X.
    - apply andb_prop in X. destruct X as (X & _). apply Nat.eqb_eq in X. subst a. cbn [pn_nodes pn_with_nodes].
      rewrite (alookup_adel Nat.eqb Nat.eqb_spec). destruct (x =? nm); [discriminate|]. intros H. change (nch s n x = Some c). rewrite <- (nch_nodes_same s s1 NS1 n x). exact H.
    - intros H. change (nch s a x = Some c). rewrite <- (nch_nodes_same s s1 NS1 a x). exact H. }
  fold (gnode s1 n). destruct (alookup Nat.eqb nm (pn_nodes (gnode s1 n))) as [v|] eqn:Ev.
  - intros H. destruct (nd_only _ v s2 m K2 H) as [Hd|(sg & W)]; [left; rewrite <- D2; exact Hd|]. right.
    exists v, sg. split; [rewrite <- (nch_nodes_same s s1 NS1); exact Ev | eapply walk_ext; eauto].
  - intros H. left. rewrite <- D2. exact H.
Qed.
