(** Refs/CoherentRenGlue.v — C08_coherent, rename: what markChildDeleted leaves of the
    registrations, and that notifyDelete marks nothing but the nodes below the victim.  (pathB) *)
From Coq Require Import List Arith Bool ZArith Lia.
From P9V Require Import Refs.Model Refs.PathFS Refs.RefProofs Refs.RefStep Refs.FenceProofs
  Refs.CoherentTree Refs.CoherentDefs Refs.CoherentFs Refs.CoherentFrame Refs.CoherentStep Refs.CoherentUnlink.
Import ListNotations.

(** ---- registrations under markChildDeleted ---- *)
Lemma refs_notify_delete fuel : forall n (s : st) k, pn_refs (gnode (notify_delete pfs fuel n s) k) = pn_refs (gnode s k).
Proof.
  induction fuel as [|f IH]; intros n s k; cbn [notify_delete]; [reflexivity|].
  assert (E1 : pn_refs (gnode (set_node pfs n (pn_with_deleted (get_node pfs s n)) s) k) = pn_refs (gnode s k)).
  { rewrite gnode_set_node. destruct ((k =? n) && (n <? nlen s)) eqn:X; auto.
    apply andb_prop in X. destruct X as (X & _). apply Nat.eqb_eq in X. subst. reflexivity. }
  revert E1. generalize (set_node pfs n (pn_with_deleted (get_node pfs s n)) s). generalize (pn_nodes (get_node pfs s n)).
  intros l. induction l as [|a l IHl]; intros s0 E0; cbn [fold_left]; auto. apply IHl. rewrite IH. exact E0.
Qed.

Lemma refs_rwn_none n nm m : forall held (s : st),
  let s1 := snd (rwn_loop pfs n nm None m held s) in
  (forall k, k <> n -> gnode s1 k = gnode s k) /\
  (forall x, x <> nm -> alookup Nat.eqb x (pn_refs (gnode s1 n)) = alookup Nat.eqb x (pn_refs (gnode s n))).
Proof.
  induction m as [|r m IH]; intros held s; cbn [rwn_loop]; [split; auto|]. cbv zeta.
  destruct (IH held (set_node pfs n (pn_with_refs (get_node pfs s n)
      (aset Nat.eqb nm (remove_nat r match alookup Nat.eqb nm (pn_refs (get_node pfs s n)) with Some l => l | None => [] end) (pn_refs (get_node pfs s n)))
      (adel Nat.eqb r (pn_names (get_node pfs s n)))) s)) as (A & B).
  split.
  - intros k Hk. rewrite A by auto. rewrite gnode_set_node. destruct (Nat.eqb_spec k n); [congruence | reflexivity].
  - intros x Hx. rewrite B by auto. rewrite gnode_set_node, Nat.eqb_refl. cbn [andb].
    destruct (n <? nlen s); [|reflexivity]. cbn [pn_refs pn_with_refs]. rewrite (alookup_aset Nat.eqb Nat.eqb_spec).
    destruct (Nat.eqb_spec x nm); [congruence | reflexivity].
Qed.

Lemma mcd_refs n nm (s : st) :
  let s' := mark_child_deleted pfs pfs_step n nm s in
  (forall k, k <> n -> pn_refs (gnode s' k) = pn_refs (gnode s k)) /\
  (forall x, x <> nm -> alookup Nat.eqb x (pn_refs (gnode s' n)) = alookup Nat.eqb x (pn_refs (gnode s n))).
Proof.
  cbv zeta. unfold mark_child_deleted, remove_with_name.
  set (lp := match alookup Nat.eqb nm (pn_refs (get_node pfs s n)) with
             | Some m => rwn_loop pfs n nm None m [] s | None => ([], s) end).
  assert (H1 : fst lp = [] /\ (forall k, k <> n -> gnode (snd lp) k = gnode s k) /\
               (forall x, x <> nm -> alookup Nat.eqb x (pn_refs (gnode (snd lp) n)) = alookup Nat.eqb x (pn_refs (gnode s n)))).
  { unfold lp. destruct (alookup Nat.eqb nm (pn_refs (get_node pfs s n))) as [m|]; [|cbn; auto].
    split; [apply held_rwn_none | apply refs_rwn_none]. }
  destruct lp as [held s1]. cbn [fst snd] in H1. destruct H1 as (-> & A & B). cbn [release_all].
  set (s2 := set_node pfs n (pn_with_nodes (get_node pfs s1 n) (adel Nat.eqb nm (pn_nodes (get_node pfs s1 n)))) s1).
  assert (R2 : forall k, pn_refs (gnode s2 k) = pn_refs (gnode s1 k)).
  { intros k. unfold s2. rewrite gnode_set_node. destruct ((k =? n) && (n <? nlen s1)) eqn:X; auto.
    apply andb_prop in X. destruct X as (X & _). apply Nat.eqb_eq in X. subst. reflexivity. }
  assert (Fin : forall s3, (forall k, pn_refs (gnode s3 k) = pn_refs (gnode s2 k)) ->
     (forall k, k <> n -> pn_refs (gnode s3 k) = pn_refs (gnode s k)) /\
     (forall x, x <> nm -> alookup Nat.eqb x (pn_refs (gnode s3 n)) = alookup Nat.eqb x (pn_refs (gnode s n)))).
  { intros s3 R3. split; [intros k Hk; rewrite R3, R2, A by auto; reflexivity | intros x Hx; rewrite R3, R2; apply B; auto]. }
  destruct (alookup Nat.eqb nm (pn_nodes (get_node pfs s1 n))); apply Fin; auto. intros k. apply refs_notify_delete.
Qed.

