(** Refs/CoherentPanicLoop.v — no run-time panic in the level-0 loop of a rename (removeWithName with
    renameChildTo's callback): addChild finds the fidRef unregistered (it was just unregistered from the
    source node, and is registered nowhere else), the parent link is there, the DecRef cascades keep the
    node invariant.  (pathB) *)
From Coq Require Import List Arith Bool ZArith Lia.
From P9V Require Import Refs.Model Refs.PathFS Refs.RefProofs Refs.RefStep Refs.FenceProofs Refs.NotifiedDeep
  Refs.CoherentTree Refs.CoherentDefs Refs.CoherentFs Refs.CoherentFrame Refs.CoherentStep Refs.CoherentUnlink
  Refs.CoherentPanic Refs.CoherentRenFs Refs.CoherentRenFrame Refs.CoherentRenLoop.
Import ListNotations.

(** markChildDeleted only unregisters *)
Lemma names_notify_delete fuel : forall n (s : st) k, pn_names (gnode (notify_delete pfs fuel n s) k) = pn_names (gnode s k).
Proof.
  induction fuel as [|f IH]; intros n s k; cbn [notify_delete]; [reflexivity|].
  assert (E1 : pn_names (gnode (set_node pfs n (pn_with_deleted (get_node pfs s n)) s) k) = pn_names (gnode s k)).
  { rewrite gnode_set_node. destruct ((k =? n) && (n <? nlen s)) eqn:X; auto.
    apply andb_prop in X. destruct X as (X & _). apply Nat.eqb_eq in X. subst. reflexivity. }
  revert E1. generalize (set_node pfs n (pn_with_deleted (get_node pfs s n)) s). generalize (pn_nodes (get_node pfs s n)).
  intros l. induction l as [|a l IHl]; intros s0 E0; cbn [fold_left]; auto. apply IHl. rewrite IH. exact E0.
Qed.

Definition nsub (s s' : st) : Prop :=
  forall n q, alookup Nat.eqb q (pn_names (gnode s' n)) <> None -> alookup Nat.eqb q (pn_names (gnode s n)) <> None.

Lemma nsub_rwn_none n nm m : forall held (s : st), nsub s (snd (rwn_loop pfs n nm None m held s)).
Proof.
  induction m as [|r m IH]; intros held s; cbn [rwn_loop]; [intros k q H; exact H|]. cbv zeta.
  intros k q H. apply IH in H. rewrite gnode_set_node in H. destruct ((k =? n) && (n <? nlen s)) eqn:X; auto.
  apply andb_prop in X. destruct X as (X & _). apply Nat.eqb_eq in X. subst k. cbn [pn_names pn_with_refs] in H.
  rewrite (alookup_adel Nat.eqb Nat.eqb_spec) in H. destruct (q =? r); [congruence | exact H].
Qed.

Lemma nsub_mcd n nm (s : st) : nsub s (mark_child_deleted pfs pfs_step n nm s).
Proof.
  unfold mark_child_deleted, remove_with_name.
  set (lp := match alookup Nat.eqb nm (pn_refs (get_node pfs s n)) with
             | Some m => rwn_loop pfs n nm None m [] s | None => ([], s) end).
  assert (H1 : fst lp = [] /\ nsub s (snd lp)).
  { unfold lp. destruct (alookup Nat.eqb nm (pn_refs (get_node pfs s n))); [|split; [reflexivity | intros k q H; exact H]].
    split; [apply held_rwn_none | apply nsub_rwn_none]. }
  destruct lp as [held s1]. cbn [fst snd] in H1. destruct H1 as (-> & N1). cbn [release_all].
  set (s2 := set_node pfs n (pn_with_nodes (get_node pfs s1 n) (adel Nat.eqb nm (pn_nodes (get_node pfs s1 n)))) s1).
  assert (N2 : nsub s s2).
  { intros k q H. apply N1. unfold s2 in H. rewrite gnode_set_node in H. destruct ((k =? n) && (n <? nlen s1)) eqn:X; auto.
    apply andb_prop in X. destruct X as (X & _). apply Nat.eqb_eq in X. subst k. exact H. }
  destruct (alookup Nat.eqb nm (pn_nodes (get_node pfs s1 n))); [|exact N2].
  intros k q H. rewrite names_notify_delete in H. apply N2. exact H.
Qed.

Section PLoop.
Variables (fnode tn old t new : nat).

Record PL (cur : st) (todo : list nat) : Prop := mkPL {
  PL_npi : NPI cur;
  PL_np : s_panic pfs cur = false;
  PL_t : fr_node (gref cur t) = tn;
  PL_todo : forall q, In q todo -> q < rlen cur /\ fr_parent (gref cur q) <> None /\
                                   forall n, n <> fnode -> alookup Nat.eqb q (pn_names (gnode cur n)) = None }.

Lemma loop_np m : forall held cur, PL cur m -> NoDup m ->
  let cur' := snd (rwn_loop pfs fnode old (Some (rename_cb pfs pfs_step t new)) m held cur) in
  NPI cur' /\ s_panic pfs cur' = false.
Proof.
  induction m as [|r m IH]; intros held cur L ND; [cbn; split; apply L|].
  cbn [rwn_loop]. cbv zeta. fold (gnode cur fnode). inversion ND as [|? ? Nr ND']; subst.
  destruct L as [Ln Lp Lt Ltd].
  set (s1 := set_node pfs fnode _ cur).
  pose proof (pf_rwn_step fnode old r cur) as P1. fold s1 in P1.
  assert (GR1 : forall q, gref s1 q = gref cur q) by reflexivity.
  assert (GN1 : forall n, n <> fnode -> gnode s1 n = gnode cur n).
  { intros n Hn. unfold s1. rewrite gnode_set_node. destruct (Nat.eqb_spec n fnode); [congruence | reflexivity]. }
  assert (NR1 : alookup Nat.eqb r (pn_names (gnode s1 fnode)) = None).
  { unfold s1. rewrite gnode_set_node, Nat.eqb_refl. cbn [andb]. destruct (fnode <? nlen cur) eqn:X.
    - cbn [pn_names pn_with_refs]. rewrite (alookup_adel Nat.eqb Nat.eqb_spec), Nat.eqb_refl. reflexivity.
    - apply Nat.ltb_ge in X. unfold get_node. rewrite nth_overflow by exact X. reflexivity. }
  assert (L1 : PL s1 m).
  { constructor; [apply (P_inv _ _ P1 Ln) | rewrite (P_np _ _ P1 Ln); exact Lp | exact Lt |].
    intros q Hq. destruct (Ltd q (or_intror Hq)) as (A1 & A2 & A3). repeat split; auto. intros n Hn. rewrite GN1 by auto. apply A3; auto. }
  unfold try_incref. destruct (fr_refs (gref s1 r) <=? 0)%Z; [apply IH; auto|].
  change (with_held pfs (r :: s_held pfs (incref pfs r s1)) (incref pfs r s1)) with (hold pfs r s1). set (s2 := hold pfs r s1).
  assert (P2 : pf s1 s2) by apply pf_hold.
  assert (CF2 : forall q, fr_parent (gref s2 q) = fr_parent (gref s1 q) /\ fr_node (gref s2 q) = fr_node (gref s1 q)).
  { intros q. change (gref s2 q) with (gref (incref pfs r s1) q). unfold incref. rewrite gref_set_ref.
    destruct ((q =? r) && (r <? rlen s1)) eqn:X; auto. apply andb_prop in X. destruct X as (X & _). apply Nat.eqb_eq in X. subst. auto. }
  apply IH; auto.
  destruct (Ltd r (or_introl eq_refl)) as (Lr & Pr & Nrn).
  unfold rename_cb. destruct (CF2 r) as (Ep2 & _). rewrite Ep2, GR1.
  destruct (fr_parent (gref cur r)) as [p|] eqn:Ep; [|exfalso; apply Pr; reflexivity].
  set (sa := set_ref pfs r (fr_with_parent (gref s2 r) (Some t)) s2).
  set (sb := incref pfs t sa).
  assert (GN2b : forall n, gnode sb n = gnode s1 n) by reflexivity.
  assert (RLb : rlen sb = rlen cur).
  { unfold rlen, sb, incref, sa, set_ref, s2, hold, incref, set_ref. cbn. rewrite !upd_length. reflexivity. }
  assert (GRa : forall q, gref sa q = if q =? r then fr_with_parent (gref s2 r) (Some t) else gref s2 q).
  { intros q. unfold sa. rewrite gref_set_ref. destruct (Nat.eqb_spec q r); cbn [andb]; auto.
    destruct (Nat.ltb_spec r (rlen s2)); [reflexivity|]. exfalso. unfold rlen, s2, hold, incref, set_ref in *. cbn in *. rewrite upd_length in *. unfold rlen in Lr. lia. }
  assert (GRb : forall q, fr_parent (gref sb q) = fr_parent (gref sa q) /\ fr_node (gref sb q) = fr_node (gref sa q)).
  { intros q. unfold sb, incref. rewrite gref_set_ref. destruct ((q =? t) && (t <? rlen sa)) eqn:X; auto.
    apply andb_prop in X. destruct X as (X & _). apply Nat.eqb_eq in X. subst. auto. }
  assert (Ntb : fr_node (gref sb t) = tn).
  { destruct (GRb t) as (_ & ->). rewrite GRa. destruct (Nat.eqb_spec t r) as [Etr|Ntr]; [cbn [fr_node fr_with_parent]; rewrite <- Etr|];
      destruct (CF2 t) as (_ & E); rewrite E, GR1; exact Lt. }
  assert (Pab : pf s2 sb) by (eapply pf_trans; [apply pf_set_ref | apply pf_incref]).
  rewrite Ntb.
  assert (Nrb : alookup Nat.eqb r (pn_names (gnode sb tn)) = None).
  { rewrite GN2b. destruct (Nat.eq_dec tn fnode) as [->|Ne]; [exact NR1|]. rewrite GN1 by auto. apply Nrn; auto. }
  pose proof (pf_add_child tn r new sb ltac:(rewrite RLb; exact Lr) Nrb) as Pc.
  set (sc := add_child pfs tn r new sb) in *.
  set (sd := snd (bcall_ pfs pfs_step (BRenamed (fr_file (gref sc r)) (fr_file (gref sc t)) new) sc)).
  assert (Pd : pf sc sd) by apply pf_bcall.
  pose proof (pf_decref (fuel_of pfs sd) p sd) as Pe. pose proof (cf_decref (fuel_of pfs sd) p sd) as Ce.
  fold (decref_ pfs pfs_step p sd) in Pe, Ce. set (se := snd (decref_ pfs pfs_step p sd)) in *.
  assert (P1e : pf s1 se).
  { eapply pf_trans; [exact P2|]. eapply pf_trans; [exact Pab|]. eapply pf_trans; [exact Pc|]. eapply pf_trans; [exact Pd | exact Pe]. }
  destruct L1 as [Ln1 Lp1 _ Ltd1].
  assert (GRc : forall q, gref sc q = gref sb q) by (intros q; unfold get_ref, sc; rewrite (proj1 (CoherentRenLoop.add_child_same _ _ _ _)); reflexivity).
  assert (GRd : forall q, gref sd q = gref sc q).
  { intros q. destruct (bcall_be (BRenamed (fr_file (gref sc r)) (fr_file (gref sc t)) new) sc) as (_ & _ & R & _). unfold get_ref, sd. rewrite R. reflexivity. }
  assert (GNd : forall n, gnode sd n = gnode sc n).
  { intros n. destruct (bcall_be (BRenamed (fr_file (gref sc r)) (fr_file (gref sc t)) new) sc) as (_ & _ & _ & Nd & _). unfold get_node, sd. rewrite Nd. reflexivity. }
  constructor.
  - apply (P_inv _ _ P1e Ln1).
  - rewrite (P_np _ _ P1e Ln1). exact Lp1.
  - destruct (RF_refs _ _ (CF_rf _ _ Ce) t) as (_ & -> & _). rewrite GRd, GRc. exact Ntb.
  - intros q Hq. destruct (Ltd1 q Hq) as (A1 & A2 & A3).
    assert (Nq : q <> r) by (intros ->; auto).
    split; [|split].
    + rewrite (RF_rlen _ _ (CF_rf _ _ Ce)). unfold rlen, sd. destruct (bcall_be (BRenamed (fr_file (gref sc r)) (fr_file (gref sc t)) new) sc) as (_ & _ & R & _). rewrite R.
      unfold sc. rewrite (proj1 (CoherentRenLoop.add_child_same _ _ _ _)). fold (rlen sb). rewrite RLb. exact A1.
    + rewrite (CF_par _ _ Ce), GRd, GRc. destruct (GRb q) as (-> & _). rewrite GRa. destruct (Nat.eqb_spec q r); [congruence|].
      destruct (CF2 q) as (-> & _). exact A2.
    + intros n Hn. destruct (alookup Nat.eqb q (pn_names (gnode se n))) eqn:E; auto. exfalso.
      assert (X : alookup Nat.eqb q (pn_names (gnode sd n)) <> None) by (apply (CF_nsub _ _ Ce); congruence).
      apply X. rewrite GNd. unfold sc, add_child. fold (gnode sb tn). rewrite Nrb. rewrite gnode_set_node.
      destruct ((n =? tn) && (tn <? nlen sb)) eqn:Y.
      * cbn [pn_names pn_with_refs]. rewrite (alookup_aset Nat.eqb Nat.eqb_spec). destruct (Nat.eqb_spec q r); [congruence|].
        apply andb_prop in Y. destruct Y as (Y & _). apply Nat.eqb_eq in Y. subst n. rewrite GN2b. apply A3. exact Hn.
      * rewrite GN2b. apply A3. exact Hn.
Qed.
End PLoop.
