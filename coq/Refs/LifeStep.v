(** Refs/LifeStep.v — the File-ownership / Close-discipline invariant [KInv]
    (Refs/LifeProofs.v) together with [RefInv], for every request and every
    history, for every backend: C05_closed_once, the accounting "closed iff no
    live owner", and what they need.  The handler proofs are those of
    Refs/RefStep.v, replayed over the stronger invariant [FInvP]. *)
From Coq Require Import List Arith Bool ZArith Lia.
From P9V Require Import Refs.Model Refs.RefProofs Refs.RefStep Refs.LifeProofs.
Import ListNotations.

Section LStep.
Variable B : Type.
Variable bstep : B -> bcall -> B * bans.
Notation st := (sstate B).
Notation gref := (get_ref B).
Notation C := (C B).
Notation hc := (hc B).
Notation led := (led B).
Notation heldall := (heldall B).
Notation KInv := (KInv B).

(** both invariants; [pend]: a handle returned by the backend and not yet owned *)
Definition FInvP (s : st) (d : list nat) (pend : option nat) : Prop :=
  RefInvD B s d /\ KInv s pend /\ wf_log (s_log B s).
Definition FInv (s : st) (d : list nat) : Prop := FInvP s d None.

Notation led_refl := (led_refl B).
Notation led_trans := (led_trans B).
Notation led_equiv := (led_equiv B).
Notation led_ge := (led_ge B).
Notation C_hc := (C_hc B).
Notation led_weaken_panic := (led_weaken_panic B).
Notation led_hc_pos := (led_hc_pos B).
Notation led_keeps := (led_keeps B).
Notation closed := (closed B).

(** frames: fid table / holders / fidRefs / next handle / Close calls unchanged; the calls added use open handles *)
Definition slu (s s' : st) : Prop := LifeProofs.same_life B s s' /\ same_use B s s'.
Notation same_life := slu.

Lemma same_life_refl s : same_life s s.
Proof. split; [apply LifeProofs.same_life_refl | apply same_use_refl]. Qed.
Lemma same_life_trans a b c : same_life a b -> same_life b c -> same_life a c.
Proof. intros (A1 & U1) (A2 & U2). split; [eapply LifeProofs.same_life_trans; eauto | eapply same_use_trans; eauto]. Qed.

Lemma sl_bcall c s : is_close c = false -> (forall h, In h (uses c) -> ~ closed s h) -> same_life s (snd (bcall_ B bstep c s)).
Proof. intros Hc Hu. split; [apply LifeProofs.sl_bcall; auto | apply su_bcall; auto]. Qed.
Notation sl_bc c s u := (sl_bcall c s eq_refl u).

Lemma sl_path_node_for n nm s : same_life s (snd (path_node_for B n nm s)).
Proof.
  split; [apply LifeProofs.sl_path_node_for|]. apply su_log_same. unfold path_node_for. destruct (alookup _ _ _); reflexivity.
Qed.

(** ---- frames ---- *)
Lemma sl_fold {A} (f : A -> st -> st) (l : list A) :
  (forall a s, same_life s (f a s)) -> forall s, same_life s (fold_left (fun st a => f a st) l s).
Proof.
  intros H. induction l as [|a l IH]; intros s; cbn; [apply same_life_refl|].
  eapply same_life_trans; [apply H | apply IH].
Qed.

Ltac sl_triv := split; [split; [repeat split; auto | split; reflexivity] | apply su_log_same; reflexivity].

Lemma sl_set_node n x s : same_life s (set_node B n x s). Proof. sl_triv. Qed.
Lemma sl_set_panic s : same_life s (set_panic B s). Proof. sl_triv. Qed.
Lemma sl_set_oof s : same_life s (set_oof B s). Proof. sl_triv. Qed.
Lemma sl_add_child n r nm s : same_life s (add_child B n r nm s).
Proof. unfold add_child. destruct (alookup _ _ _); sl_triv. Qed.
Lemma sl_add_path_node_for n nm c s : same_life s (add_path_node_for B n nm c s).
Proof. unfold add_path_node_for. destruct (alookup _ _ _); sl_triv. Qed.

Lemma sl_notify_delete fuel : forall n s, same_life s (notify_delete B fuel n s).
Proof.
  induction fuel as [|f IH]; intros n s; cbn [notify_delete]; [apply sl_set_oof|].
  eapply same_life_trans; [apply (sl_set_node n (pn_with_deleted (get_node B s n)) s)|].
  apply (sl_fold (fun c st => notify_delete B f (snd c) st)). intros a s0. apply IH.
Qed.

Lemma sl_rwn_none n nm m : forall held s, same_life s (snd (rwn_loop B n nm None m held s)).
Proof.
  induction m as [|r m IH]; intros held s; cbn [rwn_loop]; [apply same_life_refl|]. cbv zeta.
  eapply same_life_trans; [|apply IH]. apply sl_set_node.
Qed.

Lemma sl_mark_child_deleted n nm s : same_life s (mark_child_deleted B bstep n nm s).
Proof.
  unfold mark_child_deleted, remove_with_name.
  set (lp := match alookup Nat.eqb nm (pn_refs (get_node B s n)) with
             | Some m => rwn_loop B n nm None m [] s | None => ([], s) end).
  assert (H1 : fst lp = [] /\ same_life s (snd lp)).
  { unfold lp. destruct (alookup Nat.eqb nm (pn_refs (get_node B s n))); [|split; [reflexivity | apply same_life_refl]].
    split; [apply held_rwn_none' | apply sl_rwn_none]. }
  destruct lp as [held s1]. cbn [fst snd] in H1. destruct H1 as (-> & SC1). cbn [release_all].
  set (s2 := set_node B n _ s1).
  assert (SC2 : same_life s s2) by (eapply same_life_trans; [exact SC1 | apply sl_set_node]).
  destruct (alookup Nat.eqb nm (pn_nodes (get_node B s1 n))); auto.
  eapply same_life_trans; [exact SC2 | apply sl_notify_delete].
Qed.

Lemma sl_guarded_call r g c s :
  is_close c = false -> (forall h, In h (uses c) -> ~ closed s h) -> same_life s (snd (guarded_call B bstep r g c s)).
Proof.
  intros Hc Hu. unfold guarded_call. destruct g; [apply same_life_refl|].
  pose proof (sl_bcall c s Hc Hu) as H. destruct (bcall_ B bstep c s) as [a s1]. destruct a; exact H.
Qed.

Lemma led_sl s s' : same_life s s' -> led [] [] s s'.
Proof. intros ((SC & _) & _). apply led_sc; auto. Qed.

(** ---- KInv under changes of the fid table / the holders ---- *)
Lemma K_with_held h s pend : KInv s pend -> KInv (with_held B h s) pend.
Proof. intros K. apply (K_ext B s _ pend K); try reflexivity. intros q Hq. repeat split; auto. intros p Hp. exact (K8 B s pend K q p Hq Hp). Qed.
Lemma K_with_fids f s pend : KInv s pend -> KInv (with_fids B f s) pend.
Proof. intros K. apply (K_ext B s _ pend K); try reflexivity. intros q Hq. repeat split; auto. intros p Hp. exact (K8 B s pend K q p Hq Hp). Qed.

Lemma live_of_C s d r : RefInvD B s d -> 0 < C s r -> live (gref s r) = true.
Proof. intros Inv H. destruct (inv_live B s d r Inv H) as (_ & Lv). unfold live. apply Z.ltb_lt. exact Lv. Qed.

(** ---- primitives ---- *)
Lemma sl_ok s s' d pend : same_life s s' -> FInvP s d pend -> FInvP s' d pend /\ led [] [] s s'.
Proof.
  intros SL (I & K & W). split; [| apply led_sl; auto].
  split; [eapply same_core_inv; [apply SL | exact I]|]. split; [eapply K_same_life; [apply SL | exact K] | eapply wf_same_use; [apply SL | exact W]].
Qed.

Lemma hold_ok s d pend r : FInvP s d pend -> 0 < C s r -> FInvP (hold B r s) d pend /\ led [r] [] s (hold B r s).
Proof.
  intros (I & K & W) H. destruct (hold_ok B s d r I H) as (I1 & L1). split; [split; [exact I1|split; [|exact W]] | exact L1].
  unfold hold. apply K_with_held. apply K_incref; auto. eapply live_of_C; eauto.
Qed.

Lemma release_ok s d pend r :
  FInvP s d pend -> 0 < hc s r -> FInvP (release B bstep r s) d pend /\ led [] [r] s (release B bstep r s).
Proof.
  intros (I & K & W) H. destruct (release_ok B bstep s d r I H) as (I1 & L1). split; [split; [exact I1|] | exact L1].
  assert (Hin : In r (s_held B s)) by (apply cnt_in; exact H).
  unfold release. set (s0 := with_held B (remove_one r (s_held B s)) s).
  assert (D0 : RefInvD B s0 (r :: d)).
  { destruct I as (N & I2 & I3).
    assert (CH : forall q, C s0 q + ind r q = C s q).
    { intros q. rewrite !C_eq; cbn. pose proof (cnt_remove_one r (s_held B s) q Hin). lia. }
    split; [exact N|]. split.
    - intros q Hq. cbn in Hq. change (gref s0 q) with (gref s q). rewrite I2 by auto. rewrite cnt_cons. specialize (CH q). lia.
    - intros q Hq. cbn. apply I3. rewrite cnt_cons in Hq. specialize (CH q). lia. }
  split; [apply (decref_K_ B bstep r s0 d pend D0); apply K_with_held; exact K|].
  apply (decref_U_ B bstep r s0 d pend D0); [apply K_with_held; exact K | exact W].
Qed.

Lemma insert_ok s d pend c fid r :
  FInvP s d pend -> 0 < C s r ->
  FInvP (insert_fid B bstep c fid r s) d pend /\ led [] [] s (insert_fid B bstep c fid r s).
Proof.
  intros (I & K & W) H. destruct (insert_ok B bstep s d c fid r I H) as (I1 & L1). split; [split; [exact I1|] | exact L1].
  destruct (inv_live B s d r I H) as (L & Lv).
  unfold insert_fid. set (s1 := with_fids B _ (incref B r s)).
  assert (K1 : KInv s1 pend) by (apply K_with_fids, K_incref; auto; eapply live_of_C; eauto).
  destruct (alookup peqb (c, fid) (s_fids B s)) as [o|] eqn:E; [|split; [exact K1 | exact W]].
  assert (D1 : RefInvD B s1 (o :: d)).
  { destruct I as (N & I2 & I3). pose proof (incref_C B s r L Lv) as EC.
    assert (G : forall q, fr_refs (gref s1 q) = (fr_refs (gref s q) + Z.of_nat (ind r q))%Z).
    { intros q. change (gref s1 q) with (gref (incref B r s) q). unfold incref.
      destruct (Nat.eq_dec r q) as [<-|Nq].
      - rewrite gref_set_same, ind_same by auto. cbn. lia.
      - rewrite gref_set_other, ind_diff by auto. lia. }
    assert (L1' : length (s_refs B s1) = length (s_refs B s)) by (cbn; apply upd_length).
    assert (CH : forall q, C s1 q + ind o q = C s q + ind r q).
    { intros q. specialize (EC q). rewrite !C_eq in *. cbn in *.
      pose proof (cnt_aset_some peqb peqb_spec (c, fid) r o (s_fids B s) q N E). lia. }
    split; [cbn; apply (aset_nodup peqb peqb_spec); auto|]. split.
    + intros q Hq. rewrite L1' in Hq. rewrite G, I2 by auto. rewrite cnt_cons. specialize (CH q). lia.
    + intros q Hq. rewrite L1'. rewrite cnt_cons in Hq. specialize (CH q).
      destruct (Nat.eq_dec r q) as [<-|Nq]; auto. rewrite (ind_diff r q) in CH by auto. apply I3. lia. }
  split; [apply (decref_K_ B bstep o s1 d pend D1 K1) | apply (decref_U_ B bstep o s1 d pend D1 K1); exact W].
Qed.

Lemma delete_ok s d pend c fid :
  FInvP s d pend -> FInvP (snd (delete_fid B bstep c fid s)) d pend /\ led [] [] s (snd (delete_fid B bstep c fid s)).
Proof.
  intros (I & K & W). destruct (delete_ok B bstep s d c fid I) as (I1 & L1). split; [split; [exact I1|] | exact L1].
  unfold delete_fid. destruct (alookup peqb (c, fid) (s_fids B s)) as [r|] eqn:E; [|split; [exact K | exact W]].
  set (s0 := with_fids B (adel peqb (c, fid) (s_fids B s)) s).
  assert (D0 : RefInvD B s0 (r :: d)).
  { destruct I as (N & I2 & I3).
    assert (CH : forall q, C s0 q + ind r q = C s q).
    { intros q. rewrite !C_eq. cbn. pose proof (cnt_adel peqb peqb_spec (c, fid) r (s_fids B s) q N E). lia. }
    split; [cbn; apply (adel_nodup peqb peqb_spec); auto|]. split.
    - intros q Hq. cbn in Hq. change (gref s0 q) with (gref s q). rewrite I2 by auto. rewrite cnt_cons. specialize (CH q). lia.
    - intros q Hq. cbn. apply I3. rewrite cnt_cons in Hq. specialize (CH q). lia. }
  split; [apply (decref_K_ B bstep r s0 d pend D0); apply K_with_fids; exact K|].
  apply (decref_U_ B bstep r s0 d pend D0); [apply K_with_fids; exact K | exact W].
Qed.

Lemma take_handle_ok s d :
  FInvP s d None -> FInvP (take_handle B s) d (Some (s_nexth B s)) /\ led [] [] s (take_handle B s).
Proof.
  intros (I & K & W). split; [split; [eapply same_core_inv; [apply sc_take_handle | exact I] | split; [apply K_take_handle; auto | exact W]]|].
  apply led_sc. apply sc_take_handle.
Qed.

Lemma gref_new_ref_old x s q : q < length (s_refs B s) -> gref (snd (new_ref B x s)) q = gref s q.
Proof. intros H. destruct (new_ref_facts B x s) as (_ & _ & _ & Go & _). apply Go; auto. Qed.

(** a new fidRef that owns the pending handle (root, walked, cloned, created) *)
Lemma new_owner_inc_ok s d h x :
  FInvP s d (Some h) -> fr_file x = h -> fr_xattrOf x = None ->
  (forall p, fr_parent x = Some p -> 0 < C s p) ->
  let r := new_ref_inc B x s in
  fst r = length (s_refs B s) /\ FInvP (snd r) d None /\ led [fst r] [] s (snd r) /\ 0 < hc (snd r) (fst r).
Proof.
  intros (I & K & W) EF EX HP. cbv zeta.
  destruct (new_ref_inc_ok B s d x I ltac:(intros p Hp; split; auto) ltac:(intros o Ho; congruence)) as (E1 & I1 & L1).
  assert (EL : s_log B (snd (new_ref_inc B x s)) = s_log B s).
  { unfold new_ref_inc, new_ref. cbn. destruct (fr_parent x); [reflexivity|]. destruct (fr_xattrOf x); reflexivity. }
  split; [exact E1|]. split; [split; [exact I1|split; [|rewrite EL; exact W]]|split; [exact L1|]].
  - pose proof (K_new_owner B s h x K EF EX ltac:(intros p Hp; apply (inv_live B s d p I (HP p Hp)))) as K1. unfold new_ref_inc.
    destruct (new_ref B x s) as [nr s1] eqn:ENR. cbn [snd] in *.
    destruct (fr_parent x) as [p|] eqn:EP; [|rewrite EX; exact K1].
    apply K_incref; auto.
    replace s1 with (snd (new_ref B x s)) by (rewrite ENR; reflexivity).
    destruct (inv_live B s d p I (HP p eq_refl)) as (Lp & Lvp).
    rewrite gref_new_ref_old by auto. unfold live. apply Z.ltb_lt. exact Lvp.
  - unfold RefStep.hc, new_ref_inc, new_ref. cbn. destruct (fr_parent x); [|destruct (fr_xattrOf x)]; cbn; rewrite cnt_cons, ind_same; lia.
Qed.

(** a new xattr fidRef borrowing the File of [o] *)
Lemma new_borrower_ok s d pend x o :
  FInvP s d pend -> fr_xattrOf x = Some o -> fr_parent x = None -> 0 < C s o -> fr_file x = fr_file (gref s o) ->
  let r := new_ref_inc B x s in
  fst r = length (s_refs B s) /\ FInvP (snd r) d pend /\ led [fst r] [] s (snd r) /\ 0 < hc (snd r) (fst r).
Proof.
  intros (I & K & W) EX EP Ho EF. cbv zeta.
  destruct (new_ref_inc_ok B s d x I ltac:(intros p Hp; congruence) ltac:(intros o' Ho'; congruence)) as (E1 & I1 & L1).
  destruct (inv_live B s d o I Ho) as (Lo & Lvo).
  assert (EL : s_log B (snd (new_ref_inc B x s)) = s_log B s).
  { unfold new_ref_inc, new_ref. cbn. destruct (fr_parent x); [reflexivity|]. destruct (fr_xattrOf x); reflexivity. }
  split; [exact E1|]. split; [split; [exact I1|split; [|rewrite EL; exact W]]|split; [exact L1|]].
  - pose proof (K_new_borrower B s pend x o K EX Lo EF EP) as K1. unfold new_ref_inc.
    destruct (new_ref B x s) as [nr s1] eqn:ENR. cbn [snd] in *. rewrite EP, EX.
    apply K_incref; auto.
    replace s1 with (snd (new_ref B x s)) by (rewrite ENR; reflexivity).
    rewrite gref_new_ref_old by auto. unfold live. apply Z.ltb_lt. exact Lvo.
  - unfold RefStep.hc, new_ref_inc, new_ref. cbn. rewrite EP, EX. cbn. rewrite cnt_cons, ind_same. lia.
Qed.

Lemma new_ref_handover_ok s d h wr x :
  FInvP s d (Some h) -> 0 < hc s wr -> fr_parent x = Some wr -> fr_xattrOf x = None -> fr_file x = h ->
  let r := new_ref_handover B wr x s in
  fst r = length (s_refs B s) /\ FInvP (snd r) d None /\ led [fst r] [wr] s (snd r) /\ 0 < hc (snd r) (fst r).
Proof.
  intros (I & K & W) H EP EX EF. cbv zeta.
  destruct (new_ref_handover_ok B s d wr x I H EP EX) as (E1 & I1 & L1).
  split; [exact E1|]. split; [split; [exact I1|split; [|exact W]]|split; [exact L1|]].
  - unfold new_ref_handover. apply (K_new_owner B _ h x); auto; [apply K_with_held; exact K|].
    intros p Hp. rewrite EP in Hp. injection Hp as <-. apply (inv_live B s d wr I). pose proof (C_hc s wr). lia.
  - unfold RefStep.hc, new_ref_handover, new_ref; cbn. rewrite cnt_cons, ind_same. lia.
Qed.

Lemma walk_one_ok from_h from_node nm getattr s d :
  FInvP s d None -> ~ closed s from_h ->
  let r := walk_one B bstep from_h from_node nm getattr s in
  match fst r with WOk h _ _ => FInvP (snd r) d (Some h) | WFail _ => FInvP (snd r) d None end /\
  led [] [] s (snd r) /\ same_core B s (snd r).
Proof.
  intros (I & K & W) Nf. cbv zeta.
  pose proof (sc_walk_one B bstep from_h from_node nm getattr s) as SC.
  pose proof (walk_one_K B bstep from_h from_node nm getattr s K) as KK. cbv zeta in KK.
  assert (Nn : ~ closed s (s_nexth B s)). { intros Hc. destruct (K3 B s None K _ Hc). lia. }
  pose proof (walk_one_U B bstep from_h from_node nm getattr s W Nf Nn) as WW.
  destruct (walk_one B bstep from_h from_node nm getattr s) as [w s1]. cbn [fst snd] in *.
  split; [|split; [apply led_sc; auto | exact SC]].
  destruct w; (split; [eapply same_core_inv; eauto | split; [exact KK | exact WW]]).
Qed.

(** the Files of transient holders and of their parents are open *)
Lemma held_open s d pend r : FInvP s d pend -> 0 < hc s r -> ~ closed s (fr_file (gref s r)).
Proof.
  intros (I & K & _) H. destruct (inv_live B s d r I ltac:(pose proof (C_hc s r); lia)) as (Lr & Lv).
  apply (live_not_closed B s pend d K I r Lr). unfold live. apply Z.ltb_lt. exact Lv.
Qed.

Lemma parent_open s d pend r p : FInvP s d pend -> 0 < hc s r -> fr_parent (gref s r) = Some p -> ~ closed s (fr_file (gref s p)).
Proof.
  intros (I & K & W) H EP. destruct (inv_live B s d r I ltac:(pose proof (C_hc s r); lia)) as (Lr & Lv).
  pose proof (C_parent B s r p Lr Lv EP) as Hp. destruct (inv_live B s d p I Hp) as (Lp & Lvp).
  apply (live_not_closed B s pend d K I p Lp). unfold live. apply Z.ltb_lt. exact Lvp.
Qed.

Lemma set_fields_ok s d pend r x' :
  FInvP s d pend -> fr_refs x' = fr_refs (gref s r) -> fr_parent x' = fr_parent (gref s r) ->
  fr_xattrOf x' = fr_xattrOf (gref s r) -> fr_file x' = fr_file (gref s r) ->
  FInvP (set_ref B r x' s) d pend /\ led [] [] s (set_ref B r x' s).
Proof.
  intros (I & K & W) E1 E2 E3 E4. destruct (set_fields_ok B s d r x' I E1 E2 E3) as (I1 & L1).
  split; [split; [exact I1|split; [|exact W]] | exact L1].
  destruct (Nat.lt_ge_cases r (len B s)) as [Hr|Hr].
  - apply K_set_ref; auto; [intros _; unfold live; rewrite E1; reflexivity|]. intros p Hp. rewrite E2 in Hp. apply (K8 B s pend K r p Hr Hp).
  - unfold set_ref. rewrite upd_oob by exact Hr. destruct s; exact K.
Qed.

Arguments sl_ok s s' d {pend}.
Arguments hold_ok s d {pend} r.
Arguments release_ok s d {pend} r.
Arguments insert_ok s d {pend} c fid r.
Arguments delete_ok s d {pend} c fid.
Arguments set_fields_ok s d {pend} r x'.

(** ---- composition ---- *)


Definition ok (pre : list nat) (f : st -> st) : Prop :=
  forall s d, FInv s d -> heldall pre s -> FInv (f s) d /\ led [] [] s (f s).

Lemma ok_sc pre f : (forall s, same_life s (f s)) -> ok pre f.
Proof. intros H s d Inv _. apply sl_ok; auto. Qed.

Ltac led_arith := intros; rewrite ?cnt_app, ?cnt_cons, ?cnt_nil; lia.

Lemma with_fid_ok pre c fid body :
  (forall r, ok (r :: pre) (fun s => snd (body r s))) -> ok pre (fun s => snd (with_fid B bstep c fid body s)).
Proof.
  intros HB s d Inv HP. unfold with_fid, lookup_fid.
  destruct (alookup peqb (c, fid) (s_fids B s)) as [r|] eqn:E; [|cbn; split; [auto | apply led_refl]].
  destruct (hold_ok s d r Inv (C_fid B s r (alookup_in peqb peqb_spec _ _ _ E))) as (I1 & L1).
  assert (HP1 : heldall (r :: pre) (hold B r s)).
  { intros x [<-|Hx].
    - eapply led_hc_pos; [exact L1 | rewrite cnt_cons, ind_same; lia | reflexivity].
    - eapply led_hc_pos; [exact L1 | specialize (HP x Hx); lia | reflexivity]. }
  destruct (HB r (hold B r s) d I1 HP1) as (I2 & L2).
  destruct (body r (hold B r s)) as [rep s2]. cbn [snd] in *.
  assert (Hr : 0 < hc s2 r). { eapply led_hc_pos; [exact L2 | specialize (HP1 r (or_introl eq_refl)); lia | reflexivity]. }
  destruct (release_ok s2 d r I2 Hr) as (I3 & L3). split; [exact I3|].
  eapply led_equiv; [|exact (led_trans _ _ _ _ _ _ _ (led_trans _ _ _ _ _ _ _ L1 L2) L3)]. led_arith.
Qed.

(** doWalk over one or more names *)
Lemma walk_steps_ok names : forall wr s d,
  FInv s d -> 0 < hc s wr ->
  let r := walk_steps B bstep wr names s in
  FInv (snd r) d /\ match fst r with DOk nr => led [nr] [wr] s (snd r) | DFail _ => led [] [wr] s (snd r) end.
Proof.
  induction names as [|nm rest IH]; intros wr s d Inv Hw; cbv zeta.
  - cbn. split; auto. eapply led_equiv; [|apply led_refl]. led_arith.
  - cbn [walk_steps]. cbv zeta.
    destruct (negb (is_dir (fr_mode (gref s wr)))); [cbn [fst snd]; apply release_ok; auto|].
    destruct (is_deleted B s wr); [cbn [fst snd]; apply release_ok; auto|].
    pose proof (walk_one_ok (fr_file (gref s wr)) (fr_node (gref s wr)) (Some nm) true s d Inv (held_open s d None wr Inv Hw)) as W1. cbv zeta in W1.
    destruct (walk_one B bstep (fr_file (gref s wr)) (fr_node (gref s wr)) (Some nm) true s) as [w s1]. cbn [fst snd] in W1.
    destruct W1 as (I1 & L1 & _).
    assert (Hw1 : 0 < hc s1 wr) by (eapply led_hc_pos; [exact L1 | lia | reflexivity]).
    destruct w as [e|h m ino].
    + cbn [fst snd]. destruct (release_ok s1 d wr I1 Hw1) as (I2 & L2). split; auto.
      eapply led_equiv; [|exact (led_trans _ _ _ _ _ _ _ L1 L2)]. led_arith.
    + pose proof (sl_path_node_for (fr_node (gref s wr)) nm s1) as SC2.
      destruct (path_node_for B (fr_node (gref s wr)) nm s1) as [cn s2]. cbn [snd] in SC2.
      destruct (sl_ok s1 s2 d SC2 I1) as (I2 & L2).
      assert (Hw2 : 0 < hc s2 wr) by (eapply led_hc_pos; [exact L2 | lia | reflexivity]).
      set (x := mkref h 0 false 0 m cn (Some wr) None XNone).
      destruct (new_ref_handover_ok s2 d h wr x I2 Hw2 eq_refl eq_refl eq_refl) as (E4 & I4 & L4 & Hn).
      destruct (new_ref_handover B wr x s2) as [nr s4]. cbn [fst snd] in *.
      pose proof (sl_add_child (fr_node (gref s wr)) nr nm s4) as SC5.
      set (s5 := add_child B (fr_node (gref s wr)) nr nm s4) in *.
      destruct (sl_ok s4 s5 d SC5 I4) as (I5 & L5).
      assert (L05 : led [nr] [wr] s s5).
      { eapply led_equiv; [|exact (led_trans _ _ _ _ _ _ _ (led_trans _ _ _ _ _ _ _ (led_trans _ _ _ _ _ _ _ L1 L2) L4) L5)]. led_arith. }
      destruct (s_panic B s5) eqn:P5.
      * cbn [fst snd]. split; auto. apply (led_weaken_panic [] [nr] [wr]); auto.
      * assert (Hn5 : 0 < hc s5 nr) by (eapply led_hc_pos; [exact L5 | lia | reflexivity]).
        specialize (IH nr s5 d I5 Hn5). cbv zeta in IH.
        destruct (walk_steps B bstep nr rest s5) as [res s6]. cbn [fst snd] in *. destruct IH as (I6 & L6).
        split; auto. destruct res.
        -- eapply led_equiv; [|exact (led_trans _ _ _ _ _ _ _ L05 L6)]. led_arith.
        -- eapply led_equiv; [|exact (led_trans _ _ _ _ _ _ _ L05 L6)]. led_arith.
Qed.

Lemma gref_sc s s' q : same_core B s s' -> gref s' q = gref s q.
Proof. intros (_ & _ & R & _). unfold get_ref. rewrite R. reflexivity. Qed.

Lemma do_walk_ok ref names g s d :
  FInv s d -> 0 < hc s ref ->
  let r := do_walk B bstep ref names g s in
  FInv (snd r) d /\ match fst r with DOk nr => led [nr] [] s (snd r) | DFail _ => led [] [] s (snd r) end.
Proof.
  intros Inv Hr. cbv zeta. unfold do_walk. destruct names as [|nm rest].
  - set (x0 := gref s ref).
    destruct (fr_xattrOf x0); [cbn; split; [auto | apply led_refl]|].
    pose proof (walk_one_ok (fr_file x0) (fr_node x0) None g s d Inv (held_open s d None ref Inv Hr)) as W1. cbv zeta in W1.
    destruct (walk_one B bstep (fr_file x0) (fr_node x0) None g s) as [w s1]. cbn [fst snd] in W1.
    destruct W1 as (I1 & L1 & SC1).
    destruct w as [e|h m ino]; [cbn; auto|].
    set (x := mkref h 0 false 0 (fr_mode x0) (fr_node x0) (fr_parent x0) None XNone).
    assert (Hr1 : 0 < hc s1 ref) by (eapply led_hc_pos; [exact L1 | lia | reflexivity]).
    assert (HP : forall p, fr_parent x = Some p -> 0 < C s1 p).
    { intros p Hp. cbn in Hp.
      destruct (inv_live B s1 d ref (proj1 I1) ltac:(pose proof (C_hc s1 ref); lia)) as (Lr & Lv).
      apply (C_parent B s1 ref p Lr Lv). rewrite (gref_sc s s1 ref SC1). exact Hp. }
    destruct (new_owner_inc_ok s1 d h x I1 eq_refl eq_refl HP) as (E2 & I2 & L2 & _).
    destruct (new_ref_inc B x s1) as [nr s2]. cbn [fst snd] in *.
    assert (L02 : led [nr] [] s s2). { eapply led_equiv; [|exact (led_trans _ _ _ _ _ _ _ L1 L2)]. led_arith. }
    destruct (fr_parent x0) as [p|]; [|cbn; auto].
    destruct (is_deleted B s2 nr); [cbn; auto|].
    destruct (name_for B (fr_node (gref s2 p)) ref s2) as [nm|].
    + pose proof (sl_add_child (fr_node (gref s2 p)) nr nm s2) as SC3.
      set (s3 := add_child B (fr_node (gref s2 p)) nr nm s2) in *.
      destruct (sl_ok s2 s3 d SC3 I2) as (I3 & L3).
      assert (L03 : led [nr] [] s s3). { eapply led_equiv; [|exact (led_trans _ _ _ _ _ _ _ L02 L3)]. led_arith. }
      destruct (s_panic B s3) eqn:P3; cbn [fst snd]; split; auto.
      apply (led_weaken_panic [] [nr] []); auto.
    + cbn [fst snd]. destruct (sl_ok s2 (set_panic B s2) d (sl_set_panic s2) I2) as (I3 & L3). split; auto.
      apply (led_weaken_panic [] [nr] []); [|reflexivity].
      eapply led_equiv; [|exact (led_trans _ _ _ _ _ _ _ L02 L3)]. led_arith.
  - destruct (hold_ok s d ref Inv ltac:(pose proof (C_hc s ref); lia)) as (I1 & L1).
    assert (H1 : 0 < hc (hold B ref s) ref) by (eapply led_hc_pos; [exact L1 | rewrite cnt_cons, ind_same; lia | reflexivity]).
    pose proof (walk_steps_ok (nm :: rest) ref (hold B ref s) d I1 H1) as W. cbv zeta in W.
    destruct (walk_steps B bstep ref (nm :: rest) (hold B ref s)) as [res s2]. cbn [fst snd] in *. destruct W as (I2 & L2).
    split; auto. destruct res.
    + eapply led_equiv; [|exact (led_trans _ _ _ _ _ _ _ L1 L2)]. led_arith.
    + eapply led_equiv; [|exact (led_trans _ _ _ _ _ _ _ L1 L2)]. led_arith.
Qed.

(** ---- the handlers ---- *)
Ltac uses_tac := intros h Hh; cbn in Hh; repeat (destruct Hh as [<-|Hh]); try contradiction; try assumption; eauto.
Ltac sl_leaf :=
  first [ apply same_life_refl | apply sl_guarded_call; [reflexivity | uses_tac] | apply sl_set_panic
        | match goal with
          | |- same_life ?s (snd (let '(_, _) := guarded_call B bstep ?a ?g ?c ?s in _)) =>
              let H := fresh in
              assert (H : same_life s (snd (guarded_call B bstep a g c s))) by (apply sl_guarded_call; [reflexivity | uses_tac]);
              destruct (guarded_call B bstep a g c s); exact H
          end ].

Lemma closed_sl s s' h : same_life s s' -> (closed s' h <-> closed s h).
Proof. intros ((_ & _ & E) & _). unfold LifeProofs.closed. rewrite E. tauto. Qed.

Lemma ok_walk_op c fid newfid names g : ok [] (fun s => snd (do_walk_op B bstep c fid newfid names g s)).
Proof.
  unfold do_walk_op. apply with_fid_ok. intros r s d Inv HP.
  destruct (fr_opened (gref s r) && (fid =? newfid)); [cbn; split; [auto | apply led_refl]|].
  assert (Hr : 0 < hc s r) by (apply HP; left; reflexivity).
  pose proof (do_walk_ok r names g s d Inv Hr) as W. cbv zeta in W.
  destruct (do_walk B bstep r names g s) as [res s1]. cbn [fst snd] in W. destruct W as (I1 & L1).
  destruct res as [e|nr]; [cbn; auto|]. cbn [snd].
  assert (Hn : 0 < hc s1 nr) by (eapply led_hc_pos; [exact L1 | rewrite cnt_cons, ind_same; lia | reflexivity]).
  destruct (insert_ok s1 d c newfid nr I1 ltac:(pose proof (C_hc s1 nr); lia)) as (I2 & L2).
  assert (Hn2 : 0 < hc (insert_fid B bstep c newfid nr s1) nr) by (eapply led_hc_pos; [exact L2 | lia | reflexivity]).
  destruct (release_ok _ d nr I2 Hn2) as (I3 & L3). split; auto.
  eapply led_equiv; [|exact (led_trans _ _ _ _ _ _ _ (led_trans _ _ _ _ _ _ _ L1 L2) L3)]. led_arith.
Qed.

Lemma ok_attach c fid names : ok [] (fun s => snd (do_attach B bstep c fid names s)).
Proof.
  intros s d Inv _. unfold do_attach.
  pose proof (sl_bc (BAttach (s_nexth B s)) s ltac:(intros h [])) as SC1.
  destruct (bcall_ B bstep (BAttach (s_nexth B s)) s) as [a s1]. cbn [snd] in SC1.
  destruct (sl_ok s s1 d SC1 Inv) as (I1 & L1).
  assert (Main : forall (s1' := take_handle B s1),
     let '(root, s2) := new_ref B (mkref (s_nexth B s) 0 false 0 MNone 0 None None XNone) s1' in
     let '(a2, s3) := bcall_ B bstep (BGetAttr (s_nexth B s)) s2 in
     FInv (snd (match a2 with
      | AErr e => (rerr e, release B bstep root s3)
      | AOk m ino | ABadQ m ino =>
          let s4 := set_ref B root (fr_with_mode (gref s3 root) m) s3 in
          match names with
          | [] => (rok ino, release B bstep root (insert_fid B bstep c fid root s4))
          | _ =>
              let '(d0, s5) := do_walk B bstep root names false s4 in
              match d0 with
              | DFail e => (rerr e, release B bstep root s5)
              | DOk nr => (rok ino, release B bstep root (release B bstep nr (insert_fid B bstep c fid nr s5)))
              end
          end
      end)) d /\
     led [] [] s (snd (match a2 with
      | AErr e => (rerr e, release B bstep root s3)
      | AOk m ino | ABadQ m ino =>
          let s4 := set_ref B root (fr_with_mode (gref s3 root) m) s3 in
          match names with
          | [] => (rok ino, release B bstep root (insert_fid B bstep c fid root s4))
          | _ =>
              let '(d0, s5) := do_walk B bstep root names false s4 in
              match d0 with
              | DFail e => (rerr e, release B bstep root s5)
              | DOk nr => (rok ino, release B bstep root (release B bstep nr (insert_fid B bstep c fid nr s5)))
              end
          end
      end))).
  { intros s1'.
    assert (N1 : s_nexth B s1 = s_nexth B s) by (apply SC1).
    destruct (take_handle_ok s1 d I1) as (It & Lt). fold s1' in It, Lt. rewrite N1 in It.
    set (x := mkref (s_nexth B s) 0 false 0 MNone 0 None None XNone).
    change (new_ref B x s1') with (new_ref_inc B x s1').
    destruct (new_owner_inc_ok s1' d (s_nexth B s) x It eq_refl eq_refl ltac:(intros p Hp; discriminate)) as (E2 & I2 & L2 & _).
    assert (Nn : ~ closed (snd (new_ref_inc B x s1')) (s_nexth B s)).
    { intros Hc. destruct (K3 B s1' _ (proj1 (proj2 It)) (s_nexth B s) Hc) as (_ & Np). congruence. }
    destruct (new_ref_inc B x s1') as [root s2]. cbn [fst snd] in *.
    pose proof (sl_bc (BGetAttr (s_nexth B s)) s2 ltac:(intros h [<-|[]]; exact Nn)) as SC3.
    destruct (bcall_ B bstep (BGetAttr (s_nexth B s)) s2) as [a2 s3]. cbn [snd] in SC3.
    destruct (sl_ok s2 s3 d SC3 I2) as (I3 & L3).
    assert (L03 : led [root] [] s s3).
    { eapply led_equiv; [|exact (led_trans _ _ _ _ _ _ _ (led_trans _ _ _ _ _ _ _ (led_trans _ _ _ _ _ _ _ L1 Lt) L2) L3)]. led_arith. }
    assert (H3 : 0 < hc s3 root) by (eapply led_hc_pos; [exact L03 | rewrite cnt_cons, ind_same; lia | reflexivity]).
    assert (Ok : forall m ino,
      let s4 := set_ref B root (fr_with_mode (gref s3 root) m) s3 in
      FInv (snd (match names with
          | [] => (rok ino, release B bstep root (insert_fid B bstep c fid root s4))
          | _ =>
              let '(d0, s5) := do_walk B bstep root names false s4 in
              match d0 with
              | DFail e => (rerr e, release B bstep root s5)
              | DOk nr => (rok ino, release B bstep root (release B bstep nr (insert_fid B bstep c fid nr s5)))
              end
          end)) d /\
      led [] [] s (snd (match names with
          | [] => (rok ino, release B bstep root (insert_fid B bstep c fid root s4))
          | _ =>
              let '(d0, s5) := do_walk B bstep root names false s4 in
              match d0 with
              | DFail e => (rerr e, release B bstep root s5)
              | DOk nr => (rok ino, release B bstep root (release B bstep nr (insert_fid B bstep c fid nr s5)))
              end
          end))).
    { intros m ino s4.
      destruct (set_fields_ok s3 d root (fr_with_mode (gref s3 root) m) I3 eq_refl eq_refl eq_refl eq_refl) as (I4 & L4). fold s4 in I4, L4.
      assert (L04 : led [root] [] s s4) by (eapply led_equiv; [|exact (led_trans _ _ _ _ _ _ _ L03 L4)]; led_arith).
      assert (H4 : 0 < hc s4 root) by (eapply led_hc_pos; [exact L4 | lia | reflexivity]).
      assert (Tail : forall s5, FInv s5 d -> led [root] [] s s5 ->
                FInv (release B bstep root s5) d /\ led [] [] s (release B bstep root s5)).
      { intros s5 I5 L5.
        assert (H5 : 0 < hc s5 root) by (eapply led_hc_pos; [exact L5 | rewrite cnt_cons, ind_same; lia | reflexivity]).
        destruct (release_ok s5 d root I5 H5) as (I6 & L6). split; auto.
        eapply led_equiv; [|exact (led_trans _ _ _ _ _ _ _ L5 L6)]. led_arith. }
      destruct names as [|nm rest].
      - cbn [snd]. destruct (insert_ok s4 d c fid root I4 ltac:(pose proof (C_hc s4 root); lia)) as (I5 & L5).
        apply Tail; auto. eapply led_equiv; [|exact (led_trans _ _ _ _ _ _ _ L04 L5)]. led_arith.
      - pose proof (do_walk_ok root (nm :: rest) false s4 d I4 H4) as W. cbv zeta in W.
        destruct (do_walk B bstep root (nm :: rest) false s4) as [res s5]. cbn [fst snd] in W. destruct W as (I5 & L5).
        destruct res as [e|nr]; cbn [snd].
        + apply Tail; auto. eapply led_equiv; [|exact (led_trans _ _ _ _ _ _ _ L04 L5)]. led_arith.
        + assert (Hn : 0 < hc s5 nr) by (eapply led_hc_pos; [exact L5 | rewrite cnt_cons, ind_same; lia | reflexivity]).
          destruct (insert_ok s5 d c fid nr I5 ltac:(pose proof (C_hc s5 nr); lia)) as (I6 & L6).
          assert (Hn6 : 0 < hc (insert_fid B bstep c fid nr s5) nr) by (eapply led_hc_pos; [exact L6 | lia | reflexivity]).
          destruct (release_ok _ d nr I6 Hn6) as (I7 & L7).
          apply Tail; auto.
          eapply led_equiv; [|exact (led_trans _ _ _ _ _ _ _ (led_trans _ _ _ _ _ _ _ (led_trans _ _ _ _ _ _ _ L04 L5) L6) L7)]. led_arith. }
    destruct a2 as [m ino|e|m ino]; [apply Ok | | apply Ok].
    cbn [snd]. destruct (release_ok s3 d root I3 H3) as (I4 & L4). split; auto.
    eapply led_equiv; [|exact (led_trans _ _ _ _ _ _ _ L03 L4)]. led_arith. }
  cbv zeta in Main.
  destruct a as [m ino|e|m ino]; [| cbn; auto |];
  destruct (new_ref B _ (take_handle B s1)) as [root s2]; destruct (bcall_ B bstep (BGetAttr (s_nexth B s)) s2) as [a2 s3]; exact Main.
Qed.

Lemma ok_bracket_sc c fid body :
  (forall r s, ~ closed s (fr_file (gref s r)) -> same_life s (snd (body r s))) -> ok [] (fun s => snd (with_fid B bstep c fid body s)).
Proof.
  intros H. apply with_fid_ok. intros r s d Inv HP. apply sl_ok; auto. apply H.
  apply (held_open s d None r Inv). apply HP. left. reflexivity.
Qed.

Lemma ok_getattr c fid : ok [] (fun s => snd (do_getattr B bstep c fid s)).
Proof. apply ok_bracket_sc. intros r s O. sl_leaf. Qed.
Lemma ok_use k c fid : ok [] (fun s => snd (do_use B bstep k c fid s)).
Proof. apply ok_bracket_sc. intros r s O. sl_leaf. Qed.
Lemma ok_setattr c fid : ok [] (fun s => snd (do_setattr B bstep c fid s)).
Proof. apply ok_bracket_sc. intros r s O. sl_leaf. Qed.
Lemma ok_mk k c fid nm : ok [] (fun s => snd (do_mk B bstep k c fid nm s)).
Proof. apply ok_bracket_sc. intros r s O. sl_leaf. Qed.
Lemma ok_readlink c fid : ok [] (fun s => snd (do_readlink B bstep c fid s)).
Proof. apply ok_bracket_sc. intros r s O. sl_leaf. Qed.
Lemma ok_readdir c fid : ok [] (fun s => snd (do_readdir B bstep c fid s)).
Proof. apply ok_bracket_sc. intros r s O. cbv zeta. sl_leaf. Qed.
Lemma ok_io k c fid : ok [] (fun s => snd (do_io B bstep k c fid s)).
Proof.
  apply ok_bracket_sc. intros r s O. cbv zeta.
  destruct (k =? uFsync); [sl_leaf|]. destruct (k =? uRead); destruct (fr_xop (gref s r)); sl_leaf.
Qed.

Lemma ok_link c dfid tfid nm : ok [] (fun s => snd (do_link B bstep c dfid tfid nm s)).
Proof.
  unfold do_link. apply with_fid_ok. intros r. apply with_fid_ok. intros t s d Inv HP. apply sl_ok; auto.
  assert (Or : ~ closed s (fr_file (gref s r))) by (apply (held_open s d None r Inv); apply HP; right; left; reflexivity).
  assert (Ot : ~ closed s (fr_file (gref s t))) by (apply (held_open s d None t Inv); apply HP; left; reflexivity).
  sl_leaf.
Qed.

Lemma ok_unlinkat c fid nm : ok [] (fun s => snd (do_unlinkat B bstep c fid nm s)).
Proof.
  apply ok_bracket_sc. intros r s O. destruct (dir_guard B s r); [sl_leaf|]. cbv zeta.
  pose proof (sl_path_node_for (fr_node (gref s r)) nm s) as SC1.
  destruct (path_node_for B (fr_node (gref s r)) nm s) as [cn s1]. cbn [snd] in SC1.
  pose proof (sl_bc (BUnlinkAt (fr_file (gref s r)) nm) s1 ltac:(intros h [<-|[]]; rewrite (closed_sl s s1 _ SC1); exact O)) as SC2.
  destruct (bcall_ B bstep (BUnlinkAt (fr_file (gref s r)) nm) s1) as [a s2]. cbn [snd] in SC2.
  assert (SC02 : same_life s s2) by (eapply same_life_trans; eauto).
  destruct a; cbn [snd]; auto; (eapply same_life_trans; [exact SC02 | apply sl_mark_child_deleted]).
Qed.

Lemma ok_open c fid flags : ok [] (fun s => snd (do_open B bstep c fid flags s)).
Proof.
  unfold do_open. apply with_fid_ok. intros r s d Inv HP. cbv zeta.
  assert (O : ~ closed s (fr_file (gref s r))) by (apply (held_open s d None r Inv); apply HP; left; reflexivity).
  destruct (is_deleted B s r); [cbn; split; [auto | apply led_refl]|].
  destruct (_ || _); [cbn; split; [auto | apply led_refl]|]. destruct (_ && _); [cbn; split; [auto | apply led_refl]|].
  pose proof (sl_bc (BOpen (fr_file (gref s r)) flags) s ltac:(intros h [<-|[]]; exact O)) as SC.
  destruct (bcall_ B bstep (BOpen (fr_file (gref s r)) flags) s) as [a s1]. cbn [snd] in SC.
  destruct (sl_ok s s1 d SC Inv) as (I1 & L1).
  destruct a; cbn [snd]; auto;
    destruct (set_fields_ok s1 d r (fr_with_open (gref s1 r) flags) I1 eq_refl eq_refl eq_refl eq_refl) as (I2 & L2);
    (split; [exact I2|]); (eapply led_equiv; [|exact (led_trans _ _ _ _ _ _ _ L1 L2)]); led_arith.
Qed.

Lemma ok_xattrcreate c fid : ok [] (fun s => snd (do_xattrcreate B bstep c fid s)).
Proof.
  unfold do_xattrcreate. apply with_fid_ok. intros r s d Inv _.
  destruct (is_deleted B s r); cbn [snd]; [split; [auto | apply led_refl]|].
  apply set_fields_ok; auto.
Qed.

Lemma ok_clunk c fid : ok [] (fun s => snd (do_clunk B bstep c fid s)).
Proof.
  intros s d Inv HP. unfold do_clunk.
  set (body := fun r s => match fr_xop (gref s r) with
                          | XCreate => guarded_call B bstep r None (BUse uSetXattr (fr_file (gref s r))) s
                          | _ => (rok 0, s) end).
  assert (W : ok [] (fun s => snd (with_fid B bstep c fid body s))).
  { apply ok_bracket_sc. intros r s0 O. unfold body. destruct (fr_xop (gref s0 r)); sl_leaf. }
  destruct (W s d Inv HP) as (I1 & L1).
  destruct (with_fid B bstep c fid body s) as [cerr s1]. cbn [snd] in *.
  destruct (delete_ok s1 d c fid I1) as (I2 & L2).
  destruct (delete_fid B bstep c fid s1) as [e s2]. cbn [snd] in *.
  assert (R : FInv s2 d /\ led [] [] s s2).
  { split; auto. eapply led_equiv; [|exact (led_trans _ _ _ _ _ _ _ L1 L2)]. led_arith. }
  destruct e; [exact R|]. destruct (fst cerr =? 0); exact R.
Qed.

Lemma ok_remove c fid : ok [] (fun s => snd (do_remove B bstep c fid s)).
Proof.
  unfold do_remove. apply with_fid_ok. intros r s d Inv HP. cbv zeta.
  assert (Hr : 0 < hc s r) by (apply HP; left; reflexivity).
  set (first := match fr_parent (gref s r) with
                | None => (Some EINVAL, s)
                | Some p =>
                    if is_deleted B s r then (Some EINVAL, s)
                    else match name_for B (fr_node (gref s p)) r s with
                         | None => (Some EFAULT, set_panic B s)
                         | Some nm =>
                             let '(a, s1) := bcall_ B bstep (BUnlinkAt (fr_file (gref s p)) nm) s in
                             match a with
                             | AErr e => (Some e, s1)
                             | _ => (None, mark_child_deleted B bstep (fr_node (gref s1 p)) nm s1)
                             end
                         end
                end).
  assert (SC : same_life s (snd first)).
  { unfold first. destruct (fr_parent (gref s r)) as [p|] eqn:EP; [|sl_leaf].
    destruct (is_deleted B s r); [sl_leaf|]. destruct (name_for _ _ _ _) as [nm|]; [|sl_leaf].
    pose proof (sl_bc (BUnlinkAt (fr_file (gref s p)) nm) s ltac:(intros h [<-|[]]; exact (parent_open s d None r p Inv Hr EP))) as SC1.
    destruct (bcall_ B bstep (BUnlinkAt (fr_file (gref s p)) nm) s) as [a s1]. cbn [snd] in SC1.
    destruct a; cbn [snd]; auto; (eapply same_life_trans; [exact SC1 | apply sl_mark_child_deleted]). }
  destruct first as [err s1]. cbn [snd] in SC.
  destruct (sl_ok s s1 d SC Inv) as (I1 & L1).
  destruct (s_panic B s1 && negb (s_panic B s)); [cbn; auto|].
  destruct (delete_ok s1 d c fid I1) as (I2 & L2).
  destruct (delete_fid B bstep c fid s1) as [fe s2]. cbn [snd] in *.
  assert (R : FInv s2 d /\ led [] [] s s2).
  { split; auto. eapply led_equiv; [|exact (led_trans _ _ _ _ _ _ _ L1 L2)]. led_arith. }
  destruct fe; [exact R|]. destruct err; exact R.
Qed.

Lemma ok_create c fid nm flags : ok [] (fun s => snd (do_create B bstep c fid nm flags s)).
Proof.
  unfold do_create. apply with_fid_ok. intros r s d Inv HP.
  assert (Hr : 0 < hc s r) by (apply HP; left; reflexivity).
  destruct (dir_guard B s r); [cbn; split; [auto | apply led_refl]|]. cbv zeta.
  pose proof (sl_bc (BCreate (fr_file (gref s r)) nm (s_nexth B s)) s ltac:(intros h [<-|[]]; exact (held_open s d None r Inv Hr))) as SC1.
  destruct (bcall_ B bstep (BCreate (fr_file (gref s r)) nm (s_nexth B s)) s) as [a s1]. cbn [snd] in SC1.
  destruct (sl_ok s s1 d SC1 Inv) as (I1 & L1).
  assert (Main : forall ino,
    FInv (snd (let '(cn, s2) := path_node_for B (fr_node (gref s r)) nm (take_handle B s1) in
         let '(nr, s3) := new_ref_inc B (mkref (s_nexth B s) 0 true flags MReg cn (Some r) None XNone) s2 in
         let s4 := add_child B (fr_node (gref s r)) nr nm s3 in
         if s_panic B s4 then (rerr EFAULT, s4)
         else (rok ino, release B bstep nr (insert_fid B bstep c fid nr s4)))) d /\
    led [] [] s (snd (let '(cn, s2) := path_node_for B (fr_node (gref s r)) nm (take_handle B s1) in
         let '(nr, s3) := new_ref_inc B (mkref (s_nexth B s) 0 true flags MReg cn (Some r) None XNone) s2 in
         let s4 := add_child B (fr_node (gref s r)) nr nm s3 in
         if s_panic B s4 then (rerr EFAULT, s4)
         else (rok ino, release B bstep nr (insert_fid B bstep c fid nr s4))))).
  { intros ino.
    assert (N1 : s_nexth B s1 = s_nexth B s) by (apply SC1).
    destruct (take_handle_ok s1 d I1) as (It & Lt). rewrite N1 in It.
    pose proof (sl_path_node_for (fr_node (gref s r)) nm (take_handle B s1)) as SC2.
    destruct (path_node_for B (fr_node (gref s r)) nm (take_handle B s1)) as [cn s2]. cbn [snd] in SC2.
    destruct (sl_ok _ s2 d SC2 It) as (I2 & L2).
    assert (L02 : led [] [] s s2).
    { eapply led_equiv; [|exact (led_trans _ _ _ _ _ _ _ (led_trans _ _ _ _ _ _ _ L1 Lt) L2)]. led_arith. }
    assert (Hr2 : 0 < hc s2 r) by (eapply led_hc_pos; [exact L02 | lia | reflexivity]).
    set (x := mkref (s_nexth B s) 0 true flags MReg cn (Some r) None XNone).
    assert (HPx : forall p, fr_parent x = Some p -> 0 < C s2 p).
    { intros p [= <-]. pose proof (C_hc s2 r); lia. }
    destruct (new_owner_inc_ok s2 d (s_nexth B s) x I2 eq_refl eq_refl HPx) as (E3 & I3 & L3 & _).
    destruct (new_ref_inc B x s2) as [nr s3]. cbn [fst snd] in *.
    pose proof (sl_add_child (fr_node (gref s r)) nr nm s3) as SC4.
    set (s4 := add_child B (fr_node (gref s r)) nr nm s3) in *.
    destruct (sl_ok s3 s4 d SC4 I3) as (I4 & L4).
    assert (L04 : led [nr] [] s s4).
    { eapply led_equiv; [|exact (led_trans _ _ _ _ _ _ _ (led_trans _ _ _ _ _ _ _ L02 L3) L4)]. led_arith. }
    destruct (s_panic B s4) eqn:P4; cbn [snd].
    - split; auto. apply (led_weaken_panic [] [nr] []); auto.
    - assert (Hn : 0 < hc s4 nr) by (eapply led_hc_pos; [exact L04 | rewrite cnt_cons, ind_same; lia | reflexivity]).
      destruct (insert_ok s4 d c fid nr I4 ltac:(pose proof (C_hc s4 nr); lia)) as (I5 & L5).
      assert (Hn5 : 0 < hc (insert_fid B bstep c fid nr s4) nr) by (eapply led_hc_pos; [exact L5 | lia | reflexivity]).
      destruct (release_ok _ d nr I5 Hn5) as (I6 & L6). split; auto.
      eapply led_equiv; [|exact (led_trans _ _ _ _ _ _ _ (led_trans _ _ _ _ _ _ _ L04 L5) L6)]. led_arith. }
  destruct a as [m ino|e|m ino]; [apply Main | cbn; auto | apply Main].
Qed.

Lemma ok_xattrwalk c fid newfid : ok [] (fun s => snd (do_xattrwalk B bstep c fid newfid s)).
Proof.
  unfold do_xattrwalk. apply with_fid_ok. intros r s d Inv HP.
  assert (Hr : 0 < hc s r) by (apply HP; left; reflexivity).
  destruct (is_deleted B s r); [cbn; split; [auto | apply led_refl]|]. cbv zeta.
  pose proof (sl_bc (BUse uGetXattr (fr_file (gref s r))) s ltac:(intros h [<-|[]]; exact (held_open s d None r Inv Hr))) as SC1.
  destruct (bcall_ B bstep (BUse uGetXattr (fr_file (gref s r))) s) as [a s1]. cbn [snd] in SC1.
  destruct (sl_ok s s1 d SC1 Inv) as (I1 & L1).
  assert (Main :
    let '(nr, s2) := new_ref_inc B (mkref (fr_file (gref s r)) 0 false 0 MNone (fr_node (gref s r)) None (Some r) XWalk) s1 in
    FInv (release B bstep nr (insert_fid B bstep c newfid nr s2)) d /\
    led [] [] s (release B bstep nr (insert_fid B bstep c newfid nr s2))).
  { assert (Hr1 : 0 < hc s1 r) by (eapply led_hc_pos; [exact L1 | lia | reflexivity]).
    set (x := mkref (fr_file (gref s r)) 0 false 0 MNone (fr_node (gref s r)) None (Some r) XWalk).
    assert (HX : forall o, fr_xattrOf x = Some o -> 0 < C s1 o).
    { intros o [= <-]. pose proof (C_hc s1 r); lia. }
    assert (HF : fr_file x = fr_file (gref s1 r)) by (rewrite (gref_sc s s1 r (proj1 (proj1 SC1))); reflexivity).
    destruct (new_borrower_ok s1 d None x r I1 eq_refl eq_refl (HX r eq_refl) HF) as (E2 & I2 & L2 & _).
    destruct (new_ref_inc B x s1) as [nr s2]. cbn [fst snd] in *.
    assert (L02 : led [nr] [] s s2) by (eapply led_equiv; [|exact (led_trans _ _ _ _ _ _ _ L1 L2)]; led_arith).
    assert (Hn : 0 < hc s2 nr) by (eapply led_hc_pos; [exact L02 | rewrite cnt_cons, ind_same; lia | reflexivity]).
    destruct (insert_ok s2 d c newfid nr I2 ltac:(pose proof (C_hc s2 nr); lia)) as (I3 & L3).
    assert (Hn3 : 0 < hc (insert_fid B bstep c newfid nr s2) nr) by (eapply led_hc_pos; [exact L3 | lia | reflexivity]).
    destruct (release_ok _ d nr I3 Hn3) as (I4 & L4). split; auto.
    eapply led_equiv; [|exact (led_trans _ _ _ _ _ _ _ (led_trans _ _ _ _ _ _ _ L02 L3) L4)]. led_arith. }
  destruct (new_ref_inc B _ s1) as [nr s2].
  destruct a; cbn [snd]; auto.
Qed.

Lemma stop_loop_ok l c : forall s d, FInv s d -> FInv (stop_loop B bstep l c s) d /\ led [] [] s (stop_loop B bstep l c s).
Proof.
  induction l as [|[[c' f] r] l IH]; intros s d Inv; cbn [stop_loop]; [split; [auto | apply led_refl]|].
  destruct (c' =? c); auto.
  destruct (delete_ok s d c' f Inv) as (I1 & L1). destruct (IH _ d I1) as (I2 & L2). split; auto.
  eapply led_equiv; [|exact (led_trans _ _ _ _ _ _ _ L1 L2)]. led_arith.
Qed.

Lemma ok_stop c : ok [] (fun s => snd (do_stop B bstep c s)).
Proof. intros s d Inv _. unfold do_stop. cbn [snd]. apply stop_loop_ok; auto. Qed.

(** ---- rename ---- *)

Lemma rename_cb_ok tgt newnm r s d :
  FInv s d -> 0 < hc s r -> 0 < hc s tgt ->
  FInv (rename_cb B bstep tgt newnm r s) d /\ led [] [] s (rename_cb B bstep tgt newnm r s).
Proof.
  intros Inv Hhr Hht. unfold rename_cb.
  assert (Hr : 0 < C s r) by (pose proof (C_hc s r); lia).
  assert (Ht : 0 < C s tgt) by (pose proof (C_hc s tgt); lia).
  destruct (fr_parent (gref s r)) as [p|] eqn:EP; [|apply sl_ok; auto; apply sl_set_panic].
  destruct Inv as (I & K & W).
  pose proof (reparent_inv B s d r p tgt I Hr EP Ht) as I1.
  destruct (inv_live B s d tgt I Ht) as (Ltg & _).
  set (sA := set_ref B r (fr_with_parent (gref s r) (Some tgt)) s) in *.
  assert (KA : KInv sA None) by (apply K_set_ref; auto; intros q [= <-]; exact Ltg).
  set (s1 := incref B tgt sA) in *.
  assert (K1 : KInv s1 None).
  { apply K_incref; auto. pose proof (live_of_C s d tgt I Ht) as Lt. unfold sA.
    destruct (Nat.eq_dec r tgt) as [<-|N].
    - destruct (inv_live B s d r I Hr) as (Lr & _). rewrite gref_set_same by auto. exact Lt.
    - rewrite gref_set_other by auto. exact Lt. }
  assert (L1 : led [] [] s s1). { split; [intro; auto|]. unfold RefStep.hc; cbn. split; intros; lia. }
  assert (F1 : FInvP s1 (p :: d) None) by (split; [exact I1 | split; [exact K1 | exact W]]).
  pose proof (sl_add_child (fr_node (gref s1 tgt)) r newnm s1) as SC2.
  set (s2 := add_child B (fr_node (gref s1 tgt)) r newnm s1) in *.
  destruct (sl_ok s1 s2 (p :: d) SC2 F1) as (F2 & L2).
  assert (L02 : led [] [] s s2) by (eapply led_equiv; [|exact (led_trans _ _ _ _ _ _ _ L1 L2)]; led_arith).
  assert (Hr2 : 0 < hc s2 r) by (eapply led_hc_pos; [exact L02 | lia | reflexivity]).
  assert (Ht2 : 0 < hc s2 tgt) by (eapply led_hc_pos; [exact L02 | lia | reflexivity]).
  pose proof (sl_bc (BRenamed (fr_file (gref s2 r)) (fr_file (gref s2 tgt)) newnm) s2
                ltac:(intros h [<-|[<-|[]]]; [exact (held_open s2 _ None r F2 Hr2) | exact (held_open s2 _ None tgt F2 Ht2)])) as SC3.
  set (s3 := snd (bcall_ B bstep (BRenamed (fr_file (gref s2 r)) (fr_file (gref s2 tgt)) newnm) s2)) in *.
  destruct (sl_ok s2 s3 (p :: d) SC3 F2) as ((I3 & K3 & W3) & L3).
  destruct (decref_ok B bstep p s3 d I3) as (I4 & _ & Kp4).
  split; [split; [exact I4 | split; [exact (decref_K_ B bstep p s3 d None I3 K3) | exact (decref_U_ B bstep p s3 d None I3 K3 W3)]]|].
  eapply led_equiv; [|exact (led_trans _ _ _ _ _ _ _ (led_trans _ _ _ _ _ _ _ L02 L3) (led_keeps _ _ Kp4))]. led_arith.
Qed.

Lemma rwn_loop_ok n nm tgt newnm m : forall held s d,
  FInv s d -> 0 < hc s tgt ->
  let r := rwn_loop B n nm (Some (rename_cb B bstep tgt newnm)) m held s in
  FInv (snd r) d /\ exists new, fst r = held ++ new /\ led new [] s (snd r).
Proof.
  induction m as [|r m IH]; intros held s d Inv Ht; cbv zeta; cbn [rwn_loop].
  - cbn. split; auto. exists []. rewrite app_nil_r. split; [reflexivity | apply led_refl].
  - cbv zeta.
    set (s1 := set_node B n _ s).
    assert (SC1 : same_life s s1) by apply sl_set_node.
    destruct (sl_ok s s1 d SC1 Inv) as (I1 & L1).
    assert (Ht1 : 0 < hc s1 tgt) by (eapply led_hc_pos; [exact L1 | lia | reflexivity]).
    unfold try_incref.
    destruct (Z.leb_spec (fr_refs (gref s1 r)) 0) as [Le|Gt].
    + specialize (IH held s1 d I1 Ht1). cbv zeta in IH. destruct IH as (I2 & new & E2 & L2).
      cbn [fst snd]. split; [exact I2|]. exists new. split; [exact E2|].
      eapply led_equiv; [|exact (led_trans _ _ _ _ _ _ _ L1 L2)]. led_arith.
    + assert (Lr : r < length (s_refs B s1)).
      { destruct (Nat.lt_ge_cases r (length (s_refs B s1))); auto. unfold get_ref in Gt. rewrite nth_overflow in Gt by auto. cbn in Gt. lia. }
      change (with_held B (r :: s_held B (incref B r s1)) (incref B r s1)) with (hold B r s1).
      assert (I2 : FInv (hold B r s1) d).
      { split; [apply (hold_inv_live B s1 d r (proj1 I1) Lr Gt)|]. split; [|apply I1]. unfold hold. apply K_with_held, K_incref; [apply I1|].
        unfold live. apply Z.ltb_lt. exact Gt. }
      assert (L2 : led [r] [] s1 (hold B r s1)).
      { split; [intro; auto|]. unfold hc, hold; cbn. split; intros; rewrite !cnt_cons, !cnt_nil; lia. }
      assert (Hr2 : 0 < hc (hold B r s1) r) by (eapply led_hc_pos; [exact L2 | rewrite cnt_cons, ind_same; lia | reflexivity]).
      assert (Ht2 : 0 < hc (hold B r s1) tgt) by (eapply led_hc_pos; [exact L2 | lia | reflexivity]).
      destruct (rename_cb_ok tgt newnm r (hold B r s1) d I2 Hr2 Ht2) as (I3 & L3).
      set (s3 := rename_cb B bstep tgt newnm r (hold B r s1)) in *.
      assert (Ht3 : 0 < hc s3 tgt) by (eapply led_hc_pos; [exact L3 | lia | reflexivity]).
      specialize (IH (held ++ [r]) s3 d I3 Ht3). cbv zeta in IH. destruct IH as (I4 & new & E4 & L4).
      split; auto. exists (r :: new). split; [rewrite E4, <- app_assoc; reflexivity|].
      eapply led_equiv; [|exact (led_trans _ _ _ _ _ _ _ (led_trans _ _ _ _ _ _ _ (led_trans _ _ _ _ _ _ _ L1 L2) L3) L4)]. led_arith.
Qed.

(** one iteration of removeWithName's loop with renameChildTo's callback, as a state function *)
Definition rwn_iter (n nm tgt newnm r : nat) (s : st) : st :=
  let pn := get_node B s n in
  let cur := match alookup Nat.eqb nm (pn_refs pn) with Some l => l | None => [] end in
  let s1 := set_node B n (pn_with_refs pn (aset Nat.eqb nm (remove_nat r cur) (pn_refs pn)) (adel Nat.eqb r (pn_names pn))) s in
  if (fr_refs (gref s1 r) <=? 0)%Z then s1 else rename_cb B bstep tgt newnm r (hold B r s1).

(** the loop again, carrying an arbitrary property [P] of (state, remaining refs) that one iteration preserves *)
Lemma rwn_loop_gen n nm tgt newnm (P : st -> list nat -> Prop) d m : forall held s,
  (forall r rest s0, FInv s0 d -> 0 < hc s0 tgt -> P s0 (r :: rest) -> P (rwn_iter n nm tgt newnm r s0) rest) ->
  FInv s d -> 0 < hc s tgt -> P s m ->
  P (snd (rwn_loop B n nm (Some (rename_cb B bstep tgt newnm)) m held s)) [].
Proof.
  induction m as [|r m IH]; intros held s Hit Inv Ht HP; cbn [rwn_loop]; [exact HP|]. cbv zeta.
  pose proof (Hit r m s Inv Ht HP) as HP1. unfold rwn_iter in HP1. cbv zeta in HP1.
  set (s1 := set_node B n _ s) in *.
  assert (SC1 : same_life s s1) by apply sl_set_node.
  destruct (sl_ok s s1 d SC1 Inv) as (I1 & L1).
  assert (Ht1 : 0 < hc s1 tgt) by (eapply led_hc_pos; [exact L1 | lia | reflexivity]).
  unfold try_incref.
  destruct (Z.leb_spec (fr_refs (gref s1 r)) 0) as [Le|Gt].
  - apply IH; auto.
  - assert (Lr : r < length (s_refs B s1)).
    { destruct (Nat.lt_ge_cases r (length (s_refs B s1))); auto. unfold get_ref in Gt. rewrite nth_overflow in Gt by auto. cbn in Gt. lia. }
    change (with_held B (r :: s_held B (incref B r s1)) (incref B r s1)) with (hold B r s1).
    assert (I2 : FInv (hold B r s1) d).
    { split; [apply (hold_inv_live B s1 d r (proj1 I1) Lr Gt)|]. split; [|apply I1]. unfold hold. apply K_with_held, K_incref; [apply I1|].
      unfold live. apply Z.ltb_lt. exact Gt. }
    assert (L2 : led [r] [] s1 (hold B r s1)).
    { split; [intro; auto|]. unfold RefStep.hc, hold; cbn. split; intros; rewrite !cnt_cons, !cnt_nil; lia. }
    assert (Hr2 : 0 < hc (hold B r s1) r) by (eapply led_hc_pos; [exact L2 | rewrite cnt_cons, ind_same; lia | reflexivity]).
    assert (Ht2 : 0 < hc (hold B r s1) tgt) by (eapply led_hc_pos; [exact L2 | lia | reflexivity]).
    destruct (rename_cb_ok tgt newnm r (hold B r s1) d I2 Hr2 Ht2) as (I3 & L3).
    assert (Ht3 : 0 < hc (rename_cb B bstep tgt newnm r (hold B r s1)) tgt) by (eapply led_hc_pos; [exact L3 | lia | reflexivity]).
    apply IH; auto.
Qed.

Lemma release_all_ok l : forall s d,
  FInv s d -> (forall q, cnt l q <= hc s q) ->
  FInv (release_all B bstep l s) d /\ led [] l s (release_all B bstep l s).
Proof.
  induction l as [|r l IH]; intros s d Inv H; cbn [release_all]; [split; [auto | apply led_refl]|].
  assert (Hr : 0 < hc s r). { specialize (H r). rewrite cnt_cons, ind_same in H. lia. }
  destruct (release_ok s d r Inv Hr) as (I1 & L1).
  assert (H1 : forall q, cnt l q <= hc (release B bstep r s) q).
  { intros q. specialize (H q). rewrite cnt_cons in H. pose proof (led_ge _ _ _ _ q L1) as G.
    rewrite cnt_cons, !cnt_nil in G. lia. }
  destruct (IH _ d I1 H1) as (I2 & L2). split; auto.
  eapply led_equiv; [|exact (led_trans _ _ _ _ _ _ _ L1 L2)]. led_arith.
Qed.

(** notifyNameChange: the fidRefs it notifies are held meanwhile (so they and their parents are live) *)
Definition nspec (f : list nat * st -> list nat * st) : Prop :=
  forall held s d, FInv s d ->
    FInv (snd (f (held, s))) d /\ exists new, fst (f (held, s)) = held ++ new /\ led new [] s (snd (f (held, s))).

Lemma nspec_fold {A} (f : A -> list nat * st -> list nat * st) (l : list A) :
  (forall a, nspec (f a)) -> nspec (fun hs => fold_left (fun st a => f a st) l hs).
Proof.
  intros H. induction l as [|a l IH]; intros held s d Inv; cbn [fold_left].
  - split; auto. exists []. rewrite app_nil_r. split; [reflexivity | apply led_refl].
  - destruct (H a held s d Inv) as (I1 & n1 & E1 & L1). destruct (f a (held, s)) as [h1 s1]. cbn [fst snd] in *. subst h1.
    destruct (IH (held ++ n1) s1 d I1) as (I2 & n2 & E2 & L2). split; auto.
    exists (n1 ++ n2). split; [rewrite E2, app_assoc; reflexivity|].
    eapply led_equiv; [|exact (led_trans _ _ _ _ _ _ _ L1 L2)]. led_arith.
Qed.

Lemma renamed_call_ok r nm : nspec (renamed_call B bstep r nm).
Proof.
  intros held s d Inv. unfold renamed_call, try_incref.
  destruct (Z.leb_spec (fr_refs (gref s r)) 0) as [Le|Gt].
  - cbn [fst snd]. split; auto. exists []. rewrite app_nil_r. split; [reflexivity | apply led_refl].
  - assert (Lr : r < length (s_refs B s)).
    { destruct (Nat.lt_ge_cases r (length (s_refs B s))); auto. unfold get_ref in Gt. rewrite nth_overflow in Gt by auto. cbn in Gt. lia. }
    change (with_held B (r :: s_held B (incref B r s)) (incref B r s)) with (hold B r s).
    assert (I2 : FInv (hold B r s) d).
    { split; [apply (hold_inv_live B s d r (proj1 Inv) Lr Gt)|]. split; [|apply Inv]. unfold hold. apply K_with_held, K_incref; [apply Inv|].
      unfold live. apply Z.ltb_lt. exact Gt. }
    assert (L2 : led [r] [] s (hold B r s)).
    { split; [intro; auto|]. unfold RefStep.hc, hold; cbn. split; intros; rewrite !cnt_cons, !cnt_nil; lia. }
    assert (Hr2 : 0 < hc (hold B r s) r) by (eapply led_hc_pos; [exact L2 | rewrite cnt_cons, ind_same; lia | reflexivity]).
    cbn [fst snd].
    assert (SC : same_life (hold B r s) (match fr_parent (gref (hold B r s) r) with
                 | Some p => snd (bcall_ B bstep (BRenamed (fr_file (gref (hold B r s) r)) (fr_file (gref (hold B r s) p)) nm) (hold B r s))
                 | None => set_panic B (hold B r s) end)).
    { destruct (fr_parent (gref (hold B r s) r)) as [p|] eqn:EP; [|apply sl_set_panic].
      apply sl_bcall; [reflexivity|]. intros h [<-|[<-|[]]]; [exact (held_open _ d None r I2 Hr2) | exact (parent_open _ d None r p I2 Hr2 EP)]. }
    destruct (sl_ok _ _ d SC I2) as (I3 & L3). split; auto. exists [r]. split; [reflexivity|].
    eapply led_equiv; [|exact (led_trans _ _ _ _ _ _ _ L2 L3)]. led_arith.
Qed.

Lemma notify_name_change_ok fuel : forall n, nspec (notify_name_change B bstep fuel n).
Proof.
  induction fuel as [|f IH]; intros n held s d Inv; cbn [notify_name_change fst snd].
  - destruct (sl_ok s (set_oof B s) d (sl_set_oof s) Inv) as (I1 & L1). split; auto.
    exists []. rewrite app_nil_r. split; [reflexivity | exact L1].
  - cbv zeta.
    pose proof (nspec_fold (fun e hs => fold_left (fun st' r => renamed_call B bstep r (fst e) st') (snd e) hs) (pn_refs (get_node B s n))
                  (fun e => nspec_fold (fun r hs => renamed_call B bstep r (fst e) hs) (snd e) (fun r => renamed_call_ok r (fst e)))) as F1.
    destruct (F1 held s d Inv) as (I1 & n1 & E1 & L1).
    destruct (fold_left _ (pn_refs (get_node B s n)) (held, s)) as [h1 s1]. cbn [fst snd] in *. subst h1.
    pose proof (nspec_fold (fun c hs => notify_name_change B bstep f (snd c) hs) (pn_nodes (get_node B s n)) (fun c => IH (snd c))) as F2.
    destruct (F2 (held ++ n1) s1 d I1) as (I2 & n2 & E2 & L2). split; auto.
    exists (n1 ++ n2). split; [rewrite E2, app_assoc; reflexivity|].
    eapply led_equiv; [|exact (led_trans _ _ _ _ _ _ _ L1 L2)]. led_arith.
Qed.

Lemma remove_with_name_ok n nm tgt newnm s d :
  FInv s d -> 0 < hc s tgt ->
  let r := remove_with_name B bstep n nm (Some (rename_cb B bstep tgt newnm)) s in
  FInv (snd r) d /\ led [] [] s (snd r).
Proof.
  intros Inv Ht. cbv zeta. unfold remove_with_name.
  set (lp := match alookup Nat.eqb nm (pn_refs (get_node B s n)) with
             | Some m => rwn_loop B n nm (Some (rename_cb B bstep tgt newnm)) m [] s | None => ([], s) end).
  assert (H1 : FInv (snd lp) d /\ exists new, fst lp = new /\ led new [] s (snd lp)).
  { unfold lp. destruct (alookup Nat.eqb nm (pn_refs (get_node B s n))) as [m|].
    - pose proof (rwn_loop_ok n nm tgt newnm m [] s d Inv Ht) as W. cbv zeta in W. destruct W as (I & new & E & L).
      split; auto. exists new. split; auto.
    - cbn. split; auto. exists []. split; [reflexivity | apply led_refl]. }
  destruct lp as [held s1]. cbn [fst snd] in H1. destruct H1 as (I1 & new & -> & L1).
  set (s2 := set_node B n _ s1).
  assert (SC2 : same_life s1 s2) by apply sl_set_node.
  destruct (sl_ok s1 s2 d SC2 I1) as (I2 & L2).
  assert (L02 : led new [] s s2) by (eapply led_equiv; [|exact (led_trans _ _ _ _ _ _ _ L1 L2)]; led_arith).
  assert (H2 : forall q, cnt new q <= hc s2 q).
  { intros q. pose proof (led_ge _ _ _ _ q L02) as G. rewrite cnt_nil in G. lia. }
  cbn [snd]. destruct (release_all_ok new s2 d I2 H2) as (I3 & L3). split; auto.
  eapply led_equiv; [|exact (led_trans _ _ _ _ _ _ _ L02 L3)]. led_arith.
Qed.

Lemma rename_child_to_ok fnode oldnm tgt newnm s d :
  FInv s d -> 0 < hc s tgt ->
  FInv (rename_child_to B bstep fnode oldnm tgt newnm s) d /\ led [] [] s (rename_child_to B bstep fnode oldnm tgt newnm s).
Proof.
  intros Inv Ht. unfold rename_child_to. cbv zeta.
  pose proof (sl_mark_child_deleted (fr_node (gref s tgt)) newnm s) as SC1.
  set (s1 := mark_child_deleted B bstep (fr_node (gref s tgt)) newnm s) in *.
  destruct (sl_ok s s1 d SC1 Inv) as (I1 & L1).
  assert (Ht1 : 0 < hc s1 tgt) by (eapply led_hc_pos; [exact L1 | lia | reflexivity]).
  pose proof (remove_with_name_ok fnode oldnm tgt newnm s1 d I1 Ht1) as W. cbv zeta in W.
  destruct (remove_with_name B bstep fnode oldnm (Some (rename_cb B bstep tgt newnm)) s1) as [orig s2]. cbn [snd] in W.
  destruct W as (I2 & L2).
  assert (L02 : led [] [] s s2) by (eapply led_equiv; [|exact (led_trans _ _ _ _ _ _ _ L1 L2)]; led_arith).
  destruct orig as [cn|]; [|auto].
  pose proof (sl_add_path_node_for (fr_node (gref s tgt)) newnm cn s2) as SC3.
  set (s3 := add_path_node_for B (fr_node (gref s tgt)) newnm cn s2) in *.
  destruct (sl_ok s2 s3 d SC3 I2) as (I3 & L3).
  assert (L03 : led [] [] s s3) by (eapply led_equiv; [|exact (led_trans _ _ _ _ _ _ _ L02 L3)]; led_arith).
  destruct (s_panic B s3); [auto|].
  destruct (notify_name_change_ok (node_fuel B s3) cn [] s3 d I3) as (I4 & new & E4 & L4).
  destruct (notify_name_change B bstep (node_fuel B s3) cn ([], s3)) as [held s4]. cbn [fst snd app] in *. subst held.
  assert (L04 : led new [] s s4) by (eapply led_equiv; [|exact (led_trans _ _ _ _ _ _ _ L03 L4)]; led_arith).
  assert (H4 : forall q, cnt new q <= hc s4 q).
  { intros q. pose proof (led_ge _ _ _ _ q L04) as G. rewrite cnt_nil in G. lia. }
  destruct (release_all_ok new s4 d I4 H4) as (I5 & L5). split; auto.
  eapply led_equiv; [|exact (led_trans _ _ _ _ _ _ _ L04 L5)]. led_arith.
Qed.

Lemma ok_rename c fid dfid nm : ok [] (fun s => snd (do_rename B bstep c fid dfid nm s)).
Proof.
  unfold do_rename. apply with_fid_ok. intros r. apply with_fid_ok. intros t s d Inv HP. cbv zeta.
  assert (Ht : 0 < hc s t) by (apply HP; left; reflexivity).
  destruct (fr_parent (gref s r)) as [p|] eqn:EP; [|cbn; split; [auto | apply led_refl]].
  destruct (_ || _); [cbn; split; [auto | apply led_refl]|].
  destruct (is_deleted B s p); [cbn [snd]; apply sl_ok; auto; apply sl_set_panic|].
  destruct (name_for B (fr_node (gref s p)) r s) as [old|]; [|cbn [snd]; apply sl_ok; auto; apply sl_set_panic].
  destruct (_ && _); [cbn; split; [auto | apply led_refl]|].
  assert (Hr0 : 0 < hc s r) by (apply HP; right; left; reflexivity).
  pose proof (sl_bc (BRenameAt (fr_file (gref s p)) old (fr_file (gref s t)) nm) s
                ltac:(intros h [<-|[<-|[]]]; [exact (parent_open s d None r p Inv Hr0 EP) | exact (held_open s d None t Inv Ht)])) as SC1.
  destruct (bcall_ B bstep (BRenameAt (fr_file (gref s p)) old (fr_file (gref s t)) nm) s) as [a s1]. cbn [snd] in SC1.
  destruct (sl_ok s s1 d SC1 Inv) as (I1 & L1).
  assert (Ht1 : 0 < hc s1 t) by (eapply led_hc_pos; [exact L1 | lia | reflexivity]).
  destruct (rename_child_to_ok (fr_node (gref s p)) old t nm s1 d I1 Ht1) as (I2 & L2).
  assert (R : FInv (rename_child_to B bstep (fr_node (gref s p)) old t nm s1) d /\
              led [] [] s (rename_child_to B bstep (fr_node (gref s p)) old t nm s1)).
  { split; auto. eapply led_equiv; [|exact (led_trans _ _ _ _ _ _ _ L1 L2)]. led_arith. }
  destruct a; cbn [snd]; auto.
Qed.

Lemma ok_renameat c fid oldnm fid2 newnm : ok [] (fun s => snd (do_renameat B bstep c fid oldnm fid2 newnm s)).
Proof.
  unfold do_renameat. apply with_fid_ok. intros r. apply with_fid_ok. intros t s d Inv HP. cbv zeta.
  assert (Ht : 0 < hc s t) by (apply HP; left; reflexivity).
  destruct (_ || _); [cbn; split; [auto | apply led_refl]|].
  destruct (fr_opened (gref s r)); [cbn; split; [auto | apply led_refl]|].
  destruct (_ && _); [cbn; split; [auto | apply led_refl]|].
  assert (Hr0 : 0 < hc s r) by (apply HP; right; left; reflexivity).
  pose proof (sl_bc (BRenameAt (fr_file (gref s r)) oldnm (fr_file (gref s t)) newnm) s
                ltac:(intros h [<-|[<-|[]]]; [exact (held_open s d None r Inv Hr0) | exact (held_open s d None t Inv Ht)])) as SC1.
  destruct (bcall_ B bstep (BRenameAt (fr_file (gref s r)) oldnm (fr_file (gref s t)) newnm) s) as [a s1]. cbn [snd] in SC1.
  destruct (sl_ok s s1 d SC1 Inv) as (I1 & L1).
  assert (Ht1 : 0 < hc s1 t) by (eapply led_hc_pos; [exact L1 | lia | reflexivity]).
  destruct (rename_child_to_ok (fr_node (gref s r)) oldnm t newnm s1 d I1 Ht1) as (I2 & L2).
  assert (R : FInv (rename_child_to B bstep (fr_node (gref s r)) oldnm t newnm s1) d /\
              led [] [] s (rename_child_to B bstep (fr_node (gref s r)) oldnm t newnm s1)).
  { split; auto. eapply led_equiv; [|exact (led_trans _ _ _ _ _ _ _ L1 L2)]. led_arith. }
  destruct a; cbn [snd]; auto.
Qed.

(** ---- every request, every history ---- *)
Theorem step_ok o : ok [] (fun s => snd (step B bstep o s)).
Proof.
  destruct o; cbn [step].
  - apply ok_attach. - apply ok_walk_op. - apply ok_clunk. - apply ok_remove. - apply ok_open.
  - apply ok_create. - apply ok_mk. - apply ok_link. - apply ok_getattr. - apply ok_use. - apply ok_io.
  - apply ok_setattr. - apply ok_readdir. - apply ok_readlink. - apply ok_unlinkat. - apply ok_rename.
  - apply ok_renameat. - apply ok_xattrwalk. - apply ok_xattrcreate. - apply ok_stop.
Qed.

Theorem run_ok ops : forall s, FInv s [] -> FInv (snd (run B bstep ops s)) [] /\ led [] [] s (snd (run B bstep ops s)).
Proof.
  induction ops as [|o ops IH]; intros s Inv; cbn [run]; [split; [auto | apply led_refl]|].
  destruct (step_ok o s [] Inv ltac:(intros x [])) as (I1 & L1).
  destruct (step B bstep o s) as [rep s1]. cbn [snd] in *.
  destruct (IH s1 I1) as (I2 & L2). destruct (run B bstep ops s1) as [reps s2]. cbn [snd] in *.
  split; auto. eapply led_equiv; [|exact (led_trans _ _ _ _ _ _ _ L1 L2)]. led_arith.
Qed.

Lemma init_K b : KInv (init_state B b) None.
Proof.
  constructor; unfold len, closed; cbn; try (intros; lia); try (intros; contradiction); try discriminate.
  constructor.
Qed.

(** after every history from the initial state, for every backend: the three invariants *)
Theorem history_life ops b :
  let s := snd (run B bstep ops (init_state B b)) in
  RefInv B s /\ KInv s None /\ wf_log (s_log B s) /\ (s_panic B s = false -> s_held B s = []).
Proof.
  cbv zeta.
  destruct (run_ok ops (init_state B b) (conj (init_inv B b) (conj (init_K b) I))) as ((In & K & W) & (_ & _ & E)).
  split; [exact In|]. split; [exact K|]. split; [exact W|]. intros Hp. apply cnt_zero_nil. intros q. specialize (E Hp q).
  unfold RefStep.hc in E. cbn in E. rewrite !cnt_nil in E. lia.
Qed.

(** ---- consequences ---- *)
Definition close_count (h : nat) (l : list bcall) : nat :=
  length (filter (fun c => match c with BClose h' => h' =? h | _ => false end) l).

Lemma close_count_closes h l : close_count h l = count_occ Nat.eq_dec (closes l) h.
Proof.
  unfold close_count. induction l as [|c l IH]; cbn; auto.
  destruct c; cbn; auto. destruct (Nat.eqb_spec h0 h); destruct (Nat.eq_dec h0 h); cbn; try congruence; lia.
Qed.

(** C05_no_use_after_close (File methods other than Renamed, see [uses]): in a well-formed log no call
    after (= to the left of, the log is newest first) a Close uses the closed handle *)
Theorem wf_log_no_use_after_close l1 h l2 c :
  wf_log (l1 ++ BClose h :: l2) -> In c l1 -> ~ In h (uses c).
Proof.
  induction l1 as [|c1 l1 IH]; cbn; [tauto|]. intros (W & U) [<-|Hin]; auto.
  intros Hu. apply (U h Hu). clear. induction l1 as [|x l1 IH]; cbn; [left; reflexivity|].
  destruct x; cbn; auto.
Qed.

(** C05_closed_once *)
Theorem closed_once s pend h : KInv s pend -> close_count h (s_log B s) <= 1.
Proof.
  intros K. rewrite close_count_closes. apply (proj1 (NoDup_count_occ Nat.eq_dec _) (K5 B s pend K)).
Qed.

(** C05_closed_iff_unreferenced: a handle is closed iff it was returned and no live fidRef owns it *)
Theorem closed_iff_no_live_owner s h :
  KInv s None ->
  (closed s h <-> h < s_nexth B s /\ forall r, r < len B s -> owner (gref s r) -> fr_file (gref s r) = h -> live (gref s r) = false).
Proof.
  intros K. split.
  - intros Hc. split; [apply (K3 B s None K h Hc)|]. intros r Hr O E. destruct (live (gref s r)) eqn:L; auto.
    exfalso. apply (K4 B s None K r Hr O L). rewrite E. exact Hc.
  - intros (Hh & Hall). destruct (K6 B s None K h Hh ltac:(discriminate)) as [(r & Hr & O & E)|Hc]; auto.
    rewrite <- E. apply (K7 B s None K r Hr O). apply Hall; auto.
Qed.

(** ---- no leak: once no fid and no transient holder is left, nothing is live ---- *)
Lemma in_flat_map_nth {A} (f : A -> list nat) (l : list A) (d : A) q :
  In q (flat_map f l) -> exists i, i < length l /\ In q (f (nth i l d)).
Proof.
  induction l as [|y l IH]; cbn; [tauto|]. intros H. apply in_app_or in H. destruct H as [H|H].
  - exists 0. split; [lia | exact H].
  - destruct (IH H) as (i & Hi & Hin). exists (S i). split; [lia | exact Hin].
Qed.

(** [ordered s]: the parent of every live fidRef has a smaller id (true as long as no rename
    re-parented a fidRef under a younger one; proved for rename-free histories in Refs/Ordered.v; see C05_disconnect) *)
Definition ordered (s : st) : Prop :=
  forall r p, r < len B s -> live (gref s r) = true -> fr_parent (gref s r) = Some p -> p < r.

Lemma all_dead s :
  RefInv B s -> KInv s None -> s_fids B s = [] -> s_held B s = [] -> ordered s ->
  forall q, q < len B s -> live (gref s q) = false.
Proof.
  intros (N & I2 & I3) K EF EH Ord.
  assert (Main : forall k q, len B s - q <= k -> q < len B s -> live (gref s q) = false).
  { induction k as [|k IH]; intros q Hk Hq; [unfold len in *; lia|].
    destruct (live (gref s q)) eqn:Lq; auto. exfalso.
    pose proof (I2 q Hq) as E. rewrite cnt_nil, Nat.add_0_r in E.
    assert (Hc : 0 < C s q). { unfold live in Lq. apply Z.ltb_lt in Lq. lia. }
    apply cnt_in in Hc. unfold all_refs in Hc. rewrite EF, EH in Hc. cbn in Hc.
    destruct (in_flat_map_nth out_refs (s_refs B s) dead_ref q Hc) as (i & Hi & Hin).
    fold (gref s i) in Hin. unfold out_refs in Hin. destruct (live (gref s i)) eqn:Li; [|contradiction].
    assert (Lt : q < i).
    { apply in_app_or in Hin. destruct Hin as [Hin|Hin].
      - destruct (fr_parent (gref s i)) as [p|] eqn:EP; cbn in Hin; [|contradiction].
        destruct Hin as [<-|[]]. apply (Ord i p Hi Li EP).
      - destruct (fr_xattrOf (gref s i)) as [o|] eqn:EX; cbn in Hin; [|contradiction].
        destruct Hin as [<-|[]]. apply (Kx B s None K i o Hi EX). }
    rewrite (IH i ltac:(unfold len in *; lia) Hi) in Li. discriminate. }
  intros q Hq. apply (Main (len B s) q); auto. lia.
Qed.

(** C05_disconnect (see Properties/C05.v for what is partial): every handle ever returned is closed exactly once *)
Theorem all_closed_exactly_once s :
  RefInv B s -> KInv s None -> s_fids B s = [] -> s_held B s = [] -> ordered s ->
  forall h, h < s_nexth B s -> close_count h (s_log B s) = 1.
Proof.
  intros I K EF EH Ord h Hh.
  assert (Hc : closed s h).
  { apply closed_iff_no_live_owner; auto. split; auto. intros r Hr _ _. apply (all_dead s I K EF EH Ord r Hr). }
  pose proof (closed_once s None h K) as Le.
  rewrite close_count_closes in *. unfold closed in Hc. apply (count_occ_In Nat.eq_dec) in Hc. lia.
Qed.
End LStep.
