(** Refs/CoherentUnlink.v — C08_coherent through Tunlinkat: the entry leaves
    PathFS and the node tree together; every fidRef whose File's path runs
    through it is at or below the victim node, hence fenced afterwards
    (FenceProofs.fenced_below_victim) and out of the claim; all other paths
    read the same in both trees.  (pathB) *)
From Coq Require Import List Arith Bool ZArith Lia.
From P9V Require Import Refs.Model Refs.PathFS Refs.RefProofs Refs.RefStep Refs.FenceProofs
  Refs.TreeInv Refs.CoherentTree Refs.CoherentDefs Refs.CoherentFs Refs.CoherentFrame Refs.CoherentStep Refs.CoherentTreeHyp.
Import ListNotations.

(** only path nodes (and the out-of-fuel flag) change *)
Definition nodes_only (s s' : st) : Prop :=
  s_fids pfs s' = s_fids pfs s /\ s_refs pfs s' = s_refs pfs s /\ s_nexth pfs s' = s_nexth pfs s /\
  s_held pfs s' = s_held pfs s /\ s_be pfs s' = s_be pfs s /\ s_panic pfs s' = s_panic pfs s.

Lemma no_refl s : nodes_only s s. Proof. repeat split. Qed.
Lemma no_trans a b c : nodes_only a b -> nodes_only b c -> nodes_only a c.
Proof. unfold nodes_only. intros (?&?&?&?&?&?) (?&?&?&?&?&?). repeat split; congruence. Qed.
Lemma no_set_node n x (s : st) : nodes_only s (set_node pfs n x s). Proof. repeat split. Qed.
Lemma no_set_oof (s : st) : nodes_only s (set_oof pfs s). Proof. repeat split. Qed.

Lemma no_fold {A} (f : A -> st -> st) (l : list A) :
  (forall a s, nodes_only s (f a s)) -> forall s, nodes_only s (fold_left (fun st a => f a st) l s).
Proof.
  intros H. induction l as [|a l IH]; intros s; cbn; [apply no_refl|]. eapply no_trans; [apply H | apply IH].
Qed.

Lemma no_notify_delete fuel : forall n (s : st), nodes_only s (notify_delete pfs fuel n s).
Proof.
  induction fuel as [|f IH]; intros n s; cbn [notify_delete]; [apply no_set_oof|].
  eapply no_trans; [apply no_set_node|]. apply (no_fold (fun c st => notify_delete pfs f (snd c) st)). intros a s0. apply IH.
Qed.

Lemma no_rwn_none n nm m : forall held (s : st), nodes_only s (snd (rwn_loop pfs n nm None m held s)).
Proof.
  induction m as [|r m IH]; intros held s; cbn [rwn_loop]; [apply no_refl|]. cbv zeta.
  eapply no_trans; [|apply IH]. apply no_set_node.
Qed.

Lemma del_rwn_none n nm m : forall held (s : st) k,
  pn_deleted (gnode (snd (rwn_loop pfs n nm None m held s)) k) = pn_deleted (gnode s k).
Proof.
  induction m as [|r m IH]; intros held s k; cbn [rwn_loop]; [reflexivity|]. cbv zeta.
  rewrite IH. rewrite gnode_set_node. destruct ((k =? n) && (n <? nlen s)) eqn:X; auto.
  apply andb_prop in X. destruct X as (X & _). apply Nat.eqb_eq in X. subst. reflexivity.
Qed.

(** childRefs keeps one entry per name *)
Lemma rk_set_node n x (s : st) :
  rkeys s -> (pkeys (gnode s n) -> pkeys x) -> rkeys (set_node pfs n x s).
Proof. intros K Kx m. rewrite gnode_set_node. destruct ((m =? n) && (n <? nlen s)); auto. Qed.

Lemma rk_notify_delete fuel : forall n (s : st), rkeys s -> rkeys (notify_delete pfs fuel n s).
Proof.
  induction fuel as [|f IH]; intros n s K; cbn [notify_delete]; [exact K|].
  assert (K1 : rkeys (set_node pfs n (pn_with_deleted (get_node pfs s n)) s)) by (apply rk_set_node; auto).
  revert K1. generalize (set_node pfs n (pn_with_deleted (get_node pfs s n)) s). generalize (pn_nodes (get_node pfs s n)).
  intros l. induction l as [|a l IHl]; intros s0 K0; cbn [fold_left]; auto.
Qed.

Lemma rk_rwn_none n nm m : forall held (s : st), rkeys s -> rkeys (snd (rwn_loop pfs n nm None m held s)).
Proof.
  induction m as [|r m IH]; intros held s K; cbn [rwn_loop]; [exact K|]. cbv zeta. apply IH.
  apply rk_set_node; auto. intros Kn. apply pkeys_with_refs; auto. apply (gaset_nodup Nat.eqb Nat.eqb_spec). apply Kn.
Qed.

Lemma rk_mcd n nm (s : st) : rkeys s -> rkeys (mark_child_deleted pfs pfs_step n nm s).
Proof.
  intros K. unfold mark_child_deleted, remove_with_name.
  set (lp := match alookup Nat.eqb nm (pn_refs (get_node pfs s n)) with
             | Some m => rwn_loop pfs n nm None m [] s | None => ([], s) end).
  assert (H1 : fst lp = [] /\ rkeys (snd lp)).
  { unfold lp. destruct (alookup Nat.eqb nm (pn_refs (get_node pfs s n))); [|auto]. split; [apply held_rwn_none | apply rk_rwn_none; auto]. }
  destruct lp as [held s1]. cbn [fst snd] in H1. destruct H1 as (-> & K1). cbn [release_all].
  assert (K2 : rkeys (set_node pfs n (pn_with_nodes (get_node pfs s1 n) (adel Nat.eqb nm (pn_nodes (get_node pfs s1 n)))) s1))
    by (apply rk_set_node; auto; intros Kn; apply pkeys_with_nodes; auto; apply (gadel_nodup Nat.eqb Nat.eqb_spec); apply Kn).
  destruct (alookup Nat.eqb nm (pn_nodes (get_node pfs s1 n))); [apply rk_notify_delete|]; exact K2.
Qed.

(** markChildDeleted, read pointwise *)
Lemma mcd_spec n nm (s : st) : n < nlen s ->
  let s' := mark_child_deleted pfs pfs_step n nm s in
  nodes_only s s' /\ nlen s' = nlen s /\
  (forall m, pn_nodes (gnode s' m) = if m =? n then adel Nat.eqb nm (pn_nodes (gnode s n)) else pn_nodes (gnode s m)) /\
  (forall m, pn_deleted (gnode s m) = true -> pn_deleted (gnode s' m) = true).
Proof.
  intros Hn. cbv zeta. unfold mark_child_deleted, remove_with_name.
  set (lp := match alookup Nat.eqb nm (pn_refs (get_node pfs s n)) with
             | Some m => rwn_loop pfs n nm None m [] s | None => ([], s) end).
  assert (H1 : fst lp = [] /\ nodes_same pfs s (snd lp) /\ nodes_only s (snd lp) /\
               (forall m, pn_deleted (gnode (snd lp) m) = pn_deleted (gnode s m))).
  { unfold lp. destruct (alookup Nat.eqb nm (pn_refs (get_node pfs s n))) as [m|];
      [|cbn; repeat split; auto]. split; [apply held_rwn_none|]. split; [apply ns_rwn_none|]. split; [apply no_rwn_none|].
    apply del_rwn_none. }
  destruct lp as [held s1]. cbn [fst snd] in H1. destruct H1 as (-> & (L1 & N1) & O1 & D1). cbn [release_all]. unfold FenceProofs.gnode in N1.
  set (s2 := set_node pfs n (pn_with_nodes (get_node pfs s1 n) (adel Nat.eqb nm (pn_nodes (get_node pfs s1 n)))) s1).
  assert (L2 : nlen s2 = nlen s). { unfold nlen, s2, set_node. cbn. rewrite upd_length. exact L1. }
  assert (Hn1 : n < nlen s1) by (unfold nlen; rewrite L1; exact Hn).
  assert (P2 : forall m, pn_nodes (gnode s2 m) = if m =? n then adel Nat.eqb nm (pn_nodes (gnode s n)) else pn_nodes (gnode s m)).
  { intros m. unfold s2. rewrite gnode_set_node. destruct (Nat.eqb_spec m n) as [->|]; cbn [andb].
    - destruct (Nat.ltb_spec n (nlen s1)); [|lia]. cbn. rewrite (N1 n). reflexivity.
    - apply N1. }
  assert (D2 : forall m, pn_deleted (gnode s2 m) = pn_deleted (gnode s m)).
  { intros m. unfold s2. rewrite gnode_set_node. destruct ((m =? n) && (n <? nlen s1)) eqn:X; [|apply D1].
    apply andb_prop in X. destruct X as (X & _). apply Nat.eqb_eq in X. subst. cbn. apply D1. }
  assert (O2 : nodes_only s s2) by (eapply no_trans; [exact O1 | apply no_set_node]).
  destruct (alookup Nat.eqb nm (pn_nodes (get_node pfs s1 n))) as [c|].
  - pose proof (ns_notify_delete pfs (node_fuel pfs s2) c s2) as (L3 & N3). unfold FenceProofs.gnode in N3.
    split; [eapply no_trans; [exact O2 | apply no_notify_delete]|].
    split; [unfold nlen in *; lia|]. split.
    + intros m. rewrite N3. apply P2.
    + intros m Hm. apply (dm_notify_delete pfs (node_fuel pfs s2) c s2 m). unfold ndel. fold (gnode s2 m). rewrite D2. exact Hm.
  - split; [exact O2|]. split; [exact L2|]. split; [exact P2|]. intros m Hm. rewrite D2. exact Hm.
Qed.

(** ---- notifyDelete marks only what it reaches ---- *)
Lemma nch_nodes_same (s s' : st) : nodes_same pfs s s' -> forall a x, nch s' a x = nch s a x.
Proof. intros (_ & N) a x. unfold nch. change (gnode ?t a) with (FenceProofs.gnode pfs t a). rewrite N. reflexivity. Qed.

Lemma nd_only fuel : forall n (s : st) m, rkeys s ->
  pn_deleted (gnode (notify_delete pfs fuel n s) m) = true ->
  pn_deleted (gnode s m) = true \/ exists sg, walk (nch s) n sg = Some m.
Proof.
  induction fuel as [|f IH]; intros n s m K H; cbn [notify_delete] in H; [left; exact H|].
  set (s1 := set_node pfs n (pn_with_deleted (get_node pfs s n)) s) in *.
  assert (NS1 : nodes_same pfs s s1) by (apply ns_set_node; reflexivity).
  assert (K1 : rkeys s1) by (apply rk_set_node; auto).
  assert (D1 : pn_deleted (gnode s1 m) = true -> pn_deleted (gnode s m) = true \/ m = n).
  { unfold s1. rewrite gnode_set_node. destruct ((m =? n) && (n <? nlen s)) eqn:X; auto.
    apply andb_prop in X. destruct X as (X & _). apply Nat.eqb_eq in X. auto. }
  assert (Fold : forall l st, nodes_same pfs s st -> rkeys st -> incl l (pn_nodes (gnode s n)) ->
            pn_deleted (gnode (fold_left (fun st c => notify_delete pfs f (snd c) st) l st) m) = true ->
            pn_deleted (gnode st m) = true \/ exists sg, walk (nch s) n sg = Some m).
  { induction l as [|[x c] l IHl]; intros st NS Kst Hl Hm; cbn [fold_left] in Hm; [left; exact Hm|].
    assert (NS' : nodes_same pfs s (notify_delete pfs f c st)) by (eapply nodes_same_trans; [exact NS | apply ns_notify_delete]).
    destruct (IHl _ NS' (rk_notify_delete f c st Kst) (fun e He => Hl e (or_intror He)) Hm) as [Hd|Hw]; [|right; exact Hw].
    cbn [snd] in Hd. destruct (IH c st m Kst Hd) as [Hd'|(sg & W)]; [left; exact Hd'|]. right.
    exists (x :: sg). cbn [walk].
    assert (E : nch s n x = Some c). { unfold nch. apply (In_alookup Nat.eqb Nat.eqb_spec); [apply (proj2 (K n)) | apply Hl; left; reflexivity]. }
    rewrite E. rewrite <- W. apply walk_eq. intros a y. symmetry. apply nch_nodes_same. exact NS. }
  destruct (Fold (pn_nodes (get_node pfs s n)) s1 NS1 K1 (incl_refl _) H) as [Hd|Hw]; [|right; exact Hw].
  destruct (D1 Hd) as [Hd'| ->]; [left; exact Hd' | right; exists []; reflexivity].
Qed.

Lemma mcd_only n nm (s : st) m : n < nlen s -> rkeys s ->
  pn_deleted (gnode (mark_child_deleted pfs pfs_step n nm s) m) = true ->
  pn_deleted (gnode s m) = true \/ exists v sg, nch s n nm = Some v /\ walk (nch s) v sg = Some m.
Proof.
  intros Hn K. unfold mark_child_deleted, remove_with_name.
  set (lp := match alookup Nat.eqb nm (pn_refs (get_node pfs s n)) with
             | Some m => rwn_loop pfs n nm None m [] s | None => ([], s) end).
  assert (H1 : fst lp = [] /\ nodes_same pfs s (snd lp) /\ rkeys (snd lp) /\ (forall k, pn_deleted (gnode (snd lp) k) = pn_deleted (gnode s k))).
  { unfold lp. destruct (alookup Nat.eqb nm (pn_refs (get_node pfs s n))) as [l|];
      [|cbn [fst snd]; split; [reflexivity|]; split; [apply nodes_same_refl|]; split; [exact K | reflexivity]].
    split; [apply held_rwn_none|]. split; [apply ns_rwn_none|]. split; [apply rk_rwn_none; auto | apply del_rwn_none]. }
  destruct lp as [held s1]. cbn [fst snd] in H1. destruct H1 as (-> & NS1 & K1 & D1). cbn [release_all].
  set (s2 := set_node pfs n (pn_with_nodes (get_node pfs s1 n) (adel Nat.eqb nm (pn_nodes (get_node pfs s1 n)))) s1).
  assert (K2 : rkeys s2).
  { apply rk_set_node; auto. intros Kn. apply pkeys_with_nodes; auto. apply (gadel_nodup Nat.eqb Nat.eqb_spec). apply Kn. }
  assert (D2 : forall k, pn_deleted (gnode s2 k) = pn_deleted (gnode s k)).
  { intros k. unfold s2. rewrite gnode_set_node. destruct ((k =? n) && (n <? nlen s1)) eqn:X; [|apply D1].
    apply andb_prop in X. destruct X as (X & _). apply Nat.eqb_eq in X. subst. cbn. apply D1. }
  assert (Sub : forall a x c, nch s2 a x = Some c -> nch s a x = Some c).
  { intros a x c. unfold nch, s2. rewrite gnode_set_node. destruct ((a =? n) && (n <? nlen s1)) eqn:X.
    - apply andb_prop in X. destruct X as (X & _). apply Nat.eqb_eq in X. subst a. cbn [pn_nodes pn_with_nodes].
      rewrite (alookup_adel Nat.eqb Nat.eqb_spec). destruct (x =? nm); [discriminate|]. intros H. change (nch s n x = Some c). rewrite <- (nch_nodes_same s s1 NS1 n x). exact H.
    - intros H. change (nch s a x = Some c). rewrite <- (nch_nodes_same s s1 NS1 a x). exact H. }
  fold (gnode s1 n). destruct (alookup Nat.eqb nm (pn_nodes (gnode s1 n))) as [v|] eqn:Ev.
  - intros H. destruct (nd_only _ v s2 m K2 H) as [Hd|(sg & W)]; [left; rewrite <- D2; exact Hd|]. right.
    exists v, sg. split; [rewrite <- (nch_nodes_same s s1 NS1); exact Ev | eapply walk_ext; eauto].
  - intros H. left. rewrite <- D2. exact H.
Qed.

Lemma walk_reach (t : st) : (forall m x c, nch t m x = Some c -> c < nlen t) ->
  forall sg u c, walk (nch t) u sg = Some c -> reach pfs t u c (length sg).
Proof.
  intros Bd sg. induction sg as [|a sg IH]; intros u c; cbn [walk reach length].
  - intros [= ->]. reflexivity.
  - destruct (nch t u a) as [u1|] eqn:E; [|discriminate]. intros W.
    exists a, u1. split; [apply (alookup_In Nat.eqb Nat.eqb_spec); exact E|]. split; [eapply Bd; eauto | apply IH; auto].
Qed.

Lemma nch_mcd n nm (s : st) : n < nlen s ->
  forall m x, nch (mark_child_deleted pfs pfs_step n nm s) m x = if peqb (m, x) (n, nm) then None else nch s m x.
Proof.
  intros Hn m x. destruct (mcd_spec n nm s Hn) as (_ & _ & P & _). unfold nch. rewrite P.
  unfold peqb. cbn [fst snd]. destruct (Nat.eqb_spec m n) as [->|]; cbn [andb]; [|reflexivity].
  rewrite (alookup_adel Nat.eqb Nat.eqb_spec). reflexivity.
Qed.

(** every node the old tree reached through the removed entry carries the mark afterwards *)
Lemma below_victim_fenced n nm (s : st) pi sg r :
  NT s -> n < nlen s -> node_at s pi = Some n -> node_at s (pi ++ [nm] ++ sg) = Some (fr_node (gref s r)) ->
  is_deleted pfs (mark_child_deleted pfs pfs_step n nm s) r = true.
Proof.
  intros N Hn Wn Wr. set (s' := mark_child_deleted pfs pfs_step n nm s).
  unfold node_at in *. rewrite walk_app, Wn in Wr. cbn [app walk] in Wr.
  destruct (nch s n nm) as [v|] eqn:Ev; [|discriminate].
  assert (Hv : v < nlen s) by (eapply (N_bound _ N); eauto).
  (* the walk below the victim does not use the removed entry *)
  assert (W' : forall sg' c, walk (nch s) v sg' = Some c -> walk (nch s') v sg' = Some c).
  { intros sg'. induction sg' as [|a sg' IH] using rev_ind; intros c; [auto|].
    rewrite !walk_snoc. destruct (walk (nch s) v sg') as [u|] eqn:Eu; [|discriminate].
    rewrite (IH u eq_refl). intros Hc. unfold s'. rewrite nch_mcd by auto.
    destruct (peqb_spec (u, a) (n, nm)) as [[= -> ->]|]; auto. exfalso.
    assert (W0 : walk (nch s) 0 (pi ++ [nm] ++ sg') = Some n).
    { rewrite walk_app, Wn. cbn [app walk]. rewrite Ev. exact Eu. }
    pose proof (walk_inj (nch s) 0 (N_up _ N) (N_noroot _ N) _ _ _ W0 Wn) as EQ.
    apply (f_equal (@length nat)) in EQ. rewrite !app_length in EQ. cbn in EQ. lia. }
  assert (Bd' : forall m x c, nch s' m x = Some c -> c < nlen s').
  { intros m x c. unfold s'. rewrite nch_mcd by auto. destruct (mcd_spec n nm s Hn) as (_ & -> & _).
    destruct (peqb (m, x) (n, nm)); [discriminate | apply (N_bound _ N)]. }
  pose proof (walk_reach s' Bd' sg v _ (W' _ _ Wr)) as R.
  assert (NS : nodes_same pfs s' (detached pfs pfs_step n nm s)).
  { unfold s', mark_child_deleted, detached. destruct (remove_with_name pfs pfs_step n nm None s) as [orig s1]. cbn [snd].
    destruct orig as [c|]; [|apply nodes_same_refl].
    destruct (ns_notify_delete pfs (node_fuel pfs s1) c s1) as (L & P). split; [congruence|]. intros m. rewrite P. reflexivity. }
  eapply (fenced_below_victim pfs pfs_step n nm v (length sg) r s Ev Hv).
  - eapply reach_nodes_same; eauto.
  - assert (W0 : walk (nch s) 0 (pi ++ [nm] ++ sg) = Some (fr_node (gref s r))).
    { rewrite walk_app, Wn. cbn [app walk]. rewrite Ev. exact Wr. }
    pose proof (walk_length_bound (nch s) 0 _ _ (nlen s) (N_up _ N) (N_noroot _ N) (N_pos _ N) (N_bound _ N) W0) as LB.
    rewrite !app_length in LB. cbn in LB. unfold FenceProofs.nlen. unfold nlen in LB. lia.
Qed.

(** the entry (d, nm) leaves PathFS, (n, nm) leaves the node tree, both at the same path [pi] *)
Lemma unlink_core (s s2 : st) g n nm pi d :
  Good s g ->
  s_refs pfs s2 = s_refs pfs s -> s_nodes pfs s2 = s_nodes pfs s -> s_nexth pfs s2 = s_nexth pfs s ->
  p_entries (s_be pfs s2) = adel peqb (d, nm) (p_entries (s_be pfs s)) ->
  p_dirs (s_be pfs s2) = p_dirs (s_be pfs s) -> p_nextino (s_be pfs s2) = p_nextino (s_be pfs s) ->
  p_files (s_be pfs s2) = p_files (s_be pfs s) ->
  resolve (s_be pfs s) pi = Some d -> node_at s pi = Some n -> n < nlen s ->
  (forall q p, q < rlen s -> live s q -> nonf s q -> fr_parent (gref s q) = Some p ->
     exists x, nch s (fr_node (gref s p)) x = Some (fr_node (gref s q))) ->
  Good (mark_child_deleted pfs pfs_step n nm s2) g.
Proof.
  intros G ER EN EH EE ED EI EF Rd Wn Hn HP3.
  set (s3 := mark_child_deleted pfs pfs_step n nm s2).
  assert (Hn2 : n < nlen s2) by (unfold nlen; rewrite EN; exact Hn).
  destruct (mcd_spec n nm s2 Hn2) as ((_ & R3 & H3 & _ & B3 & _) & L3 & P3 & D3). fold s3 in R3, H3, B3, L3, P3, D3.
  assert (GR : forall q, gref s3 q = gref s q) by (intros; unfold get_ref; rewrite R3, ER; reflexivity).
  assert (GN2 : forall m, gnode s2 m = gnode s m) by (intros; unfold get_node; rewrite EN; reflexivity).
  assert (CH2 : forall m x, nch s2 m x = nch s m x) by (intros; unfold nch; rewrite GN2; reflexivity).
  assert (CH3 : forall m x, nch s3 m x = if peqb (m, x) (n, nm) then None else nch s m x).
  { intros. unfold s3. rewrite nch_mcd by auto. rewrite CH2. reflexivity. }
  assert (RL : rlen s3 = rlen s) by (unfold rlen; rewrite R3, ER; reflexivity).
  assert (NL : nlen s3 = nlen s) by (rewrite L3; unfold nlen; rewrite EN; reflexivity).
  pose proof (G_nt _ _ G) as N. pose proof (G_fs _ _ G) as F.
  set (fs := s_be pfs s) in *. set (fs' := s_be pfs s3).
  assert (EE' : p_entries fs' = adel peqb (d, nm) (p_entries fs)) by (unfold fs'; rewrite B3; exact EE).
  assert (ENT : forall a x, entry fs' a x = if peqb (a, x) (d, nm) then None else entry fs a x).
  { intros. unfold entry. rewrite EE'. apply (alookup_adel peqb peqb_spec). }
  assert (HP : forall h, hpath fs' h = hpath fs h) by (intros; unfold hpath, file_of, fs'; rewrite B3, EF; reflexivity).
  assert (FP : forall q, fpath s3 q = fpath s q) by (intros; unfold fpath; fold fs'; rewrite HP, GR; reflexivity).
  assert (LV : forall q, live s3 q <-> live s q) by (intros; unfold live; rewrite GR; tauto).
  assert (TR : forall q, tref s3 q <-> tref s q) by (intros; unfold tref; rewrite GR; tauto).
  assert (NF : forall q, nonf s3 q -> nonf s q).
  { intros q. unfold nonf, is_deleted. rewrite GR. intros H3'. destruct (pn_deleted (gnode s (fr_node (gref s q)))) eqn:X; auto.
    rewrite <- GN2 in X. apply D3 in X. fold s3 in X. change (get_node pfs s3) with (gnode s3) in H3'. congruence. }
  (* the surgeries *)
  rewrite resolve_walk in Rd. unfold node_at in Wn.
  assert (DelF : forall a x, (a, x) <> (d, nm) -> entry fs' a x = entry fs a x) by (intros; rewrite ENT, peqb_false; auto).
  assert (GoneF : entry fs' d nm = None) by (rewrite ENT, peqb_true; auto).
  assert (DelN : forall a x, (a, x) <> (n, nm) -> nch s3 a x = nch s a x) by (intros; rewrite CH3, peqb_false; auto).
  assert (GoneN : nch s3 n nm = None) by (rewrite CH3, peqb_true; auto).
  (* a fidRef that is not fenced afterwards has a path clear of the removed entry *)
  assert (Clear : forall r, r < rlen s -> live s r -> tref s r -> nonf s3 r -> ~ prefix (pi ++ [nm]) (fpath s r)).
  { intros r Lr Lv T N3 (sg & E).
    assert (W : node_at s2 (pi ++ [nm] ++ sg) = Some (fr_node (gref s2 r))).
    { unfold node_at. rewrite (walk_eq _ _ CH2). replace (gref s2 r) with (gref s r) by (unfold get_ref; rewrite ER; reflexivity).
      rewrite app_assoc, <- E. apply (G_node _ _ G); auto. }
    assert (N2 : NT s2).
    { destruct N as [U R Bd Ps]. constructor.
      - intros a x a' x' c. rewrite !CH2. apply U.
      - intros a x. rewrite CH2. apply R.
      - intros a x c. rewrite CH2. unfold nlen. rewrite EN. apply Bd.
      - unfold nlen. rewrite EN. exact Ps. }
    assert (Wn2 : node_at s2 pi = Some n) by (unfold node_at; rewrite (walk_eq _ _ CH2); exact Wn).
    pose proof (below_victim_fenced n nm s2 pi sg r N2 Hn2 Wn2 W) as X. fold s3 in X.
    unfold nonf in N3. unfold is_deleted in X, N3. rewrite GR in N3.
    replace (gref s2 r) with (gref s r) in X by (unfold get_ref; rewrite ER; reflexivity). congruence. }
  constructor.
  - fold fs'. constructor.
    + eapply (del_uparent (entry fs) (entry fs')); eauto. apply F.
    + eapply (del_noroot (entry fs) (entry fs') root_ino (F_noroot _ F)); eauto.
    + rewrite EE'. apply (adel_nodup peqb peqb_spec). apply F.
    + intros a x c. rewrite ENT. destruct (peqb (a, x) (d, nm)); [discriminate|]. unfold isdir. unfold fs' at 1. rewrite B3, ED. apply (F_dir _ F).
    + intros a x c. rewrite ENT. destruct (peqb (a, x) (d, nm)); [discriminate|]. unfold fs' at 1 2. rewrite B3, EI. apply (F_bound _ F).
    + unfold fs'. rewrite B3, EI. apply F.
  - constructor.
    + eapply (del_uparent (nch s) (nch s3)); eauto. apply N.
    + eapply (del_noroot (nch s) (nch s3) 0 (N_noroot _ N)); eauto.
    + intros a x c. rewrite CH3, NL. destruct (peqb (a, x) (n, nm)); [discriminate | apply (N_bound _ N)].
    + rewrite NL. apply N.
  - intros r Hr Lv T N3. rewrite RL in Hr. apply LV in Lv. apply TR in T. rewrite FP, GR.
    unfold node_at. rewrite (del_walk (nch s) (nch s3) 0 (N_up _ N) (N_noroot _ N) pi n nm Wn DelN).
    + apply (G_node _ _ G); auto.
    + apply Clear; auto.
  - intros r Hr Lv T N3. rewrite RL in Hr. apply LV in Lv. apply TR in T. rewrite FP.
    destruct (G_obj _ _ G r Hr Lv T (NF _ N3)) as (i & Ri & Gi). exists i. split; auto.
    fold fs'. rewrite resolve_walk. rewrite (del_walk (entry fs) (entry fs') root_ino (F_up _ F) (F_noroot _ F) pi d nm Rd DelF).
    + rewrite <- resolve_walk. exact Ri.
    + apply Clear; auto.
  - intros r o Hr E. rewrite RL in Hr. rewrite GR in E. destruct (G_xattr _ _ G r o Hr E) as (A1 & A2 & A3 & A4 & A5).
    rewrite !GR. repeat split; auto. intros Lv N3. apply A5; [apply LV; auto | apply NF; auto].
  - intros r Hr. rewrite RL in Hr. rewrite GR, H3, EH. apply (G_file _ _ G); auto.
  - intros r r' Hr Hr' T T'. rewrite RL in *. rewrite !GR. apply (G_file_inj _ _ G); auto; apply TR; auto.
  - intros r p Hr E. rewrite RL in *. rewrite GR in E. destruct (G_parent _ _ G r p Hr E) as (A & A' & A'').
    repeat split; auto; apply TR; auto.
  - intros r Hr. rewrite RL in Hr. rewrite GR, NL. apply (G_nbound _ _ G); auto.
  - intros r o Hr E. rewrite RL in Hr. rewrite GR in E |- *. eapply (G_xmode _ _ G); eauto.
  - intros r Hr Ep T'. rewrite RL in Hr. rewrite GR in Ep |- *. apply (G_root _ _ G); auto. apply TR; auto.
  - intros r p Hr Lv N3 Ep. rewrite RL in Hr. apply LV in Lv. rewrite GR in Ep. pose proof (NF _ N3) as Nfs.
    pose proof (G_pnonf _ _ G r p Hr Lv Nfs Ep) as Nfp.
    unfold nonf, is_deleted. rewrite GR. destruct (pn_deleted (get_node pfs s3 (fr_node (gref s p)))) eqn:X; auto. exfalso.
    assert (K2 : rkeys s2) by (intros m; rewrite GN2; apply (G_keys _ _ G)).
    destruct (mcd_only n nm s2 _ Hn2 K2 X) as [Hd|(v & sg & Hv & Wv)].
    { rewrite GN2 in Hd. unfold nonf, is_deleted in Nfp. congruence. }
    rewrite CH2 in Hv. rewrite (walk_eq _ _ CH2) in Wv.
    destruct (HP3 r p Hr Lv Nfs Ep) as (x & Cx).
    destruct (G_parent _ _ G r p Hr Ep) as (Tr & _).
    assert (W : node_at s2 (pi ++ [nm] ++ (sg ++ [x])) = Some (fr_node (gref s2 r))).
    { unfold node_at. rewrite (walk_eq _ _ CH2). replace (gref s2 r) with (gref s r) by (unfold get_ref; rewrite ER; reflexivity).
      rewrite walk_app, Wn. cbn [app walk]. rewrite Hv, walk_snoc, Wv. exact Cx. }
    assert (N2 : NT s2).
    { destruct N as [U R Bd Ps]. constructor.
      - intros a y a' y' c. rewrite !CH2. apply U.
      - intros a y. rewrite CH2. apply R.
      - intros a y c. rewrite CH2. unfold nlen. rewrite EN. apply Bd.
      - unfold nlen. rewrite EN. exact Ps. }
    assert (Wn2 : node_at s2 pi = Some n) by (unfold node_at; rewrite (walk_eq _ _ CH2); exact Wn).
    pose proof (below_victim_fenced n nm s2 pi (sg ++ [x]) r N2 Hn2 Wn2 W) as Y. fold s3 in Y.
    unfold nonf, is_deleted in N3, Y. rewrite GR in N3. replace (gref s2 r) with (gref s r) in Y by (unfold get_ref; rewrite ER; reflexivity). congruence.
  - apply rk_mcd. intros m. rewrite GN2. apply (G_keys _ _ G).
  - rewrite RL. apply G.
Qed.

Lemma pfs_step_unlink fs h nm :
  let r := pfs_step fs (BUnlinkAt h nm) in
  p_dirs (fst r) = p_dirs fs /\ p_nextino (fst r) = p_nextino fs /\ p_files (fst r) = p_files fs /\
  (((exists e, snd r = AErr e) /\ p_entries (fst r) = p_entries fs) \/
   (exists d, snd r = AOk MNone 0 /\ resolve fs (hpath fs h) = Some d /\ p_entries (fst r) = adel peqb (d, nm) (p_entries fs))).
Proof.
  cbv zeta.
  assert (K : let r := pfs_do (bump fs) (BUnlinkAt h nm) in
    p_dirs (fst r) = p_dirs fs /\ p_nextino (fst r) = p_nextino fs /\ p_files (fst r) = p_files fs /\
    (((exists e, snd r = AErr e) /\ p_entries (fst r) = p_entries fs) \/
     (exists d, snd r = AOk MNone 0 /\ resolve fs (hpath fs h) = Some d /\ p_entries (fst r) = adel peqb (d, nm) (p_entries fs)))).
  { cbn [pfs_do]. change (pf_path (file_of (bump fs) h)) with (hpath fs h).
    rewrite (entries_resolve fs (bump fs) _ eq_refl).
    destruct (resolve fs (hpath fs h)) as [d|] eqn:Rd; [|cbn; repeat split; auto; left; eauto].
    change (entry (bump fs) d nm) with (entry fs d nm).
    destruct (entry fs d nm); cbn; repeat split; auto; [right; eauto | left; eauto]. }
  unfold pfs_step. destruct (alookup Nat.eqb (p_calls fs) (p_inject fs)) as [e|]; [|exact K].
  destruct (e =? injBadQ); [exact K|]. cbn. repeat split; auto. left. eauto.
Qed.

Lemma gokT_unlinkat c fid nm : gokT [] (fun s => snd (do_unlinkat pfs pfs_step c fid nm s)).
Proof.
  unfold do_unlinkat. apply with_fid_gokT. intros r s d g Inv HP TT G _.
  assert (Hr : 0 < hc s r) by (apply HP; left; reflexivity).
  destruct (held_live s d r Inv Hr) as (Lr & Lvr).
  destruct (dir_guard pfs s r) eqn:DG; [exact G|]. cbv zeta.
  destruct (dir_guard_none s g r G Lr DG) as (Nf & Tr).
  pose proof (G_nbound _ _ G r Lr) as Hn.
  destruct (pnf_spec (fr_node (gref s r)) nm s Hn (G_nt _ _ G)) as ((SC1 & SH1) & _ & _ & _ & H1 & B1 & R1 & _ & EXT).
  destruct (path_node_for pfs (fr_node (gref s r)) nm s) as [cn s1]. cbn [fst snd] in *.
  assert (G1 : Good s1 g) by (eapply shrink_good; eauto).
  destruct (bcall_be (BUnlinkAt (fr_file (gref s r)) nm) s1) as (E1 & E2 & E3 & E4 & E5 & _).
  pose proof (pfs_step_unlink (s_be pfs s1) (fr_file (gref s r)) nm) as PU. cbv zeta in PU. rewrite <- E1, <- E2 in PU.
  destruct (bcall_ pfs pfs_step (BUnlinkAt (fr_file (gref s r)) nm) s1) as [a s2]. cbn [fst snd] in *.
  destruct PU as (PD & PI & PF & PU).
  assert (FPr : hpath (s_be pfs s1) (fr_file (gref s r)) = fpath s1 r).
  { unfold fpath. unfold get_ref. rewrite R1. reflexivity. }
  assert (Lr1 : r < rlen s1) by (unfold rlen; rewrite R1; exact Lr).
  assert (X1 : live s1 r /\ tref s1 r /\ nonf s1 r /\ fr_node (gref s1 r) = fr_node (gref s r)).
  { unfold live, tref, nonf, is_deleted, get_ref. rewrite R1. fold (gref s r). repeat split; auto.
    change (get_node pfs s1) with (gnode s1). rewrite (S_del _ _ SH1). exact Nf. }
  destruct X1 as (Lv1 & T1 & Nf1 & EN1).
  destruct PU as [((e & Ea) & PE) | (dd & Ea & Rd & PE)].
  - (* refused: nothing changed *)
    assert (SH2 : shrink s1 s2).
    { apply shrink_be; auto; [lia|]. apply fext_same; auto. intros h _. unfold hpath, file_of. rewrite PF. reflexivity. }
    rewrite Ea. cbn [snd]. eapply shrink_good; eauto.
  - assert (G3 : Good (mark_child_deleted pfs pfs_step (fr_node (gref s r)) nm s2) g).
    { rewrite FPr in Rd. eapply (unlink_core s1 s2 g (fr_node (gref s r)) nm (fpath s1 r) dd); eauto.
      - rewrite <- EN1. apply (G_node _ _ G1); auto.
      - pose proof (S_nlen _ _ SH1). lia.
      - intros q p Hq Lq Nq Ep.
        assert (GRq : forall z, gref s1 z = gref s z) by (intros; unfold get_ref; rewrite R1; reflexivity).
        rewrite !GRq in *. unfold rlen in Hq. rewrite R1 in Hq. unfold live in Lq. rewrite GRq in Lq.
        assert (Nqs : nonf s q). { unfold nonf, is_deleted in *. rewrite GRq in Nq. change (get_node pfs s1) with (gnode s1) in Nq. rewrite (S_del _ _ SH1) in Nq. exact Nq. }
        destruct (p3_of_tree s q p TT Hq Lq Nqs Ep) as (x & Cx). exists x. apply EXT. exact Cx. }
    rewrite Ea. exact G3.
Qed.
