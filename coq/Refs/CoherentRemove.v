(** Refs/CoherentRemove.v — C08_coherent through Tremove, under serverB's tree
    invariant (Refs/TreeInv.v: [tree_ok]) at the start of the
    request: a live non-fenced fidRef has a non-fenced parent, so the parent's
    File path is the path of the directory in both trees and the removal is
    [unlink_core].  Also: handlers that need the tree invariant ([gokT]).  (pathB) *)
From Coq Require Import List Arith Bool ZArith Lia.
From P9V Require Import Refs.Model Refs.PathFS Refs.RefProofs Refs.RefStep Refs.FenceProofs Refs.TreeInv
  Refs.CoherentTree Refs.CoherentDefs Refs.CoherentFs Refs.CoherentFrame Refs.CoherentStep Refs.CoherentTreeHyp Refs.CoherentUnlink.
Import ListNotations.

(** a live, non-fenced fidRef has a non-fenced parent (part of [Good]) *)
Lemma parent_nonf (s : st) g r p : Good s g -> r < rlen s -> live s r -> nonf s r -> fr_parent (gref s r) = Some p -> nonf s p.
Proof. intros G. apply (G_pnonf _ _ G). Qed.

Lemma gokT_remove c fid : gokT [] (fun s => snd (do_remove pfs pfs_step c fid s)).
Proof.
  unfold do_remove. apply with_fid_gokT. intros r s d g Inv HP T G _. cbv zeta.
  assert (Hr : 0 < hc s r) by (apply HP; left; reflexivity).
  destruct (held_live s d r Inv Hr) as (Lr & Lvr).
  set (first := match fr_parent (gref s r) with
                | None => (Some EINVAL, s)
                | Some p =>
                    if is_deleted pfs s r then (Some EINVAL, s)
                    else match name_for pfs (fr_node (gref s p)) r s with
                         | None => (Some EFAULT, set_panic pfs s)
                         | Some nm =>
                             let '(a, s1) := bcall_ pfs pfs_step (BUnlinkAt (fr_file (gref s p)) nm) s in
                             match a with
                             | AErr e => (Some e, s1)
                             | _ => (None, mark_child_deleted pfs pfs_step (fr_node (gref s1 p)) nm s1)
                             end
                         end
                end).
  assert (G1 : Good (snd first) g).
  { unfold first. destruct (fr_parent (gref s r)) as [p|] eqn:Ep; [|exact G].
    destruct (is_deleted pfs s r) eqn:Nf; [exact G|].
    destruct (name_for pfs (fr_node (gref s p)) r s) as [nm|]; [|cbn [snd]; eapply shrink_good; [apply sh_set_panic | exact G]].
    destruct (G_parent _ _ G r p Lr Ep) as (Tr & Tp & Lp).
    assert (Lvp : live s p).
    { destruct (inv_live pfs s d p Inv (C_parent pfs s r p Lr Lvr Ep)) as (_ & X). exact X. }
    pose proof (parent_nonf s g r p G Lr Lvr Nf Ep) as Nfp.
    destruct (bcall_be (BUnlinkAt (fr_file (gref s p)) nm) s) as (E1 & E2 & E3 & E4 & E5 & _).
    pose proof (pfs_step_unlink (s_be pfs s) (fr_file (gref s p)) nm) as PU. cbv zeta in PU. rewrite <- E1, <- E2 in PU.
    destruct (bcall_ pfs pfs_step (BUnlinkAt (fr_file (gref s p)) nm) s) as [a s1]. cbn [fst snd] in *.
    destruct PU as (PD & PI & PF & PU).
    assert (GP1 : gref s1 p = gref s p) by (unfold get_ref; rewrite E3; reflexivity).
    destruct PU as [((e & Ea) & PE) | (dd & Ea & Rd & PE)].
    - rewrite Ea. cbn [snd]. eapply shrink_good; [|exact G].
      apply shrink_be; auto; [lia|]. apply fext_same; auto. intros h _. unfold hpath, file_of. rewrite PF. reflexivity.
    - rewrite Ea. cbn [snd]. rewrite GP1.
      eapply (unlink_core s s1 g (fr_node (gref s p)) nm (fpath s p) dd); eauto.
      + apply (G_node _ _ G); auto.
      + apply (G_nbound _ _ G); auto.
      + intros q0 p0 A1 A2 A3 A4. apply (p3_of_tree s q0 p0 T A1 A2 A3 A4). }
  destruct first as [err s1]. cbn [snd] in G1.
  destruct (s_panic pfs s1 && negb (s_panic pfs s)); [exact G1|].
  pose proof (sh_delete_fid c fid s1) as SD.
  destruct (delete_fid pfs pfs_step c fid s1) as [fe s2]. cbn [snd] in *.
  assert (R : Good s2 g) by (eapply shrink_good; eauto).
  destruct fe; [exact R|]. destruct err; exact R.
Qed.
