(** Refs/Cases.v — differential tie of Refs/Model.v + Refs/PathFS.v to the real
    server (harness/p9: c05, c08 and vhfs files): [agrees] re-runs a recorded
    history in the model and compares replies, backend call logs (Renamed/Close
    runs sorted: Go map iteration order) and the final path tree;
    [property_holds] evaluates C05/C08 on the OBSERVED behaviour only. *)
From Coq Require Import List Arith Bool ZArith Lia.
From P9V Require Import Refs.Model Refs.PathFS.
Import ListNotations.

(** observed step: request, reply, the backend calls it caused (in order), and
    harness-side ground truth about the objects the fids it names were bound to:
    (inode id fixed at binding, is that object still reachable, is it a directory) *)
Inductive hstep := HS (o : op) (errno val : nat) (log : list bcall) (objs : list (nat * bool * bool)).

(** dump of one path node: path from the root, deleted flag, childRefs view and
    childRefNames view, both as name -> sorted handles (empty sets dropped) *)
Definition dnode := (list nat * bool * list (nat * list nat) * list (nat * list nat))%type.

Inductive rcase :=
| CHist (wga : bool) (inject : list (nat * nat)) (steps : list hstep)
        (nhandles : nat) (complete : bool) (dump_at : nat) (dump : list dnode) (returned : bool) (gdelta : nat)
(** a gated concurrent scenario: the whole backend call log in order, the probe requests issued
    afterwards (their calls are part of [log]); judged by [property_holds] only *)
| CGated (log : list bcall) (probes : list hstep) (nhandles : nat) (returned : bool) (gdelta : nat).

(** ---- canonical forms ---- *)
Fixpoint list_leb (a b : list nat) : bool :=
  match a, b with
  | [], _ => true
  | _ :: _, [] => false
  | x :: a', y :: b' => if x <? y then true else if y <? x then false else list_leb a' b'
  end.

Fixpoint list_eqb (a b : list nat) : bool :=
  match a, b with
  | [], [] => true
  | x :: a', y :: b' => (x =? y) && list_eqb a' b'
  | _, _ => false
  end.

Definition onat (o : option nat) : nat := match o with Some x => S x | None => 0 end.

Definition call_key (c : bcall) : list nat :=
  match c with
  | BAttach nh => [0; nh]
  | BWalk h nm nh => [1; h; onat nm; nh]
  | BWalkGetAttr h nm nh => [2; h; onat nm; nh]
  | BGetAttr h => [3; h]
  | BOpen h f => [4; h; f]
  | BCreate h nm nh => [5; h; nm; nh]
  | BMk k h nm => [6; k; h; nm]
  | BLink h t nm => [7; h; t; nm]
  | BUnlinkAt h nm => [8; h; nm]
  | BRenameAt h o h2 n => [9; h; o; h2; n]
  | BRenamed h ph nm => [10; h; ph; nm]
  | BClose h => [11; h]
  | BUse k h => [12; k; h]
  end.

Definition unordered (c : bcall) : bool := match c with BRenamed _ _ _ | BClose _ => true | _ => false end.

Section Sort.
  Context {A : Type} (leb : A -> A -> bool).
  Fixpoint insert_sorted (x : A) (l : list A) : list A :=
    match l with
    | [] => [x]
    | y :: r => if leb x y then x :: l else y :: insert_sorted x r
    end.
  Definition isort (l : list A) : list A := fold_right insert_sorted [] l.
End Sort.

Definition key_leb (a b : list nat) := list_leb a b.

(** sort every maximal run of Renamed/Close calls *)
Fixpoint canon_go (run : list (list nat)) (l : list bcall) : list (list nat) :=
  match l with
  | [] => isort key_leb run
  | c :: r => if unordered c then canon_go (call_key c :: run) r
              else isort key_leb run ++ call_key c :: canon_go [] r
  end.
Definition canon (l : list bcall) : list (list nat) := canon_go [] l.

Fixpoint keys_eqb (a b : list (list nat)) : bool :=
  match a, b with
  | [], [] => true
  | x :: a', y :: b' => list_eqb x y && keys_eqb a' b'
  | _, _ => false
  end.

(** ---- dump of the model's path tree ---- *)
Definition nat_pair_leb {B} (a b : nat * B) : bool := fst a <=? fst b.

Definition norm_view (l : list (nat * list nat)) : list (nat * list nat) :=
  isort nat_pair_leb (filter (fun e => match snd e with [] => false | _ => true end)
                             (map (fun e => (fst e, isort Nat.leb (snd e))) l)).

(** childRefNames (ref -> name) regrouped as name -> handles *)
Fixpoint group_names (l : list (nat * nat)) (acc : list (nat * list nat)) : list (nat * list nat) :=
  match l with
  | [] => acc
  | (h, nm) :: r =>
      let cur := match alookup Nat.eqb nm acc with Some m => m | None => [] end in
      group_names r (aset Nat.eqb nm (h :: cur) acc)
  end.

Section Dump.
  Context {B : Type}.
  Definition handle_of (s : sstate B) (r : nat) : nat := fr_file (get_ref B s r).
  Fixpoint dump_node (fuel : nat) (s : sstate B) (path : list nat) (n : nat) : list dnode :=
    match fuel with
    | 0 => []
    | S f =>
        let pn := get_node B s n in
        let refsview := norm_view (map (fun e => (fst e, map (handle_of s) (snd e))) (pn_refs pn)) in
        let namesview := norm_view (group_names (map (fun e => (handle_of s (fst e), snd e)) (pn_names pn)) []) in
        (path, pn_deleted pn, refsview, namesview) ::
        flat_map (fun c => dump_node f s (path ++ [fst c]) (snd c)) (isort nat_pair_leb (pn_nodes pn))
    end.
  Definition dump_tree (s : sstate B) : list dnode := dump_node (S (length (s_nodes B s))) s [] 0.
End Dump.

Fixpoint view_eqb (a b : list (nat * list nat)) : bool :=
  match a, b with
  | [], [] => true
  | (n, l) :: a', (n', l') :: b' => (n =? n') && list_eqb l l' && view_eqb a' b'
  | _, _ => false
  end.

Fixpoint dump_eqb (a b : list dnode) : bool :=
  match a, b with
  | [], [] => true
  | (p, d, r, n) :: a', (p', d', r', n') :: b' =>
      list_eqb p p' && Bool.eqb d d' && view_eqb r r' && view_eqb n n' && dump_eqb a' b'
  | _, _ => false
  end.

(** ---- model vs implementation ---- *)
Definition st := sstate pfs.
Definition mstep := step pfs pfs_step.

Fixpoint agree_steps (steps : list hstep) (s : st) : bool * st :=
  match steps with
  | [] => (true, s)
  | HS o e v lg _ :: rest =>
      let '(rep, s1) := mstep o s in
      let added := rev (firstn (length (s_log pfs s1) - length (s_log pfs s)) (s_log pfs s1)) in
      if (fst rep =? e) && (snd rep =? v) && keys_eqb (canon added) (canon lg)
         && negb (s_panic pfs s1) && negb (s_oof pfs s1) && match s_held pfs s1 with [] => true | _ => false end
      then agree_steps rest s1 else (false, s1)
  end.

Definition agrees (c : rcase) : bool :=
  match c with
  | CHist wga inject steps nh _ k dump _ _ =>
      let '(ok1, s1) := agree_steps (firstn k steps) (init_state pfs (pfs_init wga inject)) in
      let '(ok2, s2) := agree_steps (skipn k steps) s1 in
      ok1 && ok2 && (s_nexth pfs s2 =? nh) && dump_eqb (dump_tree s1) dump
  | CGated _ _ _ _ _ => true
  end.

(** index (0-based) of the first step on which model and implementation differ, for diagnostics *)
Fixpoint first_diff (steps : list hstep) (s : st) (i : nat) : option (nat * reply * list (list nat)) :=
  match steps with
  | [] => None
  | HS o e v lg _ :: rest =>
      let '(rep, s1) := mstep o s in
      let added := rev (firstn (length (s_log pfs s1) - length (s_log pfs s)) (s_log pfs s1)) in
      if (fst rep =? e) && (snd rep =? v) && keys_eqb (canon added) (canon lg)
         && negb (s_panic pfs s1) && negb (s_oof pfs s1) && match s_held pfs s1 with [] => true | _ => false end
      then first_diff rest s1 (S i) else Some (i, rep, canon added)
  end.
Definition diagnose (c : rcase) :=
  match c with
  | CHist wga inject steps _ _ _ _ _ _ => first_diff steps (init_state pfs (pfs_init wga inject)) 0
  | CGated _ _ _ _ _ => None
  end.
Definition model_dump (c : rcase) :=
  match c with
  | CHist wga inject steps _ _ k _ _ _ => dump_tree (snd (agree_steps (firstn k steps) (init_state pfs (pfs_init wga inject))))
  | CGated _ _ _ _ _ => []
  end.

(** ---- the properties, on the observed behaviour only ---- *)
Definition handles_of (c : bcall) : list nat :=
  match c with
  | BAttach _ => []
  | BWalk h _ _ | BWalkGetAttr h _ _ | BGetAttr h | BOpen h _ | BCreate h _ _ | BMk _ h _
  | BUnlinkAt h _ | BClose h | BUse _ h => [h]
  | BLink h t _ => [h; t]
  | BRenameAt h _ h2 _ => [h; h2]
  | BRenamed h ph _ => [h; ph]
  end.

Definition mem (x : nat) (l : list nat) : bool := existsb (Nat.eqb x) l.

(** chronological log: no handle is used after its Close, none is closed twice *)
Fixpoint lifecycle_ok (closed : list nat) (l : list bcall) : bool :=
  match l with
  | [] => true
  | c :: r =>
      negb (existsb (fun h => mem h closed) (handles_of c)) &&
      lifecycle_ok (match c with BClose h => h :: closed | _ => closed end) r
  end.

Definition close_count (h : nat) (l : list bcall) : nat :=
  length (filter (fun c => match c with BClose h' => h' =? h | _ => false end) l).

Definition all_closed_once (nh : nat) (l : list bcall) : bool :=
  forallb (fun h => close_count h l =? 1) (seq 0 nh).

(** within one request: a File is told its new name only after its parent File was told *)
Fixpoint parents_first (told : list nat) (l : list bcall) (all : list bcall) : bool :=
  match l with
  | [] => true
  | BRenamed h ph _ :: r =>
      (negb (existsb (fun c => match c with BRenamed h' _ _ => h' =? ph | _ => false end) all) || mem ph told)
      && parents_first (h :: told) r all
  | _ :: r => parents_first told r all
  end.

(** does the request depend on the path of its (first / second) fid? [walk]: a walk to a child *)
Inductive fence_kind := FNone | FEinval | FWalk.
Definition fence_of (o : op) : fence_kind * bool (* also the second fid *) :=
  match o with
  | OWalk _ _ _ (_ :: _) _ => (FWalk, false)
  | OOpen _ _ _ | OCreate _ _ _ _ | OMk _ _ _ _ | OLink _ _ _ _ | OSetAttr _ _ | OReaddir _ _
  | OReadlink _ _ | OUnlinkAt _ _ _ | OXattrWalk _ _ _ | OXattrCreate _ _ | ORemove _ _ => (FEinval, false)
  | ORename _ _ _ _ | ORenameAt _ _ _ _ _ => (FEinval, true)
  | _ => (FNone, false)
  end.

Definition is_close_only (l : list bcall) : bool := forallb (fun c => match c with BClose _ => true | _ => false end) l.

(** C05_error_paths on the observed call log: in a Twalk / Twalkgetattr / Tattach answered with an error,
    every File that was evidently handed out during the request - it is the File a later call of the same
    request is made on - has been closed when the request is answered.  For a walk the File of the fid
    walked from (the File of the request's first call) is not the request's to close. *)
Definition src_of (c : bcall) : list nat :=
  match c with
  | BWalk h _ _ | BWalkGetAttr h _ _ | BGetAttr h => [h]
  | _ => []
  end.
Definition err_paths_ok (o : op) (e : nat) (lg : list bcall) : bool :=
  let closed := flat_map (fun c => match c with BClose h => [h] | _ => [] end) lg in
  let all_closed (hs : list nat) := forallb (fun h => mem h closed) hs in
  if e =? 0 then true else
  match o with
  | OAttach _ _ _ => all_closed (flat_map src_of lg)
  | OWalk _ _ _ _ _ =>
      match flat_map src_of lg with
      | start :: rest => all_closed (filter (fun h => negb (h =? start)) rest)
      | [] => true
      end
  | _ => true
  end.

Definition step_ok (injected : bool) (h : hstep) : bool :=
  match h with
  | HS o e v lg objs =>
      parents_first [] lg lg && err_paths_ok o e lg &&
      match o, objs with
      | OGetAttr _ _, (ino, true, _) :: _ => injected || (ino =? 0) || ((e =? 0) && (v =? ino))        (* coherence *)
      | _, _ => true
      end &&
      let dead1 := match objs with (_, false, _) :: _ => true | _ => false end in
      let dir1 := match objs with (_, _, d) :: _ => d | _ => false end in
      let dead2 := match objs with _ :: (_, false, _) :: _ => true | _ => false end in
      let unbound2 := match objs with _ :: (0, _, _) :: _ => true | _ => false end in   (* EBADF comes first *)
      if unbound2 then true else
      match fence_of o with
      | (FNone, _) => true
      | (FWalk, _) => if dead1 then ((e =? ENOENT) || (e =? EINVAL) || (e =? EBUSY)) && match lg with [] => true | _ => false end else true
      | (FEinval, second) =>
          if dead1 || (second && dead2)
          then (e =? EINVAL) && (match o with ORemove _ _ => is_close_only lg | _ => match lg with [] => true | _ => false end end)
          else true
      end
  end.

(** a request one of whose backend calls was made to fail by the harness is exempt from the
    coherence check (its error is the injected one); [base] = index of its first backend call *)
Fixpoint steps_ok (inject : list (nat * nat)) (base : nat) (steps : list hstep) : bool :=
  match steps with
  | [] => true
  | (HS _ _ _ lg _ as h) :: rest =>
      let n := length lg in
      step_ok (existsb (fun i => (base <=? fst i) && (fst i <? base + n)) inject) h &&
      steps_ok inject (base + n) rest
  end.

Definition property_holds (c : rcase) : bool :=
  match c with
  | CHist _ inject steps nh complete _ dump returned gdelta =>
      let lg := flat_map (fun h => match h with HS _ _ _ l _ => l end) steps in
      lifecycle_ok [] lg &&
      (if complete then all_closed_once nh lg && returned && (gdelta =? 0) else true) &&
      steps_ok inject 0 steps &&
      forallb (fun d => match d with (_, _, r, n) => view_eqb r n end) dump
  | CGated lg probes nh returned gdelta =>
      lifecycle_ok [] lg && all_closed_once nh lg && returned && (gdelta =? 0) && forallb (step_ok false) probes
  end.

Fixpoint failing (f : rcase -> bool) (i : nat) (l : list rcase) : list nat :=
  match l with
  | [] => []
  | c :: r => if f c then failing f (S i) r else i :: failing f (S i) r
  end.

Definition mismatches (l : list rcase) : list nat := failing agrees 0 l.
Definition property_failures (l : list rcase) : list nat := failing property_holds 0 l.
