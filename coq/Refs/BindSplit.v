(** Refs/BindSplit.v — the clone (zero-name Twalk / Twalkgetattr) as TWO atomic segments.

    The sequential model (Refs/Model.v) runs every request atomically.  For a request that binds a
    new File this atomicity is what Server.renameMu provides in the code: doWalk's clone runs its
    backend Walk(nil) and the construction / registration of the new fidRef inside ONE
    ref.safelyRead (renameMu.R + the node's opMu.R), and a rename needs renameMu.W.  This file makes
    the assumption expressible and shows that it is needed:

      clone_begin   [LookupFID; EBUSY / xattr guards; walkOne(nil)]  - the backend has made the copy
      clone_finish  [new fidRef from ref's CURRENT parent / name; addChild; InsertFID; DecRefs]

    [clone_split_seq]      the two segments run back to back are exactly the model's request
                           (every backend, every state): the split adds no behaviour of its own;
    [clone_overtaken_refuted]  with PathFS, a Trenameat of the entry that runs BETWEEN the segments
                           (possible only if Walk(nil) is not under renameMu) leaves the new fid on the
                           old path: GetAttr through it answers ENOENT although its object is alive,
                           while both sequential orders answer its inode.  The Renamed calls of that
                           rename do not mention the new File (it was not registered yet).

    The gated scenario vhgRenameVsBind (harness/p9/vhfs_gated_test.go) drives exactly this window on
    the real server (clone, clone with getattr, walk to a child, Tlcreate x rename of the entry / of an
    ancestor x same / other directory). *)
From Coq Require Import List Arith Bool ZArith Lia.
From P9V Require Import Refs.Model Refs.PathFS.
Import ListNotations.

Section Split.
Variable B : Type.
Variable bstep : B -> bcall -> B * bans.

(** outcome of the first segment: answered at once, or parked with (ref, new handle) *)
Inductive seg1 := SDone (rep : reply) | SParked (r h : nat).

Definition clone_begin (c fid newfid : nat) (getattr : bool) (s : sstate B) : seg1 * sstate B :=
  match lookup_fid B c fid s with
  | (None, s1) => (SDone (rerr EBADF), s1)
  | (Some r, s1) =>
      if fr_opened (get_ref B s1 r) && (fid =? newfid) then (SDone (rerr EBUSY), release B bstep r s1)
      else
        let x := get_ref B s1 r in
        match fr_xattrOf x with
        | Some _ => (SDone (rerr EINVAL), release B bstep r s1)
        | None =>
            let '(w, s2) := walk_one B bstep (fr_file x) (fr_node x) None getattr s1 in
            match w with
            | WFail e => (SDone (rerr e), release B bstep r s2)
            | WOk h _ _ => (SParked r h, s2)
            end
        end
  end.

(** second segment: everything doWalk does after walkOne returned, then InsertFID and the two deferred
    DecRefs; [ref]'s parent, mode, node and registered name are read NOW *)
Definition clone_finish (c newfid r h : nat) (s : sstate B) : reply * sstate B :=
  let x := get_ref B s r in
  let '(nr, s2) := new_ref_inc B (mkref h 0 false 0 (fr_mode x) (fr_node x) (fr_parent x) None XNone) s in
  let '(d, s3) :=
    match fr_parent x with
    | None => (DOk nr, s2)
    | Some p =>
        let pnode := fr_node (get_ref B s2 p) in
        if is_deleted B s2 nr then (DOk nr, s2)
        else match name_for B pnode r s2 with
             | None => (DFail EFAULT, set_panic B s2)
             | Some nm =>
                 let s3 := add_child B pnode nr nm s2 in
                 if s_panic B s3 then (DFail EFAULT, s3) else (DOk nr, s3)
             end
    end in
  match d with
  | DFail e => (rerr e, release B bstep r s3)
  | DOk nr => (rok 0, release B bstep r (release B bstep nr (insert_fid B bstep c newfid nr s3)))
  end.

Definition clone_seq (c fid newfid : nat) (getattr : bool) (s : sstate B) : reply * sstate B :=
  match clone_begin c fid newfid getattr s with
  | (SDone rep, s1) => (rep, s1)
  | (SParked r h, s1) => clone_finish c newfid r h s1
  end.

(** walkOne never touches the fidRef list (backend call, handle counter, log only; a zero-name walk
    creates no path node) *)
Lemma bcall_refs : forall c s, s_refs B (snd (bcall_ B bstep c s)) = s_refs B s.
Proof. intros c s. unfold bcall_. destruct (bstep (s_be B s) c). reflexivity. Qed.

Lemma walk_one_none_refs : forall fh fnode g s,
  s_refs B (snd (walk_one B bstep fh fnode None g s)) = s_refs B s.
Proof.
  intros fh fnode g s. unfold walk_one.
  repeat match goal with
  | |- context [bcall_ B bstep ?c ?s0] =>
      let H := fresh "H" in
      pose proof (bcall_refs c s0) as H; destruct (bcall_ B bstep c s0) as [? ?]; cbn [snd] in H
  | |- context [match ?a with AOk _ _ => _ | AErr _ => _ | ABadQ _ _ => _ end] => destruct a
  | |- context [if ?b then _ else _] => destruct b
  end; cbn in *; congruence.
Qed.

(** The split is faithful: run back to back, the two segments are the model's zero-name walk request,
    for every backend and every state. *)
Theorem clone_split_seq : forall c fid newfid g s,
  clone_seq c fid newfid g s = step B bstep (OWalk c fid newfid [] g) s.
Proof.
  intros c fid newfid g s. unfold clone_seq, clone_begin, step, do_walk_op, with_fid.
  destruct (lookup_fid B c fid s) as [[r|] s1]; [|reflexivity].
  destruct (fr_opened (get_ref B s1 r) && (fid =? newfid)); [reflexivity|].
  unfold do_walk.
  destruct (fr_xattrOf (get_ref B s1 r)); [reflexivity|].
  pose proof (walk_one_none_refs (fr_file (get_ref B s1 r)) (fr_node (get_ref B s1 r)) g s1) as R.
  destruct (walk_one B bstep (fr_file (get_ref B s1 r)) (fr_node (get_ref B s1 r)) None g s1) as [w s2].
  cbn [snd] in R.
  destruct w as [e | h m ino]; [reflexivity|].
  unfold clone_finish.
  assert (X : get_ref B s2 r = get_ref B s1 r) by (unfold get_ref; rewrite R; reflexivity).
  rewrite X.
  destruct (new_ref_inc B (mkref h 0 false 0 (fr_mode (get_ref B s1 r)) (fr_node (get_ref B s1 r))
                                 (fr_parent (get_ref B s1 r)) None XNone) s2) as [nr s3].
  destruct (fr_parent (get_ref B s1 r)) as [p|]; [|reflexivity].
  destruct (is_deleted B s3 nr); [reflexivity|].
  destruct (name_for B (fr_node (get_ref B s3 p)) r s3) as [nm|]; [|reflexivity].
  destruct (s_panic B (add_child B (fr_node (get_ref B s3 p)) nr nm s3)); reflexivity.
Qed.

End Split.

(** ---- the window is harmful: PathFS, a rename of the entry between the two segments ---- *)
Definition bs_setup : list op :=
  [OAttach 0 0 []; OMk 0 0 0 1; OWalk 0 0 1 [1] false; OAttach 1 0 []].
Definition bs_rename : op := ORenameAt 1 0 1 0 3.          (* connection 1: /n1 -> /n3 *)
Definition bs_probe : op := OGetAttr 0 2.                  (* through the cloned fid *)

Definition bs_s0 (wga : bool) : sstate pfs := snd (run pfs pfs_step bs_setup (init_state pfs (pfs_init wga []))).

(** rename inside the window *)
Definition bs_overtaken (wga g : bool) : reply * list bcall :=
  match clone_begin pfs pfs_step 0 1 2 g (bs_s0 wga) with
  | (SParked r h, s1) =>
      let s2 := snd (step pfs pfs_step bs_rename s1) in
      let s3 := snd (clone_finish pfs pfs_step 0 2 r h s2) in
      (fst (step pfs pfs_step bs_probe s3),
       filter (fun c => match c with BRenamed _ _ _ => true | _ => false end) (s_log pfs s3))
  | (SDone rep, _) => (rep, [])
  end.

(** the two sequential orders *)
Definition bs_order (wga g first_clone : bool) : reply :=
  let ops := if first_clone then [OWalk 0 1 2 [] g; bs_rename; bs_probe] else [bs_rename; OWalk 0 1 2 [] g; bs_probe] in
  last (fst (run pfs pfs_step ops (bs_s0 wga))) (0, 0).

Theorem clone_overtaken_refuted : forall wga g,
  (** the object the cloned fid was bound to: inode 2, alive at /n3 *)
  bs_order wga g true = (0, 2) /\ bs_order wga g false = (0, 2) /\
  (** overtaken: the new fid answers ENOENT, and the only File told about the rename is the origin's (handle 1) *)
  bs_overtaken wga g = ((ENOENT, 0), [BRenamed 1 2 3]).
Proof. intros [|] [|]; vm_compute; repeat split. Qed.
