(** Refs/Ordered.v — the hypothesis of C05_disconnect discharged for rename-free histories:
    in every history without Trename / Trenameat, for every backend, the parent of every fidRef
    has a smaller id ([ordered_all]); hence [ordered], hence [ranked] (Refs/Disconnect.v), hence after
    the disconnect of all connections every File has been closed exactly once.
    (fr_parent is written by newFidRef-like constructors - parent = an existing fidRef - and by
    renameChildTo's callback only.) *)
From Coq Require Import List Arith Bool ZArith Lia.
From P9V Require Import Refs.Model Refs.RefProofs Refs.RefStep Refs.LifeProofs Refs.LifeStep Refs.ErrPaths Refs.Disconnect.
Import ListNotations.

Section Ord.
Variable B : Type.
Variable bstep : B -> bcall -> B * bans.
Notation st := (sstate B).
Notation gref := (get_ref B).
Notation len := (len B).

(** same fidRefs, same parent links *)
Definition pveq (s s' : st) : Prop :=
  len s' = len s /\ forall q, fr_parent (gref s' q) = fr_parent (gref s q) /\ fr_xattrOf (gref s' q) = fr_xattrOf (gref s q).
(** old parent links kept; each new fidRef's parent is older than itself *)
Definition grow (s s' : st) : Prop :=
  len s <= len s' /\
  (forall q, q < len s -> fr_parent (gref s' q) = fr_parent (gref s q) /\ fr_xattrOf (gref s' q) = fr_xattrOf (gref s q)) /\
  (forall q p, len s <= q -> q < len s' -> fr_parent (gref s' q) = Some p \/ fr_xattrOf (gref s' q) = Some p -> p < q).
Definition ordered_all (s : st) : Prop := forall r p, r < len s -> fr_parent (gref s r) = Some p -> p < r.

Lemma pveq_refl s : pveq s s. Proof. split; auto. Qed.
Lemma pveq_trans a b c : pveq a b -> pveq b c -> pveq a c.
Proof. intros (L1 & P1) (L2 & P2). split; [congruence|]. intros q. destruct (P1 q), (P2 q). split; congruence. Qed.
Lemma pveq_sc s s' : same_core B s s' -> pveq s s'.
Proof. intros (_ & _ & R & _). unfold pveq, LifeProofs.len, get_ref. rewrite R. auto. Qed.
Lemma pveq_keeps s s' : keeps B s s' -> pveq s s'.
Proof. intros K. pose proof K as (_&_&_&L&_&_). split; [exact L|]. intros q. split; apply (keeps_field B); auto. Qed.
Lemma pveq_with_held h s : pveq s (with_held B h s). Proof. split; [reflexivity | intros; split; reflexivity]. Qed.
Lemma pveq_with_fids f s : pveq s (with_fids B f s). Proof. split; [reflexivity | intros; split; reflexivity]. Qed.
Lemma pveq_incref r s : pveq s (incref B r s). Proof. apply pveq_keeps, keeps_set_refs. Qed.
Lemma pveq_hold r s : pveq s (hold B r s).
Proof. unfold hold. eapply pveq_trans; [apply pveq_incref | apply pveq_with_held]. Qed.
Lemma pveq_decref_ r s : pveq s (snd (decref_ B bstep r s)).
Proof. apply pveq_keeps. unfold decref_. apply keeps_decref. Qed.
Lemma pveq_release r s : pveq s (release B bstep r s).
Proof. unfold release. eapply pveq_trans; [apply pveq_with_held | apply pveq_decref_]. Qed.
Lemma pveq_insert c fid r s : pveq s (insert_fid B bstep c fid r s).
Proof.
  unfold insert_fid.
  assert (H : pveq s (with_fids B (aset peqb (c, fid) r (s_fids B s)) (incref B r s))) by (eapply pveq_trans; [apply pveq_incref | apply pveq_with_fids]).
  destruct (alookup peqb (c, fid) (s_fids B s)); [eapply pveq_trans; [exact H | apply pveq_decref_] | exact H].
Qed.
Lemma pveq_delete c fid s : pveq s (snd (delete_fid B bstep c fid s)).
Proof.
  unfold delete_fid. destruct (alookup peqb (c, fid) (s_fids B s)); [|apply pveq_refl].
  eapply pveq_trans; [apply pveq_with_fids | apply pveq_decref_].
Qed.
Lemma pveq_set_field r x' s : fr_parent x' = fr_parent (gref s r) -> fr_xattrOf x' = fr_xattrOf (gref s r) -> pveq s (set_ref B r x' s).
Proof.
  intros E E'. split; [apply len_set_ref|]. intros q. destruct (Nat.eq_dec r q) as [<-|N]; [|rewrite gref_set_other; auto].
  destruct (Nat.lt_ge_cases r (length (s_refs B s))) as [L|L]; [rewrite gref_set_same; auto|].
  unfold set_ref. rewrite upd_oob by auto. destruct s; split; reflexivity.
Qed.
Lemma pveq_gc r g c s : pveq s (snd (guarded_call B bstep r g c s)).
Proof. apply pveq_sc, sc_guarded_call. Qed.

Lemma pveq_with_fid c fid body s :
  (forall r s0, pveq s0 (snd (body r s0))) -> pveq s (snd (with_fid B bstep c fid body s)).
Proof.
  intros H. unfold with_fid, lookup_fid. destruct (alookup peqb (c, fid) (s_fids B s)) as [r|]; [|apply pveq_refl].
  specialize (H r (hold B r s)). destruct (body r (hold B r s)) as [rep s2]. cbn [snd] in *.
  eapply pveq_trans; [apply pveq_hold|]. eapply pveq_trans; [exact H | apply pveq_release].
Qed.

Lemma grow_refl s : grow s s. Proof. repeat split; auto; intros; lia. Qed.
Lemma grow_trans a b c : grow a b -> grow b c -> grow a c.
Proof.
  intros (L1 & O1 & P1) (L2 & O2 & P2). split; [lia|]. split.
  - intros q Hq. destruct (O1 q Hq), (O2 q ltac:(lia)). split; congruence.
  - intros q p Hq Hq' Hp. destruct (Nat.lt_ge_cases q (len b)) as [Lt|Ge].
    + destruct (O2 q Lt) as (E1 & E2). rewrite E1, E2 in Hp. apply (P1 q p Hq Lt Hp).
    + apply (P2 q p Ge Hq' Hp).
Qed.
Lemma grow_pveq s s' : pveq s s' -> grow s s'.
Proof. intros (L & P). split; [lia|]. split; [intros; apply P | intros; lia]. Qed.
Lemma grow_shape s s' : shape B s s' -> grow s s'.
Proof.
  intros (_ & L & O & P & X). split; [exact L|]. split; [intros q Hq; destruct (O q Hq) as (?&?&?); auto|].
  intros q p Hq Hq' [Hp|Hp]; [apply (P q p Hq Hq' Hp) | rewrite (X q Hq Hq') in Hp; discriminate].
Qed.
Lemma grow_new_ref x s : (forall p, fr_parent x = Some p \/ fr_xattrOf x = Some p -> p < len s) -> grow s (snd (new_ref B x s)).
Proof.
  intros HP. destruct (new_ref_facts B x s) as (_ & L1 & Gn & Go & _).
  unfold grow, LifeProofs.len in *. rewrite L1. split; [lia|]. split.
  - intros q Hq. rewrite Go by auto. split; reflexivity.
  - intros q p Hq Hq' Hp. assert (q = length (s_refs B s)) by lia. subst q. rewrite Gn in Hp. cbn in Hp. apply HP; auto.
Qed.
Lemma grow_new_ref_inc x s : (forall p, fr_parent x = Some p \/ fr_xattrOf x = Some p -> p < len s) -> grow s (snd (new_ref_inc B x s)).
Proof.
  intros HP. unfold new_ref_inc. pose proof (grow_new_ref x s HP) as G.
  destruct (new_ref B x s) as [nr s1]. cbn [snd] in *.
  destruct (fr_parent x); [eapply grow_trans; [exact G | apply grow_pveq, pveq_incref]|].
  destruct (fr_xattrOf x); [eapply grow_trans; [exact G | apply grow_pveq, pveq_incref] | exact G].
Qed.

Lemma ordered_grow s s' : grow s s' -> ordered_all s -> ordered_all s'.
Proof.
  intros (L & O & P) Ord r p Hr Hp. destruct (Nat.lt_ge_cases r (len s)) as [Lt|Ge].
  - destruct (O r Lt) as (E & _). rewrite E in Hp. apply (Ord r p Lt Hp).
  - apply (P r p Ge Hr). left; exact Hp.
Qed.

Definition fid_bound (s : st) : Prop := forall r, In r (map snd (s_fids B s)) -> r < len s.
Definition pbound (s : st) : Prop := forall r p, r < len s -> fr_parent (gref s r) = Some p -> p < len s.
Lemma pbound_pveq s s' : pveq s s' -> pbound s -> pbound s'.
Proof. intros (L & P) H r p Hr Hp. destruct (P r) as (E & _). rewrite E in Hp. rewrite L in *. apply (H r p Hr Hp). Qed.
Lemma pbound_ordered s : ordered_all s -> pbound s.
Proof. intros Ord r p Hr Hp. specialize (Ord r p Hr Hp). lia. Qed.

Lemma grow_with_fid c fid body s :
  fid_bound s -> pbound s ->
  (forall r s0, r < len s0 -> pbound s0 -> grow s0 (snd (body r s0))) -> grow s (snd (with_fid B bstep c fid body s)).
Proof.
  intros Fb Ord H. unfold with_fid, lookup_fid. destruct (alookup peqb (c, fid) (s_fids B s)) as [r|] eqn:E; [|apply grow_refl].
  assert (Hr : r < len s) by (apply Fb; apply (alookup_in peqb peqb_spec _ _ _ E)).
  pose proof (pveq_hold r s) as PH.
  specialize (H r (hold B r s) ltac:(destruct PH as (L & _); lia) (pbound_pveq _ _ PH Ord)).
  destruct (body r (hold B r s)) as [rep s2]. cbn [snd] in *.
  eapply grow_trans; [apply grow_pveq, PH|]. eapply grow_trans; [exact H | apply grow_pveq, pveq_release].
Qed.

Ltac bc H := match goal with |- context [bcall_ B bstep ?c ?s] =>
  pose proof (pveq_sc _ _ (sc_bcall B bstep c s)) as H; destruct (bcall_ B bstep c s) as [? ?]; cbn [fst snd] in * end.
Ltac gc H := match goal with |- context [guarded_call B bstep ?r ?g ?c ?s] =>
  pose proof (pveq_gc r g c s) as H; destruct (guarded_call B bstep r g c s) as [? ?]; cbn [fst snd] in * end.

(** ---- the requests that create no fidRef ---- *)
Lemma pv_clunk c fid s : pveq s (snd (do_clunk B bstep c fid s)).
Proof.
  unfold do_clunk.
  match goal with |- context [with_fid B bstep c fid ?b s] => assert (H1 : pveq s (snd (with_fid B bstep c fid b s))); [|destruct (with_fid B bstep c fid b s) as [cerr s1]] end.
  { apply pveq_with_fid. intros r s0. destruct (fr_xop (gref s0 r)); try apply pveq_refl. apply pveq_gc. }
  pose proof (pveq_delete c fid s1) as H2. destruct (delete_fid B bstep c fid s1) as [e s2]. cbn [snd] in *.
  pose proof (pveq_trans _ _ _ H1 H2) as H3. destruct e; [exact H3|]. destruct (fst cerr =? 0); exact H3.
Qed.

Lemma pv_remove c fid s : pveq s (snd (do_remove B bstep c fid s)).
Proof.
  unfold do_remove. apply pveq_with_fid. intros r s0. cbv zeta.
  match goal with |- pveq _ (snd (let '(err, s1) := ?X in _)) => assert (H1 : pveq s0 (snd X)); [|destruct X as [err s1]] end.
  { destruct (fr_parent (gref s0 r)) as [p|]; [|apply pveq_refl]. destruct (is_deleted B s0 r); [apply pveq_refl|].
    destruct (name_for B (fr_node (gref s0 p)) r s0) as [nm|]; [|apply pveq_sc, sc_set_panic].
    bc H. destruct b; cbn [snd]; try exact H; (eapply pveq_trans; [exact H | apply pveq_sc, sc_mark_child_deleted]). }
  cbn [snd] in H1. destruct (s_panic B s1 && negb (s_panic B s0)); [exact H1|].
  pose proof (pveq_delete c fid s1) as H2. destruct (delete_fid B bstep c fid s1) as [fe s2]. cbn [snd] in *.
  pose proof (pveq_trans _ _ _ H1 H2) as H3. destruct fe; [exact H3|]. destruct err; exact H3.
Qed.

Lemma pv_open c fid fl s : pveq s (snd (do_open B bstep c fid fl s)).
Proof.
  unfold do_open. apply pveq_with_fid. intros r s0. cbv zeta.
  destruct (is_deleted B s0 r); [apply pveq_refl|]. destruct (_ || _); [apply pveq_refl|]. destruct (_ && _); [apply pveq_refl|].
  bc H. destruct b; cbn [snd]; try exact H; (eapply pveq_trans; [exact H | apply pveq_set_field; reflexivity]).
Qed.

Lemma pv_gc1 c fid (f : nat -> st -> nat) (g : nat -> st -> option nat) (k : nat -> st -> bcall) s :
  pveq s (snd (with_fid B bstep c fid (fun r s => let '(rep, s1) := guarded_call B bstep (f r s) (g r s) (k r s) s in ((fst rep, 0), s1)) s)).
Proof. apply pveq_with_fid. intros r s0. gc H. exact H. Qed.

Lemma pv_mk k c fid nm s : pveq s (snd (do_mk B bstep k c fid nm s)).
Proof. unfold do_mk. apply pveq_with_fid. intros r s0. gc H. exact H. Qed.
Lemma pv_link c d t nm s : pveq s (snd (do_link B bstep c d t nm s)).
Proof. unfold do_link. apply pveq_with_fid. intros r s0. apply pveq_with_fid. intros t0 s1. gc H. exact H. Qed.
Lemma pv_getattr c fid s : pveq s (snd (do_getattr B bstep c fid s)).
Proof. unfold do_getattr. apply pveq_with_fid. intros r s0. apply pveq_gc. Qed.
Lemma pv_use k c fid s : pveq s (snd (do_use B bstep k c fid s)).
Proof. unfold do_use. apply pveq_with_fid. intros r s0. gc H. exact H. Qed.
Lemma pv_io k c fid s : pveq s (snd (do_io B bstep k c fid s)).
Proof.
  unfold do_io. apply pveq_with_fid. intros r s0. cbv zeta.
  destruct (k =? uFsync); [gc H; exact H|]. destruct (k =? uRead).
  - destruct (fr_xop (gref s0 r)); try apply pveq_refl. apply pveq_gc.
  - destruct (fr_xop (gref s0 r)); try apply pveq_refl. gc H. exact H.
Qed.
Lemma pv_setattr c fid s : pveq s (snd (do_setattr B bstep c fid s)).
Proof. unfold do_setattr. apply pveq_with_fid. intros r s0. gc H. exact H. Qed.
Lemma pv_readdir c fid s : pveq s (snd (do_readdir B bstep c fid s)).
Proof. unfold do_readdir. apply pveq_with_fid. intros r s0. cbv zeta. gc H. exact H. Qed.
Lemma pv_readlink c fid s : pveq s (snd (do_readlink B bstep c fid s)).
Proof. unfold do_readlink. apply pveq_with_fid. intros r s0. apply pveq_refl. Qed.
Lemma pv_unlinkat c fid nm s : pveq s (snd (do_unlinkat B bstep c fid nm s)).
Proof.
  unfold do_unlinkat. apply pveq_with_fid. intros r s0. destruct (dir_guard B s0 r); [apply pveq_refl|]. cbv zeta.
  pose proof (pveq_sc _ _ (sc_path_node_for B (fr_node (gref s0 r)) nm s0)) as H0.
  destruct (path_node_for B (fr_node (gref s0 r)) nm s0) as [cn s1]. cbn [snd] in H0.
  bc H. pose proof (pveq_trans _ _ _ H0 H) as H2.
  destruct b; cbn [snd]; try exact H2; (eapply pveq_trans; [exact H2 | apply pveq_sc, sc_mark_child_deleted]).
Qed.
Lemma pv_xattrcreate c fid s : pveq s (snd (do_xattrcreate B bstep c fid s)).
Proof.
  unfold do_xattrcreate. apply pveq_with_fid. intros r s0. destruct (is_deleted B s0 r); [apply pveq_refl|].
  apply pveq_set_field; reflexivity.
Qed.
Lemma pv_stop_loop l c : forall s, pveq s (stop_loop B bstep l c s).
Proof.
  induction l as [|[[c' f] r] l IH]; intros s; cbn [stop_loop]; [apply pveq_refl|].
  destruct (c' =? c); [|apply IH]. eapply pveq_trans; [apply pveq_delete | apply IH].
Qed.

(** ---- the requests that create fidRefs ---- *)
Lemma gr_walk_op c fid newfid names g s :
  fid_bound s -> pbound s -> grow s (snd (do_walk_op B bstep c fid newfid names g s)).
Proof.
  intros Fb Ord. unfold do_walk_op. apply grow_with_fid; auto. intros r s0 Hr Ord0.
  destruct (fr_opened (gref s0 r) && (fid =? newfid)); [apply grow_refl|].
  assert (HP : forall p, fr_parent (gref s0 r) = Some p -> p < len s0) by (intros p Hp; apply (Ord0 r p Hr Hp)).
  pose proof (grow_shape _ _ (do_walk_shape B bstep r names g s0 Hr HP)) as G.
  destruct (do_walk B bstep r names g s0) as [res s1]. cbn [snd] in G. destruct res as [e|nr]; [exact G|]. cbn [snd].
  eapply grow_trans; [exact G|]. apply grow_pveq. eapply pveq_trans; [apply pveq_insert | apply pveq_release].
Qed.

Lemma gr_attach c fid names s : grow s (snd (do_attach B bstep c fid names s)).
Proof.
  unfold do_attach. bc H1. set (x := mkref (s_nexth B s) 0 false 0 MNone 0 None None XNone).
  assert (Main : let '(root, s2) := new_ref B x (take_handle B s0) in
     let '(a2, s3) := bcall_ B bstep (BGetAttr (s_nexth B s)) s2 in
     forall rs, rs = (match a2 with
      | AErr e => (rerr e, release B bstep root s3)
      | AOk m ino | ABadQ m ino =>
          let s4 := set_ref B root (fr_with_mode (gref s3 root) m) s3 in
          match names with
          | [] => (rok ino, release B bstep root (insert_fid B bstep c fid root s4))
          | _ =>
              let '(d0, s5) := do_walk B bstep root names false s4 in
              match d0 with
              | DFail e => (rerr e, release B bstep root s5)
              | DOk nr => (rok ino, release B bstep root (release B bstep nr (insert_fid B bstep c fid nr s5)))
              end
          end
      end) -> grow s (snd rs)).
  { pose proof (grow_pveq _ _ (pveq_sc _ _ (sc_take_handle B s0))) as Gt.
    assert (Gn : grow (take_handle B s0) (snd (new_ref B x (take_handle B s0)))) by (apply grow_new_ref; intros p [Hp|Hp]; discriminate).
    destruct (new_ref_facts B x (take_handle B s0)) as (E2 & L2 & Gnew & _).
    destruct (new_ref B x (take_handle B s0)) as [root s2]. cbn [fst snd] in *.
    bc H3.
    pose proof (grow_trans _ _ _ (grow_pveq _ _ H1) (grow_trans _ _ _ Gt (grow_trans _ _ _ Gn (grow_pveq _ _ H3)))) as G03.
    assert (Hr2 : root < len s2) by (unfold LifeProofs.len; rewrite L2, E2; lia).
    assert (Walk : forall m, let s4 := set_ref B root (fr_with_mode (gref s1 root) m) s1 in
        forall rs ino, rs = (match names with
          | [] => (rok ino, release B bstep root (insert_fid B bstep c fid root s4))
          | _ =>
              let '(d0, s5) := do_walk B bstep root names false s4 in
              match d0 with
              | DFail e => (rerr e, release B bstep root s5)
              | DOk nr => (rok ino, release B bstep root (release B bstep nr (insert_fid B bstep c fid nr s5)))
              end
          end) -> grow s (snd rs)).
    { intros m s4 rs ino ->.
      assert (S4 : pveq s1 s4) by (apply pveq_set_field; reflexivity).
      pose proof (pveq_trans _ _ _ H3 S4) as S24.
      assert (Hr4 : root < len s4) by (destruct S24 as (L & _); lia).
      assert (P4 : forall p, fr_parent (gref s4 root) = Some p -> p < len s4).
      { intros p Hp. destruct S24 as (_ & O). destruct (O root) as (EO & _). rewrite EO, E2, Gnew in Hp. discriminate. }
      pose proof (grow_trans _ _ _ G03 (grow_pveq _ _ S4)) as G04.
      destruct names as [|nm rest].
      - cbn [snd]. eapply grow_trans; [exact G04|]. apply grow_pveq. eapply pveq_trans; [apply pveq_insert | apply pveq_release].
      - pose proof (grow_shape _ _ (do_walk_shape B bstep root (nm :: rest) false s4 Hr4 P4)) as S5.
        destruct (do_walk B bstep root (nm :: rest) false s4) as [d0 s5]. cbn [snd] in S5.
        pose proof (grow_trans _ _ _ G04 S5) as G05.
        destruct d0 as [e|nr]; cbn [snd]; (eapply grow_trans; [exact G05|]); apply grow_pveq; [apply pveq_release|].
        eapply pveq_trans; [apply pveq_insert|]. eapply pveq_trans; apply pveq_release. }
    intros rs ->. destruct b0 as [m ino|e|m ino].
    - eapply Walk; reflexivity.
    - cbn [snd]. eapply grow_trans; [exact G03 | apply grow_pveq, pveq_release].
    - eapply Walk; reflexivity. }
  destruct (new_ref B x (take_handle B s0)) as [root s2]. destruct (bcall_ B bstep (BGetAttr (s_nexth B s)) s2) as [a2 s3].
  destruct b as [m ino|e|m ino]; [apply (Main _ eq_refl) | apply grow_pveq; exact H1 | apply (Main _ eq_refl)].
Qed.

Lemma gr_create c fid nm fl s :
  fid_bound s -> pbound s -> grow s (snd (do_create B bstep c fid nm fl s)).
Proof.
  intros Fb Ord. unfold do_create. apply grow_with_fid; auto. intros r s0 Hr _.
  destruct (dir_guard B s0 r); [apply grow_refl|]. cbv zeta.
  bc H1. destruct b as [m ino|e|m ino]; try (apply grow_pveq; exact H1).
  all: pose proof (pveq_sc _ _ (same_core_trans B _ _ _ (sc_take_handle B s1) (sc_path_node_for B (fr_node (gref s0 r)) nm (take_handle B s1)))) as H2;
    destruct (path_node_for B (fr_node (gref s0 r)) nm (take_handle B s1)) as [cn s2]; cbn [snd] in H2;
    pose proof (pveq_trans _ _ _ H1 H2) as H02;
    set (x := mkref (s_nexth B s0) 0 true fl MReg cn (Some r) None XNone);
    assert (G3 : grow s2 (snd (new_ref_inc B x s2))) by (apply grow_new_ref_inc; intros p [[= <-]|[=]]; destruct H02 as (L & _); lia);
    destruct (new_ref_inc B x s2) as [nr s3]; cbn [snd] in G3;
    pose proof (grow_trans _ _ _ (grow_pveq _ _ H02) (grow_trans _ _ _ G3 (grow_pveq _ _ (pveq_sc _ _ (sc_add_child B (fr_node (gref s0 r)) nr nm s3))))) as G4;
    destruct (s_panic B (add_child B (fr_node (gref s0 r)) nr nm s3)); cbn [snd]; [exact G4|];
    (eapply grow_trans; [exact G4|]); apply grow_pveq; (eapply pveq_trans; [apply pveq_insert | apply pveq_release]).
Qed.

Lemma gr_xattrwalk c fid newfid s :
  fid_bound s -> pbound s -> grow s (snd (do_xattrwalk B bstep c fid newfid s)).
Proof.
  intros Fb Ord. unfold do_xattrwalk. apply grow_with_fid; auto. intros r s0 Hr _.
  destruct (is_deleted B s0 r); [apply grow_refl|]. cbv zeta.
  bc H1. destruct b as [m ino|e|m ino]; try (apply grow_pveq; exact H1).
  all: match goal with |- context [new_ref_inc B ?x ?s1] =>
         assert (G3 : grow s1 (snd (new_ref_inc B x s1))) by (apply grow_new_ref_inc; intros p [[=]|[= <-]]; destruct H1 as (L & _); lia);
         destruct (new_ref_inc B x s1) as [nr s2] end; cbn [snd] in *;
       (eapply grow_trans; [apply grow_pveq; exact H1|]); (eapply grow_trans; [exact G3|]);
       apply grow_pveq; (eapply pveq_trans; [apply pveq_insert | apply pveq_release]).
Qed.

(** ---- histories ---- *)
Definition no_rename (o : op) : Prop :=
  match o with ORename _ _ _ _ | ORenameAt _ _ _ _ _ => False | _ => True end.

Lemma step_grow o s : no_rename o -> fid_bound s -> pbound s -> grow s (snd (step B bstep o s)).
Proof.
  intros NR Fb Ord. destruct o; cbn [step]; try contradiction.
  - apply gr_attach.
  - apply gr_walk_op; auto.
  - apply grow_pveq, pv_clunk.
  - apply grow_pveq, pv_remove.
  - apply grow_pveq, pv_open.
  - apply gr_create; auto.
  - apply grow_pveq, pv_mk.
  - apply grow_pveq, pv_link.
  - apply grow_pveq, pv_getattr.
  - apply grow_pveq, pv_use.
  - apply grow_pveq, pv_io.
  - apply grow_pveq, pv_setattr.
  - apply grow_pveq, pv_readdir.
  - apply grow_pveq, pv_readlink.
  - apply grow_pveq, pv_unlinkat.
  - apply gr_xattrwalk; auto.
  - apply grow_pveq, pv_xattrcreate.
  - unfold do_stop. cbn [snd]. apply grow_pveq, pv_stop_loop.
Qed.

Lemma fid_bound_inv s : RefInv B s -> fid_bound s.
Proof. intros I r Hr. apply (inv_live B s [] r I (C_fid B s r Hr)). Qed.

Lemma run_ordered ops : forall s, Forall no_rename ops -> RefInv B s -> ordered_all s -> ordered_all (snd (run B bstep ops s)).
Proof.
  induction ops as [|o ops IH]; intros s NR I Ord; cbn [run]; [exact Ord|].
  inversion NR as [|? ? N1 N2]; subst.
  pose proof (step_grow o s N1 (fid_bound_inv s I) (pbound_ordered s Ord)) as G.
  destruct (RefStep.step_ok B bstep o s [] I ltac:(intros x [])) as (I1 & _).
  destruct (step B bstep o s) as [rep s1]. cbn [snd] in *.
  specialize (IH s1 N2 I1 (ordered_grow _ _ G Ord)). destruct (run B bstep ops s1) as [reps s2]. exact IH.
Qed.

Theorem ordered_history ops (b : B) :
  Forall no_rename ops -> ordered_all (snd (run B bstep ops (init_state B b))).
Proof.
  intros NR. apply run_ordered; auto; [apply init_inv|]. intros r p Hr. cbn in Hr. lia.
Qed.

(** C05_disconnect for rename-free histories, no hypothesis on the backend *)
Theorem disconnect_rename_free ops (b : B) cs :
  Forall no_rename ops ->
  let s0 := snd (run B bstep ops (init_state B b)) in
  let s := snd (run B bstep (map OStop cs) s0) in
  (forall k, In k (fkeys B s0) -> In (fst k) cs) ->
  s_fids B s = [] /\
  (s_panic B s = false -> forall h, h < s_nexth B s -> close_count h (s_log B s) = 1).
Proof.
  intros NR. cbv zeta. intros Cover.
  destruct (disconnect_closes_all B bstep ops b cs Cover) as (E & H). split; [exact E|]. intros Hp. apply H; auto.
  rewrite <- run_app in *.
  assert (NR2 : Forall no_rename (ops ++ map OStop cs)).
  { apply Forall_app. split; [exact NR|]. apply Forall_forall. intros o Ho. apply in_map_iff in Ho. destruct Ho as (c & <- & _). exact I. }
  destruct (history_life B bstep (ops ++ map OStop cs) b) as (_ & K & _ & _).
  apply ordered_ranked; [exact K|]. intros r p Hr _ Hp'. exact (ordered_history _ b NR2 r p Hr Hp').
Qed.
End Ord.
