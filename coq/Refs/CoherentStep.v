(** Refs/CoherentStep.v — C08_coherent: the invariant [Good] through the
    handlers that do not change names (everything but unlink / remove / rename):
    the getattr-like requests, clunk, stop, open, and the requests that bind
    new fidRefs (attach, walk, clone, create, xattrwalk).  (pathB) *)
From Coq Require Import List Arith Bool ZArith Lia.
From P9V Require Import Refs.Model Refs.PathFS Refs.RefProofs Refs.RefStep Refs.FenceProofs
  Refs.CoherentTree Refs.CoherentDefs Refs.CoherentFs Refs.CoherentFrame.
Import ListNotations.

Notation hc := (hc pfs).
Notation heldall := (heldall pfs).
Notation ok := (ok pfs).
Notation led := (led pfs).

Definition gok (pre : list nat) (f : st -> st) : Prop :=
  forall s d g, RInvD s d -> heldall pre s -> Good s g -> Good (f s) g.

Lemma held_live (s : st) d r : RInvD s d -> 0 < hc s r -> r < rlen s /\ live s r.
Proof. intros I H. apply (inv_live pfs s d r I). pose proof (C_hc pfs s r). lia. Qed.

Lemma gok_shrink pre f : (forall s, shrink s (f s)) -> gok pre f.
Proof. intros H s d g _ _ G. eapply shrink_good; eauto. Qed.

Lemma with_fid_gok pre c fid body :
  (forall r, gok (r :: pre) (fun s => snd (body r s))) ->
  gok pre (fun s => snd (with_fid pfs pfs_step c fid body s)).
Proof.
  intros GB s d g Inv HP G. unfold with_fid, lookup_fid.
  destruct (alookup peqb (c, fid) (s_fids pfs s)) as [r|] eqn:E; [|cbn; auto].
  pose proof (C_fid pfs s r (alookup_in peqb peqb_spec _ _ _ E)) as Cr.
  destruct (hold_ok pfs s d r Inv Cr) as (I1 & L1).
  destruct (inv_live pfs s d r Inv Cr) as (_ & Lv).
  assert (HP1 : heldall (r :: pre) (hold pfs r s)).
  { intros x [<-|Hx].
    - eapply led_hc_pos; [exact L1 | rewrite cnt_cons, ind_same; lia | reflexivity].
    - eapply led_hc_pos; [exact L1 | specialize (HP x Hx); lia | reflexivity]. }
  assert (G1 : Good (hold pfs r s) g) by (eapply shrink_good; [apply sh_hold; exact Lv | exact G]).
  specialize (GB r (hold pfs r s) d g I1 HP1 G1).
  cbv beta in GB. destruct (body r (hold pfs r s)) as [rep s2] eqn:EB. cbn [snd] in *.
  eapply shrink_good; [apply sh_release | exact GB].
Qed.

Lemma sh_guarded_call r gd c (s : st) : quiet (s_nexth pfs s) c -> shrink s (snd (guarded_call pfs pfs_step r gd c s)).
Proof.
  intros Q. unfold guarded_call. destruct gd; [apply shrink_refl|].
  pose proof (sh_bcall c s Q) as H. destruct (bcall_ pfs pfs_step c s) as [a s1]. destruct a; exact H.
Qed.

(** a bracket whose body only shrinks *)
Lemma gok_bracket pre c fid body :
  (forall r s, shrink s (snd (body r s))) -> gok pre (fun s => snd (with_fid pfs pfs_step c fid body s)).
Proof. intros HS. apply with_fid_gok; auto. intros r. apply gok_shrink. apply HS. Qed.

Lemma ok_of_sc pre (f : st -> st) : (forall s, same_core pfs s (f s)) -> ok pre f.
Proof. apply ok_sc. Qed.

Ltac body_sc :=
  intros; apply ok_sc; intros;
  repeat match goal with
  | |- same_core _ _ (snd (let '(_, _) := ?x in _)) => destruct x eqn:?
  | |- same_core _ ?s (snd (guarded_call _ _ _ _ _ ?s)) => apply sc_guarded_call
  end.

Lemma gok_getattr c fid : gok [] (fun s => snd (do_getattr pfs pfs_step c fid s)).
Proof.
  apply gok_bracket.
  intros r s. apply sh_guarded_call. exact I.
Qed.

Lemma snd_let_pair {A B C} (x : A * B) (f : A -> C) : snd (let '(a, b) := x in (f a, b)) = snd x.
Proof. destruct x; reflexivity. Qed.

Lemma gok_use k c fid : gok [] (fun s => snd (do_use pfs pfs_step k c fid s)).
Proof.
  apply gok_bracket.
  intros r s. rewrite snd_let_pair. apply sh_guarded_call. exact I.
Qed.

Lemma gok_setattr c fid : gok [] (fun s => snd (do_setattr pfs pfs_step c fid s)).
Proof.
  apply gok_bracket.
  intros r s. rewrite snd_let_pair. apply sh_guarded_call. exact I.
Qed.

Lemma gok_mk k c fid nm : gok [] (fun s => snd (do_mk pfs pfs_step k c fid nm s)).
Proof.
  apply gok_bracket.
  intros r s. rewrite snd_let_pair. apply sh_guarded_call. exact I.
Qed.

Lemma gok_readdir c fid : gok [] (fun s => snd (do_readdir pfs pfs_step c fid s)).
Proof.
  apply gok_bracket.
  intros r s. cbv zeta. rewrite snd_let_pair. apply sh_guarded_call. exact I.
Qed.

Lemma gok_readlink c fid : gok [] (fun s => snd (do_readlink pfs pfs_step c fid s)).
Proof.
  apply gok_bracket.
  intros r s. apply shrink_refl.
Qed.

(** bodies that are both [same_core] (for serverB's count invariant) and [shrink] *)
Definition qstep (s s' : st) : Prop := same_core pfs s s' /\ shrink s s'.

Lemma qstep_refl s : qstep s s. Proof. split; [apply same_core_refl | apply shrink_refl]. Qed.
Lemma qstep_trans a b c : qstep a b -> qstep b c -> qstep a c.
Proof. intros (A1 & A2) (B1 & B2). split; [eapply same_core_trans; eauto | eapply shrink_trans; eauto]. Qed.

Lemma q_guarded_call r gd c (s : st) : quiet (s_nexth pfs s) c -> qstep s (snd (guarded_call pfs pfs_step r gd c s)).
Proof. intros Q. split; [apply (sc_guarded_call pfs pfs_step) | apply sh_guarded_call; auto]. Qed.

Lemma q_guarded_call' {A} r gd c (s : st) (f : reply -> A) : quiet (s_nexth pfs s) c ->
  qstep s (snd (let '(rep, s1) := guarded_call pfs pfs_step r gd c s in (f rep, s1))).
Proof. intros Q. rewrite snd_let_pair. apply q_guarded_call; auto. Qed.

Lemma q_bcall c (s : st) : quiet (s_nexth pfs s) c -> qstep s (snd (bcall_ pfs pfs_step c s)).
Proof. intros Q. split; [apply (sc_bcall pfs pfs_step) | apply sh_bcall; auto]. Qed.

Lemma q_set_panic (s : st) : qstep s (set_panic pfs s).
Proof. split; [apply sc_set_panic | apply sh_set_panic]. Qed.

Lemma gok_bracket_q pre c fid body :
  (forall r s, qstep s (snd (body r s))) -> gok pre (fun s => snd (with_fid pfs pfs_step c fid body s)).
Proof.
  intros H. apply gok_bracket.
  intros r s. apply H.
Qed.

Lemma gok_io k c fid : gok [] (fun s => snd (do_io pfs pfs_step k c fid s)).
Proof.
  apply gok_bracket_q. intros r s. cbv zeta.
  destruct (k =? uFsync); [apply q_guarded_call'; exact I|].
  destruct (k =? uRead); destruct (fr_xop (gref s r));
    try apply qstep_refl; try (apply q_guarded_call'; exact I); try (apply q_guarded_call; exact I).
Qed.

Lemma gok_link c dfid tfid nm : gok [] (fun s => snd (do_link pfs pfs_step c dfid tfid nm s)).
Proof.
  unfold do_link. apply with_fid_gok.
  intros r. apply gok_bracket_q. intros t s. apply q_guarded_call'. exact I.
Qed.

(** fields outside [core] *)
Lemma sh_set_ref_same r x (s : st) : core x = core (gref s r) -> fr_refs x = fr_refs (gref s r) -> shrink s (set_ref pfs r x s).
Proof. intros Cx Rx. apply sh_set_ref; auto. unfold live. rewrite Rx. auto. Qed.

Lemma gok_open c fid flags : gok [] (fun s => snd (do_open pfs pfs_step c fid flags s)).
Proof.
  unfold do_open. apply gok_bracket.
  intros r s. cbv zeta.
    destruct (is_deleted pfs s r); [apply shrink_refl|].
    destruct (_ || _); [apply shrink_refl|]. destruct (_ && _); [apply shrink_refl|].
    pose proof (sh_bcall (BOpen (fr_file (gref s r)) flags) s I) as SH.
    destruct (bcall_ pfs pfs_step (BOpen (fr_file (gref s r)) flags) s) as [a s1]. cbn [snd] in SH.
    destruct a; cbn [snd]; auto; (eapply shrink_trans; [exact SH|]); apply sh_set_ref_same; reflexivity.
Qed.

Lemma gok_xattrcreate c fid : gok [] (fun s => snd (do_xattrcreate pfs pfs_step c fid s)).
Proof.
  unfold do_xattrcreate. apply gok_bracket.
  intros r s. destruct (is_deleted pfs s r); cbn [snd]; [apply shrink_refl|]. apply sh_set_ref_same; reflexivity.
Qed.

Lemma gok_clunk c fid : gok [] (fun s => snd (do_clunk pfs pfs_step c fid s)).
Proof.
  intros s d g Inv HP G. unfold do_clunk.
  set (body := fun r s => match fr_xop (gref s r) with
                          | XCreate => guarded_call pfs pfs_step r None (BUse uSetXattr (fr_file (gref s r))) s
                          | _ => (rok 0, s) end).
  assert (W : gok [] (fun s => snd (with_fid pfs pfs_step c fid body s))).
  { apply gok_bracket_q. intros r s0. unfold body. destruct (fr_xop (gref s0 r)); try apply qstep_refl. apply q_guarded_call. exact I. }
  specialize (W s d g Inv HP G). cbv beta in W.
  destruct (with_fid pfs pfs_step c fid body s) as [cerr s1]. cbn [snd] in *.
  pose proof (sh_delete_fid c fid s1) as SD.
  destruct (delete_fid pfs pfs_step c fid s1) as [e s2]. cbn [snd] in *.
  assert (R : Good s2 g) by (eapply shrink_good; eauto).
  destruct e; [exact R|]. destruct (fst cerr =? 0); exact R.
Qed.

Lemma sh_stop_loop l c : forall s : st, shrink s (stop_loop pfs pfs_step l c s).
Proof.
  induction l as [|[[c' fid] r] l IH]; intros s; cbn [stop_loop]; [apply shrink_refl|].
  destruct (c' =? c); [|apply IH]. eapply shrink_trans; [apply sh_delete_fid | apply IH].
Qed.

Lemma gok_stop c : gok [] (fun s => snd (do_stop pfs pfs_step c s)).
Proof. apply gok_shrink. intros s. apply sh_stop_loop. Qed.

(** ---- a new fidRef ---- *)
Lemma good_new_ref x (s : st) g :
  Good s g ->
  fr_file x < s_nexth pfs s -> fr_node x < nlen s ->
  (forall p, fr_parent x = Some p -> fr_xattrOf x = None /\ tref s p /\ p < rlen s) ->
  (fr_parent x = None -> fr_xattrOf x = None -> fr_node x = 0) ->
  (forall p, fr_parent x = Some p -> pn_deleted (gnode s (fr_node x)) = false -> nonf s p) ->
  match fr_xattrOf x with
  | None => (forall q, q < rlen s -> tref s q -> fr_file (gref s q) <> fr_file x) /\
            (pn_deleted (gnode s (fr_node x)) = false ->
               node_at s (hpath (s_be pfs s) (fr_file x)) = Some (fr_node x) /\
               exists i, resolve (s_be pfs s) (hpath (s_be pfs s) (fr_file x)) = Some i)
  | Some o => o < rlen s /\ fr_file x = fr_file (gref s o) /\ fr_node x = fr_node (gref s o) /\ fr_parent x = None /\
              is_dir (fr_mode x) = false
  end ->
  Good (snd (new_ref pfs x s)) g.
Proof.
  intros G Hf Hn Hp Hroot Hpn Hx.
  destruct (new_ref_facts pfs x s) as (_ & L1 & Gn & Go & _). cbv zeta in *.
  set (s' := snd (new_ref pfs x s)) in *. fold (rlen s) in *. fold (rlen s') in L1.
  assert (BE : s_be pfs s' = s_be pfs s) by reflexivity.
  assert (ND : s_nodes pfs s' = s_nodes pfs s) by reflexivity.
  assert (NH : s_nexth pfs s' = s_nexth pfs s) by reflexivity.
  assert (GN : forall n, gnode s' n = gnode s n) by reflexivity.
  assert (NA : forall p, node_at s' p = node_at s p) by reflexivity.
  assert (OLD : forall q, q < rlen s -> (live s' q <-> live s q) /\ (tref s' q <-> tref s q) /\ (nonf s' q <-> nonf s q) /\ fpath s' q = fpath s q).
  { intros q Hq. unfold live, tref, nonf, is_deleted, fpath. rewrite BE. rewrite (Go q Hq). change (get_node pfs s') with (gnode s'). tauto. }
  assert (CASE : forall r, r < rlen s' -> r < rlen s \/ r = rlen s) by (intros; lia).
  constructor.
  - rewrite BE. apply G.
  - destruct (G_nt _ _ G) as [U R Bd Ps]. constructor; auto.
  - intros r Hr Lv T N. destruct (CASE r Hr) as [Ho | ->].
    + destruct (OLD r Ho) as (A1 & A2 & A3 & A4). rewrite A4, NA, (Go r Ho). apply (G_node _ _ G); tauto.
    + unfold tref in T. rewrite Gn in T. cbn in T. rewrite T in Hx. destruct Hx as (_ & Hx).
      unfold nonf, is_deleted in N. rewrite Gn in N. cbn in N. destruct (Hx N) as (Hx1 & _).
      unfold fpath. rewrite Gn, BE. cbn. rewrite NA. exact Hx1.
  - intros r Hr Lv T N. destruct (CASE r Hr) as [Ho | ->].
    + destruct (OLD r Ho) as (A1 & A2 & A3 & A4). rewrite A4, BE. apply (G_obj _ _ G); tauto.
    + unfold tref in T. rewrite Gn in T. cbn in T. rewrite T in Hx. destruct Hx as (_ & Hx).
      unfold nonf, is_deleted in N. rewrite Gn in N. cbn in N. destruct (Hx N) as (_ & i & Hi).
      exists i. unfold fpath. rewrite Gn, BE. cbn. split; auto. intros HL. pose proof (G_len _ _ G). lia.
  - intros r o Hr E. destruct (CASE r Hr) as [Ho | ->].
    + rewrite (Go r Ho) in E |- *. destruct (G_xattr _ _ G r o Ho E) as (A1 & A2 & A3 & A4 & A5).
      rewrite (Go o) by lia. repeat split; auto. intros Lv N. destruct (OLD r Ho) as (B1 & _ & B3 & _). apply A5; tauto.
    + rewrite Gn in E |- *. cbn [fr_xattrOf fr_file fr_node fr_parent fr_with_refs] in E |- *. rewrite E in Hx. destruct Hx as (A1 & A2 & A3 & A4 & _).
      rewrite (Go o A1). repeat split; auto. intros _ _ HL. pose proof (G_len _ _ G). lia.
  - intros r Hr. rewrite NH. destruct (CASE r Hr) as [Ho | ->]; [rewrite (Go r Ho); apply (G_file _ _ G); auto | rewrite Gn; exact Hf].
  - intros r r' Hr Hr' T T' E.
    destruct (CASE r Hr) as [Ho | ->]; destruct (CASE r' Hr') as [Ho' | ->]; auto.
    + rewrite (Go r Ho), (Go r' Ho') in E. destruct (OLD r Ho) as (_ & B & _). destruct (OLD r' Ho') as (_ & B' & _).
      apply (G_file_inj _ _ G); tauto.
    + exfalso. unfold tref in T'. rewrite Gn in T'. cbn in T'. rewrite T' in Hx. destruct Hx as (Hx & _).
      rewrite (Go r Ho), Gn in E. cbn in E. destruct (OLD r Ho) as (_ & B & _). apply (Hx r Ho); tauto.
    + exfalso. unfold tref in T. rewrite Gn in T. cbn in T. rewrite T in Hx. destruct Hx as (Hx & _).
      rewrite (Go r' Ho'), Gn in E. cbn in E. destruct (OLD r' Ho') as (_ & B & _). apply (Hx r' Ho'); [tauto | auto].
  - intros r p Hr E. destruct (CASE r Hr) as [Ho | ->].
    + rewrite (Go r Ho) in E. destruct (G_parent _ _ G r p Ho E) as (A1 & A2 & A3).
      destruct (OLD r Ho) as (_ & B & _). destruct (OLD p A3) as (_ & B' & _). repeat split; try tauto. lia.
    + rewrite Gn in E. cbn in E. destruct (Hp p E) as (A1 & A2 & A3). destruct (OLD p A3) as (_ & B' & _).
      repeat split; try tauto; [|lia]. unfold tref. rewrite Gn. exact A1.
  - intros r Hr. change (nlen s') with (nlen s). destruct (CASE r Hr) as [Ho | ->]; [rewrite (Go r Ho); apply (G_nbound _ _ G); auto | rewrite Gn; exact Hn].
  - intros r o Hr E. destruct (CASE r Hr) as [Ho | ->].
    + rewrite (Go r Ho) in E |- *. eapply (G_xmode _ _ G); eauto.
    + rewrite Gn in E |- *. cbn [fr_xattrOf fr_mode fr_with_refs] in E |- *. rewrite E in Hx. apply Hx.
  - intros r Hr Ep T. destruct (CASE r Hr) as [Ho | ->].
    + rewrite (Go r Ho) in Ep |- *. destruct (OLD r Ho) as (_ & B & _). apply (G_root _ _ G); tauto.
    + unfold tref in T. rewrite Gn in Ep, T |- *. cbn [fr_xattrOf fr_parent fr_node fr_with_refs] in *. auto.
  - intros r p Hr Lv N E. destruct (CASE r Hr) as [Ho | ->].
    + rewrite (Go r Ho) in E. destruct (OLD r Ho) as (B1 & _ & B3 & _). destruct (G_parent _ _ G r p Ho E) as (_ & _ & Lp).
      destruct (OLD p Lp) as (_ & _ & B3' & _). apply B3'. apply (G_pnonf _ _ G r p Ho); tauto.
    + rewrite Gn in E. cbn [fr_parent fr_with_refs] in E. destruct (Hp p E) as (_ & _ & Lp). destruct (OLD p Lp) as (_ & _ & B3' & _).
      apply B3'. apply (Hpn p E). unfold nonf, is_deleted in N. rewrite Gn in N. exact N.
  - intros n. rewrite GN. apply (G_keys _ _ G).
  - pose proof (G_len _ _ G). lia.
Qed.

(** ---- pathNodeFor: an existing child, or a fresh leaf ---- *)
Lemma gnode_app_empty (s : st) m : gnode (with_nodes pfs (s_nodes pfs s ++ [empty_node]) s) m = gnode s m.
Proof.
  unfold get_node. cbn [s_nodes with_nodes].
  destruct (Nat.lt_ge_cases m (length (s_nodes pfs s))) as [L|L]; [apply app_nth1; auto|].
  rewrite (nth_overflow (s_nodes pfs s)) by auto. rewrite app_nth2 by auto.
  destruct (m - length (s_nodes pfs s)) as [|[|k]]; reflexivity.
Qed.

Lemma pnf_spec n nm (s : st) : n < nlen s -> NT s ->
  let c := fst (path_node_for pfs n nm s) in
  let s' := snd (path_node_for pfs n nm s) in
  qstep s s' /\ nch s' n nm = Some c /\ c < nlen s' /\ NT s' /\ s_nexth pfs s' = s_nexth pfs s /\ s_be pfs s' = s_be pfs s /\
  s_refs pfs s' = s_refs pfs s /\ (pn_deleted (gnode s n) = false -> nch s n nm = None -> pn_deleted (gnode s' c) = false) /\
  (forall a y c', nch s a y = Some c' -> nch s' a y = Some c').
Proof.
  intros Hn NTs. unfold path_node_for. fold (gnode s n).
  destruct (alookup Nat.eqb nm (pn_nodes (gnode s n))) as [c|] eqn:E; cbn [fst snd].
  - split; [apply qstep_refl|]. split; [exact E|]. split; [eapply (N_bound _ NTs); exact E|]. split; [exact NTs|].
    split; [reflexivity|]. split; [reflexivity|]. split; [reflexivity|]. split; [|auto].
    intros _ HX. unfold nch in HX. rewrite E in HX. discriminate.
  - set (c := length (s_nodes pfs s)). set (s0 := with_nodes pfs (s_nodes pfs s ++ [empty_node]) s).
    set (X := pn_with_nodes (gnode s n) (aset Nat.eqb nm c (pn_nodes (gnode s n)))).
    set (s' := set_node pfs n X s0).
    assert (L0 : nlen s0 = S (nlen s)). { unfold nlen, s0. cbn. rewrite app_length. cbn. lia. }
    assert (L' : nlen s' = S (nlen s)). { unfold nlen, s', set_node. cbn [s_nodes with_nodes]. rewrite upd_length. exact L0. }
    assert (GN : forall m, gnode s' m = if m =? n then X else gnode s m).
    { intros m. unfold s'. rewrite gnode_set_node. unfold s0 at 2. rewrite gnode_app_empty.
      destruct (Nat.eqb_spec m n); cbn [andb]; auto. destruct (Nat.ltb_spec n (nlen s0)); auto. lia. }
    assert (CH : forall m x, nch s' m x = if peqb (m, x) (n, nm) then Some c else nch s m x).
    { intros m x. unfold nch. rewrite GN. destruct (Nat.eqb_spec m n) as [->|N].
      - unfold X. cbn [pn_nodes pn_with_nodes]. rewrite (alookup_aset Nat.eqb Nat.eqb_spec). unfold peqb. cbn. rewrite Nat.eqb_refl. reflexivity.
      - unfold peqb. cbn. destruct (Nat.eqb_spec m n); [congruence | reflexivity]. }
    assert (Hadd : forall m x, (m, x) <> (n, nm) -> nch s' m x = nch s m x) by (intros; rewrite CH, peqb_false; auto).
    assert (Hnew : nch s' n nm = Some c) by (rewrite CH, peqb_true; auto).
    assert (Hnone : nch s n nm = None) by exact E.
    assert (Hfresh : forall m x, nch s m x <> Some c). { intros m x H. apply (N_bound _ NTs) in H. unfold c, nlen in *. lia. }
    assert (Hroot : c <> 0). { pose proof (N_pos _ NTs). unfold c, nlen in *. lia. }
    assert (NT' : NT s').
    { constructor.
      - eapply add_uparent; eauto. apply NTs.
      - eapply (add_noroot (nch s) (nch s') 0 (N_noroot _ NTs) n nm c); eauto.
      - intros m x c1. rewrite CH, L'. destruct (peqb (m, x) (n, nm)); [intros [= <-]; unfold c, nlen; lia|].
        intros H. apply (N_bound _ NTs) in H. lia.
      - lia. }
    assert (DEL : forall m, pn_deleted (gnode s' m) = pn_deleted (gnode s m)).
    { intros m. rewrite GN. destruct (Nat.eqb_spec m n) as [->|]; reflexivity. }
    split; [split|].
    + repeat split; auto.
    + constructor; try reflexivity; auto.
      * intros _. split; auto. intros p m. unfold node_at. apply walk_ext. eapply add_ext; eauto.
      * lia.
      * intros K m. rewrite GN. destruct (m =? n); [|apply K]. unfold X. apply pkeys_with_nodes; [apply K|].
        apply (gaset_nodup Nat.eqb Nat.eqb_spec). apply K.
    + split; [exact Hnew|]. split; [unfold c, nlen in *; lia|]. split; [exact NT'|].
      split; [reflexivity|]. split; [reflexivity|]. split; [reflexivity|]. split; [|eapply add_ext; eauto].
      intros _ _. rewrite DEL. unfold get_node. rewrite nth_overflow by (unfold c; lia). reflexivity.
Qed.

(** ---- walkOne ---- *)
Definition onm (nm : option nat) : list nat := match nm with Some x => [x] | None => [] end.

(** what the backend did when a Walk / WalkGetAttr was not refused *)
Lemma walk_to_bound fs h nm nh :
  let r := walk_to fs h nm nh in
  (exists e, snd r = AErr e) \/
  (hpath (fst r) nh = hpath fs h ++ onm nm /\ p_entries (fst r) = p_entries fs /\
   (nm <> None -> exists i, resolve fs (hpath fs h ++ onm nm) = Some i)).
Proof.
  unfold walk_to. fold (hpath fs h). destruct nm as [x|]; cbn [onm].
  - destruct (resolve fs (hpath fs h ++ [x])) as [i|] eqn:R; cbn [fst snd]; [right | left; eauto].
    rewrite hpath_bind, Nat.eqb_refl. cbn. repeat split; eauto.
  - right. cbn [fst snd]. rewrite hpath_bind, Nat.eqb_refl. cbn. rewrite app_nil_r. repeat split; auto. congruence.
Qed.

Definition is_walk (c : bcall) (h : nat) (nm : option nat) (nh : nat) : Prop :=
  c = BWalk h nm nh \/ c = BWalkGetAttr h nm nh.

Lemma pfs_do_walk fs c h nm nh : is_walk c h nm nh ->
  let r := pfs_do fs c in
  (exists e, snd r = AErr e) \/
  (hpath (fst r) nh = hpath fs h ++ onm nm /\ p_entries (fst r) = p_entries fs /\
   (nm <> None -> exists i, resolve fs (hpath fs h ++ onm nm) = Some i)).
Proof.
  intros [-> | ->]; cbn [pfs_do]; [apply walk_to_bound|].
  destruct (negb (p_wga fs)); [left; cbn; eauto|]. destruct nm as [x|]; [apply walk_to_bound|].
  fold (hpath fs h). destruct (resolve fs (hpath fs h)); cbn [fst snd]; [right | left; eauto].
  rewrite hpath_bind, Nat.eqb_refl. cbn. rewrite app_nil_r. repeat split; auto. congruence.
Qed.


Lemma pfs_step_walk fs c h nm nh : is_walk c h nm nh -> h <> nh ->
  let r := pfs_step fs c in
  (exists e, snd r = AErr e) \/
  (hpath (fst r) nh = hpath fs h ++ onm nm /\
   (nm <> None -> exists i, resolve (fst r) (hpath (fst r) nh) = Some i)).
Proof.
  intros W Hne. cbv zeta.
  assert (HB : hpath (bump fs) h = hpath fs h) by reflexivity.
  assert (K : forall r, r = pfs_do (bump fs) c ->
             (exists e, snd r = AErr e) \/
             (hpath (fst r) nh = hpath fs h ++ onm nm /\ (nm <> None -> exists i, resolve (fst r) (hpath (fst r) nh) = Some i))).
  { intros r ->. destruct (pfs_do_walk (bump fs) c h nm nh W) as [X | (A1 & A2 & A3)]; [left; exact X | right].
    rewrite HB in *. split; auto. intros N. destruct (A3 N) as (i & Hi). exists i. rewrite A1.
    rewrite (entries_resolve (bump fs) _ _ A2). exact Hi. }
  unfold pfs_step. destruct (alookup Nat.eqb (p_calls fs) (p_inject fs)) as [e|].
  - destruct W as [-> | ->].
    + destruct (e =? injBadQ); [|left; cbn; eauto].
      specialize (K _ eq_refl). destruct (pfs_do (bump fs) (BWalk h nm nh)) as [fs1 [m i|e1|m i]]; cbn [fst snd] in *; auto.
      destruct K as [(e1 & X)|K]; [discriminate | right; exact K].
    + destruct (e =? injBadQ); [|left; cbn; eauto].
      specialize (K _ eq_refl). destruct (pfs_do (bump fs) (BWalkGetAttr h nm nh)) as [fs1 [m i|e1|m i]]; cbn [fst snd] in *; auto.
      destruct K as [(e1 & X)|K]; [discriminate | right; exact K].
  - destruct W as [-> | ->]; apply K; reflexivity.
Qed.

Definition w_finish (nm : option nat) (nh : nat) (m : fmode) (ino : nat) (bad : bool) (s : st) : wres * st :=
  match nm with
  | Some _ => if bad then let '(_, s') := bcall_ pfs pfs_step (BClose nh) s in (WFail EINVAL, s') else (WOk nh m ino, s)
  | None => (WOk nh m ino, s)
  end.

Definition w_plain (from_h from_node : nat) (nm : option nat) (getattr : bool) (nh : nat) (s : st) : wres * st :=
  let '(a, s1) := bcall_ pfs pfs_step (BWalk from_h nm nh) s in
  match a with
  | AErr e => (WFail e, s1)
  | AOk m ino | ABadQ m ino =>
      let bad := match a with ABadQ _ _ => true | _ => false end in
      let s2 := take_handle pfs s1 in
      if getattr then
        let s3 := match nm with Some x => snd (path_node_for pfs from_node x s2) | None => s2 end in
        let '(a2, s4) := bcall_ pfs pfs_step (BGetAttr nh) s3 in
        match a2 with
        | AErr e => let '(_, s5) := bcall_ pfs pfs_step (BClose nh) s4 in (WFail e, s5)
        | AOk m2 i2 | ABadQ m2 i2 => w_finish nm nh m2 i2 bad s4
        end
      else w_finish nm nh m ino bad s2
  end.

Lemma walk_one_eq from_h from_node nm getattr (s : st) :
  walk_one pfs pfs_step from_h from_node nm getattr s =
  if getattr then
    let '(a, s1) := bcall_ pfs pfs_step (BWalkGetAttr from_h nm (s_nexth pfs s)) s in
    match a with
    | AErr e => if e =? ENOSYS then w_plain from_h from_node nm getattr (s_nexth pfs s) s1 else (WFail e, s1)
    | AOk m ino => w_finish nm (s_nexth pfs s) m ino false (take_handle pfs s1)
    | ABadQ m ino => w_finish nm (s_nexth pfs s) m ino true (take_handle pfs s1)
    end
  else w_plain from_h from_node nm getattr (s_nexth pfs s) s.
Proof. reflexivity. Qed.

(** after walkOne: only extensions; on success the new File (handle = the old [s_nexth]) holds the path of
    the File walked from, plus the name, and that path resolves *)
Definition wpost (s : st) (from_h : nat) (nm : option nat) (w : wres) (s1 : st) : Prop :=
  qstep s s1 /\ NT s1 /\
  forall h m i, w = WOk h m i ->
    h = s_nexth pfs s /\ s_nexth pfs s1 = S h /\
    hpath (s_be pfs s1) h = hpath (s_be pfs s) from_h ++ onm nm /\
    (nm <> None -> FsInv (s_be pfs s) -> exists i', resolve (s_be pfs s1) (hpath (s_be pfs s1) h) = Some i').

Lemma q_take_handle (s : st) : qstep s (take_handle pfs s).
Proof. split; [apply sc_take_handle | apply sh_take_handle]. Qed.

Lemma NT_shrink s s' : shrink s s' -> NT s -> NT s'.
Proof. intros X N. apply (S_nt _ _ X N). Qed.

Lemma keep_bound (sa sb : st) nh P :
  shrink sa sb -> nh < s_nexth pfs sa -> hpath (s_be pfs sa) nh = P ->
  hpath (s_be pfs sb) nh = P /\
  (FsInv (s_be pfs sa) -> (exists i, resolve (s_be pfs sa) P = Some i) -> exists i, resolve (s_be pfs sb) P = Some i).
Proof.
  intros X Hn HP. split; [rewrite (S_paths _ _ X) by auto; exact HP|].
  intros F (i & Hi). destruct (S_fs _ _ X F) as (_ & W). exists i. auto.
Qed.

(** the state right after the handle was taken *)
Definition bound_at (s0 : st) (from_h : nat) (nm : option nat) (sa : st) : Prop :=
  qstep s0 sa /\ NT sa /\ s_nexth pfs sa = S (s_nexth pfs s0) /\
  hpath (s_be pfs sa) (s_nexth pfs s0) = hpath (s_be pfs s0) from_h ++ onm nm /\
  (nm <> None -> FsInv (s_be pfs s0) -> exists i', resolve (s_be pfs sa) (hpath (s_be pfs s0) from_h ++ onm nm) = Some i').

Lemma bound_step s0 from_h nm sa sb : bound_at s0 from_h nm sa -> qstep sa sb -> s_nexth pfs sb = s_nexth pfs sa -> bound_at s0 from_h nm sb.
Proof.
  intros (Q & N & H & P & R) Q' H'. destruct Q' as (SC' & SH').
  destruct (keep_bound sa sb (s_nexth pfs s0) _ SH' ltac:(lia) P) as (P' & R').
  split; [eapply qstep_trans; [exact Q | split; auto]|]. split; [eapply NT_shrink; eauto|]. split; [lia|]. split; [exact P'|].
  intros Hnm F. apply R'; auto. destruct Q as (_ & SH). apply (S_fs _ _ SH F).
Qed.

Lemma bound_wpost s0 from_h nm sa m i : bound_at s0 from_h nm sa -> wpost s0 from_h nm (WOk (s_nexth pfs s0) m i) sa.
Proof.
  intros (Q & N & H & P & R). split; auto. split; auto. intros h m' i' [= <- _ _]. repeat split; auto.
  intros Hnm F. rewrite P. auto.
Qed.

Lemma fail_wpost s0 from_h nm sa e : qstep s0 sa -> NT sa -> wpost s0 from_h nm (WFail e) sa.
Proof. intros Q N. split; auto. split; auto. intros h m i [=]. Qed.

Lemma finish_wpost s0 from_h nm m ino bad sa :
  bound_at s0 from_h nm sa ->
  let r := w_finish nm (s_nexth pfs s0) m ino bad sa in wpost s0 from_h nm (fst r) (snd r).
Proof.
  intros Bd. unfold w_finish. destruct nm as [x|]; [|apply bound_wpost; exact Bd].
  destruct bad; [|apply bound_wpost; exact Bd].
  pose proof (q_bcall (BClose (s_nexth pfs s0)) sa I) as Q.
  destruct (bcall_ pfs pfs_step (BClose (s_nexth pfs s0)) sa) as [a s']. cbn [fst snd] in *.
  destruct Bd as (Q0 & N & _). apply fail_wpost; [eapply qstep_trans; eauto | eapply NT_shrink; [apply Q | exact N]].
Qed.

Lemma wpost_pre s0 sA from_h nm w s1 :
  qstep s0 sA -> s_nexth pfs sA = s_nexth pfs s0 -> from_h < s_nexth pfs s0 ->
  wpost sA from_h nm w s1 -> wpost s0 from_h nm w s1.
Proof.
  intros Q H Hf (Q1 & N1 & W). split; [eapply qstep_trans; eauto|]. split; auto.
  intros h m i E. destruct (W h m i E) as (A1 & A2 & A3 & A4). destruct Q as (_ & SH).
  rewrite (S_paths _ _ SH) in A3 by auto. rewrite H in A1. repeat split; auto.
  intros Hnm F. apply A4; auto. apply (S_fs _ _ SH F).
Qed.

Lemma walk_call_bound (s0 : st) c from_h nm :
  is_walk c from_h nm (s_nexth pfs s0) -> from_h < s_nexth pfs s0 -> NT s0 ->
  let r := bcall_ pfs pfs_step c s0 in
  qstep s0 (snd r) /\ NT (snd r) /\ s_nexth pfs (snd r) = s_nexth pfs s0 /\
  ((exists e, fst r = AErr e) \/ bound_at s0 from_h nm (take_handle pfs (snd r))).
Proof.
  intros W Hf N. cbv zeta.
  assert (Qc : quiet (s_nexth pfs s0) c) by (destruct W as [-> | ->]; cbn; lia).
  pose proof (q_bcall c s0 Qc) as Q. destruct (bcall_be c s0) as (E1 & E2 & E3 & E4 & E5 & _).
  split; [exact Q|]. split; [eapply NT_shrink; [apply Q | exact N]|]. split; [exact E5|].
  destruct (pfs_step_walk (s_be pfs s0) c from_h nm (s_nexth pfs s0) W ltac:(lia)) as [(e & X) | (A1 & A2)].
  - left. exists e. rewrite E2. exact X.
  - right. rewrite <- E1 in A1, A2.
    split; [eapply qstep_trans; [exact Q | apply q_take_handle]|].
    split; [eapply NT_shrink; [apply sh_take_handle | eapply NT_shrink; [apply Q | exact N]]|].
    split; [cbn; rewrite E5; reflexivity|]. split; [exact A1|].
    intros Hnm _. destruct (A2 Hnm) as (i & Hi). exists i. cbn [s_be take_handle with_nexth]. rewrite <- A1. exact Hi.
Qed.

Lemma plain_wpost from_h from_node nm getattr (s : st) :
  from_h < s_nexth pfs s -> from_node < nlen s -> NT s ->
  let r := w_plain from_h from_node nm getattr (s_nexth pfs s) s in wpost s from_h nm (fst r) (snd r).
Proof.
  intros Hf Hn N. unfold w_plain.
  destruct (walk_call_bound s (BWalk from_h nm (s_nexth pfs s)) from_h nm (or_introl eq_refl) Hf N) as (Q1 & N1 & H1 & K).
  destruct (bcall_ pfs pfs_step (BWalk from_h nm (s_nexth pfs s)) s) as [a s1]. cbn [fst snd] in *.
  assert (Main : forall m ino bad, bound_at s from_h nm (take_handle pfs s1) ->
    let r := (if getattr then
        let s3 := match nm with Some x => snd (path_node_for pfs from_node x (take_handle pfs s1)) | None => take_handle pfs s1 end in
        let '(a2, s4) := bcall_ pfs pfs_step (BGetAttr (s_nexth pfs s)) s3 in
        match a2 with
        | AErr e => let '(_, s5) := bcall_ pfs pfs_step (BClose (s_nexth pfs s)) s4 in (WFail e, s5)
        | AOk m2 i2 | ABadQ m2 i2 => w_finish nm (s_nexth pfs s) m2 i2 bad s4
        end
      else w_finish nm (s_nexth pfs s) m ino bad (take_handle pfs s1)) in
    wpost s from_h nm (fst r) (snd r)).
  { intros m ino bad Bd. destruct getattr; [|apply finish_wpost; exact Bd]. cbv zeta.
    set (s2 := take_handle pfs s1) in *.
    assert (B3 : bound_at s from_h nm (match nm with Some x => snd (path_node_for pfs from_node x s2) | None => s2 end)).
    { destruct nm as [x|]; [|exact Bd].
      assert (Hn2 : from_node < nlen s2). { destruct Bd as ((_ & SH) & _). pose proof (S_nlen _ _ SH). lia. }
      destruct (pnf_spec from_node x s2 Hn2 ltac:(apply Bd)) as (Q & _ & _ & _ & H & _).
      eapply bound_step; eauto. }
    set (s3 := match nm with Some x => _ | None => s2 end) in *.
    pose proof (q_bcall (BGetAttr (s_nexth pfs s)) s3 I) as Q4.
    destruct (bcall_be (BGetAttr (s_nexth pfs s)) s3) as (_ & _ & _ & _ & H4 & _).
    destruct (bcall_ pfs pfs_step (BGetAttr (s_nexth pfs s)) s3) as [a2 s4]. cbn [fst snd] in *.
    assert (B4 : bound_at s from_h nm s4) by (eapply bound_step; eauto).
    destruct a2 as [m2 i2|e|m2 i2]; try (apply finish_wpost; exact B4).
    pose proof (q_bcall (BClose (s_nexth pfs s)) s4 I) as Q5.
    destruct (bcall_ pfs pfs_step (BClose (s_nexth pfs s)) s4) as [a5 s5]. cbn [fst snd] in *.
    destruct B4 as (Q0 & N4 & _). apply fail_wpost; [eapply qstep_trans; eauto | eapply NT_shrink; [apply Q5 | exact N4]]. }
  destruct a as [m ino|e|m ino].
  - destruct K as [(e & X)|K]; [discriminate|]. apply Main; exact K.
  - apply fail_wpost; auto.
  - destruct K as [(e & X)|K]; [discriminate|]. apply Main; exact K.
Qed.

Lemma walk_one_wpost from_h from_node nm getattr (s : st) :
  from_h < s_nexth pfs s -> from_node < nlen s -> NT s ->
  let r := walk_one pfs pfs_step from_h from_node nm getattr s in wpost s from_h nm (fst r) (snd r).
Proof.
  intros Hf Hn N. rewrite walk_one_eq. destruct getattr; [|apply plain_wpost; auto].
  destruct (walk_call_bound s (BWalkGetAttr from_h nm (s_nexth pfs s)) from_h nm (or_intror eq_refl) Hf N) as (Q1 & N1 & H1 & K).
  destruct (bcall_ pfs pfs_step (BWalkGetAttr from_h nm (s_nexth pfs s)) s) as [a s1]. cbn [fst snd] in *.
  destruct a as [m ino|e|m ino].
  - destruct K as [(e & X)|K]; [discriminate|]. apply finish_wpost; exact K.
  - destruct (e =? ENOSYS); [|apply fail_wpost; auto].
    eapply wpost_pre; [exact Q1 | exact H1 | exact Hf |]. rewrite <- H1.
    apply plain_wpost; auto; [lia|]. destruct Q1 as (_ & SH). pose proof (S_nlen _ _ SH). lia.
  - destruct K as [(e & X)|K]; [discriminate|]. apply finish_wpost; exact K.
Qed.

(** ---- doWalk ---- *)
Lemma gref_sc' (s s' : st) q : same_core pfs s s' -> gref s' q = gref s q.
Proof. intros (_ & _ & R & _). unfold get_ref. rewrite R. reflexivity. Qed.

Lemma rlen_sc (s s' : st) : same_core pfs s s' -> rlen s' = rlen s.
Proof. intros (_ & _ & R & _). unfold rlen. rewrite R. reflexivity. Qed.

Lemma nonf_node_at (s : st) g r : Good s g -> r < rlen s -> live s r -> tref s r -> nonf s r ->
  node_at s (fpath s r) = Some (fr_node (gref s r)).
Proof. intros G. apply (G_node _ _ G). Qed.

Lemma walk_steps_good names : forall wr (s : st) d g,
  RInvD s d -> 0 < hc s wr -> Good s g -> Good (snd (walk_steps pfs pfs_step wr names s)) g.
Proof.
  induction names as [|nm rest IH]; intros wr s d g Inv Hw G; [exact G|].
  cbn [walk_steps]. cbv zeta.
  destruct (held_live s d wr Inv Hw) as (Lw & Lvw).
  destruct (is_dir (fr_mode (gref s wr))) eqn:Dw; cbn [negb]; [|cbn [snd]; eapply shrink_good; [apply sh_release | exact G]].
  destruct (is_deleted pfs s wr) eqn:Nw; [cbn [snd]; eapply shrink_good; [apply sh_release | exact G]|].
  assert (Tw : tref s wr).
  { unfold tref. destruct (fr_xattrOf (gref s wr)) as [o|] eqn:EX; auto.
    rewrite (G_xmode _ _ G wr o Lw EX) in Dw. discriminate. }
  pose proof (sc_walk_one pfs pfs_step (fr_file (gref s wr)) (fr_node (gref s wr)) (Some nm) true s) as SC1.
  pose proof (walk_one_wpost (fr_file (gref s wr)) (fr_node (gref s wr)) (Some nm) true s
                (G_file _ _ G wr Lw) (G_nbound _ _ G wr Lw) (G_nt _ _ G)) as WP. cbv zeta in WP.
  destruct (walk_one pfs pfs_step (fr_file (gref s wr)) (fr_node (gref s wr)) (Some nm) true s) as [w s1]. cbn [fst snd] in *.
  destruct WP as ((_ & SH1) & N1 & WP).
  destruct (sc_ok pfs s s1 d SC1 Inv) as (I1 & L1).
  assert (Hw1 : 0 < hc s1 wr) by (eapply led_hc_pos; [exact L1 | lia | reflexivity]).
  assert (G1 : Good s1 g) by (eapply shrink_good; eauto).
  destruct w as [e|h m ino]; [cbn [snd]; eapply shrink_good; [apply sh_release | exact G1]|].
  destruct (WP h m ino eq_refl) as (Eh & H1 & P1 & R1).
  assert (Hn1 : fr_node (gref s wr) < nlen s1). { pose proof (G_nbound _ _ G wr Lw). pose proof (S_nlen _ _ SH1). lia. }
  pose proof (sc_path_node_for pfs (fr_node (gref s wr)) nm s1) as SC2.
  destruct (pnf_spec (fr_node (gref s wr)) nm s1 Hn1 N1) as ((_ & SH2) & C2 & B2 & N2 & H2 & E2 & R2 & D2).
  destruct (path_node_for pfs (fr_node (gref s wr)) nm s1) as [cn s2]. cbn [fst snd] in *.
  destruct (sc_ok pfs s1 s2 d SC2 I1) as (I2 & L2).
  assert (Hw2 : 0 < hc s2 wr) by (eapply led_hc_pos; [exact L2 | lia | reflexivity]).
  assert (G2 : Good s2 g) by (eapply shrink_good; eauto).
  set (x := mkref h 0 false 0 m cn (Some wr) None XNone).
  destruct (new_ref_handover_ok pfs s2 d wr x I2 Hw2 eq_refl eq_refl) as (E4 & I4 & L4).
  assert (Hn : 0 < hc (snd (new_ref_handover pfs wr x s2)) (fst (new_ref_handover pfs wr x s2))).
  { unfold RefStep.hc, new_ref_handover, new_ref; cbn. rewrite cnt_cons, ind_same. lia. }
  assert (SH02 : shrink s s2) by (eapply shrink_trans; eauto).
  assert (GR2 : forall q, gref s2 q = gref s q).
  { intros q. rewrite (gref_sc' s1 s2 q SC2). apply gref_sc'. exact SC1. }
  assert (RL2 : rlen s2 = rlen s) by (rewrite (rlen_sc s1 s2 SC2); apply rlen_sc; exact SC1).
  assert (G4 : Good (snd (new_ref_handover pfs wr x s2)) g).
  { unfold new_ref_handover. set (s2' := with_held pfs (remove_one wr (s_held pfs s2)) s2).
    assert (G2' : Good s2' g) by (eapply shrink_good; [apply sh_with_held | exact G2]).
    apply good_new_ref; [exact G2' | | | | intros [=] | |].
    - cbn. change (s_nexth pfs s2') with (s_nexth pfs s2). lia.
    - cbn. exact B2.
    - intros p [= <-]. split; [reflexivity|]. change (rlen s2') with (rlen s2). rewrite RL2. split; auto.
      unfold tref. change (gref s2' wr) with (gref s2 wr). rewrite GR2. exact Tw.
    - intros p [= <-] _. unfold nonf, is_deleted. change (gref s2' wr) with (gref s2 wr). change (get_node pfs s2') with (gnode s2).
      rewrite GR2, (S_del _ _ SH02). exact Nw.
    - cbn [fr_xattrOf x]. split.
      + intros q Hq Tq. change (gref s2' q) with (gref s2 q). rewrite GR2. cbn [fr_file x].
        change (rlen s2') with (rlen s2) in Hq. rewrite RL2 in Hq. pose proof (G_file _ _ G q Hq). lia.
      + cbn [fr_node fr_file x]. change (s_be pfs s2') with (s_be pfs s2). change (gnode s2' cn) with (gnode s2 cn).
        change (node_at s2' ?p) with (node_at s2 p). intros Dcn.
        assert (P2 : hpath (s_be pfs s2) h = fpath s wr ++ [nm]). { rewrite E2. exact P1. }
        rewrite P2. split.
        * unfold node_at. rewrite walk_snoc.
          assert (NA : node_at s2 (fpath s wr) = Some (fr_node (gref s wr))).
          { apply (S_nt _ _ SH02 (G_nt _ _ G)). apply (G_node _ _ G); auto. }
          unfold node_at in NA. rewrite NA. exact C2.
        * rewrite <- P2. rewrite E2. apply R1; [discriminate | apply G]. }
  destruct (new_ref_handover pfs wr x s2) as [nr s4]. cbn [fst snd] in *.
  pose proof (sc_add_child pfs (fr_node (gref s wr)) nr nm s4) as SC5.
  set (s5 := add_child pfs (fr_node (gref s wr)) nr nm s4) in *.
  destruct (sc_ok pfs s4 s5 d SC5 I4) as (I5 & L5).
  assert (G5 : Good s5 g) by (eapply shrink_good; [apply sh_add_child | exact G4]).
  destruct (s_panic pfs s5) eqn:P5; [exact G5|].
  assert (Hn5 : 0 < hc s5 nr) by (eapply led_hc_pos; [exact L5 | lia | reflexivity]).
  apply (IH nr s5 d g I5 Hn5 G5).
Qed.

Lemma clone_good ref getattr (s : st) d g :
  RInvD s d -> 0 < hc s ref -> Good s g -> Good (snd (do_walk pfs pfs_step ref [] getattr s)) g.
Proof.
  intros Inv Hr G. unfold do_walk. set (x0 := gref s ref).
  destruct (held_live s d ref Inv Hr) as (Lr & Lvr).
  destruct (fr_xattrOf x0) eqn:EX; [exact G|].
  pose proof (sc_walk_one pfs pfs_step (fr_file x0) (fr_node x0) None getattr s) as SC1.
  pose proof (walk_one_wpost (fr_file x0) (fr_node x0) None getattr s
                (G_file _ _ G ref Lr) (G_nbound _ _ G ref Lr) (G_nt _ _ G)) as WP. cbv zeta in WP.
  destruct (walk_one pfs pfs_step (fr_file x0) (fr_node x0) None getattr s) as [w s1]. cbn [fst snd] in *.
  destruct WP as ((_ & SH1) & N1 & WP).
  destruct (sc_ok pfs s s1 d SC1 Inv) as (I1 & L1).
  assert (G1 : Good s1 g) by (eapply shrink_good; eauto).
  destruct w as [e|h m ino]; [exact G1|].
  destruct (WP h m ino eq_refl) as (Eh & H1 & P1 & _). cbn [onm] in P1. rewrite app_nil_r in P1.
  set (x := mkref h 0 false 0 (fr_mode x0) (fr_node x0) (fr_parent x0) None XNone).
  assert (Hr1 : 0 < hc s1 ref) by (eapply led_hc_pos; [exact L1 | lia | reflexivity]).
  assert (GR1 : forall q, gref s1 q = gref s q) by (intros; apply gref_sc'; exact SC1).
  assert (RL1 : rlen s1 = rlen s) by (apply rlen_sc; exact SC1).
  assert (HP : forall p, fr_parent x = Some p -> 0 < C pfs s1 p /\ fr_xattrOf x = None).
  { intros p Hp. split; [|reflexivity]. cbn in Hp.
    destruct (held_live s1 d ref I1 Hr1) as (Lr1 & Lv1).
    apply (C_parent pfs s1 ref p Lr1 Lv1). rewrite GR1. exact Hp. }
  assert (G2 : Good (snd (new_ref_inc pfs x s1)) g).
  { unfold new_ref_inc.
    assert (GN : Good (snd (new_ref pfs x s1)) g).
    { apply good_new_ref; [exact G1 | | | | cbn; intros Ep _; apply (G_root _ _ G ref Lr Ep EX) | |].
      - cbn. lia.
      - cbn. pose proof (G_nbound _ _ G ref Lr). pose proof (S_nlen _ _ SH1). unfold x0. lia.
      - intros p Hp. cbn in Hp. destruct (G_parent _ _ G ref p Lr Hp) as (_ & Tp & Lp).
        split; [reflexivity|]. rewrite RL1. split; auto. unfold tref. rewrite GR1. exact Tp.
      - intros p Hp Dn. cbn in Hp, Dn.
        assert (Nf : nonf s ref). { unfold nonf, is_deleted. fold x0. rewrite <- (S_del _ _ SH1). exact Dn. }
        pose proof (G_pnonf _ _ G ref p Lr Lvr Nf Hp) as Np. unfold nonf, is_deleted in *. rewrite GR1, (S_del _ _ SH1). exact Np.
      - cbn [fr_xattrOf x]. split.
        + intros q Hq Tq. rewrite GR1. cbn [fr_file x]. rewrite RL1 in Hq. pose proof (G_file _ _ G q Hq). lia.
        + cbn [fr_node fr_file x]. intros Dn.
          assert (Nf : nonf s ref). { unfold nonf, is_deleted. fold x0. rewrite <- (S_del _ _ SH1). exact Dn. }
          rewrite P1. fold (fpath s ref). split.
          * apply (S_nt _ _ SH1 (G_nt _ _ G)). apply (G_node _ _ G); auto.
          * destruct (G_obj _ _ G ref Lr Lvr EX Nf) as (i & Ri & _). exists i.
            apply (S_fs _ _ SH1 (G_fs _ _ G)). exact Ri. }
    pose proof (new_ref_facts pfs x s1) as (_ & _ & _ & Go & _). cbv zeta in Go.
    destruct (new_ref pfs x s1) as [nr s1'] eqn:ENR. cbn [fst snd] in *.
    destruct (fr_parent x) as [p|] eqn:EP; [|exact GN]. cbn [fr_xattrOf x].
    eapply shrink_good; [apply sh_incref | exact GN].
    destruct (HP p eq_refl) as (Cp & _). destruct (inv_live pfs s1 d p I1 Cp) as (Lp & Lvp).
    unfold live. rewrite (Go p Lp). exact Lvp. }
  destruct (new_ref_inc pfs x s1) as [nr s2]. cbn [fst snd] in *.
  destruct (fr_parent x0) as [p|]; [|exact G2].
  destruct (is_deleted pfs s2 nr); [exact G2|].
  destruct (name_for pfs (fr_node (gref s2 p)) ref s2) as [nm|].
  - set (s3 := add_child pfs (fr_node (gref s2 p)) nr nm s2).
    assert (G3 : Good s3 g) by (eapply shrink_good; [apply sh_add_child | exact G2]).
    destruct (s_panic pfs s3); exact G3.
  - cbn [snd]. eapply shrink_good; [apply sh_set_panic | exact G2].
Qed.

Lemma do_walk_good ref names getattr (s : st) d g :
  RInvD s d -> 0 < hc s ref -> Good s g -> Good (snd (do_walk pfs pfs_step ref names getattr s)) g.
Proof.
  intros Inv Hr G. destruct names as [|nm rest]; [eapply clone_good; eauto|].
  unfold do_walk.
  destruct (hold_ok pfs s d ref Inv ltac:(pose proof (C_hc pfs s ref); lia)) as (I1 & L1).
  assert (H1 : 0 < hc (hold pfs ref s) ref) by (eapply led_hc_pos; [exact L1 | rewrite cnt_cons, ind_same; lia | reflexivity]).
  destruct (held_live s d ref Inv Hr) as (_ & Lv).
  eapply walk_steps_good; eauto. eapply shrink_good; [apply sh_hold; exact Lv | exact G].
Qed.

Lemma bind_good c newfid nr (s : st) d g :
  RInvD s d -> 0 < hc s nr -> Good s g -> Good (release pfs pfs_step nr (insert_fid pfs pfs_step c newfid nr s)) g.
Proof.
  intros I H G. destruct (held_live s d nr I H) as (_ & Lv).
  eapply shrink_good; [|exact G]. eapply shrink_trans; [apply sh_insert_fid; exact Lv | apply sh_release].
Qed.

Lemma gok_walk_op c fid newfid names getattr : gok [] (fun s => snd (do_walk_op pfs pfs_step c fid newfid names getattr s)).
Proof.
  unfold do_walk_op. apply with_fid_gok. intros r s d g Inv HP G.
  destruct (_ && _); [exact G|].
  assert (Hr : 0 < hc s r) by (apply HP; left; reflexivity).
  pose proof (do_walk_good r names getattr s d g Inv Hr G) as G1.
  pose proof (do_walk_ok pfs pfs_step r names getattr s d Inv Hr) as W. cbv zeta in W.
  destruct (do_walk pfs pfs_step r names getattr s) as [res s1]. cbn [fst snd] in *. destruct W as (I1 & L1).
  destruct res as [e|nr]; [exact G1|]. cbn [snd].
  apply (bind_good c newfid nr s1 d g I1); auto.
  eapply led_hc_pos; [exact L1 | rewrite cnt_cons, ind_same; lia | reflexivity].
Qed.

(** ---- attach ---- *)
Lemma pfs_step_attach fs nh :
  let r := pfs_step fs (BAttach nh) in (exists e, snd r = AErr e) \/ hpath (fst r) nh = [].
Proof.
  cbv zeta. unfold pfs_step. destruct (alookup Nat.eqb (p_calls fs) (p_inject fs)) as [e|].
  - destruct (e =? injBadQ); [|left; cbn; eauto]. right. cbn [pfs_do fst]. rewrite hpath_bind, Nat.eqb_refl. reflexivity.
  - right. cbn [pfs_do fst]. rewrite hpath_bind, Nat.eqb_refl. reflexivity.
Qed.

Lemma gok_attach c fid names : gok [] (fun s => snd (do_attach pfs pfs_step c fid names s)).
Proof.
  intros s d g Inv _ G. unfold do_attach.
  pose proof (sc_bcall pfs pfs_step (BAttach (s_nexth pfs s)) s) as SC1.
  pose proof (sh_bcall (BAttach (s_nexth pfs s)) s ltac:(cbn; lia)) as SH1.
  destruct (bcall_be (BAttach (s_nexth pfs s)) s) as (E1 & E2 & _ & _ & H1 & _).
  pose proof (pfs_step_attach (s_be pfs s) (s_nexth pfs s)) as PA. cbv zeta in PA. rewrite <- E1, <- E2 in PA.
  destruct (bcall_ pfs pfs_step (BAttach (s_nexth pfs s)) s) as [a s1]. cbn [fst snd] in *.
  destruct (sc_ok pfs s s1 d SC1 Inv) as (I1 & L1).
  assert (G1 : Good s1 g) by (eapply shrink_good; eauto).
  assert (PA' : (exists e, a = AErr e) \/ hpath (s_be pfs s1) (s_nexth pfs s) = []) by exact PA.
  assert (Main : (forall e, a <> AErr e) ->
     Good (snd (let '(root, s2) := new_ref pfs (mkref (s_nexth pfs s) 0 false 0 MNone 0 None None XNone) (take_handle pfs s1) in
     let '(a2, s3) := bcall_ pfs pfs_step (BGetAttr (s_nexth pfs s)) s2 in
     match a2 with
      | AErr e => (rerr e, release pfs pfs_step root s3)
      | AOk m ino | ABadQ m ino =>
          let s4 := set_ref pfs root (fr_with_mode (gref s3 root) m) s3 in
          match names with
          | [] => (rok ino, release pfs pfs_step root (insert_fid pfs pfs_step c fid root s4))
          | _ =>
              let '(d0, s5) := do_walk pfs pfs_step root names false s4 in
              match d0 with
              | DFail e => (rerr e, release pfs pfs_step root s5)
              | DOk nr => (rok ino, release pfs pfs_step root (release pfs pfs_step nr (insert_fid pfs pfs_step c fid nr s5)))
              end
          end
      end)) g).
  { intros NE. destruct PA' as [(e & ->)|PA']; [exfalso; eapply NE; eauto|].
    set (s1' := take_handle pfs s1).
    pose proof (sc_take_handle pfs s1) as SCt. fold s1' in SCt.
    destruct (sc_ok pfs s1 s1' d SCt I1) as (It & Lt).
    assert (Gt : Good s1' g) by (eapply shrink_good; [apply sh_take_handle | exact G1]).
    set (x := mkref (s_nexth pfs s) 0 false 0 MNone 0 None None XNone).
    assert (G2 : Good (snd (new_ref pfs x s1')) g).
    { apply good_new_ref; [exact Gt | | | | reflexivity | intros p [=] |].
      - cbn. lia.
      - cbn. apply (N_pos _ (G_nt _ _ Gt)).
      - intros p [=].
      - cbn [fr_xattrOf x]. split.
        + intros q Hq Tq. cbn [fr_file x]. change (gref s1' q) with (gref s1 q). rewrite (gref_sc' s s1 q SC1).
          change (rlen s1') with (rlen s1) in Hq. rewrite (rlen_sc s s1 SC1) in Hq. pose proof (G_file _ _ G q Hq). lia.
        + intros _. cbn [fr_node fr_file x]. change (s_be pfs s1') with (s_be pfs s1). rewrite PA'. split; [reflexivity|].
          exists root_ino. reflexivity. }
    pose proof (new_ref_facts pfs x s1') as (_ & _ & Gn & _). cbv zeta in Gn.
    change (new_ref pfs x s1') with (new_ref_inc pfs x s1') in *.
    destruct (new_ref_inc_ok pfs s1' d x It ltac:(intros p Hp; discriminate) ltac:(intros o Ho; discriminate)) as (E2' & I2 & L2).
    destruct (new_ref_inc pfs x s1') as [root s2]. cbn [fst snd] in *.
    pose proof (sc_bcall pfs pfs_step (BGetAttr (s_nexth pfs s)) s2) as SC3.
    pose proof (sh_bcall (BGetAttr (s_nexth pfs s)) s2 I) as SH3.
    destruct (bcall_ pfs pfs_step (BGetAttr (s_nexth pfs s)) s2) as [a2 s3]. cbn [snd] in SC3, SH3.
    destruct (sc_ok pfs s2 s3 d SC3 I2) as (I3 & L3).
    assert (G3 : Good s3 g) by (eapply shrink_good; eauto).
    assert (H3 : 0 < hc s3 root).
    { assert (H2 : 0 < hc s2 root) by (eapply led_hc_pos; [exact L2 | rewrite cnt_cons, ind_same; lia | reflexivity]).
      eapply led_hc_pos; [exact L3 | lia | reflexivity]. }
    assert (Okk : forall m ino,
      let s4 := set_ref pfs root (fr_with_mode (gref s3 root) m) s3 in
      Good (snd (match names with
          | [] => (rok ino, release pfs pfs_step root (insert_fid pfs pfs_step c fid root s4))
          | _ =>
              let '(d0, s5) := do_walk pfs pfs_step root names false s4 in
              match d0 with
              | DFail e => (rerr e, release pfs pfs_step root s5)
              | DOk nr => (rok ino, release pfs pfs_step root (release pfs pfs_step nr (insert_fid pfs pfs_step c fid nr s5)))
              end
          end)) g).
    { intros m ino s4.
      destruct (set_fields_ok pfs s3 d root (fr_with_mode (gref s3 root) m) I3 eq_refl eq_refl eq_refl) as (I4 & L4). fold s4 in I4, L4.
      assert (H4 : 0 < hc s4 root) by (eapply led_hc_pos; [exact L4 | lia | reflexivity]).
      assert (G4 : Good s4 g).
      { eapply shrink_good; [|exact G3]. apply sh_set_ref_same; [|reflexivity].
        assert (EX : fr_xattrOf (gref s3 root) = None).
        { rewrite (gref_sc' s2 s3 root SC3). rewrite E2'. rewrite Gn. reflexivity. }
        unfold core, xmode. cbn. rewrite EX. reflexivity. }
      destruct names as [|nm rest].
      - cbn [snd]. exact (bind_good c fid root s4 d g I4 H4 G4).
      - pose proof (do_walk_good root (nm :: rest) false s4 d g I4 H4 G4) as G5.
        pose proof (do_walk_ok pfs pfs_step root (nm :: rest) false s4 d I4 H4) as W. cbv zeta in W.
        destruct (do_walk pfs pfs_step root (nm :: rest) false s4) as [res s5]. cbn [fst snd] in *. destruct W as (I5 & L5).
        destruct res as [e|nr]; cbn [snd].
        + eapply shrink_good; [apply sh_release | exact G5].
        + eapply shrink_good; [apply sh_release|]. apply (bind_good c fid nr s5 d g I5); auto.
          eapply led_hc_pos; [exact L5 | rewrite cnt_cons, ind_same; lia | reflexivity]. }
    destruct a2 as [m ino|e|m ino]; [apply Okk | | apply Okk].
    cbn [snd]. eapply shrink_good; [apply sh_release | exact G3]. }
  destruct a as [m ino|e|m ino]; [apply Main; intros; discriminate | exact G1 | apply Main; intros; discriminate].
Qed.

(** ---- create ---- *)
Lemma pfs_do_create fs h nm nh : h <> nh ->
  let r := pfs_do fs (BCreate h nm nh) in
  (exists e, snd r = AErr e) \/
  (hpath (fst r) nh = hpath fs h ++ [nm] /\ (FsInv fs -> exists i, resolve (fst r) (hpath fs h ++ [nm]) = Some i)).
Proof.
  intros Hne. cbn [pfs_do]. fold (hpath fs h).
  destruct (resolve fs (hpath fs h)) as [d|] eqn:Rd; [|left; cbn; eauto].
  destruct (isdir fs d) eqn:Dd; cbn [negb]; [|left; cbn; eauto].
  destruct (entry fs d nm) eqn:En; [left; cbn; eauto|].
  destruct (new_obj_ext 0 fs _ d nm false Rd Dd En) as (_ & X).
  destruct (new_obj d nm false fs) as [i fs1]. cbn [fst snd] in *. right.
  rewrite hpath_bind, Nat.eqb_refl. cbn [pf_path]. split; auto.
  intros F. exists (p_nextino fs). rewrite (entries_resolve fs1); auto.
Qed.

Lemma pfs_step_create fs h nm nh : h <> nh ->
  let r := pfs_step fs (BCreate h nm nh) in
  (exists e, snd r = AErr e) \/
  (hpath (fst r) nh = hpath fs h ++ [nm] /\ (FsInv fs -> exists i, resolve (fst r) (hpath fs h ++ [nm]) = Some i)).
Proof.
  intros Hne. cbv zeta.
  assert (K : let r := pfs_do (bump fs) (BCreate h nm nh) in
             (exists e, snd r = AErr e) \/
             (hpath (fst r) nh = hpath fs h ++ [nm] /\ (FsInv fs -> exists i, resolve (fst r) (hpath fs h ++ [nm]) = Some i))).
  { destruct (pfs_do_create (bump fs) h nm nh Hne) as [X|(A1 & A2)]; [left; exact X | right].
    change (hpath (bump fs) h) with (hpath fs h) in *. split; auto. intros F. apply A2.
    destruct (fext_bump 0 fs) as (FB & _). apply (FB F). }
  unfold pfs_step. destruct (alookup Nat.eqb (p_calls fs) (p_inject fs)) as [e|]; [|exact K].
  destruct (e =? injBadQ); [exact K | left; cbn; eauto].
Qed.

Lemma dir_guard_none (s : st) g r : Good s g -> r < rlen s -> dir_guard pfs s r = None -> nonf s r /\ tref s r.
Proof.
  intros G Lr. unfold dir_guard. destruct (is_deleted pfs s r) eqn:D; cbn [orb]; [discriminate|].
  destruct (is_dir (fr_mode (gref s r))) eqn:M; cbn [negb]; [|discriminate]. intros _. split; [exact D|].
  unfold tref. destruct (fr_xattrOf (gref s r)) as [o|] eqn:EX; auto. rewrite (G_xmode _ _ G r o Lr EX) in M. discriminate.
Qed.

Lemma gok_create c fid nm flags : gok [] (fun s => snd (do_create pfs pfs_step c fid nm flags s)).
Proof.
  unfold do_create. apply with_fid_gok. intros r s d g Inv HP G.
  assert (Hr : 0 < hc s r) by (apply HP; left; reflexivity).
  destruct (held_live s d r Inv Hr) as (Lr & Lvr).
  destruct (dir_guard pfs s r) eqn:DG; [exact G|]. cbv zeta.
  destruct (dir_guard_none s g r G Lr DG) as (Nf & Tr).
  pose proof (G_file _ _ G r Lr) as Hf.
  pose proof (sc_bcall pfs pfs_step (BCreate (fr_file (gref s r)) nm (s_nexth pfs s)) s) as SC1.
  pose proof (sh_bcall (BCreate (fr_file (gref s r)) nm (s_nexth pfs s)) s ltac:(cbn; lia)) as SH1.
  destruct (bcall_be (BCreate (fr_file (gref s r)) nm (s_nexth pfs s)) s) as (E1 & E2 & _ & _ & H1 & _).
  pose proof (pfs_step_create (s_be pfs s) (fr_file (gref s r)) nm (s_nexth pfs s) ltac:(lia)) as PC. cbv zeta in PC. rewrite <- E1, <- E2 in PC.
  destruct (bcall_ pfs pfs_step (BCreate (fr_file (gref s r)) nm (s_nexth pfs s)) s) as [a s1]. cbn [fst snd] in *.
  destruct (sc_ok pfs s s1 d SC1 Inv) as (I1 & L1).
  assert (G1 : Good s1 g) by (eapply shrink_good; eauto).
  assert (Main : forall ino, (forall e, a <> AErr e) ->
    Good (snd (let '(cn, s2) := path_node_for pfs (fr_node (gref s r)) nm (take_handle pfs s1) in
         let '(nr, s3) := new_ref_inc pfs (mkref (s_nexth pfs s) 0 true flags MReg cn (Some r) None XNone) s2 in
         let s4 := add_child pfs (fr_node (gref s r)) nr nm s3 in
         if s_panic pfs s4 then (rerr EFAULT, s4)
         else (rok ino, release pfs pfs_step nr (insert_fid pfs pfs_step c fid nr s4)))) g).
  { intros ino NE. destruct PC as [(e & X)|(P1 & R1)]; [exfalso; eapply NE; eauto|].
    set (st1 := take_handle pfs s1).
    pose proof (sc_take_handle pfs s1) as SCt. destruct (sc_ok pfs s1 _ d SCt I1) as (It & Lt). fold st1 in SCt, It, Lt.
    assert (Gt : Good st1 g) by (eapply shrink_good; [apply sh_take_handle | exact G1]).
    assert (Hn1 : fr_node (gref s r) < nlen st1).
    { change (nlen st1) with (nlen s1). pose proof (G_nbound _ _ G r Lr). pose proof (S_nlen _ _ SH1). lia. }
    pose proof (sc_path_node_for pfs (fr_node (gref s r)) nm st1) as SC2.
    destruct (pnf_spec (fr_node (gref s r)) nm st1 Hn1 (G_nt _ _ Gt)) as ((_ & SH2) & C2 & B2 & N2 & H2 & E2' & R2 & D2).
    destruct (path_node_for pfs (fr_node (gref s r)) nm st1) as [cn s2]. cbn [fst snd] in *.
    destruct (sc_ok pfs _ s2 d SC2 It) as (I2 & L2).
    assert (G2 : Good s2 g) by (eapply shrink_good; eauto).
    assert (Hr2 : 0 < hc s2 r).
    { eapply led_hc_pos; [exact L2 | | reflexivity].
      assert (0 < hc st1 r) by (eapply led_hc_pos; [exact Lt | | reflexivity];
        assert (0 < hc s1 r) by (eapply led_hc_pos; [exact L1 | lia | reflexivity]); lia). lia. }
    set (x := mkref (s_nexth pfs s) 0 true flags MReg cn (Some r) None XNone).
    assert (HPx : forall p, fr_parent x = Some p -> 0 < C pfs s2 p /\ fr_xattrOf x = None).
    { intros p [= <-]. split; [pose proof (C_hc pfs s2 r); lia | reflexivity]. }
    assert (SH02 : shrink s s2).
    { eapply shrink_trans; [exact SH1|]. eapply shrink_trans; [apply sh_take_handle | exact SH2]. }
    assert (GR2 : forall q, gref s2 q = gref s q).
    { intros q. rewrite (gref_sc' st1 s2 q SC2). change (gref st1 q) with (gref s1 q). apply gref_sc'. exact SC1. }
    assert (RL2 : rlen s2 = rlen s).
    { rewrite (rlen_sc st1 s2 SC2). change (rlen st1) with (rlen s1). apply rlen_sc. exact SC1. }
    assert (G3 : Good (snd (new_ref_inc pfs x s2)) g).
    { unfold new_ref_inc.
      assert (GN : Good (snd (new_ref pfs x s2)) g).
      { apply good_new_ref; [exact G2 | | | | intros [=] | |].
        - cbn. rewrite H2. cbn. lia.
        - cbn. exact B2.
        - intros p [= <-]. split; [reflexivity|]. rewrite RL2. split; auto. unfold tref. rewrite GR2. exact Tr.
        - intros p [= <-] _. unfold nonf, is_deleted in *. rewrite GR2, (S_del _ _ SH02). exact Nf.
        - cbn [fr_xattrOf x]. split.
          + intros q Hq Tq. rewrite GR2. cbn [fr_file x]. rewrite RL2 in Hq. pose proof (G_file _ _ G q Hq). lia.
          + cbn [fr_node fr_file x]. intros Dcn.
            assert (P2 : hpath (s_be pfs s2) (s_nexth pfs s) = fpath s r ++ [nm]). { rewrite E2'. exact P1. }
            rewrite P2. split.
            * unfold node_at. rewrite walk_snoc.
              assert (NA : node_at s2 (fpath s r) = Some (fr_node (gref s r))).
              { apply (S_nt _ _ SH02 (G_nt _ _ G)). apply (G_node _ _ G); auto. }
              unfold node_at in NA. rewrite NA. exact C2.
            * rewrite E2'. apply R1. apply G. }
      pose proof (new_ref_facts pfs x s2) as (_ & _ & _ & Go & _). cbv zeta in Go.
      destruct (new_ref pfs x s2) as [nr s2'] eqn:ENR. cbn [fst snd] in *.
      cbn [fr_parent x]. eapply shrink_good; [apply sh_incref | exact GN].
      destruct (held_live s2 d r I2 Hr2) as (Lr2 & Lvr2). unfold live. rewrite (Go r Lr2). exact Lvr2. }
    destruct (new_ref_inc_ok pfs s2 d x I2 HPx ltac:(intros o Ho; discriminate)) as (E3 & I3 & L3).
    destruct (new_ref_inc pfs x s2) as [nr s3]. cbn [fst snd] in *.
    pose proof (sc_add_child pfs (fr_node (gref s r)) nr nm s3) as SC4.
    set (s4 := add_child pfs (fr_node (gref s r)) nr nm s3) in *.
    destruct (sc_ok pfs s3 s4 d SC4 I3) as (I4 & L4).
    assert (G4 : Good s4 g) by (eapply shrink_good; [apply sh_add_child | exact G3]).
    destruct (s_panic pfs s4) eqn:P4; cbn [snd]; [exact G4|].
    apply (bind_good c fid nr s4 d g I4); auto.
    eapply led_hc_pos; [exact L4 | | reflexivity].
    assert (0 < hc s3 nr) by (eapply led_hc_pos; [exact L3 | rewrite cnt_cons, ind_same; lia | reflexivity]). lia. }
  destruct a as [m ino|e|m ino]; [apply Main; intros; discriminate | exact G1 | apply Main; intros; discriminate].
Qed.

(** ---- xattrwalk ---- *)
Lemma gok_xattrwalk c fid newfid : gok [] (fun s => snd (do_xattrwalk pfs pfs_step c fid newfid s)).
Proof.
  unfold do_xattrwalk. apply with_fid_gok. intros r s d g Inv HP G.
  assert (Hr : 0 < hc s r) by (apply HP; left; reflexivity).
  destruct (held_live s d r Inv Hr) as (Lr & Lvr).
  destruct (is_deleted pfs s r); [exact G|]. cbv zeta.
  pose proof (sc_bcall pfs pfs_step (BUse uGetXattr (fr_file (gref s r))) s) as SC1.
  pose proof (sh_bcall (BUse uGetXattr (fr_file (gref s r))) s I) as SH1.
  destruct (bcall_ pfs pfs_step (BUse uGetXattr (fr_file (gref s r))) s) as [a s1]. cbn [snd] in SC1, SH1.
  destruct (sc_ok pfs s s1 d SC1 Inv) as (I1 & L1).
  assert (G1 : Good s1 g) by (eapply shrink_good; eauto).
  assert (Main :
    let '(nr, s2) := new_ref_inc pfs (mkref (fr_file (gref s r)) 0 false 0 MNone (fr_node (gref s r)) None (Some r) XWalk) s1 in
    Good (release pfs pfs_step nr (insert_fid pfs pfs_step c newfid nr s2)) g).
  { assert (Hr1 : 0 < hc s1 r) by (eapply led_hc_pos; [exact L1 | lia | reflexivity]).
    set (x := mkref (fr_file (gref s r)) 0 false 0 MNone (fr_node (gref s r)) None (Some r) XWalk).
    assert (HX : forall o, fr_xattrOf x = Some o -> 0 < C pfs s1 o).
    { intros o [= <-]. pose proof (C_hc pfs s1 r); lia. }
    assert (GR1 : forall q, gref s1 q = gref s q) by (intros; apply gref_sc'; exact SC1).
    assert (RL1 : rlen s1 = rlen s) by (apply rlen_sc; exact SC1).
    assert (G2 : Good (snd (new_ref_inc pfs x s1)) g).
    { unfold new_ref_inc.
      assert (GN : Good (snd (new_ref pfs x s1)) g).
      { apply good_new_ref; [exact G1 | | | | intros _ [=] | intros p [=] |].
        - cbn. pose proof (G_file _ _ G r Lr). pose proof (S_nexth _ _ SH1). lia.
        - cbn. pose proof (G_nbound _ _ G r Lr). pose proof (S_nlen _ _ SH1). lia.
        - intros p [=].
        - cbn [fr_xattrOf x]. rewrite RL1, GR1. repeat split; auto. }
      pose proof (new_ref_facts pfs x s1) as (_ & _ & _ & Go & _). cbv zeta in Go.
      destruct (new_ref pfs x s1) as [nr s1'] eqn:ENR. cbn [fst snd] in *.
      cbn [fr_parent fr_xattrOf x]. eapply shrink_good; [apply sh_incref | exact GN].
      destruct (held_live s1 d r I1 Hr1) as (Lr1 & Lvr1). unfold live. rewrite (Go r Lr1). exact Lvr1. }
    destruct (new_ref_inc_ok pfs s1 d x I1 ltac:(intros p Hp; discriminate) HX) as (E2 & I2 & L2).
    destruct (new_ref_inc pfs x s1) as [nr s2]. cbn [fst snd] in *.
    apply (bind_good c newfid nr s2 d g I2); auto.
    eapply led_hc_pos; [exact L2 | rewrite cnt_cons, ind_same; lia | reflexivity]. }
  destruct (new_ref_inc pfs _ s1) as [nr s2].
  destruct a; cbn [snd]; auto.
Qed.
