(** Refs/CoherentDefs.v — C08_coherent: vocabulary and the invariant.
    The server model (Refs/Model.v) runs against PathFS (Refs/PathFS.v).
    [fpath s r] is the path held by the File of fidRef r; the ghost list [g]
    records, for every fidRef, the object its File's path resolved to at the
    end of the request that created it ("bind time").  [Good s g] is the
    invariant; its consequence [good_coherent] is the statement of
    C08_coherent for one state.  (pathB) *)
From Coq Require Import List Arith Bool ZArith Lia.
From P9V Require Import Refs.Model Refs.PathFS Refs.RefProofs Refs.RefStep Refs.FenceProofs Refs.CoherentTree.
Import ListNotations.

Notation st := (sstate pfs).
Notation gref := (get_ref pfs).
Notation gnode := (get_node pfs).
Notation RInvD := (RefInvD pfs).

Definition rlen (s : st) : nat := length (s_refs pfs s).
Definition nlen (s : st) : nat := length (s_nodes pfs s).
Definition live (s : st) (r : nat) : Prop := (0 < fr_refs (gref s r))%Z.
Definition tref (s : st) (r : nat) : Prop := fr_xattrOf (gref s r) = None.
Definition nonf (s : st) (r : nat) : Prop := is_deleted pfs s r = false.

(** the two trees *)
Definition nch (s : st) (n nm : nat) : option nat := alookup Nat.eqb nm (pn_nodes (gnode s n)).
Definition node_at (s : st) (p : list nat) : option nat := walk (nch s) 0 p.

Definition hpath (fs : pfs) (h : nat) : list nat := pf_path (file_of fs h).
Definition fpath (s : st) (r : nat) : list nat := hpath (s_be pfs s) (fr_file (gref s r)).

Lemma resolve_from_walk fs p : forall cur, resolve_from fs cur p = walk (entry fs) cur p.
Proof. induction p as [|x p IH]; intros cur; cbn; auto. destruct (entry fs cur x); auto. Qed.
Lemma resolve_walk fs p : resolve fs p = walk (entry fs) root_ino p.
Proof. apply resolve_from_walk. Qed.

(** ---- ghost: the object a fidRef was bound to ---- *)
Definition obj_now (s : st) (r : nat) : option nat := resolve (s_be pfs s) (fpath s r).
Definition extend (g : list (option nat)) (s : st) : list (option nat) :=
  g ++ map (obj_now s) (seq (length g) (rlen s - length g)).

Fixpoint run_g (ops : list op) (s : st) (g : list (option nat)) : st * list (option nat) :=
  match ops with
  | [] => (s, g)
  | o :: rest => let s1 := snd (step pfs pfs_step o s) in run_g rest s1 (extend g s1)
  end.

Lemma run_g_run ops : forall s g, fst (run_g ops s g) = snd (run pfs pfs_step ops s).
Proof.
  induction ops as [|o ops IH]; intros s g; cbn; auto.
  rewrite IH. destruct (step pfs pfs_step o s) as [rep s1]. cbn. destruct (run pfs pfs_step ops s1). reflexivity.
Qed.

Lemma extend_length g s : length g <= rlen s -> length (extend g s) = rlen s.
Proof. intros H. unfold extend. rewrite app_length, map_length, seq_length. lia. Qed.

Lemma extend_old g s r : r < length g -> nth r (extend g s) None = nth r g None.
Proof. intros H. unfold extend. apply app_nth1; auto. Qed.

Lemma extend_new g s r : length g <= r -> r < rlen s -> nth r (extend g s) None = obj_now s r.
Proof.
  intros H1 H2. unfold extend. rewrite app_nth2 by auto.
  rewrite (nth_indep _ None (obj_now s 0)) by (rewrite map_length, seq_length; lia).
  rewrite map_nth. rewrite seq_nth by lia. f_equal. lia.
Qed.

(** ---- PathFS: the entries form a forest with unique parents ---- *)
Record FsInv (fs : pfs) : Prop := mkFs {
  F_up : uparent (entry fs);
  F_noroot : noroot (entry fs) root_ino;
  F_keys : NoDup (map fst (p_entries fs));
  F_dir : forall d nm c, entry fs d nm = Some c -> isdir fs d = true;
  F_bound : forall d nm c, entry fs d nm = Some c -> d < p_nextino fs /\ c < p_nextino fs;
  F_root : root_ino < p_nextino fs }.

(** ---- the path nodes: unique parents, ids in range ---- *)
Record NT (s : st) : Prop := mkNT {
  N_up : uparent (nch s);
  N_noroot : noroot (nch s) 0;
  N_bound : forall n nm c, nch s n nm = Some c -> c < nlen s;
  N_pos : 0 < nlen s }.

(** childRefs has one entry per name (it is a Go map) *)
Definition pkeys (pn : pnode) : Prop := NoDup (map fst (pn_refs pn)) /\ NoDup (map fst (pn_nodes pn)).
Definition rkeys (s : st) : Prop := forall n, pkeys (gnode s n).

Lemma pkeys_with_refs pn f g : pkeys pn -> NoDup (map fst f) -> pkeys (pn_with_refs pn f g).
Proof. intros (_ & K) H. split; auto. Qed.
Lemma pkeys_with_nodes pn f : pkeys pn -> NoDup (map fst f) -> pkeys (pn_with_nodes pn f).
Proof. intros (K & _) H. split; auto. Qed.
Lemma pkeys_with_deleted pn : pkeys pn -> pkeys (pn_with_deleted pn).
Proof. intros K. exact K. Qed.

(** ---- the invariant ---- *)
Record Good (s : st) (g : list (option nat)) : Prop := mkGood {
  G_fs : FsInv (s_be pfs s);
  G_nt : NT s;
  (** P1-P3 in closed form: the File's path, read in the node tree, leads to the fidRef's node *)
  G_node : forall r, r < rlen s -> live s r -> tref s r -> nonf s r -> node_at s (fpath s r) = Some (fr_node (gref s r));
  (** coherence for the fidRefs that own their File *)
  G_obj : forall r, r < rlen s -> live s r -> tref s r -> nonf s r ->
          exists i, resolve (s_be pfs s) (fpath s r) = Some i /\ (r < length g -> nth r g None = Some i);
  (** an xattr fidRef borrows the File (and node) of an older fidRef *)
  G_xattr : forall r o, r < rlen s -> fr_xattrOf (gref s r) = Some o ->
            o < r /\ fr_file (gref s r) = fr_file (gref s o) /\ fr_node (gref s r) = fr_node (gref s o) /\
            fr_parent (gref s r) = None /\
            (live s r -> nonf s r -> r < length g -> nth r g None = nth o g None);
  (** Files: one per owning fidRef, allocated below [s_nexth] *)
  G_file : forall r, r < rlen s -> fr_file (gref s r) < s_nexth pfs s;
  G_file_inj : forall r r', r < rlen s -> r' < rlen s -> tref s r -> tref s r' ->
               fr_file (gref s r) = fr_file (gref s r') -> r = r';
  (** parents own their File, and so do their children *)
  G_parent : forall r p, r < rlen s -> fr_parent (gref s r) = Some p -> tref s r /\ tref s p /\ p < rlen s;
  G_nbound : forall r, r < rlen s -> fr_node (gref s r) < nlen s;
  (** an xattr fidRef is not a directory (it cannot be walked from, or created in) *)
  G_xmode : forall r o, r < rlen s -> fr_xattrOf (gref s r) = Some o -> is_dir (fr_mode (gref s r)) = false;
  (** a File-owning fidRef without parent is an attach point: its node is the root of the path tree *)
  G_root : forall r, r < rlen s -> fr_parent (gref s r) = None -> tref s r -> fr_node (gref s r) = 0;
  (** a live non-fenced fidRef has a non-fenced parent *)
  G_pnonf : forall r p, r < rlen s -> live s r -> nonf s r -> fr_parent (gref s r) = Some p -> nonf s p;
  G_keys : rkeys s;
  G_len : length g <= rlen s }.

(** C08_coherent for one state: every live, non-fenced fidRef - owning its File or borrowing it - reaches
    the object it was bound to *)
Definition coherent (s : st) (g : list (option nat)) : Prop :=
  forall r, r < rlen s -> live s r -> nonf s r ->
  exists i, resolve (s_be pfs s) (fpath s r) = Some i /\ nth r g None = Some i.

Lemma C_xattr (s : st) r o : r < rlen s -> live s r -> fr_xattrOf (gref s r) = Some o -> 0 < C pfs s o.
Proof.
  intros L Lv E. rewrite C_eq. pose proof (flat_map_ge (out_refs) (s_refs pfs s) r dead_ref o L) as G.
  fold (gref s r) in G. rewrite cnt_out_refs in G. unfold RefProofs.live in G. unfold live in Lv.
  replace (0 <? fr_refs (gref s r))%Z with true in G by (symmetry; apply Z.ltb_lt; auto).
  rewrite E in G. cbn in G. rewrite ind_same in G. unfold io in G. lia.
Qed.

Lemma good_coherent' s g d : RInvD s d -> Good s g ->
  forall r, r < rlen s -> live s r -> nonf s r ->
  exists i, resolve (s_be pfs s) (fpath s r) = Some i /\ (r < length g -> nth r g None = Some i).
Proof.
  intros RI G r. induction r as [r IH] using lt_wf_ind. intros Lr Lv Nf.
  destruct (fr_xattrOf (gref s r)) as [o|] eqn:EX.
  - destruct (G_xattr s g G r o Lr EX) as (Lo & Ef & En & _ & Eg).
    assert (Co : 0 < C pfs s o) by (eapply C_xattr; eauto).
    destruct (inv_live pfs s d o RI Co) as (Lo' & Lvo).
    assert (Nfo : nonf s o). { unfold nonf, is_deleted in *. rewrite <- En. exact Nf. }
    destruct (IH o Lo Lo' Lvo Nfo) as (i & Ri & Gi).
    exists i. split.
    + unfold fpath in *. rewrite Ef. exact Ri.
    + intros Hr. rewrite Eg; auto. apply Gi. lia.
  - destruct (G_obj s g G r Lr Lv EX Nf) as (i & Ri & Gi). exists i. split; auto.
Qed.

Lemma good_coherent s g d : RInvD s d -> Good s g -> length g = rlen s -> coherent s g.
Proof.
  intros RI G Lg r Lr Lv Nf. destruct (good_coherent' s g d RI G r Lr Lv Nf) as (i & Ri & Gi).
  exists i. split; auto. apply Gi. lia.
Qed.
