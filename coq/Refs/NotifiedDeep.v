(** Refs/NotifiedDeep.v — C08_notified, the part below the moved entry: the
    Renamed calls made by notifyNameChange are exactly the registered, live
    fidRefs of the nodes at or below the given node, in pre-order (a node's own
    childRefs before its child nodes), each told (its File, its parent's File,
    its registered name).  Every state, every backend.  (pathB) *)
From Coq Require Import List Arith Bool ZArith Lia.
From P9V Require Import Refs.Model Refs.RefProofs.
Import ListNotations.

Section Deep.
Variable B : Type.
Variable bstep : B -> bcall -> B * bans.
Notation st := (sstate B).
Notation gref := (get_ref B).
Notation gnode := (get_node B).

Definition liveb (s : st) (r : nat) : bool := negb (fr_refs (gref s r) <=? 0)%Z.

(** the (fidRef, name) pairs registered in a node, in childRefs order *)
Definition regs_of (pn : pnode) : list (nat * nat) :=
  flat_map (fun e => map (fun r => (r, fst e)) (snd e)) (pn_refs pn).

(** ... and in the nodes at or below n, in the order of notifyNameChange *)
Fixpoint below (fuel : nat) (s : st) (n : nat) : list (nat * nat) :=
  match fuel with
  | 0 => []
  | S f => regs_of (gnode s n) ++ flat_map (fun c => below f s (snd c)) (pn_nodes (gnode s n))
  end.

(** what one registered fidRef is told: nothing if it is being destroyed (count 0) *)
Definition tell (s : st) (e : nat * nat) : list bcall :=
  if liveb s (fst e) then
    match fr_parent (gref s (fst e)) with
    | Some p => [BRenamed (fr_file (gref s (fst e))) (fr_file (gref s p)) (snd e)]
    | None => []
    end
  else [].

Definition calls (s : st) : list bcall := rev (s_log B s).

(** what the traversal leaves alone *)
Definition frame (s s' : st) : Prop :=
  (forall n, gnode s' n = gnode s n) /\
  (forall q, fr_file (gref s' q) = fr_file (gref s q) /\ fr_parent (gref s' q) = fr_parent (gref s q) /\
             liveb s' q = liveb s q).

(** the rest of what the traversal leaves alone (kept apart from [frame], which is all the call list needs) *)
Definition frame2 (s s' : st) : Prop :=
  s_nodes B s' = s_nodes B s /\ length (s_refs B s') = length (s_refs B s) /\ s_nexth B s' = s_nexth B s /\
  (forall q, fr_with_refs (gref s' q) 0 = fr_with_refs (gref s q) 0) /\
  (forall q, (fr_refs (gref s q) <= fr_refs (gref s' q))%Z /\ ((0 < fr_refs (gref s' q))%Z -> (0 < fr_refs (gref s q))%Z)).

Lemma frame2_refl s : frame2 s s.
Proof. repeat split; auto; lia. Qed.
Lemma frame2_trans a b c : frame2 a b -> frame2 b c -> frame2 a c.
Proof.
  intros (A1 & A2 & A3 & A4 & A5) (B1 & B2 & B3 & B4 & B5). repeat split; try congruence.
  - destruct (A5 q), (B5 q). lia.
  - intros H. apply A5. apply B5. exact H.
Qed.

Lemma frame_refl s : frame s s. Proof. split; auto. Qed.
Lemma frame_trans a b c : frame a b -> frame b c -> frame a c.
Proof.
  intros (N1 & R1) (N2 & R2). split; [intros n; rewrite N2; apply N1|].
  intros q. destruct (R1 q) as (A1 & A2 & A3). destruct (R2 q) as (B1 & B2 & B3). repeat split; congruence.
Qed.

Lemma tell_frame s s' e : frame s s' -> tell s' e = tell s e.
Proof.
  intros (_ & R). unfold tell. destruct (R (fst e)) as (A1 & A2 & A3). rewrite A1, A2, A3.
  destruct (fr_parent (gref s (fst e))) as [p|]; auto. destruct (R p) as (-> & _). reflexivity.
Qed.

Lemma below_frame fuel : forall s s' n, frame s s' -> below fuel s' n = below fuel s n.
Proof.
  induction fuel as [|f IH]; intros s s' n F; cbn [below]; auto.
  destruct F as (N & R). rewrite N. f_equal. apply flat_map_ext. intros c. apply IH. split; auto.
Qed.

Lemma flat_map_flat_map {A0 B0 C0} (f : A0 -> list B0) (g : B0 -> list C0) l :
  flat_map g (flat_map f l) = flat_map (fun a => flat_map g (f a)) l.
Proof. induction l as [|a l IH]; cbn; auto. rewrite flat_map_app, IH. reflexivity. Qed.

Lemma flat_map_map {A0 B0 C0} (h : A0 -> B0) (g : B0 -> list C0) l : flat_map g (map h l) = flat_map (fun x => g (h x)) l.
Proof. induction l as [|a l IH]; cbn; auto. rewrite IH. reflexivity. Qed.

Definition stepb (b : B) (c : bcall) : B := fst (bstep b c).

Definition Tr (X : list bcall) (hs hs' : list nat * st) : Prop :=
  (calls (snd hs') = calls (snd hs) ++ X /\ s_be B (snd hs') = fold_left stepb X (s_be B (snd hs))) /\ frame (snd hs) (snd hs').

Lemma Tr_fold {A} (f : A -> list nat * st -> list nat * st) (T : A -> list bcall) (s0 : st) (l : list A) :
  (forall a hs, In a l -> frame s0 (snd hs) -> Tr (T a) hs (f a hs)) ->
  forall hs, frame s0 (snd hs) -> Tr (flat_map T l) hs (fold_left (fun st a => f a st) l hs).
Proof.
  induction l as [|a l IH]; intros H hs F; cbn [fold_left flat_map].
  - split; [split; [rewrite app_nil_r; reflexivity | reflexivity] | apply frame_refl].
  - destruct (H a hs (or_introl eq_refl) F) as ((C1 & B1) & F1).
    destruct (IH (fun a' hs' Hin => H a' hs' (or_intror Hin)) (f a hs) (frame_trans _ _ _ F F1)) as ((C2 & B2) & F2).
    split; [split; [rewrite C2, C1, app_assoc; reflexivity | rewrite B2, B1, fold_left_app; reflexivity] | eapply frame_trans; eauto].
Qed.

Lemma gref_set r x (s : st) q : gref (set_ref B r x s) q = if (q =? r) && (r <? length (s_refs B s)) then x else gref s q.
Proof.
  unfold get_ref, set_ref. cbn [s_refs with_refs].
  destruct (Nat.eqb_spec q r) as [->|N]; cbn [andb].
  - destruct (Nat.ltb_spec r (length (s_refs B s))); [rewrite nth_upd_same by auto; reflexivity | rewrite upd_oob by auto; reflexivity].
  - rewrite nth_upd_other by auto. reflexivity.
Qed.

(** one callback *)
Lemma renamed_call_tr r nm hs : Tr (tell (snd hs) (r, nm)) hs (renamed_call B bstep r nm hs).
Proof.
  destruct hs as [held s]. unfold renamed_call, try_incref, tell, liveb. cbn [fst snd].
  destruct (fr_refs (gref s r) <=? 0)%Z eqn:E; cbn [negb].
  - split; [split; [rewrite app_nil_r; reflexivity | reflexivity] | apply frame_refl].
  - set (s1 := incref B r s). set (s2 := with_held B (r :: s_held B s1) s1).
    assert (F2 : frame s s2).
    { split; [reflexivity|]. intros q.
      assert (GQ : gref s2 q = if (q =? r) && (r <? length (s_refs B s)) then fr_with_refs (gref s r) (fr_refs (gref s r) + 1) else gref s q).
      { change (gref s2 q) with (gref s1 q). unfold s1, incref. apply gref_set. }
      unfold liveb. rewrite GQ. destruct ((q =? r) && (r <? length (s_refs B s))) eqn:X; auto.
      apply andb_prop in X. destruct X as (X & _). apply Nat.eqb_eq in X. subst q.
      cbn [fr_file fr_parent fr_refs fr_with_refs]. repeat split; auto.
      rewrite E. apply Z.leb_gt in E. destruct (Z.leb_spec (fr_refs (gref s r) + 1) 0); auto; lia. }
    destruct F2 as (N2 & R2). destruct (R2 r) as (Ef & Ep & _). rewrite Ep.
    destruct (fr_parent (gref s r)) as [p|]; cbn [snd].
    + destruct (R2 p) as (Efp & _). rewrite Ef, Efp.
      unfold Tr, bcall_. cbn [fold_left snd]. unfold stepb. change (s_be B s) with (s_be B s2).
      destruct (bstep (s_be B s2) _) as [b' a]. cbn [snd fst]. split.
      * split; [unfold calls; cbn; reflexivity | reflexivity].
      * split; [exact N2 | exact R2].
    + split; [split; [unfold calls; cbn; rewrite app_nil_r; reflexivity | reflexivity] | split; [exact N2 | exact R2]].
Qed.

Theorem notify_name_change_tr fuel : forall n hs,
  Tr (flat_map (tell (snd hs)) (below fuel (snd hs) n)) hs (notify_name_change B bstep fuel n hs).
Proof.
  induction fuel as [|f IH]; intros n hs; cbn [notify_name_change below].
  - cbn. split; [split; [rewrite app_nil_r; reflexivity | reflexivity] | split; auto].
  - set (s0 := snd hs). set (pn := gnode s0 n). rewrite flat_map_app.
    (* the node's own references *)
    assert (P1 : Tr (flat_map (tell s0) (regs_of pn)) hs
               (fold_left (fun st e => fold_left (fun st' r => renamed_call B bstep r (fst e) st') (snd e) st) (pn_refs pn) hs)).
    { unfold regs_of. rewrite flat_map_flat_map.
      apply (Tr_fold (fun e st => fold_left (fun st' r => renamed_call B bstep r (fst e) st') (snd e) st)
                     (fun e => flat_map (tell s0) (map (fun r => (r, fst e)) (snd e))) s0); [|apply frame_refl].
      intros e hs1 _ F1. rewrite flat_map_map.
      apply (Tr_fold (fun r st' => renamed_call B bstep r (fst e) st') (fun r => tell s0 (r, fst e)) s0); auto.
      intros r hs2 _ F2. rewrite <- (tell_frame s0 (snd hs2)) by auto. apply renamed_call_tr. }
    set (hs1 := fold_left _ (pn_refs pn) hs) in *. destruct P1 as ((C1 & B1) & F1).
    (* the child nodes *)
    assert (P2 : Tr (flat_map (fun c => flat_map (tell s0) (below f s0 (snd c))) (pn_nodes pn)) hs1
               (fold_left (fun st c => notify_name_change B bstep f (snd c) st) (pn_nodes pn) hs1)).
    { apply (Tr_fold (fun c st => notify_name_change B bstep f (snd c) st)
                     (fun c => flat_map (tell s0) (below f s0 (snd c))) s0); auto.
      intros c hs2 _ F2. specialize (IH (snd c) hs2).
      rewrite (below_frame f s0 (snd hs2)) in IH by auto.
      rewrite (flat_map_ext _ _ (fun e => tell_frame s0 (snd hs2) e F2)) in IH. exact IH. }
    destruct P2 as ((C2 & B2) & F2). split; [|eapply frame_trans; eauto].
    assert (EQ : flat_map (fun c => flat_map (tell s0) (below f s0 (snd c))) (pn_nodes pn) =
                 flat_map (tell s0) (flat_map (fun c => below f s0 (snd c)) (pn_nodes pn))) by (rewrite flat_map_flat_map; reflexivity).
    split; [rewrite C2, C1, <- app_assoc, EQ; reflexivity | rewrite B2, B1, fold_left_app, EQ; reflexivity].
Qed.

Lemma frame2_fold {A} (f : A -> list nat * st -> list nat * st) (l : list A) :
  (forall a hs, frame2 (snd hs) (snd (f a hs))) -> forall hs, frame2 (snd hs) (snd (fold_left (fun st a => f a st) l hs)).
Proof.
  intros H. induction l as [|a l IH]; intros hs; cbn [fold_left]; [apply frame2_refl|].
  eapply frame2_trans; [apply H | apply IH].
Qed.

Lemma frame2_same s s' : s_nodes B s' = s_nodes B s -> s_refs B s' = s_refs B s -> s_nexth B s' = s_nexth B s -> frame2 s s'.
Proof.
  intros N R H. unfold frame2, get_ref. rewrite N, R, H. repeat split; auto; lia.
Qed.

Lemma renamed_call_frame2 r nm hs : frame2 (snd hs) (snd (renamed_call B bstep r nm hs)).
Proof.
  destruct hs as [held s]. unfold renamed_call, try_incref. cbn [fst snd].
  destruct (Z.leb_spec (fr_refs (gref s r)) 0) as [Le|Gt]; cbn [snd]; [apply frame2_refl|].
  set (s1 := incref B r s). set (s2 := with_held B (r :: s_held B s1) s1).
  assert (F2 : frame2 s s2).
  { split; [reflexivity|]. split; [unfold s2, s1, incref, set_ref; cbn; apply upd_length|]. split; [reflexivity|].
    assert (GQ : forall q, gref s2 q = if (q =? r) && (r <? length (s_refs B s)) then fr_with_refs (gref s r) (fr_refs (gref s r) + 1) else gref s q).
    { intros q. change (gref s2 q) with (gref s1 q). unfold s1, incref. apply gref_set. }
    split; intros q; rewrite GQ; destruct ((q =? r) && (r <? length (s_refs B s))) eqn:X; auto; try (split; [lia | auto]).
    - apply andb_prop in X. destruct X as (X & _). apply Nat.eqb_eq in X. subst q. reflexivity.
    - apply andb_prop in X. destruct X as (X & _). apply Nat.eqb_eq in X. subst q. cbn. split; [lia | auto]. }
  eapply frame2_trans; [exact F2|].
  destruct (fr_parent (gref s2 r)); [|apply frame2_same; reflexivity].
  unfold bcall_. destruct (bstep (s_be B s2) _) as [b' a]. cbn [snd]. apply frame2_same; reflexivity.
Qed.

Lemma notify_name_change_frame2 fuel : forall n hs, frame2 (snd hs) (snd (notify_name_change B bstep fuel n hs)).
Proof.
  induction fuel as [|f IH]; intros n hs; cbn [notify_name_change]; [cbn [snd]; apply frame2_same; reflexivity|].
  eapply frame2_trans.
  - apply (frame2_fold (fun e st => fold_left (fun st' r => renamed_call B bstep r (fst e) st') (snd e) st)).
    intros e hs1. apply (frame2_fold (fun r st' => renamed_call B bstep r (fst e) st')). intros r hs2. apply renamed_call_frame2.
  - apply (frame2_fold (fun c st => notify_name_change B bstep f (snd c) st)). intros c hs1. apply IH.
Qed.

(** which pairs [below] lists: the registrations of the nodes at most fuel-1 childNodes-edges below n *)
Fixpoint down (s : st) (n c k : nat) : Prop :=
  match k with
  | 0 => n = c
  | S k' => exists nm c1, In (nm, c1) (pn_nodes (gnode s n)) /\ down s c1 c k'
  end.

Lemma in_regs_of pn r nm : In (r, nm) (regs_of pn) <-> exists m, In (nm, m) (pn_refs pn) /\ In r m.
Proof.
  unfold regs_of. rewrite in_flat_map. split.
  - intros ([nm' m] & Hin & H). cbn in H. apply in_map_iff in H. destruct H as (r' & [= <- <-] & Hr). eauto.
  - intros (m & Hin & Hr). exists (nm, m). split; auto. cbn. apply in_map_iff. eauto.
Qed.

Lemma in_below fuel : forall s n e,
  In e (below fuel s n) <-> exists k c, k < fuel /\ down s n c k /\ In e (regs_of (gnode s c)).
Proof.
  induction fuel as [|f IH]; intros s n e; cbn [below].
  - split; [intros [] | intros (k & c & H & _); lia].
  - rewrite in_app_iff, in_flat_map. split.
    + intros [H | ([x c1] & Hin & H)].
      * exists 0, n. cbn. repeat split; auto. lia.
      * apply IH in H. destruct H as (k & c & Hk & Hd & He). exists (S k), c. split; [lia|]. split; auto.
        cbn. exists x, c1. auto.
    + intros (k & c & Hk & Hd & He). destruct k as [|k]; cbn in Hd.
      * subst c. left. exact He.
      * destruct Hd as (x & c1 & Hin & Hd). right. exists (x, c1). split; auto. apply IH. exists k, c. repeat split; auto. lia.
Qed.

(** the traversal sets the panic flag only when a live registered fidRef has no parent *)
Definition TP (hs hs' : list nat * st) : Prop := frame (snd hs) (snd hs') /\ s_panic B (snd hs') = s_panic B (snd hs).

Lemma TP_fold {A} (f : A -> list nat * st -> list nat * st) (s0 : st) (l : list A) :
  (forall a hs, In a l -> frame s0 (snd hs) -> TP hs (f a hs)) ->
  forall hs, frame s0 (snd hs) -> TP hs (fold_left (fun st a => f a st) l hs).
Proof.
  induction l as [|a l IH]; intros H hs F; cbn [fold_left]; [split; [apply frame_refl | reflexivity]|].
  destruct (H a hs (or_introl eq_refl) F) as (F1 & P1).
  destruct (IH (fun a' hs' Hin => H a' hs' (or_intror Hin)) (f a hs) (frame_trans _ _ _ F F1)) as (F2 & P2).
  split; [eapply frame_trans; eauto | congruence].
Qed.

Lemma renamed_call_tp r nm hs : (liveb (snd hs) r = true -> fr_parent (gref (snd hs) r) <> None) -> TP hs (renamed_call B bstep r nm hs).
Proof.
  intros Hp. destruct (renamed_call_tr r nm hs) as (_ & F). split; [exact F|].
  destruct hs as [held s]. unfold renamed_call, try_incref, liveb in *. cbn [fst snd] in *.
  destruct (fr_refs (gref s r) <=? 0)%Z eqn:E; cbn [snd negb] in *; [reflexivity|].
  set (s2 := with_held B (r :: s_held B (incref B r s)) (incref B r s)).
  assert (Ep : fr_parent (gref s2 r) = fr_parent (gref s r)).
  { change (gref s2 r) with (gref (incref B r s) r). unfold incref. rewrite gref_set. destruct ((r =? r) && (r <? length (s_refs B s))); reflexivity. }
  rewrite Ep. destruct (fr_parent (gref s r)) as [p|]; [|exfalso; apply Hp; reflexivity].
  unfold bcall_. destruct (bstep (s_be B s2) _). reflexivity.
Qed.

Lemma notify_name_change_tp fuel : forall n hs,
  (forall e, In e (below fuel (snd hs) n) -> liveb (snd hs) (fst e) = true -> fr_parent (gref (snd hs) (fst e)) <> None) ->
  TP hs (notify_name_change B bstep fuel n hs).
Proof.
  induction fuel as [|f IH]; intros n hs Hc; cbn [notify_name_change below] in *.
  - split; [split; auto | reflexivity].
  - set (s0 := snd hs) in *. set (pn := gnode s0 n) in *.
    assert (Cond : forall s1 (e : nat * nat), frame s0 s1 -> (liveb s0 (fst e) = true -> fr_parent (gref s0 (fst e)) <> None) ->
                    liveb s1 (fst e) = true -> fr_parent (gref s1 (fst e)) <> None).
    { intros s1 e (_ & R) H. destruct (R (fst e)) as (_ & -> & ->). exact H. }
    assert (P1 : TP hs (fold_left (fun st e => fold_left (fun st' r => renamed_call B bstep r (fst e) st') (snd e) st) (pn_refs pn) hs)).
    { apply (TP_fold (fun e st => fold_left (fun st' r => renamed_call B bstep r (fst e) st') (snd e) st) s0); [|apply frame_refl].
      intros e hs1 He F1. apply (TP_fold (fun r st' => renamed_call B bstep r (fst e) st') s0); auto.
      intros r hs2 Hr F2. apply renamed_call_tp. apply (Cond (snd hs2) (r, fst e) F2). apply Hc.
      apply in_or_app. left. apply in_regs_of. exists (snd e). split; auto. destruct e; exact He. }
    set (hs1 := fold_left _ (pn_refs pn) hs) in *. destruct P1 as (F1 & Q1).
    assert (P2 : TP hs1 (fold_left (fun st c => notify_name_change B bstep f (snd c) st) (pn_nodes pn) hs1)).
    { apply (TP_fold (fun c st => notify_name_change B bstep f (snd c) st) s0); auto.
      intros c hs2 Hcn F2. apply IH. intros e He. rewrite (below_frame f s0 (snd hs2)) in He by auto.
      apply (Cond (snd hs2) e F2). apply Hc. apply in_or_app. right. apply in_flat_map. exists c. auto. }
    destruct P2 as (F2 & Q2). split; [eapply frame_trans; eauto | congruence].
Qed.

(** pre-order, as positions: the registrations of a node come before those of each of its child nodes *)
Lemma flat_map_split {X Y} (f : X -> list Y) a l : In a l -> exists l1 l2, flat_map f l = flat_map f l1 ++ f a ++ flat_map f l2.
Proof.
  intros H. destruct (in_split _ _ H) as (l1 & l2 & ->). exists l1, l2. rewrite flat_map_app. reflexivity.
Qed.

Lemma below_order (s : st) : forall k fuel n m' x m,
  down s n m' k -> In (x, m) (pn_nodes (gnode s m')) -> S k < fuel ->
  exists A B C, below fuel s n = A ++ regs_of (gnode s m') ++ B ++ regs_of (gnode s m) ++ C.
Proof.
  induction k as [|k IH]; intros fuel n m' x m Hd Hin Hf; cbn [down] in Hd.
  - subst m'. destruct fuel as [|[|f]]; try lia.
    change (below (S (S f)) s n) with (regs_of (gnode s n) ++ flat_map (fun c => below (S f) s (snd c)) (pn_nodes (gnode s n))).
    destruct (flat_map_split (fun c => below (S f) s (snd c)) (x, m) _ Hin) as (l1 & l2 & E). rewrite E. cbn [snd].
    change (below (S f) s m) with (regs_of (gnode s m) ++ flat_map (fun c => below f s (snd c)) (pn_nodes (gnode s m))).
    exists [], (flat_map (fun c => below (S f) s (snd c)) l1),
      (flat_map (fun c => below f s (snd c)) (pn_nodes (gnode s m)) ++ flat_map (fun c => below (S f) s (snd c)) l2).
    cbn [app]. rewrite <- !app_assoc. reflexivity.
  - destruct Hd as (y & c1 & Hy & Hd). destruct fuel as [|f]; [lia|].
    change (below (S f) s n) with (regs_of (gnode s n) ++ flat_map (fun c => below f s (snd c)) (pn_nodes (gnode s n))).
    destruct (IH f c1 m' x m Hd Hin ltac:(lia)) as (A & B' & C & E).
    destruct (flat_map_split (fun c => below f s (snd c)) (y, c1) _ Hy) as (l1 & l2 & E2). rewrite E2. cbn [snd]. rewrite E.
    exists (regs_of (gnode s n) ++ flat_map (fun c => below f s (snd c)) l1 ++ A), B', (C ++ flat_map (fun c => below f s (snd c)) l2).
    rewrite <- !app_assoc. reflexivity.
Qed.

(** ... hence in the log: the Renamed calls for the fidRefs registered in a node (the parents) precede the calls
    for the fidRefs registered in each of its child nodes (their children) *)
Corollary told_order (s : st) k fuel n m' x m :
  down s n m' k -> In (x, m) (pn_nodes (gnode s m')) -> S k < fuel ->
  exists A B C, flat_map (tell s) (below fuel s n) =
    A ++ flat_map (tell s) (regs_of (gnode s m')) ++ B ++ flat_map (tell s) (regs_of (gnode s m)) ++ C.
Proof.
  intros Hd Hin Hf. destruct (below_order s k fuel n m' x m Hd Hin Hf) as (A & B' & C & E). rewrite E.
  exists (flat_map (tell s) A), (flat_map (tell s) B'), (flat_map (tell s) C). rewrite !flat_map_app. reflexivity.
Qed.

(** C08_notified below the moved entry, every state and backend: the backend calls made by
    notifyNameChange(pn) are, in this order, one Renamed(File of r, File of r's parent, name) for every
    (r, name) registered in a node at or below pn whose count is positive ([tell]; [in_below] says which
    pairs these are), nothing else; reference counts of the told fidRefs go up by one (held), nothing else
    changes ([frame]). *)
Theorem notified_below fuel n held (s : st) :
  let s' := snd (notify_name_change B bstep fuel n (held, s)) in
  calls s' = calls s ++ flat_map (tell s) (below fuel s n) /\ frame s s'.
Proof. destruct (notify_name_change_tr fuel n (held, s)) as ((C1 & _) & F). split; auto. Qed.

(** ... and the backend state afterwards is the replay of exactly these calls *)
Theorem notified_below_be fuel n held (s : st) :
  s_be B (snd (notify_name_change B bstep fuel n (held, s))) = fold_left stepb (flat_map (tell s) (below fuel s n)) (s_be B s).
Proof. destruct (notify_name_change_tr fuel n (held, s)) as ((_ & B1) & _). exact B1. Qed.
End Deep.
