(** Refs/CoherentRenDeep.v — C08_coherent, the levels below the moved entry: the
    Renamed calls of notifyNameChange (Refs/NotifiedDeep.v: exactly the
    registered live fidRefs at or below the node, a node's own childRefs before
    its child nodes) replayed on PathFS give every live non-fenced fidRef below
    the moved node the path of its node in the new tree - by induction on the
    depth: when a node is reached, every fidRef whose node it is already has
    the node's path (precondition), so its children are told path/name.  (pathB) *)
From Coq Require Import List Arith Bool ZArith Lia.
From P9V Require Import Refs.Model Refs.PathFS Refs.RefProofs Refs.NotifiedDeep
  Refs.CoherentTree Refs.CoherentDefs Refs.CoherentFs Refs.CoherentFrame Refs.CoherentRenLoop.
Import ListNotations.

Lemma liveb_live (s : st) q : liveb pfs s q = true <-> live s q.
Proof. unfold liveb, live. destruct (Z.leb_spec (fr_refs (gref s q)) 0); cbn; split; intros; try lia; try discriminate; auto. Qed.

Section Deep.
Variable s0 : st.
Variables (Pc : list nat).
Notation file q := (fr_file (gref s0 q)).
Notation nd q := (fr_node (gref s0 q)).
Notation par q := (fr_parent (gref s0 q)).
Notation regs n := (regs_of (gnode s0 n)).

Definition good (q : nat) : Prop := q < rlen s0 /\ live s0 q /\ tref s0 q /\ nonf s0 q.

Hypothesis HNT : NT s0.
Hypothesis HK : rkeys s0.
Hypothesis HSound : forall tau n q nm, node_at s0 (Pc ++ tau) = Some n -> In (q, nm) (regs n) -> live s0 q ->
  q < rlen s0 /\ tref s0 q /\
  (nonf s0 q -> exists p, par q = Some p /\ nd p = n /\ nch s0 n nm = Some (nd q) /\ good p).
Hypothesis HCompl : forall q tau, good q -> tau <> [] -> node_at s0 (Pc ++ tau) = Some (nd q) ->
  exists p nm, par q = Some p /\ In (q, nm) (regs (nd p)) /\ nch s0 (nd p) nm = Some (nd q).
Hypothesis HInj : forall q q', q < rlen s0 -> q' < rlen s0 -> tref s0 q -> tref s0 q' -> file q = file q' -> q = q'.

(** one Renamed call on the map File -> path *)
Definition upd (F : nat -> list nat) (e : nat * nat) : nat -> list nat :=
  if liveb pfs s0 (fst e) then
    match par (fst e) with
    | Some p => fun h => if h =? file (fst e) then F (file p) ++ [snd e] else F h
    | None => F
    end
  else F.
Definition replayP (L : list (nat * nat)) (F : nat -> list nat) : nat -> list nat := fold_left upd L F.

Lemma upd_ext F G e : (forall h, F h = G h) -> forall h, upd F e h = upd G e h.
Proof. intros E h. unfold upd. destruct (liveb pfs s0 (fst e)); auto. destruct (par (fst e)); auto. rewrite E. destruct (h =? _); auto. Qed.

Lemma replayP_ext L : forall F G, (forall h, F h = G h) -> forall h, replayP L F h = replayP L G h.
Proof. induction L as [|e L IH]; intros F G E h; cbn; auto. apply IH. apply upd_ext. exact E. Qed.

Lemma replayP_app A B F : replayP (A ++ B) F = replayP B (replayP A F).
Proof. apply fold_left_app. Qed.

(** the backend after the calls = the replay *)
Lemma replay_be L : forall fs F, (forall h, hpath fs h = F h) ->
  let fs' := fold_left (stepb pfs pfs_step) (flat_map (tell pfs s0) L) fs in
  (forall h, hpath fs' h = replayP L F h) /\ p_entries fs' = p_entries fs /\ p_dirs fs' = p_dirs fs /\ p_nextino fs' = p_nextino fs.
Proof.
  induction L as [|e L IH]; intros fs F E; [cbn; auto|].
  cbn [flat_map]. rewrite fold_left_app. change (replayP (e :: L) F) with (replayP L (upd F e)).
  remember (tell pfs s0 e) as te eqn:Ete. remember (upd F e) as Fe eqn:EFe. unfold tell in Ete. unfold upd in EFe.
  destruct (liveb pfs s0 (fst e)); [|subst; apply IH; exact E].
  destruct (par (fst e)) as [p|]; [|subst; apply IH; exact E].
  subst te. cbn [fold_left].
  assert (E1 : stepb pfs pfs_step fs (BRenamed (file (fst e)) (file p) (snd e)) =
               bind_file (file (fst e)) (mkpfile (hpath fs (file p) ++ [snd e]) (pf_fd (file_of (bump fs) (file (fst e))))) (bump fs)).
  { unfold stepb. rewrite pfs_step_renamed. reflexivity. }
  rewrite E1. set (fs1 := bind_file _ _ (bump fs)).
  destruct (IH fs1 Fe) as (A & B1 & B2 & B3).
  { intros h. subst Fe. unfold fs1. rewrite hpath_bind. cbn [pf_path]. change (hpath (bump fs) h) with (hpath fs h). rewrite !E. reflexivity. }
  cbv zeta. split; [exact A|]. rewrite B1, B2, B3. repeat split; reflexivity.
Qed.

(** ---- the induction ---- *)
Lemma path_len_neq (p : list nat) (a : nat) : p ++ a :: nil <> p /\ forall b, p ++ a :: b <> p.
Proof.
  split; [|intros b]; intros E; apply (f_equal (@length nat)) in E; rewrite app_length in E; cbn in E; lia.
Qed.

Lemma node_inj p p' n : node_at s0 p = Some n -> node_at s0 p' = Some n -> p = p'.
Proof. apply (walk_inj (nch s0) 0 (N_up _ HNT) (N_noroot _ HNT)). Qed.

Lemma nch_in n x c : nch s0 n x = Some c <-> In (x, c) (pn_nodes (gnode s0 n)).
Proof.
  split; [apply (alookup_In Nat.eqb Nat.eqb_spec) | apply (In_alookup Nat.eqb Nat.eqb_spec); apply HK].
Qed.

Section Node.
Variables (n : nat) (taun : list nat).
Let rho := Pc ++ taun.
Hypothesis Hn : node_at s0 rho = Some n.

Definition PreN (F : nat -> list nat) : Prop := forall p, good p -> nd p = n -> F (file p) = rho.

Lemma no_self x : nch s0 n x <> Some n.
Proof.
  intros H. assert (W : node_at s0 (rho ++ [x]) = Some n) by (unfold node_at in *; rewrite walk_snoc, Hn; exact H).
  pose proof (node_inj _ _ _ W Hn) as E. apply (proj1 (path_len_neq rho x)). exact E.
Qed.

(** the node's own childRefs *)
Lemma regs_replay R' : forall Done F, incl R' (regs n) -> incl Done (regs n) ->
  PreN F -> (forall q nm, In (q, nm) Done -> good q -> F (file q) = rho ++ [nm]) ->
  let F2 := replayP R' F in
  PreN F2 /\ (forall q nm, In (q, nm) (Done ++ R') -> good q -> F2 (file q) = rho ++ [nm]) /\
  (forall h, (forall q nm, In (q, nm) R' -> live s0 q -> file q <> h) -> F2 h = F h).
Proof.
  induction R' as [|[q nm] R' IH]; intros Done F HR HD HP HDn; cbn [replayP fold_left].
  - rewrite app_nil_r. auto.
  - assert (Hin : In (q, nm) (regs n)) by (apply HR; left; reflexivity).
    assert (HR' : incl R' (regs n)) by (intros e He; apply HR; right; exact He).
    assert (HD' : incl (Done ++ [(q, nm)]) (regs n)).
    { intros e He. apply in_app_or in He. destruct He as [He|[<-|[]]]; auto. }
    assert (Step : PreN (upd F (q, nm)) /\
                   (forall q' nm', In (q', nm') (Done ++ [(q, nm)]) -> good q' -> upd F (q, nm) (file q') = rho ++ [nm']) /\
                   (forall h, (live s0 q -> file q <> h) -> upd F (q, nm) h = F h)).
    { unfold upd. cbn [fst snd]. destruct (liveb pfs s0 q) eqn:Lq.
      2:{ split; [exact HP|]. split; [|auto]. intros q' nm' He G'. apply in_app_or in He. destruct He as [He|[[= <- <-]|[]]]; auto.
          exfalso. destruct G' as (_ & Lv & _). apply liveb_live in Lv. congruence. }
      apply liveb_live in Lq. destruct (HSound taun n q nm Hn Hin Lq) as (Lr & Tq & Snd).
      destruct (par q) as [p|] eqn:Ep.
      2:{ split; [exact HP|]. split; [|auto]. intros q' nm' He G'. apply in_app_or in He. destruct He as [He|[[= <- <-]|[]]]; auto.
          exfalso. destruct G' as (_ & _ & _ & Nf). destruct (Snd Nf) as (p & E & _). congruence. }
      assert (Qgood : nonf s0 q -> F (file p) = rho /\ nch s0 n nm = Some (nd q)).
      { intros Nf. destruct (Snd Nf) as (p0 & E0 & Np & Cn & Gp). injection E0 as <-. split; auto. }
      split; [|split].
      + intros p' Gp' Np'. destruct (Nat.eqb_spec (file p') (file q)) as [E|N]; [|apply HP; auto].
        exfalso. destruct Gp' as (Lp' & _ & Tp' & Nfp'). pose proof (HInj _ _ Lp' Lr Tp' Tq E) as ->.
        destruct (Qgood Nfp') as (_ & Cn). rewrite Np' in Cn. apply (no_self nm). exact Cn.
      + intros q' nm' He G'. destruct (Nat.eqb_spec (file q') (file q)) as [E|N].
        * destruct G' as (Lq' & Lvq' & Tq' & Nfq'). pose proof (HInj _ _ Lq' Lr Tq' Tq E) as ->.
          destruct (Qgood Nfq') as (EF & Cn). rewrite EF. f_equal. f_equal.
          assert (Hin' : In (q, nm') (regs n)) by (apply HD'; exact He).
          destruct (HSound taun n q nm' Hn Hin' Lq) as (_ & _ & Snd'). destruct (Snd' Nfq') as (_ & _ & _ & Cn' & _).
          destruct (N_up _ HNT _ _ _ _ _ Cn Cn') as (_ & ->). reflexivity.
        * apply in_app_or in He. destruct He as [He|[[= <- <-]|[]]]; [apply HDn; auto | congruence].
      + intros h Hh. destruct (Nat.eqb_spec h (file q)) as [->|N]; auto. exfalso. apply (Hh Lq). reflexivity. }
    destruct Step as (S1 & S2 & S3).
    destruct (IH (Done ++ [(q, nm)]) (upd F (q, nm)) HR' HD' S1 S2) as (A1 & A2 & A3).
    split; [exact A1|]. split.
    + intros q' nm' He. apply A2. rewrite <- app_assoc. exact He.
    + intros h Hh. rewrite A3; [apply S3|]; intros; eapply Hh; eauto; [left; reflexivity | right; eauto].
Qed.
End Node.

(** a good fidRef whose node is the child (x) of an attached node is registered there under x *)
Lemma child_registered taun n x c q :
  node_at s0 (Pc ++ taun) = Some n -> nch s0 n x = Some c -> good q -> nd q = c -> In (q, x) (regs n).
Proof.
  intros Hn Hc G E.
  assert (W : node_at s0 (Pc ++ (taun ++ [x])) = Some (nd q)).
  { rewrite app_assoc. unfold node_at in *. rewrite walk_snoc, Hn, E. exact Hc. }
  destruct (HCompl q (taun ++ [x]) G ltac:(destruct taun; discriminate) W) as (p & nm & Ep & Hin & Cn).
  rewrite E in Cn. destruct (N_up _ HNT _ _ _ _ _ Cn Hc) as (<- & <-). exact Hin.
Qed.

Definition Q1 (rho : list nat) (F : nat -> list nat) : Prop :=
  forall q sg, good q -> sg <> [] -> node_at s0 (rho ++ sg) = Some (nd q) -> F (file q) = rho ++ sg.
Definition touched (rho : list nat) (h : nat) : Prop :=
  exists q nm m sg, node_at s0 (rho ++ sg) = Some m /\ In (q, nm) (regs m) /\ live s0 q /\ file q = h.

Theorem deep_pure fuel : forall n taun F,
  node_at s0 (Pc ++ taun) = Some n -> nlen s0 <= length (Pc ++ taun) + fuel -> PreN n taun F ->
  let F' := replayP (below pfs fuel s0 n) F in
  Q1 (Pc ++ taun) F' /\ (forall h, ~ touched (Pc ++ taun) h -> F' h = F h).
Proof.
  induction fuel as [|f IH]; intros n taun F Hn Hf HP.
  - exfalso. pose proof (walk_length_bound (nch s0) 0 _ _ (nlen s0) (N_up _ HNT) (N_noroot _ HNT) (N_pos _ HNT) (N_bound _ HNT) Hn). lia.
  - cbn [below]. cbv zeta. rewrite replayP_app. set (rho := Pc ++ taun) in *.
    destruct (regs_replay n taun Hn (regs n) [] F (incl_refl _) (incl_nil_l _) HP ltac:(intros q nm [])) as (P1 & R1 & B1).
    set (F1 := replayP (regs n) F) in *. cbn [app] in R1.
    (* the child nodes, one after the other *)
    assert (Kids : forall Cs DoneCs F2, NoDup (map fst (DoneCs ++ Cs)) -> incl (DoneCs ++ Cs) (pn_nodes (gnode s0 n)) ->
              (forall q nm, In (q, nm) (regs n) -> good q -> F2 (file q) = rho ++ [nm]) ->
              (forall x c, In (x, c) DoneCs -> Q1 (rho ++ [x]) F2) ->
              let F3 := replayP (flat_map (fun c => below pfs f s0 (snd c)) Cs) F2 in
              (forall q nm, In (q, nm) (regs n) -> good q -> F3 (file q) = rho ++ [nm]) /\
              (forall x c, In (x, c) (DoneCs ++ Cs) -> Q1 (rho ++ [x]) F3) /\
              (forall h, ~ touched rho h -> F3 h = F2 h)).
    { induction Cs as [|[x c] Cs IHc]; intros DoneCs F2 ND Hincl J2 J3; cbn [flat_map].
      - cbn. rewrite app_nil_r. auto.
      - rewrite replayP_app.
        assert (Hxc : nch s0 n x = Some c). { apply nch_in. apply Hincl. apply in_or_app. right. left. reflexivity. }
        assert (Hc : node_at s0 (Pc ++ (taun ++ [x])) = Some c).
        { rewrite app_assoc. unfold node_at in *. fold rho. rewrite walk_snoc, Hn. exact Hxc. }
        assert (Hfc : nlen s0 <= length (Pc ++ (taun ++ [x])) + f).
        { rewrite app_assoc, app_length. cbn. fold rho. lia. }
        assert (Pre' : PreN c (taun ++ [x]) F2).
        { intros p Gp Np. rewrite app_assoc. fold rho. apply J2; auto. eapply child_registered; eauto. }
        destruct (IH c (taun ++ [x]) F2 Hc Hfc Pre') as (Q1c & Frc). rewrite app_assoc in Q1c, Frc. fold rho in Q1c, Frc.
        set (F2' := replayP (below pfs f s0 c) F2) in *.
        (* files touched below c belong to fidRefs registered strictly below n through x *)
        assert (Tch : forall h, touched (rho ++ [x]) h -> touched rho h).
        { intros h (q & nm & m & sg & W & Hin & Lv & E). exists q, nm, m, ([x] ++ sg). rewrite app_assoc. auto. }
        assert (Unt : forall q, good q -> (forall m sg nm, node_at s0 (rho ++ [x] ++ sg) = Some m -> ~ In (q, nm) (regs m)) -> F2' (file q) = F2 (file q)).
        { intros q Gq Hq. apply Frc. intros (q' & nm' & m & sg & W & Hin & Lv & E).
          assert (Wm : node_at s0 (Pc ++ (taun ++ [x] ++ sg)) = Some m). { rewrite app_assoc. fold rho. rewrite <- app_assoc in W. exact W. }
          destruct (HSound _ m q' nm' Wm Hin Lv) as (Lq' & Tq' & _). destruct Gq as (Lq & Lvq & Tq & Nfq).
          pose proof (HInj _ _ Lq' Lq Tq' Tq E) as ->. apply (Hq m sg nm'); auto. rewrite <- app_assoc in W. exact W. }
        assert (J2' : forall q nm, In (q, nm) (regs n) -> good q -> F2' (file q) = rho ++ [nm]).
        { intros q nm Hin Gq. rewrite Unt; auto. intros m sg nm' W Hin'.
          assert (Wm : node_at s0 (Pc ++ (taun ++ [x] ++ sg)) = Some m). { rewrite app_assoc. fold rho. exact W. }
          destruct Gq as (Lq & Lvq & Tq & Nfq).
          destruct (HSound _ m q nm' Wm Hin' Lvq) as (_ & _ & S1). destruct (S1 Nfq) as (_ & _ & _ & C1 & _).
          destruct (HSound _ n q nm Hn Hin Lvq) as (_ & _ & S2). destruct (S2 Nfq) as (_ & _ & _ & C2 & _).
          destruct (N_up _ HNT _ _ _ _ _ C1 C2) as (-> & _).
          pose proof (node_inj _ _ _ W Hn) as E. fold rho in E. apply (proj2 (path_len_neq rho x) sg). exact E. }
        assert (J3' : forall x1 c1, In (x1, c1) (DoneCs ++ [(x, c)]) -> Q1 (rho ++ [x1]) F2').
        { intros x1 c1 He. apply in_app_or in He. destruct He as [He|[[= <- <-]|[]]]; [|exact Q1c].
          intros q sg Gq Hsg W. rewrite Unt; auto; [apply (J3 x1 c1 He); auto|].
          intros m sg' nm' W' Hin'.
          assert (Wm : node_at s0 (Pc ++ (taun ++ [x] ++ sg')) = Some m). { rewrite app_assoc. fold rho. exact W'. }
          destruct Gq as (Lq & Lvq & Tq & Nfq).
          destruct (HSound _ m q nm' Wm Hin' Lvq) as (_ & _ & S1). destruct (S1 Nfq) as (_ & _ & _ & C1 & _).
          assert (W2 : node_at s0 ((rho ++ [x] ++ sg') ++ [nm']) = Some (nd q)) by (unfold node_at in *; rewrite walk_snoc, W'; exact C1).
          pose proof (node_inj _ _ _ W W2) as E. rewrite <- !app_assoc in E. apply app_inv_head in E. cbn in E. injection E as E1 _.
          subst x1. rewrite map_app in ND. cbn in ND. apply NoDup_remove_2 in ND. apply ND. apply in_or_app. left.
          apply (in_map fst) in He. exact He. }
        specialize (IHc (DoneCs ++ [(x, c)]) F2').
        rewrite <- app_assoc in IHc. cbn [app] in IHc. destruct (IHc ND Hincl J2' J3') as (A1 & A2 & A3).
        split; [exact A1|]. split; [exact A2|]. intros h Hh. rewrite A3 by auto. apply Frc. intros X. apply Hh. apply Tch. exact X. }
    destruct (Kids (pn_nodes (gnode s0 n)) [] F1 (proj2 (HK n)) (incl_refl _) R1 ltac:(intros x c [])) as (K1 & K2 & K3).
    cbn [app] in K2. set (F3 := replayP _ F1) in *.
    split.
    + intros q sg Gq Hsg W. destruct sg as [|x sg]; [congruence|].
      assert (Wx : exists c, nch s0 n x = Some c /\ node_at s0 ((rho ++ [x]) ++ sg) = Some (nd q)).
      { rewrite <- app_assoc. cbn [app]. unfold node_at in W |- *. rewrite walk_app in W |- *. fold (node_at s0 rho) in W |- *.
        rewrite Hn in W |- *. cbn [walk] in W |- *. destruct (nch s0 n x) as [c|]; [|discriminate]. exists c. split; auto. }
      destruct Wx as (c & Hxc & W'). pose proof (proj1 (nch_in n x c) Hxc) as Hin.
      destruct sg as [|y sg].
      * rewrite app_nil_r in W'. apply K1; auto. eapply child_registered; eauto.
        unfold node_at in W'. rewrite walk_snoc in W'. fold (node_at s0 rho) in W'. rewrite Hn, Hxc in W'. injection W' as E. auto.
      * replace (rho ++ x :: y :: sg) with ((rho ++ [x]) ++ y :: sg) by (rewrite <- app_assoc; reflexivity).
        apply (K2 x c Hin); auto. discriminate.
    + intros h Hh. rewrite K3 by auto. apply B1. intros q nm Hin Lv E. apply Hh. exists q, nm, n, []. rewrite app_nil_r. auto.
Qed.
End Deep.
