(** Refs/CoherentFrame.v — C08_coherent: the frame relation [shrink] (what most
    of a request does: counts move, fidRefs die, dead fidRefs are unregistered,
    fresh leaves appear in the node tree and in PathFS, fresh Files are bound)
    keeps the invariant [Good].  (pathB) *)
From Coq Require Import List Arith Bool ZArith Lia.
From P9V Require Import Refs.Model Refs.PathFS Refs.RefProofs Refs.RefStep Refs.FenceProofs Refs.CoherentTree Refs.CoherentDefs Refs.CoherentFs.
Import ListNotations.

Definition xmode (x : fidref) : bool := match fr_xattrOf x with Some _ => is_dir (fr_mode x) | None => false end.
Definition core (x : fidref) := (fr_file x, fr_node x, fr_parent x, fr_xattrOf x, xmode x).

Record shrink (s s' : st) : Prop := mkShrink {
  S_len : rlen s' = rlen s;
  S_core : forall q, core (gref s' q) = core (gref s q);
  S_live : forall q, live s' q -> live s q;
  S_del : forall n, pn_deleted (gnode s' n) = pn_deleted (gnode s n);
  S_nt : NT s -> NT s' /\ forall p n, node_at s p = Some n -> node_at s' p = Some n;
  S_nexth : s_nexth pfs s <= s_nexth pfs s';
  S_nlen : nlen s <= nlen s';
  S_fs : FsInv (s_be pfs s) -> FsInv (s_be pfs s') /\
         forall p i, resolve (s_be pfs s) p = Some i -> resolve (s_be pfs s') p = Some i;
  S_paths : forall h, h < s_nexth pfs s -> hpath (s_be pfs s') h = hpath (s_be pfs s) h;
  S_keys : rkeys s -> rkeys s' }.

Lemma shrink_refl s : shrink s s.
Proof. constructor; auto. Qed.

Lemma shrink_trans a b c : shrink a b -> shrink b c -> shrink a c.
Proof.
  intros X Y. constructor.
  - rewrite (S_len _ _ Y). apply X.
  - intros q. rewrite (S_core _ _ Y). apply X.
  - intros q H. apply X. apply Y. exact H.
  - intros n. rewrite (S_del _ _ Y). apply X.
  - intros H. destruct (S_nt _ _ X H) as (H1 & W1). destruct (S_nt _ _ Y H1) as (H2 & W2). split; auto.
  - pose proof (S_nexth _ _ X). pose proof (S_nexth _ _ Y). lia.
  - pose proof (S_nlen _ _ X). pose proof (S_nlen _ _ Y). lia.
  - intros H. destruct (S_fs _ _ X H) as (H1 & W1). destruct (S_fs _ _ Y H1) as (H2 & W2). split; auto.
  - intros h Hh. rewrite (S_paths _ _ Y) by (pose proof (S_nexth _ _ X); lia). apply X. exact Hh.
  - intros K. apply (S_keys _ _ Y). apply (S_keys _ _ X). exact K.
Qed.

Lemma core_fields x y : core x = core y ->
  fr_file x = fr_file y /\ fr_node x = fr_node y /\ fr_parent x = fr_parent y /\ fr_xattrOf x = fr_xattrOf y.
Proof. unfold core. intros [= -> -> -> -> _]. auto. Qed.

Lemma core_xmode x y : core x = core y -> xmode x = xmode y.
Proof. unfold core. intros [= _ _ _ _ E]. exact E. Qed.

Lemma shrink_good s s' g : shrink s s' -> Good s g -> Good s' g.
Proof.
  intros X G.
  assert (CF : forall q, fr_file (gref s' q) = fr_file (gref s q) /\ fr_node (gref s' q) = fr_node (gref s q) /\
                         fr_parent (gref s' q) = fr_parent (gref s q) /\ fr_xattrOf (gref s' q) = fr_xattrOf (gref s q))
    by (intros q; apply core_fields; apply X).
  assert (TR : forall q, tref s' q <-> tref s q). { intros q. unfold tref. destruct (CF q) as (_ & _ & _ & ->). tauto. }
  assert (NF : forall q, nonf s' q <-> nonf s q).
  { intros q. unfold nonf, is_deleted. destruct (CF q) as (_ & -> & _). rewrite (S_del _ _ X). tauto. }
  assert (FP : forall q, q < rlen s -> fpath s' q = fpath s q).
  { intros q Hq. unfold fpath. destruct (CF q) as (-> & _). apply (S_paths _ _ X). apply (G_file _ _ G). exact Hq. }
  pose proof (S_len _ _ X) as L.
  destruct (S_nt _ _ X (G_nt _ _ G)) as (NT' & NW). destruct (S_fs _ _ X (G_fs _ _ G)) as (FS' & FW).
  constructor; auto.
  - intros r Hr Lv T N. rewrite L in Hr. rewrite FP by auto. destruct (CF r) as (_ & -> & _).
    apply NW. apply (G_node _ _ G); auto; [apply X | apply TR | apply NF]; auto.
  - intros r Hr Lv T N. rewrite L in Hr. rewrite FP by auto.
    destruct (G_obj _ _ G r Hr) as (i & Ri & Gi); [apply X | apply TR | apply NF|]; auto. exists i. split; auto.
  - intros r o Hr E. rewrite L in Hr. destruct (CF r) as (Ef & En & Ep & Ex). rewrite Ex in E.
    destruct (G_xattr _ _ G r o Hr E) as (A1 & A2 & A3 & A4 & A5).
    destruct (CF o) as (Ef' & En' & _). rewrite Ef, En, Ep, Ef', En'. repeat split; auto.
    intros Lv N. apply A5; [apply X | apply NF]; auto.
  - intros r Hr. rewrite L in Hr. destruct (CF r) as (-> & _). pose proof (G_file _ _ G r Hr). pose proof (S_nexth _ _ X). lia.
  - intros r r' Hr Hr' T T'. rewrite L in *. destruct (CF r) as (-> & _). destruct (CF r') as (-> & _).
    apply (G_file_inj _ _ G); auto; apply TR; auto.
  - intros r p Hr E. rewrite L in *. destruct (CF r) as (_ & _ & Ep & _). rewrite Ep in E.
    destruct (G_parent _ _ G r p Hr E) as (A & A' & A''). repeat split; auto; apply TR; auto.
  - intros r Hr. rewrite L in Hr. destruct (CF r) as (_ & -> & _). pose proof (G_nbound _ _ G r Hr). pose proof (S_nlen _ _ X). lia.
  - intros r o Hr E. rewrite L in Hr. pose proof (core_xmode _ _ (S_core _ _ X r)) as XM. unfold xmode in XM.
    destruct (CF r) as (_ & _ & _ & Ex). rewrite Ex in E, XM. rewrite E in XM. rewrite XM. eapply (G_xmode _ _ G); eauto.
  - intros r Hr Ep T. rewrite L in Hr. destruct (CF r) as (_ & En & Ep' & _). rewrite En. rewrite Ep' in Ep.
    apply (G_root _ _ G); auto. apply TR; auto.
  - intros r p Hr Lv N E. rewrite L in Hr. destruct (CF r) as (_ & _ & Ep & _). rewrite Ep in E.
    apply NF. apply (G_pnonf _ _ G r p Hr); auto; [apply X; auto | apply NF; auto].
  - apply (S_keys _ _ X). apply G.
  - rewrite L. apply G.
Qed.

(** ---- pointwise changes of the state ---- *)

(** a step that leaves fidRef cores, node tree, deleted marks, handles and the backend's tree and paths alone *)
Lemma shrink_simple s s' :
  rlen s' = rlen s -> (forall q, core (gref s' q) = core (gref s q)) -> (forall q, live s' q -> live s q) ->
  (forall n, pn_deleted (gnode s' n) = pn_deleted (gnode s n)) ->
  (forall n, pn_nodes (gnode s' n) = pn_nodes (gnode s n)) -> nlen s' = nlen s ->
  s_nexth pfs s <= s_nexth pfs s' ->
  p_entries (s_be pfs s') = p_entries (s_be pfs s) -> p_dirs (s_be pfs s') = p_dirs (s_be pfs s) ->
  p_nextino (s_be pfs s') = p_nextino (s_be pfs s) ->
  (forall h, h < s_nexth pfs s -> hpath (s_be pfs s') h = hpath (s_be pfs s) h) ->
  (rkeys s -> rkeys s') ->
  shrink s s'.
Proof.
  intros L Cq Lv D Nn Nl Nh E Dd Ni P Kk.
  assert (CH : forall n x, nch s' n x = nch s n x) by (intros; unfold nch; rewrite Nn; reflexivity).
  assert (EN : forall d x, entry (s_be pfs s') d x = entry (s_be pfs s) d x) by (intros; unfold entry; rewrite E; reflexivity).
  constructor; auto; [| lia |].
  - intros [U R Bd Ps]. split.
    + constructor.
      * intros n x n' x' c. rewrite !CH. apply U.
      * intros n x. rewrite CH. apply R.
      * intros n x c. rewrite CH, Nl. apply Bd.
      * rewrite Nl. exact Ps.
    + intros p n. unfold node_at. rewrite (walk_eq _ _ CH). auto.
  - intros [U R K Dr Bd Rt]. split.
    + constructor.
      * intros n x n' x' c. rewrite !EN. apply U.
      * intros n x. rewrite EN. apply R.
      * rewrite E. exact K.
      * intros d x c. rewrite EN. unfold isdir. rewrite Dd. apply Dr.
      * intros d x c. rewrite EN, Ni. apply Bd.
      * rewrite Ni. exact Rt.
    + intros p i. rewrite !resolve_walk. rewrite (walk_eq _ _ EN). auto.
Qed.

(** refs and nodes untouched, the backend extended *)
Lemma shrink_be s s' :
  s_refs pfs s' = s_refs pfs s -> s_nodes pfs s' = s_nodes pfs s -> s_nexth pfs s <= s_nexth pfs s' ->
  fext (s_nexth pfs s) (s_be pfs s) (s_be pfs s') -> shrink s s'.
Proof.
  intros R N H (F1 & F2).
  assert (GR : forall q, gref s' q = gref s q) by (intros; unfold get_ref; rewrite R; reflexivity).
  assert (GN : forall n, gnode s' n = gnode s n) by (intros; unfold get_node; rewrite N; reflexivity).
  assert (CH : forall n x, nch s' n x = nch s n x) by (intros; unfold nch; rewrite GN; reflexivity).
  constructor; auto.
  - unfold rlen. rewrite R. reflexivity.
  - intros q. rewrite GR. reflexivity.
  - intros q. unfold live. rewrite GR. auto.
  - intros n. rewrite GN. reflexivity.
  - intros [U Rt Bd Ps]. split.
    + constructor.
      * intros n x n' x' c. rewrite !CH. apply U.
      * intros n x. rewrite CH. apply Rt.
      * intros n x c. rewrite CH. unfold nlen. rewrite N. apply Bd.
      * unfold nlen. rewrite N. exact Ps.
    + intros p n. unfold node_at. rewrite (walk_eq _ _ CH). auto.
  - unfold nlen. rewrite N. lia.
  - intros K n. rewrite GN. apply K.
Qed.

Lemma bcall_be c (s : st) :
  let s' := snd (bcall_ pfs pfs_step c s) in
  s_be pfs s' = fst (pfs_step (s_be pfs s) c) /\ fst (bcall_ pfs pfs_step c s) = snd (pfs_step (s_be pfs s) c) /\
  s_refs pfs s' = s_refs pfs s /\ s_nodes pfs s' = s_nodes pfs s /\ s_nexth pfs s' = s_nexth pfs s /\
  s_fids pfs s' = s_fids pfs s /\ s_held pfs s' = s_held pfs s /\ s_panic pfs s' = s_panic pfs s.
Proof. unfold bcall_. destruct (pfs_step (s_be pfs s) c) as [b' a]. cbn. repeat split; reflexivity. Qed.

Lemma sh_bcall c (s : st) : quiet (s_nexth pfs s) c -> shrink s (snd (bcall_ pfs pfs_step c s)).
Proof.
  intros Q. destruct (bcall_be c s) as (E & _ & R & N & H & _).
  apply shrink_be; auto; [lia|]. rewrite E. apply pfs_step_quiet. exact Q.
Qed.

Lemma gref_set_ref r x (s : st) q : gref (set_ref pfs r x s) q = if (q =? r) && (r <? rlen s) then x else gref s q.
Proof.
  unfold get_ref, set_ref, rlen. cbn [s_refs with_refs].
  destruct (Nat.eqb_spec q r) as [->|N]; cbn [andb].
  - destruct (Nat.ltb_spec r (length (s_refs pfs s))); [rewrite nth_upd_same by auto; reflexivity | rewrite upd_oob by auto; reflexivity].
  - rewrite nth_upd_other by auto. reflexivity.
Qed.

Lemma sh_set_ref r x (s : st) : core x = core (gref s r) -> ((0 < fr_refs x)%Z -> live s r) -> shrink s (set_ref pfs r x s).
Proof.
  intros Cx Lx. apply shrink_simple; try reflexivity; auto.
  - unfold rlen, set_ref. cbn. apply upd_length.
  - intros q. rewrite gref_set_ref. destruct ((q =? r) && (r <? rlen s)) eqn:E; auto.
    apply andb_prop in E. destruct E as (E & _). apply Nat.eqb_eq in E. subst. exact Cx.
  - intros q. unfold live at 1. rewrite gref_set_ref. destruct ((q =? r) && (r <? rlen s)) eqn:E; auto.
    apply andb_prop in E. destruct E as (E & _). apply Nat.eqb_eq in E. subst. exact Lx.
Qed.

Lemma core_with_refs x z : core (fr_with_refs x z) = core x. Proof. reflexivity. Qed.

Lemma sh_incref r (s : st) : live s r -> shrink s (incref pfs r s).
Proof. intros L. unfold incref. apply sh_set_ref; [apply core_with_refs | auto]. Qed.

Lemma sh_drop r (s : st) z : (z <= fr_refs (gref s r))%Z -> shrink s (set_ref pfs r (fr_with_refs (gref s r) z) s).
Proof. intros L. apply sh_set_ref; [apply core_with_refs|]. cbn. unfold live. lia. Qed.

(** changes of fid table, holders, flags *)
Lemma sh_meta (s s' : st) :
  s_refs pfs s' = s_refs pfs s -> s_nodes pfs s' = s_nodes pfs s -> s_nexth pfs s <= s_nexth pfs s' -> s_be pfs s' = s_be pfs s ->
  shrink s s'.
Proof. intros R N H E. apply shrink_be; auto. rewrite E. apply fext_refl. Qed.

Lemma sh_hold r (s : st) : live s r -> shrink s (hold pfs r s).
Proof. intros L. eapply shrink_trans; [apply sh_incref; exact L|]. apply sh_meta; reflexivity || auto. Qed.

(** a node's registrations change, its children and its mark do not *)
Lemma gnode_set_node n x (s : st) m : gnode (set_node pfs n x s) m = if (m =? n) && (n <? nlen s) then x else gnode s m.
Proof.
  unfold get_node, set_node, nlen. cbn [s_nodes with_nodes].
  destruct (Nat.eqb_spec m n) as [->|N]; cbn [andb].
  - destruct (Nat.ltb_spec n (length (s_nodes pfs s))); [rewrite nth_upd_same by auto; reflexivity | rewrite upd_oob by auto; reflexivity].
  - rewrite nth_upd_other by auto. reflexivity.
Qed.

Lemma sh_set_node_regs n x (s : st) :
  pn_nodes x = pn_nodes (gnode s n) -> pn_deleted x = pn_deleted (gnode s n) ->
  (pkeys (gnode s n) -> pkeys x) -> shrink s (set_node pfs n x s).
Proof.
  intros E D Kx. apply shrink_simple; try reflexivity; auto.
  - intros m. rewrite gnode_set_node. destruct ((m =? n) && (n <? nlen s)) eqn:X; auto.
    apply andb_prop in X. destruct X as (X & _). apply Nat.eqb_eq in X. subst. exact D.
  - intros m. rewrite gnode_set_node. destruct ((m =? n) && (n <? nlen s)) eqn:X; auto.
    apply andb_prop in X. destruct X as (X & _). apply Nat.eqb_eq in X. subst. exact E.
  - unfold nlen, set_node. cbn. apply upd_length.
  - intros K m. rewrite gnode_set_node. destruct ((m =? n) && (n <? nlen s)) eqn:X; auto.
Qed.

Lemma sh_set_panic (s : st) : shrink s (set_panic pfs s). Proof. apply sh_meta; reflexivity || auto. Qed.
Lemma sh_set_oof (s : st) : shrink s (set_oof pfs s). Proof. apply sh_meta; reflexivity || auto. Qed.
Lemma sh_with_held f (s : st) : shrink s (with_held pfs f s). Proof. apply sh_meta; reflexivity || auto. Qed.
Lemma sh_with_fids f (s : st) : shrink s (with_fids pfs f s). Proof. apply sh_meta; reflexivity || auto. Qed.
Lemma sh_take_handle (s : st) : shrink s (take_handle pfs s). Proof. apply sh_meta; try reflexivity. cbn. lia. Qed.

Lemma sh_remove_child n r (s : st) : shrink s (remove_child pfs n r s).
Proof.
  unfold remove_child. destruct (alookup _ _ _); [|apply shrink_refl].
  destruct (alookup Nat.eqb n0 _) as [m|]; [|apply sh_set_panic].
  apply sh_set_node_regs; try reflexivity. intros K. apply pkeys_with_refs; auto. destruct K as (K & _).
  destruct (remove_nat r m); [apply (gadel_nodup Nat.eqb Nat.eqb_spec) | apply (gaset_nodup Nat.eqb Nat.eqb_spec)]; exact K.
Qed.

Lemma sh_add_child n r nm (s : st) : shrink s (add_child pfs n r nm s).
Proof.
  unfold add_child. destruct (alookup _ _ _); [apply sh_set_panic|]. apply sh_set_node_regs; try reflexivity.
  intros K. apply pkeys_with_refs; auto. apply (gaset_nodup Nat.eqb Nat.eqb_spec). apply K.
Qed.

Lemma sh_decref fuel : forall r (s : st), shrink s (snd (decref pfs pfs_step fuel r s)).
Proof.
  induction fuel as [|f IH]; intros r s; cbn [decref]; [apply sh_set_oof|].
  set (x := gref s r). set (s1 := set_ref pfs r (fr_with_refs x (fr_refs x - 1)) s).
  assert (S1 : shrink s s1) by (apply sh_drop; fold x; lia).
  destruct (fr_refs x - 1 =? 0)%Z; [|exact S1].
  assert (S2 : shrink s1 (snd (match fr_xattrOf x with
                             | Some o => decref pfs pfs_step f o s1
                             | None => let '(a, s2) := bcall_ pfs pfs_step (BClose (fr_file x)) s1 in
                                       (match a with AErr e => Some e | _ => None end, s2)
                             end))).
  { destruct (fr_xattrOf x); [apply IH|].
    pose proof (sh_bcall (BClose (fr_file x)) s1 I) as Q. destruct (bcall_ pfs pfs_step _ s1). exact Q. }
  destruct (match fr_xattrOf x with Some o => _ | None => _ end) as [e1 s2]. cbn [snd] in S2.
  destruct (fr_parent x) as [p|]; [|cbn [snd]; eapply shrink_trans; eauto].
  pose proof (IH p (remove_child pfs (fr_node (gref s2 p)) r s2)) as S4.
  destruct (decref pfs pfs_step f p _) as [e2 s4]. cbn [snd] in *.
  eapply shrink_trans; [exact S1|]. eapply shrink_trans; [exact S2|]. eapply shrink_trans; [apply sh_remove_child | exact S4].
Qed.

Lemma sh_release r (s : st) : shrink s (release pfs pfs_step r s).
Proof. unfold release. eapply shrink_trans; [apply sh_with_held | apply sh_decref]. Qed.

Lemma sh_delete_fid c fid (s : st) : shrink s (snd (delete_fid pfs pfs_step c fid s)).
Proof.
  unfold delete_fid. destruct (alookup _ _ _); [|apply shrink_refl].
  eapply shrink_trans; [apply sh_with_fids | apply sh_decref].
Qed.

Lemma sh_insert_fid c fid r (s : st) : live s r -> shrink s (insert_fid pfs pfs_step c fid r s).
Proof.
  intros L. unfold insert_fid.
  assert (S1 : shrink s (with_fids pfs (aset peqb (c, fid) r (s_fids pfs s)) (incref pfs r s))).
  { eapply shrink_trans; [apply sh_incref; exact L | apply sh_with_fids]. }
  destruct (alookup _ _ _); [|exact S1]. eapply shrink_trans; [exact S1 | apply sh_decref].
Qed.

Lemma sh_release_all l : forall s : st, shrink s (release_all pfs pfs_step l s).
Proof. induction l as [|r l IH]; intros s; cbn; [apply shrink_refl|]. eapply shrink_trans; [apply sh_release | apply IH]. Qed.
