(** Refs/TreeStep.v — C08_tree_inv for every request and every history, for every backend:
    the handler walk of Refs/LifeStep.v replayed with the path-tree invariant of Refs/TreeProofs.v. *)
From Coq Require Import List Arith Bool ZArith Lia.
From P9V Require Import Refs.Model Refs.RefProofs Refs.RefStep Refs.LifeProofs Refs.LifeStep Refs.ErrPaths Refs.FenceProofs Refs.TreeInv Refs.TreeProofs.
Import ListNotations.

Section TStep.
Variable B : Type.
Variable bstep : B -> bcall -> B * bans.
Notation st := (sstate B).
Notation gref := (get_ref B).
Notation gnode := (get_node B).
Notation tokM := (tree_okM B).
Notation same_tree := (same_tree B).
Notation nlen := (nlen B).
Notation rlen := (rlen B).

(** the effect of walkOne on the path tree: nothing, or the pathNodeFor of the fallback GetAttr *)
Lemma walk_one_tree from_h from_node nm getattr (s : st) :
  exists b : bool,
    same_tree (if b then match nm with Some x => snd (path_node_for B from_node x s) | None => s end else s)
              (snd (walk_one B bstep from_h from_node nm getattr s)).
Proof.
  unfold walk_one, bcall_, take_handle.
  destruct getattr, nm as [x|]; cbn;
  repeat (match goal with
          | |- context [bstep ?b ?c] => let a := fresh "a" in destruct (bstep b c) as [? a]; destruct a; cbn
          | |- context [if ?b then _ else _] => destruct b; cbn
          end);
  first [ exists false; split; [reflexivity | split; [reflexivity | intros q; repeat split; auto]]
        | exists true; unfold path_node_for, with_nexth, with_nodes, set_node, get_node; cbn;
          repeat (match goal with |- context [alookup ?e ?k ?l] => destruct (alookup e k l); cbn end);
          (split; [reflexivity | split; [reflexivity | intros q; repeat split; auto]]) ].
Qed.

Notation C := (C B).
Notation hc := (hc B).
Notation led := (led B).
Notation heldall := (heldall B).
Notation KInv := (KInv B).
Notation FInvP := (FInvP B).
Notation led_refl := (led_refl B).
Notation led_trans := (led_trans B).
Notation led_equiv := (led_equiv B).
Notation led_ge := (led_ge B).
Notation C_hc := (C_hc B).
Notation led_weaken_panic := (led_weaken_panic B).
Notation led_hc_pos := (led_hc_pos B).
Notation led_keeps := (led_keeps B).
Notation closed := (closed B).
Notation slu := (slu B).

(** all invariants; [mv], [E]: see Refs/TreeProofs.v *)
Definition GP (s : st) (d : list nat) (pend : option nat) (mv : mvt) (E : list nat) : Prop :=
  FInvP s d pend /\ tokM s mv E [].
Definition FInv (s : st) (d : list nat) : Prop := GP s d None None [].

(** frames of everything *)
Definition slt (s s' : st) : Prop := slu s s' /\ same_tree s s'.
Notation same_life := slt.

Lemma same_life_refl s : same_life s s.
Proof. split; [apply LifeStep.same_life_refl | apply same_tree_refl]. Qed.
Lemma same_life_trans a b c : same_life a b -> same_life b c -> same_life a c.
Proof. intros (A1 & U1) (A2 & U2). split; [eapply LifeStep.same_life_trans; eauto | eapply same_tree_trans; eauto]. Qed.

Lemma sl_bcall c s : is_close c = false -> (forall h, In h (uses c) -> ~ closed s h) -> same_life s (snd (bcall_ B bstep c s)).
Proof. intros Hc Hu. split; [apply LifeStep.sl_bcall; auto | apply st_bcall]. Qed.
Notation sl_bc c s u := (sl_bcall c s eq_refl u).

Lemma sl_set_panic s : same_life s (set_panic B s).
Proof. split; [apply LifeStep.sl_set_panic | repeat split; auto]. Qed.
Lemma sl_set_oof s : same_life s (set_oof B s).
Proof. split; [apply LifeStep.sl_set_oof | repeat split; auto]. Qed.

Lemma sl_guarded_call r g c s :
  is_close c = false -> (forall h, In h (uses c) -> ~ closed s h) -> same_life s (snd (guarded_call B bstep r g c s)).
Proof.
  intros Hc Hu. unfold guarded_call. destruct g; [apply same_life_refl|].
  pose proof (sl_bcall c s Hc Hu) as H. destruct (bcall_ B bstep c s) as [a s1]. destruct a; exact H.
Qed.

Lemma led_sl s s' : same_life s s' -> led [] [] s s'.
Proof. intros (SL & _). apply LifeStep.led_sl; auto. Qed.

(** ---- primitives ---- *)
Lemma sl_ok s s' d pend mv E : same_life s s' -> GP s d pend mv E -> GP s' d pend mv E /\ led [] [] s s'.
Proof.
  intros (SL & ST) (F & T). destruct (LifeStep.sl_ok B s s' d pend SL F) as (F1 & L1).
  split; [split; [exact F1 | eapply M_frame; eauto] | exact L1].
Qed.

Lemma live_ref s d pend r : FInvP s d pend -> 0 < C s r -> r < rlen s /\ (0 < fr_refs (gref s r))%Z.
Proof. intros (I & _) H. apply (inv_live B s d r I H). Qed.

(** IncRef of a live fidRef is a frame of the tree *)
Lemma st_incref s r : (0 < fr_refs (gref s r))%Z -> same_tree s (incref B r s).
Proof.
  intros L. unfold incref. split; [reflexivity|]. split; [apply len_set_ref|]. intros q. unfold TreeInv.ref_live.
  destruct (Nat.eq_dec r q) as [<-|N].
  - destruct (Nat.lt_ge_cases r (length (s_refs B s))) as [Lr|Lr].
    + rewrite gref_set_same by exact Lr. cbn. repeat split; auto; lia.
    + unfold set_ref. rewrite upd_oob by exact Lr. destruct s; cbn. repeat split; auto.
  - rewrite gref_set_other by exact N. repeat split; auto.
Qed.

Lemma st_with_held h s : same_tree s (with_held B h s). Proof. repeat split; auto. Qed.
Lemma st_with_fids f s : same_tree s (with_fids B f s). Proof. repeat split; auto. Qed.
Lemma st_take_handle s : same_tree s (take_handle B s). Proof. repeat split; auto. Qed.

Lemma hold_ok s d pend mv E r : GP s d pend mv E -> 0 < C s r -> GP (hold B r s) d pend mv E /\ led [r] [] s (hold B r s).
Proof.
  intros (F & T) H. destruct (LifeStep.hold_ok B s d pend r F H) as (F1 & L1). split; [split; [exact F1|] | exact L1].
  destruct (live_ref s d pend r F H) as (_ & Lv). unfold hold.
  eapply M_frame; [apply st_with_held|]. eapply M_frame; [apply st_incref; exact Lv | exact T].
Qed.

Lemma release_ok s d pend mv E r :
  GP s d pend mv E -> 0 < hc s r -> GP (release B bstep r s) d pend mv E /\ led [] [r] s (release B bstep r s).
Proof.
  intros (F & T) H. destruct (LifeStep.release_ok B bstep s d pend r F H) as (F1 & L1). split; [split; [exact F1|] | exact L1].
  unfold release, decref_. apply decref_T. eapply M_frame; [apply st_with_held | exact T].
Qed.

Lemma insert_ok s d pend mv E c fid r :
  GP s d pend mv E -> 0 < C s r ->
  GP (insert_fid B bstep c fid r s) d pend mv E /\ led [] [] s (insert_fid B bstep c fid r s).
Proof.
  intros (F & T) H. destruct (LifeStep.insert_ok B bstep s d pend c fid r F H) as (F1 & L1). split; [split; [exact F1|] | exact L1].
  destruct (live_ref s d pend r F H) as (_ & Lv). unfold insert_fid.
  assert (T1 : tokM (with_fids B (aset peqb (c, fid) r (s_fids B s)) (incref B r s)) mv E []).
  { eapply M_frame; [apply st_with_fids|]. eapply M_frame; [apply st_incref; exact Lv | exact T]. }
  destruct (alookup peqb (c, fid) (s_fids B s)); [|exact T1]. unfold decref_. apply decref_T. exact T1.
Qed.

Lemma delete_ok s d pend mv E c fid :
  GP s d pend mv E -> GP (snd (delete_fid B bstep c fid s)) d pend mv E /\ led [] [] s (snd (delete_fid B bstep c fid s)).
Proof.
  intros (F & T). destruct (LifeStep.delete_ok B bstep s d pend c fid F) as (F1 & L1). split; [split; [exact F1|] | exact L1].
  unfold delete_fid. destruct (alookup peqb (c, fid) (s_fids B s)); [|exact T].
  unfold decref_. apply decref_T. eapply M_frame; [apply st_with_fids | exact T].
Qed.

Lemma take_handle_ok s d mv E :
  GP s d None mv E -> GP (take_handle B s) d (Some (s_nexth B s)) mv E /\ led [] [] s (take_handle B s).
Proof.
  intros (F & T). destruct (LifeStep.take_handle_ok B s d F) as (F1 & L1). split; [split; [exact F1|] | exact L1].
  eapply M_frame; [apply st_take_handle | exact T].
Qed.

Lemma held_open s d pend mv E r : GP s d pend mv E -> 0 < hc s r -> ~ closed s (fr_file (gref s r)).
Proof. intros (F & _). apply (LifeStep.held_open B s d pend r F). Qed.
Lemma parent_open s d pend mv E r p : GP s d pend mv E -> 0 < hc s r -> fr_parent (gref s r) = Some p -> ~ closed s (fr_file (gref s p)).
Proof. intros (F & _). apply (LifeStep.parent_open B s d pend r p F). Qed.

Lemma set_fields_ok s d pend mv E r x' :
  GP s d pend mv E -> fr_refs x' = fr_refs (gref s r) -> fr_parent x' = fr_parent (gref s r) ->
  fr_xattrOf x' = fr_xattrOf (gref s r) -> fr_file x' = fr_file (gref s r) -> fr_node x' = fr_node (gref s r) ->
  GP (set_ref B r x' s) d pend mv E /\ led [] [] s (set_ref B r x' s).
Proof.
  intros (F & T) E1 E2 E3 E4 E5. destruct (LifeStep.set_fields_ok B s d pend r x' F E1 E2 E3 E4) as (F1 & L1).
  split; [split; [exact F1|] | exact L1]. eapply M_frame; [|exact T].
  split; [reflexivity|]. split; [apply len_set_ref|]. intros q. unfold TreeInv.ref_live.
  destruct (Nat.eq_dec r q) as [<-|N].
  - destruct (Nat.lt_ge_cases r (length (s_refs B s))) as [Lr|Lr].
    + rewrite gref_set_same by exact Lr. rewrite E1, E2, E3, E5. repeat split; auto.
    + unfold set_ref. rewrite upd_oob by exact Lr. destruct s; cbn. repeat split; auto.
  - rewrite gref_set_other by exact N. repeat split; auto.
Qed.

Lemma hc_new_ref_inc x s : 0 < hc (snd (new_ref_inc B x s)) (fst (new_ref_inc B x s)).
Proof. unfold RefStep.hc, new_ref_inc, new_ref. cbn. destruct (fr_parent x); [|destruct (fr_xattrOf x)]; cbn; rewrite cnt_cons, ind_same; lia. Qed.

Lemma tree_new_ref_inc s mv E x :
  tokM s mv E [] -> fr_node x < nlen s -> (forall p, fr_parent x = Some p -> p < rlen s /\ (0 < fr_refs (gref s p))%Z) ->
  (forall o, fr_xattrOf x = Some o -> fr_parent x = None /\ o < rlen s /\ (0 < fr_refs (gref s o))%Z) ->
  tokM (snd (new_ref_inc B x s)) mv (rlen s :: E) [].
Proof.
  intros T Hn HP HX.
  pose proof (M_new_ref B s mv E [] x T Hn ltac:(intros p Hp; apply HP; auto) ltac:(intros o Ho; apply (HX o Ho))) as T1.
  unfold new_ref_inc. destruct (new_ref B x s) as [nr s1] eqn:ENR. cbn [snd] in *.
  assert (G : forall q, q < rlen s -> gref s1 q = gref s q).
  { intros q Hq. replace s1 with (snd (new_ref B x s)) by (rewrite ENR; reflexivity). apply LifeStep.gref_new_ref_old. exact Hq. }
  destruct (fr_parent x) as [p|] eqn:EP.
  - destruct (HP p eq_refl) as (Lp & Lv). eapply M_frame; [apply st_incref; rewrite G by exact Lp; exact Lv | exact T1].
  - destruct (fr_xattrOf x) as [o|] eqn:EX; [|exact T1].
    destruct (HX o eq_refl) as (_ & Lo & Lv). eapply M_frame; [apply st_incref; rewrite G by exact Lo; exact Lv | exact T1].
Qed.

Lemma new_owner_inc_ok s d mv E h x :
  GP s d (Some h) mv E -> fr_file x = h -> fr_xattrOf x = None -> fr_node x < nlen s ->
  (forall p, fr_parent x = Some p -> 0 < C s p) ->
  let r := new_ref_inc B x s in
  fst r = rlen s /\ GP (snd r) d None mv (rlen s :: E) /\ led [fst r] [] s (snd r) /\ 0 < hc (snd r) (fst r).
Proof.
  intros (F & T) EF EX Hn HP. cbv zeta.
  destruct (LifeStep.new_owner_inc_ok B s d h x F EF EX HP) as (E1 & F1 & L1 & H1).
  split; [exact E1|]. split; [split; [exact F1|]|split; [exact L1 | exact H1]].
  apply tree_new_ref_inc; auto.
  - intros p Hp. apply (live_ref s d (Some h) p F (HP p Hp)).
  - intros o Ho. congruence.
Qed.

Lemma new_borrower_ok s d pend mv E x o :
  GP s d pend mv E -> fr_xattrOf x = Some o -> fr_parent x = None -> 0 < C s o -> fr_file x = fr_file (gref s o) -> fr_node x < nlen s ->
  let r := new_ref_inc B x s in
  fst r = rlen s /\ GP (snd r) d pend mv E /\ led [fst r] [] s (snd r) /\ 0 < hc (snd r) (fst r).
Proof.
  intros (F & T) EX EP Ho EF Hn. cbv zeta.
  destruct (LifeStep.new_borrower_ok B s d pend x o F EX EP Ho EF) as (E1 & F1 & L1 & H1).
  split; [exact E1|]. split; [split; [exact F1|]|split; [exact L1 | exact H1]].
  apply (M_drop_E B _ mv E [] (rlen s)).
  - apply tree_new_ref_inc; auto; [intros p Hp; congruence|].
    intros o' Ho'. rewrite EX in Ho'. injection Ho' as <-. split; [exact EP|]. apply (live_ref s d pend o F Ho).
  - intros p _ Hp. exfalso.
    assert (G : fr_parent (gref (snd (new_ref_inc B x s)) (rlen s)) = None).
    { unfold new_ref_inc, new_ref. rewrite EP, EX. cbn. unfold incref, get_ref, set_ref. cbn.
      destruct (Nat.eq_dec o (rlen s)) as [->|N].
      - exfalso. destruct (live_ref s d pend (rlen s) F Ho). lia.
      - rewrite nth_upd_other by exact N. unfold TreeInv.rlen. rewrite app_nth2 by lia. rewrite Nat.sub_diag. cbn. exact EP. }
    congruence.
Qed.

Lemma new_ref_handover_ok s d mv E h wr x :
  GP s d (Some h) mv E -> 0 < hc s wr -> fr_parent x = Some wr -> fr_xattrOf x = None -> fr_file x = h -> fr_node x < nlen s ->
  let r := new_ref_handover B wr x s in
  fst r = rlen s /\ GP (snd r) d None mv (rlen s :: E) /\ led [fst r] [wr] s (snd r) /\ 0 < hc (snd r) (fst r).
Proof.
  intros (F & T) H EP EX EF Hn. cbv zeta.
  destruct (LifeStep.new_ref_handover_ok B s d h wr x F H EP EX EF) as (E1 & F1 & L1 & H1).
  split; [exact E1|]. split; [split; [exact F1|]|split; [exact L1 | exact H1]].
  unfold new_ref_handover. apply (M_new_ref B (with_held B (remove_one wr (s_held B s)) s) mv E [] x).
  - eapply M_frame; [apply st_with_held | exact T].
  - exact Hn.
  - intros p Hp. rewrite EP in Hp. injection Hp as <-. apply (live_ref s d (Some h) wr F). pose proof (C_hc s wr). lia.
  - intros o Ho. congruence.
Qed.

(** pathNodeFor *)
Lemma pnf_ok s d pend E n nm :
  GP s d pend None E -> n < nlen s ->
  let r := path_node_for B n nm s in
  GP (snd r) d pend None E /\ led [] [] s (snd r) /\ child_node B (snd r) n nm (fst r) /\ same_core B s (snd r) /\ nlen s <= nlen (snd r).
Proof.
  intros (F & T) Hn. cbv zeta.
  destruct (M_path_node_for B s E [] n nm T Hn) as (T1 & HC & NL & _).
  destruct (LifeStep.sl_ok B s _ d pend (LifeStep.sl_path_node_for B n nm s) F) as (F1 & L1).
  split; [split; [exact F1 | exact T1]|]. split; [exact L1|]. split; [exact HC|]. split; [apply sc_path_node_for | exact NL].
Qed.

(** walkOne *)
Lemma walk_one_ok from_h from_node nm getattr s d E :
  GP s d None None E -> ~ closed s from_h -> from_node < nlen s ->
  let r := walk_one B bstep from_h from_node nm getattr s in
  match fst r with WOk h _ _ => GP (snd r) d (Some h) None E | WFail _ => GP (snd r) d None None E end /\
  led [] [] s (snd r) /\ same_core B s (snd r).
Proof.
  intros (F & T) Nf Hn. cbv zeta.
  pose proof (LifeStep.walk_one_ok B bstep from_h from_node nm getattr s d F Nf) as W. cbv zeta in W.
  destruct (walk_one_tree from_h from_node nm getattr s) as (b & ST).
  assert (T1 : tokM (snd (walk_one B bstep from_h from_node nm getattr s)) None E []).
  { eapply M_frame; [exact ST|]. destruct b; [|exact T]. destruct nm as [x|]; [|exact T].
    apply (M_path_node_for B s E [] from_node x T Hn). }
  destruct (walk_one B bstep from_h from_node nm getattr s) as [w s1]. cbn [fst snd] in *.
  destruct W as (F1 & L1 & SC). split; [|split; [exact L1 | exact SC]].
  destruct w; split; auto.
Qed.

(** addChild *)
Lemma add_child_ok s d pend mv E E' n r nm p :
  GP s d pend mv E -> n < nlen s -> 0 < C s r ->
  fr_parent (gref s r) = Some p -> fr_node (gref s p) = n -> node_ok B s mv n nm (fr_node (gref s r)) ->
  alookup Nat.eqb r (pn_names (gnode s n)) = None -> (forall q, In q E -> q = r \/ In q E') ->
  GP (add_child B n r nm s) d pend mv E' /\ led [] [] s (add_child B n r nm s).
Proof.
  intros (F & T) Hn Hr EP ENp NOK NR HE.
  destruct (LifeStep.sl_ok B s _ d pend (LifeStep.sl_add_child B n r nm s) F) as (F1 & L1).
  split; [split; [exact F1|] | exact L1].
  destruct (live_ref s d pend r F Hr) as (Lr & Lv).
  assert (Hp : p < rlen s) by (apply (M_parent_bound B s mv E [] T r p Lr EP)).
  apply (M_add_child B s mv E E' [] n r nm p T Hn Lr Lv EP Hp ENp NOK NR HE).
Qed.

(** markChildDeleted *)
Lemma mcd_ok s d pend n nm :
  GP s d pend None [] -> n < nlen s ->
  GP (mark_child_deleted B bstep n nm s) d pend None [] /\ led [] [] s (mark_child_deleted B bstep n nm s).
Proof.
  intros (F & T) Hn. destruct (LifeStep.sl_ok B s _ d pend (LifeStep.sl_mark_child_deleted B bstep n nm s) F) as (F1 & L1).
  split; [split; [exact F1 | apply M_mark_child_deleted; auto] | exact L1].
Qed.

Arguments sl_ok s s' d {pend mv E}.
Arguments hold_ok s d {pend mv E} r.
Arguments release_ok s d {pend mv E} r.
Arguments insert_ok s d {pend mv E} c fid r.
Arguments delete_ok s d {pend mv E} c fid.
Arguments set_fields_ok s d {pend mv E} r x'.

Definition ok (pre : list nat) (f : st -> st) : Prop :=
  forall s d, FInv s d -> heldall pre s -> FInv (f s) d /\ led [] [] s (f s).

Lemma ok_sc pre f : (forall s, same_life s (f s)) -> ok pre f.
Proof. intros H s d Inv _. apply sl_ok; auto. Qed.

Ltac led_arith := intros; rewrite ?cnt_app, ?cnt_cons, ?cnt_nil; lia.

Lemma with_fid_ok pre c fid body :
  (forall r, ok (r :: pre) (fun s => snd (body r s))) -> ok pre (fun s => snd (with_fid B bstep c fid body s)).
Proof.
  intros HB s d Inv HP. unfold with_fid, lookup_fid.
  destruct (alookup peqb (c, fid) (s_fids B s)) as [r|] eqn:E; [|cbn; split; [auto | apply led_refl]].
  destruct (hold_ok s d r Inv (C_fid B s r (alookup_in peqb peqb_spec _ _ _ E))) as (I1 & L1).
  assert (HP1 : heldall (r :: pre) (hold B r s)).
  { intros x [<-|Hx].
    - eapply led_hc_pos; [exact L1 | rewrite cnt_cons, ind_same; lia | reflexivity].
    - eapply led_hc_pos; [exact L1 | specialize (HP x Hx); lia | reflexivity]. }
  destruct (HB r (hold B r s) d I1 HP1) as (I2 & L2).
  destruct (body r (hold B r s)) as [rep s2]. cbn [snd] in *.
  assert (Hr : 0 < hc s2 r). { eapply led_hc_pos; [exact L2 | specialize (HP1 r (or_introl eq_refl)); lia | reflexivity]. }
  destruct (release_ok s2 d r I2 Hr) as (I3 & L3). split; [exact I3|].
  eapply led_equiv; [|exact (led_trans _ _ _ _ _ _ _ (led_trans _ _ _ _ _ _ _ L1 L2) L3)]. led_arith.
Qed.

(** doWalk over one or more names *)
(** shape of the states after reference creation *)
Lemma handover_facts wr x (s : st) :
  let r := new_ref_handover B wr x s in
  fst r = rlen s /\ s_nodes B (snd r) = s_nodes B s /\ rlen (snd r) = S (rlen s) /\
  gref (snd r) (rlen s) = fr_with_refs x 1 /\ (forall q, q < rlen s -> gref (snd r) q = gref s q).
Proof.
  cbv zeta. unfold new_ref_handover.
  destruct (new_ref_facts B x (with_held B (remove_one wr (s_held B s)) s)) as (E & L & Gn & Go & _).
  split; [exact E|]. split; [reflexivity|]. split; [exact L|]. split; [exact Gn | exact Go].
Qed.

Lemma new_ref_inc_facts x (s : st) :
  let r := new_ref_inc B x s in
  fst r = rlen s /\ s_nodes B (snd r) = s_nodes B s /\ rlen (snd r) = S (rlen s) /\
  (fr_parent (gref (snd r) (rlen s)) = fr_parent x /\ fr_node (gref (snd r) (rlen s)) = fr_node x) /\
  (forall q, q < rlen s -> fr_parent (gref (snd r) q) = fr_parent (gref s q) /\ fr_node (gref (snd r) q) = fr_node (gref s q)).
Proof.
  cbv zeta. destruct (new_ref_facts B x s) as (E & L & Gn & Go & _). unfold new_ref_inc.
  destruct (new_ref B x s) as [nr s1] eqn:ENR. cbn [fst snd] in *. fold (rlen s) in *.
  assert (Inc : forall t, s_nodes B (incref B t s1) = s_nodes B s1 /\ rlen (incref B t s1) = rlen s1 /\
                 forall q, fr_parent (gref (incref B t s1) q) = fr_parent (gref s1 q) /\ fr_node (gref (incref B t s1) q) = fr_node (gref s1 q)).
  { intros t. split; [reflexivity|]. split; [apply len_set_ref|]. intros q. unfold incref.
    destruct (Nat.eq_dec t q) as [<-|N].
    - destruct (Nat.lt_ge_cases t (length (s_refs B s1))) as [Lt|Lt]; [rewrite gref_set_same by exact Lt; auto|].
      unfold set_ref. rewrite upd_oob by exact Lt. destruct s1; auto.
    - rewrite gref_set_other by exact N. auto. }
  assert (Base : s_nodes B s1 = s_nodes B s) by (replace s1 with (snd (new_ref B x s)) by (rewrite ENR; reflexivity); reflexivity).
  assert (Fin : forall s2, (s_nodes B s2 = s_nodes B s1 /\ rlen s2 = rlen s1 /\
                 forall q, fr_parent (gref s2 q) = fr_parent (gref s1 q) /\ fr_node (gref s2 q) = fr_node (gref s1 q)) ->
            nr = rlen s /\ s_nodes B s2 = s_nodes B s /\ rlen s2 = S (rlen s) /\
            (fr_parent (gref s2 (rlen s)) = fr_parent x /\ fr_node (gref s2 (rlen s)) = fr_node x) /\
            (forall q, q < rlen s -> fr_parent (gref s2 q) = fr_parent (gref s q) /\ fr_node (gref s2 q) = fr_node (gref s q))).
  { intros s2 (N2 & R2 & Q2). split; [exact E|]. split; [congruence|]. split; [unfold TreeInv.rlen in *; congruence|]. split.
    - destruct (Q2 (rlen s)) as (-> & ->). rewrite Gn. auto.
    - intros q Hq. destruct (Q2 q) as (-> & ->). rewrite Go by exact Hq. auto. }
  destruct (fr_parent x); [apply Fin, Inc|]. destruct (fr_xattrOf x); [apply Fin, Inc|]. apply Fin. repeat split; auto.
Qed.

Lemma gref_sc s s' q : same_core B s s' -> gref s' q = gref s q.
Proof. intros (_ & _ & R & _). unfold get_node, get_ref. rewrite R. reflexivity. Qed.

Lemma walk_steps_ok names : forall wr s d,
  FInv s d -> 0 < hc s wr ->
  let r := walk_steps B bstep wr names s in
  FInv (snd r) d /\ match fst r with DOk nr => led [nr] [wr] s (snd r) | DFail _ => led [] [wr] s (snd r) end.
Proof.
  induction names as [|nm rest IH]; intros wr s d Inv Hw; cbv zeta.
  - cbn. split; auto. eapply led_equiv; [|apply led_refl]. led_arith.
  - cbn [walk_steps]. cbv zeta.
    destruct (negb (is_dir (fr_mode (gref s wr)))); [cbn [fst snd]; apply release_ok; auto|].
    destruct (is_deleted B s wr); [cbn [fst snd]; apply release_ok; auto|].
    destruct (live_ref s d None wr (proj1 Inv) ltac:(pose proof (C_hc s wr); lia)) as (Lw & _).
    set (n := fr_node (gref s wr)).
    assert (Hn : n < nlen s) by (apply (M_node_bound B s None [] [] (proj2 Inv) wr Lw)).
    pose proof (walk_one_ok (fr_file (gref s wr)) n (Some nm) true s d [] Inv (held_open s d None None [] wr Inv Hw) Hn) as W1. cbv zeta in W1.
    destruct (walk_one B bstep (fr_file (gref s wr)) n (Some nm) true s) as [w s1]. cbn [fst snd] in W1.
    destruct W1 as (I1 & L1 & SC1).
    assert (Hw1 : 0 < hc s1 wr) by (eapply led_hc_pos; [exact L1 | lia | reflexivity]).
    destruct w as [e|h m ino].
    + cbn [fst snd]. destruct (release_ok s1 d wr I1 Hw1) as (I2 & L2). split; auto.
      eapply led_equiv; [|exact (led_trans _ _ _ _ _ _ _ L1 L2)]. led_arith.
    + assert (Lw1 : wr < rlen s1) by (destruct SC1 as (_ & _ & R & _); unfold TreeInv.rlen; rewrite R; exact Lw).
      assert (Hn1 : n < nlen s1).
      { pose proof (M_node_bound B s1 None [] [] (proj2 I1) wr Lw1) as X. rewrite (gref_sc s s1 wr SC1) in X. exact X. }
      pose proof (pnf_ok s1 d (Some h) [] n nm I1 Hn1) as P2. cbv zeta in P2.
      destruct (path_node_for B n nm s1) as [cn s2]. cbn [fst snd] in P2. destruct P2 as (I2 & L2 & HC2 & SC2 & NL2).
      assert (Hw2 : 0 < hc s2 wr) by (eapply led_hc_pos; [exact L2 | lia | reflexivity]).
      assert (Hn2 : n < nlen s2) by lia.
      assert (Hcn : cn < nlen s2) by (apply (M_child_bound B s2 None [] [] (proj2 I2) n nm cn Hn2 HC2)).
      assert (G2 : gref s2 wr = gref s wr) by (rewrite (gref_sc s1 s2 wr SC2); apply (gref_sc s s1 wr SC1)).
      set (x := mkref h 0 false 0 m cn (Some wr) None XNone).
      destruct (new_ref_handover_ok s2 d None [] h wr x I2 Hw2 eq_refl eq_refl eq_refl Hcn) as (E4 & I4 & L4 & Hnr).
      destruct (handover_facts wr x s2) as (_ & N4 & R4 & Gnew & Gold).
      assert (NoReg : alookup Nat.eqb (rlen s2) (pn_names (gnode s2 n)) = None).
      { destruct (alookup Nat.eqb (rlen s2) (pn_names (gnode s2 n))) as [nm'|] eqn:X; auto. exfalso.
        destruct (M_reg B s2 None [] [] (proj2 I2) n (rlen s2) nm' Hn2 X) as (Y & _). lia. }
      destruct (new_ref_handover B wr x s2) as [nr s4]. cbn [fst snd] in *. subst nr.
      assert (GN4 : forall k, gnode s4 k = gnode s2 k) by (intros k; unfold get_node; rewrite N4; reflexivity).
      assert (Lw2 : wr < rlen s2) by (destruct SC2 as (_ & _ & R & _); unfold TreeInv.rlen; rewrite R; exact Lw1).
      destruct (add_child_ok s4 d None None [rlen s2] [] n (rlen s2) nm wr I4) as (I5 & L5).
      * unfold TreeInv.nlen. rewrite N4. exact Hn2.
      * pose proof (C_hc s4 (rlen s2)). lia.
      * rewrite Gnew. reflexivity.
      * rewrite (Gold wr Lw2), G2. reflexivity.
      * unfold node_ok. cbn. unfold TreeInv.child_node. rewrite GN4, Gnew. exact HC2.
      * rewrite GN4. exact NoReg.
      * intros q [<-|[]]. left. reflexivity.
      * set (s5 := add_child B n (rlen s2) nm s4) in *.
        assert (L05 : led [rlen s2] [wr] s s5).
        { eapply led_equiv; [|exact (led_trans _ _ _ _ _ _ _ (led_trans _ _ _ _ _ _ _ (led_trans _ _ _ _ _ _ _ L1 L2) L4) L5)]. led_arith. }
        destruct (s_panic B s5) eqn:P5.
        -- cbn [fst snd]. split; auto. apply (led_weaken_panic [] [rlen s2] [wr]); auto.
        -- assert (Hn5 : 0 < hc s5 (rlen s2)) by (eapply led_hc_pos; [exact L5 | lia | reflexivity]).
           specialize (IH (rlen s2) s5 d I5 Hn5). cbv zeta in IH.
           destruct (walk_steps B bstep (rlen s2) rest s5) as [res s6]. cbn [fst snd] in *. destruct IH as (I6 & L6).
           split; auto. destruct res.
           ++ eapply led_equiv; [|exact (led_trans _ _ _ _ _ _ _ L05 L6)]. led_arith.
           ++ eapply led_equiv; [|exact (led_trans _ _ _ _ _ _ _ L05 L6)]. led_arith.
Qed.

Lemma do_walk_ok ref names g s d :
  FInv s d -> 0 < hc s ref ->
  let r := do_walk B bstep ref names g s in
  FInv (snd r) d /\ match fst r with DOk nr => led [nr] [] s (snd r) | DFail _ => led [] [] s (snd r) end.
Proof.
  intros Inv Hr. cbv zeta. unfold do_walk. destruct names as [|nm rest].
  - set (x0 := gref s ref).
    destruct (fr_xattrOf x0); [cbn; split; [auto | apply led_refl]|].
    destruct (live_ref s d None ref (proj1 Inv) ltac:(pose proof (C_hc s ref); lia)) as (Lr & Lvr).
    assert (Hn0 : fr_node x0 < nlen s) by (apply (M_node_bound B s None [] [] (proj2 Inv) ref Lr)).
    pose proof (walk_one_ok (fr_file x0) (fr_node x0) None g s d [] Inv (held_open s d None None [] ref Inv Hr) Hn0) as W1. cbv zeta in W1.
    destruct (walk_one B bstep (fr_file x0) (fr_node x0) None g s) as [w s1]. cbn [fst snd] in W1.
    destruct W1 as (I1 & L1 & SC1).
    destruct w as [e|h m ino]; [cbn; auto|].
    set (x := mkref h 0 false 0 (fr_mode x0) (fr_node x0) (fr_parent x0) None XNone).
    assert (Hr1 : 0 < hc s1 ref) by (eapply led_hc_pos; [exact L1 | lia | reflexivity]).
    assert (G1 : gref s1 ref = x0) by (apply (gref_sc s s1 ref SC1)).
    destruct (live_ref s1 d (Some h) ref (proj1 I1) ltac:(pose proof (C_hc s1 ref); lia)) as (Lr1 & Lvr1).
    assert (Hnx : fr_node x < nlen s1). { pose proof (M_node_bound B s1 None [] [] (proj2 I1) ref Lr1) as X. rewrite G1 in X. exact X. }
    assert (HP : forall p, fr_parent x = Some p -> 0 < C s1 p).
    { intros p Hp. cbn in Hp. apply (C_parent B s1 ref p Lr1 Lvr1). rewrite G1. exact Hp. }
    destruct (new_owner_inc_ok s1 d None [] h x I1 eq_refl eq_refl Hnx HP) as (E2 & I2 & L2 & Hnr).
    destruct (new_ref_inc_facts x s1) as (_ & N2 & R2 & (GP2 & GN2) & Gold).
    destruct (new_ref_inc B x s1) as [nr s2]. cbn [fst snd] in *. subst nr.
    assert (L02 : led [rlen s1] [] s s2). { eapply led_equiv; [|exact (led_trans _ _ _ _ _ _ _ L1 L2)]. led_arith. }
    assert (GNd : forall k, gnode s2 k = gnode s1 k) by (intros k; unfold get_node; rewrite N2; reflexivity).
    assert (Drop : (fr_parent x0 = None \/ is_deleted B s2 (rlen s1) = true) -> FInv s2 d).
    { intros H. destruct I2 as (F2 & T2). split; [exact F2|]. apply (M_drop_E B s2 None [] [] (rlen s1) T2).
      intros p _ Hp Hd. exfalso. destruct H as [H|H]; [rewrite GP2 in Hp; cbn in Hp; congruence|].
      unfold is_deleted in H. unfold TreeInv.node_deleted in Hd. congruence. }
    destruct (fr_parent x0) as [p|] eqn:EP0; [|cbn [fst snd]; split; [apply Drop; left; reflexivity | exact L02]].
    destruct (is_deleted B s2 (rlen s1)) eqn:ED; [cbn [fst snd]; split; [apply Drop; right; reflexivity | exact L02]|].
    assert (Lp2 : p < rlen s2). { apply (M_parent_bound B s2 None _ [] (proj2 I2) (rlen s1) p); [lia|]. rewrite GP2. reflexivity. }
    set (pnode := fr_node (gref s2 p)).
    assert (Hpn : pnode < nlen s2) by (apply (M_node_bound B s2 None _ [] (proj2 I2) p Lp2)).
    destruct (Gold ref Lr1) as (GPr & GNr). rewrite G1 in GPr, GNr.
    assert (Hr2 : 0 < hc s2 ref) by (eapply led_hc_pos; [exact L2 | lia | reflexivity]).
    destruct (live_ref s2 d None ref (proj1 I2) ltac:(pose proof (C_hc s2 ref); lia)) as (Lr2 & Lvr2).
    assert (Reg : exists nm, registered B s2 pnode ref nm).
    { apply (M_live B s2 None _ [] (proj2 I2) ref p Lr2); [intros [X|[]]; lia | exact Lvr2 | rewrite GPr; exact EP0|].
      unfold TreeInv.node_deleted. rewrite GNr. unfold is_deleted in ED. rewrite GN2 in ED. exact ED. }
    destruct Reg as (nm0 & Reg). unfold name_for. unfold TreeInv.registered in Reg. fold pnode. rewrite Reg.
    destruct (M_reg B s2 None _ [] (proj2 I2) pnode ref nm0 Hpn Reg) as (_ & _ & p' & Hp' & _ & _ & NOK).
    destruct (add_child_ok s2 d None None [rlen s1] [] pnode (rlen s1) nm0 p I2) as (I3 & L3).
    + exact Hpn.
    + pose proof (C_hc s2 (rlen s1)). lia.
    + rewrite GP2. reflexivity.
    + reflexivity.
    + unfold node_ok in *. cbn in *. rewrite GN2. rewrite GNr in NOK. exact NOK.
    + destruct (alookup Nat.eqb (rlen s1) (pn_names (gnode s2 pnode))) as [nm'|] eqn:X; auto. exfalso.
      rewrite GNd in X. assert (Hpn1 : pnode < nlen s1) by (unfold TreeInv.nlen in *; rewrite <- N2; exact Hpn).
      destruct (M_reg B s1 None [] [] (proj2 I1) pnode (rlen s1) nm' Hpn1 X) as (Y & _). lia.
    + intros q [<-|[]]. left. reflexivity.
    + set (s3 := add_child B pnode (rlen s1) nm0 s2) in *.
      assert (L03 : led [rlen s1] [] s s3). { eapply led_equiv; [|exact (led_trans _ _ _ _ _ _ _ L02 L3)]. led_arith. }
      destruct (s_panic B s3) eqn:P3; cbn [fst snd]; split; auto.
      apply (led_weaken_panic [] [rlen s1] []); auto.
  - destruct (hold_ok s d ref Inv ltac:(pose proof (C_hc s ref); lia)) as (I1 & L1).
    assert (H1 : 0 < hc (hold B ref s) ref) by (eapply led_hc_pos; [exact L1 | rewrite cnt_cons, ind_same; lia | reflexivity]).
    pose proof (walk_steps_ok (nm :: rest) ref (hold B ref s) d I1 H1) as W. cbv zeta in W.
    destruct (walk_steps B bstep ref (nm :: rest) (hold B ref s)) as [res s2]. cbn [fst snd] in *. destruct W as (I2 & L2).
    split; auto. destruct res.
    + eapply led_equiv; [|exact (led_trans _ _ _ _ _ _ _ L1 L2)]. led_arith.
    + eapply led_equiv; [|exact (led_trans _ _ _ _ _ _ _ L1 L2)]. led_arith.
Qed.

(** ---- the handlers ---- *)
Ltac uses_tac := intros h Hh; cbn in Hh; repeat (destruct Hh as [<-|Hh]); try contradiction; try assumption; eauto.
Ltac sl_leaf :=
  first [ apply same_life_refl | apply sl_guarded_call; [reflexivity | uses_tac] | apply sl_set_panic
        | match goal with
          | |- same_life ?s (snd (let '(_, _) := guarded_call B bstep ?a ?g ?c ?s in _)) =>
              let H := fresh in
              assert (H : same_life s (snd (guarded_call B bstep a g c s))) by (apply sl_guarded_call; [reflexivity | uses_tac]);
              destruct (guarded_call B bstep a g c s); exact H
          end ].

Lemma closed_sl s s' h : same_life s s' -> (closed s' h <-> closed s h).
Proof. intros (SL & _). apply (LifeStep.closed_sl B s s' h SL). Qed.

Lemma ok_walk_op c fid newfid names g : ok [] (fun s => snd (do_walk_op B bstep c fid newfid names g s)).
Proof.
  unfold do_walk_op. apply with_fid_ok. intros r s d Inv HP.
  destruct (fr_opened (gref s r) && (fid =? newfid)); [cbn; split; [auto | apply led_refl]|].
  assert (Hr : 0 < hc s r) by (apply HP; left; reflexivity).
  pose proof (do_walk_ok r names g s d Inv Hr) as W. cbv zeta in W.
  destruct (do_walk B bstep r names g s) as [res s1]. cbn [fst snd] in W. destruct W as (I1 & L1).
  destruct res as [e|nr]; [cbn; auto|]. cbn [snd].
  assert (Hn : 0 < hc s1 nr) by (eapply led_hc_pos; [exact L1 | rewrite cnt_cons, ind_same; lia | reflexivity]).
  destruct (insert_ok s1 d c newfid nr I1 ltac:(pose proof (C_hc s1 nr); lia)) as (I2 & L2).
  assert (Hn2 : 0 < hc (insert_fid B bstep c newfid nr s1) nr) by (eapply led_hc_pos; [exact L2 | lia | reflexivity]).
  destruct (release_ok _ d nr I2 Hn2) as (I3 & L3). split; auto.
  eapply led_equiv; [|exact (led_trans _ _ _ _ _ _ _ (led_trans _ _ _ _ _ _ _ L1 L2) L3)]. led_arith.
Qed.

Lemma ok_attach c fid names : ok [] (fun s => snd (do_attach B bstep c fid names s)).
Proof.
  intros s d Inv _. unfold do_attach.
  pose proof (sl_bc (BAttach (s_nexth B s)) s ltac:(intros h [])) as SC1.
  destruct (bcall_ B bstep (BAttach (s_nexth B s)) s) as [a s1]. cbn [snd] in SC1.
  destruct (sl_ok s s1 d SC1 Inv) as (I1 & L1).
  assert (Main : forall (s1' := take_handle B s1),
     let '(root, s2) := new_ref B (mkref (s_nexth B s) 0 false 0 MNone 0 None None XNone) s1' in
     let '(a2, s3) := bcall_ B bstep (BGetAttr (s_nexth B s)) s2 in
     FInv (snd (match a2 with
      | AErr e => (rerr e, release B bstep root s3)
      | AOk m ino | ABadQ m ino =>
          let s4 := set_ref B root (fr_with_mode (gref s3 root) m) s3 in
          match names with
          | [] => (rok ino, release B bstep root (insert_fid B bstep c fid root s4))
          | _ =>
              let '(d0, s5) := do_walk B bstep root names false s4 in
              match d0 with
              | DFail e => (rerr e, release B bstep root s5)
              | DOk nr => (rok ino, release B bstep root (release B bstep nr (insert_fid B bstep c fid nr s5)))
              end
          end
      end)) d /\
     led [] [] s (snd (match a2 with
      | AErr e => (rerr e, release B bstep root s3)
      | AOk m ino | ABadQ m ino =>
          let s4 := set_ref B root (fr_with_mode (gref s3 root) m) s3 in
          match names with
          | [] => (rok ino, release B bstep root (insert_fid B bstep c fid root s4))
          | _ =>
              let '(d0, s5) := do_walk B bstep root names false s4 in
              match d0 with
              | DFail e => (rerr e, release B bstep root s5)
              | DOk nr => (rok ino, release B bstep root (release B bstep nr (insert_fid B bstep c fid nr s5)))
              end
          end
      end))).
  { intros s1'.
    assert (N1 : s_nexth B s1 = s_nexth B s) by (apply (proj1 (proj1 SC1))).
    destruct (take_handle_ok s1 d None [] I1) as (It & Lt). fold s1' in It, Lt. rewrite N1 in It.
    set (x := mkref (s_nexth B s) 0 false 0 MNone 0 None None XNone).
    change (new_ref B x s1') with (new_ref_inc B x s1').
    assert (H0 : fr_node x < nlen s1') by (apply (M_nonempty B s1' None [] [] (proj2 It))).
    destruct (new_owner_inc_ok s1' d None [] (s_nexth B s) x It eq_refl eq_refl H0 ltac:(intros p Hp; discriminate)) as (E2 & I2' & L2 & _).
    destruct (new_ref_inc_facts x s1') as (_ & _ & _ & (GPn & _) & _).
    assert (I2 : GP (snd (new_ref_inc B x s1')) d None None []).
    { destruct I2' as (F2 & T2). split; [exact F2|]. apply (M_drop_E B _ None [] [] (rlen s1') T2).
      intros p _ Hp. rewrite GPn in Hp. discriminate. }
    assert (Nn : ~ closed (snd (new_ref_inc B x s1')) (s_nexth B s)).
    { intros Hc. destruct (K3 B s1' _ (proj1 (proj2 (proj1 It))) (s_nexth B s) Hc) as (_ & Np). congruence. }
    destruct (new_ref_inc B x s1') as [root s2]. cbn [fst snd] in *.
    pose proof (sl_bc (BGetAttr (s_nexth B s)) s2 ltac:(intros h [<-|[]]; exact Nn)) as SC3.
    destruct (bcall_ B bstep (BGetAttr (s_nexth B s)) s2) as [a2 s3]. cbn [snd] in SC3.
    destruct (sl_ok s2 s3 d SC3 I2) as (I3 & L3).
    assert (L03 : led [root] [] s s3).
    { eapply led_equiv; [|exact (led_trans _ _ _ _ _ _ _ (led_trans _ _ _ _ _ _ _ (led_trans _ _ _ _ _ _ _ L1 Lt) L2) L3)]. led_arith. }
    assert (H3 : 0 < hc s3 root) by (eapply led_hc_pos; [exact L03 | rewrite cnt_cons, ind_same; lia | reflexivity]).
    assert (Ok : forall m ino,
      let s4 := set_ref B root (fr_with_mode (gref s3 root) m) s3 in
      FInv (snd (match names with
          | [] => (rok ino, release B bstep root (insert_fid B bstep c fid root s4))
          | _ =>
              let '(d0, s5) := do_walk B bstep root names false s4 in
              match d0 with
              | DFail e => (rerr e, release B bstep root s5)
              | DOk nr => (rok ino, release B bstep root (release B bstep nr (insert_fid B bstep c fid nr s5)))
              end
          end)) d /\
      led [] [] s (snd (match names with
          | [] => (rok ino, release B bstep root (insert_fid B bstep c fid root s4))
          | _ =>
              let '(d0, s5) := do_walk B bstep root names false s4 in
              match d0 with
              | DFail e => (rerr e, release B bstep root s5)
              | DOk nr => (rok ino, release B bstep root (release B bstep nr (insert_fid B bstep c fid nr s5)))
              end
          end))).
    { intros m ino s4.
      destruct (set_fields_ok s3 d root (fr_with_mode (gref s3 root) m) I3 eq_refl eq_refl eq_refl eq_refl eq_refl) as (I4 & L4). fold s4 in I4, L4.
      assert (L04 : led [root] [] s s4) by (eapply led_equiv; [|exact (led_trans _ _ _ _ _ _ _ L03 L4)]; led_arith).
      assert (H4 : 0 < hc s4 root) by (eapply led_hc_pos; [exact L4 | lia | reflexivity]).
      assert (Tail : forall s5, FInv s5 d -> led [root] [] s s5 ->
                FInv (release B bstep root s5) d /\ led [] [] s (release B bstep root s5)).
      { intros s5 I5 L5.
        assert (H5 : 0 < hc s5 root) by (eapply led_hc_pos; [exact L5 | rewrite cnt_cons, ind_same; lia | reflexivity]).
        destruct (release_ok s5 d root I5 H5) as (I6 & L6). split; auto.
        eapply led_equiv; [|exact (led_trans _ _ _ _ _ _ _ L5 L6)]. led_arith. }
      destruct names as [|nm rest].
      - cbn [snd]. destruct (insert_ok s4 d c fid root I4 ltac:(pose proof (C_hc s4 root); lia)) as (I5 & L5).
        apply Tail; auto. eapply led_equiv; [|exact (led_trans _ _ _ _ _ _ _ L04 L5)]. led_arith.
      - pose proof (do_walk_ok root (nm :: rest) false s4 d I4 H4) as W. cbv zeta in W.
        destruct (do_walk B bstep root (nm :: rest) false s4) as [res s5]. cbn [fst snd] in W. destruct W as (I5 & L5).
        destruct res as [e|nr]; cbn [snd].
        + apply Tail; auto. eapply led_equiv; [|exact (led_trans _ _ _ _ _ _ _ L04 L5)]. led_arith.
        + assert (Hn : 0 < hc s5 nr) by (eapply led_hc_pos; [exact L5 | rewrite cnt_cons, ind_same; lia | reflexivity]).
          destruct (insert_ok s5 d c fid nr I5 ltac:(pose proof (C_hc s5 nr); lia)) as (I6 & L6).
          assert (Hn6 : 0 < hc (insert_fid B bstep c fid nr s5) nr) by (eapply led_hc_pos; [exact L6 | lia | reflexivity]).
          destruct (release_ok _ d nr I6 Hn6) as (I7 & L7).
          apply Tail; auto.
          eapply led_equiv; [|exact (led_trans _ _ _ _ _ _ _ (led_trans _ _ _ _ _ _ _ (led_trans _ _ _ _ _ _ _ L04 L5) L6) L7)]. led_arith. }
    destruct a2 as [m ino|e|m ino]; [apply Ok | | apply Ok].
    cbn [snd]. destruct (release_ok s3 d root I3 H3) as (I4 & L4). split; auto.
    eapply led_equiv; [|exact (led_trans _ _ _ _ _ _ _ L03 L4)]. led_arith. }
  cbv zeta in Main.
  destruct a as [m ino|e|m ino]; [| cbn; auto |];
  destruct (new_ref B _ (take_handle B s1)) as [root s2]; destruct (bcall_ B bstep (BGetAttr (s_nexth B s)) s2) as [a2 s3]; exact Main.
Qed.

Lemma ok_bracket_sc c fid body :
  (forall r s, ~ closed s (fr_file (gref s r)) -> same_life s (snd (body r s))) -> ok [] (fun s => snd (with_fid B bstep c fid body s)).
Proof.
  intros H. apply with_fid_ok. intros r s d Inv HP. apply sl_ok; auto. apply H.
  apply (held_open s d None None [] r Inv). apply HP. left. reflexivity.
Qed.

Lemma ok_getattr c fid : ok [] (fun s => snd (do_getattr B bstep c fid s)).
Proof. apply ok_bracket_sc. intros r s O. sl_leaf. Qed.
Lemma ok_use k c fid : ok [] (fun s => snd (do_use B bstep k c fid s)).
Proof. apply ok_bracket_sc. intros r s O. sl_leaf. Qed.
Lemma ok_setattr c fid : ok [] (fun s => snd (do_setattr B bstep c fid s)).
Proof. apply ok_bracket_sc. intros r s O. sl_leaf. Qed.
Lemma ok_mk k c fid nm : ok [] (fun s => snd (do_mk B bstep k c fid nm s)).
Proof. apply ok_bracket_sc. intros r s O. sl_leaf. Qed.
Lemma ok_readlink c fid : ok [] (fun s => snd (do_readlink B bstep c fid s)).
Proof. apply ok_bracket_sc. intros r s O. sl_leaf. Qed.
Lemma ok_readdir c fid : ok [] (fun s => snd (do_readdir B bstep c fid s)).
Proof. apply ok_bracket_sc. intros r s O. cbv zeta. sl_leaf. Qed.
Lemma ok_io k c fid : ok [] (fun s => snd (do_io B bstep k c fid s)).
Proof.
  apply ok_bracket_sc. intros r s O. cbv zeta.
  destruct (k =? uFsync); [sl_leaf|]. destruct (k =? uRead); destruct (fr_xop (gref s r)); sl_leaf.
Qed.

Lemma ok_link c dfid tfid nm : ok [] (fun s => snd (do_link B bstep c dfid tfid nm s)).
Proof.
  unfold do_link. apply with_fid_ok. intros r. apply with_fid_ok. intros t s d Inv HP. apply sl_ok; auto.
  assert (Or : ~ closed s (fr_file (gref s r))) by (apply (held_open s d None None [] r Inv); apply HP; right; left; reflexivity).
  assert (Ot : ~ closed s (fr_file (gref s t))) by (apply (held_open s d None None [] t Inv); apply HP; left; reflexivity).
  sl_leaf.
Qed.

Lemma ok_unlinkat c fid nm : ok [] (fun s => snd (do_unlinkat B bstep c fid nm s)).
Proof.
  unfold do_unlinkat. apply with_fid_ok. intros r s d Inv HP.
  assert (Hr : 0 < hc s r) by (apply HP; left; reflexivity).
  destruct (dir_guard B s r); [cbn; split; [auto | apply led_refl]|]. cbv zeta.
  destruct (live_ref s d None r (proj1 Inv) ltac:(pose proof (C_hc s r); lia)) as (Lr & _).
  set (n := fr_node (gref s r)).
  assert (Hn : n < nlen s) by (apply (M_node_bound B s None [] [] (proj2 Inv) r Lr)).
  pose proof (pnf_ok s d None [] n nm Inv Hn) as P1. cbv zeta in P1.
  destruct (path_node_for B n nm s) as [cn s1]. cbn [fst snd] in P1. destruct P1 as (I1 & L1 & _ & SC1 & NL1).
  assert (Hr1 : 0 < hc s1 r) by (eapply led_hc_pos; [exact L1 | lia | reflexivity]).
  assert (O1 : ~ closed s1 (fr_file (gref s r))). { rewrite <- (gref_sc s s1 r SC1). apply (held_open s1 d None None [] r I1 Hr1). }
  pose proof (sl_bc (BUnlinkAt (fr_file (gref s r)) nm) s1 ltac:(intros h [<-|[]]; exact O1)) as SC2.
  destruct (bcall_ B bstep (BUnlinkAt (fr_file (gref s r)) nm) s1) as [a s2]. cbn [snd] in SC2.
  destruct (sl_ok s1 s2 d SC2 I1) as (I2 & L2).
  assert (L02 : led [] [] s s2) by (eapply led_equiv; [|exact (led_trans _ _ _ _ _ _ _ L1 L2)]; led_arith).
  assert (Hn2 : n < nlen s2). { destruct SC2 as (_ & (N & _)). unfold TreeInv.nlen in *. rewrite N. lia. }
  destruct (mcd_ok s2 d None n nm I2 Hn2) as (I3 & L3).
  assert (R : GP (mark_child_deleted B bstep n nm s2) d None None [] /\ led [] [] s (mark_child_deleted B bstep n nm s2)).
  { split; auto. eapply led_equiv; [|exact (led_trans _ _ _ _ _ _ _ L02 L3)]. led_arith. }
  destruct a; cbn [snd]; auto.
Qed.

Lemma ok_open c fid flags : ok [] (fun s => snd (do_open B bstep c fid flags s)).
Proof.
  unfold do_open. apply with_fid_ok. intros r s d Inv HP. cbv zeta.
  assert (O : ~ closed s (fr_file (gref s r))) by (apply (held_open s d None None [] r Inv); apply HP; left; reflexivity).
  destruct (is_deleted B s r); [cbn; split; [auto | apply led_refl]|].
  destruct (_ || _); [cbn; split; [auto | apply led_refl]|]. destruct (_ && _); [cbn; split; [auto | apply led_refl]|].
  pose proof (sl_bc (BOpen (fr_file (gref s r)) flags) s ltac:(intros h [<-|[]]; exact O)) as SC.
  destruct (bcall_ B bstep (BOpen (fr_file (gref s r)) flags) s) as [a s1]. cbn [snd] in SC.
  destruct (sl_ok s s1 d SC Inv) as (I1 & L1).
  destruct a; cbn [snd]; auto;
    destruct (set_fields_ok s1 d r (fr_with_open (gref s1 r) flags) I1 eq_refl eq_refl eq_refl eq_refl eq_refl) as (I2 & L2);
    (split; [exact I2|]); (eapply led_equiv; [|exact (led_trans _ _ _ _ _ _ _ L1 L2)]); led_arith.
Qed.

Lemma ok_xattrcreate c fid : ok [] (fun s => snd (do_xattrcreate B bstep c fid s)).
Proof.
  unfold do_xattrcreate. apply with_fid_ok. intros r s d Inv _.
  destruct (is_deleted B s r); cbn [snd]; [split; [auto | apply led_refl]|].
  apply set_fields_ok; auto.
Qed.

Lemma ok_clunk c fid : ok [] (fun s => snd (do_clunk B bstep c fid s)).
Proof.
  intros s d Inv HP. unfold do_clunk.
  set (body := fun r s => match fr_xop (gref s r) with
                          | XCreate => guarded_call B bstep r None (BUse uSetXattr (fr_file (gref s r))) s
                          | _ => (rok 0, s) end).
  assert (W : ok [] (fun s => snd (with_fid B bstep c fid body s))).
  { apply ok_bracket_sc. intros r s0 O. unfold body. destruct (fr_xop (gref s0 r)); sl_leaf. }
  destruct (W s d Inv HP) as (I1 & L1).
  destruct (with_fid B bstep c fid body s) as [cerr s1]. cbn [snd] in *.
  destruct (delete_ok s1 d c fid I1) as (I2 & L2).
  destruct (delete_fid B bstep c fid s1) as [e s2]. cbn [snd] in *.
  assert (R : FInv s2 d /\ led [] [] s s2).
  { split; auto. eapply led_equiv; [|exact (led_trans _ _ _ _ _ _ _ L1 L2)]. led_arith. }
  destruct e; [exact R|]. destruct (fst cerr =? 0); exact R.
Qed.

Lemma ok_remove c fid : ok [] (fun s => snd (do_remove B bstep c fid s)).
Proof.
  unfold do_remove. apply with_fid_ok. intros r s d Inv HP. cbv zeta.
  assert (Hr : 0 < hc s r) by (apply HP; left; reflexivity).
  set (first := match fr_parent (gref s r) with
                | None => (Some EINVAL, s)
                | Some p =>
                    if is_deleted B s r then (Some EINVAL, s)
                    else match name_for B (fr_node (gref s p)) r s with
                         | None => (Some EFAULT, set_panic B s)
                         | Some nm =>
                             let '(a, s1) := bcall_ B bstep (BUnlinkAt (fr_file (gref s p)) nm) s in
                             match a with
                             | AErr e => (Some e, s1)
                             | _ => (None, mark_child_deleted B bstep (fr_node (gref s1 p)) nm s1)
                             end
                         end
                end).
  assert (R1 : GP (snd first) d None None [] /\ led [] [] s (snd first)).
  { unfold first. destruct (fr_parent (gref s r)) as [p|] eqn:EP; [|cbn; split; [auto | apply led_refl]].
    destruct (is_deleted B s r); [cbn; split; [auto | apply led_refl]|].
    destruct (name_for _ _ _ _) as [nm|]; [|cbn [snd]; apply sl_ok; auto; apply sl_set_panic].
    pose proof (sl_bc (BUnlinkAt (fr_file (gref s p)) nm) s ltac:(intros h [<-|[]]; exact (parent_open s d None None [] r p Inv Hr EP))) as SC1.
    destruct (bcall_ B bstep (BUnlinkAt (fr_file (gref s p)) nm) s) as [a s1]. cbn [snd] in SC1.
    destruct (sl_ok s s1 d SC1 Inv) as (I1 & L1).
    destruct (live_ref s d None r (proj1 Inv) ltac:(pose proof (C_hc s r); lia)) as (Lr & _).
    assert (Lp1 : p < rlen s1).
    { destruct SC1 as (_ & (_ & RL & _)). rewrite RL. apply (M_parent_bound B s None [] [] (proj2 Inv) r p Lr EP). }
    assert (Hn1 : fr_node (gref s1 p) < nlen s1) by (apply (M_node_bound B s1 None [] [] (proj2 I1) p Lp1)).
    destruct (mcd_ok s1 d None (fr_node (gref s1 p)) nm I1 Hn1) as (I2 & L2).
    destruct a; cbn [snd]; auto; (split; [exact I2|]; eapply led_equiv; [|exact (led_trans _ _ _ _ _ _ _ L1 L2)]; led_arith). }
  destruct first as [err s1]. cbn [snd] in R1. destruct R1 as (I1 & L1).
  destruct (s_panic B s1 && negb (s_panic B s)); [cbn; auto|].
  destruct (delete_ok s1 d c fid I1) as (I2 & L2).
  destruct (delete_fid B bstep c fid s1) as [fe s2]. cbn [snd] in *.
  assert (R : FInv s2 d /\ led [] [] s s2).
  { split; auto. eapply led_equiv; [|exact (led_trans _ _ _ _ _ _ _ L1 L2)]. led_arith. }
  destruct fe; [exact R|]. destruct err; exact R.
Qed.

Lemma ok_create c fid nm flags : ok [] (fun s => snd (do_create B bstep c fid nm flags s)).
Proof.
  unfold do_create. apply with_fid_ok. intros r s d Inv HP.
  assert (Hr : 0 < hc s r) by (apply HP; left; reflexivity).
  destruct (dir_guard B s r); [cbn; split; [auto | apply led_refl]|]. cbv zeta.
  pose proof (sl_bc (BCreate (fr_file (gref s r)) nm (s_nexth B s)) s ltac:(intros h [<-|[]]; exact (held_open s d None None [] r Inv Hr))) as SC1.
  destruct (bcall_ B bstep (BCreate (fr_file (gref s r)) nm (s_nexth B s)) s) as [a s1]. cbn [snd] in SC1.
  destruct (sl_ok s s1 d SC1 Inv) as (I1 & L1).
  assert (Main : forall ino,
    FInv (snd (let '(cn, s2) := path_node_for B (fr_node (gref s r)) nm (take_handle B s1) in
         let '(nr, s3) := new_ref_inc B (mkref (s_nexth B s) 0 true flags MReg cn (Some r) None XNone) s2 in
         let s4 := add_child B (fr_node (gref s r)) nr nm s3 in
         if s_panic B s4 then (rerr EFAULT, s4)
         else (rok ino, release B bstep nr (insert_fid B bstep c fid nr s4)))) d /\
    led [] [] s (snd (let '(cn, s2) := path_node_for B (fr_node (gref s r)) nm (take_handle B s1) in
         let '(nr, s3) := new_ref_inc B (mkref (s_nexth B s) 0 true flags MReg cn (Some r) None XNone) s2 in
         let s4 := add_child B (fr_node (gref s r)) nr nm s3 in
         if s_panic B s4 then (rerr EFAULT, s4)
         else (rok ino, release B bstep nr (insert_fid B bstep c fid nr s4))))).
  { intros ino.
    assert (N1 : s_nexth B s1 = s_nexth B s) by (apply (proj1 (proj1 SC1))).
    assert (SCc : same_core B s s1) by (apply (proj1 (proj1 SC1))).
    destruct (take_handle_ok s1 d None [] I1) as (It & Lt). rewrite N1 in It.
    destruct (live_ref s d None r (proj1 Inv) ltac:(pose proof (C_hc s r); lia)) as (Lr & _).
    set (n := fr_node (gref s r)).
    assert (Gt : gref (take_handle B s1) r = gref s r) by (change (gref (take_handle B s1) r) with (gref s1 r); apply (gref_sc s s1 r SCc)).
    assert (Lrt : r < rlen (take_handle B s1)).
    { change (rlen (take_handle B s1)) with (rlen s1). destruct SCc as (_ & _ & R & _). unfold TreeInv.rlen. rewrite R. exact Lr. }
    assert (Hnt : n < nlen (take_handle B s1)).
    { pose proof (M_node_bound B _ None [] [] (proj2 It) r Lrt) as X. rewrite Gt in X. exact X. }
    pose proof (pnf_ok (take_handle B s1) d (Some (s_nexth B s)) [] n nm It Hnt) as P2. cbv zeta in P2.
    destruct (path_node_for B n nm (take_handle B s1)) as [cn s2]. cbn [fst snd] in P2. destruct P2 as (I2 & L2 & HC2 & SC2 & NL2).
    assert (L02 : led [] [] s s2).
    { eapply led_equiv; [|exact (led_trans _ _ _ _ _ _ _ (led_trans _ _ _ _ _ _ _ L1 Lt) L2)]. led_arith. }
    assert (Hr2 : 0 < hc s2 r) by (eapply led_hc_pos; [exact L02 | lia | reflexivity]).
    assert (Hn2 : n < nlen s2) by lia.
    assert (Hcn : cn < nlen s2) by (apply (M_child_bound B s2 None [] [] (proj2 I2) n nm cn Hn2 HC2)).
    assert (G2 : gref s2 r = gref s r) by (rewrite (gref_sc _ s2 r SC2); exact Gt).
    assert (Lr2 : r < rlen s2) by (destruct SC2 as (_ & _ & R & _); unfold TreeInv.rlen; rewrite R; exact Lrt).
    set (x := mkref (s_nexth B s) 0 true flags MReg cn (Some r) None XNone).
    assert (HPx : forall p, fr_parent x = Some p -> 0 < C s2 p).
    { intros p [= <-]. pose proof (C_hc s2 r); lia. }
    destruct (new_owner_inc_ok s2 d None [] (s_nexth B s) x I2 eq_refl eq_refl Hcn HPx) as (E3 & I3 & L3 & Hnr).
    destruct (new_ref_inc_facts x s2) as (_ & N3 & R3 & (GP3 & GN3) & Gold).
    assert (NoReg : alookup Nat.eqb (rlen s2) (pn_names (gnode s2 n)) = None).
    { destruct (alookup Nat.eqb (rlen s2) (pn_names (gnode s2 n))) as [nm'|] eqn:X; auto. exfalso.
      destruct (M_reg B s2 None [] [] (proj2 I2) n (rlen s2) nm' Hn2 X) as (Y & _). lia. }
    destruct (new_ref_inc B x s2) as [nr s3]. cbn [fst snd] in *. subst nr.
    assert (GN3' : forall k, gnode s3 k = gnode s2 k) by (intros k; unfold get_node; rewrite N3; reflexivity).
    destruct (add_child_ok s3 d None None [rlen s2] [] n (rlen s2) nm r I3) as (I4 & L4).
    + unfold TreeInv.nlen. rewrite N3. exact Hn2.
    + pose proof (C_hc s3 (rlen s2)). lia.
    + rewrite GP3. reflexivity.
    + destruct (Gold r Lr2) as (_ & ->). rewrite G2. reflexivity.
    + unfold node_ok. cbn. unfold TreeInv.child_node. rewrite GN3', GN3. exact HC2.
    + rewrite GN3'. exact NoReg.
    + intros q [<-|[]]. left. reflexivity.
    + set (s4 := add_child B n (rlen s2) nm s3) in *. set (nr := rlen s2) in *.
    assert (L04 : led [nr] [] s s4).
    { eapply led_equiv; [|exact (led_trans _ _ _ _ _ _ _ (led_trans _ _ _ _ _ _ _ L02 L3) L4)]. led_arith. }
    destruct (s_panic B s4) eqn:P4; cbn [snd].
    - split; auto. apply (led_weaken_panic [] [nr] []); auto.
    - assert (Hn : 0 < hc s4 nr) by (eapply led_hc_pos; [exact L04 | rewrite cnt_cons, ind_same; lia | reflexivity]).
      destruct (insert_ok s4 d c fid nr I4 ltac:(pose proof (C_hc s4 nr); lia)) as (I5 & L5).
      assert (Hn5 : 0 < hc (insert_fid B bstep c fid nr s4) nr) by (eapply led_hc_pos; [exact L5 | lia | reflexivity]).
      destruct (release_ok _ d nr I5 Hn5) as (I6 & L6). split; auto.
      eapply led_equiv; [|exact (led_trans _ _ _ _ _ _ _ (led_trans _ _ _ _ _ _ _ L04 L5) L6)]. led_arith. }
  destruct a as [m ino|e|m ino]; [apply Main | cbn; auto | apply Main].
Qed.

Lemma ok_xattrwalk c fid newfid : ok [] (fun s => snd (do_xattrwalk B bstep c fid newfid s)).
Proof.
  unfold do_xattrwalk. apply with_fid_ok. intros r s d Inv HP.
  assert (Hr : 0 < hc s r) by (apply HP; left; reflexivity).
  destruct (is_deleted B s r); [cbn; split; [auto | apply led_refl]|]. cbv zeta.
  pose proof (sl_bc (BUse uGetXattr (fr_file (gref s r))) s ltac:(intros h [<-|[]]; exact (held_open s d None None [] r Inv Hr))) as SC1.
  destruct (bcall_ B bstep (BUse uGetXattr (fr_file (gref s r))) s) as [a s1]. cbn [snd] in SC1.
  destruct (sl_ok s s1 d SC1 Inv) as (I1 & L1).
  assert (Main :
    let '(nr, s2) := new_ref_inc B (mkref (fr_file (gref s r)) 0 false 0 MNone (fr_node (gref s r)) None (Some r) XWalk) s1 in
    FInv (release B bstep nr (insert_fid B bstep c newfid nr s2)) d /\
    led [] [] s (release B bstep nr (insert_fid B bstep c newfid nr s2))).
  { assert (Hr1 : 0 < hc s1 r) by (eapply led_hc_pos; [exact L1 | lia | reflexivity]).
    set (x := mkref (fr_file (gref s r)) 0 false 0 MNone (fr_node (gref s r)) None (Some r) XWalk).
    assert (HX : forall o, fr_xattrOf x = Some o -> 0 < C s1 o).
    { intros o [= <-]. pose proof (C_hc s1 r); lia. }
    assert (G1 : gref s1 r = gref s r) by (apply (gref_sc s s1 r (proj1 (proj1 (proj1 SC1))))).
    assert (HF : fr_file x = fr_file (gref s1 r)) by (rewrite G1; reflexivity).
    destruct (live_ref s1 d None r (proj1 I1) ltac:(pose proof (C_hc s1 r); lia)) as (Lr1 & _).
    assert (Hnx : fr_node x < nlen s1). { pose proof (M_node_bound B s1 None [] [] (proj2 I1) r Lr1) as X. rewrite G1 in X. exact X. }
    destruct (new_borrower_ok s1 d None None [] x r I1 eq_refl eq_refl (HX r eq_refl) HF Hnx) as (E2 & I2 & L2 & _).
    destruct (new_ref_inc B x s1) as [nr s2]. cbn [fst snd] in *.
    assert (L02 : led [nr] [] s s2) by (eapply led_equiv; [|exact (led_trans _ _ _ _ _ _ _ L1 L2)]; led_arith).
    assert (Hn : 0 < hc s2 nr) by (eapply led_hc_pos; [exact L02 | rewrite cnt_cons, ind_same; lia | reflexivity]).
    destruct (insert_ok s2 d c newfid nr I2 ltac:(pose proof (C_hc s2 nr); lia)) as (I3 & L3).
    assert (Hn3 : 0 < hc (insert_fid B bstep c newfid nr s2) nr) by (eapply led_hc_pos; [exact L3 | lia | reflexivity]).
    destruct (release_ok _ d nr I3 Hn3) as (I4 & L4). split; auto.
    eapply led_equiv; [|exact (led_trans _ _ _ _ _ _ _ (led_trans _ _ _ _ _ _ _ L02 L3) L4)]. led_arith. }
  destruct (new_ref_inc B _ s1) as [nr s2].
  destruct a; cbn [snd]; auto.
Qed.

Lemma stop_loop_ok l c : forall s d, FInv s d -> FInv (stop_loop B bstep l c s) d /\ led [] [] s (stop_loop B bstep l c s).
Proof.
  induction l as [|[[c' f] r] l IH]; intros s d Inv; cbn [stop_loop]; [split; [auto | apply led_refl]|].
  destruct (c' =? c); auto.
  destruct (delete_ok s d c' f Inv) as (I1 & L1). destruct (IH _ d I1) as (I2 & L2). split; auto.
  eapply led_equiv; [|exact (led_trans _ _ _ _ _ _ _ L1 L2)]. led_arith.
Qed.

Lemma ok_stop c : ok [] (fun s => snd (do_stop B bstep c s)).
Proof. intros s d Inv _. unfold do_stop. cbn [snd]. apply stop_loop_ok; auto. Qed.

(** ---- rename ---- *)
Notation registered := (registered B).

(** what renameChildTo's callback does to the other fidRefs and to the registries *)
Lemma rename_cb_rel tgt tnm r (s : st) :
  fr_node (gref s tgt) < nlen s ->
  let s' := rename_cb B bstep tgt tnm r s in
  nlen s' = nlen s /\ (forall k, pn_nodes (gnode s' k) = pn_nodes (gnode s k)) /\
  (forall q, fr_node (gref s' q) = fr_node (gref s q) /\ fr_xattrOf (gref s' q) = fr_xattrOf (gref s q) /\
             (q <> r -> fr_parent (gref s' q) = fr_parent (gref s q))) /\
  (forall k q nm', q <> r -> registered s' k q nm' -> registered s k q nm') /\
  (forall k nm', registered s' k r nm' -> (k = fr_node (gref s tgt) /\ nm' = tnm) \/ registered s k r nm').
Proof.
  intros Htn. cbv zeta. unfold rename_cb. destruct (fr_parent (gref s r)) as [p|] eqn:EP.
  2:{ repeat split; auto. }
  set (sA := set_ref B r (fr_with_parent (gref s r) (Some tgt)) s). set (s1 := incref B tgt sA).
  assert (F1 : forall q, fr_node (gref s1 q) = fr_node (gref s q) /\ fr_xattrOf (gref s1 q) = fr_xattrOf (gref s q) /\
                        (q <> r -> fr_parent (gref s1 q) = fr_parent (gref s q))).
  { intros q. assert (FA : fr_node (gref sA q) = fr_node (gref s q) /\ fr_xattrOf (gref sA q) = fr_xattrOf (gref s q) /\ (q <> r -> fr_parent (gref sA q) = fr_parent (gref s q))).
    { unfold sA. destruct (Nat.eq_dec r q) as [<-|N].
      - destruct (Nat.lt_ge_cases r (length (s_refs B s))) as [L|L]; [rewrite gref_set_same by exact L; cbn; repeat split; auto; congruence|].
        unfold set_ref. rewrite upd_oob by exact L. destruct s; cbn. repeat split; auto.
      - rewrite gref_set_other by exact N. repeat split; auto. }
    destruct (keeps_set_refs B sA tgt (fr_refs (gref sA tgt) + 1)) as (_ & _ & _ & _ & _ & Q). fold (incref B tgt sA) in Q. fold s1 in Q.
    pose proof (keeps_field B fr_node sA s1 q ltac:(reflexivity) ltac:(apply keeps_set_refs)) as Q1.
    pose proof (keeps_field B fr_xattrOf sA s1 q ltac:(reflexivity) ltac:(apply keeps_set_refs)) as Q2.
    pose proof (keeps_field B fr_parent sA s1 q ltac:(reflexivity) ltac:(apply keeps_set_refs)) as Q3.
    destruct FA as (A1 & A2 & A3). split; [congruence|]. split; [congruence|]. intros N. rewrite Q3. apply A3. exact N. }
  set (tn := fr_node (gref s1 tgt)). assert (Etn : tn = fr_node (gref s tgt)) by (apply F1).
  set (s2 := add_child B tn r tnm s1).
  assert (GN1 : forall k, gnode s1 k = gnode s k) by reflexivity.
  assert (NL2 : nlen s2 = nlen s).
  { unfold s2, add_child. destruct (alookup _ _ _); [reflexivity|]. transitivity (nlen s1); [apply nlen_set_node | reflexivity]. }
  assert (PN2 : forall k, pn_nodes (gnode s2 k) = pn_nodes (gnode s k)).
  { intros k. unfold s2, add_child. destruct (alookup _ _ _); [reflexivity|].
    destruct (Nat.eq_dec k tn) as [->|N]; [rewrite gnode_set_same by (rewrite Etn; exact Htn); reflexivity | rewrite gnode_set_other by auto; reflexivity]. }
  assert (GR2 : forall q, gref s2 q = gref s1 q).
  { intros q. unfold s2, add_child. destruct (alookup _ _ _); reflexivity. }
  set (s3 := snd (bcall_ B bstep (BRenamed (fr_file (gref s2 r)) (fr_file (gref s2 tgt)) tnm) s2)).
  assert (S3 : s_nodes B s3 = s_nodes B s2 /\ s_refs B s3 = s_refs B s2).
  { unfold s3, bcall_. destruct (bstep _ _). split; reflexivity. }
  pose proof (reg_mono_decref B bstep (fuel_of B s3) p s3) as (NL4 & RM4 & PN4).
  pose proof (keeps_decref B bstep (fuel_of B s3) p s3) as K4.
  fold (decref_ B bstep p s3) in NL4, RM4, PN4, K4. set (s4 := snd (decref_ B bstep p s3)) in *.
  assert (GN3 : forall k, gnode s3 k = gnode s2 k) by (intros k; unfold get_node; destruct S3 as (-> & _); reflexivity).
  assert (GR3 : forall q, gref s3 q = gref s2 q) by (intros q; unfold get_ref; destruct S3 as (_ & ->); reflexivity).
  assert (NL3 : nlen s3 = nlen s2) by (unfold TreeInv.nlen; destruct S3 as (-> & _); reflexivity).
  split; [congruence|]. split; [intros k; destruct (PN4 k) as (-> & _); rewrite GN3; apply PN2|]. split; [|split].
  - intros q. pose proof (keeps_field B fr_node s3 s4 q ltac:(reflexivity) K4) as Q1.
    pose proof (keeps_field B fr_xattrOf s3 s4 q ltac:(reflexivity) K4) as Q2.
    pose proof (keeps_field B fr_parent s3 s4 q ltac:(reflexivity) K4) as Q3.
    rewrite Q1, Q2, Q3, !GR3, !GR2. apply F1.
  - intros k q nm' Nq H. apply RM4 in H. unfold TreeInv.registered in *. rewrite GN3 in H.
    apply (add_child_reg B s1 tn r tnm k q nm' ltac:(rewrite Etn; exact Htn) Nq) in H. exact H.
  - intros k nm' H. apply RM4 in H. unfold TreeInv.registered in *. rewrite GN3 in H. unfold s2, add_child in H.
    destruct (alookup Nat.eqb r (pn_names (gnode s1 tn))) eqn:X; [right; exact H|].
    destruct (Nat.eq_dec k tn) as [->|N].
    + rewrite gnode_set_same in H by (rewrite Etn; exact Htn). cbn in H. rewrite al_aset_eq in H. injection H as <-. left. auto.
    + rewrite gnode_set_other in H by auto. right. exact H.
Qed.

(** the facts about the fidRefs still to be moved *)
Definition FQ (s : st) (fn fnm c q : nat) : Prop :=
  (forall k nm', k < nlen s -> registered s k q nm' -> k = fn /\ nm' = fnm) /\
  fr_node (gref s q) = c /\ (exists p, fr_parent (gref s q) = Some p) /\ fr_xattrOf (gref s q) = None.

Definition LoopP (tn tnm c fn fnm tgt : nat) (s : st) (rest : list nat) : Prop :=
  tokM s (Some (tn, tnm, c, fn, fnm)) [] [] /\ fr_node (gref s tgt) = tn /\ fn < nlen s /\ NoDup rest /\
  (forall q, registered s fn q fnm -> In q rest) /\ (forall q, In q rest -> FQ s fn fnm c q) /\
  child_node B s fn fnm c.

Lemma loop_iter tn tnm c fn fnm tgt d r rest (s : st) :
  (fn, fnm) <> (tn, tnm) ->
  LifeStep.FInv B s d -> 0 < hc s tgt -> LoopP tn tnm c fn fnm tgt s (r :: rest) ->
  LoopP tn tnm c fn fnm tgt (rwn_iter B bstep fn fnm tgt tnm r s) rest.
Proof.
  intros NE F Ht (T & ENt & Hfn & ND & Q & FQs & HC).
  set (mv := Some (tn, tnm, c, fn, fnm)) in *.
  apply NoDup_cons_iff in ND. destruct ND as (Hr & NDr).
  destruct (FQs r (or_introl eq_refl)) as (Ur & ENr & (p & EPr) & EXr).
  destruct (live_ref s d None tgt F ltac:(pose proof (C_hc s tgt); lia)) as (Lt & Lvt).
  unfold rwn_iter. cbv zeta. change (set_node B fn _ s) with (rwn_step B fn fnm r s).
  set (s1 := rwn_step B fn fnm r s).
  assert (T1 : tokM s1 mv [r] []).
  { apply M_rwn_step; auto. destruct (alookup Nat.eqb r (pn_names (gnode s fn))) as [x|] eqn:X; [|right; reflexivity].
    left. destruct (Ur fn x Hfn X) as (_ & ->). exact X. }
  destruct (rwn_step_shape B s fn fnm r) as (R1 & NL1 & G1). fold s1 in R1, NL1, G1.
  assert (GR1 : forall q, gref s1 q = gref s q) by (intros q; unfold get_ref; rewrite R1; reflexivity).
  assert (Reg1 : forall k q nm', registered s1 k q nm' <-> (~ (k = fn /\ q = r) /\ registered s k q nm')) by (intros; apply rwn_step_reg; exact Hfn).
  assert (HC1 : child_node B s1 fn fnm c) by (unfold TreeInv.child_node in *; destruct (G1 fn) as (-> & _); exact HC).
  assert (NoReg1 : forall k nm', k < nlen s1 -> ~ registered s1 k r nm').
  { intros k nm' Hk H. apply Reg1 in H. destruct H as (A & H). rewrite NL1 in Hk. destruct (Ur k nm' Hk H) as (-> & _). apply A. auto. }
  assert (Rest1 : forall q, In q rest -> FQ s1 fn fnm c q).
  { intros q Hq. destruct (FQs q (or_intror Hq)) as (U & N & P & X). unfold FQ. rewrite NL1, GR1. split; [|auto].
    intros k nm' Hk H. apply Reg1 in H. apply (U k nm' Hk). apply H. }
  assert (Q1 : forall q, registered s1 fn q fnm -> In q rest).
  { intros q H. apply Reg1 in H. destruct H as (A & H). destruct (Q q H) as [<-|Hq]; [exfalso; apply A; auto | exact Hq]. }
  destruct (Z.leb_spec (fr_refs (gref s1 r)) 0) as [Le|Gt].
  - (* being destroyed: skipped *)
    split; [|split; [rewrite GR1; exact ENt | split; [rewrite NL1; exact Hfn | split; [exact NDr | split; [exact Q1 | split; [exact Rest1 | exact HC1]]]]]].
    apply (M_drop_E B s1 mv [] [] r T1). intros p0 L. exfalso. unfold TreeInv.ref_live in L. lia.
  - set (s2 := hold B r s1).
    assert (ST2 : same_tree s1 s2).
    { unfold s2, hold. eapply same_tree_trans; [apply st_incref; exact Gt | apply st_with_held]. }
    assert (T2 : tokM s2 mv [r] []) by (eapply M_frame; eauto).
    destruct ST2 as (N2 & RL2 & Q2).
    assert (GN2 : forall k, gnode s2 k = gnode s1 k) by (intros k; unfold get_node; rewrite N2; reflexivity).
    assert (NL2 : nlen s2 = nlen s1) by (unfold TreeInv.nlen; rewrite N2; reflexivity).
    assert (Lr2 : r < rlen s2).
    { rewrite RL2. destruct (Nat.lt_ge_cases r (rlen s1)); auto. unfold get_ref in Gt. rewrite nth_overflow in Gt by auto. cbn in Gt. lia. }
    assert (Lv2 : forall q, (0 < fr_refs (gref s q))%Z -> (0 < fr_refs (gref s2 q))%Z).
    { intros q L. apply Q2. unfold TreeInv.ref_live. rewrite GR1. exact L. }
    assert (Fl2 : forall q, fr_parent (gref s2 q) = fr_parent (gref s q) /\ fr_node (gref s2 q) = fr_node (gref s q) /\ fr_xattrOf (gref s2 q) = fr_xattrOf (gref s q)).
    { intros q. destruct (Q2 q) as (A1 & A2 & A3 & _). rewrite GR1 in *. auto. }
    destruct (Fl2 r) as (EP2 & EN2 & EX2). destruct (Fl2 tgt) as (_ & ENt2 & _).
    assert (T3 : tokM (rename_cb B bstep tgt tnm r s2) mv [] []).
    { apply (rename_cb_T B bstep s2 [] tn tnm c fn fnm tgt r p T2 Lr2).
      - apply Q2. exact Gt.
      - rewrite RL2. unfold TreeInv.rlen. rewrite R1. exact Lt.
      - apply Lv2. exact Lvt.
      - congruence.
      - congruence.
      - congruence.
      - congruence.
      - intros k nm' Hk H. unfold TreeInv.registered in H. rewrite GN2 in H. rewrite NL2 in Hk. apply (NoReg1 k nm' Hk H).
      - intros []. }
    assert (Htn2 : fr_node (gref s2 tgt) < nlen s2).
    { rewrite ENt2, ENt, NL2, NL1. apply (M_slot B s mv [] [] T tn tnm c fn fnm eq_refl). }
    destruct (rename_cb_rel tgt tnm r s2 Htn2) as (NL3 & PN3 & F3 & RM3 & RS3).
    set (s3 := rename_cb B bstep tgt tnm r s2) in *.
    split; [exact T3|]. split; [destruct (F3 tgt) as (-> & _); congruence|]. split; [rewrite NL3, NL2, NL1; exact Hfn|]. split; [exact NDr|]. split; [|split].
    + intros q H. destruct (Nat.eq_dec q r) as [->|Nq].
      * exfalso. apply RS3 in H. destruct H as [(A1 & A2)|H].
        -- apply NE. rewrite ENt2, ENt in A1. congruence.
        -- unfold TreeInv.registered in H. rewrite GN2 in H. apply (NoReg1 fn fnm ltac:(rewrite NL1; exact Hfn) H).
      * apply (RM3 fn q fnm Nq) in H. unfold TreeInv.registered in H. rewrite GN2 in H. apply Q1. exact H.
    + intros q Hq. assert (Nq : q <> r) by (intros ->; contradiction).
      destruct (Rest1 q Hq) as (U & N & (p0 & P) & X). destruct (F3 q) as (FN & FX & FP). destruct (Fl2 q) as (A1 & A2 & A3).
      unfold FQ. rewrite NL3, NL2. split; [|split; [rewrite FN, A2, <- GR1; exact N | split; [exists p0; rewrite (FP Nq), A1, <- GR1; exact P | rewrite FX, A3, <- GR1; exact X]]].
      intros k nm' Hk H. apply (RM3 k q nm' Nq) in H. unfold TreeInv.registered in H. rewrite GN2 in H. apply (U k nm' Hk H).
    + unfold TreeInv.child_node in *. rewrite PN3, GN2. exact HC1.
Qed.

Lemma release_all_T l mv E : forall (s : st), tokM s mv E [] -> tokM (release_all B bstep l s) mv E [] /\ reg_mono B s (release_all B bstep l s).
Proof.
  induction l as [|r l IH]; intros s T; cbn [release_all]; [split; [exact T | apply reg_mono_refl]|].
  assert (T1 : tokM (release B bstep r s) mv E []).
  { unfold release, decref_. apply decref_T. eapply M_frame; [apply st_with_held | exact T]. }
  assert (M1 : reg_mono B s (release B bstep r s)).
  { unfold release, decref_. eapply reg_mono_trans; [apply (reg_mono_nodes B s (with_held B (remove_one r (s_held B s)) s)); reflexivity | apply reg_mono_decref]. }
  destruct (IH _ T1) as (T2 & M2). split; [exact T2 | eapply reg_mono_trans; eauto].
Qed.

Lemma nlen_mcd n nm (s : st) : nlen (mark_child_deleted B bstep n nm s) = nlen s.
Proof.
  unfold mark_child_deleted, remove_with_name.
  set (lp := match alookup Nat.eqb nm (pn_refs (get_node B s n)) with Some m => rwn_loop B n nm None m [] s | None => ([], s) end).
  assert (H1 : fst lp = [] /\ nlen (snd lp) = nlen s).
  { unfold lp. destruct (alookup Nat.eqb nm (pn_refs (get_node B s n))); [|split; reflexivity].
    split; [apply held_rwn_none'|]. destruct (ns_rwn_none B n nm l [] s) as (L & _). exact L. }
  destruct lp as [held s1]. cbn [fst snd] in H1. destruct H1 as (-> & L1). cbn [release_all].
  set (s2 := set_node B n (pn_with_nodes (get_node B s1 n) (adel Nat.eqb nm (pn_nodes (get_node B s1 n)))) s1).
  assert (L2 : nlen s2 = nlen s) by (unfold s2; rewrite nlen_set_node; exact L1).
  destruct (alookup Nat.eqb nm (pn_nodes (get_node B s1 n))) as [v|]; [|exact L2].
  destruct (ns_notify_delete B (node_fuel B s2) v s2) as (L & _). unfold TreeInv.nlen in *. rewrite L. exact L2.
Qed.

(** renameChildTo keeps the path tree well formed *)
Lemma rename_child_to_T fnode oldnm tgt newnm s d :
  LifeStep.FInv B s d -> 0 < hc s tgt -> tokM s None [] [] -> fnode < nlen s ->
  (fnode, oldnm) <> (fr_node (gref s tgt), newnm) ->
  tokM (rename_child_to B bstep fnode oldnm tgt newnm s) None [] [].
Proof.
  intros F Ht T Hfn NE. unfold rename_child_to. cbv zeta.
  set (tn := fr_node (gref s tgt)) in *.
  destruct (live_ref s d None tgt F ltac:(pose proof (C_hc s tgt); lia)) as (Lt & _).
  assert (Htn : tn < nlen s) by (apply (M_node_bound B s None [] [] T tgt Lt)).
  set (s1 := mark_child_deleted B bstep tn newnm s).
  assert (T1 : tokM s1 None [] []) by (apply M_mark_child_deleted; auto).
  destruct (LifeStep.sl_ok B s s1 d None (LifeStep.sl_mark_child_deleted B bstep tn newnm s) F) as (F1 & L1).
  assert (Ht1 : 0 < hc s1 tgt) by (eapply led_hc_pos; [exact L1 | lia | reflexivity]).
  assert (NL1 : nlen s1 = nlen s) by apply nlen_mcd.
  assert (G1 : gref s1 tgt = gref s tgt).
  { destruct (sc_mark_child_deleted B bstep tn newnm s) as (_ & _ & R & _). unfold get_ref. fold s1 in R. rewrite R. reflexivity. }
  assert (Free : alookup Nat.eqb newnm (pn_nodes (gnode s1 tn)) = None) by (apply (unlinked_name_has_no_node B bstep tn newnm s Htn)).
  assert (Hfn1 : fnode < nlen s1) by (rewrite NL1; exact Hfn).
  assert (Htn1 : tn < nlen s1) by (rewrite NL1; exact Htn).
  unfold remove_with_name.
  set (m := match alookup Nat.eqb oldnm (pn_refs (gnode s1 fnode)) with Some m => m | None => [] end).
  assert (HRm : forall r, In r m <-> registered s1 fnode r oldnm).
  { intros r. rewrite (M_agree B s1 None [] [] T1 fnode r oldnm Hfn1). unfold TreeInv.in_refs, m.
    destruct (alookup Nat.eqb oldnm (pn_refs (gnode s1 fnode))) as [l0|]; split.
    - intros H. exists l0. auto.
    - intros (l1 & [= <-] & H). exact H.
    - intros [].
    - intros (l1 & X & _). discriminate. }
  assert (NDm : NoDup m).
  { unfold m. destruct (alookup Nat.eqb oldnm (pn_refs (gnode s1 fnode))) as [l0|] eqn:El; [apply (M_nodup B s1 None [] [] T1 fnode oldnm l0 Hfn1 El) | constructor]. }
  destruct (alookup Nat.eqb oldnm (pn_nodes (gnode s1 fnode))) as [c|] eqn:EC.
  - (* the entry exists: the slot opens *)
    pose proof (M_open_slot B s1 [] [] tn newnm c fnode oldnm T1 Htn1 Hfn1 Free EC) as TM.
    set (mv := Some (tn, newnm, c, fnode, oldnm)) in *.
    assert (P0 : LoopP tn newnm c fnode oldnm tgt s1 m).
    { split; [exact TM|]. split; [rewrite G1; reflexivity|]. split; [exact Hfn1|]. split; [exact NDm|]. split; [intros q H; apply HRm; exact H|]. split; [|exact EC].
      intros q Hq. apply HRm in Hq. destruct (M_reg B s1 None [] [] T1 fnode q oldnm Hfn1 Hq) as (Lq & _ & p & EP & _ & ENp & NOK).
      split; [|split; [|split; [exists p; exact EP|]]].
      - intros k nm' Hk H. pose proof (reg_unique B s1 None [] [] k q nm' p T1 Hk H EP) as U. split; [congruence|].
        unfold TreeInv.registered in *. subst k. rewrite ENp in H. congruence.
      - unfold node_ok in NOK. cbn in NOK. unfold TreeInv.child_node in NOK. congruence.
      - destruct (fr_xattrOf (gref s1 q)) as [o|] eqn:EX; auto. pose proof (M_xattr B s1 None [] [] T1 q o Lq EX). congruence. }
    assert (PL : let lp := match alookup Nat.eqb oldnm (pn_refs (gnode s1 fnode)) with
                           | Some m0 => rwn_loop B fnode oldnm (Some (rename_cb B bstep tgt newnm)) m0 [] s1 | None => ([], s1) end in
                 LoopP tn newnm c fnode oldnm tgt (snd lp) []).
    { cbv zeta. unfold m in P0. destruct (alookup Nat.eqb oldnm (pn_refs (gnode s1 fnode))) as [l0|]; [|exact P0].
      apply (rwn_loop_gen B bstep fnode oldnm tgt newnm (LoopP tn newnm c fnode oldnm tgt) d l0 [] s1); auto.
      intros r rest s0 F0 Ht0 PP. apply (loop_iter tn newnm c fnode oldnm tgt d r rest s0); auto. }
    cbv zeta in PL.
    set (lp := match alookup Nat.eqb oldnm (pn_refs (gnode s1 fnode)) with
               | Some m0 => rwn_loop B fnode oldnm (Some (rename_cb B bstep tgt newnm)) m0 [] s1 | None => ([], s1) end) in *.
    destruct lp as [held sL]. cbn [snd] in PL.
    destruct PL as (TL & ENtL & HfnL & _ & QL & _ & HCL).
    unfold TreeInv.child_node in HCL. rewrite HCL.
    destruct (M_detach B sL mv [] [] fnode oldnm TL HfnL) as (T2 & Det2).
    { intros r H. apply (QL r H). }
    { unfold in_slot, mv. destruct (Nat.eqb_spec fnode tn) as [->|]; auto. destruct (Nat.eqb_spec oldnm newnm) as [->|]; auto. exfalso. apply NE. reflexivity. }
    set (s2 := set_node B fnode (pn_with_nodes (gnode sL fnode) (adel Nat.eqb oldnm (pn_nodes (gnode sL fnode)))) sL) in *.
    destruct (release_all_T held mv [] s2 T2) as (T3 & (NL3 & _ & PN3)).
    set (s2' := release_all B bstep held s2) in *.
    assert (Det3 : forall n nm, n < nlen s2' -> ~ child_node B s2' n nm c).
    { intros n nm Hn H. unfold TreeInv.child_node in H. destruct (PN3 n) as (E3 & _). rewrite E3 in H.
      apply (Det2 c HCL n nm); [rewrite NL3 in Hn; unfold s2 in Hn; rewrite nlen_set_node in Hn; exact Hn | exact H]. }
    destruct (M_attach B s2' [] [] tn newnm c fnode oldnm T3 Det3) as (T4 & _).
    set (s3 := add_path_node_for B tn newnm c s2') in *.
    destruct (s_panic B s3); [exact T4|].
    pose proof (notify_name_change_T B bstep (node_fuel B s3) None [] [] c ([], s3) T4) as T5.
    destruct (notify_name_change B bstep (node_fuel B s3) c ([], s3)) as [held' s4]. cbn [snd] in T5.
    apply (release_all_T held' None [] s4 T5).
  - (* nothing is registered under the old name *)
    assert (Em : m = []).
    { destruct m as [|r m']; auto. exfalso. assert (Hr : registered s1 fnode r oldnm) by (apply HRm; left; reflexivity).
      destruct (M_reg B s1 None [] [] T1 fnode r oldnm Hfn1 Hr) as (_ & _ & p & _ & _ & _ & NOK). unfold node_ok in NOK. cbn in NOK.
      unfold TreeInv.child_node in NOK. congruence. }
    assert (PL : let lp := match alookup Nat.eqb oldnm (pn_refs (gnode s1 fnode)) with
                           | Some m0 => rwn_loop B fnode oldnm (Some (rename_cb B bstep tgt newnm)) m0 [] s1 | None => ([], s1) end in
                 lp = ([], s1)).
    { cbv zeta. unfold m in Em. destruct (alookup Nat.eqb oldnm (pn_refs (gnode s1 fnode))) as [l0|]; [subst l0; reflexivity | reflexivity]. }
    cbv zeta in PL. rewrite PL. rewrite EC. cbn [release_all].
    apply (M_detach B s1 None [] [] fnode oldnm T1 Hfn1); [|reflexivity].
    intros r H. assert (In r m) by (apply HRm; exact H). rewrite Em in H0. contradiction.
Qed.

Lemma rename_child_to_ok fnode oldnm tgt newnm s d :
  FInv s d -> 0 < hc s tgt -> fnode < nlen s -> (fnode, oldnm) <> (fr_node (gref s tgt), newnm) ->
  FInv (rename_child_to B bstep fnode oldnm tgt newnm s) d /\ led [] [] s (rename_child_to B bstep fnode oldnm tgt newnm s).
Proof.
  intros (F & T) Ht Hfn NE. destruct (LifeStep.rename_child_to_ok B bstep fnode oldnm tgt newnm s d F Ht) as (F1 & L1).
  split; [split; [exact F1|] | exact L1]. apply (rename_child_to_T fnode oldnm tgt newnm s d F Ht T Hfn NE).
Qed.

Lemma neq_pair (a b a' b' : nat) : (a =? a') && (b =? b') = false -> (a, b) <> (a', b').
Proof. intros H [= -> ->]. rewrite !Nat.eqb_refl in H. discriminate. Qed.

Lemma ok_rename c fid dfid nm : ok [] (fun s => snd (do_rename B bstep c fid dfid nm s)).
Proof.
  unfold do_rename. apply with_fid_ok. intros r. apply with_fid_ok. intros t s d Inv HP. cbv zeta.
  assert (Ht : 0 < hc s t) by (apply HP; left; reflexivity).
  assert (Hr0 : 0 < hc s r) by (apply HP; right; left; reflexivity).
  destruct (fr_parent (gref s r)) as [p|] eqn:EP; [|cbn; split; [auto | apply led_refl]].
  destruct (_ || _); [cbn; split; [auto | apply led_refl]|].
  destruct (is_deleted B s p); [cbn [snd]; apply sl_ok; auto; apply sl_set_panic|].
  destruct (name_for B (fr_node (gref s p)) r s) as [old|]; [|cbn [snd]; apply sl_ok; auto; apply sl_set_panic].
  destruct ((fr_node (gref s p) =? fr_node (gref s t)) && (old =? nm)) eqn:NE; [cbn; split; [auto | apply led_refl]|].
  pose proof (sl_bc (BRenameAt (fr_file (gref s p)) old (fr_file (gref s t)) nm) s
                ltac:(intros h [<-|[<-|[]]]; [exact (parent_open s d None None [] r p Inv Hr0 EP) | exact (held_open s d None None [] t Inv Ht)])) as SC1.
  destruct (bcall_ B bstep (BRenameAt (fr_file (gref s p)) old (fr_file (gref s t)) nm) s) as [a s1]. cbn [snd] in SC1.
  destruct (sl_ok s s1 d SC1 Inv) as (I1 & L1).
  assert (Ht1 : 0 < hc s1 t) by (eapply led_hc_pos; [exact L1 | lia | reflexivity]).
  assert (SCc : same_core B s s1) by (apply (proj1 (proj1 (proj1 SC1)))).
  destruct (live_ref s d None r (proj1 Inv) ltac:(pose proof (C_hc s r); lia)) as (Lr & _).
  assert (Lp : p < rlen s) by (apply (M_parent_bound B s None [] [] (proj2 Inv) r p Lr EP)).
  assert (Hfn : fr_node (gref s p) < nlen s1).
  { destruct SC1 as (_ & (N & _)). unfold TreeInv.nlen. rewrite N. apply (M_node_bound B s None [] [] (proj2 Inv) p Lp). }
  assert (NE1 : (fr_node (gref s p), old) <> (fr_node (gref s1 t), nm)) by (rewrite (gref_sc s s1 t SCc); apply neq_pair; exact NE).
  destruct (rename_child_to_ok (fr_node (gref s p)) old t nm s1 d I1 Ht1 Hfn NE1) as (I2 & L2).
  assert (R : FInv (rename_child_to B bstep (fr_node (gref s p)) old t nm s1) d /\
              led [] [] s (rename_child_to B bstep (fr_node (gref s p)) old t nm s1)).
  { split; auto. eapply led_equiv; [|exact (led_trans _ _ _ _ _ _ _ L1 L2)]. led_arith. }
  destruct a; cbn [snd]; auto.
Qed.

Lemma ok_renameat c fid oldnm fid2 newnm : ok [] (fun s => snd (do_renameat B bstep c fid oldnm fid2 newnm s)).
Proof.
  unfold do_renameat. apply with_fid_ok. intros r. apply with_fid_ok. intros t s d Inv HP. cbv zeta.
  assert (Ht : 0 < hc s t) by (apply HP; left; reflexivity).
  assert (Hr0 : 0 < hc s r) by (apply HP; right; left; reflexivity).
  destruct (_ || _); [cbn; split; [auto | apply led_refl]|].
  destruct (fr_opened (gref s r)); [cbn; split; [auto | apply led_refl]|].
  destruct ((fr_node (gref s r) =? fr_node (gref s t)) && (oldnm =? newnm)) eqn:NE; [cbn; split; [auto | apply led_refl]|].
  pose proof (sl_bc (BRenameAt (fr_file (gref s r)) oldnm (fr_file (gref s t)) newnm) s
                ltac:(intros h [<-|[<-|[]]]; [exact (held_open s d None None [] r Inv Hr0) | exact (held_open s d None None [] t Inv Ht)])) as SC1.
  destruct (bcall_ B bstep (BRenameAt (fr_file (gref s r)) oldnm (fr_file (gref s t)) newnm) s) as [a s1]. cbn [snd] in SC1.
  destruct (sl_ok s s1 d SC1 Inv) as (I1 & L1).
  assert (Ht1 : 0 < hc s1 t) by (eapply led_hc_pos; [exact L1 | lia | reflexivity]).
  assert (SCc : same_core B s s1) by (apply (proj1 (proj1 (proj1 SC1)))).
  destruct (live_ref s d None r (proj1 Inv) ltac:(pose proof (C_hc s r); lia)) as (Lr & _).
  assert (Hfn : fr_node (gref s r) < nlen s1).
  { destruct SC1 as (_ & (N & _)). unfold TreeInv.nlen. rewrite N. apply (M_node_bound B s None [] [] (proj2 Inv) r Lr). }
  assert (NE1 : (fr_node (gref s r), oldnm) <> (fr_node (gref s1 t), newnm)) by (rewrite (gref_sc s s1 t SCc); apply neq_pair; exact NE).
  destruct (rename_child_to_ok (fr_node (gref s r)) oldnm t newnm s1 d I1 Ht1 Hfn NE1) as (I2 & L2).
  assert (R : FInv (rename_child_to B bstep (fr_node (gref s r)) oldnm t newnm s1) d /\
              led [] [] s (rename_child_to B bstep (fr_node (gref s r)) oldnm t newnm s1)).
  { split; auto. eapply led_equiv; [|exact (led_trans _ _ _ _ _ _ _ L1 L2)]. led_arith. }
  destruct a; cbn [snd]; auto.
Qed.

(** ---- every request, every history ---- *)
Theorem step_ok o : ok [] (fun s => snd (step B bstep o s)).
Proof.
  destruct o; cbn [step].
  - apply ok_attach. - apply ok_walk_op. - apply ok_clunk. - apply ok_remove. - apply ok_open.
  - apply ok_create. - apply ok_mk. - apply ok_link. - apply ok_getattr. - apply ok_use. - apply ok_io.
  - apply ok_setattr. - apply ok_readdir. - apply ok_readlink. - apply ok_unlinkat. - apply ok_rename.
  - apply ok_renameat. - apply ok_xattrwalk. - apply ok_xattrcreate. - apply ok_stop.
Qed.


Theorem run_ok ops : forall s, FInv s [] -> FInv (snd (run B bstep ops s)) [].
Proof.
  induction ops as [|o ops IH]; intros s Inv; cbn [run]; [exact Inv|].
  destruct (step_ok o s [] Inv ltac:(intros x [])) as (I1 & _).
  destruct (step B bstep o s) as [rep s1]. cbn [snd] in *.
  specialize (IH s1 I1). destruct (run B bstep ops s1) as [reps s2]. exact IH.
Qed.

Lemma init_tree b : tokM (init_state B b) None [] [].
Proof.
  constructor; unfold TreeInv.registered, TreeInv.in_refs, TreeInv.child_node, TreeInv.nlen, TreeInv.rlen; cbn.
  - intros n r nm Hn. assert (n = 0) by lia. subst. cbn. split; [discriminate | intros (? & X & _); discriminate].
  - intros n nm m Hn. assert (n = 0) by lia. subst. cbn. discriminate.
  - intros n r nm Hn. assert (n = 0) by lia. subst. cbn. discriminate.
  - intros r p Hr. lia.
  - intros n nm c Hn. assert (n = 0) by lia. subst. cbn. discriminate.
  - intros r Hr. lia.
  - intros r p Hr. lia.
  - intros r o Hr. lia.
  - intros n nm n' nm' c Hn. assert (n = 0) by lia. subst. cbn. discriminate.
  - intros n nm Hn. assert (n = 0) by lia. subst. cbn. discriminate.
  - lia.
  - discriminate.
Qed.
End TStep.

(** C08_tree_inv: after every history from the initial state, for every backend *)
Theorem tree_inv_history : tree_inv_holds.
Proof.
  intros B bstep ops b. unfold tree_inv. apply tree_ok_M.
  assert (I0 : FInv B (init_state B b) []).
  { split; [split; [apply init_inv | split; [apply init_K | exact I]] | apply init_tree]. }
  apply (run_ok B bstep ops (init_state B b) I0).
Qed.
