(** Refs/GenTie.v — static tie of Refs/Model.v to the Go source: the event skeletons that RefsGen
    (tools/go2coq/refsgen.go) extracts on every run from fidRef.DecRef, notifyDelete, fidRef.markChildDeleted,
    notifyNameChange, fidRef.renameChildTo, connState.stop / LookupFID / InsertFID / DeleteFID (p9/server.go) and doWalk (p9/handlers.go)
    are equal to the table below, which was REVIEWED against the model function named in each comment.

    A skeleton lists the calls of the reference / path-tree / File operations in order, each with receiver
    and arguments as access paths ($r receiver, $pN parameter, $k.i parameter of the closure passed to event k,
    #k result of event k, ~x loop-carried variable starting as x), the path condition under which it is reached
    (guards of the enclosing ifs; !ret[..] = an earlier return under that condition was not taken) and its
    context (closure passed to which call, defer, loop).  Locals are substituted away, statements without
    events vanish, an inverted guard with early return = the nested form, [a && b] = nested ifs: renaming a
    local, re-wrapping an error or reordering event-free statements leaves the table unchanged, while
    dropping, adding, reordering or re-guarding one of these calls changes it.

    This is an equality with a reviewed table, not a semantics of Go: what ties behaviour is still the
    differential (Refs/Cases.v).  The facts the model's theorems depend on most are read off below. *)
From Coq Require Import String List Bool Arith.
From P9V Require Import gen.RefsGen.
Import ListNotations.
Open Scope string_scope.

Definition expected_skeleton : list (string * list ev) := [
  (* Model.v [decref]: count - 1; at zero: xattrOf => decref of the origin, else BClose; THEN, whatever that answered,
     parent => remove_child in the parent's node and decref of the parent (first_err joins the two results). *)
  ("fidRef.DecRef", [
    (* #0 *) ("AddInt64", "atomic", ["$r.refs"; "-1"], [], []);
    (* #1 *) ("DecRef", "$r.xattrOf", [], ["(#0==0)"; "($r.xattrOf!=nil)"], []);
    (* #2 *) ("Close", "$r.file", [], ["(#0==0)"; "($r.xattrOf==nil)"], []);
    (* #3 *) ("removeChild", "$r.parent.pathNode", ["$r"], ["(#0==0)"; "($r.parent!=nil)"], []);
    (* #4 *) ("DecRef", "$r.parent", [], ["(#0==0)"; "($r.parent!=nil)"], [])
  ]);
  (* Model.v [notify_delete]: mark, then every child node. *)
  ("notifyDelete", [
    (* #0 *) ("StoreUint32", "atomic", ["$p0.deleted"; "1"], [], []);
    (* #1 *) ("forEachChildNode", "$p0", ["<fn>"], [], []);
    (* #2 *) ("notifyDelete", "", ["$1.0"], [], ["fn#1:forEachChildNode"])
  ]);
  (* Model.v [mark_child_deleted]: remove_with_name (no callback), notify_delete of the detached node if there was one. *)
  ("fidRef.markChildDeleted", [
    (* #0 *) ("removeWithName", "$r.pathNode", ["$p0"; "nil"], [], []);
    (* #1 *) ("notifyDelete", "", ["#0"], ["(#0!=nil)"], [])
  ]);
  (* Model.v [notify_name_change]: the fidRefs registered in this node first ([renamed_call]: TryIncRef, Renamed(parent File, name)
     if it succeeded), then the child nodes: parents are told before children. *)
  ("notifyNameChange", [
    (* #0 *) ("forEachChildRef", "$p0", ["<fn>"], [], []);
    (* #1 *) ("TryIncRef", "$0.0", [], [], ["fn#0:forEachChildRef"]);
    (* #2 *) ("Renamed", "$0.0.file", ["$0.0.parent.file"; "$0.1"], ["#1"], ["fn#0:forEachChildRef"]);
    (* #3 *) ("forEachChildNode", "$p0", ["<fn>"], [], []);
    (* #4 *) ("notifyNameChange", "", ["$3.0"; "$p1"], [], ["fn#3:forEachChildNode"])
  ]);
  (* Model.v [rename_child_to] / [rename_cb]: victim fenced; per moved fidRef: re-parent, IncRef target, register, Renamed(target
     File, new name), DecRef of the original parent LAST; node re-attached; notify_name_change; held references dropped (deferred). *)
  ("fidRef.renameChildTo", [
    (* #0 *) ("markChildDeleted", "$p1", ["$p2"], [], []);
    (* #1 *) ("removeWithName", "$r.pathNode", ["$p0"; "<fn>"], [], []);
    (* #2 *) ("set parent", "$1.0", ["$p1"], [], ["fn#1:removeWithName"]);
    (* #3 *) ("IncRef", "$1.0.parent", [], [], ["fn#1:removeWithName"]);
    (* #4 *) ("addChildLocked", "$p1.pathNode", ["$1.0"; "$p2"], ["($r.pathNode==$p1.pathNode)"], ["fn#1:removeWithName"]);
    (* #5 *) ("addChild", "$p1.pathNode", ["$1.0"; "$p2"], ["($r.pathNode!=$p1.pathNode)"], ["fn#1:removeWithName"]);
    (* #6 *) ("Renamed", "$1.0.file", ["$p1.file"; "$p2"], [], ["fn#1:removeWithName"]);
    (* #7 *) ("DecRef", "$1.0.parent", [], [], ["fn#1:removeWithName"]);
    (* #8 *) ("addPathNodeFor", "$p1.pathNode", ["$p2"; "#1"], ["(#1!=nil)"], []);
    (* #9 *) ("DecRef", "each1(var0)", [], ["(#1!=nil)"], ["defer"; "range var0"]);
    (* #10 *) ("notifyNameChange", "", ["#1"; "var0"], ["(#1!=nil)"], [])
  ]);
  (* Model.v [do_stop]/[stop_loop]: after the handlers finished (pendingWg.Wait), one DecRef per fid-table entry. *)
  ("connState.stop", [
    (* #0 *) ("Wait", "$r.pendingWg", [], [], []);
    (* #1 *) ("Close", "$r.r", [], [], []);
    (* #2 *) ("Close", "$r.t", [], [], []);
    (* #3 *) ("DecRef", "each1($r.fids)", [], [], ["range $r.fids"])
  ]);
  (* Model.v [do_walk]: zero names = clone: refused for an xattr fid; walkOne(nil), the new fidRef (parent = the origin's parent,
     same node), registered under the origin's name unless deleted, parent.IncRef whenever there is a parent (deleted or not), all
     inside ONE safelyRead of the origin (BindSplit.v: the atomicity the model assumes).  Names: [walk_steps]: IncRef of the start;
     per name: not a directory => DecRef, EINVAL; inside safelyRead: deleted => ENOENT; walkOne; pathNodeFor; new fidRef with
     parent = the previous one (reference handed over, no IncRef); addChild; IncRef of the new one; error => DecRef of the previous. *)
  ("doWalk", [
    (* #0 *) ("checkSafeName", "", ["each1($p2)"], [], ["range $p2"]);
    (* #1 *) ("safelyRead", "$p1", ["<fn>"], ["(len($p2)==0)"; "($p1.xattrOf==nil)"], []);
    (* #2 *) ("walkOne", "", ["nil"; "$p1.file"; "$p1.pathNode"; "nil"; "$p3"], ["(len($p2)==0)"; "($p1.xattrOf==nil)"], ["fn#1:safelyRead"]);
    (* #3 *) ("new fidRef", "", ["file=#2.1"; "parent=$p1.parent"; "pathNode=$p1.pathNode"], ["(len($p2)==0)"; "($p1.xattrOf==nil)"; "(#2.4==nil)"], ["fn#1:safelyRead"]);
    (* #4 *) ("hasParent", "$p1", [], ["(len($p2)==0)"; "($p1.xattrOf==nil)"; "(#2.4==nil)"], ["fn#1:safelyRead"]);
    (* #5 *) ("isDeleted", "#3", [], ["(len($p2)==0)"; "($p1.xattrOf==nil)"; "(#2.4==nil)"; "!#4"], ["fn#1:safelyRead"]);
    (* #6 *) ("nameFor", "$p1.parent.pathNode", ["$p1"], ["(len($p2)==0)"; "($p1.xattrOf==nil)"; "(#2.4==nil)"; "!#4"; "!#5"], ["fn#1:safelyRead"]);
    (* #7 *) ("addChild", "$p1.parent.pathNode", ["#3"; "#6"], ["(len($p2)==0)"; "($p1.xattrOf==nil)"; "(#2.4==nil)"; "!#4"; "!#5"], ["fn#1:safelyRead"]);
    (* #8 *) ("IncRef", "$p1.parent", [], ["(len($p2)==0)"; "($p1.xattrOf==nil)"; "(#2.4==nil)"; "!#4"], ["fn#1:safelyRead"]);
    (* #9 *) ("IncRef", "#3", [], ["(len($p2)==0)"; "($p1.xattrOf==nil)"; "(#2.4==nil)"], ["fn#1:safelyRead"]);
    (* #10 *) ("IncRef", "$p1", [], ["(len($p2)!=0)"], []);
    (* #11 *) ("DecRef", "~$p1", [], ["(len($p2)!=0)"; "!~$p1.mode.IsDir()"], ["for (i<len($p2))"]);
    (* #12 *) ("safelyRead", "~$p1", ["<fn>"], ["(len($p2)!=0)"; "~$p1.mode.IsDir()"], ["for (i<len($p2))"]);
    (* #13 *) ("isDeleted", "~$p1", [], ["(len($p2)!=0)"; "~$p1.mode.IsDir()"], ["for (i<len($p2))"; "fn#12:safelyRead"]);
    (* #14 *) ("walkOne", "", ["~#2.0"; "~$p1.file"; "~$p1.pathNode"; "$p2[:]"; "true"], ["(len($p2)!=0)"; "~$p1.mode.IsDir()"; "!#13"], ["for (i<len($p2))"; "fn#12:safelyRead"]);
    (* #15 *) ("carry", "~#2.0", ["#14.0"], ["(len($p2)!=0)"; "~$p1.mode.IsDir()"; "!#13"], ["for (i<len($p2))"; "fn#12:safelyRead"]);
    (* #16 *) ("pathNodeFor", "~$p1.pathNode", ["$p2[]"], ["(len($p2)!=0)"; "~$p1.mode.IsDir()"; "!#13"; "(#14.4==nil)"], ["for (i<len($p2))"; "fn#12:safelyRead"]);
    (* #17 *) ("new fidRef", "", ["file=#14.1"; "parent=~$p1"; "pathNode=#16"], ["(len($p2)!=0)"; "~$p1.mode.IsDir()"; "!#13"; "(#14.4==nil)"], ["for (i<len($p2))"; "fn#12:safelyRead"]);
    (* #18 *) ("addChild", "~$p1.pathNode", ["#17"; "$p2[]"], ["(len($p2)!=0)"; "~$p1.mode.IsDir()"; "!#13"; "(#14.4==nil)"], ["for (i<len($p2))"; "fn#12:safelyRead"]);
    (* #19 *) ("carry", "~$p1", ["#17"], ["(len($p2)!=0)"; "~$p1.mode.IsDir()"; "!#13"; "(#14.4==nil)"], ["for (i<len($p2))"; "fn#12:safelyRead"]);
    (* #20 *) ("IncRef", "~$p1", [], ["(len($p2)!=0)"; "~$p1.mode.IsDir()"; "!#13"; "(#14.4==nil)"], ["for (i<len($p2))"; "fn#12:safelyRead"]);
    (* #21 *) ("DecRef", "~$p1", [], ["(len($p2)!=0)"; "~$p1.mode.IsDir()"; "(#12!=nil)"], ["for (i<len($p2))"])
  ]);
  (* Model.v [lookup_fid] = [hold]: IncRef of the table's fidRef under fidMu, only if the fid is bound. *)
  ("connState.LookupFID", [
    (* #0 *) ("Lock", "$r.fidMu", [], [], []);
    (* #1 *) ("Unlock", "$r.fidMu", [], [], ["defer"]);
    (* #2 *) ("IncRef", "$r.fids[]", [], ["has($r.fids[])"], [])
  ]);
  (* Model.v [insert_fid]: IncRef of the new fidRef and table store under fidMu; the replaced fidRef, if any, is
     DecRef'd AFTER fidMu is released (9140d2e: no backend Close under fidMu). *)
  ("connState.InsertFID", [
    (* #0 *) ("Lock", "$r.fidMu", [], [], []);
    (* #1 *) ("IncRef", "$p1", [], [], []);
    (* #2 *) ("store", "$r.fids", ["$p1"], [], []);
    (* #3 *) ("Unlock", "$r.fidMu", [], [], []);
    (* #4 *) ("DecRef", "$r.fids[]", [], ["has($r.fids[])"], [])
  ]);
  (* Model.v [delete_fid]: unbound => EBADF; else entry deleted under fidMu, DecRef after the unlock. *)
  ("connState.DeleteFID", [
    (* #0 *) ("Lock", "$r.fidMu", [], [], []);
    (* #1 *) ("delete", "", ["$r.fids"; "$p0"], ["has($r.fids[])"], []);
    (* #2 *) ("Unlock", "$r.fidMu", [], [], []);
    (* #3 *) ("DecRef", "$r.fids[]", [], ["has($r.fids[])"], [])
  ])
].

(** ---- facts read off the generated table ---- *)
Definition ev_name (e : ev) : string := match e with (n, _, _, _, _) => n end.
Definition ev_recv (e : ev) : string := match e with (_, r, _, _, _) => r end.
Definition ev_args (e : ev) : list string := match e with (_, _, a, _, _) => a end.
Definition ev_cond (e : ev) : list string := match e with (_, _, _, c, _) => c end.
Definition ev_ctx (e : ev) : list string := match e with (_, _, _, _, x) => x end.

Fixpoint events_of (fn : string) (t : list (string * list ev)) : list ev :=
  match t with
  | [] => []
  | (n, l) :: r => if String.eqb n fn then l else events_of fn r
  end.

Definition strs_eqb (a b : list string) : bool :=
  Nat.eqb (List.length a) (List.length b) && forallb (fun p => String.eqb (fst p) (snd p)) (combine a b).

Definition is_ev (n r : string) (e : ev) : bool := String.eqb (ev_name e) n && String.eqb (ev_recv e) r.

Fixpoint index_of (f : ev -> bool) (l : list ev) (i : nat) : option nat :=
  match l with
  | [] => None
  | e :: r => if f e then Some i else index_of f r (S i)
  end.

(** function by function first, so that a broken tie names the function that changed *)
Lemma skeleton_DecRef : events_of "fidRef.DecRef" refs_skeleton = events_of "fidRef.DecRef" expected_skeleton.
Proof. vm_compute. reflexivity. Qed.
Lemma skeleton_notifyDelete : events_of "notifyDelete" refs_skeleton = events_of "notifyDelete" expected_skeleton.
Proof. vm_compute. reflexivity. Qed.
Lemma skeleton_markChildDeleted : events_of "fidRef.markChildDeleted" refs_skeleton = events_of "fidRef.markChildDeleted" expected_skeleton.
Proof. vm_compute. reflexivity. Qed.
Lemma skeleton_notifyNameChange : events_of "notifyNameChange" refs_skeleton = events_of "notifyNameChange" expected_skeleton.
Proof. vm_compute. reflexivity. Qed.
Lemma skeleton_renameChildTo : events_of "fidRef.renameChildTo" refs_skeleton = events_of "fidRef.renameChildTo" expected_skeleton.
Proof. vm_compute. reflexivity. Qed.
Lemma skeleton_stop : events_of "connState.stop" refs_skeleton = events_of "connState.stop" expected_skeleton.
Proof. vm_compute. reflexivity. Qed.
Lemma skeleton_LookupFID : events_of "connState.LookupFID" refs_skeleton = events_of "connState.LookupFID" expected_skeleton.
Proof. vm_compute. reflexivity. Qed.
Lemma skeleton_InsertFID : events_of "connState.InsertFID" refs_skeleton = events_of "connState.InsertFID" expected_skeleton.
Proof. vm_compute. reflexivity. Qed.
Lemma skeleton_DeleteFID : events_of "connState.DeleteFID" refs_skeleton = events_of "connState.DeleteFID" expected_skeleton.
Proof. vm_compute. reflexivity. Qed.
Lemma skeleton_doWalk : events_of "doWalk" refs_skeleton = events_of "doWalk" expected_skeleton.
Proof. vm_compute. reflexivity. Qed.

(** the generated table IS the reviewed one *)
Theorem refs_skeleton_reviewed : refs_skeleton = expected_skeleton.
Proof. vm_compute. reflexivity. Qed.

(** C05 (fidRef.DecRef): when the count reaches zero and there is a parent, the fidRef is unregistered from
    the parent's node and the parent's reference is dropped - under exactly these two conditions, i.e. whatever
    Close (or the xattr origin's DecRef) returned.  Model: [decref] continues after [AErr]. *)
Theorem decref_drops_parent_unconditionally :
  let l := events_of "fidRef.DecRef" refs_skeleton in
  map (fun e => (ev_name e, ev_recv e, ev_cond e)) (filter (fun e => is_ev "removeChild" "$r.parent.pathNode" e || is_ev "DecRef" "$r.parent" e) l) =
  [("removeChild", "$r.parent.pathNode", ["(#0==0)"; "($r.parent!=nil)"]); ("DecRef", "$r.parent", ["(#0==0)"; "($r.parent!=nil)"])] /\
  map (fun e => (ev_name e, ev_cond e)) (filter (is_ev "Close" "$r.file") l) = [("Close", ["(#0==0)"; "($r.xattrOf==nil)"])].
Proof. vm_compute. split; reflexivity. Qed.

(** C05 (doWalk, clone): the clone takes its reference on the origin's parent whenever the origin has one
    ("!#4": hasParent() is the Go code's name for parent == nil), whether or not the entry is deleted; only
    the registration (nameFor / addChild) is skipped for a deleted entry.  Model: [new_ref_inc] before the
    [is_deleted] test in [do_walk]. *)
Theorem clone_takes_parent_reference :
  let l := events_of "doWalk" refs_skeleton in
  map ev_cond (filter (is_ev "IncRef" "$p1.parent") l) = [["(len($p2)==0)"; "($p1.xattrOf==nil)"; "(#2.4==nil)"; "!#4"]] /\
  map ev_cond (filter (is_ev "addChild" "$p1.parent.pathNode") l) = [["(len($p2)==0)"; "($p1.xattrOf==nil)"; "(#2.4==nil)"; "!#4"; "!#5"]] /\
  map (fun e => (ev_name e, ev_recv e)) (firstn 2 (skipn 4 l)) = [("hasParent", "$p1"); ("isDeleted", "#3")].
Proof. vm_compute. repeat split; reflexivity. Qed.

(** C08 (notifyNameChange): the fidRefs registered in a node are told (Renamed with the parent's File and the
    registered name, only if TryIncRef succeeded) BEFORE the recursion into the child nodes: parents first.
    Model: [notify_name_change] = fold over pn_refs, then fold over pn_nodes. *)
Theorem notify_parents_first :
  let l := events_of "notifyNameChange" refs_skeleton in
  map (fun e => (ev_name e, ev_recv e, ev_args e, ev_cond e)) l =
  [("forEachChildRef", "$p0", ["<fn>"], []); ("TryIncRef", "$0.0", [], []);
   ("Renamed", "$0.0.file", ["$0.0.parent.file"; "$0.1"], ["#1"]);
   ("forEachChildNode", "$p0", ["<fn>"], []); ("notifyNameChange", "", ["$3.0"; "$p1"], [])].
Proof. vm_compute. reflexivity. Qed.

(** C08 (doWalk, clone): the backend copy (walkOne with nil names), the construction of the fidRef from the
    origin's parent, its registration and the parent IncRef all run inside the closure of ONE safelyRead of
    the origin (renameMu.R): no rename can complete in between (BindSplit.clone_overtaken_refuted is what
    happens otherwise). *)
Theorem clone_is_one_critical_section :
  let l := events_of "doWalk" refs_skeleton in
  map (fun e => (ev_name e, ev_recv e)) (firstn 2 (skipn 1 l)) = [("safelyRead", "$p1"); ("walkOne", "")] /\
  forallb (fun e => strs_eqb (ev_ctx e) ["fn#1:safelyRead"]) (firstn 8 (skipn 2 l)) = true /\
  map ev_name (firstn 8 (skipn 2 l)) = ["walkOne"; "new fidRef"; "hasParent"; "isDeleted"; "nameFor"; "addChild"; "IncRef"; "IncRef"].
Proof. vm_compute. repeat split; reflexivity. Qed.

(** C05 (renameChildTo, fault path): the references taken on the fidRefs that notifyNameChange tells (collected
    in the list [var0], passed to notifyNameChange) are dropped by a loop that is DEFERRED and registered before
    notifyNameChange is called - so a panic inside a Renamed callback (recovered per request) still gives them
    back.  The model has no backend panic (its theorems are about backends that answer); this is what the
    fault scenario vhgRenamedPanic exercises on the real server. *)
Theorem held_references_released_by_defer :
  let l := events_of "fidRef.renameChildTo" refs_skeleton in
  map (fun e => (ev_name e, ev_recv e, ev_args e, ev_cond e, ev_ctx e)) (skipn 9 l) =
  [("DecRef", "each1(var0)", [], ["(#1!=nil)"], ["defer"; "range var0"]);
   ("notifyNameChange", "", ["#1"; "var0"], ["(#1!=nil)"], [])].
Proof. vm_compute. reflexivity. Qed.
