#!/bin/bash
# Whole-development audit ("check it as a stranger would"): clean full build, forbidden vernacular, coqchk of every
# Properties module with -o (axioms of everything loaded).  Long (tens of minutes): not part of any quick command.
set -u
cd "$(dirname "$0")/.."
export GOFLAGS=-mod=mod GOPROXY=off GOSUMDB=off GOTOOLCHAIN=local
run/bin/go2coq -repo /repo -out coq/gen || true
python3 - <<'PY'
import sys; sys.path.insert(0, "lib")
import vlib
vlib.refresh_coqproject()
PY
cd coq
echo "== forbidden vernacular (expect nothing) =="
grep -rnE '\b(Admitted|admit|Axiom|Axioms|Parameter|Parameters|Conjecture|Admit Obligations)\b|Unset +Guard|Unset +Positivity|Unset +Universe|bypass_check|type-in-type|impredicative-set' --include=*.v . | grep -v '^./cases/' | grep -v '(\*.*\(Admitted\|admit\|Axiom\|Parameter\).*\*)' || echo none
echo "== clean full build =="
make clean >/dev/null 2>&1
find . -name '*.vo' -o -name '*.vok' -o -name '*.vos' -o -name '*.glob' | xargs rm -f
( time timeout 7200 make -j16 ) 2>&1 | tail -8
echo "== Print Assumptions (expect only 'Closed under the global context') =="
for f in Properties/C*.v; do
  coqc -q -Q . P9V "$f" 2>&1 | grep -v '^Closed under the global context' | sed "s|^|$f: |" | head -20
done
echo "== coqchk -o on all Properties modules =="
mods=$(ls Properties/C*.v | sed 's|/|.|; s|\.v$||; s|^|P9V.|')
( time timeout 14400 coqchk -silent -o -Q . P9V $mods ) 2>&1 | tail -25
