#!/bin/bash
# Runs the repository's pinned test suite (guard OFF: no overlay, no build tag) and
# checks that every test in /root/.vp/BASELINE.json stable_pass passes.
export GOFLAGS=-mod=mod GOPROXY=off GOSUMDB=off GOTOOLCHAIN=local
cd /repo || exit 2
out=$(mktemp /verif/run/baseline.XXXXXX.json 2>/dev/null || mktemp)
go test -mod=mod -json -vet=off -count=1 -timeout 25m ./... > "$out" 2>/dev/null
python3 - "$out" <<'PY'
import json,sys
passed=set()
for l in open(sys.argv[1]):
    try: e=json.loads(l)
    except Exception: continue
    if e.get('Action')=='pass' and e.get('Test'): passed.add(e['Package']+'::'+e['Test'])
want=json.load(open('/root/.vp/BASELINE.json'))['stable_pass']
missing=[t for t in want if t not in passed]
print(f"baseline: {len(want)-len(missing)}/{len(want)} stable tests pass")
for t in missing[:20]: print("  MISSING", t)
sys.exit(1 if missing else 0)
PY
rc=$?
rm -f "$out"
exit $rc
