package main

// VersionGen: p9/version.go parseVersion and versionString TRANSLATED statement by statement into Gallina
// (coq/gen/VersionGen.v).  Library calls become named primitives of Fs/VersionPrims.v (go_split, go_parse_uint,
// go_sprintf_d, go_idx); everything else (the switch over literal strings, the order and the shape of the
// tests, the indices, the base and the bit size handed to ParseUint, the values returned) is what the source
// says.  Fs/VersionTie.v proves the generated functions equal to the hand model Fs/Version.v for every string.
// Any construct outside the small grammar below is refused with file:line.

import (
	"fmt"
	"go/ast"
	"go/printer"
	"go/token"
	"strconv"
	"strings"
)

func init() { register(Generator{Name: "VersionGen", Run: runVersionGen}) }

type vgen struct {
	r      *Repo
	consts map[string]string // string constants of the package's version.go
	lists  map[string]bool   // locals holding a []string
	guard  map[string]int    // list local -> its length, once `if len(x) != n { return }` has been passed
	err    error
}

func (g *vgen) refuse(p token.Pos, f string, a ...interface{}) string {
	if g.err == nil {
		g.err = g.r.Refuse(p, f, a...)
	}
	return "?"
}

func runVersionGen(r *Repo) (string, error) {
	files, err := r.Files("p9")
	if err != nil {
		return "", err
	}
	vf, ok := files["version.go"]
	if !ok {
		return "", fmt.Errorf("p9/version.go not found")
	}
	g := &vgen{r: r, consts: map[string]string{}, lists: map[string]bool{}, guard: map[string]int{}}
	var parse, vstr *ast.FuncDecl
	for _, d := range vf.Decls {
		switch x := d.(type) {
		case *ast.GenDecl:
			if x.Tok != token.CONST {
				continue
			}
			for _, sp := range x.Specs {
				vs := sp.(*ast.ValueSpec)
				for i, n := range vs.Names {
					if i < len(vs.Values) {
						if bl, ok := vs.Values[i].(*ast.BasicLit); ok && bl.Kind == token.STRING {
							s, err := strconv.Unquote(bl.Value)
							if err == nil {
								g.consts[n.Name] = s
							}
						}
					}
				}
			}
		case *ast.FuncDecl:
			if x.Recv == nil && x.Name.Name == "parseVersion" {
				parse = x
			}
			if x.Recv == nil && x.Name.Name == "versionString" {
				vstr = x
			}
		}
	}
	if parse == nil || vstr == nil {
		return "", fmt.Errorf("p9/version.go: parseVersion / versionString not found")
	}
	var b strings.Builder
	b.WriteString("From Coq Require Import NArith List String Bool.\nFrom P9V Require Import Fs.VersionPrims.\nImport ListNotations.\nOpen Scope string_scope.\nOpen Scope N_scope.\n\n")
	// parseVersion(str string) (baseVersion, uint32, bool)
	if len(parse.Type.Params.List) != 1 || len(parse.Type.Params.List[0].Names) != 1 || parse.Type.Results == nil || len(parse.Type.Results.List) != 3 {
		return "", r.Refuse(parse.Pos(), "signature of parseVersion")
	}
	param := parse.Type.Params.List[0].Names[0].Name
	b.WriteString("(* " + r.Pos(parse.Pos()) + " *)\n")
	b.WriteString("Definition gen_parseVersion (" + param + " : string) : string * N * bool :=\n")
	b.WriteString(g.parseBody(parse.Body.List, param, "  "))
	b.WriteString(".\n\n")
	// versionString(baseVersion baseVersion, version uint32) string
	if len(vstr.Type.Params.List) != 2 {
		return "", r.Refuse(vstr.Pos(), "signature of versionString")
	}
	p0, p1 := vstr.Type.Params.List[0].Names[0].Name, vstr.Type.Params.List[1].Names[0].Name
	b.WriteString("(* " + r.Pos(vstr.Pos()) + " *)\n")
	b.WriteString("Definition gen_versionString (" + p0 + " : string) (" + p1 + " : N) : string :=\n")
	b.WriteString(g.vsBody(vstr.Body.List, p0, p1, "  "))
	b.WriteString(".\n")
	if g.err != nil {
		return "", g.err
	}
	return b.String(), nil
}

// parseBody: switch <param> { case "lit": return ...; default: <block> }
func (g *vgen) parseBody(stmts []ast.Stmt, param, ind string) string {
	if len(stmts) != 1 {
		return g.refuse(stmts[0].Pos(), "parseVersion: expected one switch statement")
	}
	sw, ok := stmts[0].(*ast.SwitchStmt)
	if !ok || sw.Init != nil {
		return g.refuse(stmts[0].Pos(), "parseVersion: expected a switch")
	}
	if id, ok := sw.Tag.(*ast.Ident); !ok || id.Name != param {
		return g.refuse(sw.Pos(), "switch tag is not the parameter")
	}
	var out strings.Builder
	var def *ast.CaseClause
	for _, c := range sw.Body.List {
		cc := c.(*ast.CaseClause)
		if cc.List == nil {
			def = cc
			continue
		}
		if def != nil {
			return g.refuse(cc.Pos(), "case after default")
		}
		if len(cc.Body) != 1 {
			return g.refuse(cc.Pos(), "case body is not a single return")
		}
		ret, ok := cc.Body[0].(*ast.ReturnStmt)
		if !ok {
			return g.refuse(cc.Pos(), "case body is not a return")
		}
		var conds []string
		for _, e := range cc.List {
			conds = append(conds, "String.eqb "+param+" "+g.str(e))
		}
		out.WriteString(ind + "if " + strings.Join(conds, " || ") + " then " + g.ret(ret) + " else\n")
	}
	if def == nil {
		return g.refuse(sw.Pos(), "switch without default")
	}
	out.WriteString(g.block(def.Body, param, ind))
	return out.String()
}

func (g *vgen) block(stmts []ast.Stmt, param, ind string) string {
	if len(stmts) == 0 {
		return g.refuse(token.NoPos, "block falls off its end")
	}
	switch s := stmts[0].(type) {
	case *ast.ReturnStmt:
		if len(stmts) != 1 {
			return g.refuse(s.Pos(), "statements after return")
		}
		return ind + g.ret(s)
	case *ast.IfStmt:
		if s.Init != nil || s.Else != nil || len(s.Body.List) != 1 {
			return g.refuse(s.Pos(), "if with init/else or a body that is not one return")
		}
		ret, ok := s.Body.List[0].(*ast.ReturnStmt)
		if !ok {
			return g.refuse(s.Pos(), "if body is not a return")
		}
		c := g.cond(s.Cond)
		if be, ok := s.Cond.(*ast.BinaryExpr); ok && be.Op == token.NEQ {
			if call, ok := be.X.(*ast.CallExpr); ok && exprText(call.Fun) == "len" && len(call.Args) == 1 {
				if id, ok := call.Args[0].(*ast.Ident); ok && g.lists[id.Name] {
					n, _ := strconv.Atoi(g.intLit(be.Y))
					g.guard[id.Name] = n // past this statement the list has exactly n elements
				}
			}
		}
		return ind + "if " + c + " then " + g.ret(ret) + " else\n" + g.block(stmts[1:], param, ind)
	case *ast.AssignStmt:
		if s.Tok != token.DEFINE || len(s.Rhs) != 1 {
			return g.refuse(s.Pos(), "assignment")
		}
		call, ok := s.Rhs[0].(*ast.CallExpr)
		if !ok {
			return g.refuse(s.Pos(), "assignment from a non-call")
		}
		fn := exprText(call.Fun)
		switch {
		case fn == "strings.Split" && len(s.Lhs) == 1 && len(call.Args) == 2:
			x := s.Lhs[0].(*ast.Ident).Name
			g.lists[x] = true
			return ind + "let " + x + " := go_split " + g.str(call.Args[0]) + " " + g.str(call.Args[1]) + " in\n" + g.block(stmts[1:], param, ind)
		case fn == "strconv.ParseUint" && len(s.Lhs) == 2 && len(call.Args) == 3:
			v, e := s.Lhs[0].(*ast.Ident).Name, s.Lhs[1].(*ast.Ident).Name
			// must be followed by: if err != nil { return ... }
			if len(stmts) < 2 {
				return g.refuse(s.Pos(), "ParseUint result unused")
			}
			ifs, ok := stmts[1].(*ast.IfStmt)
			if !ok || ifs.Init != nil || ifs.Else != nil || exprText(ifs.Cond) != e+" != nil" || len(ifs.Body.List) != 1 {
				return g.refuse(stmts[1].Pos(), "expected `if %s != nil { return ... }` after ParseUint", e)
			}
			ret, ok := ifs.Body.List[0].(*ast.ReturnStmt)
			if !ok {
				return g.refuse(ifs.Pos(), "error branch is not a return")
			}
			base, bits := g.intLit(call.Args[1]), g.intLit(call.Args[2])
			return ind + "match go_parse_uint " + g.str(call.Args[0]) + " " + base + " " + bits + " with\n" +
				ind + "| None => " + g.ret(ret) + "\n" +
				ind + "| Some " + v + " =>\n" + g.block(stmts[2:], param, ind+"    ") + "\n" + ind + "end"
		}
		return g.refuse(s.Pos(), "call %s", fn)
	}
	return g.refuse(stmts[0].Pos(), "statement %T", stmts[0])
}

func (g *vgen) intLit(e ast.Expr) string {
	if bl, ok := e.(*ast.BasicLit); ok && bl.Kind == token.INT {
		return bl.Value
	}
	return g.refuse(e.Pos(), "integer literal expected")
}

// string-valued expression
func (g *vgen) str(e ast.Expr) string {
	switch x := e.(type) {
	case *ast.BasicLit:
		if x.Kind == token.STRING {
			s, err := strconv.Unquote(x.Value)
			if err == nil {
				return CoqString(s)
			}
		}
	case *ast.Ident:
		if c, ok := g.consts[x.Name]; ok {
			return CoqString(c)
		}
		if !g.lists[x.Name] {
			return x.Name
		}
	case *ast.IndexExpr:
		if id, ok := x.X.(*ast.Ident); ok && g.lists[id.Name] {
			i, _ := strconv.Atoi(g.intLit(x.Index))
			if n, ok := g.guard[id.Name]; !ok || i >= n {
				return g.refuse(x.Pos(), "index %d of %s is not covered by a preceding length test (Go would panic)", i, id.Name)
			}
			return "(go_idx " + id.Name + " " + g.intLit(x.Index) + "%nat)"
		}
	case *ast.CallExpr: // string(x)
		if exprText(x.Fun) == "string" && len(x.Args) == 1 {
			return g.str(x.Args[0])
		}
	}
	return g.refuse(e.Pos(), "string expression %s", exprText(e))
}

func (g *vgen) cond(e ast.Expr) string {
	switch x := e.(type) {
	case *ast.ParenExpr:
		return "(" + g.cond(x.X) + ")"
	case *ast.BinaryExpr:
		switch x.Op {
		case token.LOR:
			return g.cond(x.X) + " || " + g.cond(x.Y)
		case token.LAND:
			return "(" + g.cond(x.X) + " && " + g.cond(x.Y) + ")"
		case token.EQL, token.NEQ:
			var c string
			if call, ok := x.X.(*ast.CallExpr); ok && exprText(call.Fun) == "len" && len(call.Args) == 1 {
				n := g.intLit(x.Y)
				if id, ok := call.Args[0].(*ast.Ident); ok && g.lists[id.Name] {
					c = "Nat.eqb (List.length " + id.Name + ") " + n + "%nat"
				} else {
					c = "Nat.eqb (String.length " + g.str(call.Args[0]) + ") " + n + "%nat"
				}
			} else {
				c = "String.eqb " + g.str(x.X) + " " + g.str(x.Y)
			}
			if x.Op == token.NEQ {
				return "negb (" + c + ")"
			}
			return "(" + c + ")"
		}
	}
	return g.refuse(e.Pos(), "condition %s", exprText(e))
}

// return a, b, c  of parseVersion
func (g *vgen) ret(r *ast.ReturnStmt) string {
	if len(r.Results) != 3 {
		return g.refuse(r.Pos(), "return with %d results", len(r.Results))
	}
	var n string
	switch x := r.Results[1].(type) {
	case *ast.BasicLit:
		n = g.intLit(x)
	case *ast.CallExpr:
		if exprText(x.Fun) == "uint32" && len(x.Args) == 1 {
			if id, ok := x.Args[0].(*ast.Ident); ok {
				n = "(" + id.Name + " mod 4294967296)"
				break
			}
		}
		n = g.refuse(x.Pos(), "number %s", exprText(x))
	default:
		n = g.refuse(r.Results[1].Pos(), "number %s", exprText(r.Results[1]))
	}
	ok := exprText(r.Results[2])
	if ok != "true" && ok != "false" {
		return g.refuse(r.Results[2].Pos(), "boolean literal expected")
	}
	return "(" + g.str(r.Results[0]) + ", " + n + ", " + ok + ")"
}

// versionString: if version == 0 { return string(baseVersion) }; return fmt.Sprintf("prefix%d", version)
func (g *vgen) vsBody(stmts []ast.Stmt, p0, p1, ind string) string {
	if len(stmts) != 2 {
		return g.refuse(stmts[0].Pos(), "versionString: expected `if` + `return`")
	}
	ifs, ok := stmts[0].(*ast.IfStmt)
	if !ok || ifs.Init != nil || ifs.Else != nil || len(ifs.Body.List) != 1 {
		return g.refuse(stmts[0].Pos(), "versionString: if")
	}
	be, ok := ifs.Cond.(*ast.BinaryExpr)
	if !ok || be.Op != token.EQL || exprText(be.X) != p1 {
		return g.refuse(ifs.Pos(), "versionString: condition %s", exprText(ifs.Cond))
	}
	r1, ok := ifs.Body.List[0].(*ast.ReturnStmt)
	if !ok || len(r1.Results) != 1 {
		return g.refuse(ifs.Pos(), "versionString: then branch")
	}
	r2, ok := stmts[1].(*ast.ReturnStmt)
	if !ok || len(r2.Results) != 1 {
		return g.refuse(stmts[1].Pos(), "versionString: final return")
	}
	call, ok := r2.Results[0].(*ast.CallExpr)
	if !ok || exprText(call.Fun) != "fmt.Sprintf" || len(call.Args) != 2 || exprText(call.Args[1]) != p1 {
		return g.refuse(r2.Pos(), "versionString: expected fmt.Sprintf(format, %s)", p1)
	}
	fl, ok := call.Args[0].(*ast.BasicLit)
	if !ok || fl.Kind != token.STRING {
		return g.refuse(call.Pos(), "format literal")
	}
	f, _ := strconv.Unquote(fl.Value)
	if !strings.HasSuffix(f, "%d") || strings.Count(f, "%") != 1 {
		return g.refuse(call.Pos(), "format %q is not <prefix>%%d", f)
	}
	return ind + "if (" + p1 + " =? " + g.intLit(be.Y) + ") then " + g.str(r1.Results[0]) + " else go_sprintf_d " + CoqString(strings.TrimSuffix(f, "%d")) + " " + p1
}

func exprText(e ast.Expr) string {
	var b strings.Builder
	printer.Fprint(&b, token.NewFileSet(), e)
	return b.String()
}
