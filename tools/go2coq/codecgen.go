package main

// CodecGen: reads the encode/decode method bodies of every message type and
// sub-struct of /repo/p9 (messages.go, p9.go), the primitive readers/writers of
// buffer.go, the payloader methods and the registry's init(), and emits
// coq/gen/CodecGen.v: per registered type the field program of encode (an
// mlayout with Go field paths as names), the statement program of decode
// (Codec/Reuse.dstmt), the struct's leaf fields, FixedSize and the payload
// field.  Statement shapes accepted: DESIGN.md Appendix A.  Anything else is
// refused with file:line.

import (
	"bytes"
	"fmt"
	"go/ast"
	"go/parser"
	"go/printer"
	"go/token"
	"math/big"
	"sort"
	"strings"
)

type cgField struct {
	name     string
	typ      ast.Expr
	embedded bool
}

type cgStruct struct {
	name   string
	fields []cgField
	pos    token.Pos
}

// kind of a primitive reader/writer
type cgKind struct {
	coq      string // skind term
	width    int    // bytes on the wire (0 for strings)
	goType   string // parameter / result type of the wrapper
	narrowed bool   // the wrapper converts a wider in-memory type to the wire width
}

type cgItem struct {
	path string
	kind string   // skind term for scalars
	elem []cgItem // non-nil: List16 of rows
	list bool
}

type cg struct {
	r        *Repo
	env      *constEnv
	structs  map[string]*cgStruct
	named    map[string]string
	funcs    map[string]*ast.FuncDecl
	wr, rd   map[string]cgKind
	permMask *big.Int
	narrow   map[string][]string // go type -> narrowed field paths (current message)
	curNarr  *[]string
}

func cgNorm(s string) string {
	var b strings.Builder
	for _, c := range s {
		if c == ' ' || c == '\t' || c == '\n' || c == '\r' || c == ';' {
			continue
		}
		b.WriteRune(c)
	}
	return b.String()
}

// cgAlpha renames every identifier declared inside fd (receiver, parameters, results, :=, var,
// range variables, function-literal parameters) to v0, v1, ... in order of first appearance, so
// that matching never depends on the spelling of a local name.
func cgAlpha(fd *ast.FuncDecl) {
	names := map[*ast.Object]string{}
	n := 0
	// the parser's resolver also binds the field keys of struct literals (buffer{data: data}) to locals of the same name: leave those alone
	fieldKey := map[*ast.Ident]bool{}
	ast.Inspect(fd, func(x ast.Node) bool {
		if cl, ok := x.(*ast.CompositeLit); ok {
			switch cl.Type.(type) {
			case *ast.Ident, *ast.SelectorExpr:
				for _, e := range cl.Elts {
					if kv, ok := e.(*ast.KeyValueExpr); ok {
						if k, ok := kv.Key.(*ast.Ident); ok {
							fieldKey[k] = true
						}
					}
				}
			}
		}
		return true
	})
	ast.Inspect(fd, func(x ast.Node) bool {
		id, ok := x.(*ast.Ident)
		if !ok || id.Obj == nil || id.Obj.Kind != ast.Var || id.Name == "_" || fieldKey[id] {
			return true
		}
		d, ok := id.Obj.Decl.(ast.Node)
		if !ok || d.Pos() < fd.Pos() || d.End() > fd.End() {
			return true
		}
		nm, seen := names[id.Obj]
		if !seen {
			nm = fmt.Sprintf("v%d", n)
			n++
			names[id.Obj] = nm
		}
		id.Name = nm
		return true
	})
}

// cgSnippet parses one function declaration given as text and alpha-normalises it.
func cgSnippet(src string) (string, error) {
	fset := token.NewFileSet()
	f, err := parser.ParseFile(fset, "snippet.go", "package p9\n"+src, 0)
	if err != nil {
		return "", err
	}
	for _, d := range f.Decls {
		if fd, ok := d.(*ast.FuncDecl); ok {
			cgAlpha(fd)
			fd.Doc = nil
			var buf bytes.Buffer
			if err := printer.Fprint(&buf, fset, fd); err != nil {
				return "", err
			}
			return cgNorm(buf.String()), nil
		}
	}
	return "", fmt.Errorf("no function in snippet")
}

func (g *cg) sameAs(fd *ast.FuncDecl, want string) bool {
	w, err := cgSnippet(want)
	return err == nil && g.text(fd) == w
}

func (g *cg) text(n ast.Node) string {
	var buf bytes.Buffer
	if fd, ok := n.(*ast.FuncDecl); ok {
		c := *fd
		c.Doc = nil
		n = &c
	}
	if err := printer.Fprint(&buf, g.r.Fset, n); err != nil {
		return "<unprintable>"
	}
	return cgNorm(buf.String())
}

// exact bodies of the primitives everything else rests on (whitespace-insensitive)
var cgPrimitives = map[string]string{
	"buffer.append":      `func (b *buffer) append(n int) []byte { b.data = append(b.data, make([]byte, n)...); return b.data[len(b.data)-n:] }`,
	"buffer.consume":     `func (b *buffer) consume(n int) ([]byte, bool) { if !b.has(n) { b.markOverrun(); return nil, false }; rval := b.data[:n]; b.data = b.data[n:]; return rval, true }`,
	"buffer.has":         `func (b *buffer) has(n int) bool { return len(b.data) >= n }`,
	"buffer.markOverrun": `func (b *buffer) markOverrun() { b.overflow = true }`,
	"buffer.isOverrun":   `func (b *buffer) isOverrun() bool { return b.overflow }`,
	"buffer.Read8":       `func (b *buffer) Read8() uint8 { v, ok := b.consume(1); if !ok { return 0 }; return uint8(v[0]) }`,
	"buffer.Read16":      `func (b *buffer) Read16() uint16 { v, ok := b.consume(2); if !ok { return 0 }; return order.Uint16(v) }`,
	"buffer.Read32":      `func (b *buffer) Read32() uint32 { v, ok := b.consume(4); if !ok { return 0 }; return order.Uint32(v) }`,
	"buffer.Read64":      `func (b *buffer) Read64() uint64 { v, ok := b.consume(8); if !ok { return 0 }; return order.Uint64(v) }`,
	"buffer.ReadString":  `func (b *buffer) ReadString() string { l := b.Read16(); if !b.has(int(l)) { b.markOverrun(); return "" }; bs := make([]byte, l); for i := 0; i < int(l); i++ { bs[i] = byte(b.Read8()) }; return string(bs) }`,
	"buffer.Write8":      `func (b *buffer) Write8(v uint8) { b.append(1)[0] = byte(v) }`,
	"buffer.Write16":     `func (b *buffer) Write16(v uint16) { order.PutUint16(b.append(2), v) }`,
	"buffer.Write32":     `func (b *buffer) Write32(v uint32) { order.PutUint32(b.append(4), v) }`,
	"buffer.Write64":     `func (b *buffer) Write64(v uint64) { order.PutUint64(b.append(8), v) }`,
	"buffer.WriteString": `func (b *buffer) WriteString(s string) { b.Write16(uint16(len(s))); for i := 0; i < len(s); i++ { b.Write8(byte(s[i])) } }`,
	"registry.put":       `func (r *registry) put(msg message) { if p, ok := msg.(payloader); ok { p.SetPayload(nil) }; entry := &r.factories[msg.typ()]; select { case entry.cache <- msg: default: } }`,
	"registry.get":       `func (r *registry) get(_ tag, t msgType) (message, error) { entry := &r.factories[t]; if entry.create == nil { return nil, &ErrInvalidMsgType{t} }; select { case msg := <-entry.cache: return msg, nil; default: return entry.create(), nil } }`,
}

// reviewed equivalent spellings of a primitive (same bytes consumed / appended, same overrun flag, same result):
// ReadString through one consume(l) -- consume itself marks the overrun and takes nothing when fewer than l bytes are
// left; WriteString through one append(len(s)) + copy.
var cgPrimitiveAlternatives = map[string][]string{
	"buffer.ReadString":  {`func (b *buffer) ReadString() string { l := int(b.Read16()); bs, ok := b.consume(l); if !ok { return "" }; return string(bs) }`},
	"buffer.WriteString": {`func (b *buffer) WriteString(s string) { b.Write16(uint16(len(s))); copy(b.append(len(s)), s) }`},
}

const cgRreaddirEncode = `func (r *rreaddir) encode(b *buffer) { entriesBuf := buffer{}; payloadSize := 0; for _, d := range r.Entries { d.encode(&entriesBuf); if len(entriesBuf.data) > int(r.Count) { break }; payloadSize = len(entriesBuf.data) }; r.Count = uint32(payloadSize); r.payload = entriesBuf.data[:payloadSize]; b.Write32(r.Count) }`
const cgRreaddirDecode = `func (r *rreaddir) decode(b *buffer) { r.Count = b.Read32(); entriesBuf := buffer{data: r.payload}; r.Entries = r.Entries[:0]; for { var d Dirent; d.decode(&entriesBuf); if entriesBuf.isOverrun() { break }; r.Entries = append(r.Entries, d) } }`
const cgRreaddirDecodeNoReset = `func (r *rreaddir) decode(b *buffer) { r.Count = b.Read32(); entriesBuf := buffer{data: r.payload}; for { var d Dirent; d.decode(&entriesBuf); if entriesBuf.isOverrun() { break }; r.Entries = append(r.Entries, d) } }`

func cgBasicWidth(t string) int {
	switch t {
	case "uint8", "int8", "byte":
		return 1
	case "uint16", "int16":
		return 2
	case "uint32", "int32":
		return 4
	case "uint64", "int64", "uint", "int":
		return 8
	}
	return 0
}

func (g *cg) typeWidth(t string) int {
	for i := 0; i < 8; i++ {
		if w := cgBasicWidth(t); w != 0 {
			return w
		}
		u, ok := g.named[t]
		if !ok {
			return 0
		}
		t = u
	}
	return 0
}

func (g *cg) load() error {
	// a private parse: the functions are alpha-normalised in place, other generators must not see that
	g.r = &Repo{Root: g.r.Root, Fset: token.NewFileSet(), pkgs: map[string]map[string]*ast.File{}}
	files, err := g.r.Files("p9")
	if err != nil {
		return err
	}
	for _, fn := range SortedNames(files) {
		for _, d := range files[fn].Decls {
			if fd, ok := d.(*ast.FuncDecl); ok && fd.Body != nil {
				cgAlpha(fd)
			}
		}
	}
	g.structs = map[string]*cgStruct{}
	g.named = map[string]string{}
	orderOK := false
	for _, fn := range SortedNames(files) {
		for _, d := range files[fn].Decls {
			gd, ok := d.(*ast.GenDecl)
			if !ok {
				continue
			}
			if gd.Tok == token.VAR {
				for _, sp := range gd.Specs {
					vs := sp.(*ast.ValueSpec)
					if len(vs.Names) == 1 && vs.Names[0].Name == "order" && len(vs.Values) == 1 {
						if g.text(vs.Values[0]) != "binary.LittleEndian" {
							return g.r.Refuse(vs.Pos(), "byte order is not binary.LittleEndian")
						}
						orderOK = true
					}
				}
			}
			if gd.Tok != token.TYPE {
				continue
			}
			for _, sp := range gd.Specs {
				ts := sp.(*ast.TypeSpec)
				switch t := ts.Type.(type) {
				case *ast.StructType:
					s := &cgStruct{name: ts.Name.Name, pos: ts.Pos()}
					for _, f := range t.Fields.List {
						if len(f.Names) == 0 {
							s.fields = append(s.fields, cgField{name: recvTypeName(f.Type), typ: f.Type, embedded: true})
						}
						for _, n := range f.Names {
							s.fields = append(s.fields, cgField{name: n.Name, typ: f.Type})
						}
					}
					g.structs[s.name] = s
				case *ast.Ident:
					g.named[ts.Name.Name] = t.Name
				}
			}
		}
	}
	if !orderOK {
		return fmt.Errorf("p9: no `var order = binary.LittleEndian` found")
	}
	g.funcs, err = g.r.FuncDecls("p9")
	if err != nil {
		return err
	}
	for name, want := range cgPrimitives {
		fd, ok := g.funcs[name]
		if !ok {
			return fmt.Errorf("p9: primitive %s not found", name)
		}
		if !g.sameAs(fd, want) {
			okAlt := false
			for _, alt := range cgPrimitiveAlternatives[name] {
				okAlt = okAlt || g.sameAs(fd, alt)
			}
			if !okAlt {
				return g.r.Refuse(fd.Pos(), "%s is not the expected primitive up to renaming of locals (expected: %s)", name, want)
			}
		}
	}
	g.env, _, err = collectConsts(g.r, "p9")
	if err != nil {
		return err
	}
	return g.loadWrappers()
}

// loadWrappers resolves every buffer.ReadK / buffer.WriteK to a wire kind.
func (g *cg) loadWrappers() error {
	g.wr = map[string]cgKind{
		"8": {"KInt 1", 1, "uint8", false}, "16": {"KInt 2", 2, "uint16", false}, "32": {"KInt 4", 4, "uint32", false}, "64": {"KInt 8", 8, "uint64", false},
		"String": {"KStr", 0, "string", false},
	}
	g.rd = map[string]cgKind{}
	for k, v := range g.wr {
		g.rd[k] = v
	}
	var wnames, rnames []string
	for name := range g.funcs {
		if strings.HasPrefix(name, "buffer.Write") {
			wnames = append(wnames, strings.TrimPrefix(name, "buffer.Write"))
		}
		if strings.HasPrefix(name, "buffer.Read") {
			rnames = append(rnames, strings.TrimPrefix(name, "buffer.Read"))
		}
	}
	// wrappers may refer to each other (Permissions -> FileMode -> 32): iterate to a fixpoint
	for round := 0; round < 4; round++ {
		for _, k := range wnames {
			if _, done := g.wr[k]; done {
				continue
			}
			fd := g.funcs["buffer.Write"+k]
			if fd.Type.Params == nil || len(fd.Type.Params.List) != 1 || len(fd.Type.Params.List[0].Names) != 1 || len(fd.Body.List) != 1 {
				return g.r.Refuse(fd.Pos(), "Write%s: expected one parameter and one statement", k)
			}
			pname := fd.Type.Params.List[0].Names[0].Name
			ptype := g.text(fd.Type.Params.List[0].Type)
			es, ok := fd.Body.List[0].(*ast.ExprStmt)
			if !ok {
				return g.r.Refuse(fd.Pos(), "Write%s: expected b.WriteY(...)", k)
			}
			inner, arg, ok := g.bufCall(es.X, cgRecvName(fd), "Write")
			if !ok {
				return g.r.Refuse(fd.Pos(), "Write%s: expected b.WriteY(...)", k)
			}
			ik, known := g.wr[inner]
			if !known {
				if _, exists := g.funcs["buffer.Write"+inner]; !exists {
					return g.r.Refuse(fd.Pos(), "Write%s: unknown writer Write%s", k, inner)
				}
				continue
			}
			switch a := arg.(type) {
			case *ast.CallExpr: // uintN(p)
				fn, ok := a.Fun.(*ast.Ident)
				if !ok || len(a.Args) != 1 || g.text(a.Args[0]) != pname || fn.Name != ik.goType {
					return g.r.Refuse(fd.Pos(), "Write%s: expected b.Write%s(%s(%s))", k, inner, ik.goType, pname)
				}
				mw := g.typeWidth(ptype)
				if mw == 0 || mw < ik.width {
					return g.r.Refuse(fd.Pos(), "Write%s: parameter type %s has no known width >= %d", k, ptype, ik.width)
				}
				g.wr[k] = cgKind{ik.coq, ik.width, ptype, mw > ik.width}
			case *ast.BinaryExpr: // p & permissionsMask
				if a.Op != token.AND || g.text(a.X) != pname || ik.coq != "KInt 4" || ptype != ik.goType {
					return g.r.Refuse(fd.Pos(), "Write%s: expected b.Write%s(%s & permissionsMask) on a 32-bit value", k, inner, pname)
				}
				n, _, ok := g.env.eval(a.Y, 0)
				if !ok || n == nil {
					return g.r.Refuse(a.Y.Pos(), "Write%s: mask is not a constant", k)
				}
				if g.permMask != nil && g.permMask.Cmp(n) != 0 {
					return g.r.Refuse(a.Y.Pos(), "Write%s: a second, different permission mask", k)
				}
				g.permMask = n
				g.wr[k] = cgKind{"KPerm", 4, ptype, false}
			default:
				return g.r.Refuse(fd.Pos(), "Write%s: argument shape not understood", k)
			}
		}
		for _, k := range rnames {
			if _, done := g.rd[k]; done {
				continue
			}
			fd := g.funcs["buffer.Read"+k]
			if (fd.Type.Params != nil && len(fd.Type.Params.List) != 0) || fd.Type.Results == nil || len(fd.Type.Results.List) != 1 || len(fd.Body.List) != 1 {
				return g.r.Refuse(fd.Pos(), "Read%s: expected no parameter, one result, one statement", k)
			}
			rtype := g.text(fd.Type.Results.List[0].Type)
			ret, ok := fd.Body.List[0].(*ast.ReturnStmt)
			if !ok || len(ret.Results) != 1 {
				return g.r.Refuse(fd.Pos(), "Read%s: expected a return", k)
			}
			switch a := ret.Results[0].(type) {
			case *ast.CallExpr: // T(b.ReadY())
				fn, ok := a.Fun.(*ast.Ident)
				if !ok || len(a.Args) != 1 || fn.Name != rtype {
					return g.r.Refuse(fd.Pos(), "Read%s: expected return %s(b.ReadY())", k, rtype)
				}
				inner, arg, ok := g.bufCall(a.Args[0], cgRecvName(fd), "Read")
				if !ok || arg != nil {
					return g.r.Refuse(fd.Pos(), "Read%s: expected return %s(b.ReadY())", k, rtype)
				}
				ik, known := g.rd[inner]
				if !known {
					if _, exists := g.funcs["buffer.Read"+inner]; !exists {
						return g.r.Refuse(fd.Pos(), "Read%s: unknown reader Read%s", k, inner)
					}
					continue
				}
				mw := g.typeWidth(rtype)
				if mw == 0 || mw < ik.width {
					return g.r.Refuse(fd.Pos(), "Read%s: result type %s narrower than the %d bytes read", k, rtype, ik.width)
				}
				g.rd[k] = cgKind{ik.coq, ik.width, rtype, mw > ik.width}
			case *ast.BinaryExpr: // b.ReadY() & permissionsMask
				inner, arg, ok := g.bufCall(a.X, cgRecvName(fd), "Read")
				if a.Op != token.AND || !ok || arg != nil {
					return g.r.Refuse(fd.Pos(), "Read%s: expected return b.ReadY() & permissionsMask", k)
				}
				ik, known := g.rd[inner]
				if !known {
					continue
				}
				if ik.coq != "KInt 4" || ik.goType != rtype {
					return g.r.Refuse(fd.Pos(), "Read%s: permission mask on something that is not a 32-bit %s", k, rtype)
				}
				n, _, ok := g.env.eval(a.Y, 0)
				if !ok || n == nil {
					return g.r.Refuse(a.Y.Pos(), "Read%s: mask is not a constant", k)
				}
				if g.permMask != nil && g.permMask.Cmp(n) != 0 {
					return g.r.Refuse(a.Y.Pos(), "Read%s: a second, different permission mask", k)
				}
				g.permMask = n
				g.rd[k] = cgKind{"KPerm", 4, rtype, false}
			default:
				return g.r.Refuse(fd.Pos(), "Read%s: result shape not understood", k)
			}
		}
	}
	for _, k := range wnames {
		if _, ok := g.wr[k]; !ok {
			return g.r.Refuse(g.funcs["buffer.Write"+k].Pos(), "Write%s could not be resolved", k)
		}
	}
	for _, k := range rnames {
		if _, ok := g.rd[k]; !ok {
			return g.r.Refuse(g.funcs["buffer.Read"+k].Pos(), "Read%s could not be resolved", k)
		}
	}
	// every writer must have the reader of the same kind and vice versa
	for k, w := range g.wr {
		rk, ok := g.rd[k]
		if !ok {
			return fmt.Errorf("p9/buffer.go: Write%s has no Read%s", k, k)
		}
		if rk.coq != w.coq && !(rk.coq == "KPerm" || w.coq == "KPerm") {
			return g.r.Refuse(g.funcs["buffer.Read"+k].Pos(), "Read%s reads %s but Write%s writes %s", k, rk.coq, k, w.coq)
		}
	}
	return nil
}

// bufCall matches  <buf>.<prefix>K(arg?)  and returns K and the argument (nil if none).
func (g *cg) bufCall(e ast.Expr, buf, prefix string) (string, ast.Expr, bool) {
	c, ok := e.(*ast.CallExpr)
	if !ok {
		return "", nil, false
	}
	sel, ok := c.Fun.(*ast.SelectorExpr)
	if !ok {
		return "", nil, false
	}
	id, ok := sel.X.(*ast.Ident)
	if !ok || id.Name != buf || !strings.HasPrefix(sel.Sel.Name, prefix) {
		return "", nil, false
	}
	k := strings.TrimPrefix(sel.Sel.Name, prefix)
	if len(c.Args) == 0 {
		return k, nil, true
	}
	if len(c.Args) == 1 {
		return k, c.Args[0], true
	}
	return "", nil, false
}

// fieldPath matches RECV.F (one level) and returns F.
func cgFieldPath(e ast.Expr, recv string) (string, bool) {
	sel, ok := e.(*ast.SelectorExpr)
	if !ok {
		return "", false
	}
	id, ok := sel.X.(*ast.Ident)
	if !ok || id.Name != recv || recv == "" {
		return "", false
	}
	return sel.Sel.Name, true
}

func (g *cg) fieldOf(s *cgStruct, name string) (*cgField, bool) {
	for i := range s.fields {
		if s.fields[i].name == name {
			return &s.fields[i], true
		}
	}
	return nil, false
}

func cgTypeName(e ast.Expr) (name string, slice bool) {
	switch t := e.(type) {
	case *ast.Ident:
		return t.Name, false
	case *ast.ArrayType:
		if t.Len == nil {
			n, _ := cgTypeName(t.Elt)
			return n, true
		}
	}
	return "", false
}

// method finds T.m, following promotion through a single embedded field; returns the
// declaring type and the path prefix added by the embedding.
func (g *cg) method(T, m string) (*ast.FuncDecl, string, string, error) {
	if fd, ok := g.funcs[T+"."+m]; ok {
		return fd, T, "", nil
	}
	s, ok := g.structs[T]
	if !ok {
		return nil, "", "", fmt.Errorf("type %s has no method %s and is not a struct", T, m)
	}
	var found *ast.FuncDecl
	var ft, fp string
	n := 0
	for _, f := range s.fields {
		if !f.embedded {
			continue
		}
		fd, t, p, err := g.method(f.name, m)
		if err == nil {
			found, ft, fp = fd, t, f.name+"."+p
			n++
		}
	}
	if n != 1 {
		return nil, "", "", g.r.Refuse(s.pos, "type %s: %d embedded fields provide %s", T, n, m)
	}
	return found, ft, fp, nil
}

func cgRecvAndBuf(fd *ast.FuncDecl) (string, string) {
	recv := ""
	if fd.Recv != nil && len(fd.Recv.List) == 1 && len(fd.Recv.List[0].Names) == 1 {
		recv = fd.Recv.List[0].Names[0].Name
	}
	buf := ""
	if fd.Type.Params != nil && len(fd.Type.Params.List) == 1 && len(fd.Type.Params.List[0].Names) == 1 {
		buf = fd.Type.Params.List[0].Names[0].Name
	}
	return recv, buf
}

func (g *cg) constVal(e ast.Expr) (*big.Int, bool) {
	n, _, ok := g.env.eval(e, 0)
	if !ok || n == nil {
		return nil, false
	}
	return n, true
}

func cgBitPos(n *big.Int) (int, bool) {
	if n.Sign() <= 0 {
		return 0, false
	}
	p := n.BitLen() - 1
	if new(big.Int).Lsh(big.NewInt(1), uint(p)).Cmp(n) != 0 {
		return 0, false
	}
	return p, true
}

// maskIfs reads  if RECV.F { mask |= C } ...  and returns the bit list.
func (g *cg) maskIfs(stmts []ast.Stmt, recv, mask, prefix string) ([]string, int, error) {
	var bits []string
	i := 0
	for ; i < len(stmts); i++ {
		is, ok := stmts[i].(*ast.IfStmt)
		if !ok {
			break
		}
		f, okf := cgFieldPath(is.Cond, recv)
		if !okf || is.Init != nil || is.Else != nil || len(is.Body.List) != 1 {
			return nil, 0, g.r.Refuse(is.Pos(), "mask building: expected  if %s.F { %s |= C }", recv, mask)
		}
		as, ok := is.Body.List[0].(*ast.AssignStmt)
		if !ok || as.Tok != token.OR_ASSIGN || len(as.Lhs) != 1 || len(as.Rhs) != 1 || g.text(as.Lhs[0]) != mask {
			return nil, 0, g.r.Refuse(is.Pos(), "mask building: expected  %s |= C", mask)
		}
		n, ok := g.constVal(as.Rhs[0])
		if !ok {
			return nil, 0, g.r.Refuse(as.Pos(), "mask bit is not a constant")
		}
		p, ok := cgBitPos(n)
		if !ok {
			return nil, 0, g.r.Refuse(as.Pos(), "mask bit %s is not a power of two", n.String())
		}
		bits = append(bits, fmt.Sprintf("(%d, %s)", p, CoqString(prefix+f)))
	}
	cgSortBits(bits)
	return bits, i, nil
}

// cgSortBits orders "(pos, name)" entries by bit position: the order of the if-blocks / assignments
// that build or test a mask is irrelevant to the bytes.
func cgSortBits(bits []string) {
	pos := func(s string) int {
		n := 0
		fmt.Sscanf(s, "(%d,", &n)
		return n
	}
	sort.SliceStable(bits, func(i, j int) bool { return pos(bits[i]) < pos(bits[j]) })
}

func cgTrimDot(p string) string { return strings.TrimSuffix(p, ".") }

// encodeProg reads T.encode into wire items; pay is "" or a pkind term.
func (g *cg) encodeProg(T, prefix string, depth int) ([]cgItem, string, error) {
	if depth > 6 {
		return nil, "", fmt.Errorf("encode of %s nests too deeply", T)
	}
	fd, DT, pp, err := g.method(T, "encode")
	if err != nil {
		return nil, "", err
	}
	prefix += pp
	recv, buf := cgRecvAndBuf(fd)
	if buf == "" {
		return nil, "", g.r.Refuse(fd.Pos(), "encode: expected one named *buffer parameter")
	}
	if g.sameAs(fd, cgRreaddirEncode) {
		ent, pay, err := g.encodeProg("Dirent", prefix+"Entries[].", depth+1)
		if err != nil {
			return nil, "", err
		}
		if pay != "" {
			return nil, "", g.r.Refuse(fd.Pos(), "Dirent with a payload")
		}
		row, err := g.rowTerm(ent, fd.Pos())
		if err != nil {
			return nil, "", err
		}
		return nil, fmt.Sprintf("PDirents %s %s %s", CoqString(prefix+"Count"), CoqString(prefix+"Entries"), row), nil
	}
	s := g.structs[DT]
	var items []cgItem
	pay := ""
	stmts := fd.Body.List
	for i := 0; i < len(stmts); i++ {
		st := stmts[i]
		if pay != "" {
			return nil, "", g.r.Refuse(st.Pos(), "statement after the payload count")
		}
		switch x := st.(type) {
		case *ast.DeclStmt: // var mask uintN; if ...; b.WriteN(mask)
			gd, ok := x.Decl.(*ast.GenDecl)
			if !ok || gd.Tok != token.VAR || len(gd.Specs) != 1 {
				return nil, "", g.r.Refuse(st.Pos(), "encode: declaration not understood")
			}
			vs := gd.Specs[0].(*ast.ValueSpec)
			if len(vs.Names) != 1 || len(vs.Values) != 0 || vs.Type == nil {
				return nil, "", g.r.Refuse(st.Pos(), "encode: expected  var mask uintN")
			}
			mask := vs.Names[0].Name
			mw := cgBasicWidth(g.text(vs.Type))
			bits, n, err := g.maskIfs(stmts[i+1:], recv, mask, prefix)
			if err != nil {
				return nil, "", err
			}
			i += n + 1
			if i >= len(stmts) {
				return nil, "", g.r.Refuse(st.Pos(), "encode: mask is never written")
			}
			es, ok := stmts[i].(*ast.ExprStmt)
			if !ok {
				return nil, "", g.r.Refuse(stmts[i].Pos(), "encode: expected %s.WriteN(%s)", buf, mask)
			}
			k, arg, ok := g.bufCall(es.X, buf, "Write")
			if !ok || arg == nil || g.text(arg) != mask || g.wr[k].width != mw || g.wr[k].goType != g.text(vs.Type) {
				return nil, "", g.r.Refuse(stmts[i].Pos(), "encode: expected %s.Write%d(%s)", buf, mw*8, mask)
			}
			items = append(items, cgItem{path: cgTrimDot(prefix), kind: fmt.Sprintf("KMask %d [%s]", mw, strings.Join(bits, "; "))})
		case *ast.ExprStmt:
			// RECV.F.encode(b)
			if c, ok := x.X.(*ast.CallExpr); ok {
				if sel, ok := c.Fun.(*ast.SelectorExpr); ok && sel.Sel.Name == "encode" {
					f, okf := cgFieldPath(sel.X, recv)
					if !okf || len(c.Args) != 1 || g.text(c.Args[0]) != buf {
						return nil, "", g.r.Refuse(st.Pos(), "encode: expected %s.F.encode(%s)", recv, buf)
					}
					fl, okf := g.fieldOf(s, f)
					if !okf {
						return nil, "", g.r.Refuse(st.Pos(), "encode: %s has no field %s", DT, f)
					}
					tn, slice := cgTypeName(fl.typ)
					if slice || tn == "" {
						return nil, "", g.r.Refuse(st.Pos(), "encode: field %s is not a struct", f)
					}
					sub, spay, err := g.encodeProg(tn, prefix+f+".", depth+1)
					if err != nil {
						return nil, "", err
					}
					if spay != "" {
						return nil, "", g.r.Refuse(st.Pos(), "encode: embedded payload message")
					}
					items = append(items, sub...)
					continue
				}
			}
			k, arg, ok := g.bufCall(x.X, buf, "Write")
			if !ok || arg == nil {
				return nil, "", g.r.Refuse(st.Pos(), "encode: statement not understood: %s", g.text(st))
			}
			wk, known := g.wr[k]
			if !known {
				return nil, "", g.r.Refuse(st.Pos(), "encode: unknown writer Write%s", k)
			}
			// b.WriteK(RECV.F)
			if f, okf := cgFieldPath(arg, recv); okf {
				fl, okf := g.fieldOf(s, f)
				if !okf {
					return nil, "", g.r.Refuse(st.Pos(), "encode: %s has no field %s", DT, f)
				}
				if ft := g.text(fl.typ); ft != wk.goType {
					return nil, "", g.r.Refuse(st.Pos(), "encode: Write%s takes %s but %s.%s is %s", k, wk.goType, DT, f, ft)
				}
				if wk.narrowed {
					*g.curNarr = append(*g.curNarr, prefix+f)
				}
				items = append(items, cgItem{path: prefix + f, kind: wk.coq})
				continue
			}
			// b.WriteN(RECV.bitmask())
			if c, ok := arg.(*ast.CallExpr); ok && len(c.Args) == 0 {
				if sel, ok := c.Fun.(*ast.SelectorExpr); ok && g.text(sel.X) == recv {
					h, okh := g.funcs[DT+"."+sel.Sel.Name]
					if !okh || len(h.Body.List) < 2 {
						return nil, "", g.r.Refuse(st.Pos(), "encode: helper %s not understood", sel.Sel.Name)
					}
					hrecv, _ := cgRecvAndBuf(h)
					ds, ok := h.Body.List[0].(*ast.DeclStmt)
					if !ok {
						return nil, "", g.r.Refuse(h.Pos(), "%s: expected  var mask uintN  first", sel.Sel.Name)
					}
					vs := ds.Decl.(*ast.GenDecl).Specs[0].(*ast.ValueSpec)
					if len(vs.Names) != 1 || vs.Type == nil || len(vs.Values) != 0 {
						return nil, "", g.r.Refuse(h.Pos(), "%s: expected  var mask uintN", sel.Sel.Name)
					}
					mask := vs.Names[0].Name
					bits, n, err := g.maskIfs(h.Body.List[1:], hrecv, mask, prefix)
					if err != nil {
						return nil, "", err
					}
					if n+2 != len(h.Body.List) {
						return nil, "", g.r.Refuse(h.Pos(), "%s: statements other than  if F { mask |= C }", sel.Sel.Name)
					}
					ret, ok := h.Body.List[n+1].(*ast.ReturnStmt)
					if !ok || len(ret.Results) != 1 || g.text(ret.Results[0]) != mask {
						return nil, "", g.r.Refuse(h.Pos(), "%s: expected  return %s", sel.Sel.Name, mask)
					}
					if g.text(vs.Type) != wk.goType || g.text(h.Type.Results.List[0].Type) != wk.goType {
						return nil, "", g.r.Refuse(st.Pos(), "encode: mask width differs from Write%s", k)
					}
					items = append(items, cgItem{path: cgTrimDot(prefix), kind: fmt.Sprintf("KMask %d [%s]", wk.width, strings.Join(bits, "; "))})
					continue
				}
			}
			if c, ok := arg.(*ast.CallExpr); ok && len(c.Args) == 1 {
				fn, okfn := c.Fun.(*ast.Ident)
				if !okfn {
					return nil, "", g.r.Refuse(st.Pos(), "encode: argument not understood: %s", g.text(arg))
				}
				// b.WriteN(uintN(len(RECV.F)))
				if lc, ok := c.Args[0].(*ast.CallExpr); ok && g.text(lc.Fun) == "len" && len(lc.Args) == 1 {
					f, okf := cgFieldPath(lc.Args[0], recv)
					if !okf || fn.Name != wk.goType {
						return nil, "", g.r.Refuse(st.Pos(), "encode: expected %s.Write%s(%s(len(%s.F)))", buf, k, wk.goType, recv)
					}
					fl, okf := g.fieldOf(s, f)
					if !okf {
						return nil, "", g.r.Refuse(st.Pos(), "encode: %s has no field %s", DT, f)
					}
					switch k {
					case "16":
						if i+1 >= len(stmts) {
							return nil, "", g.r.Refuse(st.Pos(), "encode: count of %s without the elements", f)
						}
						rs, ok := stmts[i+1].(*ast.RangeStmt)
						if !ok || rs.Key == nil || g.text(rs.Key) != "_" || rs.Value == nil || g.text(rs.X) != recv+"."+f || len(rs.Body.List) != 1 {
							return nil, "", g.r.Refuse(stmts[i+1].Pos(), "encode: expected  for _, x := range %s.%s { one statement }", recv, f)
						}
						xv := g.text(rs.Value)
						tn, slice := cgTypeName(fl.typ)
						if !slice {
							return nil, "", g.r.Refuse(st.Pos(), "encode: %s is not a slice", f)
						}
						es, ok := rs.Body.List[0].(*ast.ExprStmt)
						if !ok {
							return nil, "", g.r.Refuse(rs.Pos(), "encode: loop body not understood")
						}
						var elem []cgItem
						if kk, a, ok := g.bufCall(es.X, buf, "Write"); ok && a != nil && g.text(a) == xv {
							ek, known := g.wr[kk]
							if !known || ek.goType != tn {
								return nil, "", g.r.Refuse(rs.Pos(), "encode: Write%s of a %s element", kk, tn)
							}
							elem = []cgItem{{path: prefix + f + "[]", kind: ek.coq}}
						} else if g.text(es.X) == xv+".encode("+buf+")" {
							sub, spay, err := g.encodeProg(tn, prefix+f+"[].", depth+1)
							if err != nil {
								return nil, "", err
							}
							if spay != "" {
								return nil, "", g.r.Refuse(rs.Pos(), "encode: list of payload messages")
							}
							elem = sub
						} else {
							return nil, "", g.r.Refuse(rs.Pos(), "encode: loop body not understood: %s", g.text(es))
						}
						items = append(items, cgItem{path: prefix + f, elem: elem, list: true})
						i++
					case "32":
						pf, err := g.payloadField(T)
						if err != nil {
							return nil, "", err
						}
						if pf != f || g.text(fl.typ) != "[]byte" {
							return nil, "", g.r.Refuse(st.Pos(), "encode: 32-bit count of %s which is not the payload (%s)", f, pf)
						}
						pay = fmt.Sprintf("PData %s %s", CoqString(prefix+"len("+f+")"), CoqString(prefix+f))
					default:
						return nil, "", g.r.Refuse(st.Pos(), "encode: length written with Write%s", k)
					}
					continue
				}
				// b.WriteN(uintN(RECV.F))
				if f, okf := cgFieldPath(c.Args[0], recv); okf {
					fl, okf := g.fieldOf(s, f)
					if !okf {
						return nil, "", g.r.Refuse(st.Pos(), "encode: %s has no field %s", DT, f)
					}
					mw := g.typeWidth(g.text(fl.typ))
					if fn.Name != wk.goType || mw == 0 || wk.coq == "KPerm" || wk.coq == "KStr" {
						return nil, "", g.r.Refuse(st.Pos(), "encode: expected %s.Write%s(%s(%s.%s))", buf, k, wk.goType, recv, f)
					}
					if mw > wk.width {
						*g.curNarr = append(*g.curNarr, prefix+f)
					}
					items = append(items, cgItem{path: prefix + f, kind: wk.coq})
					continue
				}
			}
			return nil, "", g.r.Refuse(st.Pos(), "encode: statement not understood: %s", g.text(st))
		default:
			return nil, "", g.r.Refuse(st.Pos(), "encode: statement not understood: %s", g.text(st))
		}
	}
	return items, pay, nil
}

func (g *cg) payloadField(T string) (string, error) {
	pfd, PT, _, err := g.method(T, "Payload")
	if err != nil {
		return "", err
	}
	sfd, ST, _, err := g.method(T, "SetPayload")
	if err != nil {
		return "", err
	}
	precv, _ := cgRecvAndBuf(pfd)
	if len(pfd.Body.List) != 1 {
		return "", g.r.Refuse(pfd.Pos(), "Payload: expected  return %s.F", precv)
	}
	ret, ok := pfd.Body.List[0].(*ast.ReturnStmt)
	if !ok || len(ret.Results) != 1 {
		return "", g.r.Refuse(pfd.Pos(), "Payload: expected  return %s.F", precv)
	}
	f, okf := cgFieldPath(ret.Results[0], precv)
	if !okf {
		return "", g.r.Refuse(pfd.Pos(), "Payload: expected  return %s.F", precv)
	}
	srecv, sp := cgRecvAndBuf(sfd)
	if len(sfd.Body.List) != 1 || g.text(sfd.Body.List[0]) != srecv+"."+f+"="+sp || PT != ST {
		return "", g.r.Refuse(sfd.Pos(), "SetPayload: expected  %s.%s = %s", srecv, f, sp)
	}
	cfd, _, _, err := g.method(T, "PayloadCleanup")
	if err != nil {
		return "", err
	}
	if len(cfd.Body.List) != 0 {
		return "", g.r.Refuse(cfd.Pos(), "PayloadCleanup of a registered type is not empty")
	}
	return f, nil
}

func (g *cg) fixedSize(T string) (string, error) {
	fd, _, _, err := g.method(T, "FixedSize")
	if err != nil {
		return "", err
	}
	if len(fd.Body.List) != 1 {
		return "", g.r.Refuse(fd.Pos(), "FixedSize: expected  return K")
	}
	ret, ok := fd.Body.List[0].(*ast.ReturnStmt)
	if !ok || len(ret.Results) != 1 {
		return "", g.r.Refuse(fd.Pos(), "FixedSize: expected  return K")
	}
	n, ok := g.constVal(ret.Results[0])
	if !ok {
		return "", g.r.Refuse(fd.Pos(), "FixedSize: not a constant")
	}
	return n.String(), nil
}

func (g *cg) rowTerm(items []cgItem, pos token.Pos) (string, error) {
	var parts []string
	for _, it := range items {
		if it.list {
			return "", g.r.Refuse(pos, "list inside a list element (%s)", it.path)
		}
		parts = append(parts, fmt.Sprintf("(%s, %s)", CoqString(it.path), it.kind))
	}
	return "[" + strings.Join(parts, "; ") + "]", nil
}

func (g *cg) layoutTerm(items []cgItem, pos token.Pos) (string, error) {
	var parts []string
	for _, it := range items {
		if it.list {
			row, err := g.rowTerm(it.elem, pos)
			if err != nil {
				return "", err
			}
			parts = append(parts, fmt.Sprintf("(%s, KList16 %s)", CoqString(it.path), row))
		} else {
			parts = append(parts, fmt.Sprintf("(%s, KS (%s))", CoqString(it.path), it.kind))
		}
	}
	return "[" + strings.Join(parts, "; ") + "]", nil
}

// readExpr matches  b.ReadK()  or  T(b.ReadK())  and returns the kind.
func (g *cg) readExpr(e ast.Expr, buf string, fieldType string, pos token.Pos) (cgKind, error) {
	if k, arg, ok := g.bufCall(e, buf, "Read"); ok && arg == nil {
		rk, known := g.rd[k]
		if !known {
			return cgKind{}, g.r.Refuse(pos, "decode: unknown reader Read%s", k)
		}
		if fieldType != rk.goType {
			return cgKind{}, g.r.Refuse(pos, "decode: Read%s returns %s but the field is %s", k, rk.goType, fieldType)
		}
		return rk, nil
	}
	if c, ok := e.(*ast.CallExpr); ok && len(c.Args) == 1 {
		if fn, ok := c.Fun.(*ast.Ident); ok {
			if k, arg, ok := g.bufCall(c.Args[0], buf, "Read"); ok && arg == nil {
				rk, known := g.rd[k]
				mw := g.typeWidth(fn.Name)
				if !known || rk.coq == "KStr" || rk.coq == "KPerm" || fn.Name != fieldType || mw < rk.width {
					return cgKind{}, g.r.Refuse(pos, "decode: conversion %s(b.Read%s()) into a %s field not understood", fn.Name, k, fieldType)
				}
				return rk, nil
			}
		}
	}
	return cgKind{}, g.r.Refuse(pos, "decode: right-hand side not understood: %s", g.text(e))
}

// decodeProg reads T.decode into dstmt terms.
func (g *cg) decodeProg(T, prefix string, depth int) ([]string, error) {
	if depth > 6 {
		return nil, fmt.Errorf("decode of %s nests too deeply", T)
	}
	fd, DT, pp, err := g.method(T, "decode")
	if err != nil {
		return nil, err
	}
	prefix += pp
	recv, buf := cgRecvAndBuf(fd)
	if buf == "" {
		return nil, g.r.Refuse(fd.Pos(), "decode: expected one named *buffer parameter")
	}
	if g.sameAs(fd, cgRreaddirDecode) || g.sameAs(fd, cgRreaddirDecodeNoReset) {
		ent, err := g.decodeProg("Dirent", prefix+"Entries[].", depth+1)
		if err != nil {
			return nil, err
		}
		var row []string
		for _, st := range ent {
			var p, k string
			if !strings.HasPrefix(st, "DAssign ") {
				return nil, g.r.Refuse(fd.Pos(), "Dirent.decode is not a sequence of scalar reads")
			}
			rest := strings.TrimPrefix(st, "DAssign ")
			j := strings.Index(rest, "\" ")
			p, k = rest[:j+1], strings.TrimSpace(rest[j+1:])
			k = strings.TrimSuffix(strings.TrimPrefix(k, "("), ")")
			row = append(row, fmt.Sprintf("(%s, %s)", p, k))
		}
		reset := "true"
		if g.sameAs(fd, cgRreaddirDecodeNoReset) {
			reset = "false"
		}
		pf, err := g.payloadField(T)
		if err != nil {
			return nil, err
		}
		if pf != "payload" {
			return nil, g.r.Refuse(fd.Pos(), "rreaddir: payload field is %s", pf)
		}
		return []string{fmt.Sprintf("DDirents %s %s [%s] %s", CoqString(prefix+"Count"), CoqString(prefix+"Entries"), strings.Join(row, "; "), reset)}, nil
	}
	s := g.structs[DT]
	var out []string
	stmts := fd.Body.List
	for i := 0; i < len(stmts); i++ {
		st := stmts[i]
		switch x := st.(type) {
		case *ast.ExprStmt: // RECV.F.decode(b)
			c, ok := x.X.(*ast.CallExpr)
			if !ok {
				return nil, g.r.Refuse(st.Pos(), "decode: statement not understood: %s", g.text(st))
			}
			sel, ok := c.Fun.(*ast.SelectorExpr)
			if !ok || sel.Sel.Name != "decode" || len(c.Args) != 1 || g.text(c.Args[0]) != buf {
				return nil, g.r.Refuse(st.Pos(), "decode: statement not understood: %s", g.text(st))
			}
			f, okf := cgFieldPath(sel.X, recv)
			if !okf {
				return nil, g.r.Refuse(st.Pos(), "decode: expected %s.F.decode(%s)", recv, buf)
			}
			fl, okf := g.fieldOf(s, f)
			if !okf {
				return nil, g.r.Refuse(st.Pos(), "decode: %s has no field %s", DT, f)
			}
			tn, slice := cgTypeName(fl.typ)
			if slice || tn == "" {
				return nil, g.r.Refuse(st.Pos(), "decode: field %s is not a struct", f)
			}
			sub, err := g.decodeProg(tn, prefix+f+".", depth+1)
			if err != nil {
				return nil, err
			}
			out = append(out, sub...)
		case *ast.AssignStmt:
			if len(x.Lhs) != 1 || len(x.Rhs) != 1 {
				return nil, g.r.Refuse(st.Pos(), "decode: statement not understood: %s", g.text(st))
			}
			if x.Tok == token.ASSIGN {
				f, okf := cgFieldPath(x.Lhs[0], recv)
				if !okf {
					return nil, g.r.Refuse(st.Pos(), "decode: assignment to something that is not a field: %s", g.text(st))
				}
				fl, okf := g.fieldOf(s, f)
				if !okf {
					return nil, g.r.Refuse(st.Pos(), "decode: %s has no field %s", DT, f)
				}
				rk, err := g.readExpr(x.Rhs[0], buf, g.text(fl.typ), st.Pos())
				if err != nil {
					return nil, err
				}
				out = append(out, fmt.Sprintf("DAssign %s (%s)", CoqString(prefix+f), rk.coq))
				continue
			}
			if x.Tok != token.DEFINE {
				return nil, g.r.Refuse(st.Pos(), "decode: statement not understood: %s", g.text(st))
			}
			local := g.text(x.Lhs[0])
			k, arg, ok := g.bufCall(x.Rhs[0], buf, "Read")
			if !ok || arg != nil {
				return nil, g.r.Refuse(st.Pos(), "decode: expected  %s := %s.ReadN()", local, buf)
			}
			rk := g.rd[k]
			next := stmts[i+1:]
			switch {
			case len(next) > 0 && isMaskAssign(next[0], local):
				// mask := b.ReadN(); RECV.F = mask&C != 0 ...
				var bits []string
				j := 0
				for ; j < len(next); j++ {
					as, ok := next[j].(*ast.AssignStmt)
					if !ok || !isMaskAssign(next[j], local) {
						return nil, g.r.Refuse(next[j].Pos(), "decode: expected  %s.F = %s&C != 0", recv, local)
					}
					f, okf := cgFieldPath(as.Lhs[0], recv)
					fl, okf2 := g.fieldOf(s, f)
					if !okf || !okf2 || g.text(fl.typ) != "bool" {
						return nil, g.r.Refuse(as.Pos(), "decode: mask bit assigned to something that is not a bool field")
					}
					be := as.Rhs[0].(*ast.BinaryExpr).X.(*ast.BinaryExpr)
					n, ok := g.constVal(be.Y)
					if !ok {
						return nil, g.r.Refuse(as.Pos(), "decode: mask bit is not a constant")
					}
					p, ok := cgBitPos(n)
					if !ok {
						return nil, g.r.Refuse(as.Pos(), "decode: mask bit %s is not a power of two", n.String())
					}
					bits = append(bits, fmt.Sprintf("(%d, %s)", p, CoqString(prefix+f)))
				}
				if rk.width == 0 || rk.coq == "KPerm" {
					return nil, g.r.Refuse(st.Pos(), "decode: mask read with Read%s", k)
				}
				cgSortBits(bits)
				out = append(out, fmt.Sprintf("DMask %s %d [%s]", CoqString(cgTrimDot(prefix)), rk.width, strings.Join(bits, "; ")))
				i += j
			case k == "16":
				// n := b.Read16(); [RECV.F = RECV.F[:0];] for i := 0; i < int(n); i++ { append }
				out = append(out, "DLen16")
				j := 0
				resetF := ""
				if len(next) > 0 {
					if as, ok := next[0].(*ast.AssignStmt); ok && as.Tok == token.ASSIGN && len(as.Lhs) == 1 {
						f, okf := cgFieldPath(as.Lhs[0], recv)
						if !okf || (g.text(as.Rhs[0]) != recv+"."+f+"[:0]" && g.text(as.Rhs[0]) != "nil") {
							return nil, g.r.Refuse(as.Pos(), "decode: expected  %s.F = %s.F[:0]  (or nil)", recv, recv)
						}
						resetF = f
						out = append(out, fmt.Sprintf("DReset %s", CoqString(prefix+f)))
						j = 1
					}
				}
				if j >= len(next) {
					return nil, g.r.Refuse(st.Pos(), "decode: count without a loop")
				}
				fs, ok := next[j].(*ast.ForStmt)
				guarded := "false"
				if ok && fs.Init != nil && fs.Cond != nil && fs.Post != nil {
					iv := strings.TrimSuffix(g.text(fs.Init), ":=0")
					cond := g.text(fs.Cond)
					switch {
					case iv == "" || iv == g.text(fs.Init) || g.text(fs.Post) != iv+"++":
						ok = false
					case cond == iv+"<int("+local+")":
					case cond == iv+"<int("+local+")&&!"+buf+".isOverrun()":
						guarded = "true"
					default:
						ok = false
					}
				} else {
					ok = false
				}
				if !ok {
					return nil, g.r.Refuse(next[j].Pos(), "decode: expected  for i := 0; i < int(%s) [&& !%s.isOverrun()]; i++", local, buf)
				}
				f, elem, err := g.appendLoop(fs.Body.List, recv, buf, s, DT, prefix, depth, fs.Pos())
				if err != nil {
					return nil, err
				}
				if resetF != "" && resetF != f {
					return nil, g.r.Refuse(fs.Pos(), "decode: %s reset but %s appended to", resetF, f)
				}
				out = append(out, fmt.Sprintf("DLoop %s %s %s", CoqString(prefix+f), elem, guarded))
				i += j + 1
			case k == "32":
				// count := b.Read32(); if count != uint32(len(RECV.F)) { b.markOverrun() }
				if len(next) != 1 {
					return nil, g.r.Refuse(st.Pos(), "decode: payload count must be followed by the length check only")
				}
				is, ok := next[0].(*ast.IfStmt)
				if !ok || is.Init != nil || is.Else != nil || len(is.Body.List) != 1 || g.text(is.Body.List[0]) != buf+".markOverrun()" {
					return nil, g.r.Refuse(next[0].Pos(), "decode: expected  if %s != uint32(len(%s.F)) { %s.markOverrun() }", local, recv, buf)
				}
				pf, err := g.payloadField(T)
				if err != nil {
					return nil, err
				}
				if g.text(is.Cond) != local+"!=uint32(len("+recv+"."+pf+"))" {
					return nil, g.r.Refuse(is.Pos(), "decode: expected  %s != uint32(len(%s.%s))", local, recv, pf)
				}
				out = append(out, fmt.Sprintf("DCountCheck %s %s", CoqString(prefix+"len("+pf+")"), CoqString(prefix+pf)))
				i++
			default:
				return nil, g.r.Refuse(st.Pos(), "decode: local %s read with Read%s is not used in a known way", local, k)
			}
		default:
			return nil, g.r.Refuse(st.Pos(), "decode: statement not understood: %s", g.text(st))
		}
	}
	return out, nil
}

// isMaskAssign matches  X = mask&C != 0
func isMaskAssign(st ast.Stmt, mask string) bool {
	as, ok := st.(*ast.AssignStmt)
	if !ok || as.Tok != token.ASSIGN || len(as.Lhs) != 1 || len(as.Rhs) != 1 {
		return false
	}
	ne, ok := as.Rhs[0].(*ast.BinaryExpr)
	if !ok || ne.Op != token.NEQ {
		return false
	}
	if lit, ok := ne.Y.(*ast.BasicLit); !ok || lit.Value != "0" {
		return false
	}
	and, ok := ne.X.(*ast.BinaryExpr)
	if !ok || and.Op != token.AND {
		return false
	}
	id, ok := and.X.(*ast.Ident)
	return ok && id.Name == mask
}

// appendLoop matches the two loop bodies and returns the field and the element row term.
func (g *cg) appendLoop(body []ast.Stmt, recv, buf string, s *cgStruct, DT, prefix string, depth int, pos token.Pos) (string, string, error) {
	appendTo := func(st ast.Stmt) (string, ast.Expr, bool) {
		as, ok := st.(*ast.AssignStmt)
		if !ok || as.Tok != token.ASSIGN || len(as.Lhs) != 1 || len(as.Rhs) != 1 {
			return "", nil, false
		}
		f, okf := cgFieldPath(as.Lhs[0], recv)
		c, ok := as.Rhs[0].(*ast.CallExpr)
		if !okf || !ok || g.text(c.Fun) != "append" || len(c.Args) != 2 || g.text(c.Args[0]) != recv+"."+f || c.Ellipsis.IsValid() {
			return "", nil, false
		}
		return f, c.Args[1], true
	}
	switch len(body) {
	case 1: // RECV.F = append(RECV.F, b.ReadString())
		f, a, ok := appendTo(body[0])
		if !ok {
			break
		}
		fl, okf := g.fieldOf(s, f)
		if !okf {
			break
		}
		tn, slice := cgTypeName(fl.typ)
		if !slice {
			break
		}
		rk, err := g.readExpr(a, buf, tn, pos)
		if err != nil {
			return "", "", err
		}
		return f, fmt.Sprintf("[(%s, %s)]", CoqString(prefix+f+"[]"), rk.coq), nil
	case 3: // var q QID; q.decode(b); RECV.F = append(RECV.F, q)
		ds, ok := body[0].(*ast.DeclStmt)
		if !ok {
			break
		}
		gd, ok := ds.Decl.(*ast.GenDecl)
		if !ok || gd.Tok != token.VAR || len(gd.Specs) != 1 {
			break
		}
		vs := gd.Specs[0].(*ast.ValueSpec)
		if len(vs.Names) != 1 || vs.Type == nil || len(vs.Values) != 0 {
			break
		}
		v := vs.Names[0].Name
		tn := g.text(vs.Type)
		if g.text(body[1]) != v+".decode("+buf+")" {
			break
		}
		f, a, ok := appendTo(body[2])
		if !ok || g.text(a) != v {
			break
		}
		fl, okf := g.fieldOf(s, f)
		if !okf {
			break
		}
		if etn, slice := cgTypeName(fl.typ); !slice || etn != tn {
			break
		}
		sub, err := g.decodeProg(tn, prefix+f+"[].", depth+1)
		if err != nil {
			return "", "", err
		}
		var row []string
		for _, st := range sub {
			if !strings.HasPrefix(st, "DAssign ") {
				return "", "", g.r.Refuse(pos, "decode: element %s is not a sequence of scalar reads", tn)
			}
			rest := strings.TrimPrefix(st, "DAssign ")
			j := strings.Index(rest, "\" ")
			k := strings.TrimSpace(rest[j+1:])
			k = strings.TrimSuffix(strings.TrimPrefix(k, "("), ")")
			row = append(row, fmt.Sprintf("(%s, %s)", rest[:j+1], k))
		}
		return f, "[" + strings.Join(row, "; ") + "]", nil
	}
	return "", "", g.r.Refuse(pos, "decode: loop body not understood")
}

// leafFields lists every leaf field path of a struct (sub-structs flattened, slices are leaves).
func (g *cg) leafFields(T, prefix string, depth int) []string {
	s, ok := g.structs[T]
	if !ok || depth > 6 {
		return []string{cgTrimDot(prefix)}
	}
	var out []string
	for _, f := range s.fields {
		tn, slice := cgTypeName(f.typ)
		if _, isStruct := g.structs[tn]; isStruct && !slice {
			out = append(out, g.leafFields(tn, prefix+f.name+".", depth+1)...)
		} else {
			out = append(out, prefix+f.name)
		}
	}
	return out
}

func cgStrList(l []string) string {
	var q []string
	for _, s := range l {
		q = append(q, CoqString(s))
	}
	return "[" + strings.Join(q, "; ") + "]"
}

func genCodec(r *Repo) (string, error) {
	g := &cg{r: r}
	if err := g.load(); err != nil {
		return "", err
	}
	// the registry: init() { msgDotLRegistry.register(CONST, func() message { return &T{} }) ... }
	files, _ := r.Files("p9")
	type reg struct {
		constName, goType string
		val               *big.Int
		pos               token.Pos
	}
	var regs []reg
	for _, fn := range SortedNames(files) {
		for _, d := range files[fn].Decls {
			fd, ok := d.(*ast.FuncDecl)
			if !ok || fd.Recv != nil || fd.Name.Name != "init" || fd.Body == nil {
				continue
			}
			uses := false
			ast.Inspect(fd.Body, func(n ast.Node) bool {
				if sel, ok := n.(*ast.SelectorExpr); ok && sel.Sel.Name == "register" {
					uses = true
				}
				return true
			})
			if !uses {
				continue
			}
			for _, st := range fd.Body.List {
				es, ok := st.(*ast.ExprStmt)
				if !ok {
					return "", r.Refuse(st.Pos(), "registry init: statement not understood")
				}
				c, ok := es.X.(*ast.CallExpr)
				if !ok || g.text(c.Fun) != "msgDotLRegistry.register" || len(c.Args) != 2 {
					return "", r.Refuse(st.Pos(), "registry init: expected msgDotLRegistry.register(C, func() message { return &T{} })")
				}
				id, ok := c.Args[0].(*ast.Ident)
				fl, ok2 := c.Args[1].(*ast.FuncLit)
				if !ok || !ok2 || len(fl.Body.List) != 1 {
					return "", r.Refuse(st.Pos(), "registry init: arguments not understood")
				}
				ret, ok := fl.Body.List[0].(*ast.ReturnStmt)
				if !ok || len(ret.Results) != 1 {
					return "", r.Refuse(st.Pos(), "registry init: constructor not understood")
				}
				ue, ok := ret.Results[0].(*ast.UnaryExpr)
				if !ok || ue.Op != token.AND {
					return "", r.Refuse(st.Pos(), "registry init: constructor must return &T{}")
				}
				cl, ok := ue.X.(*ast.CompositeLit)
				if !ok || len(cl.Elts) != 0 {
					return "", r.Refuse(st.Pos(), "registry init: constructor must return &T{}")
				}
				n, ok := g.constVal(id)
				if !ok {
					return "", r.Refuse(st.Pos(), "registry init: %s is not a constant", id.Name)
				}
				regs = append(regs, reg{id.Name, g.text(cl.Type), n, st.Pos()})
			}
		}
	}
	if len(regs) == 0 {
		return "", fmt.Errorf("p9: no registry init() found")
	}
	var b strings.Builder
	b.WriteString("From Coq Require Import NArith String List.\nFrom P9V Require Import Codec.Layout Codec.Frame Codec.Reuse.\nImport ListNotations.\nLocal Open Scope string_scope.\nLocal Open Scope N_scope.\n\n")
	if g.permMask == nil {
		return "", fmt.Errorf("p9/buffer.go: no permission mask found")
	}
	fmt.Fprintf(&b, "(* mask applied by WritePermissions and ReadPermissions *)\nDefinition gen_perm_mask : N := %s.\n\n", g.permMask.String())
	b.WriteString("(* primitive readers/writers (name, wire kind); bodies of append/consume/has/ReadN/WriteN/ReadString/WriteString,\n   registry.get/put matched exactly *)\n")
	var wn []string
	for k := range g.wr {
		wn = append(wn, k)
	}
	cgSortStrings(wn)
	b.WriteString("Definition gen_writers : list (string * skind) := [")
	for i, k := range wn {
		if i > 0 {
			b.WriteString("; ")
		}
		fmt.Fprintf(&b, "(%s, %s)", CoqString(k), g.wr[k].coq)
	}
	b.WriteString("].\nDefinition gen_readers : list (string * skind) := [")
	for i, k := range wn {
		if i > 0 {
			b.WriteString("; ")
		}
		fmt.Fprintf(&b, "(%s, %s)", CoqString(k), g.rd[k].coq)
	}
	b.WriteString("].\n\n")
	var narrowAll []string
	var names []string
	for _, rg := range regs {
		var narr []string
		g.curNarr = &narr
		items, pay, err := g.encodeProg(rg.goType, "", 0)
		if err != nil {
			return "", err
		}
		lay, err := g.layoutTerm(items, rg.pos)
		if err != nil {
			return "", err
		}
		dprog, err := g.decodeProg(rg.goType, "", 0)
		if err != nil {
			return "", err
		}
		fixed, payf := "None", "None"
		if _, _, _, err := g.method(rg.goType, "FixedSize"); err == nil {
			fsz, err := g.fixedSize(rg.goType)
			if err != nil {
				return "", err
			}
			pf, err := g.payloadField(rg.goType)
			if err != nil {
				return "", err
			}
			fixed = "(Some " + fsz + ")"
			payf = "(Some " + CoqString(pf) + ")"
		}
		if pay == "" {
			pay = "PNone"
		} else {
			pay = "(" + pay + ")"
		}
		fmt.Fprintf(&b, "Definition gen_msg_%s : gen_msg :=\n  {| gm_typ := %s; gm_const := %s; gm_go := %s;\n     gm_enc := {| ml_fixed := %s; ml_pay := %s |};\n     gm_dec := [%s];\n     gm_fields := %s;\n     gm_fixed_size := %s; gm_payload := %s |}.\n",
			rg.constName, rg.val.String(), CoqString(rg.constName), CoqString(rg.goType), lay, pay, strings.Join(dprog, "; "), cgStrList(g.leafFields(rg.goType, "", 0)), fixed, payf)
		names = append(names, "gen_msg_"+rg.constName)
		narrowAll = append(narrowAll, fmt.Sprintf("(%s, %s)", CoqString(rg.goType), cgStrList(narr)))
	}
	b.WriteString("\nDefinition gen_msgs : list gen_msg := [\n  " + strings.Join(names, ";\n  ") + "\n].\n\n")
	b.WriteString("(* fields whose in-memory type is wider than what is written (uint32(fid)) *)\nDefinition gen_narrowed : list (string * list string) := [\n  " + strings.Join(narrowAll, ";\n  ") + "\n].\n\n")
	// fields the receiver assigns itself after recv (server.go handleRequest: f.wait = nil)
	resets := "[]"
	if fd, ok := g.funcs["connState.handleRequest"]; ok {
		ast.Inspect(fd.Body, func(n ast.Node) bool {
			is, ok := n.(*ast.IfStmt)
			if !ok || is.Init == nil || len(is.Body.List) == 0 {
				return true
			}
			as, ok := is.Init.(*ast.AssignStmt)
			if !ok || as.Tok != token.DEFINE || len(as.Lhs) != 2 || len(as.Rhs) != 1 {
				return true
			}
			ta, ok := as.Rhs[0].(*ast.TypeAssertExpr)
			if !ok || ta.Type == nil || g.text(ta.Type) != "*tflush" {
				return true
			}
			if g.text(is.Cond) == g.text(as.Lhs[1]) && g.text(is.Body.List[0]) == g.text(as.Lhs[0])+".wait=nil" {
				resets = `[("tflush", ["wait"])]`
			}
			return true
		})
	}
	b.WriteString("(* fields the receiver overwrites unconditionally right after recv (connState.handleRequest) *)\nDefinition gen_receiver_resets : list (string * list string) := " + resets + ".\n")
	// ---- pooled buffers: three syntactic facts about transport.go recv, tread.handle and
	// rreadServerPayloader.PayloadCleanup (false when the shape is not found; never a refusal)
	boolc := func(v bool) string {
		if v {
			return "true"
		}
		return "false"
	}
	fmt.Fprintf(&b, "\n(* recv: the decode buffer handed to m.decode is the pooled (or new) slice cut to exactly the size read from the stream:\n   data := *datap; data = make([]byte, size) | data = data[:size]; dataBuf = buffer{data: data} *)\nDefinition gen_recv_buffer_exact : bool := %s.\n", boolc(g.factRecvBufferExact()))
	fmt.Fprintf(&b, "(* tread.handle: n, err = file.ReadAt(buf[:count], off)  and the reply carries  Data: buf[:n], fullBuffer: buf *)\nDefinition gen_rread_data_is_n : bool := %s.\n", boolc(g.factRreadDataIsN()))
	fmt.Fprintf(&b, "(* rreadServerPayloader.PayloadCleanup: copy(r.Data, r.cs.pristineZeros) and only then readBufPool.Put(&r.fullBuffer);\n   pristineZeros and the pooled buffers are both make([]byte, msize) *)\nDefinition gen_cleanup_zeroes_before_put : bool := %s.\n", boolc(g.factCleanupZeroes()))
	// transport.go send/recv framing, read by role (variables are named after what they are used for, not after their spelling)
	fs := g.frameShape()
	fmt.Fprintf(&b, "\n(* transport.go framing as read from send and recv.  send: header writers in order (value, writer), vectors in the order they are\n   appended, summands of totalLength.  recv: header readers in order (role, reader), the size checks before lookup in order, how the body is split:\n   for a payloader FixedSize bytes go to the decode buffer and the rest is the payload, otherwise the whole body is the decode buffer.\n   \"?\" = not understood *)\n")
	fmt.Fprintf(&b, "Definition gen_send_header : list (string * string) := %s.\nDefinition gen_send_vectors : list string := %s.\nDefinition gen_send_total : list string := %s.\n", cgPairList(fs.sendHdr), cgStrList(fs.sendVecs), cgStrList(fs.sendTotal))
	fmt.Fprintf(&b, "Definition gen_recv_header : list (string * string) := %s.\nDefinition gen_recv_checks : list string := %s.\nDefinition gen_recv_split : list string := %s.\n", cgPairList(fs.recvHdr), cgStrList(fs.recvChecks), cgStrList(fs.recvSplit))
	// recv's appendBuffer read structurally: which view of the pooled buffer decides growth, is handed to decode, is filled by ReadFrom
	cmpS, decS, rdS := g.recvSlices()
	fmt.Fprintf(&b, "\n(* recv's appendBuffer, pooled branch: the view of the pooled buffer whose length is compared with size, the view handed to m.decode\n   (buffer{data: ...}) and the view appended to vecs (filled by ReadFrom): \"first\" = x[:size], \"len\" = *datap, \"cap\" = x[:cap(x)]; the other\n   branch must be make([]byte, size) *)\nDefinition gen_recv_grow_cmp : string := %q.\nDefinition gen_recv_decode_slice : string := %q.\nDefinition gen_recv_read_slice : string := %q.\n", cmpS, decS, rdS)
	// the pool operations a Tread goes through, in execution order (success path): tread.handle, then send
	// (WriteTo, deferred PayloadCleanup inlined).  "?" marks anything the reader does not understand: the
	// obligation GenCheckReuse.read_ops_spec then fails; never a refusal.
	ops := append(g.roEvents(g.funcs["tread.handle"]), g.roEvents(g.funcs["send"])...)
	fmt.Fprintf(&b, "\n(* pool operations of one Tread in execution order: tread.handle (readBufPool.Get, ReadAt / xattr copy into the buffer, any Put), then send\n   (vecs.WriteTo, the deferred PayloadCleanup of rreadServerPayloader inlined: zeroing copy, readBufPool.Put); deferred calls run at function end *)\nDefinition gen_read_ops : list string := %s.\n", cgStrList(ops))
	return b.String(), nil
}

type cgFrameShape struct {
	sendHdr, recvHdr                          [][2]string
	sendVecs, sendTotal, recvChecks, recvSplit []string
}

func cgPairList(l [][2]string) string {
	var parts []string
	for _, p := range l {
		parts = append(parts, fmt.Sprintf("(%q, %q)", p[0], p[1]))
	}
	return "[" + strings.Join(parts, "; ") + "]"
}

// cgRename replaces whole identifiers in normalised expression text.
func cgRename(text string, ren map[string]string) string {
	var out strings.Builder
	i := 0
	isId := func(c byte) bool { return c == '_' || c >= '0' && c <= '9' || c >= 'a' && c <= 'z' || c >= 'A' && c <= 'Z' }
	for i < len(text) {
		if isId(text[i]) {
			j := i
			for j < len(text) && isId(text[j]) {
				j++
			}
			w := text[i:j]
			if i > 0 && text[i-1] == '.' {
				out.WriteString(w)
			} else if r, ok := ren[w]; ok {
				out.WriteString(r)
			} else {
				out.WriteString(w)
			}
			i = j
		} else {
			out.WriteByte(text[i])
			i++
		}
	}
	return out.String()
}

func (g *cg) frameShape() cgFrameShape {
	var fs cgFrameShape
	q := []string{"?"}
	fs.sendVecs, fs.sendTotal, fs.recvChecks, fs.recvSplit = q, q, q, q
	paramName := func(fd *ast.FuncDecl, typ string) string {
		for _, f := range fd.Type.Params.List {
			if g.text(f.Type) == typ && len(f.Names) == 1 {
				return f.Names[0].Name
			}
		}
		return ""
	}
	// ---------------- send ----------------
	if fd, ok := g.funcs["send"]; ok {
		ren := map[string]string{}
		if n := paramName(fd, "tag"); n != "" {
			ren[n] = "TAG"
		}
		if n := paramName(fd, "message"); n != "" {
			ren[n] = "MSG"
		}
		var hdrBuf, dataBuf, vecs, total, payl string
		// roles: X := buffer{data: (*D)[:0]} is the data buffer, X := buffer{data: H[:0]} with H an array the header buffer
		ast.Inspect(fd.Body, func(n ast.Node) bool {
			switch x := n.(type) {
			case *ast.AssignStmt:
				if len(x.Lhs) == 1 && len(x.Rhs) == 1 && x.Tok == token.DEFINE {
					l, r := g.text(x.Lhs[0]), g.text(x.Rhs[0])
					switch {
					case strings.HasPrefix(r, "buffer{data:(*") && strings.HasSuffix(r, ")[:0]}"):
						dataBuf = l
					case strings.HasPrefix(r, "buffer{data:") && strings.HasSuffix(r, "[:0]}"):
						hdrBuf = l
						ren[strings.TrimSuffix(strings.TrimPrefix(r, "buffer{data:"), "[:0]}")] = "HDR"
					case strings.HasPrefix(r, "make(net.Buffers,"):
						vecs = l
					case strings.HasSuffix(r, ".Payload()"):
						payl = l
					case strings.HasPrefix(r, "headerLength+"):
						total = l
					}
				}
			}
			return true
		})
		if dataBuf != "" {
			ren[dataBuf] = "DATA"
		}
		if payl != "" {
			ren[payl] = "PAYLOAD"
		}
		if total != "" {
			ren[total] = "TOTAL"
		}
		fs.sendVecs, fs.sendTotal = nil, nil
		ast.Inspect(fd.Body, func(n ast.Node) bool {
			switch x := n.(type) {
			case *ast.CallExpr:
				if sel, ok := x.Fun.(*ast.SelectorExpr); ok && hdrBuf != "" && g.text(sel.X) == hdrBuf && strings.HasPrefix(sel.Sel.Name, "Write") && len(x.Args) == 1 {
					fs.sendHdr = append(fs.sendHdr, [2]string{cgRename(g.text(x.Args[0]), ren), strings.TrimPrefix(sel.Sel.Name, "Write")})
				}
			case *ast.AssignStmt:
				if len(x.Lhs) != 1 || len(x.Rhs) != 1 {
					return true
				}
				l, r := g.text(x.Lhs[0]), cgRename(g.text(x.Rhs[0]), ren)
				switch {
				case vecs != "" && l == vecs && strings.HasPrefix(r, "append("+vecs+","):
					fs.sendVecs = append(fs.sendVecs, strings.TrimSuffix(strings.TrimPrefix(r, "append("+vecs+","), ")"))
				case total != "" && l == total && x.Tok == token.DEFINE:
					fs.sendTotal = append(fs.sendTotal, strings.Split(r, "+")...)
				case total != "" && l == total && x.Tok == token.ADD_ASSIGN:
					fs.sendTotal = append(fs.sendTotal, r)
				case total != "" && l == total:
					fs.sendTotal = append(fs.sendTotal, "?")
				}
			}
			return true
		})
	}
	// ---------------- recv ----------------
	if fd, ok := g.recvFunc(); ok {
		ren := map[string]string{}
		var msizeP string
		for _, f := range fd.Type.Params.List {
			if g.text(f.Type) == "uint32" && len(f.Names) == 1 {
				msizeP = f.Names[0].Name
				ren[msizeP] = "MSIZE"
			}
		}
		var hdrBuf string
		roleOf := map[string]string{}
		var lookupArgs []string
		ast.Inspect(fd.Body, func(n ast.Node) bool {
			switch x := n.(type) {
			case *ast.AssignStmt:
				if len(x.Lhs) == 1 && len(x.Rhs) == 1 && x.Tok == token.DEFINE {
					l, r := g.text(x.Lhs[0]), g.text(x.Rhs[0])
					if strings.HasPrefix(r, "buffer{data:") && strings.HasSuffix(r, "[:]}") {
						hdrBuf = l
					}
					// recvFrame: the limit is a `func() uint32` parameter asked once, after the header
					if c, ok := x.Rhs[0].(*ast.CallExpr); ok && len(c.Args) == 0 && msizeP == "" {
						if id, ok := c.Fun.(*ast.Ident); ok {
							for _, f := range fd.Type.Params.List {
								if ft, isFn := f.Type.(*ast.FuncType); isFn && len(f.Names) == 1 && f.Names[0].Name == id.Name &&
									(ft.Params == nil || len(ft.Params.List) == 0) && ft.Results != nil && len(ft.Results.List) == 1 && g.text(ft.Results.List[0].Type) == "uint32" {
									msizeP = l
									ren[l] = "MSIZE"
								}
							}
						}
					}
				}
				if len(x.Lhs) == 2 && len(x.Rhs) == 1 {
					if c, ok := x.Rhs[0].(*ast.CallExpr); ok && len(c.Args) == 2 && lookupArgs == nil {
						if id, ok := c.Fun.(*ast.Ident); ok && paramName(fd, "lookupTagAndType") == id.Name {
							lookupArgs = []string{g.text(c.Args[0]), g.text(c.Args[1])}
						}
					}
				}
			}
			return true
		})
		if len(lookupArgs) == 2 {
			roleOf[lookupArgs[0]] = "tag"
			roleOf[lookupArgs[1]] = "typ"
			ren[lookupArgs[0]] = "TAG"
			ren[lookupArgs[1]] = "TYP"
		}
		var sizeV, remV, fixedV, paylV string
		for _, st := range fd.Body.List {
			as, ok := st.(*ast.AssignStmt)
			if !ok || len(as.Lhs) != 1 || len(as.Rhs) != 1 || as.Tok != token.DEFINE {
				continue
			}
			c, ok := as.Rhs[0].(*ast.CallExpr)
			if !ok {
				if be, ok := as.Rhs[0].(*ast.BinaryExpr); ok && be.Op == token.SUB && sizeV != "" && g.text(be.X) == sizeV && g.text(be.Y) == "headerLength" {
					remV = g.text(as.Lhs[0])
					ren[remV] = "REMAINING"
				}
				continue
			}
			sel, ok := c.Fun.(*ast.SelectorExpr)
			if !ok || hdrBuf == "" || g.text(sel.X) != hdrBuf || !strings.HasPrefix(sel.Sel.Name, "Read") || len(c.Args) != 0 {
				continue
			}
			v := g.text(as.Lhs[0])
			role := roleOf[v]
			if role == "" && sizeV == "" {
				role, sizeV = "size", v
				ren[v] = "SIZE"
			}
			if role == "" {
				role = "?"
			}
			fs.recvHdr = append(fs.recvHdr, [2]string{role, strings.TrimPrefix(sel.Sel.Name, "Read")})
		}
		// checks before lookup: top-level ifs whose condition mentions SIZE only
		fs.recvChecks, fs.recvSplit = nil, nil
		for _, st := range fd.Body.List {
			is, ok := st.(*ast.IfStmt)
			if !ok || is.Init != nil {
				continue
			}
			c := cgRename(g.text(is.Cond), ren)
			if strings.Contains(c, "SIZE") {
				ret := "?"
				if n := len(is.Body.List); n > 0 {
					if r, ok := is.Body.List[n-1].(*ast.ReturnStmt); ok && len(r.Results) == 3 {
						ret = cgRename(g.text(r.Results[2]), ren)
						if i := strings.Index(ret, "{"); i >= 0 {
							ret = ret[:i]
						}
					}
				}
				fs.recvChecks = append(fs.recvChecks, c+"=>"+ret)
			}
		}
		if remV != "" {
			fs.recvChecks = append(fs.recvChecks, "REMAINING=SIZE-headerLength")
		}
		// the split: if payloader, ok := m.(payloader); ok { ... } else if remaining != 0 { appendBuffer(int(remaining)) }
		for _, st := range fd.Body.List {
			is, ok := st.(*ast.IfStmt)
			if !ok || is.Init == nil || !strings.HasSuffix(g.text(is.Init), ".(payloader)") {
				continue
			}
			ast.Inspect(is.Body, func(n ast.Node) bool {
				if as, ok := n.(*ast.AssignStmt); ok && len(as.Lhs) == 1 && len(as.Rhs) == 1 && as.Tok == token.DEFINE {
					r := g.text(as.Rhs[0])
					if strings.HasSuffix(r, ".FixedSize()") {
						fixedV = g.text(as.Lhs[0])
						ren[fixedV] = "FIXED"
					}
					if strings.HasSuffix(r, ".Payload()") {
						paylV = g.text(as.Lhs[0])
						ren[paylV] = "PAYLOAD"
					}
				}
				return true
			})
			appendName := "appendBuffer"
			for _, st2 := range fd.Body.List {
				if as, ok := st2.(*ast.AssignStmt); ok && len(as.Lhs) == 1 && len(as.Rhs) == 1 {
					if _, ok := as.Rhs[0].(*ast.FuncLit); ok {
						appendName = g.text(as.Lhs[0])
					}
				}
			}
			var walk func(n ast.Node, pre string)
			walk = func(n ast.Node, pre string) {
				ast.Inspect(n, func(m ast.Node) bool {
					switch x := m.(type) {
					case *ast.IfStmt:
						if m == n {
							return true
						}
						c := cgRename(g.text(x.Cond), ren)
						if strings.Contains(c, "FIXED") || strings.Contains(c, "PAYLOAD") || strings.Contains(c, "REMAINING") {
							if n := len(x.Body.List); n > 0 {
								if r, ok := x.Body.List[n-1].(*ast.ReturnStmt); ok && len(r.Results) == 3 {
									fs.recvSplit = append(fs.recvSplit, pre+c+"=>"+cgRename(g.text(r.Results[2]), ren))
									return false
								}
							}
							fs.recvSplit = append(fs.recvSplit, pre+"if "+c)
						}
					case *ast.CallExpr:
						f := g.text(x.Fun)
						switch {
						case f == appendName && len(x.Args) == 1:
							fs.recvSplit = append(fs.recvSplit, pre+"decode-buffer "+cgRename(g.text(x.Args[0]), ren))
						case f == "make" && len(x.Args) == 2 && g.text(x.Args[0]) == "[]byte":
							fs.recvSplit = append(fs.recvSplit, pre+"payload "+cgRename(g.text(x.Args[1]), ren))
						}
					}
					return true
				})
			}
			walk(is.Body, "payloader: ")
			if is.Else != nil {
				if e, ok := is.Else.(*ast.IfStmt); ok {
					fs.recvSplit = append(fs.recvSplit, "other: if "+cgRename(g.text(e.Cond), ren))
					walk(e.Body, "other: ")
				} else {
					walk(is.Else, "other: ")
				}
			}
		}
	}
	return fs
}

// recvSlices evaluates recv's appendBuffer closure symbolically on the branch where the pooled buffer is kept.
// A value is a view of the pooled buffer ("len", "cap", "first") or "new" (make([]byte, size)); anything else is "?".
func (g *cg) recvSlices() (cmp, dec, rd string) {
	cmp, dec, rd = "?", "?", "?"
	fd, ok := g.recvFunc()
	if !ok {
		return
	}
	var fl *ast.FuncLit
	ast.Inspect(fd.Body, func(n ast.Node) bool {
		if x, ok := n.(*ast.FuncLit); ok && fl == nil && x.Type.Params != nil && len(x.Type.Params.List) == 1 && len(x.Type.Params.List[0].Names) == 1 {
			has := false
			ast.Inspect(x.Body, func(m ast.Node) bool {
				if c, ok := m.(*ast.CallExpr); ok && strings.HasSuffix(g.text(c.Fun), "dataPool.Get") {
					has = true
				}
				return true
			})
			if has {
				fl = x
			}
		}
		return true
	})
	if fl == nil {
		return
	}
	size := fl.Type.Params.List[0].Names[0].Name
	env := map[string]string{} // variable -> view; pointers to the pooled slice are "ptr"
	var eval func(e ast.Expr) string
	eval = func(e ast.Expr) string {
		switch x := e.(type) {
		case *ast.ParenExpr:
			return eval(x.X)
		case *ast.Ident:
			if v, ok := env[x.Name]; ok && v != "ptr" {
				return v
			}
		case *ast.StarExpr:
			if id, ok := x.X.(*ast.Ident); ok && env[id.Name] == "ptr" {
				return "len"
			}
		case *ast.SliceExpr:
			base := eval(x.X)
			if x.Low != nil || x.Slice3 || x.High == nil || base == "?" {
				return "?"
			}
			h := g.text(x.High)
			inner := x.X
			for {
				p, ok := inner.(*ast.ParenExpr)
				if !ok {
					break
				}
				inner = p.X
			}
			switch {
			case h == size && base == "new":
				return "new"
			case h == size:
				return "first"
			case h == "cap("+g.text(inner)+")" && base != "new":
				return "cap"
			case h == "len("+g.text(inner)+")":
				return base
			}
		case *ast.CallExpr:
			if g.text(x) == "make([]byte,"+size+")" {
				return "new"
			}
		}
		return "?"
	}
	bad := false
	var run func(stmts []ast.Stmt)
	run = func(stmts []ast.Stmt) {
		for _, st := range stmts {
			switch x := st.(type) {
			case *ast.AssignStmt:
				if len(x.Lhs) != 1 || len(x.Rhs) != 1 {
					bad = true
					continue
				}
				l, r := g.text(x.Lhs[0]), x.Rhs[0]
				rt := g.text(r)
				switch {
				case strings.HasSuffix(rt, "dataPool.Get().(*[]byte)"):
					env[l] = "ptr"
				case strings.HasPrefix(rt, "&"):
					// datap = &data on the growing branch only; on the kept branch the pointer must stay the pooled one
					bad = true
				case lastArg(r) != nil && rt == "append("+l+","+g.text(lastArg(r))+")":
					rd = eval(lastArg(r))
				default:
					if cl, ok := r.(*ast.CompositeLit); ok && g.text(cl.Type) == "buffer" && len(cl.Elts) == 1 {
						if kv, ok := cl.Elts[0].(*ast.KeyValueExpr); ok && g.text(kv.Key) == "data" {
							dec = eval(kv.Value)
							continue
						}
						bad = true
						continue
					}
					if _, isId := x.Lhs[0].(*ast.Ident); !isId {
						bad = true
						continue
					}
					env[l] = eval(r)
				}
			case *ast.IfStmt:
				// if size > len(X) { grow } [else { keep }]
				be, ok := x.Cond.(*ast.BinaryExpr)
				if !ok || x.Init != nil || be.Op != token.GTR || g.text(be.X) != size {
					bad = true
					continue
				}
				c, ok := be.Y.(*ast.CallExpr)
				if !ok || g.text(c.Fun) != "len" || len(c.Args) != 1 {
					bad = true
					continue
				}
				cmp = eval(c.Args[0])
				// growing branch: must make a buffer of exactly size
				grew := false
				for _, gs := range x.Body.List {
					if as, ok := gs.(*ast.AssignStmt); ok && len(as.Rhs) == 1 && g.text(as.Rhs[0]) == "make([]byte,"+size+")" {
						grew = true
					}
				}
				if !grew {
					bad = true
				}
				if x.Else != nil {
					if blk, ok := x.Else.(*ast.BlockStmt); ok {
						run(blk.List)
					} else {
						bad = true
					}
				}
			case *ast.ReturnStmt:
			default:
				bad = true
			}
		}
	}
	run(fl.Body.List)
	if bad {
		return "?", "?", "?"
	}
	return
}

func lastArg(e ast.Expr) ast.Expr {
	if c, ok := e.(*ast.CallExpr); ok && len(c.Args) == 2 {
		return c.Args[1]
	}
	return nil
}

// roEvents lists the read-buffer-pool events of a function in execution order.  Deferred calls are moved to the
// end of the function (or function literal) they belong to, LIFO.  The clauses of a switch are alternatives: the
// non-empty ones must agree.  An event under an if/for is conditional: "?".
func (g *cg) roEvents(fd *ast.FuncDecl) []string {
	if fd == nil || fd.Body == nil {
		return []string{"?"}
	}
	return g.roBlock(fd.Body, 0)
}

func (g *cg) roBlock(body ast.Node, depth int) []string {
	var evs, deferred []string
	if depth > 4 {
		return []string{"?"}
	}
	var visit func(n ast.Node) bool
	sub := func(n ast.Node) []string {
		if n == nil {
			return nil
		}
		save := evs
		evs = nil
		ast.Inspect(n, visit)
		out := evs
		evs = save
		return out
	}
	visit = func(n ast.Node) bool {
		switch x := n.(type) {
		case *ast.FuncLit:
			evs = append(evs, g.roBlock(x.Body, depth+1)...)
			return false
		case *ast.DeferStmt:
			deferred = append(sub(x.Call), deferred...)
			return false
		case *ast.GoStmt:
			if len(sub(x.Call)) > 0 {
				evs = append(evs, "?")
			}
			return false
		case *ast.SwitchStmt:
			evs = append(evs, sub(x.Init)...)
			evs = append(evs, sub(x.Tag)...)
			var alt []string
			for _, c := range x.Body.List {
				e := sub(c)
				if len(e) == 0 {
					continue
				}
				if alt == nil {
					alt = e
				} else if strings.Join(alt, ",") != strings.Join(e, ",") {
					alt = []string{"?"}
				}
			}
			evs = append(evs, alt...)
			return false
		case *ast.IfStmt:
			evs = append(evs, sub(x.Init)...)
			evs = append(evs, sub(x.Cond)...)
			if len(sub(x.Body)) > 0 || (x.Else != nil && len(sub(x.Else)) > 0) {
				evs = append(evs, "?")
			}
			return false
		case *ast.ForStmt:
			if len(sub(x.Init))+len(sub(x.Cond))+len(sub(x.Post))+len(sub(x.Body)) > 0 {
				evs = append(evs, "?")
			}
			return false
		case *ast.RangeStmt:
			if len(sub(x.X))+len(sub(x.Body)) > 0 {
				evs = append(evs, "?")
			}
			return false
		case *ast.CallExpr:
			f := g.text(x.Fun)
			switch {
			case strings.HasSuffix(f, ".readBufPool.Get"):
				evs = append(evs, "get")
			case strings.HasSuffix(f, ".readBufPool.Put"):
				evs = append(evs, "put")
			case strings.HasSuffix(f, ".file.ReadAt"):
				evs = append(evs, "read")
			case strings.HasSuffix(f, ".WriteTo") && len(x.Args) == 1:
				evs = append(evs, "send")
			case strings.HasSuffix(f, ".PayloadCleanup") && len(x.Args) == 0:
				if pc, ok := g.funcs["rreadServerPayloader.PayloadCleanup"]; ok && pc.Body != nil {
					evs = append(evs, g.roBlock(pc.Body, depth+1)...)
				} else {
					evs = append(evs, "?")
				}
				return false
			case f == "copy" && len(x.Args) == 2:
				dst, src := g.text(x.Args[0]), g.text(x.Args[1])
				switch {
				case strings.HasSuffix(src, ".pristineZeros") && strings.HasSuffix(dst, ".Data"):
					evs = append(evs, "zero")
				case strings.HasSuffix(src, ".pristineZeros"):
					evs = append(evs, "?")
				case strings.Contains(src, ".pendingXattr.buf"):
					evs = append(evs, "read")
				}
			}
		}
		return true
	}
	ast.Inspect(body, visit)
	return append(evs, deferred...)
}

func cgSortStrings(l []string) {
	for i := 1; i < len(l); i++ {
		for j := i; j > 0 && l[j] < l[j-1]; j-- {
			l[j], l[j-1] = l[j-1], l[j]
		}
	}
}

func init() { register(Generator{Name: "CodecGen", Run: genCodec}) }

func cgRecvName(fd *ast.FuncDecl) string {
	r, _ := cgRecvAndBuf(fd)
	return r
}

// factRecvBufferExact looks into recv's appendBuffer closure.
func (g *cg) factRecvBufferExact() bool {
	fd, ok := g.recvFunc()
	if !ok {
		return false
	}
	found := false
	ast.Inspect(fd.Body, func(n ast.Node) bool {
		fl, ok := n.(*ast.FuncLit)
		if !ok || fl.Type.Params == nil || len(fl.Type.Params.List) != 1 || len(fl.Type.Params.List[0].Names) != 1 {
			return true
		}
		size := fl.Type.Params.List[0].Names[0].Name
		var lit *ast.CompositeLit
		ast.Inspect(fl.Body, func(m ast.Node) bool {
			if as, ok := m.(*ast.AssignStmt); ok && len(as.Rhs) == 1 {
				if cl, ok := as.Rhs[0].(*ast.CompositeLit); ok && g.text(cl.Type) == "buffer" {
					lit = cl
				}
			}
			return true
		})
		if lit == nil || len(lit.Elts) != 1 {
			return true
		}
		kv, ok := lit.Elts[0].(*ast.KeyValueExpr)
		if !ok || g.text(kv.Key) != "data" {
			return true
		}
		d, ok := kv.Value.(*ast.Ident)
		if !ok {
			return true
		}
		// every assignment to d inside the closure must be one of the three allowed forms
		good, cnt := true, 0
		ast.Inspect(fl.Body, func(m ast.Node) bool {
			as, ok := m.(*ast.AssignStmt)
			if !ok || len(as.Lhs) != 1 || len(as.Rhs) != 1 || g.text(as.Lhs[0]) != d.Name {
				return true
			}
			cnt++
			r := g.text(as.Rhs[0])
			if !(strings.HasPrefix(r, "*") || r == "make([]byte,"+size+")" || r == d.Name+"[:"+size+"]") {
				good = false
			}
			return true
		})
		if good && cnt == 3 {
			found = true
		}
		return true
	})
	return found
}

// factRreadDataIsN: in tread.handle,  N, err = X.ReadAt(BUF[:C], ...)  and  &rreadServerPayloader{rread: rread{Data: BUF[:N]}, ..., fullBuffer: BUF}.
func (g *cg) factRreadDataIsN() bool {
	fd, ok := g.funcs["tread.handle"]
	if !ok {
		return false
	}
	var nName, bufName string
	ast.Inspect(fd.Body, func(m ast.Node) bool {
		as, ok := m.(*ast.AssignStmt)
		if !ok || len(as.Lhs) != 2 || len(as.Rhs) != 1 {
			return true
		}
		c, ok := as.Rhs[0].(*ast.CallExpr)
		if !ok || len(c.Args) != 2 {
			return true
		}
		sel, ok := c.Fun.(*ast.SelectorExpr)
		if !ok || sel.Sel.Name != "ReadAt" {
			return true
		}
		se, ok := c.Args[0].(*ast.SliceExpr)
		if !ok || se.Low != nil || se.High == nil || se.Slice3 {
			return true
		}
		nName, bufName = g.text(as.Lhs[0]), g.text(se.X)
		return true
	})
	if nName == "" {
		return false
	}
	okLit := false
	ast.Inspect(fd.Body, func(m ast.Node) bool {
		cl, ok := m.(*ast.CompositeLit)
		if !ok || g.text(cl.Type) != "rreadServerPayloader" {
			return true
		}
		data, full := false, false
		for _, e := range cl.Elts {
			kv, ok := e.(*ast.KeyValueExpr)
			if !ok {
				continue
			}
			switch g.text(kv.Key) {
			case "rread":
				if in, ok := kv.Value.(*ast.CompositeLit); ok && g.text(in.Type) == "rread" && len(in.Elts) == 1 {
					if ikv, ok := in.Elts[0].(*ast.KeyValueExpr); ok && g.text(ikv.Key) == "Data" && g.text(ikv.Value) == bufName+"[:"+nName+"]" {
						data = true
					}
				}
			case "fullBuffer":
				if g.text(kv.Value) == bufName {
					full = true
				}
			}
		}
		okLit = data && full
		return true
	})
	return okLit
}

// factCleanupZeroes: PayloadCleanup zeroes Data before the buffer goes back to the pool; zeros and pooled buffers have the same size.
func (g *cg) factCleanupZeroes() bool {
	fd, ok := g.funcs["rreadServerPayloader.PayloadCleanup"]
	if !ok || len(fd.Body.List) != 2 {
		return false
	}
	r := cgRecvName(fd)
	if g.text(fd.Body.List[0]) != "copy("+r+".Data,"+r+".cs.pristineZeros)" || g.text(fd.Body.List[1]) != r+".cs.readBufPool.Put(&"+r+".fullBuffer)" {
		return false
	}
	// tversion.handle: pooled buffers and pristineZeros are both make([]byte, msize)
	tv, ok := g.funcs["tversion.handle"]
	if !ok {
		return false
	}
	sizes := map[string]bool{}
	nmake := 0
	ast.Inspect(tv.Body, func(m ast.Node) bool {
		c, ok := m.(*ast.CallExpr)
		if ok && g.text(c.Fun) == "make" && len(c.Args) == 2 && g.text(c.Args[0]) == "[]byte" {
			sizes[g.text(c.Args[1])] = true
			nmake++
		}
		return true
	})
	return nmake == 2 && len(sizes) == 1
}

// recvFunc returns the function holding the receive path: recvFrame (recv's body since the size limit
// is asked for after the header has arrived; recv is then a one-line wrapper) or, on older trees, recv.
func (g *cg) recvFunc() (*ast.FuncDecl, bool) {
	if fd, ok := g.funcs["recvFrame"]; ok {
		return fd, true
	}
	fd, ok := g.funcs["recv"]
	return fd, ok
}
