package main

// FsGen: the source expressions that the hand models of C19/C20 (coq/Fsx) transcribe,
// rendered as text, plus two structural facts (the localfs Readdir rewinds before its
// loop; every access to Mapper.paths happens after m.mu.Lock() with a deferred Unlock).
// coq/Fsx/FsGenSpec.v compares them with the text the models were written from, so
// an edit of one of these expressions breaks an obligation of C19/C20 even when no
// generated input happens to expose it.

import (
	"bytes"
	"fmt"
	"go/ast"
	"go/printer"
	"go/token"
	"sort"
	"strings"
)

func fsRender(r *Repo, n ast.Node) string {
	var b bytes.Buffer
	printer.Fprint(&b, r.Fset, n)
	return strings.Join(strings.Fields(b.String()), " ")
}

// fsFuncIn finds a function in one named file of a directory (localfs has a unix and a windows variant).
func fsFuncIn(r *Repo, dir, file, name string) (*ast.FuncDecl, error) {
	files, err := r.Files(dir)
	if err != nil {
		return nil, err
	}
	f, ok := files[file]
	if !ok {
		return nil, fmt.Errorf("%s/%s: go2coq does not find the file", dir, file)
	}
	for _, d := range f.Decls {
		if fd, ok := d.(*ast.FuncDecl); ok && fd.Recv == nil && fd.Name.Name == name && fd.Body != nil {
			return fd, nil
		}
	}
	return nil, fmt.Errorf("%s/%s: go2coq does not find function %s", dir, file, name)
}

func fsFunc(r *Repo, dir, key string) (*ast.FuncDecl, error) {
	fds, err := r.FuncDecls(dir)
	if err != nil {
		return nil, err
	}
	fd, ok := fds[key]
	if !ok || fd.Body == nil {
		return nil, fmt.Errorf("%s: go2coq does not find function %s", dir, key)
	}
	return fd, nil
}

// fsDirentField finds the value given to field name in the (only) p9.Dirent composite literal below n.
func fsDirentField(r *Repo, n ast.Node, field string) (string, error) {
	var vals []string
	lits := 0
	ast.Inspect(n, func(x ast.Node) bool {
		cl, ok := x.(*ast.CompositeLit)
		if !ok {
			return true
		}
		if sel, ok := cl.Type.(*ast.SelectorExpr); !ok || sel.Sel.Name != "Dirent" {
			return true
		}
		lits++
		for _, e := range cl.Elts {
			if kv, ok := e.(*ast.KeyValueExpr); ok {
				if id, ok := kv.Key.(*ast.Ident); ok && id.Name == field {
					vals = append(vals, fsRender(r, kv.Value))
				}
			}
		}
		return true
	})
	if lits != 1 || len(vals) != 1 {
		return "", r.Refuse(n.Pos(), "expected one p9.Dirent literal with field %s (found %d literals, %d values)", field, lits, len(vals))
	}
	return vals[0], nil
}

func fsIsCall(x ast.Expr, recv, name string) bool {
	c, ok := x.(*ast.CallExpr)
	if !ok {
		return false
	}
	s, ok := c.Fun.(*ast.SelectorExpr)
	return ok && s.Sel.Name == name && strings.HasSuffix(fsExprText(s.X), recv)
}

func fsExprText(x ast.Expr) string {
	switch v := x.(type) {
	case *ast.Ident:
		return v.Name
	case *ast.SelectorExpr:
		return fsExprText(v.X) + "." + v.Sel.Name
	}
	return "?"
}

func genFs(r *Repo) (string, error) {
	var b strings.Builder
	b.WriteString("From Coq Require Import String List.\nImport ListNotations.\nOpen Scope string_scope.\n\n")
	def := func(name, val string) {
		fmt.Fprintf(&b, "Definition %s : string := %s.\n", name, CoqString(val))
	}
	defb := func(name string, v bool) {
		fmt.Fprintf(&b, "Definition %s : bool := %v.\n", name, v)
	}

	// ---- fsimpl/readdir.Readdir ----
	rd, err := fsFunc(r, "fsimpl/readdir", "Readdir")
	if err != nil {
		return "", err
	}
	b.WriteString("(* fsimpl/readdir/readdir.go Readdir *)\n")
	var guard, end, rng string
	for _, st := range rd.Body.List {
		switch s := st.(type) {
		case *ast.IfStmt:
			if guard == "" {
				guard = fsRender(r, s.Cond) + " => " + fsRender(r, s.Body)
			}
		case *ast.AssignStmt:
			if len(s.Lhs) == 1 && fsExprText(s.Lhs[0]) == "end" {
				end = fsRender(r, s.Rhs[0])
			}
		case *ast.RangeStmt:
			rng = fsRender(r, s.Key) + ", " + fsRender(r, s.Value) + " := range " + fsRender(r, s.X)
		}
	}
	if guard == "" || end == "" || rng == "" {
		return "", r.Refuse(rd.Pos(), "readdir.Readdir: guard / end / range statement not found")
	}
	def("fs_readdir_guard", guard)
	def("fs_readdir_end", end)
	def("fs_readdir_range", rng)
	for _, f := range []string{"QID", "Type", "Offset", "Name"} {
		v, err := fsDirentField(r, rd.Body, f)
		if err != nil {
			return "", err
		}
		def("fs_readdir_"+f, v)
	}

	// ---- localfs (*Local).Readdir ----
	lr, err := fsFunc(r, "fsimpl/localfs", "Local.Readdir")
	if err != nil {
		return "", err
	}
	b.WriteString("(* fsimpl/localfs/readdir.go Local.Readdir *)\n")
	rewinds := false
	var loop *ast.ForStmt
	for _, st := range lr.Body.List {
		if f, ok := st.(*ast.ForStmt); ok {
			loop = f
			break
		}
		ast.Inspect(st, func(x ast.Node) bool {
			if c, ok := x.(*ast.CallExpr); ok && fsIsCall(c, "l.file", "Seek") && len(c.Args) == 2 &&
				fsRender(r, c.Args[0]) == "0" && fsRender(r, c.Args[1]) == "io.SeekStart" {
				rewinds = true
			}
			return true
		})
	}
	if loop == nil || loop.Cond == nil || loop.Init != nil || loop.Post != nil {
		return "", r.Refuse(lr.Pos(), "Local.Readdir: expected `for cond { ... }`")
	}
	defb("fs_local_rewinds", rewinds)
	def("fs_local_loop_cond", fsRender(r, loop.Cond))
	// the statements of the loop body, in order, as a skeleton: read / EOF test / cursor++ / skip test / append
	var skel []string
	for _, st := range loop.Body.List {
		switch s := st.(type) {
		case *ast.AssignStmt:
			skel = append(skel, fsRender(r, s))
		case *ast.IncDecStmt:
			skel = append(skel, fsRender(r, s))
		case *ast.IfStmt:
			txt := "if " + fsRender(r, s.Cond)
			if len(s.Body.List) == 1 {
				txt += " { " + fsRender(r, s.Body.List[0]) + " }"
			} else {
				txt += " {...}"
			}
			if s.Else != nil {
				if ei, ok := s.Else.(*ast.IfStmt); ok {
					txt += " else if " + fsRender(r, ei.Cond)
				}
			}
			skel = append(skel, txt)
		default:
			return "", r.Refuse(st.Pos(), "Local.Readdir loop: statement kind %T", st)
		}
	}
	fmt.Fprintf(&b, "Definition fs_local_loop_body : list string := [\n")
	for i, s := range skel {
		sep := ";"
		if i == len(skel)-1 {
			sep = ""
		}
		fmt.Fprintf(&b, "  %s%s\n", CoqString(s), sep)
	}
	b.WriteString("].\n")
	for _, f := range []string{"QID", "Type", "Offset", "Name"} {
		v, err := fsDirentField(r, loop.Body, f)
		if err != nil {
			return "", err
		}
		def("fs_local_"+f, v)
	}

	// ---- p9 rreaddir.encode: the truncation test ----
	re, err := fsFunc(r, "p9", "rreaddir.encode")
	if err != nil {
		return "", err
	}
	b.WriteString("(* p9/messages.go rreaddir.encode *)\n")
	brk := ""
	ast.Inspect(re.Body, func(x ast.Node) bool {
		if s, ok := x.(*ast.IfStmt); ok && len(s.Body.List) == 1 {
			if br, ok := s.Body.List[0].(*ast.BranchStmt); ok && br.Tok == token.BREAK {
				brk = fsRender(r, s.Cond)
			}
		}
		return true
	})
	if brk == "" {
		return "", r.Refuse(re.Pos(), "rreaddir.encode: `if cond { break }` not found")
	}
	def("fs_rreaddir_break", brk)

	// ---- qids.go: Mapper.paths is only touched under m.mu ----
	b.WriteString("(* fsimpl/qids/qids.go *)\n")
	qfd, err := r.FuncDecls("fsimpl/qids")
	if err != nil {
		return "", err
	}
	var touching []string
	guarded := true
	var keys []string
	for k := range qfd {
		keys = append(keys, k)
	}
	sort.Strings(keys)
	for _, k := range keys {
		fd := qfd[k]
		if fd.Body == nil {
			continue
		}
		touches := false
		ast.Inspect(fd.Body, func(x ast.Node) bool {
			if s, ok := x.(*ast.SelectorExpr); ok && s.Sel.Name == "paths" {
				touches = true
			}
			return true
		})
		if !touches {
			continue
		}
		touching = append(touching, k)
		// first statement m.mu.Lock(), second defer m.mu.Unlock()
		ok := len(fd.Body.List) >= 2
		if ok {
			es, ok1 := fd.Body.List[0].(*ast.ExprStmt)
			ds, ok2 := fd.Body.List[1].(*ast.DeferStmt)
			ok = ok1 && ok2 && fsIsCall(es.X, "m.mu", "Lock") && fsIsCall(ds.Call, "m.mu", "Unlock")
		}
		if !ok {
			guarded = false
		}
	}
	defb("fs_mapper_paths_guarded", guarded)
	fmt.Fprintf(&b, "Definition fs_mapper_paths_users : list string := [%s].\n", fsQuoteList(touching))
	np, err := fsFunc(r, "fsimpl/qids", "PathGenerator.NewPath")
	if err != nil {
		return "", err
	}
	def("fs_newpath_body", fsRender(r, np.Body))
	qf, _ := fsFunc(r, "fsimpl/qids", "Mapper.QIDFor")
	var qstm []string
	for _, st := range qf.Body.List {
		switch s := st.(type) {
		case *ast.IfStmt:
			init := ""
			if s.Init != nil {
				init = fsRender(r, s.Init) + "; "
			}
			qstm = append(qstm, "if "+init+fsRender(r, s.Cond))
		case *ast.ReturnStmt:
			qstm = append(qstm, "return")
		default:
			qstm = append(qstm, fsRender(r, st))
		}
	}
	fmt.Fprintf(&b, "Definition fs_qidfor_body : list string := [%s].\n", fsQuoteList(qstm))

	// ---- localfs system_unix.go: encodeLikely, localToQid, init ----
	b.WriteString("(* fsimpl/localfs/system_unix.go *)\n")
	el, err := fsFuncIn(r, "fsimpl/localfs", "system_unix.go", "encodeLikely")
	if err != nil {
		return "", err
	}
	var est []string
	for _, st := range el.Body.List {
		switch s := st.(type) {
		case *ast.IfStmt:
			est = append(est, "if "+fsRender(r, s.Cond)+" "+fsRender(r, s.Body))
		default:
			est = append(est, fsRender(r, st))
		}
	}
	fmt.Fprintf(&b, "Definition fs_encodeLikely_body : list string := [%s].\n", fsQuoteList(est))
	no, err := fsFuncIn(r, "fsimpl/localfs", "system_unix.go", "nOnes")
	if err != nil {
		return "", err
	}
	def("fs_nOnes_body", fsRender(r, no.Body))
	lq, err := fsFuncIn(r, "fsimpl/localfs", "system_unix.go", "localToQid")
	if err != nil {
		return "", err
	}
	var lst []string
	for _, st := range lq.Body.List {
		switch s := st.(type) {
		case *ast.IfStmt:
			init := ""
			if s.Init != nil {
				init = fsRender(r, s.Init) + "; "
			}
			lst = append(lst, "if "+init+fsRender(r, s.Cond)+" "+fsRender(r, s.Body))
		default:
			lst = append(lst, fsRender(r, st))
		}
	}
	fmt.Fprintf(&b, "Definition fs_localToQid_body : list string := [%s].\n", fsQuoteList(lst))
	ini, err := fsFuncIn(r, "fsimpl/localfs", "system_unix.go", "init")
	if err != nil {
		return "", err
	}
	store := ""
	ast.Inspect(ini.Body, func(x ast.Node) bool {
		if c, ok := x.(*ast.CallExpr); ok && fsIsCall(c, "nextQid", "Store") {
			store = fsRender(r, c)
		}
		return true
	})
	def("fs_nextQid_init", store)
	return b.String(), nil
}

func fsQuoteList(xs []string) string {
	var q []string
	for _, x := range xs {
		q = append(q, CoqString(x))
	}
	return strings.Join(q, "; ")
}

func init() { register(Generator{Name: "FsGen", Run: genFs}) }
