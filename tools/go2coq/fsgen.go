package main

// FsGen19 / FsGen20: what the hand models of C19/C20 (coq/Fsx) transcribe from the source,
// extracted SEMANTICALLY:
//   * variables are identified by their ROLE (parameter position, "the variable that is
//     incremented in the loop", "the result of info()", "the value built from unix.Major") and
//     printed under a canonical role name, every other local under alpha.go's positional name:
//     renaming a local, parameter or receiver does not change the tables;
//   * comparisons are normalised to (smaller side, operator, larger side) with widening
//     conversions and parentheses removed; additive constants, shift amounts, mask widths and
//     mode bits are evaluated to numbers; structural facts are booleans (the localfs Readdir
//     rewinds unconditionally before its loop; the QID returned by info() reaches Readdir's
//     entry, Walk's result and GetAttr's result unmodified; every function touching Mapper.paths
//     is one m.mu.Lock() ... deferred Unlock section; the fallback table is keyed by a devino value);
//   * ModeFromOS / OSMode / QIDType are read as decision tables of numbers.
// Source text (alpha-normalised, go/printer, white space collapsed) remains only for the
// statement sequences of Mapper.QIDFor and localToQid, whose order is their content.
// coq/Fsx/FsGenSpec19.v and FsGenSpec20.v state the obligations.  Two generators, so that a
// refusal in one part leaves the other property's tables intact.

import (
	"fmt"
	"go/ast"
	"go/token"
	"math/big"
	"sort"
	"strings"
)

// ---------------------------------------------------------------- rendering

// fsCtx: the function being read, role names for some of its locals.
type fsCtx struct {
	r     *Repo
	fd    *ast.FuncDecl
	roles map[string]string // local name -> role name
	alpha map[string]string // local name -> positional name
}

func newFsCtx(r *Repo, fd *ast.FuncDecl) *fsCtx {
	return &fsCtx{r: r, fd: fd, roles: map[string]string{}, alpha: LocalNames(fd)}
}

func (c *fsCtx) name(id string) string {
	if v, ok := c.roles[id]; ok {
		return v
	}
	if v, ok := c.alpha[id]; ok {
		return v
	}
	return id
}

// params gives role names to receiver and parameters by position.
func (c *fsCtx) params(recv string, ps ...string) {
	if c.fd.Recv != nil && recv != "" {
		for _, f := range c.fd.Recv.List {
			for _, n := range f.Names {
				c.roles[n.Name] = recv
			}
		}
	}
	i := 0
	for _, f := range c.fd.Type.Params.List {
		for _, n := range f.Names {
			if i < len(ps) && n.Name != "_" {
				c.roles[n.Name] = ps[i]
			}
			i++
		}
	}
}

// conversions that cannot lose bits of the values they are applied to in this code (widening to
// the 64-bit types); narrowing ones (uint32(x), ...) change the value and are kept.
var fsConvTypes = map[string]bool{"int": true, "int64": true, "uint": true, "uint64": true}

func fsUnparen(x ast.Expr) ast.Expr {
	for {
		switch v := x.(type) {
		case *ast.ParenExpr:
			x = v.X
			continue
		case *ast.CallExpr:
			if id, ok := v.Fun.(*ast.Ident); ok && fsConvTypes[id.Name] && len(v.Args) == 1 {
				x = v.Args[0]
				continue
			}
		}
		return x
	}
}

// sem renders an expression canonically: widening conversions and parentheses dropped, binary
// expressions fully parenthesised, locals under role / positional names.
func (c *fsCtx) sem(x ast.Expr) string {
	switch v := x.(type) {
	case nil:
		return ""
	case *ast.Ident:
		return c.name(v.Name)
	case *ast.BasicLit:
		return v.Value
	case *ast.ParenExpr:
		return c.sem(v.X)
	case *ast.SelectorExpr:
		return c.sem(v.X) + "." + v.Sel.Name
	case *ast.StarExpr:
		return "*" + c.sem(v.X)
	case *ast.UnaryExpr:
		return v.Op.String() + c.sem(v.X)
	case *ast.BinaryExpr:
		return "(" + c.sem(v.X) + " " + v.Op.String() + " " + c.sem(v.Y) + ")"
	case *ast.IndexExpr:
		return c.sem(v.X) + "[" + c.sem(v.Index) + "]"
	case *ast.SliceExpr:
		return c.sem(v.X) + "[" + c.sem(v.Low) + ":" + c.sem(v.High) + "]"
	case *ast.TypeAssertExpr:
		return c.sem(v.X) + ".(" + c.sem(v.Type) + ")"
	case *ast.CompositeLit:
		var es []string
		for _, e := range v.Elts {
			if kv, ok := e.(*ast.KeyValueExpr); ok {
				es = append(es, fsText(kv.Key)+": "+c.sem(kv.Value))
			} else {
				es = append(es, c.sem(e))
			}
		}
		return c.sem(v.Type) + "{" + strings.Join(es, ", ") + "}"
	case *ast.CallExpr:
		if id, ok := v.Fun.(*ast.Ident); ok && fsConvTypes[id.Name] && len(v.Args) == 1 {
			return c.sem(v.Args[0])
		}
		var as []string
		for _, a := range v.Args {
			as = append(as, c.sem(a))
		}
		return c.sem(v.Fun) + "(" + strings.Join(as, ", ") + ")"
	}
	return strings.Join(strings.Fields(AlphaPrint(c.r.Fset, c.fd, x)), " ")
}

// text: a statement, alpha-normalised and white-space collapsed.
func (c *fsCtx) text(n ast.Node) string {
	return strings.Join(strings.Fields(AlphaPrint(c.r.Fset, c.fd, n)), " ")
}

// fsText: identifier / selector chain as written (for non-local names: fields, packages, callees).
func fsText(x ast.Expr) string {
	switch v := x.(type) {
	case *ast.Ident:
		return v.Name
	case *ast.SelectorExpr:
		return fsText(v.X) + "." + v.Sel.Name
	}
	return "?"
}

// fsFields: the selector path of x without its root identifier: l.file -> ".file", m.g.uids -> ".g.uids".
func fsFields(x ast.Expr) string {
	if s, ok := x.(*ast.SelectorExpr); ok {
		return fsFields(s.X) + "." + s.Sel.Name
	}
	return ""
}

// fsMethodCall: x is a call <root>.<fields>.<name>(...), whatever the root is called.
func fsMethodCall(x ast.Expr, fields, name string) (*ast.CallExpr, bool) {
	c, ok := x.(*ast.CallExpr)
	if !ok {
		return nil, false
	}
	s, ok := c.Fun.(*ast.SelectorExpr)
	if !ok || s.Sel.Name != name || fsFields(s.X) != fields {
		return nil, false
	}
	if _, isIdent := rootOf(s.X).(*ast.Ident); !isIdent {
		return nil, false
	}
	return c, true
}

func rootOf(x ast.Expr) ast.Expr {
	for {
		s, ok := x.(*ast.SelectorExpr)
		if !ok {
			return x
		}
		x = s.X
	}
}

// fsPkgCall: x is a call of the package-level function or method value written exactly `callee`.
func fsPkgCall(x ast.Expr, callee string) (*ast.CallExpr, bool) {
	c, ok := x.(*ast.CallExpr)
	if !ok || fsText(c.Fun) != callee {
		return nil, false
	}
	return c, true
}

// cmp normalises a comparison to (a, op, b) with op one of < <= == != :  a > b becomes b < a.
func (c *fsCtx) cmp(x ast.Expr) ([3]string, error) {
	b, ok := fsUnparen(x).(*ast.BinaryExpr)
	if !ok {
		return [3]string{}, c.r.Refuse(x.Pos(), "expected a comparison, found %s", c.text(x))
	}
	l, rr := c.sem(b.X), c.sem(b.Y)
	switch b.Op {
	case token.LSS, token.LEQ, token.EQL, token.NEQ:
		return [3]string{l, b.Op.String(), rr}, nil
	case token.GTR:
		return [3]string{rr, "<", l}, nil
	case token.GEQ:
		return [3]string{rr, "<=", l}, nil
	}
	return [3]string{}, c.r.Refuse(x.Pos(), "expected a comparison, found %s", c.text(x))
}

// sum flattens a chain of + into its non-literal terms (sorted) and the sum of its integer literals.
func (c *fsCtx) sum(e *constEnv, x ast.Expr) ([]string, string, error) {
	var terms []string
	total := new(big.Int)
	var walk func(x ast.Expr) error
	walk = func(x ast.Expr) error {
		x = fsUnparen(x)
		if b, ok := x.(*ast.BinaryExpr); ok && b.Op == token.ADD {
			if err := walk(b.X); err != nil {
				return err
			}
			return walk(b.Y)
		}
		if _, ok := x.(*ast.BasicLit); ok {
			n, _, ok := e.eval(x, 0)
			if !ok || n == nil {
				return c.r.Refuse(x.Pos(), "integer literal expected")
			}
			total.Add(total, n)
			return nil
		}
		terms = append(terms, c.sem(x))
		return nil
	}
	if err := walk(x); err != nil {
		return nil, "", err
	}
	sort.Strings(terms)
	return terms, total.String(), nil
}

func fsFuncIn(r *Repo, dir, file, name string) (*ast.FuncDecl, error) {
	files, err := r.Files(dir)
	if err != nil {
		return nil, err
	}
	f, ok := files[file]
	if !ok {
		return nil, fmt.Errorf("%s/%s: go2coq does not find the file", dir, file)
	}
	for _, d := range f.Decls {
		if fd, ok := d.(*ast.FuncDecl); ok && fd.Recv == nil && fd.Name.Name == name && fd.Body != nil {
			return fd, nil
		}
	}
	return nil, fmt.Errorf("%s/%s: go2coq does not find function %s", dir, file, name)
}

func fsFunc(r *Repo, dir, key string) (*ast.FuncDecl, error) {
	fds, err := r.FuncDecls(dir)
	if err != nil {
		return nil, err
	}
	fd, ok := fds[key]
	if !ok || fd.Body == nil {
		return nil, fmt.Errorf("%s: go2coq does not find function %s", dir, key)
	}
	return fd, nil
}

// fsDirent finds the (only) p9.Dirent composite literal below n and returns its fields.
func fsDirent(r *Repo, n ast.Node) (map[string]ast.Expr, error) {
	var found []*ast.CompositeLit
	ast.Inspect(n, func(x ast.Node) bool {
		if cl, ok := x.(*ast.CompositeLit); ok {
			if sel, ok := cl.Type.(*ast.SelectorExpr); ok && sel.Sel.Name == "Dirent" {
				found = append(found, cl)
			}
		}
		return true
	})
	if len(found) != 1 {
		return nil, r.Refuse(n.Pos(), "expected exactly one p9.Dirent literal, found %d", len(found))
	}
	m := map[string]ast.Expr{}
	for _, e := range found[0].Elts {
		kv, ok := e.(*ast.KeyValueExpr)
		if !ok {
			return nil, r.Refuse(e.Pos(), "p9.Dirent literal without field names")
		}
		m[fsText(kv.Key)] = kv.Value
	}
	for _, f := range []string{"QID", "Type", "Offset", "Name"} {
		if m[f] == nil {
			return nil, r.Refuse(found[0].Pos(), "p9.Dirent literal lacks %s", f)
		}
	}
	return m, nil
}

// fsDefOf: the right-hand side of the first `name := rhs` / `var name = rhs` in body.
func fsDefOf(body ast.Node, name string) ast.Expr {
	var rhs ast.Expr
	if name == "" {
		return nil
	}
	ast.Inspect(body, func(x ast.Node) bool {
		switch s := x.(type) {
		case *ast.AssignStmt:
			if s.Tok == token.DEFINE && len(s.Rhs) == 1 {
				for _, l := range s.Lhs {
					if fsText(l) == name && rhs == nil {
						rhs = s.Rhs[0]
					}
				}
			}
		case *ast.ValueSpec:
			for i, n := range s.Names {
				if n.Name == name && i < len(s.Values) && rhs == nil {
					rhs = s.Values[i]
				}
			}
		}
		return true
	})
	return rhs
}

// fsWrites counts the statements in body that change variable `name` or a part of it after its
// definition: assignments to it, to a field/element of it, ++/--, or taking its address.
func fsWrites(body ast.Node, name string) int {
	root := func(x ast.Expr) string {
		for {
			switch v := x.(type) {
			case *ast.SelectorExpr:
				x = v.X
			case *ast.IndexExpr:
				x = v.X
			case *ast.ParenExpr:
				x = v.X
			case *ast.StarExpr:
				x = v.X
			case *ast.Ident:
				return v.Name
			default:
				return ""
			}
		}
	}
	n := 0
	ast.Inspect(body, func(x ast.Node) bool {
		switch s := x.(type) {
		case *ast.AssignStmt:
			for _, l := range s.Lhs {
				if root(l) == name && !(s.Tok == token.DEFINE && fsText(l) == name) {
					n++
				}
			}
		case *ast.IncDecStmt:
			if root(s.X) == name {
				n++
			}
		case *ast.UnaryExpr:
			if s.Op == token.AND && root(s.X) == name {
				n++
			}
		}
		return true
	})
	return n
}

type fsOut struct {
	b strings.Builder
}

func (o *fsOut) header() {
	o.b.WriteString("From Coq Require Import String List NArith.\nImport ListNotations.\nOpen Scope string_scope.\n\n")
}
func (o *fsOut) comment(s string) {
	fmt.Fprintf(&o.b, "(* %s *)\n", strings.ReplaceAll(s, "*)", "* )"))
}
func (o *fsOut) str(name, val string) {
	fmt.Fprintf(&o.b, "Definition %s : string := %s.\n", name, CoqString(val))
}
func (o *fsOut) boolean(name string, v bool) {
	fmt.Fprintf(&o.b, "Definition %s : bool := %v.\n", name, v)
}
func (o *fsOut) num(name, v string) { fmt.Fprintf(&o.b, "Definition %s : N := %s%%N.\n", name, v) }
func (o *fsOut) strs(name string, v []string) {
	var q []string
	for _, x := range v {
		q = append(q, CoqString(x))
	}
	fmt.Fprintf(&o.b, "Definition %s : list string := [%s].\n", name, strings.Join(q, "; "))
}
func (o *fsOut) cmp(name string, c [3]string) {
	fmt.Fprintf(&o.b, "Definition %s : string * string * string := (%s, %s, %s).\n", name, CoqString(c[0]), CoqString(c[1]), CoqString(c[2]))
}
func (o *fsOut) pairs(name string, ps [][2]string) {
	var q []string
	for _, p := range ps {
		q = append(q, fmt.Sprintf("(%s%%N, %s%%N)", p[0], p[1]))
	}
	fmt.Fprintf(&o.b, "Definition %s : list (N * N) := [%s].\n", name, strings.Join(q, "; "))
}

func fsEvalNum(r *Repo, e *constEnv, x ast.Expr) (string, error) {
	n, _, ok := e.eval(x, 0)
	if !ok || n == nil {
		return "", r.Refuse(x.Pos(), "cannot evaluate to a number")
	}
	return n.String(), nil
}

// ================================================================ FsGen19

func genFs19(r *Repo) (string, error) {
	o := &fsOut{}
	o.header()

	// ---------------- fsimpl/readdir.Readdir(offset, count, names, qids) ----------------
	rd, err := fsFunc(r, "fsimpl/readdir", "Readdir")
	if err != nil {
		return "", err
	}
	renv, _, err := collectConsts(r, "fsimpl/readdir")
	if err != nil {
		return "", err
	}
	c := newFsCtx(r, rd)
	c.params("", "offset", "count", "names", "qids")
	o.comment("fsimpl/readdir/readdir.go Readdir; parameters by position: offset, count, names, qids; i, name = the range variables")
	var rng *ast.RangeStmt
	var guard *ast.IfStmt
	for _, st := range rd.Body.List {
		switch s := st.(type) {
		case *ast.IfStmt:
			if guard == nil {
				guard = s
			}
		case *ast.RangeStmt:
			rng = s
		}
	}
	if rng == nil || guard == nil {
		return "", r.Refuse(rd.Pos(), "readdir.Readdir: guard / range statement not found")
	}
	if id, ok := rng.Key.(*ast.Ident); ok {
		c.roles[id.Name] = "i"
	}
	if id, ok := rng.Value.(*ast.Ident); ok {
		c.roles[id.Name] = "name"
	}
	sl, ok := fsUnparen(rng.X).(*ast.SliceExpr)
	if !ok || sl.Low == nil || sl.High == nil {
		return "", r.Refuse(rng.Pos(), "readdir.Readdir: expected `range names[lo:hi]`")
	}
	hi := sl.High
	if id, ok := hi.(*ast.Ident); ok { // the upper bound: inline its definition
		if d := fsDefOf(rd.Body, id.Name); d != nil {
			hi = d
		}
	}
	g, err := c.cmp(guard.Cond)
	if err != nil {
		return "", err
	}
	o.cmp("fs_readdir_guard", g)
	empty := false
	if len(guard.Body.List) == 1 {
		if ret, ok := guard.Body.List[0].(*ast.ReturnStmt); ok && len(ret.Results) == 2 &&
			fsText(ret.Results[0]) == "nil" && fsText(ret.Results[1]) == "nil" {
			empty = true
		}
	}
	o.boolean("fs_readdir_guard_returns_empty", empty)
	o.str("fs_readdir_range_of", c.sem(sl.X))
	o.str("fs_readdir_range_low", c.sem(sl.Low))
	o.str("fs_readdir_range_high", c.sem(hi))
	de, err := fsDirent(r, rng.Body)
	if err != nil {
		return "", err
	}
	terms, k, err := c.sum(renv, de["Offset"])
	if err != nil {
		return "", err
	}
	o.strs("fs_readdir_Offset_terms", terms)
	o.num("fs_readdir_Offset_const", k)
	o.str("fs_readdir_QID", c.sem(de["QID"]))
	o.str("fs_readdir_Type", c.sem(de["Type"]))
	o.str("fs_readdir_Name", c.sem(de["Name"]))
	o.boolean("fs_readdir_body_only_appends", len(rng.Body.List) == 1)

	// ---------------- localfs (*Local).Readdir(offset, count) ----------------
	lr, err := fsFunc(r, "fsimpl/localfs", "Local.Readdir")
	if err != nil {
		return "", err
	}
	lenv, _, err := collectConsts(r, "fsimpl/localfs")
	if err != nil {
		return "", err
	}
	c = newFsCtx(r, lr)
	c.params("l", "offset", "count")
	o.comment("fsimpl/localfs/readdir.go Local.Readdir; receiver l, parameters offset, count; cursor = the variable the loop increments; ents = the slice whose length the loop tests; read = the Readdirnames result; qid = result of info(); name = the Dirent's Name")
	var loop *ast.ForStmt
	loopIdx := -1
	for i, st := range lr.Body.List {
		if f, ok := st.(*ast.ForStmt); ok {
			loop, loopIdx = f, i
			break
		}
	}
	if loop == nil || loop.Cond == nil || loop.Init != nil || loop.Post != nil {
		return "", r.Refuse(lr.Pos(), "Local.Readdir: expected `for cond { ... }`")
	}
	cursor := ""
	ast.Inspect(loop.Body, func(x ast.Node) bool {
		if s, ok := x.(*ast.IncDecStmt); ok && s.Tok == token.INC && cursor == "" {
			cursor = fsText(s.X)
		}
		return true
	})
	if cursor != "" {
		c.roles[cursor] = "cursor"
	}
	de, err = fsDirent(r, loop.Body)
	if err != nil {
		return "", err
	}
	readVar, qidVar, nameVar, infoOn := "", "", "", ""
	for _, st := range loop.Body.List {
		as, ok := st.(*ast.AssignStmt)
		if !ok || len(as.Rhs) != 1 {
			continue
		}
		if _, ok := fsMethodCall(as.Rhs[0], ".file", "Readdirnames"); ok {
			readVar = fsText(as.Lhs[0])
		}
		if call, ok := as.Rhs[0].(*ast.CallExpr); ok {
			if s, ok := call.Fun.(*ast.SelectorExpr); ok && s.Sel.Name == "info" && len(call.Args) == 0 {
				qidVar, infoOn = fsText(as.Lhs[0]), fsText(s.X)
			}
		}
	}
	ast.Inspect(loop.Body, func(x ast.Node) bool { // err = what is compared with io.EOF
		if b, ok := x.(*ast.BinaryExpr); ok && fsText(b.Y) == "io.EOF" {
			if id, ok := b.X.(*ast.Ident); ok {
				c.roles[id.Name] = "err"
			}
		}
		return true
	})
	if readVar != "" {
		c.roles[readVar] = "read"
	}
	if qidVar != "" {
		c.roles[qidVar] = "qid"
	}
	if id, ok := fsUnparen(de["Name"]).(*ast.Ident); ok {
		nameVar = id.Name
		c.roles[nameVar] = "name"
	}
	if be, ok := fsUnparen(loop.Cond).(*ast.BinaryExpr); ok {
		for _, side := range []ast.Expr{be.X, be.Y} {
			if call, ok := fsUnparen(side).(*ast.CallExpr); ok && fsText(call.Fun) == "len" && len(call.Args) == 1 {
				c.roles[fsText(call.Args[0])] = "ents"
			}
		}
	}
	// rewind: an unconditional statement before the loop calling <recv>.file.Seek(0, io.SeekStart)
	rewinds := false
	for _, st := range lr.Body.List[:loopIdx] {
		var top ast.Node = st
		if is, ok := st.(*ast.IfStmt); ok {
			top = nil // a Seek under a condition does not count ...
			if is.Init != nil {
				top = is.Init // ... but `if _, err := l.file.Seek(...); err != nil`: the init always runs
			}
		}
		if top == nil {
			continue
		}
		ast.Inspect(top, func(x ast.Node) bool {
			if e, ok := x.(ast.Expr); ok {
				if call, ok := fsMethodCall(e, ".file", "Seek"); ok && len(call.Args) == 2 &&
					c.sem(call.Args[0]) == "0" && c.sem(call.Args[1]) == "io.SeekStart" {
					rewinds = true
				}
			}
			return true
		})
	}
	o.boolean("fs_local_rewinds", rewinds)
	ci := "?"
	if cursor != "" {
		if d := fsDefOf(lr.Body, cursor); d != nil {
			if v, err := fsEvalNum(r, lenv, d); err == nil {
				ci = v
			}
		}
		o.num("fs_local_cursor_writes", fmt.Sprint(fsWrites(lr.Body, cursor))) // only the one increment
	} else {
		o.num("fs_local_cursor_writes", "0")
	}
	o.str("fs_local_cursor_init", ci)
	lc, err := c.cmp(loop.Cond)
	if err != nil {
		return "", err
	}
	o.cmp("fs_local_loop_cond", lc)
	var events []string
	skipSeen := false
	for _, st := range loop.Body.List {
		switch s := st.(type) {
		case *ast.AssignStmt:
			if len(s.Rhs) == 1 {
				if call, ok := fsMethodCall(s.Rhs[0], ".file", "Readdirnames"); ok {
					events = append(events, "read "+c.sem(call.Args[0]))
					continue
				}
				if call, ok := s.Rhs[0].(*ast.CallExpr); ok && fsText(call.Fun) == "append" {
					if _, err := fsDirent(r, s); err == nil {
						events = append(events, "append entry to "+c.sem(call.Args[0]))
						continue
					}
				}
				if nameVar != "" && fsText(s.Lhs[0]) == nameVar {
					events = append(events, "name := "+c.sem(s.Rhs[0]))
					continue
				}
				if qidVar != "" && fsText(s.Lhs[0]) == qidVar {
					events = append(events, "qid := info of "+c.sem(fsDefOf(loop.Body, infoOn)))
					continue
				}
				if infoOn != "" && fsText(s.Lhs[0]) == infoOn {
					continue // the Local value info() is called on: reported with the qid event
				}
			}
			return "", r.Refuse(st.Pos(), "Local.Readdir loop: %s", c.text(s))
		case *ast.IncDecStmt:
			events = append(events, c.sem(s.X)+s.Tok.String())
		case *ast.IfStmt:
			if len(s.Body.List) == 1 && s.Init == nil {
				if br, ok := s.Body.List[0].(*ast.BranchStmt); ok && br.Tok == token.CONTINUE && s.Else == nil {
					k, err := c.cmp(s.Cond)
					if err != nil { // not a plain comparison: report it as written; the obligation then fails (no refusal)
						k = [3]string{c.sem(s.Cond), "?", ""}
					}
					if !skipSeen {
						o.cmp("fs_local_skip", k)
						skipSeen = true
					}
					events = append(events, "skip")
					continue
				}
				if ret, ok := s.Body.List[0].(*ast.ReturnStmt); ok && len(ret.Results) == 2 {
					events = append(events, "if "+c.sem(s.Cond)+" return "+c.sem(ret.Results[0])+", "+c.sem(ret.Results[1]))
					continue
				}
			}
			return "", r.Refuse(st.Pos(), "Local.Readdir loop: %s", c.text(s))
		default:
			return "", r.Refuse(st.Pos(), "Local.Readdir loop: statement kind %T", st)
		}
	}
	if !skipSeen {
		o.cmp("fs_local_skip", [3]string{"", "none", ""})
	}
	o.strs("fs_local_loop_events", events)
	o.str("fs_local_QID", c.sem(de["QID"]))
	o.str("fs_local_Type", c.sem(de["Type"]))
	o.str("fs_local_Offset", c.sem(de["Offset"]))
	o.str("fs_local_Name", c.sem(de["Name"]))
	if qidVar != "" {
		o.num("fs_local_readdir_qid_writes", fmt.Sprint(fsWrites(loop.Body, qidVar)))
	} else {
		o.num("fs_local_readdir_qid_writes", "99")
	}

	// ---------------- localfs info / Walk / GetAttr: the QID of info() reaches the caller unmodified ----------------
	inf, err := fsFunc(r, "fsimpl/localfs", "Local.info")
	if err != nil {
		return "", err
	}
	c = newFsCtx(r, inf)
	c.params("l")
	o.comment("fsimpl/localfs/localfs.go Local.info / Walk / GetAttr; qid = the QID info() builds, fi = the FileInfo whose Mode() it uses")
	var typeRhs, pathRhs ast.Expr
	var stats []string
	qv := ""
	ast.Inspect(inf.Body, func(x ast.Node) bool {
		as, ok := x.(*ast.AssignStmt)
		if !ok || len(as.Rhs) != 1 {
			return true
		}
		for _, l := range as.Lhs {
			if s, ok := l.(*ast.SelectorExpr); ok {
				switch s.Sel.Name {
				case "Type":
					typeRhs, qv = as.Rhs[0], fsText(s.X)
				case "Path":
					pathRhs = as.Rhs[0]
				}
			}
		}
		return true
	})
	if typeRhs == nil || pathRhs == nil {
		return "", r.Refuse(inf.Pos(), "Local.info: assignments to qid.Type / qid.Path not found")
	}
	c.roles[qv] = "qid"
	ast.Inspect(typeRhs, func(x ast.Node) bool {
		if call, ok := x.(*ast.CallExpr); ok {
			if s, ok := call.Fun.(*ast.SelectorExpr); ok && s.Sel.Name == "Mode" {
				c.roles[fsText(s.X)] = "fi"
			}
		}
		return true
	})
	ast.Inspect(inf.Body, func(x ast.Node) bool {
		as, ok := x.(*ast.AssignStmt)
		if !ok || len(as.Rhs) != 1 {
			return true
		}
		if _, ok := fsMethodCall(as.Rhs[0], ".file", "Stat"); ok {
			stats = append(stats, "l.file.Stat()")
		}
		for _, fn := range []string{"os.Lstat", "os.Stat"} {
			if call, ok := fsPkgCall(as.Rhs[0], fn); ok {
				stats = append(stats, fn+"("+c.sem(call.Args[0])+")")
			}
		}
		return true
	})
	if id, ok := pathRhs.(*ast.Ident); ok { // ninePath, err := localToQid(l.path, fi)
		if d := fsDefOf(inf.Body, id.Name); d != nil {
			pathRhs = d
		}
	}
	o.str("fs_info_type", c.sem(typeRhs))
	o.str("fs_info_path", c.sem(pathRhs))
	sort.Strings(stats)
	o.strs("fs_info_stat_calls", stats)
	o.num("fs_info_qid_writes", fmt.Sprint(fsWrites(inf.Body, qv))) // exactly the two field assignments

	wk, err := fsFunc(r, "fsimpl/localfs", "Local.Walk")
	if err != nil {
		return "", err
	}
	c = newFsCtx(r, wk)
	c.params("l", "names")
	wq, wOn := "", ""
	var wAppend []string
	ast.Inspect(wk.Body, func(x ast.Node) bool {
		switch s := x.(type) {
		case *ast.RangeStmt:
			if id, ok := s.Value.(*ast.Ident); ok {
				c.roles[id.Name] = "name"
			}
		case *ast.AssignStmt:
			if len(s.Rhs) != 1 {
				return true
			}
			if call, ok := s.Rhs[0].(*ast.CallExpr); ok {
				if sel, ok := call.Fun.(*ast.SelectorExpr); ok && sel.Sel.Name == "info" {
					wq, wOn = fsText(s.Lhs[0]), fsText(sel.X)
				}
				if fsText(call.Fun) == "append" && len(call.Args) == 2 {
					wAppend = append(wAppend, fsText(call.Args[1]))
				}
			}
		}
		return true
	})
	o.boolean("fs_walk_qid_is_info_unmodified", wq != "" && len(wAppend) == 1 && wAppend[0] == wq && fsWrites(wk.Body, wq) == 0)
	// what info() is called on: &Local{path: path.Join(<walked so far>.path, name)}; the walked-so-far variable keeps its positional name
	won := fsDefOf(wk.Body, wOn)
	if won == nil {
		return "", r.Refuse(wk.Pos(), "Local.Walk: the value info() is called on is not defined in the function")
	}
	ast.Inspect(won, func(x ast.Node) bool { // last = the variable whose .path the name is joined to
		if call, ok := x.(*ast.CallExpr); ok && fsText(call.Fun) == "path.Join" && len(call.Args) == 2 {
			if id, ok := rootOf(call.Args[0]).(*ast.Ident); ok {
				c.roles[id.Name] = "last"
			}
		}
		return true
	})
	o.str("fs_walk_info_on", c.sem(won))

	ga, err := fsFunc(r, "fsimpl/localfs", "Local.GetAttr")
	if err != nil {
		return "", err
	}
	c = newFsCtx(r, ga)
	c.params("l", "req")
	gq, gOn := "", ""
	ast.Inspect(ga.Body, func(x ast.Node) bool {
		if as, ok := x.(*ast.AssignStmt); ok && len(as.Rhs) == 1 {
			if call, ok := as.Rhs[0].(*ast.CallExpr); ok {
				if s, ok := call.Fun.(*ast.SelectorExpr); ok && s.Sel.Name == "info" {
					gq, gOn = fsText(as.Lhs[0]), c.sem(s.X)
				}
			}
		}
		return true
	})
	getOK := gq != "" && gOn == "l" && fsWrites(ga.Body, gq) == 0
	nret := 0
	ast.Inspect(ga.Body, func(x ast.Node) bool {
		if ret, ok := x.(*ast.ReturnStmt); ok && len(ret.Results) == 4 {
			nret++
			if fsText(ret.Results[0]) != gq {
				getOK = false
			}
		}
		return true
	})
	o.boolean("fs_getattr_qid_is_info_unmodified", getOK && nret >= 1)
	attrMode := ""
	ast.Inspect(ga.Body, func(x ast.Node) bool {
		if kv, ok := x.(*ast.KeyValueExpr); ok && fsText(kv.Key) == "Mode" {
			if call, ok := kv.Value.(*ast.CallExpr); ok && len(call.Args) == 1 {
				attrMode = fsText(call.Fun) + "(<stat>" + fsFields(call.Args[0]) + ")"
			}
		}
		return true
	})
	o.str("fs_getattr_attr_mode", attrMode)

	// ---------------- p9 rreaddir.encode: the truncation ----------------
	re, err := fsFunc(r, "p9", "rreaddir.encode")
	if err != nil {
		return "", err
	}
	c = newFsCtx(r, re)
	c.params("r", "b")
	o.comment("p9/messages.go rreaddir.encode; receiver r; scratch = the buffer every entry is encoded into, size = the payload size kept")
	var erng *ast.RangeStmt
	for _, st := range re.Body.List {
		if s, ok := st.(*ast.RangeStmt); ok {
			erng = s
		}
	}
	if erng == nil {
		return "", r.Refuse(re.Pos(), "rreaddir.encode: range over the entries not found")
	}
	var ev []string
	for _, st := range erng.Body.List {
		switch s := st.(type) {
		case *ast.ExprStmt:
			if call, ok := s.X.(*ast.CallExpr); ok {
				if sel, ok := call.Fun.(*ast.SelectorExpr); ok && sel.Sel.Name == "encode" && len(call.Args) == 1 {
					if u, ok := call.Args[0].(*ast.UnaryExpr); ok && u.Op == token.AND {
						c.roles[fsText(u.X)] = "scratch"
					}
					ev = append(ev, "encode entry into scratch")
					continue
				}
			}
			return "", r.Refuse(st.Pos(), "rreaddir.encode loop: %s", c.text(s))
		case *ast.IfStmt:
			if len(s.Body.List) == 1 {
				if br, ok := s.Body.List[0].(*ast.BranchStmt); ok && br.Tok == token.BREAK {
					k, err := c.cmp(s.Cond)
					if err != nil {
						return "", err
					}
					o.cmp("fs_rreaddir_break", k)
					ev = append(ev, "break-test")
					continue
				}
			}
			return "", r.Refuse(st.Pos(), "rreaddir.encode loop: %s", c.text(s))
		case *ast.AssignStmt:
			if len(s.Lhs) == 1 && len(s.Rhs) == 1 && s.Tok == token.ASSIGN {
				c.roles[fsText(s.Lhs[0])] = "size"
				ev = append(ev, "size = "+c.sem(s.Rhs[0]))
				continue
			}
			return "", r.Refuse(st.Pos(), "rreaddir.encode loop: %s", c.text(s))
		default:
			return "", r.Refuse(st.Pos(), "rreaddir.encode loop: statement kind %T", st)
		}
	}
	o.strs("fs_rreaddir_loop", ev)
	var after []string
	seen := false
	for _, st := range re.Body.List {
		if st == ast.Stmt(erng) {
			seen = true
			continue
		}
		if !seen {
			continue
		}
		if as, ok := st.(*ast.AssignStmt); ok && len(as.Lhs) == 1 && len(as.Rhs) == 1 {
			after = append(after, c.sem(as.Lhs[0])+" = "+c.sem(stripConv(as.Rhs[0])))
		} else if es, ok := st.(*ast.ExprStmt); ok {
			after = append(after, c.sem(es.X))
		} else {
			after = append(after, c.text(st))
		}
	}
	o.strs("fs_rreaddir_after", after)
	return o.b.String(), nil
}

// ================================================================ FsGen20

// io/fs FileMode bits (Go standard library, fixed by the Go 1 compatibility promise)
var fsOsMode = map[string]uint64{
	"os.ModeDir": 1 << 31, "os.ModeAppend": 1 << 30, "os.ModeExclusive": 1 << 29, "os.ModeTemporary": 1 << 28,
	"os.ModeSymlink": 1 << 27, "os.ModeDevice": 1 << 26, "os.ModeNamedPipe": 1 << 25, "os.ModeSocket": 1 << 24,
	"os.ModeSetuid": 1 << 23, "os.ModeSetgid": 1 << 22, "os.ModeCharDevice": 1 << 21, "os.ModeSticky": 1 << 20,
	"os.ModeIrregular": 1 << 19, "os.ModePerm": 0o777,
}

// fsOsBits evaluates an |-combination of os.Mode* constants.
func fsOsBits(r *Repo, x ast.Expr) (uint64, error) {
	x = fsUnparen(x)
	if b, ok := x.(*ast.BinaryExpr); ok && b.Op == token.OR {
		l, err := fsOsBits(r, b.X)
		if err != nil {
			return 0, err
		}
		rr, err := fsOsBits(r, b.Y)
		return l | rr, err
	}
	if v, ok := fsOsMode[fsText(x)]; ok {
		return v, nil
	}
	return 0, r.Refuse(x.Pos(), "expected os.Mode* constants")
}

// fsOsTest: `v.IsDir()` or `v&os.ModeX != 0` on the local v: the tested os bits.
func fsOsTest(r *Repo, x ast.Expr, v string) (uint64, error) {
	x = fsUnparen(x)
	if call, ok := x.(*ast.CallExpr); ok {
		if s, ok := call.Fun.(*ast.SelectorExpr); ok && fsText(s.X) == v && s.Sel.Name == "IsDir" {
			return fsOsMode["os.ModeDir"], nil
		}
	}
	if b, ok := x.(*ast.BinaryExpr); ok && b.Op == token.NEQ {
		if lit, ok := fsUnparen(b.Y).(*ast.BasicLit); ok && lit.Value == "0" {
			if a, ok := fsUnparen(b.X).(*ast.BinaryExpr); ok && a.Op == token.AND && fsText(fsUnparen(a.X)) == v {
				return fsOsBits(r, a.Y)
			}
		}
	}
	return 0, r.Refuse(x.Pos(), "expected %s.IsDir() or %s&os.ModeX != 0", v, v)
}

// fsOrAssigned: the statement list is exactly `v |= E`; returns E.
func fsOrAssigned(body []ast.Stmt, v string) ast.Expr {
	if len(body) != 1 {
		return nil
	}
	as, ok := body[0].(*ast.AssignStmt)
	if !ok || as.Tok != token.OR_ASSIGN || len(as.Lhs) != 1 || fsText(as.Lhs[0]) != v {
		return nil
	}
	return as.Rhs[0]
}

// fsP9Preds: FileMode predicate methods `func (m FileMode) IsX() bool { return m&FileModeMask == ModeX }` -> value of ModeX.
func fsP9Preds(r *Repo, env *constEnv) (map[string]string, error) {
	fds, err := r.FuncDecls("p9")
	if err != nil {
		return nil, err
	}
	out := map[string]string{}
	for k, fd := range fds {
		if !strings.HasPrefix(k, "FileMode.Is") || fd.Body == nil || len(fd.Body.List) != 1 {
			continue
		}
		ret, ok := fd.Body.List[0].(*ast.ReturnStmt)
		if !ok || len(ret.Results) != 1 {
			continue
		}
		b, ok := fsUnparen(ret.Results[0]).(*ast.BinaryExpr)
		if !ok || b.Op != token.EQL {
			continue
		}
		a, ok := fsUnparen(b.X).(*ast.BinaryExpr)
		if !ok || a.Op != token.AND || fsText(a.Y) != "FileModeMask" {
			continue
		}
		if v, err := fsEvalNum(r, env, b.Y); err == nil {
			out[strings.TrimPrefix(k, "FileMode.")] = v
		}
	}
	return out, nil
}

// stripConv removes one FileMode(x) / os.FileMode(x) / uint32(len) style conversion used in the mode functions.
func stripConv(x ast.Expr) ast.Expr {
	x = fsUnparen(x)
	if call, ok := x.(*ast.CallExpr); ok && len(call.Args) == 1 {
		switch fsText(call.Fun) {
		case "FileMode", "os.FileMode", "uint32":
			return call.Args[0]
		}
	}
	return x
}

func genFs20(r *Repo) (string, error) {
	o := &fsOut{}
	o.header()
	lenv, _, err := collectConsts(r, "fsimpl/localfs")
	if err != nil {
		return "", err
	}

	// ---------------- qids.go ----------------
	o.comment("fsimpl/qids/qids.go")
	qfd, err := r.FuncDecls("fsimpl/qids")
	if err != nil {
		return "", err
	}
	qenv, _, err := collectConsts(r, "fsimpl/qids")
	if err != nil {
		return "", err
	}
	var touching []string
	guarded := true
	var keys []string
	for k := range qfd {
		keys = append(keys, k)
	}
	sort.Strings(keys)
	for _, k := range keys {
		fd := qfd[k]
		if fd.Body == nil {
			continue
		}
		touches := false
		ast.Inspect(fd.Body, func(x ast.Node) bool {
			if s, ok := x.(*ast.SelectorExpr); ok && s.Sel.Name == "paths" {
				touches = true
			}
			return true
		})
		if !touches {
			continue
		}
		touching = append(touching, k)
		ok := len(fd.Body.List) >= 2
		if ok {
			es, ok1 := fd.Body.List[0].(*ast.ExprStmt)
			ds, ok2 := fd.Body.List[1].(*ast.DeferStmt)
			ok = ok1 && ok2
			if ok {
				_, a := fsMethodCall(es.X, ".mu", "Lock")
				_, b := fsMethodCall(ds.Call, ".mu", "Unlock")
				ok = a && b
			}
		}
		if ok { // no further Lock/Unlock inside: the critical section is the whole body
			n := 0
			ast.Inspect(fd.Body, func(x ast.Node) bool {
				if e, isE := x.(ast.Expr); isE {
					if _, a := fsMethodCall(e, ".mu", "Lock"); a {
						n++
					}
					if _, b := fsMethodCall(e, ".mu", "Unlock"); b {
						n++
					}
				}
				return true
			})
			ok = n == 2
		}
		if !ok {
			guarded = false
		}
	}
	o.boolean("fs_mapper_paths_guarded", guarded)
	o.strs("fs_mapper_paths_users", touching)
	np, err := fsFunc(r, "fsimpl/qids", "PathGenerator.NewPath")
	if err != nil {
		return "", err
	}
	delta := ""
	if len(np.Body.List) == 1 {
		if ret, ok := np.Body.List[0].(*ast.ReturnStmt); ok && len(ret.Results) == 1 {
			if call, ok := fsPkgCall(ret.Results[0], "atomic.AddUint64"); ok && len(call.Args) == 2 {
				if u, ok := call.Args[0].(*ast.UnaryExpr); ok && u.Op == token.AND && fsFields(u.X) == ".uids" {
					if v, err := fsEvalNum(r, qenv, call.Args[1]); err == nil {
						delta = v
					}
				}
			}
		}
	}
	if delta == "" {
		return "", r.Refuse(np.Pos(), "NewPath: expected `return atomic.AddUint64(&g.uids, K)`")
	}
	o.num("fs_newpath_delta", delta)
	qf, err := fsFunc(r, "fsimpl/qids", "Mapper.QIDFor")
	if err != nil {
		return "", err
	}
	c := newFsCtx(r, qf)
	var qstm []string
	for _, st := range qf.Body.List {
		switch s := st.(type) {
		case *ast.IfStmt:
			init := ""
			if s.Init != nil {
				init = c.text(s.Init) + "; "
			}
			qstm = append(qstm, "if "+init+c.text(s.Cond)+" { return hit }")
		case *ast.ReturnStmt:
			qstm = append(qstm, "return")
		default:
			qstm = append(qstm, c.text(st))
		}
	}
	o.strs("fs_qidfor_body", qstm) // locals under alpha.go's positional names: _v0 receiver, _v1 parameter, ...

	// ---------------- localfs system_unix.go: encodeLikely(dev, ino) ----------------
	o.comment("fsimpl/localfs/system_unix.go encodeLikely; parameters dev, ino; major/minor = the values built from unix.Major/unix.Minor; inoLikely = the first nOnes mask; q = the result")
	el, err := fsFuncIn(r, "fsimpl/localfs", "system_unix.go", "encodeLikely")
	if err != nil {
		return "", err
	}
	c = newFsCtx(r, el)
	c.params("", "dev", "ino")
	nOnesArg := func(x ast.Expr) (string, bool) {
		call, ok := fsPkgCall(fsUnparen(x), "nOnes")
		if !ok || len(call.Args) != 1 {
			return "", false
		}
		v, err := fsEvalNum(r, lenv, call.Args[0])
		return v, err == nil
	}
	var orTerms []string
	var shape []string
	masks := 0
	for _, st := range el.Body.List {
		switch s := st.(type) {
		case *ast.AssignStmt:
			lhs := fsText(s.Lhs[0])
			rhs := fsUnparen(s.Rhs[0])
			if s.Tok == token.DEFINE {
				if v, ok := nOnesArg(rhs); ok && masks == 0 {
					c.roles[lhs] = "inoLikely"
					o.num("fs_enc_ino_bits", v)
					shape = append(shape, "inoLikely")
					masks++
					continue
				}
				if b, ok := rhs.(*ast.BinaryExpr); ok && b.Op == token.SHL {
					if v, ok := nOnesArg(b.X); ok {
						w, err := fsEvalNum(r, lenv, b.Y)
						if err != nil {
							return "", err
						}
						c.roles[lhs] = "upperUnlikely"
						o.num("fs_enc_upper_bits", v)
						o.num("fs_enc_upper_offset", w)
						shape = append(shape, "upperUnlikely")
						continue
					}
				}
				if call, ok := rhs.(*ast.CallExpr); ok && (fsText(call.Fun) == "unix.Major" || fsText(call.Fun) == "unix.Minor") && len(call.Args) == 1 {
					role := strings.ToLower(strings.TrimPrefix(fsText(call.Fun), "unix."))
					c.roles[lhs] = role
					shape = append(shape, role+" := "+c.sem(rhs))
					continue
				}
				if _, ok := rhs.(*ast.BinaryExpr); ok {
					c.roles[lhs] = "q"
					shape = append(shape, "q := "+c.sem(rhs))
					continue
				}
			}
			if s.Tok == token.OR_ASSIGN && c.name(lhs) == "q" {
				b, ok := rhs.(*ast.BinaryExpr)
				if !ok || b.Op != token.SHL {
					return "", r.Refuse(st.Pos(), "q |= : expected x << amount")
				}
				w, err := fsEvalNum(r, lenv, b.Y)
				if err != nil {
					return "", err
				}
				orTerms = append(orTerms, fmt.Sprintf("(%s, %s%%N)", CoqString(c.sem(b.X)), w))
				shape = append(shape, "or")
				continue
			}
			return "", r.Refuse(st.Pos(), "encodeLikely: %s", c.text(s))
		case *ast.IfStmt:
			if len(s.Body.List) != 1 {
				return "", r.Refuse(st.Pos(), "encodeLikely: guard body")
			}
			ret, ok := s.Body.List[0].(*ast.ReturnStmt)
			if !ok || len(ret.Results) != 2 || c.sem(ret.Results[0]) != "0" || c.sem(ret.Results[1]) != "false" {
				return "", r.Refuse(st.Pos(), "encodeLikely: guard must return 0, false")
			}
			be, ok := fsUnparen(s.Cond).(*ast.BinaryExpr)
			if !ok {
				return "", r.Refuse(st.Pos(), "encodeLikely: guard condition")
			}
			side := func(x ast.Expr) string {
				if _, ok := nOnesArg(x); ok {
					return "nOnes"
				}
				return c.sem(x)
			}
			for _, x := range []ast.Expr{be.X, be.Y} {
				if v, ok := nOnesArg(x); ok {
					other := be.X
					if x == be.X {
						other = be.Y
					}
					o.num("fs_enc_"+c.sem(other)+"_bits", v)
				}
			}
			l2, r2, op := side(be.X), side(be.Y), be.Op.String()
			switch be.Op {
			case token.GTR:
				l2, r2, op = r2, l2, "<"
			case token.GEQ:
				l2, r2, op = r2, l2, "<="
			}
			shape = append(shape, "guard "+l2+" "+op+" "+r2)
		case *ast.ReturnStmt:
			shape = append(shape, "return "+c.sem(s.Results[0])+", "+c.sem(s.Results[1]))
		default:
			return "", r.Refuse(st.Pos(), "encodeLikely: statement kind %T", st)
		}
	}
	fmt.Fprintf(&o.b, "Definition fs_enc_or_terms : list (string * N) := [%s].\n", strings.Join(orTerms, "; "))
	o.strs("fs_enc_shape", shape)
	no, err := fsFuncIn(r, "fsimpl/localfs", "system_unix.go", "nOnes")
	if err != nil {
		return "", err
	}
	c = newFsCtx(r, no)
	c.params("", "n")
	nob := ""
	if len(no.Body.List) == 1 {
		if ret, ok := no.Body.List[0].(*ast.ReturnStmt); ok && len(ret.Results) == 1 {
			nob = c.sem(ret.Results[0])
		}
	}
	o.str("fs_nOnes", nob)

	// ---------------- localToQid ----------------
	lq, err := fsFuncIn(r, "fsimpl/localfs", "system_unix.go", "localToQid")
	if err != nil {
		return "", err
	}
	c = newFsCtx(r, lq)
	c.params("", "path", "fi")
	keyVar, keyFields, encArgs, statVar := "", "", "", ""
	ast.Inspect(lq.Body, func(x ast.Node) bool {
		if s, ok := x.(*ast.AssignStmt); ok && len(s.Rhs) == 1 {
			if cl, ok := s.Rhs[0].(*ast.CompositeLit); ok && fsText(cl.Type) == "devino" {
				keyVar = fsText(s.Lhs[0])
			}
			if ta, ok := s.Rhs[0].(*ast.TypeAssertExpr); ok && strings.Contains(c.sem(ta.Type), "Stat_t") {
				statVar = fsText(s.Lhs[0])
			}
		}
		return true
	})
	if statVar != "" {
		c.roles[statVar] = "stat"
	}
	if keyVar != "" {
		c.roles[keyVar] = "key"
		if cl, ok := fsDefOf(lq.Body, keyVar).(*ast.CompositeLit); ok {
			var fs []string
			for _, e := range cl.Elts {
				fs = append(fs, c.sem(e))
			}
			keyFields = strings.Join(fs, ", ")
		}
	}
	addDelta := ""
	sameKey := keyVar != ""
	loads, stores := 0, 0
	ast.Inspect(lq.Body, func(x ast.Node) bool {
		e, ok := x.(ast.Expr)
		if !ok {
			return true
		}
		if call, ok := fsPkgCall(e, "qids.Load"); ok {
			loads++
			if len(call.Args) != 1 || fsText(call.Args[0]) != keyVar {
				sameKey = false
			}
		}
		if call, ok := fsPkgCall(e, "qids.LoadOrStore"); ok {
			stores++
			if len(call.Args) != 2 || fsText(call.Args[0]) != keyVar {
				sameKey = false
			}
		}
		if call, ok := fsPkgCall(e, "nextQid.Add"); ok && len(call.Args) == 1 {
			if v, err := fsEvalNum(r, lenv, call.Args[0]); err == nil {
				addDelta = v
			}
		}
		if call, ok := fsPkgCall(e, "encodeLikely"); ok {
			var as []string
			for _, a := range call.Args {
				as = append(as, c.sem(a))
			}
			encArgs = strings.Join(as, ", ")
		}
		return true
	})
	o.boolean("fs_fallback_key_is_value", sameKey && loads == 1 && stores == 1)
	o.str("fs_fallback_key_fields", keyFields)
	o.str("fs_fallback_encode_args", encArgs)
	if addDelta == "" {
		return "", r.Refuse(lq.Pos(), "localToQid: nextQid.Add(K) not found")
	}
	o.num("fs_fallback_add_delta", addDelta)
	var lst []string
	for _, st := range lq.Body.List {
		lst = append(lst, c.text(st))
	}
	o.strs("fs_localToQid_body", lst) // locals under alpha.go's positional names
	ini, err := fsFuncIn(r, "fsimpl/localfs", "system_unix.go", "init")
	if err != nil {
		return "", err
	}
	store := ""
	ast.Inspect(ini.Body, func(x ast.Node) bool {
		if e, ok := x.(ast.Expr); ok {
			if call, ok := fsPkgCall(e, "nextQid.Store"); ok && len(call.Args) == 1 {
				if v, err := fsEvalNum(r, lenv, call.Args[0]); err == nil {
					store = v
				}
			}
		}
		return true
	})
	if store == "" {
		return "", r.Refuse(ini.Pos(), "init: nextQid.Store(K) not found")
	}
	o.num("fs_nextQid_init", store)

	// ---------------- p9 mode conversions as decision tables ----------------
	o.comment("p9/p9.go ModeFromOS: permission part; (os bits tested, p9 bits added) in order; default; then the independent flag tests")
	penv, _, err := collectConsts(r, "p9")
	if err != nil {
		return "", err
	}
	preds, err := fsP9Preds(r, penv)
	if err != nil {
		return "", err
	}
	mf, err := fsFunc(r, "p9", "ModeFromOS")
	if err != nil {
		return "", err
	}
	c = newFsCtx(r, mf)
	c.params("", "mode")
	pv := ""
	for _, f := range mf.Type.Params.List {
		for _, n := range f.Names {
			pv = n.Name
		}
	}
	var mcases, mflags [][2]string
	mdefault, mperm, mres := "", "", ""
	for _, st := range mf.Body.List {
		switch s := st.(type) {
		case *ast.AssignStmt:
			if s.Tok == token.DEFINE && len(s.Rhs) == 1 && mres == "" {
				mres = fsText(s.Lhs[0])
				mperm = c.sem(stripConv(s.Rhs[0]))
				continue
			}
			return "", r.Refuse(st.Pos(), "ModeFromOS: %s", c.text(s))
		case *ast.SwitchStmt:
			if s.Tag != nil || s.Init != nil {
				return "", r.Refuse(st.Pos(), "ModeFromOS: expected a tagless switch")
			}
			for _, cc := range s.Body.List {
				cl := cc.(*ast.CaseClause)
				e := fsOrAssigned(cl.Body, mres)
				if e == nil {
					return "", r.Refuse(cl.Pos(), "ModeFromOS: case body must be `m |= ModeX`")
				}
				v, err := fsEvalNum(r, penv, e)
				if err != nil {
					return "", err
				}
				if cl.List == nil {
					mdefault = v
					continue
				}
				if len(cl.List) != 1 {
					return "", r.Refuse(cl.Pos(), "ModeFromOS: one condition per case")
				}
				bits, err := fsOsTest(r, cl.List[0], pv)
				if err != nil {
					return "", err
				}
				mcases = append(mcases, [2]string{fmt.Sprint(bits), v})
			}
		case *ast.IfStmt:
			e := fsOrAssigned(s.Body.List, mres)
			if e == nil || s.Else != nil || s.Init != nil {
				return "", r.Refuse(st.Pos(), "ModeFromOS: flag test must be `if mode&os.ModeX != 0 { m |= X }`")
			}
			v, err := fsEvalNum(r, penv, e)
			if err != nil {
				return "", err
			}
			bits, err := fsOsTest(r, s.Cond, pv)
			if err != nil {
				return "", err
			}
			mflags = append(mflags, [2]string{fmt.Sprint(bits), v})
		case *ast.ReturnStmt:
			if len(s.Results) != 1 || fsText(s.Results[0]) != mres {
				return "", r.Refuse(st.Pos(), "ModeFromOS: must return the accumulated mode")
			}
		default:
			return "", r.Refuse(st.Pos(), "ModeFromOS: statement kind %T", st)
		}
	}
	if mdefault == "" {
		return "", r.Refuse(mf.Pos(), "ModeFromOS: switch without default")
	}
	o.str("fs_mfo_perm", mperm)
	o.pairs("fs_mfo_cases", mcases)
	o.num("fs_mfo_default", mdefault)
	o.pairs("fs_mfo_flags", mflags)

	o.comment("p9/p9.go FileMode.OSMode: permission mask; (p9 type value, os bits added) in order; then (p9 flag bit, os bit)")
	om, err := fsFunc(r, "p9", "FileMode.OSMode")
	if err != nil {
		return "", err
	}
	c = newFsCtx(r, om)
	c.params("m")
	rv := ""
	for _, f := range om.Recv.List {
		for _, n := range f.Names {
			rv = n.Name
		}
	}
	var ocases, oflags [][2]string
	omask, ores := "", ""
	for _, st := range om.Body.List {
		switch s := st.(type) {
		case *ast.DeclStmt:
			gd, ok := s.Decl.(*ast.GenDecl)
			if !ok || len(gd.Specs) != 1 || len(gd.Specs[0].(*ast.ValueSpec).Values) != 0 {
				return "", r.Refuse(st.Pos(), "OSMode: %s", c.text(s))
			}
			ores = gd.Specs[0].(*ast.ValueSpec).Names[0].Name
		case *ast.AssignStmt:
			if s.Tok == token.OR_ASSIGN && fsText(s.Lhs[0]) == ores && omask == "" { // osMode |= os.FileMode(m & AllPermissions)
				b, ok := fsUnparen(stripConv(s.Rhs[0])).(*ast.BinaryExpr)
				if ok && b.Op == token.AND && fsText(fsUnparen(b.X)) == rv {
					if v, err := fsEvalNum(r, penv, b.Y); err == nil {
						omask = v
						continue
					}
				}
			}
			return "", r.Refuse(st.Pos(), "OSMode: %s", c.text(s))
		case *ast.SwitchStmt:
			if s.Init != nil {
				return "", r.Refuse(st.Pos(), "OSMode: switch with init")
			}
			// tagged form `switch m.FileType() { case ModeX: ... }` with FileType() == m & FileModeMask: the same decision
			// table as the tagless form `case m.IsX()` with IsX() == (m&FileModeMask == ModeX)
			tagged := false
			if s.Tag != nil {
				ft, err := fsFunc(r, "p9", "FileMode.FileType")
				if exprText(s.Tag) != rv+".FileType()" || err != nil || ft.Body == nil || len(ft.Body.List) != 1 {
					return "", r.Refuse(st.Pos(), "OSMode: switch tag must be %s.FileType()", rv)
				}
				fret, ok := ft.Body.List[0].(*ast.ReturnStmt)
				frv := ""
				if ft.Recv != nil && len(ft.Recv.List) == 1 && len(ft.Recv.List[0].Names) == 1 {
					frv = ft.Recv.List[0].Names[0].Name
				}
				if !ok || len(fret.Results) != 1 || exprText(fsUnparen(fret.Results[0])) != frv+" & FileModeMask" {
					return "", r.Refuse(ft.Pos(), "FileType is not `m & FileModeMask`")
				}
				tagged = true
			}
			for _, cc := range s.Body.List {
				cl := cc.(*ast.CaseClause)
				if len(cl.List) != 1 {
					return "", r.Refuse(cl.Pos(), "OSMode: one predicate per case, no default")
				}
				if tagged {
					tv, err := fsEvalNum(r, penv, cl.List[0])
					if err != nil {
						return "", r.Refuse(cl.Pos(), "OSMode: case must be a Mode constant")
					}
					e := fsOrAssigned(cl.Body, ores)
					if e == nil {
						return "", r.Refuse(cl.Pos(), "OSMode: case body must be `osMode |= os.ModeX`")
					}
					bits, err := fsOsBits(r, e)
					if err != nil {
						return "", err
					}
					ocases = append(ocases, [2]string{tv, fmt.Sprint(bits)})
					continue
				}
				call, ok := cl.List[0].(*ast.CallExpr)
				if !ok {
					return "", r.Refuse(cl.Pos(), "OSMode: case must be m.IsX()")
				}
				sel, ok := call.Fun.(*ast.SelectorExpr)
				if !ok || fsText(sel.X) != rv || preds[sel.Sel.Name] == "" {
					return "", r.Refuse(cl.Pos(), "OSMode: case must be m.IsX() with IsX defined as m&FileModeMask == ModeX")
				}
				e := fsOrAssigned(cl.Body, ores)
				if e == nil {
					return "", r.Refuse(cl.Pos(), "OSMode: case body must be `osMode |= os.ModeX`")
				}
				bits, err := fsOsBits(r, e)
				if err != nil {
					return "", err
				}
				ocases = append(ocases, [2]string{preds[sel.Sel.Name], fmt.Sprint(bits)})
			}
		case *ast.IfStmt:
			e := fsOrAssigned(s.Body.List, ores)
			if e == nil || s.Else != nil || s.Init != nil {
				return "", r.Refuse(st.Pos(), "OSMode: flag test must be `if m&X != 0 { osMode |= os.ModeX }`")
			}
			bits, err := fsOsBits(r, e)
			if err != nil {
				return "", err
			}
			b, ok := fsUnparen(s.Cond).(*ast.BinaryExpr)
			if !ok || b.Op != token.NEQ || c.sem(b.Y) != "0" {
				return "", r.Refuse(st.Pos(), "OSMode: flag test condition")
			}
			a, ok := fsUnparen(b.X).(*ast.BinaryExpr)
			if !ok || a.Op != token.AND || fsText(fsUnparen(a.X)) != rv {
				return "", r.Refuse(st.Pos(), "OSMode: flag test condition")
			}
			v, err := fsEvalNum(r, penv, a.Y)
			if err != nil {
				return "", err
			}
			oflags = append(oflags, [2]string{v, fmt.Sprint(bits)})
		case *ast.ReturnStmt:
			if len(s.Results) != 1 || fsText(s.Results[0]) != ores {
				return "", r.Refuse(st.Pos(), "OSMode: must return the accumulated mode")
			}
		default:
			return "", r.Refuse(st.Pos(), "OSMode: statement kind %T", st)
		}
	}
	o.num("fs_osm_perm_mask", omask)
	o.pairs("fs_osm_cases", ocases)
	o.pairs("fs_osm_flags", oflags)

	o.comment("p9/p9.go FileMode.QIDType: (p9 type value, QID type) for every predicate of every case, in order; default")
	qt, err := fsFunc(r, "p9", "FileMode.QIDType")
	if err != nil {
		return "", err
	}
	qrv := ""
	for _, f := range qt.Recv.List {
		for _, n := range f.Names {
			qrv = n.Name
		}
	}
	var qcases [][2]string
	qdefault := ""
	if len(qt.Body.List) != 1 {
		return "", r.Refuse(qt.Pos(), "QIDType: expected a single switch")
	}
	sw, ok := qt.Body.List[0].(*ast.SwitchStmt)
	if !ok || sw.Tag != nil {
		return "", r.Refuse(qt.Pos(), "QIDType: expected a tagless switch")
	}
	for _, cc := range sw.Body.List {
		cl := cc.(*ast.CaseClause)
		if len(cl.Body) != 1 {
			return "", r.Refuse(cl.Pos(), "QIDType: case body must be a return")
		}
		ret, ok := cl.Body[0].(*ast.ReturnStmt)
		if !ok || len(ret.Results) != 1 {
			return "", r.Refuse(cl.Pos(), "QIDType: case body must be a return")
		}
		v, err := fsEvalNum(r, penv, ret.Results[0])
		if err != nil {
			return "", err
		}
		if cl.List == nil {
			qdefault = v
			continue
		}
		for _, e := range cl.List {
			call, ok := e.(*ast.CallExpr)
			if !ok {
				return "", r.Refuse(e.Pos(), "QIDType: case must be m.IsX()")
			}
			sel, ok := call.Fun.(*ast.SelectorExpr)
			if !ok || fsText(sel.X) != qrv || preds[sel.Sel.Name] == "" {
				return "", r.Refuse(e.Pos(), "QIDType: case must be m.IsX()")
			}
			qcases = append(qcases, [2]string{preds[sel.Sel.Name], v})
		}
	}
	if qdefault == "" {
		return "", r.Refuse(qt.Pos(), "QIDType: switch without default")
	}
	o.pairs("fs_qt_cases", qcases)
	o.num("fs_qt_default", qdefault)
	ft, err := fsFunc(r, "p9", "FileMode.FileType")
	if err != nil {
		return "", err
	}
	c = newFsCtx(r, ft)
	c.params("m")
	ftm := ""
	if len(ft.Body.List) == 1 {
		if ret, ok := ft.Body.List[0].(*ast.ReturnStmt); ok && len(ret.Results) == 1 {
			if b, ok := fsUnparen(ret.Results[0]).(*ast.BinaryExpr); ok && b.Op == token.AND && c.sem(b.X) == "m" {
				if v, err := fsEvalNum(r, penv, b.Y); err == nil {
					ftm = v
				}
			}
		}
	}
	if ftm == "" {
		return "", r.Refuse(ft.Pos(), "FileType: expected `return m & FileModeMask`")
	}
	o.num("fs_filetype_mask", ftm)
	return o.b.String(), nil
}

func init() {
	register(Generator{Name: "FsGen19", Run: genFs19})
	register(Generator{Name: "FsGen20", Run: genFs20})
}
