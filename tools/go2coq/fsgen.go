package main

// FsGen: what the hand models of C19/C20 (coq/Fsx) transcribe from the source, extracted
// SEMANTICALLY where that is cheap: comparisons as (smaller side, operator, larger side)
// with conversions and parentheses removed, additive constants as numbers, shift amounts
// and mask widths evaluated to numbers (through the package's constants), structural facts
// as booleans (the localfs Readdir rewinds before its loop; cursor++ precedes the skip test;
// every function touching Mapper.paths starts with m.mu.Lock(); defer m.mu.Unlock(); the
// fallback table is keyed by a devino value).  Source text is kept only for two bodies whose
// statement order is itself the content (Mapper.QIDFor, localToQid); it is rendered by
// go/printer and white-space normalised, so re-formatting does not change it.
// coq/Fsx/FsGenSpec19.v, FsGenSpec20.v states the obligations over these definitions.

import (
	"bytes"
	"fmt"
	"go/ast"
	"go/printer"
	"go/token"
	"sort"
	"strings"
)

func fsRender(r *Repo, n ast.Node) string {
	var b bytes.Buffer
	printer.Fprint(&b, r.Fset, n)
	return strings.Join(strings.Fields(b.String()), " ")
}

// conversions that cannot lose bits of the values they are applied to in this code (widening to the 64-bit types);
// narrowing ones (uint32(x), uint16(x), ...) change the value and are kept.
var fsConvTypes = map[string]bool{"int": true, "int64": true, "uint": true, "uint64": true}

// fsSem renders an expression canonically: numeric conversions and parentheses dropped,
// every binary expression fully parenthesised.
func fsSem(r *Repo, x ast.Expr) string {
	switch v := x.(type) {
	case *ast.Ident:
		return v.Name
	case *ast.BasicLit:
		return v.Value
	case *ast.ParenExpr:
		return fsSem(r, v.X)
	case *ast.SelectorExpr:
		return fsSem(r, v.X) + "." + v.Sel.Name
	case *ast.UnaryExpr:
		return v.Op.String() + fsSem(r, v.X)
	case *ast.BinaryExpr:
		return "(" + fsSem(r, v.X) + " " + v.Op.String() + " " + fsSem(r, v.Y) + ")"
	case *ast.IndexExpr:
		return fsSem(r, v.X) + "[" + fsSem(r, v.Index) + "]"
	case *ast.SliceExpr:
		lo, hi := "", ""
		if v.Low != nil {
			lo = fsSem(r, v.Low)
		}
		if v.High != nil {
			hi = fsSem(r, v.High)
		}
		return fsSem(r, v.X) + "[" + lo + ":" + hi + "]"
	case *ast.CallExpr:
		if id, ok := v.Fun.(*ast.Ident); ok && fsConvTypes[id.Name] && len(v.Args) == 1 {
			return fsSem(r, v.Args[0])
		}
		var as []string
		for _, a := range v.Args {
			as = append(as, fsSem(r, a))
		}
		return fsSem(r, v.Fun) + "(" + strings.Join(as, ", ") + ")"
	}
	return fsRender(r, x)
}

func fsUnparen(x ast.Expr) ast.Expr {
	for {
		switch v := x.(type) {
		case *ast.ParenExpr:
			x = v.X
			continue
		case *ast.CallExpr:
			if id, ok := v.Fun.(*ast.Ident); ok && fsConvTypes[id.Name] && len(v.Args) == 1 {
				x = v.Args[0]
				continue
			}
		}
		return x
	}
}

// fsCmp normalises a comparison to (a, op, b) with op one of < <= == != :  a > b becomes b < a.
func fsCmp(r *Repo, x ast.Expr) (string, string, string, error) {
	b, ok := fsUnparen(x).(*ast.BinaryExpr)
	if !ok {
		return "", "", "", r.Refuse(x.Pos(), "expected a comparison, found %s", fsRender(r, x))
	}
	l, rr := fsSem(r, b.X), fsSem(r, b.Y)
	switch b.Op {
	case token.LSS, token.LEQ, token.EQL, token.NEQ:
		return l, b.Op.String(), rr, nil
	case token.GTR:
		return rr, "<", l, nil
	case token.GEQ:
		return rr, "<=", l, nil
	}
	return "", "", "", r.Refuse(x.Pos(), "expected a comparison, found operator %s", b.Op)
}

// fsSum flattens a chain of + into its non-literal terms (sorted) and the sum of its integer literals.
func fsSum(r *Repo, e *constEnv, x ast.Expr) ([]string, string, error) {
	var terms []string
	total := int64(0)
	var walk func(x ast.Expr) error
	walk = func(x ast.Expr) error {
		x = fsUnparen(x)
		if b, ok := x.(*ast.BinaryExpr); ok && b.Op == token.ADD {
			if err := walk(b.X); err != nil {
				return err
			}
			return walk(b.Y)
		}
		if _, ok := x.(*ast.BasicLit); ok {
			n, _, ok := e.eval(x, 0)
			if !ok || n == nil || !n.IsInt64() {
				return r.Refuse(x.Pos(), "integer literal expected")
			}
			total += n.Int64()
			return nil
		}
		terms = append(terms, fsSem(r, x))
		return nil
	}
	if err := walk(x); err != nil {
		return nil, "", err
	}
	sort.Strings(terms)
	return terms, fmt.Sprint(total), nil
}

func fsFuncIn(r *Repo, dir, file, name string) (*ast.FuncDecl, error) {
	files, err := r.Files(dir)
	if err != nil {
		return nil, err
	}
	f, ok := files[file]
	if !ok {
		return nil, fmt.Errorf("%s/%s: go2coq does not find the file", dir, file)
	}
	for _, d := range f.Decls {
		if fd, ok := d.(*ast.FuncDecl); ok && fd.Recv == nil && fd.Name.Name == name && fd.Body != nil {
			return fd, nil
		}
	}
	return nil, fmt.Errorf("%s/%s: go2coq does not find function %s", dir, file, name)
}

func fsFunc(r *Repo, dir, key string) (*ast.FuncDecl, error) {
	fds, err := r.FuncDecls(dir)
	if err != nil {
		return nil, err
	}
	fd, ok := fds[key]
	if !ok || fd.Body == nil {
		return nil, fmt.Errorf("%s: go2coq does not find function %s", dir, key)
	}
	return fd, nil
}

// fsDirentField finds the value given to a field in the (only) p9.Dirent composite literal below n.
func fsDirentField(r *Repo, n ast.Node, field string) (ast.Expr, error) {
	var vals []ast.Expr
	lits := 0
	ast.Inspect(n, func(x ast.Node) bool {
		cl, ok := x.(*ast.CompositeLit)
		if !ok {
			return true
		}
		if sel, ok := cl.Type.(*ast.SelectorExpr); !ok || sel.Sel.Name != "Dirent" {
			return true
		}
		lits++
		for _, e := range cl.Elts {
			if kv, ok := e.(*ast.KeyValueExpr); ok {
				if id, ok := kv.Key.(*ast.Ident); ok && id.Name == field {
					vals = append(vals, kv.Value)
				}
			}
		}
		return true
	})
	if lits != 1 || len(vals) != 1 {
		return nil, r.Refuse(n.Pos(), "expected one p9.Dirent literal with field %s (found %d literals, %d values)", field, lits, len(vals))
	}
	return vals[0], nil
}

func fsExprText(x ast.Expr) string {
	switch v := x.(type) {
	case *ast.Ident:
		return v.Name
	case *ast.SelectorExpr:
		return fsExprText(v.X) + "." + v.Sel.Name
	}
	return "?"
}

func fsIsCall(x ast.Expr, recv, name string) bool {
	c, ok := x.(*ast.CallExpr)
	if !ok {
		return false
	}
	s, ok := c.Fun.(*ast.SelectorExpr)
	return ok && s.Sel.Name == name && strings.HasSuffix(fsExprText(s.X), recv)
}

func fsQuoteList(xs []string) string {
	var q []string
	for _, x := range xs {
		q = append(q, CoqString(x))
	}
	return strings.Join(q, "; ")
}

type fsOut struct {
	b strings.Builder
}

func (o *fsOut) str(name, val string) {
	fmt.Fprintf(&o.b, "Definition %s : string := %s.\n", name, CoqString(val))
}
func (o *fsOut) boolean(name string, v bool) {
	fmt.Fprintf(&o.b, "Definition %s : bool := %v.\n", name, v)
}
func (o *fsOut) num(name, v string) { fmt.Fprintf(&o.b, "Definition %s : N := %s%%N.\n", name, v) }
func (o *fsOut) strs(name string, v []string) {
	fmt.Fprintf(&o.b, "Definition %s : list string := [%s].\n", name, fsQuoteList(v))
}
func (o *fsOut) cmp(name, a, op, b string) {
	fmt.Fprintf(&o.b, "Definition %s : string * string * string := (%s, %s, %s).\n", name, CoqString(a), CoqString(op), CoqString(b))
}

func fsEvalNum(r *Repo, e *constEnv, x ast.Expr) (string, error) {
	n, _, ok := e.eval(x, 0)
	if !ok || n == nil {
		return "", r.Refuse(x.Pos(), "cannot evaluate %s to a number", fsRender(r, x))
	}
	return n.String(), nil
}

// fsNOnesArg: x must be nOnes(E); returns E evaluated.
func fsNOnesArg(r *Repo, e *constEnv, x ast.Expr) (string, error) {
	c, ok := fsUnparen(x).(*ast.CallExpr)
	if !ok || fsExprText(c.Fun) != "nOnes" || len(c.Args) != 1 {
		return "", r.Refuse(x.Pos(), "expected nOnes(bits), found %s", fsRender(r, x))
	}
	return fsEvalNum(r, e, c.Args[0])
}

func genFs19(r *Repo) (string, error) {
	o := &fsOut{}
	o.b.WriteString("From Coq Require Import String List NArith.\nImport ListNotations.\nOpen Scope string_scope.\n\n")

	// ---------------- fsimpl/readdir.Readdir ----------------
	rd, err := fsFunc(r, "fsimpl/readdir", "Readdir")
	if err != nil {
		return "", err
	}
	renv, _, err := collectConsts(r, "fsimpl/readdir")
	if err != nil {
		return "", err
	}
	o.b.WriteString("(* fsimpl/readdir/readdir.go Readdir *)\n")
	seen := 0
	for _, st := range rd.Body.List {
		switch s := st.(type) {
		case *ast.IfStmt:
			if seen&1 != 0 {
				continue
			}
			a, op, b, err := fsCmp(r, s.Cond)
			if err != nil {
				return "", err
			}
			o.cmp("fs_readdir_guard", a, op, b)
			empty := false
			if len(s.Body.List) == 1 {
				if ret, ok := s.Body.List[0].(*ast.ReturnStmt); ok && len(ret.Results) == 2 &&
					fsExprText(ret.Results[0]) == "nil" && fsExprText(ret.Results[1]) == "nil" {
					empty = true
				}
			}
			o.boolean("fs_readdir_guard_returns_empty", empty)
			seen |= 1
		case *ast.AssignStmt:
			if len(s.Lhs) == 1 && fsExprText(s.Lhs[0]) == "end" {
				o.str("fs_readdir_end", fsSem(r, s.Rhs[0]))
				seen |= 2
			}
		case *ast.RangeStmt:
			o.str("fs_readdir_range", fsSem(r, s.X))
			o.str("fs_readdir_range_index", fsRender(r, s.Key))
			o.str("fs_readdir_range_value", fsRender(r, s.Value))
			seen |= 4
		}
	}
	if seen != 7 {
		return "", r.Refuse(rd.Pos(), "readdir.Readdir: guard / end / range statement not found")
	}
	off, err := fsDirentField(r, rd.Body, "Offset")
	if err != nil {
		return "", err
	}
	terms, c, err := fsSum(r, renv, off)
	if err != nil {
		return "", err
	}
	o.strs("fs_readdir_Offset_terms", terms)
	o.num("fs_readdir_Offset_const", c)
	for _, f := range []string{"QID", "Type", "Name"} {
		v, err := fsDirentField(r, rd.Body, f)
		if err != nil {
			return "", err
		}
		o.str("fs_readdir_"+f, fsSem(r, v))
	}

	// ---------------- localfs (*Local).Readdir ----------------
	lr, err := fsFunc(r, "fsimpl/localfs", "Local.Readdir")
	if err != nil {
		return "", err
	}
	lenv, _, err := collectConsts(r, "fsimpl/localfs")
	if err != nil {
		return "", err
	}
	o.b.WriteString("(* fsimpl/localfs/readdir.go Local.Readdir *)\n")
	rewinds := false
	cursorInit := ""
	var loop *ast.ForStmt
	for _, st := range lr.Body.List {
		if f, ok := st.(*ast.ForStmt); ok {
			loop = f
			break
		}
		// an unconditional statement of the function body (not nested in another if) that calls Seek(0, io.SeekStart)
		top := st
		if is, ok := st.(*ast.IfStmt); ok && is.Init != nil {
			top = is.Init // `if _, err := l.file.Seek(...); err != nil {` : the call is in the init, always executed
		} else if ok {
			top = nil // a Seek nested under a condition does not count
		}
		if top != nil {
			ast.Inspect(top, func(x ast.Node) bool {
				if c, ok := x.(*ast.CallExpr); ok && fsIsCall(c, "l.file", "Seek") && len(c.Args) == 2 &&
					fsSem(r, c.Args[0]) == "0" && fsSem(r, c.Args[1]) == "io.SeekStart" {
					rewinds = true
				}
				return true
			})
		}
		ast.Inspect(st, func(x ast.Node) bool {
			if vs, ok := x.(*ast.ValueSpec); ok {
				for i, n := range vs.Names {
					if n.Name == "cursor" && i < len(vs.Values) {
						if v, err := fsEvalNum(r, lenv, vs.Values[i]); err == nil {
							cursorInit = v
						}
					}
				}
			}
			if as, ok := x.(*ast.AssignStmt); ok && len(as.Lhs) == 1 && fsExprText(as.Lhs[0]) == "cursor" {
				cursorInit = "assigned: " + fsSem(r, as.Rhs[0])
			}
			return true
		})
	}
	if loop == nil || loop.Cond == nil || loop.Init != nil || loop.Post != nil {
		return "", r.Refuse(lr.Pos(), "Local.Readdir: expected `for cond { ... }`")
	}
	o.boolean("fs_local_rewinds", rewinds)
	o.str("fs_local_cursor_init", cursorInit)
	a, op, b, err := fsCmp(r, loop.Cond)
	if err != nil {
		return "", err
	}
	o.cmp("fs_local_loop_cond", a, op, b)
	// order of events in the loop body: read(n) / eof-return / incr / skip / entry
	var events []string
	var rest []string
	for _, st := range loop.Body.List {
		switch s := st.(type) {
		case *ast.AssignStmt:
			if len(s.Rhs) == 1 && fsIsCall(s.Rhs[0], "l.file", "Readdirnames") {
				c := s.Rhs[0].(*ast.CallExpr)
				events = append(events, "read "+fsSem(r, c.Args[0]))
				continue
			}
			if len(s.Rhs) == 1 {
				if _, err := fsDirentField(r, s, "Offset"); err == nil {
					events = append(events, "entry")
					continue
				}
			}
			rest = append(rest, fsRender(r, s))
		case *ast.IncDecStmt:
			if fsExprText(s.X) == "cursor" && s.Tok == token.INC {
				events = append(events, "incr")
			} else {
				return "", r.Refuse(st.Pos(), "Local.Readdir loop: %s", fsRender(r, s))
			}
		case *ast.IfStmt:
			if len(s.Body.List) == 1 {
				if br, ok := s.Body.List[0].(*ast.BranchStmt); ok && br.Tok == token.CONTINUE && s.Else == nil {
					a, op, b, err := fsCmp(r, s.Cond)
					if err != nil {
						return "", err
					}
					o.cmp("fs_local_skip", a, op, b)
					events = append(events, "skip")
					continue
				}
				if ret, ok := s.Body.List[0].(*ast.ReturnStmt); ok && fsSem(r, s.Cond) == "(err == io.EOF)" {
					events = append(events, "eof-return "+fsSem(r, ret.Results[0])+", "+fsSem(r, ret.Results[1]))
					continue
				}
			}
			rest = append(rest, "if "+fsRender(r, s.Cond)+" "+fsRender(r, s.Body))
		default:
			return "", r.Refuse(st.Pos(), "Local.Readdir loop: statement kind %T", st)
		}
	}
	o.strs("fs_local_loop_events", events)
	o.strs("fs_local_loop_rest", rest)
	for _, f := range []string{"QID", "Type", "Offset", "Name"} {
		v, err := fsDirentField(r, loop.Body, f)
		if err != nil {
			return "", err
		}
		o.str("fs_local_"+f, fsSem(r, v))
	}

	// ---------------- p9 rreaddir.encode: the truncation test ----------------
	re, err := fsFunc(r, "p9", "rreaddir.encode")
	if err != nil {
		return "", err
	}
	o.b.WriteString("(* p9/messages.go rreaddir.encode *)\n")
	var brk ast.Expr
	ast.Inspect(re.Body, func(x ast.Node) bool {
		if s, ok := x.(*ast.IfStmt); ok && len(s.Body.List) == 1 {
			if br, ok := s.Body.List[0].(*ast.BranchStmt); ok && br.Tok == token.BREAK {
				brk = s.Cond
			}
		}
		return true
	})
	if brk == nil {
		return "", r.Refuse(re.Pos(), "rreaddir.encode: `if cond { break }` not found")
	}
	a, op, b, err = fsCmp(r, brk)
	if err != nil {
		return "", err
	}
	o.cmp("fs_rreaddir_break", a, op, b)

	return o.b.String(), nil
}

// genFs20: fsimpl/qids and the localfs QID functions (C20); a separate file so that a refusal in the
// Readdir part (C19) does not take the C20 obligations down with it, and vice versa.
func genFs20(r *Repo) (string, error) {
	o := &fsOut{}
	o.b.WriteString("From Coq Require Import String List NArith.\nImport ListNotations.\nOpen Scope string_scope.\n\n")
	lenv, _, err := collectConsts(r, "fsimpl/localfs")
	if err != nil {
		return "", err
	}
	var a, op, b string
	_, _, _ = a, op, b
	// ---------------- qids.go ----------------
	o.b.WriteString("(* fsimpl/qids/qids.go *)\n")
	qfd, err := r.FuncDecls("fsimpl/qids")
	if err != nil {
		return "", err
	}
	qenv, _, err := collectConsts(r, "fsimpl/qids")
	if err != nil {
		return "", err
	}
	var touching []string
	guarded := true
	var keys []string
	for k := range qfd {
		keys = append(keys, k)
	}
	sort.Strings(keys)
	for _, k := range keys {
		fd := qfd[k]
		if fd.Body == nil {
			continue
		}
		touches := false
		ast.Inspect(fd.Body, func(x ast.Node) bool {
			if s, ok := x.(*ast.SelectorExpr); ok && s.Sel.Name == "paths" {
				touches = true
			}
			return true
		})
		if !touches {
			continue
		}
		touching = append(touching, k)
		ok := len(fd.Body.List) >= 2
		if ok {
			es, ok1 := fd.Body.List[0].(*ast.ExprStmt)
			ds, ok2 := fd.Body.List[1].(*ast.DeferStmt)
			ok = ok1 && ok2 && fsIsCall(es.X, "m.mu", "Lock") && fsIsCall(ds.Call, "m.mu", "Unlock")
		}
		// no further Lock/Unlock of m.mu inside (the critical section is the whole body)
		if ok {
			n := 0
			ast.Inspect(fd.Body, func(x ast.Node) bool {
				if c, isCall := x.(*ast.CallExpr); isCall && (fsIsCall(c, "m.mu", "Lock") || fsIsCall(c, "m.mu", "Unlock")) {
					n++
				}
				return true
			})
			ok = n == 2
		}
		if !ok {
			guarded = false
		}
	}
	o.boolean("fs_mapper_paths_guarded", guarded)
	o.strs("fs_mapper_paths_users", touching)
	np, err := fsFunc(r, "fsimpl/qids", "PathGenerator.NewPath")
	if err != nil {
		return "", err
	}
	delta := ""
	if len(np.Body.List) == 1 {
		if ret, ok := np.Body.List[0].(*ast.ReturnStmt); ok && len(ret.Results) == 1 {
			if c, ok := ret.Results[0].(*ast.CallExpr); ok && fsExprText(c.Fun) == "atomic.AddUint64" && len(c.Args) == 2 &&
				fsSem(r, c.Args[0]) == "&g.uids" {
				if v, err := fsEvalNum(r, qenv, c.Args[1]); err == nil {
					delta = v
				}
			}
		}
	}
	if delta == "" {
		return "", r.Refuse(np.Pos(), "NewPath: expected `return atomic.AddUint64(&g.uids, K)`")
	}
	o.num("fs_newpath_delta", delta)
	qf, err := fsFunc(r, "fsimpl/qids", "Mapper.QIDFor")
	if err != nil {
		return "", err
	}
	var qstm []string
	for _, st := range qf.Body.List {
		switch s := st.(type) {
		case *ast.IfStmt:
			init := ""
			if s.Init != nil {
				init = fsRender(r, s.Init) + "; "
			}
			qstm = append(qstm, "if "+init+fsRender(r, s.Cond))
		case *ast.ReturnStmt:
			qstm = append(qstm, "return")
		default:
			qstm = append(qstm, fsRender(r, st))
		}
	}
	o.strs("fs_qidfor_body", qstm)

	// ---------------- localfs system_unix.go ----------------
	o.b.WriteString("(* fsimpl/localfs/system_unix.go *)\n")
	el, err := fsFuncIn(r, "fsimpl/localfs", "system_unix.go", "encodeLikely")
	if err != nil {
		return "", err
	}
	// statement by statement; every statement must be one of the recognised shapes
	var orTerms []string
	var shape []string
	for _, st := range el.Body.List {
		switch s := st.(type) {
		case *ast.AssignStmt:
			lhs := fsExprText(s.Lhs[0])
			rhs := fsUnparen(s.Rhs[0])
			switch {
			case s.Tok == token.DEFINE && lhs == "inoLikely":
				v, err := fsNOnesArg(r, lenv, rhs)
				if err != nil {
					return "", err
				}
				o.num("fs_enc_ino_bits", v)
				shape = append(shape, "inoLikely")
			case s.Tok == token.DEFINE && lhs == "upperUnlikely":
				b, ok := rhs.(*ast.BinaryExpr)
				if !ok || b.Op != token.SHL {
					return "", r.Refuse(st.Pos(), "upperUnlikely: expected nOnes(a) << b")
				}
				v, err := fsNOnesArg(r, lenv, b.X)
				if err != nil {
					return "", err
				}
				w, err := fsEvalNum(r, lenv, b.Y)
				if err != nil {
					return "", err
				}
				o.num("fs_enc_upper_bits", v)
				o.num("fs_enc_upper_offset", w)
				shape = append(shape, "upperUnlikely")
			case s.Tok == token.DEFINE && (lhs == "major" || lhs == "minor"):
				o.str("fs_enc_"+lhs+"_def", fsSem(r, rhs))
				shape = append(shape, lhs)
			case s.Tok == token.DEFINE && lhs == "q":
				o.str("fs_enc_q_init", fsSem(r, rhs))
				shape = append(shape, "q")
			case s.Tok == token.OR_ASSIGN && lhs == "q":
				b, ok := rhs.(*ast.BinaryExpr)
				if !ok || b.Op != token.SHL {
					return "", r.Refuse(st.Pos(), "q |= : expected x << amount")
				}
				w, err := fsEvalNum(r, lenv, b.Y)
				if err != nil {
					return "", err
				}
				orTerms = append(orTerms, fmt.Sprintf("(%s, %s%%N)", CoqString(fsSem(r, b.X)), w))
				shape = append(shape, "or")
			default:
				return "", r.Refuse(st.Pos(), "encodeLikely: %s", fsRender(r, s))
			}
		case *ast.IfStmt:
			// every guard returns (0, false)
			if len(s.Body.List) != 1 {
				return "", r.Refuse(st.Pos(), "encodeLikely: guard body")
			}
			ret, ok := s.Body.List[0].(*ast.ReturnStmt)
			if !ok || len(ret.Results) != 2 || fsSem(r, ret.Results[0]) != "0" || fsSem(r, ret.Results[1]) != "false" {
				return "", r.Refuse(st.Pos(), "encodeLikely: guard must return 0, false")
			}
			a, op, b, err := fsCmp(r, s.Cond)
			if err != nil {
				return "", err
			}
			// nOnes(K) on either side is replaced by its evaluated width
			fix := func(side string, x ast.Expr) string {
				if v, err := fsNOnesArg(r, lenv, x); err == nil {
					return "nOnes " + v
				}
				return side
			}
			be := fsUnparen(s.Cond).(*ast.BinaryExpr)
			l2, r2 := fix(fsSem(r, be.X), be.X), fix(fsSem(r, be.Y), be.Y)
			if be.Op == token.GTR || be.Op == token.GEQ {
				l2, r2 = r2, l2
			}
			_ = a
			_ = b
			shape = append(shape, "guard "+l2+" "+op+" "+r2)
		case *ast.ReturnStmt:
			shape = append(shape, "return "+fsSem(r, s.Results[0])+", "+fsSem(r, s.Results[1]))
		default:
			return "", r.Refuse(st.Pos(), "encodeLikely: statement kind %T", st)
		}
	}
	fmt.Fprintf(&o.b, "Definition fs_enc_or_terms : list (string * N) := [%s].\n", strings.Join(orTerms, "; "))
	o.strs("fs_enc_shape", shape)
	no, err := fsFuncIn(r, "fsimpl/localfs", "system_unix.go", "nOnes")
	if err != nil {
		return "", err
	}
	nob := ""
	if len(no.Body.List) == 1 {
		if ret, ok := no.Body.List[0].(*ast.ReturnStmt); ok && len(ret.Results) == 1 {
			nob = fsSem(r, ret.Results[0])
		}
	}
	o.str("fs_nOnes", nob)

	lq, err := fsFuncIn(r, "fsimpl/localfs", "system_unix.go", "localToQid")
	if err != nil {
		return "", err
	}
	keyIsValue, keyFields := false, ""
	addDelta := ""
	sameKey := true
	var lst []string
	for _, st := range lq.Body.List {
		switch s := st.(type) {
		case *ast.IfStmt:
			init := ""
			if s.Init != nil {
				init = fsRender(r, s.Init) + "; "
			}
			lst = append(lst, "if "+init+fsRender(r, s.Cond)+" "+fsRender(r, s.Body))
		default:
			lst = append(lst, fsRender(r, st))
		}
		if as, ok := st.(*ast.AssignStmt); ok && len(as.Lhs) == 1 && fsExprText(as.Lhs[0]) == "di" {
			if cl, ok := as.Rhs[0].(*ast.CompositeLit); ok && fsExprText(cl.Type) == "devino" {
				keyIsValue = true
				var fs []string
				for _, e := range cl.Elts {
					fs = append(fs, fsSem(r, e))
				}
				keyFields = strings.Join(fs, ", ")
			}
		}
		ast.Inspect(st, func(x ast.Node) bool {
			c, ok := x.(*ast.CallExpr)
			if !ok {
				return true
			}
			if fsIsCall(c, "qids", "Load") || fsIsCall(c, "qids", "LoadOrStore") {
				if len(c.Args) == 0 || fsSem(r, c.Args[0]) != "di" {
					sameKey = false
				}
			}
			if fsIsCall(c, "nextQid", "Add") && len(c.Args) == 1 {
				if v, err := fsEvalNum(r, lenv, c.Args[0]); err == nil {
					addDelta = v
				}
			}
			return true
		})
	}
	o.boolean("fs_fallback_key_is_value", keyIsValue && sameKey)
	o.str("fs_fallback_key_fields", keyFields)
	if addDelta == "" {
		return "", r.Refuse(lq.Pos(), "localToQid: nextQid.Add(K) not found")
	}
	o.num("fs_fallback_add_delta", addDelta)
	o.strs("fs_localToQid_body", lst)
	ini, err := fsFuncIn(r, "fsimpl/localfs", "system_unix.go", "init")
	if err != nil {
		return "", err
	}
	store := ""
	ast.Inspect(ini.Body, func(x ast.Node) bool {
		if c, ok := x.(*ast.CallExpr); ok && fsIsCall(c, "nextQid", "Store") && len(c.Args) == 1 {
			if v, err := fsEvalNum(r, lenv, c.Args[0]); err == nil {
				store = v
			}
		}
		return true
	})
	if store == "" {
		return "", r.Refuse(ini.Pos(), "init: nextQid.Store(K) not found")
	}
	o.num("fs_nextQid_init", store)
	return o.b.String(), nil
}

func init() {
	register(Generator{Name: "FsGen19", Run: genFs19})
	register(Generator{Name: "FsGen20", Run: genFs20})
}
