package main

// PoolGen: p9/pool.go pool.Get and pool.Put TRANSLATED into Gallina (coq/gen/PoolGen.v) by symbolic execution of
// their bodies over the state (cache : list N in Go order, start : Z, limit : Z): `if` chains and tagless
// switches whose branches end in return, local definitions, p.cache[i], p.cache[:j], append(p.cache, v),
// p.start++ (uint64 wrap), len, + and - on ints, comparisons.  Slice and index operations that would panic in Go
// yield None.  Also recorded: that the body runs between p.mu.Lock() and a deferred (or final) p.mu.Unlock().
// Client/PoolTie.v proves the generated functions equal to the hand model Client/Pool.v for every pool state.
// Anything outside this grammar is refused with file:line.

import (
	"fmt"
	"go/ast"
	"go/token"
	"strings"
)

func init() { register(Generator{Name: "PoolGen", Run: runPoolGen}) }

type pgen struct {
	r      *Repo
	err    error
	recv   string
	nfresh int
}

type penv struct {
	cache, start string
	locals       map[string]string // local -> Gallina expression (Z)
	lists        map[string]string // local -> Gallina expression (list N)
}

func (e penv) clone() penv {
	n := penv{cache: e.cache, start: e.start, locals: map[string]string{}, lists: map[string]string{}}
	for k, v := range e.locals {
		n.locals[k] = v
	}
	for k, v := range e.lists {
		n.lists[k] = v
	}
	return n
}

func (g *pgen) refuse(p token.Pos, f string, a ...interface{}) string {
	if g.err == nil {
		g.err = g.r.Refuse(p, f, a...)
	}
	return "None"
}

func runPoolGen(r *Repo) (string, error) {
	fns, err := r.FuncDecls("p9")
	if err != nil {
		return "", err
	}
	get, put := fns["pool.Get"], fns["pool.Put"]
	if get == nil || put == nil {
		return "", fmt.Errorf("p9: pool.Get / pool.Put not found")
	}
	var b strings.Builder
	b.WriteString("From Coq Require Import ZArith NArith List Bool.\nFrom P9V Require Import Client.PoolPrims.\nImport ListNotations.\nOpen Scope Z_scope.\n\n")
	for _, fd := range []*ast.FuncDecl{get, put} {
		g := &pgen{r: r, recv: fd.Recv.List[0].Names[0].Name}
		body, locked, perr := g.lockBracket(fd)
		if perr != nil {
			return "", perr
		}
		env := penv{cache: "cache", start: "start", locals: map[string]string{}, lists: map[string]string{}}
		params := ""
		for _, p := range fd.Type.Params.List {
			for _, n := range p.Names {
				params += " (" + n.Name + " : Z)"
				env.locals[n.Name] = n.Name
			}
		}
		nres := 0
		if fd.Type.Results != nil {
			nres = len(fd.Type.Results.List)
		}
		b.WriteString("(* " + r.Pos(fd.Pos()) + " *)\n")
		b.WriteString(fmt.Sprintf("Definition gen_pool_%s_locked : bool := %v.\n", fd.Name.Name, locked))
		rty := "option (list N * Z)"
		if nres == 2 {
			rty = "option (Z * bool * list N * Z)"
		}
		b.WriteString("Definition gen_pool_" + fd.Name.Name + " (cache : list N) (start limit : Z)" + params + " : " + rty + " :=\n")
		b.WriteString(g.block(body, env, nres, "  "))
		b.WriteString(".\n\n")
		if g.err != nil {
			return "", g.err
		}
	}
	return b.String(), nil
}

// lockBracket strips `p.mu.Lock()` at the start and `defer p.mu.Unlock()` (second statement) or `p.mu.Unlock()` (last statement, no
// return before it) and reports whether the whole remaining body runs under the mutex.
func (g *pgen) lockBracket(fd *ast.FuncDecl) ([]ast.Stmt, bool, error) {
	st := fd.Body.List
	lock, unlock := g.recv+".mu.Lock()", g.recv+".mu.Unlock()"
	text := func(s ast.Stmt) string {
		switch x := s.(type) {
		case *ast.ExprStmt:
			return exprText(x.X)
		case *ast.DeferStmt:
			return "defer " + exprText(x.Call)
		}
		return ""
	}
	if len(st) < 2 || text(st[0]) != lock {
		return nil, false, g.r.Refuse(fd.Pos(), "%s does not start with %s", fd.Name.Name, lock)
	}
	if text(st[1]) == "defer "+unlock {
		return st[2:], true, nil
	}
	if text(st[len(st)-1]) == unlock {
		body := st[1 : len(st)-1]
		hasRet := false
		for _, s := range body {
			ast.Inspect(s, func(n ast.Node) bool {
				if _, ok := n.(*ast.ReturnStmt); ok {
					hasRet = true
				}
				return true
			})
		}
		if hasRet {
			return nil, false, g.r.Refuse(fd.Pos(), "return between Lock and the final Unlock")
		}
		return body, true, nil
	}
	return nil, false, g.r.Refuse(fd.Pos(), "%s: no deferred or final %s", fd.Name.Name, unlock)
}

func stmtsEndInReturn(stmts []ast.Stmt) bool {
	if len(stmts) == 0 {
		return false
	}
	_, ok := stmts[len(stmts)-1].(*ast.ReturnStmt)
	return ok
}

func (g *pgen) block(stmts []ast.Stmt, env penv, nres int, ind string) string {
	if len(stmts) == 0 {
		if nres == 0 {
			return ind + "Some (" + env.cache + ", " + env.start + ")"
		}
		return g.refuse(token.NoPos, "function with results falls off its end")
	}
	rest := stmts[1:]
	switch s := stmts[0].(type) {
	case *ast.ReturnStmt:
		if len(s.Results) != nres || len(rest) != 0 {
			return g.refuse(s.Pos(), "return")
		}
		if nres == 0 {
			return ind + "Some (" + env.cache + ", " + env.start + ")"
		}
		ok := exprText(s.Results[1])
		if ok != "true" && ok != "false" {
			return g.refuse(s.Pos(), "second result is not a boolean literal")
		}
		return ind + "Some (" + g.num(s.Results[0], env) + ", " + ok + ", " + env.cache + ", " + env.start + ")"
	case *ast.IfStmt:
		if s.Init != nil { // if x := e; c { ... }  ==  x := e; if c { ... }   (x is not used afterwards: a redefinition would be refused by the compiler)
			c := *s
			c.Init = nil
			return g.block(append([]ast.Stmt{s.Init, &c}, rest...), env, nres, ind)
		}
		if !stmtsEndInReturn(s.Body.List) {
			return g.refuse(s.Pos(), "if body does not end in return")
		}
		els := rest
		if s.Else != nil {
			eb, ok := s.Else.(*ast.BlockStmt)
			if !ok || !stmtsEndInReturn(eb.List) || len(rest) != 0 {
				return g.refuse(s.Pos(), "else branch")
			}
			els = eb.List
		}
		return ind + "if " + g.cond(s.Cond, env) + " then\n" + g.block(s.Body.List, env.clone(), nres, ind+"  ") + "\n" + ind + "else\n" + g.block(els, env.clone(), nres, ind)
	case *ast.SwitchStmt:
		if s.Tag != nil {
			return g.refuse(s.Pos(), "switch with a tag")
		}
		if s.Init != nil { // switch x := e; { ... }  ==  x := e; switch { ... }
			c := *s
			c.Init = nil
			return g.block(append([]ast.Stmt{s.Init, &c}, rest...), env, nres, ind)
		}
		var out strings.Builder
		var def []ast.Stmt
		hasDef := false
		closers := 0
		for _, c := range s.Body.List {
			cc := c.(*ast.CaseClause)
			if cc.List == nil {
				def, hasDef = cc.Body, true
				continue
			}
			if hasDef {
				return g.refuse(cc.Pos(), "case after default")
			}
			if !stmtsEndInReturn(cc.Body) {
				return g.refuse(cc.Pos(), "case body does not end in return")
			}
			var cs []string
			for _, e := range cc.List {
				cs = append(cs, g.cond(e, env))
			}
			out.WriteString(ind + "if " + strings.Join(cs, " || ") + " then\n" + g.block(cc.Body, env.clone(), nres, ind+"  ") + "\n" + ind + "else\n")
			closers++
		}
		if hasDef {
			if !stmtsEndInReturn(def) && len(rest) == 0 && nres != 0 {
				return g.refuse(s.Pos(), "default does not end in return")
			}
			if stmtsEndInReturn(def) {
				return out.String() + g.block(def, env.clone(), nres, ind)
			}
			return out.String() + g.block(append(append([]ast.Stmt{}, def...), rest...), env.clone(), nres, ind)
		}
		return out.String() + g.block(rest, env, nres, ind)
	case *ast.IncDecStmt:
		if exprText(s.X) == g.recv+".start" && s.Tok == token.INC {
			env.start = "((" + env.start + " + 1) mod two64z)"
			return g.block(rest, env, nres, ind)
		}
		return g.refuse(s.Pos(), "%s", exprText(s.X))
	case *ast.AssignStmt:
		if len(s.Lhs) != 1 || len(s.Rhs) != 1 {
			return g.refuse(s.Pos(), "assignment")
		}
		lhs := exprText(s.Lhs[0])
		switch {
		case lhs == g.recv+".cache" && s.Tok == token.ASSIGN:
			return g.list(s.Rhs[0], env, func(l string) string {
				env.cache = l
				return g.block(rest, env, nres, ind)
			}, ind)
		case lhs == g.recv+".start" && s.Tok == token.ASSIGN:
			return g.refuse(s.Pos(), "assignment to start other than ++")
		case s.Tok == token.DEFINE || s.Tok == token.ASSIGN:
			id, ok := s.Lhs[0].(*ast.Ident)
			if !ok {
				return g.refuse(s.Pos(), "assignment to %s", lhs)
			}
			// an element of the cache: may panic
			if ix, ok := s.Rhs[0].(*ast.IndexExpr); ok {
				return g.list(ix.X, env, func(l string) string {
					g.nfresh++
					v := fmt.Sprintf("%s%d", id.Name, g.nfresh)
					env.locals[id.Name] = "(Z.of_N " + v + ")"
					return ind + "match go_index " + l + " " + g.num(ix.Index, env) + " with\n" + ind + "| None => None\n" + ind + "| Some " + v + " =>\n" + g.block(rest, env, nres, ind+"  ") + "\n" + ind + "end"
				}, ind)
			}
			env.locals[id.Name] = g.num(s.Rhs[0], env)
			return g.block(rest, env, nres, ind)
		}
		return g.refuse(s.Pos(), "assignment")
	}
	return g.refuse(stmts[0].Pos(), "statement %T", stmts[0])
}

// list-valued expression; k continues with the Gallina expression of the list (slicing may panic)
func (g *pgen) list(e ast.Expr, env penv, k func(string) string, ind string) string {
	switch x := e.(type) {
	case *ast.SelectorExpr:
		if exprText(x) == g.recv+".cache" {
			return k(env.cache)
		}
	case *ast.SliceExpr:
		if x.Low == nil && x.High != nil && !x.Slice3 {
			return g.list(x.X, env, func(l string) string {
				g.nfresh++
				v := fmt.Sprintf("sl%d", g.nfresh)
				return ind + "match go_slice_to " + l + " " + g.num(x.High, env) + " with\n" + ind + "| None => None\n" + ind + "| Some " + v + " =>\n" + k(v) + "\n" + ind + "end"
			}, ind)
		}
	case *ast.CallExpr:
		if exprText(x.Fun) == "append" && len(x.Args) == 2 {
			return g.list(x.Args[0], env, func(l string) string { return k("(go_append " + l + " " + g.num(x.Args[1], env) + ")") }, ind)
		}
	}
	return g.refuse(e.Pos(), "list expression %s", exprText(e))
}

func (g *pgen) num(e ast.Expr, env penv) string {
	switch x := e.(type) {
	case *ast.ParenExpr:
		return "(" + g.num(x.X, env) + ")"
	case *ast.BasicLit:
		if x.Kind == token.INT {
			return x.Value
		}
	case *ast.Ident:
		if v, ok := env.locals[x.Name]; ok {
			return v
		}
	case *ast.SelectorExpr:
		switch exprText(x) {
		case g.recv + ".start":
			return env.start
		case g.recv + ".limit":
			return "limit"
		}
	case *ast.CallExpr:
		if exprText(x.Fun) == "len" && len(x.Args) == 1 && exprText(x.Args[0]) == g.recv+".cache" {
			return "(go_len " + env.cache + ")"
		}
	case *ast.BinaryExpr: // int arithmetic only (len-derived): no wrap-around
		if x.Op == token.ADD || x.Op == token.SUB {
			if strings.Contains(exprText(x), g.recv+".start") || strings.Contains(exprText(x), g.recv+".limit") {
				return g.refuse(x.Pos(), "uint64 arithmetic %s", exprText(x))
			}
			op := map[token.Token]string{token.ADD: "+", token.SUB: "-"}[x.Op]
			return "(" + g.num(x.X, env) + " " + op + " " + g.num(x.Y, env) + ")"
		}
	}
	return g.refuse(e.Pos(), "number %s", exprText(e))
}

func (g *pgen) cond(e ast.Expr, env penv) string {
	switch x := e.(type) {
	case *ast.ParenExpr:
		return "(" + g.cond(x.X, env) + ")"
	case *ast.UnaryExpr:
		if x.Op == token.NOT {
			return "negb (" + g.cond(x.X, env) + ")"
		}
	case *ast.BinaryExpr:
		a, b := "", ""
		switch x.Op {
		case token.LAND:
			return "(" + g.cond(x.X, env) + " && " + g.cond(x.Y, env) + ")"
		case token.LOR:
			return "(" + g.cond(x.X, env) + " || " + g.cond(x.Y, env) + ")"
		case token.EQL, token.NEQ, token.LSS, token.LEQ, token.GTR, token.GEQ:
			a, b = g.num(x.X, env), g.num(x.Y, env)
		}
		switch x.Op {
		case token.EQL:
			return "(" + a + " =? " + b + ")"
		case token.NEQ:
			return "negb (" + a + " =? " + b + ")"
		case token.LSS:
			return "(" + a + " <? " + b + ")"
		case token.LEQ:
			return "(" + a + " <=? " + b + ")"
		case token.GTR:
			return "(" + b + " <? " + a + ")"
		case token.GEQ:
			return "(" + b + " <=? " + a + ")"
		}
	}
	return g.refuse(e.Pos(), "condition %s", exprText(e))
}
