package main

// ArithGen: the integer arithmetic that decides frame and chunk sizes, TRANSLATED (not summarised)
// into Gallina functions over Z, with Go's fixed-width wrap-around written at every operation:
//
//	connState.maxReplyPayload (server.go)            gen_maxReplyPayload
//	roundDown (client.go)                            gen_roundDown
//	every assignment to c.payloadSize (client.go)    gen_payloadSize_sites
//	the value of `count` in tread.handle,
//	treaddir.handle (handlers.go) and
//	clientFile.Readdir (client_file.go)              gen_tread_count, gen_treaddir_count, gen_readdir_count
//	chunk (client_file.go): the empty-buffer case,
//	what precedes the call of fn in the loop body,
//	the slice handed to fn, what follows the call    gen_chunk_*
//
// The theorems of C13/C11 that concern these quantities are then proved about the GENERATED
// definitions (Frame/ArithTie.v, Client/ChunkTie.v), so an edit of the Go arithmetic re-opens a
// proof, not only a differential case.
//
// Shapes accepted (anything else is refused with file:line):
//   statements   x := e | x = e | x += e | x -= e | const x = e | var x T | var x, y T
//                if [init;] c { ... } [else { ... }] | return e.. | panic(..) | for { ... } (chunk only)
//   expressions  integer literals, identifiers, the externals listed in arithExternals, len(x),
//                T(e) for integer T, + - * %, comparisons, && || !, parentheses
// Types are tracked syntactically (parameters, := from the right-hand side, conversions); an
// untyped constant takes the type of the other operand.

import (
	"bytes"
	"fmt"
	"go/ast"
	"go/printer"
	"go/token"
	"sort"
	"strings"
)

type aTy string

const (
	tyU32     aTy = "uint32"
	tyU64     aTy = "uint64"
	tyInt     aTy = "int"
	tyI64     aTy = "int64"
	tyUntyped aTy = "untyped"
	tyBool    aTy = "bool"
	tyErr     aTy = "error"
)

func aWrap(t aTy, s string) string {
	switch t {
	case tyU32:
		return "(w32 (" + s + "))"
	case tyU64:
		return "(w64 (" + s + "))"
	case tyInt, tyI64:
		return "(wi64 (" + s + "))"
	}
	return "(" + s + ")"
}

type aVar struct {
	coq string
	ty  aTy
}

// external leaves: source text -> (parameter name, type).  The generated function takes one
// parameter per external it mentions, in order of first appearance.
var arithExternals = map[string]aVar{
	"atomic.LoadUint32(&cs.messageSize)": {"cs_messageSize", tyU32},
	"c.messageSize":                      {"c_messageSize", tyU32},
	"c.client.messageSize":               {"c_messageSize", tyU32},
	"msgDotLRegistry.largestFixedSize":   {"largestFixedSize", tyU32},
	"t.Count":                            {"t_Count", tyU32},
	"rversion.MSize":                     {"rversion_MSize", tyU32},
}

// package constants usable in these functions (typed uint32 in transport.go)
var arithConsts = map[string]aVar{
	"maximumLength": {"(Z.of_N p9_maximumLength)", tyU32},
	"headerLength":  {"(Z.of_N p9_headerLength)", tyU32},
}

type aCtx struct {
	r      *Repo
	env    map[string]aVar
	params []aVar          // externals used, in order
	seen   map[string]bool // by coq name
	fresh  int
	fns    map[string][]aVar // generated functions callable from expressions: name -> params
}

func newACtx(r *Repo, fns map[string][]aVar) *aCtx {
	return &aCtx{r: r, env: map[string]aVar{}, seen: map[string]bool{}, fns: fns}
}

func (c *aCtx) clone() *aCtx {
	d := &aCtx{r: c.r, env: map[string]aVar{}, params: c.params, seen: c.seen, fresh: c.fresh, fns: c.fns}
	for k, v := range c.env {
		d.env[k] = v
	}
	return d
}

func (c *aCtx) useParam(v aVar) {
	if !c.seen[v.coq] {
		c.seen[v.coq] = true
		c.params = append(c.params, v)
	}
}

func srcText(fset *token.FileSet, n ast.Node) string {
	var b bytes.Buffer
	printer.Fprint(&b, fset, n)
	return strings.Join(strings.Fields(b.String()), " ")
}

func intTypeName(e ast.Expr) (aTy, bool) {
	if id, ok := e.(*ast.Ident); ok {
		switch id.Name {
		case "uint32":
			return tyU32, true
		case "uint64":
			return tyU64, true
		case "int":
			return tyInt, true
		case "int64":
			return tyI64, true
		}
	}
	return "", false
}

func (c *aCtx) expr(e ast.Expr) (string, aTy, error) {
	txt := srcText(c.r.Fset, e)
	if v, ok := arithExternals[txt]; ok {
		c.useParam(v)
		return v.coq, v.ty, nil
	}
	switch x := e.(type) {
	case *ast.ParenExpr:
		return c.expr(x.X)
	case *ast.BasicLit:
		if x.Kind == token.INT {
			return "(" + strings.ReplaceAll(x.Value, "_", "") + ")", tyUntyped, nil
		}
	case *ast.Ident:
		if x.Name == "nil" {
			return "ENil", tyErr, nil
		}
		if v, ok := c.env[x.Name]; ok {
			return v.coq, v.ty, nil
		}
		if v, ok := arithConsts[x.Name]; ok {
			return v.coq, v.ty, nil
		}
	case *ast.CallExpr:
		if id, ok := x.Fun.(*ast.Ident); ok {
			if t, ok := intTypeName(id); ok && len(x.Args) == 1 {
				s, _, err := c.expr(x.Args[0])
				if err != nil {
					return "", "", err
				}
				return aWrap(t, s), t, nil
			}
			if id.Name == "len" && len(x.Args) == 1 {
				if a, ok := x.Args[0].(*ast.Ident); ok {
					v := aVar{"len_" + a.Name, tyInt}
					c.useParam(v)
					return v.coq, tyInt, nil
				}
			}
			if ps, ok := c.fns[id.Name]; ok {
				return c.callGen(id.Name, ps, x.Args)
			}
		}
		if sel, ok := x.Fun.(*ast.SelectorExpr); ok && len(x.Args) == 0 {
			if ps, ok := c.fns[sel.Sel.Name]; ok { // method of the connection with no arguments: cs.maxReplyPayload()
				for _, p := range ps {
					c.useParam(p)
				}
				var as []string
				for _, p := range ps {
					as = append(as, p.coq)
				}
				return "(gen_" + sel.Sel.Name + " " + strings.Join(as, " ") + ")", tyU32, nil
			}
		}
	case *ast.UnaryExpr:
		if x.Op == token.NOT {
			s, t, err := c.expr(x.X)
			if err != nil {
				return "", "", err
			}
			if t != tyBool {
				return "", "", c.r.Refuse(e.Pos(), "! on a non-boolean %s", txt)
			}
			return "(negb " + s + ")", tyBool, nil
		}
	case *ast.BinaryExpr:
		a, ta, err := c.expr(x.X)
		if err != nil {
			return "", "", err
		}
		b, tb, err := c.expr(x.Y)
		if err != nil {
			return "", "", err
		}
		switch x.Op {
		case token.LAND, token.LOR:
			if ta != tyBool || tb != tyBool {
				return "", "", c.r.Refuse(e.Pos(), "boolean operator on %s", txt)
			}
			if x.Op == token.LAND {
				return "(" + a + " && " + b + ")", tyBool, nil
			}
			return "(" + a + " || " + b + ")", tyBool, nil
		}
		if ta == tyErr || tb == tyErr {
			op := map[token.Token]string{token.EQL: "err_eqb", token.NEQ: "err_neqb"}[x.Op]
			if op == "" {
				return "", "", c.r.Refuse(e.Pos(), "operator on errors in %s", txt)
			}
			return "(" + op + " " + a + " " + b + ")", tyBool, nil
		}
		t := ta
		if t == tyUntyped {
			t = tb
		}
		if ta != tyUntyped && tb != tyUntyped && ta != tb {
			return "", "", c.r.Refuse(e.Pos(), "operands of different types (%s, %s) in %s", ta, tb, txt)
		}
		switch x.Op {
		case token.ADD:
			return aWrap(t, a+" + "+b), t, nil
		case token.SUB:
			return aWrap(t, a+" - "+b), t, nil
		case token.MUL:
			return aWrap(t, a+" * "+b), t, nil
		case token.REM:
			if t != tyU32 && t != tyU64 {
				return "", "", c.r.Refuse(e.Pos(), "%% on a signed type in %s", txt)
			}
			return "(gomod " + a + " " + b + ")", t, nil
		case token.LSS:
			return "(" + a + " <? " + b + ")", tyBool, nil
		case token.LEQ:
			return "(" + a + " <=? " + b + ")", tyBool, nil
		case token.GTR:
			return "(" + b + " <? " + a + ")", tyBool, nil
		case token.GEQ:
			return "(" + b + " <=? " + a + ")", tyBool, nil
		case token.EQL:
			return "(" + a + " =? " + b + ")", tyBool, nil
		case token.NEQ:
			return "(negb (" + a + " =? " + b + "))", tyBool, nil
		}
	}
	return "", "", c.r.Refuse(e.Pos(), "expression %s", txt)
}

func (c *aCtx) callGen(name string, ps []aVar, args []ast.Expr) (string, aTy, error) {
	if len(args) != len(ps) {
		return "", "", c.r.Refuse(args[0].Pos(), "call of %s with %d arguments", name, len(args))
	}
	var as []string
	for i, a := range args {
		s, t, err := c.expr(a)
		if err != nil {
			return "", "", err
		}
		if t == tyUntyped {
			s = aWrap(ps[i].ty, s)
		} else if t != ps[i].ty {
			return "", "", c.r.Refuse(a.Pos(), "argument %d of %s has type %s, want %s", i, name, t, ps[i].ty)
		}
		as = append(as, s)
	}
	return "(gen_" + name + " " + strings.Join(as, " ") + ")", tyU32, nil
}

func (c *aCtx) bind(name string, ty aTy) string {
	c.fresh++
	coq := fmt.Sprintf("%s_%d", name, c.fresh)
	c.env[name] = aVar{coq, ty}
	return coq
}

// assigned returns the local names assigned (=, +=, -=) in a block, sorted; refuses anything but
// assignments / nested ifs without returns.
func (c *aCtx) assigned(b []ast.Stmt, out map[string]bool) error {
	for _, s := range b {
		switch x := s.(type) {
		case *ast.AssignStmt:
			for _, l := range x.Lhs {
				id, ok := l.(*ast.Ident)
				if !ok {
					return c.r.Refuse(s.Pos(), "assignment target %s", srcText(c.r.Fset, l))
				}
				if x.Tok != token.DEFINE {
					out[id.Name] = true
				}
			}
		case *ast.IfStmt:
			if err := c.assigned(x.Body.List, out); err != nil {
				return err
			}
			if x.Else != nil {
				eb, ok := x.Else.(*ast.BlockStmt)
				if !ok {
					return c.r.Refuse(s.Pos(), "else-if")
				}
				if err := c.assigned(eb.List, out); err != nil {
					return err
				}
			}
		case *ast.ReturnStmt, *ast.ExprStmt:
		default:
			return c.r.Refuse(s.Pos(), "statement inside a conditional")
		}
	}
	return nil
}

func hasReturn(b []ast.Stmt) bool {
	found := false
	for _, s := range b {
		ast.Inspect(s, func(n ast.Node) bool {
			switch x := n.(type) {
			case *ast.ReturnStmt:
				found = true
			case *ast.ExprStmt:
				if ce, ok := x.X.(*ast.CallExpr); ok {
					if id, ok := ce.Fun.(*ast.Ident); ok && id.Name == "panic" {
						found = true
					}
				}
			}
			return true
		})
	}
	return found
}

// block translates a statement list in continuation style.  ret renders a `return`; fall renders
// falling off the end of the list (with the environment in force there).
type aRender struct {
	ret   func(c *aCtx, s *ast.ReturnStmt) (string, error)
	fall  func(c *aCtx) (string, error)
	panik string
	// skip: statements the caller wants ignored (they must not assign tracked variables)
	skip func(s ast.Stmt) bool
}

func (c *aCtx) block(stmts []ast.Stmt, rn *aRender) (string, error) {
	if len(stmts) == 0 {
		return rn.fall(c)
	}
	s, rest := stmts[0], stmts[1:]
	if rn.skip != nil && rn.skip(s) {
		return c.block(rest, rn)
	}
	switch x := s.(type) {
	case *ast.DeclStmt:
		gd, ok := x.Decl.(*ast.GenDecl)
		if !ok {
			break
		}
		out := ""
		for _, sp := range gd.Specs {
			vs, ok := sp.(*ast.ValueSpec)
			if !ok {
				return "", c.r.Refuse(s.Pos(), "declaration")
			}
			if len(vs.Values) == 0 { // var x T: zero value
				t, ok := intTypeName(vs.Type)
				if !ok {
					if id, ok2 := vs.Type.(*ast.Ident); ok2 && id.Name == "error" {
						for _, n := range vs.Names {
							c.env[n.Name] = aVar{"ENil", tyErr}
						}
						continue
					}
					return "", c.r.Refuse(s.Pos(), "var of type %s", srcText(c.r.Fset, vs.Type))
				}
				for _, n := range vs.Names {
					out += "let " + c.bind(n.Name, t) + " := 0 in\n  "
				}
				continue
			}
			if len(vs.Values) != len(vs.Names) {
				return "", c.r.Refuse(s.Pos(), "declaration arity")
			}
			for i, n := range vs.Names {
				v, t, err := c.expr(vs.Values[i])
				if err != nil {
					return "", err
				}
				if vs.Type != nil {
					tt, ok := intTypeName(vs.Type)
					if !ok {
						return "", c.r.Refuse(s.Pos(), "declared type")
					}
					v, t = aWrap(tt, v), tt
				}
				out += "let " + c.bind(n.Name, t) + " := " + v + " in\n  "
			}
		}
		k, err := c.block(rest, rn)
		return out + k, err
	case *ast.AssignStmt:
		if len(x.Lhs) != 1 || len(x.Rhs) != 1 {
			return "", c.r.Refuse(s.Pos(), "multiple assignment %s", srcText(c.r.Fset, s))
		}
		id, ok := x.Lhs[0].(*ast.Ident)
		if !ok {
			return "", c.r.Refuse(s.Pos(), "assignment target")
		}
		v, t, err := c.expr(x.Rhs[0])
		if err != nil {
			return "", err
		}
		switch x.Tok {
		case token.DEFINE:
			if t == tyUntyped {
				t = tyInt
			}
		case token.ASSIGN, token.ADD_ASSIGN, token.SUB_ASSIGN:
			old, ok := c.env[id.Name]
			if !ok {
				return "", c.r.Refuse(s.Pos(), "assignment to unknown %s", id.Name)
			}
			if t == tyUntyped {
				t = old.ty
			}
			if t != old.ty {
				return "", c.r.Refuse(s.Pos(), "assignment changes the type of %s (%s -> %s)", id.Name, old.ty, t)
			}
			if x.Tok == token.ADD_ASSIGN {
				v = aWrap(t, old.coq+" + "+v)
			} else if x.Tok == token.SUB_ASSIGN {
				v = aWrap(t, old.coq+" - "+v)
			}
		default:
			return "", c.r.Refuse(s.Pos(), "assignment operator")
		}
		out := "let " + c.bind(id.Name, t) + " := " + v + " in\n  "
		k, err := c.block(rest, rn)
		return out + k, err
	case *ast.ReturnStmt:
		return rn.ret(c, x)
	case *ast.ExprStmt:
		if ce, ok := x.X.(*ast.CallExpr); ok {
			if id, ok := ce.Fun.(*ast.Ident); ok && id.Name == "panic" && rn.panik != "" {
				return rn.panik, nil
			}
		}
	case *ast.IfStmt:
		cc := c
		pre := ""
		if x.Init != nil {
			as, ok := x.Init.(*ast.AssignStmt)
			if !ok || as.Tok != token.DEFINE || len(as.Lhs) != 1 || len(as.Rhs) != 1 {
				return "", c.r.Refuse(s.Pos(), "if-initialiser")
			}
			v, t, err := c.expr(as.Rhs[0])
			if err != nil {
				return "", err
			}
			if t == tyUntyped {
				t = tyInt
			}
			// scoped to the if statement: restore afterwards
			saved, had := c.env[as.Lhs[0].(*ast.Ident).Name]
			name := as.Lhs[0].(*ast.Ident).Name
			pre = "let " + c.bind(name, t) + " := " + v + " in\n  "
			defer func() {
				if had {
					c.env[name] = saved
				} else {
					delete(c.env, name)
				}
			}()
		}
		cond, t, err := cc.expr(x.Cond)
		if err != nil {
			return "", err
		}
		if t != tyBool {
			return "", c.r.Refuse(s.Pos(), "non-boolean condition")
		}
		var els []ast.Stmt
		if x.Else != nil {
			eb, ok := x.Else.(*ast.BlockStmt)
			if !ok {
				return "", c.r.Refuse(s.Pos(), "else-if")
			}
			els = eb.List
		}
		if hasReturn(x.Body.List) || hasReturn(els) {
			// branches that may leave: duplicate the continuation
			tc, ec := c.clone(), c.clone()
			tb, err := tc.block(append(append([]ast.Stmt{}, x.Body.List...), rest...), rn)
			if err != nil {
				return "", err
			}
			ebs, err := ec.block(append(append([]ast.Stmt{}, els...), rest...), rn)
			if err != nil {
				return "", err
			}
			c.params, c.fresh = mergeParams(tc, ec), maxInt(tc.fresh, ec.fresh)
			return pre + "if " + cond + "\n  then (" + tb + ")\n  else (" + ebs + ")", nil
		}
		// pure assignments: join the assigned variables
		set := map[string]bool{}
		if err := c.assigned(x.Body.List, set); err != nil {
			return "", err
		}
		if err := c.assigned(els, set); err != nil {
			return "", err
		}
		var names []string
		for n := range set {
			if _, ok := c.env[n]; !ok {
				return "", c.r.Refuse(s.Pos(), "assignment to unknown %s", n)
			}
			names = append(names, n)
		}
		sort.Strings(names)
		tuple := func(cx *aCtx) string {
			var vs []string
			for _, n := range names {
				vs = append(vs, cx.env[n].coq)
			}
			if len(vs) == 1 {
				return vs[0]
			}
			return "(" + strings.Join(vs, ", ") + ")"
		}
		joinRn := &aRender{ret: rn.ret, panik: rn.panik, fall: func(cx *aCtx) (string, error) { return tuple(cx), nil }}
		tc, ec := c.clone(), c.clone()
		tb, err := tc.block(x.Body.List, joinRn)
		if err != nil {
			return "", err
		}
		ebs, err := ec.block(els, joinRn)
		if err != nil {
			return "", err
		}
		c.params, c.fresh = mergeParams(tc, ec), maxInt(tc.fresh, ec.fresh)
		var pats []string
		for _, n := range names {
			pats = append(pats, c.bind(n, c.env[n].ty))
		}
		pat := pats[0]
		if len(pats) > 1 {
			pat = "'(" + strings.Join(pats, ", ") + ")"
		}
		out := pre + "let " + pat + " := (if " + cond + " then (" + tb + ") else (" + ebs + ")) in\n  "
		k, err := c.block(rest, rn)
		return out + k, err
	}
	return "", c.r.Refuse(s.Pos(), "statement %s", srcText(c.r.Fset, s))
}

func mergeParams(a, b *aCtx) []aVar {
	// seen is shared, params slices may have diverged by appends: rebuild in order a then b
	var out []aVar
	in := map[string]bool{}
	for _, l := range [][]aVar{a.params, b.params} {
		for _, v := range l {
			if !in[v.coq] {
				in[v.coq] = true
				out = append(out, v)
			}
		}
	}
	return out
}

func maxInt(a, b int) int {
	if a > b {
		return a
	}
	return b
}

func paramList(ps []aVar) string {
	var b strings.Builder
	for _, p := range ps {
		b.WriteString(" (" + p.coq + " : Z)")
	}
	return b.String()
}

// pureFunc translates a function whose parameters are integers and that returns one integer.
func arithPureFunc(r *Repo, fd *ast.FuncDecl, fns map[string][]aVar, recvParams bool) (string, []aVar, error) {
	c := newACtx(r, fns)
	var sig []aVar
	for _, f := range fd.Type.Params.List {
		t, ok := intTypeName(f.Type)
		if !ok {
			return "", nil, r.Refuse(f.Pos(), "parameter type of %s", fd.Name.Name)
		}
		for _, n := range f.Names {
			v := aVar{n.Name, t}
			c.env[n.Name] = v
			sig = append(sig, v)
		}
	}
	rn := &aRender{
		ret: func(cx *aCtx, s *ast.ReturnStmt) (string, error) {
			if len(s.Results) != 1 {
				return "", r.Refuse(s.Pos(), "return arity")
			}
			v, t, err := cx.expr(s.Results[0])
			if err != nil {
				return "", err
			}
			if t == tyUntyped {
				v = aWrap(tyU32, v)
			}
			return v, nil
		},
		fall: func(cx *aCtx) (string, error) { return "", r.Refuse(fd.End(), "%s falls off its end", fd.Name.Name) },
	}
	body, err := c.block(fd.Body.List, rn)
	if err != nil {
		return "", nil, err
	}
	all := append(append([]aVar{}, sig...), c.params...)
	return fmt.Sprintf("Definition gen_%s%s : Z :=\n  %s.\n", fd.Name.Name, paramList(all), body), all, nil
}

// valueOf translates the top-level statements of fd that assign the local `name`
// (x := e, x = e, if [init;] c { x = e }) and yields its final value.
func arithValueOf(r *Repo, fd *ast.FuncDecl, name, defName string, fns map[string][]aVar) (string, error) {
	c := newACtx(r, fns)
	for _, f := range fd.Type.Params.List {
		if t, ok := intTypeName(f.Type); ok {
			for _, n := range f.Names {
				v := aVar{"arg_" + n.Name, t}
				c.env[n.Name] = v
				if n.Name == name {
					c.useParam(v)
				}
			}
		}
	}
	mentionsAssign := func(s ast.Stmt) bool {
		found := false
		ast.Inspect(s, func(n ast.Node) bool {
			if as, ok := n.(*ast.AssignStmt); ok {
				for _, l := range as.Lhs {
					if id, ok := l.(*ast.Ident); ok && id.Name == name {
						found = true
					}
				}
			}
			if _, ok := n.(*ast.FuncLit); ok {
				// assignments inside closures are looked at too (found stays as set by children)
			}
			return true
		})
		return found
	}
	var sel []ast.Stmt
	for _, s := range fd.Body.List {
		if mentionsAssign(s) {
			sel = append(sel, s)
		}
	}
	if len(sel) == 0 {
		if _, ok := c.env[name]; !ok {
			return "", r.Refuse(fd.Pos(), "%s: no assignment to %s", fd.Name.Name, name)
		}
	}
	rn := &aRender{
		ret:  func(cx *aCtx, s *ast.ReturnStmt) (string, error) { return "", r.Refuse(s.Pos(), "return inside the computation of %s", name) },
		fall: func(cx *aCtx) (string, error) { return cx.env[name].coq, nil },
	}
	body, err := c.block(sel, rn)
	if err != nil {
		return "", err
	}
	return fmt.Sprintf("Definition %s%s : Z :=\n  %s.\n", defName, paramList(c.params), body), nil
}

func arithGen(r *Repo) (string, error) {
	fds, err := r.FuncDecls("p9")
	if err != nil {
		return "", err
	}
	need := func(k string) (*ast.FuncDecl, error) {
		fd, ok := fds[k]
		if !ok || fd.Body == nil {
			return nil, fmt.Errorf("p9: function %s not found", k)
		}
		return fd, nil
	}
	var b strings.Builder
	b.WriteString("From Coq Require Import ZArith NArith List String Bool.\nFrom P9V Require Import gen.ConstGen Base.GoArith.\nImport ListNotations.\nLocal Open Scope Z_scope.\nLocal Open Scope bool_scope.\n\n")
	fns := map[string][]aVar{}

	// connState.maxReplyPayload: a method reading one field through atomic.LoadUint32
	fd, err := need("connState.maxReplyPayload")
	if err != nil {
		return "", err
	}
	if fd.Type.Params.NumFields() != 0 {
		return "", r.Refuse(fd.Pos(), "maxReplyPayload takes parameters")
	}
	txt, ps, err := arithPureFunc(r, fd, fns, true)
	if err != nil {
		return "", err
	}
	b.WriteString("(* server.go: func (cs *connState) maxReplyPayload() uint32 *)\n" + txt + "\n")
	fns["maxReplyPayload"] = ps

	fd, err = need("roundDown")
	if err != nil {
		return "", err
	}
	txt, ps, err = arithPureFunc(r, fd, fns, false)
	if err != nil {
		return "", err
	}
	b.WriteString("(* client.go: func roundDown(p uint32, align uint32) uint32 *)\n" + txt + "\n")
	fns["roundDown"] = ps

	// every assignment to <x>.payloadSize in package p9
	files, err := r.Files("p9")
	if err != nil {
		return "", err
	}
	var sites []string
	for _, fn := range SortedNames(files) {
		var ferr error
		ast.Inspect(files[fn], func(n ast.Node) bool {
			as, ok := n.(*ast.AssignStmt)
			if !ok || ferr != nil {
				return true
			}
			for i, l := range as.Lhs {
				sel, ok := l.(*ast.SelectorExpr)
				if !ok || sel.Sel.Name != "payloadSize" {
					continue
				}
				if as.Tok != token.ASSIGN || len(as.Rhs) != len(as.Lhs) {
					ferr = r.Refuse(as.Pos(), "assignment to payloadSize")
					return false
				}
				c := newACtx(r, fns)
				v, t, err := c.expr(as.Rhs[i])
				if err != nil {
					ferr = err
					return false
				}
				if t != tyU32 {
					ferr = r.Refuse(as.Pos(), "payloadSize assigned a %s", t)
					return false
				}
				want := []string{"c_messageSize", "largestFixedSize"}
				if len(c.params) != 2 || c.params[0].coq != want[0] || c.params[1].coq != want[1] {
					ferr = r.Refuse(as.Pos(), "payloadSize computed from something other than (messageSize, largestFixedSize)")
					return false
				}
				sites = append(sites, fmt.Sprintf("(fun c_messageSize largestFixedSize : Z => %s)", v))
			}
			return true
		})
		if ferr != nil {
			return "", ferr
		}
	}
	b.WriteString("(* every assignment to Client.payloadSize, as a function of (c.messageSize, msgDotLRegistry.largestFixedSize) *)\n")
	b.WriteString("Definition gen_payloadSize_sites : list (Z -> Z -> Z) := [\n  " + strings.Join(sites, ";\n  ") + "\n].\n\n")

	for _, it := range []struct{ fn, v, def, note string }{
		{"tread.handle", "count", "gen_tread_count", "handlers.go tread.handle: the final value of count (length of the data slice handed to ReadAt / copy)"},
		{"treaddir.handle", "count", "gen_treaddir_count", "handlers.go treaddir.handle: the final value of count (Rreaddir.Count)"},
		{"clientFile.Readdir", "count", "gen_readdir_count", "client_file.go clientFile.Readdir: the count sent in Treaddir"},
	} {
		fd, err := need(it.fn)
		if err != nil {
			return "", err
		}
		txt, err := arithValueOf(r, fd, it.v, it.def, fns)
		if err != nil {
			return "", err
		}
		b.WriteString("(* " + it.note + " *)\n" + txt + "\n")
		// where the variable and the raw request field are read
		var uses []string
		for _, s := range fd.Body.List {
			arithCollectUses(r, s, it.v, &uses)
		}
		var q []string
		for _, u := range uses {
			q = append(q, CoqString(u))
		}
		b.WriteString("Definition " + it.def + "_uses : list string := [" + strings.Join(q, "; ") + "]%string.\n\n")
	}

	// chunk
	fd, err = need("chunk")
	if err != nil {
		return "", err
	}
	txt, err = arithChunk(r, fd)
	if err != nil {
		return "", err
	}
	b.WriteString(txt)
	return b.String(), nil
}

// arithCollectUses lists (source text) the innermost simple statements / expressions that read the
// variable `name` or the request field t.Count, closures included, except its own assignments' left sides.
func arithCollectUses(r *Repo, s ast.Stmt, name string, out *[]string) {
	ast.Inspect(s, func(n ast.Node) bool {
		switch x := n.(type) {
		case *ast.SliceExpr, *ast.CompositeLit, *ast.CallExpr:
			hit := false
			ast.Inspect(n, func(m ast.Node) bool {
				if id, ok := m.(*ast.Ident); ok && id.Name == name {
					hit = true
				}
				if se, ok := m.(*ast.SelectorExpr); ok && se.Sel.Name == "Count" {
					if id, ok := se.X.(*ast.Ident); ok && id.Name == "t" {
						hit = true
					}
				}
				if m != n {
					switch m.(type) {
					case *ast.FuncLit:
						return false
					}
				}
				return true
			})
			_ = x
			if hit {
				if ce, ok := n.(*ast.CallExpr); ok {
					// descend into calls that carry closures (safelyRead(func() ...))
					for _, a := range ce.Args {
						if _, ok := a.(*ast.FuncLit); ok {
							return true
						}
					}
				}
				*out = append(*out, srcText(r.Fset, n))
				return false
			}
		}
		return true
	})
}

// arithChunk translates func chunk(chunkSize uint32, fn func([]byte, int64) (int, error), p []byte, offset int64) (int, error).
func arithChunk(r *Repo, fd *ast.FuncDecl) (string, error) {
	ps := fd.Type.Params.List
	flat := []string{}
	for _, f := range ps {
		for _, n := range f.Names {
			flat = append(flat, n.Name+":"+srcText(r.Fset, f.Type))
		}
	}
	want := []string{"chunkSize:uint32", "fn:func([]byte, int64) (int, error)", "p:[]byte", "offset:int64"}
	if strings.Join(flat, "|") != strings.Join(want, "|") {
		return "", r.Refuse(fd.Pos(), "signature of chunk: %s", strings.Join(flat, "|"))
	}
	body := fd.Body.List
	// 1. if len(p) == 0 { return fn(p, offset) }
	if len(body) < 3 {
		return "", r.Refuse(fd.Pos(), "body of chunk")
	}
	ifs, ok := body[0].(*ast.IfStmt)
	if !ok || ifs.Init != nil || ifs.Else != nil || len(ifs.Body.List) != 1 {
		return "", r.Refuse(body[0].Pos(), "first statement of chunk")
	}
	c0 := newACtx(r, nil)
	cond0, t0, err := c0.expr(ifs.Cond)
	if err != nil || t0 != tyBool {
		return "", r.Refuse(ifs.Pos(), "condition of the empty-buffer case")
	}
	if got := srcText(r.Fset, ifs.Body.List[0]); got != "return fn(p, offset)" {
		return "", r.Refuse(ifs.Body.List[0].Pos(), "empty-buffer case does %s", got)
	}
	var b strings.Builder
	b.WriteString("(* client_file.go: func chunk.  [len_p] = len(p); the empty-buffer case hands p (all of it) and offset to fn and returns its answer *)\n")
	b.WriteString("Definition gen_chunk_empty_case (len_p : Z) : bool :=\n  " + cond0 + ".\n\n")
	// 2. declarations before the loop, 3. the loop
	var loop *ast.ForStmt
	c := newACtx(r, nil)
	c.env["chunkSize"] = aVar{"chunkSize", tyU32}
	c.env["offset"] = aVar{"offset", tyI64}
	pre := ""
	for _, s := range body[1:] {
		if f, ok := s.(*ast.ForStmt); ok {
			if f.Init != nil || f.Cond != nil || f.Post != nil {
				return "", r.Refuse(f.Pos(), "loop header of chunk")
			}
			loop = f
			continue
		}
		if loop != nil {
			return "", r.Refuse(s.Pos(), "statement after the loop of chunk")
		}
		ds, ok := s.(*ast.DeclStmt)
		if !ok {
			return "", r.Refuse(s.Pos(), "statement before the loop of chunk")
		}
		txt, err := c.block([]ast.Stmt{ds}, &aRender{fall: func(cx *aCtx) (string, error) { return "", nil }})
		if err != nil {
			return "", err
		}
		pre += txt
	}
	if loop == nil {
		return "", r.Refuse(fd.Pos(), "chunk has no loop")
	}
	// the variables carried around the loop: those declared before it plus offset
	var carried []string
	for n := range c.env {
		if n != "chunkSize" && n != "offset" {
			carried = append(carried, n)
		}
	}
	sort.Strings(carried)
	if strings.Join(carried, ",") != "total" {
		return "", r.Refuse(fd.Pos(), "chunk carries %v around its loop (expected total)", carried)
	}
	if !strings.Contains(pre, ":= 0 in") {
		return "", r.Refuse(fd.Pos(), "total does not start at 0")
	}
	// split the loop body at the statement that calls fn
	idx := -1
	for i, s := range loop.Body.List {
		calls := false
		ast.Inspect(s, func(n ast.Node) bool {
			if ce, ok := n.(*ast.CallExpr); ok {
				if id, ok := ce.Fun.(*ast.Ident); ok && id.Name == "fn" {
					calls = true
				}
			}
			return true
		})
		if calls {
			if idx >= 0 {
				return "", r.Refuse(s.Pos(), "second statement calling fn")
			}
			idx = i
		}
	}
	if idx < 0 {
		return "", r.Refuse(loop.Pos(), "loop never calls fn")
	}
	// locals declared in the loop body before the call (var n int; var err error) are skipped: they are (re)bound by the call
	isDecl := func(s ast.Stmt) bool { _, ok := s.(*ast.DeclStmt); return ok }
	for _, s := range loop.Body.List[:idx] {
		if ds, ok := s.(*ast.DeclStmt); ok {
			for _, sp := range ds.Decl.(*ast.GenDecl).Specs {
				vs := sp.(*ast.ValueSpec)
				if len(vs.Values) != 0 {
					return "", r.Refuse(s.Pos(), "initialised local in the loop")
				}
				for _, n := range vs.Names {
					if n.Name != "n" && n.Name != "err" {
						return "", r.Refuse(s.Pos(), "local %s in the loop", n.Name)
					}
				}
			}
		}
	}
	mk := func() *aCtx {
		cx := newACtx(r, nil)
		cx.env["chunkSize"] = aVar{"chunkSize", tyU32}
		cx.env["offset"] = aVar{"offset", tyI64}
		cx.env["total"] = aVar{"total", tyInt}
		return cx
	}
	retPair := func(cx *aCtx, s *ast.ReturnStmt) (string, error) {
		if len(s.Results) != 2 {
			return "", r.Refuse(s.Pos(), "return arity in chunk")
		}
		v, t, err := cx.expr(s.Results[0])
		if err != nil {
			return "", err
		}
		if t != tyInt {
			return "", r.Refuse(s.Pos(), "chunk returns a %s count", t)
		}
		e, te, err := cx.expr(s.Results[1])
		if err != nil || te != tyErr {
			return "", r.Refuse(s.Pos(), "chunk returns error %s", srcText(r.Fset, s.Results[1]))
		}
		return "GReturn " + v + " " + e, nil
	}
	// (a) before the call: may return
	cx := mk()
	preTxt, err := cx.block(loop.Body.List[:idx], &aRender{ret: retPair, skip: isDecl, fall: func(*aCtx) (string, error) { return "GCall", nil }})
	if err != nil {
		return "", err
	}
	b.WriteString("(* the loop body up to the call of fn *)\nDefinition gen_chunk_before (chunkSize len_p total offset : Z) : gpre :=\n  " + preTxt + ".\n\n")
	// (b) the call: n, err = fn(p[lo:hi], offset) possibly under if/else
	cx = mk()
	callTxt, err := arithChunkCall(r, cx, loop.Body.List[idx])
	if err != nil {
		return "", err
	}
	b.WriteString("(* the slice p[lo:hi] and the offset handed to fn *)\nDefinition gen_chunk_call (chunkSize len_p total offset : Z) : Z * Z * Z :=\n  " + callTxt + ".\n\n")
	// (c) after the call
	cx = mk()
	cx.env["n"] = aVar{"n", tyInt}
	cx.env["err"] = aVar{"err", tyErr}
	postRet := func(cx *aCtx, s *ast.ReturnStmt) (string, error) {
		t, err := retPair(cx, s)
		return strings.Replace(t, "GReturn", "GRet", 1), err
	}
	postTxt, err := cx.block(loop.Body.List[idx+1:], &aRender{ret: postRet, panik: "GPanic",
		fall: func(cx *aCtx) (string, error) { return "GNext " + cx.env["total"].coq + " " + cx.env["offset"].coq, nil }})
	if err != nil {
		return "", err
	}
	b.WriteString("(* the loop body after fn returned (n, err) *)\nDefinition gen_chunk_after (chunkSize len_p total offset n : Z) (err : gerr) : gpost :=\n  " + postTxt + ".\n")
	return b.String(), nil
}

// arithChunkCall: `n, err = fn(p[a:b], off)` or an if/else of two such statements.
func arithChunkCall(r *Repo, c *aCtx, s ast.Stmt) (string, error) {
	one := func(st ast.Stmt) (string, error) {
		as, ok := st.(*ast.AssignStmt)
		if !ok || len(as.Lhs) != 2 || len(as.Rhs) != 1 || as.Tok != token.ASSIGN {
			return "", r.Refuse(st.Pos(), "call statement %s", srcText(r.Fset, st))
		}
		if srcText(r.Fset, as.Lhs[0]) != "n" || srcText(r.Fset, as.Lhs[1]) != "err" {
			return "", r.Refuse(st.Pos(), "results of fn go to %s", srcText(r.Fset, st))
		}
		ce, ok := as.Rhs[0].(*ast.CallExpr)
		if !ok || len(ce.Args) != 2 {
			return "", r.Refuse(st.Pos(), "call of fn")
		}
		sl, ok := ce.Args[0].(*ast.SliceExpr)
		if !ok || srcText(r.Fset, sl.X) != "p" || sl.Slice3 {
			return "", r.Refuse(st.Pos(), "first argument of fn is %s", srcText(r.Fset, ce.Args[0]))
		}
		lo, hi := "0", "len_p"
		if sl.Low != nil {
			v, t, err := c.expr(sl.Low)
			if err != nil || t != tyInt {
				return "", r.Refuse(st.Pos(), "slice bound")
			}
			lo = v
		}
		if sl.High != nil {
			v, t, err := c.expr(sl.High)
			if err != nil || t != tyInt {
				return "", r.Refuse(st.Pos(), "slice bound")
			}
			hi = v
		}
		off, t, err := c.expr(ce.Args[1])
		if err != nil || t != tyI64 {
			return "", r.Refuse(st.Pos(), "offset argument")
		}
		return "(" + lo + ", " + hi + ", " + off + ")", nil
	}
	if ifs, ok := s.(*ast.IfStmt); ok {
		if ifs.Init != nil || ifs.Else == nil || len(ifs.Body.List) != 1 {
			return "", r.Refuse(s.Pos(), "shape of the call statement")
		}
		eb, ok := ifs.Else.(*ast.BlockStmt)
		if !ok || len(eb.List) != 1 {
			return "", r.Refuse(s.Pos(), "shape of the call statement")
		}
		cond, t, err := c.expr(ifs.Cond)
		if err != nil || t != tyBool {
			return "", r.Refuse(s.Pos(), "condition of the call statement")
		}
		a, err := one(ifs.Body.List[0])
		if err != nil {
			return "", err
		}
		bb, err := one(eb.List[0])
		if err != nil {
			return "", err
		}
		return "if " + cond + " then " + a + " else " + bb, nil
	}
	return one(s)
}

func init() { register(Generator{Name: "ArithGen", Run: arithGen}) }
